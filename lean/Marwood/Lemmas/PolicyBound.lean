import Marwood.Spec.HeapPolicy
/-!
# T12.3 — the growth policy keeps the capacity below a bound that depends only on `L + A`

`Inv` is the induction invariant over operation sequences of `Spec.HeapPolicy`; `a` counts the allocations
since the last collection point.
-/
namespace Marwood.Lemmas.PolicyBound
open Marwood.Heap Marwood.Spec Marwood.Spec.HeapPolicy

theorem grownSize_mono (chunk a b : Nat) (h : a ≤ b) :
    Heap.grownSize chunk a ≤ Heap.grownSize chunk b := by
  unfold Heap.grownSize
  apply Nat.mul_le_mul_right
  have := Nat.div_le_div_right (c := chunk) h
  omega

/-- growing a whole number of chunks never shrinks -/
theorem le_grownSize (chunk k : Nat) : k * chunk ≤ Heap.grownSize chunk (k * chunk) := by
  unfold Heap.grownSize
  by_cases hc : chunk = 0
  · subst hc; simp
  · rw [Nat.mul_div_cancel _ (Nat.pos_of_ne_zero hc)]
    apply Nat.mul_le_mul_right
    omega

theorem grownSize_chunks (chunk cur : Nat) : ∃ k, Heap.grownSize chunk cur = k * chunk := ⟨_, rfl⟩

theorem threshold_ge (A L : Nat) :
    L + A ≤ threshold A L ∧ 4 * A ≤ threshold A L ∧ (4 * L) / 3 ≤ threshold A L := by
  unfold threshold
  omega

structure Inv (chunk cap0 A L a : Nat) (s : PState) : Prop where
  hchunk : s.chunk = chunk
  chunks : ∃ k, s.capacity = k * chunk
  cap : s.capacity ≤ bound chunk cap0 A L
  /-- either a collection left at most `L` cells, or a skipped collection point saw less than ¾ in use -/
  used : s.used ≤ L + a ∨ 4 * s.used < 3 * s.capacity + 4 * a

theorem inv_alloc (chunk cap0 A L a : Nat) (s : PState) (h : Inv chunk cap0 A L a s) (ha : a < A) :
    Inv chunk cap0 A L (a + 1) (alloc s) := by
  obtain ⟨h1, ⟨k, hk⟩, h3, h4⟩ := h
  unfold alloc
  split
  · refine ⟨h1, ⟨k, hk⟩, h3, ?_⟩
    rcases h4 with h4 | h4
    · left; simp only; omega
    · right; simp only; omega
  · rename_i hlt
    have hle : s.capacity ≤ s.used := by omega
    have ht := threshold_ge A L
    have hthr : s.capacity ≤ threshold A L := by
      rcases h4 with h4 | h4 <;> omega
    have hg : s.capacity ≤ Heap.grownSize s.chunk s.capacity := by
      rw [h1, hk]; exact le_grownSize chunk k
    refine ⟨h1, ?_, ?_, ?_⟩
    · simp only [h1]; exact grownSize_chunks _ _
    · simp only [h1]
      have := grownSize_mono chunk _ _ hthr
      unfold bound; omega
    · rcases h4 with h4 | h4
      · left; simp only; omega
      · right; simp only; omega

theorem inv_gcPoint (chunk cap0 A L a : Nat) (s : PState) (force : Bool) (live : Nat)
    (h : Inv chunk cap0 A L a s) (hl : live ≤ L) : Inv chunk cap0 A L 0 (gcPoint force live s) := by
  obtain ⟨h1, ⟨k, hk⟩, h3, _⟩ := h
  unfold gcPoint
  split
  · split
    · rename_i hab
      have hab' : 3 * s.capacity < 4 * live := by simpa [Heap.utilAbove34] using hab
      have ht := threshold_ge A L
      have hthr : s.capacity ≤ threshold A L := by omega
      refine ⟨h1, ?_, ?_, Or.inl (by simpa using hl)⟩
      · simp only [h1]; exact grownSize_chunks _ _
      · simp only [h1]
        have := grownSize_mono chunk _ _ hthr
        unfold bound; omega
    · exact ⟨h1, ⟨k, hk⟩, h3, Or.inl (by simpa using hl)⟩
  · rename_i hc
    have : ¬ (3 * s.capacity ≤ 4 * s.used) := by
      intro hh
      apply hc
      simp [collects, Heap.utilAtLeast34, hh]
    exact ⟨h1, ⟨k, hk⟩, h3, Or.inr (by omega)⟩

/-- **T12.3** over operation sequences of any length -/
theorem inv_run (chunk cap0 A L : Nat) : ∀ (ops : List HeapPolicy.Op) (s : PState) (a : Nat),
    Inv chunk cap0 A L a s → Paced A L a ops → ∃ a', Inv chunk cap0 A L a' (run s ops) := by
  intro ops
  induction ops with
  | nil => intro s a h _; exact ⟨a, h⟩
  | cons op ops ih =>
    intro s a h hp
    cases op with
    | alloc =>
      obtain ⟨ha, hp'⟩ := hp
      exact ih _ _ (inv_alloc chunk cap0 A L a s h ha) hp'
    | gcPoint force live =>
      obtain ⟨hl, hp'⟩ := hp
      exact ih _ _ (inv_gcPoint chunk cap0 A L a s force live h hl) hp'

theorem inv_init (chunk k used0 A L : Nat)
    (hu : used0 ≤ L ∨ 4 * used0 < 3 * (k * chunk)) :
    Inv chunk (k * chunk) A L 0 ⟨chunk, k * chunk, used0⟩ := by
  refine ⟨rfl, ⟨k, rfl⟩, ?_, ?_⟩
  · unfold bound; simp only; omega
  · simpa using hu

/-- the bound in closed form: `g(L + A) = grownSize chunk (4·(L + A)) ≤ 6·(L + A) + chunk` -/
theorem bound_le (chunk cap0 A L : Nat) :
    bound chunk cap0 A L ≤ max cap0 (6 * (L + A) + chunk) := by
  have hthr : threshold A L ≤ 4 * (L + A) := by unfold threshold; omega
  have h1 := grownSize_mono chunk _ _ hthr
  have h2 : Heap.grownSize chunk (4 * (L + A)) ≤ 6 * (L + A) + chunk := by
    unfold Heap.grownSize
    by_cases hc : chunk = 0
    · subst hc; simp
    · have hpos := Nat.pos_of_ne_zero hc
      generalize hq : 4 * (L + A) / chunk = q
      have hq' : q * chunk ≤ 4 * (L + A) := by rw [← hq]; exact Nat.div_mul_le_self _ _
      -- (3q+1)/2 * chunk ≤ (3q+2)/2*chunk, 2 * ((3q+1)/2) ≤ 3q+1
      have h3 : 2 * ((3 * q + 1) / 2 * chunk) ≤ (3 * q + 1) * chunk := by
        rw [← Nat.mul_assoc]
        apply Nat.mul_le_mul_right
        omega
      have h4 : (3 * q + 1) * chunk = 3 * (q * chunk) + chunk := by
        rw [Nat.add_mul, Nat.mul_assoc]; simp
      omega
  unfold bound
  omega

end Marwood.Lemmas.PolicyBound
