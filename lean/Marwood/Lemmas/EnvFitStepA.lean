import Marwood.Lemmas.EnvFitStack
/-!
# The slot clause of T06.6 as an invariant (4): `FInv` across `run_one`, the straight-line opcodes

JMP JNT MOV MOVIMM PUSH PUSHIMM PUSHACC HALT CONS CLOSURE VPUSH. Each lemma: `FInv s0`, the current `(ep, ip.0)` fits, the
successor offset is not a prologue offset, the instruction at `s0` succeeds ⇒ `FInv` of the successor.
-/
namespace Marwood.Lemmas.Good
open Marwood Marwood.Vm Marwood.Vm.Verify Marwood.Vm.Concrete Marwood.Lemmas.Sim
open Marwood.Heap (GcState)
open StepC

/-! ## small facts -/

theorem small_bound {h : CHeap} (sm : Small h) : h.cells.size ≤ 2 ^ 63 := by
  unfold Small at sm; omega

theorem plainGlob_not_closure {v : VCell} (hp : plainGlob v = true) : ∀ l e, v ≠ .closure l e := by
  intro l e he; subst he; simp [plainGlob, isPtr, addrFree] at hp

/-- a cell of the stack after `set`: an old cell or the written one -/
theorem set_get {st st' : Stack} {k i : Nat} {v w : VCell} (hs : st.set k v = .ok st')
    (hw : st'.cells[i]? = some w) : st.cells[i]? = some w ∨ w = v := by
  unfold Stack.set at hs
  split at hs
  · cases hs
    simp only at hw
    by_cases h1 : k = i
    · subst h1
      rw [List.getElem?_set_self (by assumption)] at hw
      cases hw; exact .inr rfl
    · rw [List.getElem?_set_ne h1] at hw; exact .inl hw
  · cases hs

theorem setOffset_get {st st' : Stack} {off : Int} {i : Nat} {v w : VCell} (hs : st.setOffset off v = .ok st')
    (hw : st'.cells[i]? = some w) : st.cells[i]? = some w ∨ w = v := by
  unfold Stack.setOffset at hs
  simp only at hs
  split at hs
  · exact set_get hs hw
  · cases hs

theorem setOffset_sp {st st' : Stack} {off : Int} {v : VCell} (hs : st.setOffset off v = .ok st') : st'.sp = st.sp := by
  unfold Stack.setOffset Stack.set at hs
  simp only at hs
  split at hs
  · split at hs
    · cases hs; rfl
    · cases hs
  · cases hs

/-! ## successors in the same heap -/

section
variable {s s' : St CHeap}

/-- same heap, same stack cells: only `ip.1` (and `acc`) moved -/
theorem FInv.jump (g : GoodI s) (lf : LF s.heap) (b' : s'.heap.cells.size ≤ 2 ^ 63) (f : FInv s) (hfit : Fit s.heap s.ep s.ipL)
    (hh : s'.heap = s.heap) (hep : s'.ep = s.ep) (hl : s'.ipL = s.ipL) (hnp : ¬ InPre s.heap s.ipL s'.ipO)
    (hst : s'.stack = s.stack) : FInv s' := by
  have x : FStep (fun _ => False) s.heap s'.heap := by rw [hh]; exact .refl lf
  exact FInv.next_old g b' f x (fun _ _ _ hn => hn.elim) hfit hep hl hnp
    (by rw [hst]) (by rw [hst]; exact Nat.le_refl _)

/-- same heap, one cell pushed: it is no `InstructionPointer` and mentions allocated cells only -/
theorem FInv.pushed (g : GoodI s) (lf : LF s.heap) (b' : s'.heap.cells.size ≤ 2 ^ 63) (f : FInv s) (hfit : Fit s.heap s.ep s.ipL)
    (hh : s'.heap = s.heap) (hep : s'.ep = s.ep) (hl : s'.ipL = s.ipL) (hnp : ¬ InPre s.heap s.ipL s'.ipO)
    {v : VCell} (hst : s'.stack = s.stack.push v) (hv : NIP v) (hr : VRefsOk s.heap v) : FInv s' := by
  have x : FStep (fun _ => False) s.heap s'.heap := by rw [hh]; exact .refl lf
  refine FInv.next g b' f x (fun _ _ _ hn => hn.elim) hfit hep hl hnp ?_ ?_ ?_
  · rw [hst]; exact f.stk.push hv
  · intro i e hi hc
    rw [hst] at hi hc
    rw [push_sp] at hi
    by_cases htop : i = s.stack.sp + 1
    · subst htop; rw [push_top] at hc; cases hc; exact nf_envPtr hr
    · rcases push_get (show i ≤ s.stack.sp by omega) hc with hc' | hc'
      · exact hdr_nf_env g (by omega) hc'
      · cases hc'
  · intro i l o hi hc
    rw [hst] at hi hc
    rw [push_sp] at hi
    by_cases htop : i = s.stack.sp + 1
    · subst htop; rw [push_top] at hc; cases hc; exact nf_instrPtr hr
    · rcases push_get (show i ≤ s.stack.sp by omega) hc with hc' | hc'
      · exact hdr_nf_ip g (by omega) hc'
      · cases hc'

end

/-! ## operands -/

section
variable {ext : ExtOps} {s : St CHeap}

/-- `load_operand`: what PUSH loads is no `InstructionPointer` and mentions allocated cells only -/
theorem loadOperand_fv (g : GoodI s) (live : BpLive s)
    (hptr : ∀ l p, lambdaAt s.heap s.ipL = some l → l.bc[s.ipO]? = some (VCell.ptr p) → NF s.heap p)
    (hbp : ∀ l off v, lambdaAt s.heap s.ipL = some l → l.bc[s.ipO]? = some (VCell.bpOffset off) →
      0 ≤ (s.bp : Int) + off → s.stack.cells[((s.bp : Int) + off).toNat]? = some v → plainGlob v = true)
    {v : VCell} {s1 : St CHeap} (hr : loadOperand (concreteOps ext) s = .ok (v, s1)) :
    NIP v ∧ VRefsOk s.heap v ∧ s1 = { s with ipO := s.ipO + 1 } := by
  have hr0 := hr
  unfold loadOperand at hr
  obtain ⟨⟨c0, s2⟩, hro, hr⟩ := bind_ok hr
  obtain ⟨rfl, l, hl, hc0⟩ := readOperand_inv hro
  simp only at hr
  by_cases hp : ∃ p, c0 = .ptr p
  · obtain ⟨p, rfl⟩ := hp
    simp only [concreteOps] at hr
    cases hr
    obtain ⟨k1, k2⟩ := getAt_ok g.hg (hptr l p hl hc0)
    exact ⟨NIP.of_plainVal k2, k1, rfl⟩
  · have hsrc : ∀ l', lambdaAt s.heap s.ipL = some l' → opndAll notPtr l'.bc[s.ipO]? = true := by
      intro l' hl'
      have : l' = l := by rw [hl] at hl'; exact (Option.some.inj hl').symm
      subst this
      rw [hc0]
      cases c0 <;> first | rfl | exact absurd ⟨_, rfl⟩ hp
    obtain ⟨hv, e⟩ := loadOperand_val (ext := ext) g hsrc live hbp hr0
    exact ⟨(NHdr.of_plainGlob hv.1).2, hv.2, e⟩

/-- `store_operand` through a destination that is not a `Ptr`: what it does to the heap and to the stack -/
theorem storeOperand_fshape {s' : St CHeap} (lf : LF s.heap)
    (hdst : ∀ l, lambdaAt s.heap s.ipL = some l → opndAll notPtr l.bc[s.ipO]? = true)
    {v : VCell} (hr : storeOperand (concreteOps ext) s v = .ok s') :
    FStep (fun _ => False) s.heap s'.heap ∧ s'.ep = s.ep ∧ s'.ipL = s.ipL ∧ s'.ipO = s.ipO + 1 ∧
    s'.stack.sp = s.stack.sp ∧
    (NHdr v → ∀ (h : CHeap) (B : Nat), PairsOk h s.stack.cells B → PairsOk h s'.stack.cells B) ∧
    (∀ (i : Nat) w, s'.stack.cells[i]? = some w → s.stack.cells[i]? = some w ∨ w = v) := by
  unfold storeOperand at hr
  obtain ⟨⟨c0, s2⟩, hro, hr⟩ := bind_ok hr
  obtain ⟨rfl, l, hl, hc0⟩ := readOperand_inv hro
  simp only at hr
  have hs := hdst l hl
  rw [hc0] at hs
  cases c0 with
  | acc =>
    simp only at hr; cases hr
    exact ⟨.refl lf, rfl, rfl, rfl, rfl, fun _ _ _ x => x, fun _ _ hw => .inl hw⟩
  | ptr q => simp [opndAll, notPtr] at hs
  | bpOffset off =>
    simp only at hr
    obtain ⟨st, hst, hr⟩ := bind_ok hr
    cases hr
    refine ⟨.refl lf, rfl, rfl, rfl, ?_, ?_, fun i w hw => setOffset_get hst hw⟩
    · exact setOffset_sp hst
    · intro hv h B x; exact (x.setOffset hv hst).1
  | globSlot n =>
    simp only [concreteOps] at hr
    cases hr
    exact ⟨globPut_fstep lf n v, rfl, rfl, rfl, rfl, fun _ _ _ x => x, fun _ _ hw => .inl hw⟩
  | lexEnvSlot n =>
    simp only [concreteOps] at hr
    cases h1 : envGet s.heap s.ep n with
    | none => rw [h1] at hr; cases hr
    | some w =>
      rw [h1] at hr
      by_cases hp : ∃ e k, w = .lexEnvPtr e k
      · obtain ⟨e, k, rfl⟩ := hp
        simp only at hr
        cases h2 : envPut s.heap e k v with
        | none => rw [h2] at hr; cases hr
        | some h' =>
          rw [h2] at hr
          cases hr
          exact ⟨envPut_fstep lf h2, rfl, rfl, rfl, rfl, fun _ _ _ x => x, fun _ _ hw => .inl hw⟩
      · have : ∃ h', envPut s.heap s.ep n v = some h' ∧ s' = { s with ipO := s.ipO + 1, heap := h' } := by
          cases w <;> simp only at hr <;>
            first
            | (exact absurd ⟨_, _, rfl⟩ hp)
            | (cases h2 : envPut s.heap s.ep n v with
               | none => rw [h2] at hr; cases hr
               | some h' => rw [h2] at hr; cases hr; exact ⟨h', rfl, rfl⟩)
        obtain ⟨h', h2, rfl⟩ := this
        exact ⟨envPut_fstep lf h2, rfl, rfl, rfl, rfl, fun _ _ _ x => x, fun _ _ hw => .inl hw⟩
  | _ => cases hr

end

/-! ## the instructions -/

section
variable {ext : ExtOps} {s0 s' : St CHeap} {b : Bool}

theorem fv_jmp (g : GoodI s0) (lf : LF s0.heap) (sm' : Small s'.heap) (f : FInv s0) (hfit : Fit s0.heap s0.ep s0.ipL)
    (hnp : ∀ l t, lambdaAt s0.heap s0.ipL = some l → l.bc[s0.ipO + 1]? = some (.ptr t) → ¬ InPre s0.heap s0.ipL t)
    (hx : exec (concreteOps ext) .jmp (nx s0) = .ok (s', b)) : FInv s' := by
  unfold exec at hx
  obtain ⟨⟨v, s1⟩, h1, hx⟩ := bind_ok hx
  obtain ⟨rfl, l, hl, hv⟩ := readOperand_inv h1
  obtain ⟨o, ho, hx⟩ := bind_ok hx
  cases hx
  cases StepB.asPtr_inv ho
  exact FInv.jump g lf (small_bound sm') f hfit rfl rfl rfl (hnp l o hl hv) rfl

theorem fv_jnt (g : GoodI s0) (lf : LF s0.heap) (sm' : Small s'.heap) (f : FInv s0) (hfit : Fit s0.heap s0.ep s0.ipL)
    (hnp : ∀ l t, lambdaAt s0.heap s0.ipL = some l → l.bc[s0.ipO + 1]? = some (.ptr t) → ¬ InPre s0.heap s0.ipL t)
    (hnp2 : ¬ InPre s0.heap s0.ipL (s0.ipO + 2))
    (hx : exec (concreteOps ext) .jnt (nx s0) = .ok (s', b)) : FInv s' := by
  unfold exec at hx
  obtain ⟨⟨v, s1⟩, h1, hx⟩ := bind_ok hx
  obtain ⟨rfl, l, hl, hv⟩ := readOperand_inv h1
  obtain ⟨o, ho, hx⟩ := bind_ok hx
  cases StepB.asPtr_inv ho
  simp only at hx
  split at hx
  · cases hx
    exact FInv.jump g lf (small_bound sm') f hfit rfl rfl rfl (hnp l o hl hv) rfl
  · cases hx
    exact FInv.jump g lf (small_bound sm') f hfit rfl rfl rfl hnp2 rfl

/-- the store half of MOV / MOVIMM -/
theorem fv_store (g : GoodI s0) (lf : LF s0.heap) (sm' : Small s'.heap) (f : FInv s0)
    (hfit : Fit s0.heap s0.ep s0.ipL) (hnp : ¬ InPre s0.heap s0.ipL (s0.ipO + 3))
    (hdst : ∀ l, lambdaAt s0.heap s0.ipL = some l → opndAll notPtr l.bc[s0.ipO + 2]? = true)
    {v : VCell} (hv : NHdr v) (hr : storeOperand (concreteOps ext) (nx (nx s0)) v = .ok s') : FInv s' := by
  obtain ⟨x, hep, hl, hipO, hsp, hpairs, hget⟩ := storeOperand_fshape (ext := ext) (s := nx (nx s0)) lf hdst hr
  have hipO' : s'.ipO = s0.ipO + 3 := hipO
  have hsp' : s'.stack.sp = s0.stack.sp := hsp
  refine FInv.next g (small_bound sm') f x (fun _ _ _ hn => hn.elim) hfit hep hl (by rw [hipO']; exact hnp) ?_ ?_ ?_
  · rw [hsp']; exact hpairs hv _ _ f.stk
  · intro i e hi hc
    rcases hget i _ hc with h1 | h1
    · exact hdr_nf_env g (by omega) h1
    · exact absurd h1.symm (hv.1 e)
  · intro i l o hi hc
    rcases hget i _ hc with h1 | h1
    · exact hdr_nf_ip g (by omega) h1
    · exact absurd h1.symm (hv.2 l o)

theorem fv_mov (g : GoodI s0) (lf : LF s0.heap) (sd : StackDisc s0) (sm' : Small s'.heap) (f : FInv s0)
    (hfit : Fit s0.heap s0.ep s0.ipL) (hnp : ¬ InPre s0.heap s0.ipL (s0.ipO + 3)) (hop : opAt s0 .mov)
    (hx : exec (concreteOps ext) .mov (nx s0) = .ok (s', b)) : FInv s' := by
  unfold exec at hx
  obtain ⟨l, hl, hop⟩ := hop
  have lo := (g.hg.lam _ l (lambdaAt_cell hl)).mov s0.ipO hop
  obtain ⟨⟨v, s1⟩, h1, hx⟩ := bind_ok hx
  have hv := loadOperand_val (ext := ext) g.nx
    (fun l' hl' => by have : l' = l := by rw [hl] at hl'; exact (Option.some.inj hl').symm
                      subst this; exact lo.1)
    sd.bpLive
    (fun l' off w hl' hc hnn hw => by
      have : l' = l := by rw [hl] at hl'; exact (Option.some.inj hl').symm
      subst this
      exact sd.src l' off w hl hop hc hnn hw) h1
  obtain ⟨hv, rfl⟩ := hv
  obtain ⟨s2, h2, hx⟩ := bind_ok hx
  cases hx
  exact fv_store (ext := ext) g lf sm' f hfit hnp
    (fun l' hl' => by have : l' = l := by rw [hl] at hl'; exact (Option.some.inj hl').symm
                      subst this; exact lo.2) (NHdr.of_plainGlob hv.1) h2

theorem fv_movImm (g : GoodI s0) (lf : LF s0.heap) (sd : StackDisc s0) (sm' : Small s'.heap) (f : FInv s0)
    (hfit : Fit s0.heap s0.ep s0.ipL) (hnp : ¬ InPre s0.heap s0.ipL (s0.ipO + 3)) (hop : opAt s0 .movImm)
    (hx : exec (concreteOps ext) .movImm (nx s0) = .ok (s', b)) : FInv s' := by
  have _ := sd
  unfold exec at hx
  obtain ⟨l, hl, hop⟩ := hop
  have lo := (g.hg.lam _ l (lambdaAt_cell hl)).movImm s0.ipO hop
  obtain ⟨⟨v, s1⟩, h1, hx⟩ := bind_ok hx
  obtain ⟨rfl, l', hl', hv⟩ := readOperand_inv h1
  have : l' = l := by rw [show lambdaAt (nx s0).heap (nx s0).ipL = lambdaAt s0.heap s0.ipL from rfl, hl] at hl'
                      exact (Option.some.inj hl').symm
  subst this
  have hv' : l'.bc[s0.ipO + 1]? = some v := hv
  have hpl : plainGlob v = true := by have := lo.1; rw [hv'] at this; exact this
  obtain ⟨s2, h2, hx⟩ := bind_ok hx
  cases hx
  exact fv_store (ext := ext) g lf sm' f hfit hnp
    (fun l2 hl2 => by have : l2 = l' := by rw [hl] at hl2; exact (Option.some.inj hl2).symm
                      subst this; exact lo.2) (NHdr.of_plainGlob hpl) h2

theorem fv_push (g : GoodI s0) (lf : LF s0.heap) (sd : StackDisc s0) (sm' : Small s'.heap) (f : FInv s0)
    (hfit : Fit s0.heap s0.ep s0.ipL) (hnp : ¬ InPre s0.heap s0.ipL (s0.ipO + 2)) (hop : opAt s0 .push)
    (hbp : ∀ l off v, lambdaAt s0.heap s0.ipL = some l → l.bc[s0.ipO + 1]? = some (VCell.bpOffset off) →
      0 ≤ (s0.bp : Int) + off → s0.stack.cells[((s0.bp : Int) + off).toNat]? = some v → plainGlob v = true)
    (hx : exec (concreteOps ext) .push (nx s0) = .ok (s', b)) : FInv s' := by
  unfold exec at hx
  obtain ⟨l, hl, hop⟩ := hop
  obtain ⟨⟨v, s1⟩, h1, hx⟩ := bind_ok hx
  cases hx
  obtain ⟨hv, hr, rfl⟩ := loadOperand_fv (ext := ext) g.nx sd.bpLive
    (fun l' p hl' hc => by
      have : l' = l := by rw [show lambdaAt (nx s0).heap (nx s0).ipL = lambdaAt s0.heap s0.ipL from rfl, hl] at hl'
                          exact (Option.some.inj hl').symm
      subst this
      exact VRefsOk.ptr.mp (code_operand_ok g hl hop rfl hc)) hbp h1
  exact FInv.pushed g lf (small_bound sm') f hfit rfl rfl rfl hnp rfl hv hr

theorem fv_pushImm (g : GoodI s0) (lf : LF s0.heap) (sm' : Small s'.heap) (f : FInv s0)
    (hfit : Fit s0.heap s0.ep s0.ipL) (hnp : ¬ InPre s0.heap s0.ipL (s0.ipO + 2)) (hop : opAt s0 .pushImm)
    (hx : exec (concreteOps ext) .pushImm (nx s0) = .ok (s', b)) : FInv s' := by
  unfold exec at hx
  obtain ⟨l, hl, hop⟩ := hop
  obtain ⟨⟨v, s1⟩, h1, hx⟩ := bind_ok hx
  obtain ⟨rfl, l', hl', hv⟩ := readOperand_inv h1
  have : l' = l := by rw [show lambdaAt (nx s0).heap (nx s0).ipL = lambdaAt s0.heap s0.ipL from rfl, hl] at hl'
                      exact (Option.some.inj hl').symm
  subst this
  have hv' : l'.bc[s0.ipO + 1]? = some v := hv
  cases hx
  have hc : CodeF s0.heap l' := f.hf s0.ipL _ (lambdaAt_cell hl)
  exact FInv.pushed g lf (small_bound sm') f hfit rfl rfl rfl hnp rfl (hc.2 s0.ipO v hop hv') (code_operand_ok g hl hop rfl hv')

theorem fv_pushAcc (g : GoodI s0) (lf : LF s0.heap) (sm' : Small s'.heap) (f : FInv s0)
    (hfit : Fit s0.heap s0.ep s0.ipL) (hnp : ¬ InPre s0.heap s0.ipL (s0.ipO + 1))
    (hx : exec (concreteOps ext) .pushAcc (nx s0) = .ok (s', b)) : FInv s' := by
  unfold exec at hx
  cases hx
  exact FInv.pushed g lf (small_bound sm') f hfit rfl rfl rfl hnp rfl (NHdr.of_plainGlob g.accv).2 (roots_acc g.roots)

theorem fv_halt (g : GoodI s0) (lf : LF s0.heap) (sm' : Small s'.heap) (f : FInv s0)
    (hfit : Fit s0.heap s0.ep s0.ipL) (hnp : ¬ InPre s0.heap s0.ipL (s0.ipO + 1))
    (hx : exec (concreteOps ext) .halt (nx s0) = .ok (s', b)) : FInv s' := by
  unfold exec at hx
  cases hx
  exact FInv.jump g lf (small_bound sm') f hfit rfl rfl rfl hnp rfl

theorem fv_cons (g : GoodI s0) (lf : LF s0.heap) (sd : StackDisc s0) (sm' : Small s'.heap) (f : FInv s0)
    (hfit : Fit s0.heap s0.ep s0.ipL) (hnp : ¬ InPre s0.heap s0.ipL (s0.ipO + 1)) (hop : opAt s0 .cons)
    (hx : exec (concreteOps ext) .cons (nx s0) = .ok (s', b)) : FInv s' := by
  unfold exec at hx
  obtain ⟨⟨d, st1⟩, hp1, hx⟩ := bind_ok hx
  simp only [concreteOps] at hx
  generalize e1 : putV s0.heap d = r1 at hx
  obtain ⟨h1, d1⟩ := r1
  simp only at hx
  obtain ⟨⟨a, st2⟩, hp2, hx⟩ := bind_ok hx
  simp only at hx
  generalize e2 : putV h1 a = r2 at hx
  obtain ⟨h2, a1⟩ := r2
  simp only at hx
  obtain ⟨a', ha, hx⟩ := bind_ok hx
  obtain ⟨d', hd, hx⟩ := bind_ok hx
  generalize e3 : putV h2 (.pair a' d') = r3 at hx
  obtain ⟨h3, pp⟩ := r3
  simp only at hx
  cases hx
  obtain ⟨hpos1, hc1, hsp1, hcl1⟩ := pop_inv hp1
  obtain ⟨hpos2, hc2, hsp2, hcl2⟩ := pop_inv hp2
  have hc1' : s0.stack.cells[s0.stack.sp]? = some d := hc1
  have hsp1' : st1.sp = s0.stack.sp - 1 := hsp1
  have hcl1' : st1.cells = s0.stack.cells := hcl1
  have hpos1' : 0 < s0.stack.sp := hpos1
  have hc2' : s0.stack.cells[s0.stack.sp - 1]? = some a := by rw [← hcl1', ← hsp1']; exact hc2
  have pd := sd.cons hop _ d (Nat.le_refl _) (by omega) hc1'
  have pa := sd.cons hop _ a (by omega) (by omega) hc2'
  have x1 : FStep NoClaim s0.heap h1 := by
    have := putV_fstep lf d
    rw [e1] at this
    exact this.weaken (fun c hc => by subst hc; exact NoClaim.val (plainGlob_not_closure pd))
  have x2 : FStep NoClaim h1 h2 := by
    have := putV_fstep x1.lf a
    rw [e2] at this
    exact this.weaken (fun c hc => by subst hc; exact NoClaim.val (plainGlob_not_closure pa))
  have x3 : FStep NoClaim h2 h3 := by
    have := putV_fstep x2.lf (.pair a' d')
    rw [e3] at this
    exact this.weaken (fun c hc => by subst hc; exact NoClaim.val (fun _ _ hh => by cases hh))
  have x := (x1.trans NoClaim.lexEnv x2).trans NoClaim.lexEnv x3
  exact FInv.next_old g (small_bound sm') f x (fun _ _ _ n => n.cellF) hfit rfl rfl hnp (hcl2.trans hcl1')
    (by show st2.sp ≤ s0.stack.sp; omega)

theorem fv_closure (g : GoodI s0) (lf : LF s0.heap) (sm' : Small s'.heap) (f : FInv s0)
    (hfit : Fit s0.heap s0.ep s0.ipL) (hnp : ¬ InPre s0.heap s0.ipL (s0.ipO + 1))
    (hx : exec (concreteOps ext) .closureAcc (nx s0) = .ok (s', b)) : FInv s' := by
  unfold exec at hx
  obtain ⟨lam, h1, hx⟩ := bind_ok hx
  obtain ⟨⟨h', c⟩, h2, hx⟩ := bind_ok hx
  cases hx
  have x : FStep (ClosNew h' lam) s0.heap h' := makeClosure_fstep lf h2
  refine FInv.next_old g (small_bound sm') f x ?_ hfit rfl rfl hnp rfl (Nat.le_refl _)
  intro i cc _ hn
  rcases hn with ⟨ss, rfl⟩ | ⟨e, rfl, hfe⟩
  · trivial
  · intro l e' he; cases he; exact hfe

theorem fv_vpush (eg : ExtGood ext) (ef : ExtFit ext) (g : GoodI s0) (lf : LF s0.heap) (sm' : Small s'.heap)
    (f : FInv s0) (hfit : Fit s0.heap s0.ep s0.ipL) (hnp : ¬ InPre s0.heap s0.ipL (s0.ipO + 1))
    (hop : opAt s0 .vpushAcc) (hx : exec (concreteOps ext) .vpushAcc (nx s0) = .ok (s', b)) : FInv s' := by
  unfold exec at hx
  obtain ⟨l, hl, _⟩ := hop
  obtain ⟨⟨v, st1⟩, hp1, hx⟩ := bind_ok hx
  obtain ⟨h', h2, hx⟩ := bind_ok hx
  cases hx
  obtain ⟨_, hcell, _, _⟩ := pop_inv hp1
  have hv : VRefsOk s0.heap v := roots_stack g.roots (Nat.le_refl _) hcell
  have hvec : VRefsOk s0.heap (deref s0.heap v) := StepB.deref_refs g.hg hv
  obtain ⟨g', _, _⟩ := eg.vpush s0.heap (deref s0.heap v) s0.acc h' g.hg hvec g.accOk h2 sm'
  obtain ⟨hf', fk, lk⟩ := ef.vpush s0.heap (deref s0.heap v) s0.acc h' g.hg g' f.hf lf hvec g.accOk h2
  refine ⟨hf', ?_, ?_, ?_⟩
  · have k : PairsOk h' s0.stack.cells s0.stack.sp :=
      f.stk.keep' fk (fun i e hi hc => hdr_nf_env g hi hc) (fun i l o hi hc => hdr_nf_ip g hi hc)
    exact PairsOk.pop (st := s0.stack) k hp1
  · intro hp
    exact absurd (InPre.lamKeep lk hl hp) hnp
  · intro _
    exact fk _ _ (roots_ep g.roots) (roots_ipL g.roots) hfit

end

end Marwood.Lemmas.Good
