import Marwood.Vm.EnvInvCheck
import Marwood.Lemmas.ProcInvMain
/-!
# "No value leads to a capturing lambda" as an invariant: definitions, congruence, stack and allocator lemmas

The shape of `Lemmas/ProcInvDefs.lean` with `capAt` ("heap cell `p` is a lambda with a non-empty environment map",
`Vm/EnvInvCheck.lean`) in place of `entryAt`, and no constraint on the lambda of a closure cell (`allAtB`).

`HP h` -- the heap part as a proposition; `PInv s` -- `HP s.heap`, `acc` and the live stack cells `0 ..= sp` do not
point to a capturing lambda. The state invariant proper is `TInv` (`Lemmas/EnvTaintStepA.lean`): `acc` may be the
immediate the `MOVIMM _ %acc` before the CLOSURE under `ip` loaded (`atSiteB`).

The generic parts of the original (`LF`, `LamSame`, the allocator facts `calloc_facts`) are used from
`Marwood.Lemmas.Good`.
-/
namespace Marwood.Lemmas.Taint
open Marwood.Lemmas.Good Marwood Marwood.Vm Marwood.Vm.Verify Marwood.Vm.Concrete Marwood.Lemmas.Sim
open Marwood.Heap (GcState)

/-! ## the propositions -/

structure HP (h : CHeap) : Prop where
  cells : ∀ (i : Nat) (c : CCell), h.cells[i]? = some c → cellEB h c = true
  globals : ∀ (n : Nat) (v : VCell), h.globals[n]? = some v → neE h v = true
  sym : ∀ (name : Text) (p : Nat), symLookup h name = some p → capAt h p = false

structure PInv (s : St CHeap) : Prop where
  hp : HP s.heap
  acc : neE s.heap s.acc = true
  stk : ∀ (i : Nat) (v : VCell), i ≤ s.stack.sp → s.stack.cells[i]? = some v → neE s.heap v = true

/-- the state invariant: `acc` may be the immediate the `MOVIMM _ %acc` before the CLOSURE under `ip` loaded -/
structure TInv (s : St CHeap) : Prop where
  hp : HP s.heap
  acc : neE s.heap s.acc = true ∨ atSiteB s = true
  stk : ∀ (i : Nat) (v : VCell), i ≤ s.stack.sp → s.stack.cells[i]? = some v → neE s.heap v = true

theorem PInv.tinv {s : St CHeap} (p : PInv s) : TInv s := ⟨p.hp, .inl p.acc, p.stk⟩

theorem TInv.acc_cases {s : St CHeap} (p : TInv s) : neE s.heap s.acc = true ∨ atSiteB s = true := p.acc

/-- no new capturing lambda -/
def EShr (h h' : CHeap) : Prop := ∀ p, capAt h' p = true → capAt h p = true

/-! ## soundness of the executable check -/

theorem heapTB_sound {h : CHeap} (hb : heapTB h = true) : HP h := by
  unfold heapTB at hb
  simp only [Bool.and_eq_true] at hb
  obtain ⟨⟨h1, h2⟩, h3⟩ := hb
  refine ⟨?_, ?_, ?_⟩
  · intro i c hc
    rw [Array.all_eq_true] at h1
    have hlt : i < h.cells.size := lt_of_get_some hc
    have := h1 i hlt
    rw [Array.getElem?_eq_getElem hlt] at hc
    cases hc
    exact this
  · intro n v hv
    rw [Array.all_eq_true] at h2
    have hlt : n < h.globals.size := lt_of_get_some hv
    have := h2 n hlt
    rw [Array.getElem?_eq_getElem hlt] at hv
    cases hv
    exact this
  · intro name p hl
    unfold symLookup at hl
    cases hf : h.symtab.find? (·.1 = name) with
    | none => rw [hf] at hl; cases hl
    | some e =>
      rw [hf] at hl
      simp only [Option.map_some, Option.some.injEq] at hl
      have hm := List.mem_of_find?_eq_some hf
      rw [List.all_eq_true] at h3
      have := h3 e hm
      subst hl
      simpa using this

theorem stateT0B_sound {s : St CHeap} (hb : stateT0B s = true) : PInv s := by
  unfold stateT0B at hb
  simp only [Bool.and_eq_true] at hb
  obtain ⟨⟨h1, h2⟩, h3⟩ := hb
  refine ⟨heapTB_sound h1, h2, ?_⟩
  intro i v hi hv
  rw [List.all_eq_true] at h3
  refine h3 v ?_
  refine List.mem_of_getElem? (i := i) ?_
  rw [List.getElem?_take]
  simp [Nat.lt_succ_of_le hi, hv]

theorem stateTB_sound {s : St CHeap} (hb : stateTB s = true) : TInv s := by
  unfold stateTB at hb
  simp only [Bool.and_eq_true, Bool.or_eq_true] at hb
  obtain ⟨⟨h1, h2⟩, h3⟩ := hb
  refine ⟨heapTB_sound h1, h2, ?_⟩
  intro i v hi hv
  rw [List.all_eq_true] at h3
  refine h3 v ?_
  refine List.mem_of_getElem? (i := i) ?_
  rw [List.getElem?_take]
  simp [Nat.lt_succ_of_le hi, hv]

/-! ## basic facts about the predicates -/

@[simp] theorem neE_ptr (h : CHeap) (p : Nat) : neE h (.ptr p) = !capAt h p := rfl

theorem neE_of_not_ptr (h : CHeap) {v : VCell} (hn : ∀ p, v ≠ .ptr p) : neE h v = true := by
  cases v <;> first | rfl | exact absurd rfl (hn _)

theorem neE_undefined (h : CHeap) : neE h .undefined = true := rfl

/-- a value (`plainGlob`) that does not point to a capturing lambda may be stored in a `val` cell -/
theorem valEB_of_value {h : CHeap} {v : VCell} (hp : plainGlob v = true) (hn : neE h v = true) : valEB h v = true := by
  cases v <;> first | rfl | exact hn | (simp [plainGlob, isPtr, addrFree] at hp)

theorem neE_of_valEB {h : CHeap} {v : VCell} (hv : valEB h v = true) : neE h v = true := by
  cases v <;> first | rfl | exact hv

theorem capAt_false_of_not_lambda {h : CHeap} {p : Nat} (hn : ∀ lam, h.cells[p]? ≠ some (CCell.lambda lam)) :
    capAt h p = false := by
  unfold capAt
  cases hl : lambdaAt h p with
  | none => rfl
  | some lam => exact absurd (lambdaAt_iff.mp hl) (hn lam)

theorem immTF_push {E : Nat → Bool} {bc : List VCell} (hi : immTF E bc = true) {j : Nat} {v : VCell}
    (hop : bc[j]? = some (.opcode .pushImm)) (hv : bc[j + 1]? = some v) : neF E v = true := by
  unfold immTF at hi
  rw [List.all_eq_true] at hi
  have hj : j < bc.length := by
    by_cases hlt : j < bc.length
    · exact hlt
    · rw [List.getElem?_eq_none (by omega)] at hop; cases hop
  have := hi j (List.mem_range.mpr hj)
  rw [hop] at this; simp only [hv] at this; exact this

/-- a MOVIMM immediate does not point to a capturing lambda, or the instruction is `MOVIMM _ %acc; CLOSURE` -/
theorem immTF_mov {E : Nat → Bool} {bc : List VCell} (hi : immTF E bc = true) {j : Nat} {v : VCell}
    (hop : bc[j]? = some (.opcode .movImm)) (hv : bc[j + 1]? = some v) : neF E v = true ∨ siteB bc j = true := by
  unfold immTF at hi
  rw [List.all_eq_true] at hi
  have hj : j < bc.length := by
    by_cases hlt : j < bc.length
    · exact hlt
    · rw [List.getElem?_eq_none (by omega)] at hop; cases hop
  have := hi j (List.mem_range.mpr hj)
  rw [hop] at this; simp only [hv, Bool.or_eq_true] at this; exact this

theorem siteB_inv {bc : List VCell} {j : Nat} (h : siteB bc j = true) :
    bc[j]? = some (.opcode .movImm) ∧ bc[j + 2]? = some .acc ∧ bc[j + 3]? = some (.opcode .closureAcc) := by
  unfold siteB at h
  simp only [Bool.and_eq_true, beq_iff_eq] at h
  exact ⟨h.1.1, h.1.2, h.2⟩

theorem capAt_false_iff {h : CHeap} {p : Nat} :
    capAt h p = false ↔ ∀ lam, lambdaAt h p = some lam → lam.envmap = [] := by
  unfold capAt
  cases hl : lambdaAt h p with
  | none => simp
  | some lam =>
    simp only [Bool.not_eq_false', List.isEmpty_iff, Option.some.injEq]
    constructor
    · intro e lam' hh; subst hh; exact e
    · intro hh; exact hh lam rfl

theorem atSiteB_inv {s : St CHeap} (h : atSiteB s = true) :
    ∃ l j, lambdaAt s.heap s.ipL = some l ∧ s.ipO = j + 3 ∧ l.bc[j]? = some (.opcode .movImm) ∧
      l.bc[j + 1]? = some s.acc ∧ l.bc[j + 2]? = some .acc ∧ l.bc[j + 3]? = some (.opcode .closureAcc) := by
  unfold atSiteB at h
  cases hl : lambdaAt s.heap s.ipL with
  | none => rw [hl] at h; cases h
  | some l =>
    rw [hl] at h
    simp only [Bool.and_eq_true, decide_eq_true_eq, beq_iff_eq] at h
    obtain ⟨⟨h1, h2⟩, h3⟩ := h
    obtain ⟨k1, k2, k3⟩ := siteB_inv h2
    exact ⟨l, s.ipO - 3, rfl, by omega, k1, h3, k2, k3⟩

theorem atSiteB_intro {s : St CHeap} {l : CLambda} {j : Nat} (hl : lambdaAt s.heap s.ipL = some l) (ho : s.ipO = j + 3)
    (hs : siteB l.bc j = true) (hv : l.bc[j + 1]? = some s.acc) : atSiteB s = true := by
  unfold atSiteB
  rw [hl]
  have e : s.ipO - 3 = j := by omega
  simp only [e, hs, hv, Bool.and_eq_true, decide_eq_true_eq, beq_self_eq_true, and_true]
  omega

/-! ## congruence: heaps with the same lambda cells -/

theorem _root_.Marwood.Lemmas.Good.LamSame.capE {h h' : CHeap} (ls : Good.LamSame h h') :
    capAt h' = capAt h := by
  funext p; unfold capAt; rw [ls p]

theorem _root_.Marwood.Lemmas.Good.LamSame.allE {h h' : CHeap} (_ls : Good.LamSame h h') :
    allAtB h' = allAtB h := rfl

theorem _root_.Marwood.Lemmas.Good.LamSame.neE {h h' : CHeap} (ls : Good.LamSame h h') :
    Concrete.neE h' = Concrete.neE h := by
  unfold Concrete.neE; rw [ls.capE]

theorem _root_.Marwood.Lemmas.Good.LamSame.valEB {h h' : CHeap} (ls : Good.LamSame h h') :
    Concrete.valEB h' = Concrete.valEB h := by
  unfold Concrete.valEB; rw [ls.capE, ls.allE]

theorem _root_.Marwood.Lemmas.Good.LamSame.cellEB {h h' : CHeap} (ls : Good.LamSame h h') :
    Concrete.cellEB h' = Concrete.cellEB h := by
  unfold Concrete.cellEB; rw [ls.capE, ls.allE]

theorem _root_.Marwood.Lemmas.Good.LamSame.eshrE {h h' : CHeap} (ls : Good.LamSame h h') :
    Taint.EShr h h' := by
  intro p hp; rw [ls.capE] at hp; exact hp

theorem EShr.refl (h : CHeap) : EShr h h := fun _ x => x

theorem EShr.trans {a b c : CHeap} (x : EShr a b) (y : EShr b c) : EShr a c := fun p hp => x p (y p hp)

theorem EShr.neE {h h' : CHeap} (es : EShr h h') {v : VCell} (hv : neE h v = true) : neE h' v = true := by
  cases v <;> first | rfl | skip
  rename_i p
  simp only [neE_ptr, Bool.not_eq_true'] at hv ⊢
  cases he : capAt h' p with
  | false => rfl
  | true => rw [es p he] at hv; cases hv

/-- `HP` of a heap that differs outside cells / globals / symbol table -/
theorem HP.of_eq {h h' : CHeap} (hp : HP h) (hc : h'.cells = h.cells) (hg : h'.globals = h.globals)
    (hs : h'.symtab = h.symtab) : HP h' := by
  have ls : LamSame h h' := .of_cells hc
  refine ⟨?_, ?_, ?_⟩
  · intro i c hcell; rw [ls.cellEB]; rw [hc] at hcell; exact hp.cells i c hcell
  · intro n v hv; rw [ls.neE]; rw [hg] at hv; exact hp.globals n v hv
  · intro name p hl
    rw [ls.capE]
    refine hp.sym name p ?_
    unfold symLookup at hl ⊢; rw [hs] at hl; exact hl

/-! ## the stack -/

/-- the cells at or below `B`, and at or below `sp`, do not point to a capturing lambda -/
def SM (h : CHeap) (st : Stack) (B : Nat) : Prop :=
  ∀ (i : Nat) (v : VCell), (i ≤ B ∨ i ≤ st.sp) → st.cells[i]? = some v → neE h v = true

theorem SM.of_stk {h : CHeap} {st : Stack} (x : ∀ (i : Nat) (v : VCell), i ≤ st.sp → st.cells[i]? = some v → neE h v = true) :
    SM h st st.sp := by
  intro i v hi hv
  exact x i v (by omega) hv

theorem SM.stk {h : CHeap} {st : Stack} {B : Nat} (x : SM h st B) :
    ∀ (i : Nat) (v : VCell), i ≤ st.sp → st.cells[i]? = some v → neE h v = true :=
  fun i v hi hv => x i v (.inr hi) hv

theorem SM.heap {h h' : CHeap} {st : Stack} {B : Nat} (x : SM h st B) (es : EShr h h') : SM h' st B :=
  fun i v hi hv => es.neE (x i v hi hv)

/-- same cells, stack pointer not above what is covered (pop, `sp := …`) -/
theorem SM.resp {h : CHeap} {st st' : Stack} {B : Nat} (x : SM h st B) (hc : st'.cells = st.cells)
    (hsp : st'.sp ≤ B ∨ st'.sp ≤ st.sp) : SM h st' B := by
  intro i v hi hv
  rw [hc] at hv
  refine x i v ?_ hv
  rcases hi with hi | hi
  · exact .inl hi
  · rcases hsp with h1 | h1
    · exact .inl (by omega)
    · exact .inr (by omega)

theorem SM.push {h : CHeap} {st : Stack} {B : Nat} (x : SM h st B) {v : VCell} (hv : neE h v = true) :
    SM h (st.push v) B := by
  intro i w hi hw
  by_cases hi1 : i = st.sp + 1
  · subst hi1
    unfold Stack.push at hw
    split at hw
    · simp only at hw
      rw [List.getElem?_set_self (by omega)] at hw
      cases hw; exact hv
    · simp only at hw
      rw [List.getElem?_set_self (by simp; omega)] at hw
      cases hw; exact hv
  · have hi' : i ≤ B ∨ i ≤ st.sp := by
      rcases hi with hi | hi
      · exact .inl hi
      · rw [StepC.push_sp] at hi; exact .inr (by omega)
    unfold Stack.push at hw
    split at hw
    · simp only at hw
      rw [List.getElem?_set_ne (by omega)] at hw
      exact x i w hi' hw
    · simp only at hw
      rw [List.getElem?_set_ne (by omega), List.getElem?_append] at hw
      split at hw
      · exact x i w hi' hw
      · rw [List.getElem?_replicate] at hw
        split at hw
        · cases hw; rfl
        · cases hw

theorem SM.set {h : CHeap} {st st' : Stack} {B : Nat} (x : SM h st B) {v : VCell} (hv : neE h v = true) {k : Nat}
    (hs : st.set k v = .ok st') : SM h st' B := by
  unfold Stack.set at hs
  split at hs
  · cases hs
    intro i w hi hw
    simp only at hw hi
    by_cases hik : i = k
    · subst hik
      rw [List.getElem?_set_self (by assumption)] at hw
      cases hw; exact hv
    · rw [List.getElem?_set_ne (by omega)] at hw
      exact x i w hi hw
  · cases hs

theorem SM.setOffset {h : CHeap} {st st' : Stack} {B : Nat} (x : SM h st B) {v : VCell} (hv : neE h v = true) {off : Int}
    (hs : st.setOffset off v = .ok st') : SM h st' B := by
  unfold Stack.setOffset at hs
  simp only at hs
  split at hs
  · exact x.set hv hs
  · cases hs

theorem SM.get {h : CHeap} {st : Stack} {B : Nat} (x : SM h st B) {k : Nat} {v : VCell} (hg : st.get k = .ok v)
    (hk : k ≤ B ∨ k ≤ st.sp) : neE h v = true := by
  unfold Stack.get at hg
  split at hg
  · rename_i w hw; cases hg; exact x k _ hk hw
  · cases hg

theorem SM.mono {h : CHeap} {st : Stack} {B B' : Nat} (x : SM h st B) (hb : B' ≤ B) : SM h st B' := by
  intro i v hi hv
  refine x i v ?_ hv
  rcases hi with hi | hi
  · exact .inl (by omega)
  · exact .inr hi

/-- `pop`: the popped cell, and the rest -/
theorem SM.pop {h : CHeap} {st st' : Stack} {B : Nat} (x : SM h st B) {v : VCell} (hp : st.pop = .ok (v, st')) :
    neE h v = true ∧ SM h st' B ∧ st'.cells = st.cells ∧ st'.sp + 1 = st.sp := by
  obtain ⟨p1, p2, p3, p4⟩ := StepC.pop_inv hp
  exact ⟨x _ _ (.inr (Nat.le_refl _)) p2, x.resp p4 (.inr (by omega)), p4, by omega⟩

theorem SM.popN {h : CHeap} {st st' : Stack} {B : Nat} (x : SM h st B) {n : Nat} {vs : List VCell}
    (hp : popN n st = .ok (vs, st')) :
    (∀ v ∈ vs, neE h v = true) ∧ SM h st' B ∧ st'.cells = st.cells ∧ st'.sp + n = st.sp := by
  obtain ⟨q1, q2, q3⟩ := StepC.popN_inv n hp
  refine ⟨?_, x.resp q1 (.inr (by omega)), q1, q2⟩
  intro v hv
  obtain ⟨i, _, i2, i3⟩ := q3 v hv
  exact x i v (.inr i2) i3

/-! ## the allocator: lambda cells, `HP` -/

/-- **storing a non-code cell in a fresh cell**: same lambda cells, `HP` and `LF` kept, the new address does not
    hold a capturing lambda, and it holds `c` (or lies outside the heap) -/
theorem cput_hp {h : CHeap} (lf : LF h) (hp : HP h) {c : CCell} (hc : ∀ lam, c ≠ CCell.lambda lam)
    (ok : cellEB h c = true) :
    HP (cput h c).1 ∧ LF (cput h c).1 ∧ LamSame h (cput h c).1 ∧ capAt (cput h c).1 (cput h c).2 = false := by
  obtain ⟨f1, f2, f3, f4, f5, f6⟩ := calloc_facts h
  have hnl : ∀ lam, h.cells[(calloc h).2]? ≠ some (CCell.lambda lam) := by
    intro lam hl
    rcases f3 with h1 | h1
    · exact lf _ lam hl h1
    · have := lt_of_get_some hl; omega
  have hcell : ∀ i x, (cput h c).1.cells[i]? = some x →
      x = c ∨ (i ≠ (calloc h).2 ∧ h.cells[i]? = some x) ∨ x = CCell.val .undefined := by
    intro i x hx
    simp only [cput] at hx
    rw [cwrite_cells] at hx
    split at hx
    · cases hx; exact .inl rfl
    · rename_i hne
      by_cases hlt : i < h.cells.size
      · rw [f1 i hlt] at hx
        by_cases hip : i = (calloc h).2
        · -- the write was out of bounds of the allocated heap: impossible below `h.cells.size`
          exfalso
          apply hne
          refine ⟨hip.symm, ?_⟩
          have := lt_of_get_some hx
          have hsz : h.cells.size ≤ (calloc h).1.cells.size := calloc_size h
          omega
        · exact .inr (.inl ⟨hip, hx⟩)
      · exact .inr (.inr (f2 i x (by omega) hx))
  have ls : LamSame h (cput h c).1 := by
    intro l
    cases hl : lambdaAt h l with
    | some lam =>
      refine lambdaAt_iff.mpr ?_
      have hcl := lambdaAt_iff.mp hl
      simp only [cput]
      rw [cwrite_cells]
      split
      · rename_i hh; obtain ⟨e, _⟩ := hh; rw [e] at hnl; exact absurd hcl (hnl lam)
      · rw [f1 l (lt_of_get_some hcl)]; exact hcl
    | none =>
      cases hl' : lambdaAt (cput h c).1 l with
      | none => rfl
      | some lam =>
        exfalso
        rcases hcell l _ (lambdaAt_iff.mp hl') with e | ⟨_, e⟩ | e
        · exact hc lam e.symm
        · have := lambdaAt_iff.mpr e; rw [hl] at this; cases this
        · cases e
  refine ⟨⟨?_, ?_, ?_⟩, ?_, ls, ?_⟩
  · intro i x hx
    rw [ls.cellEB]
    rcases hcell i x hx with e | ⟨_, e⟩ | e
    · subst e; exact ok
    · exact hp.cells i x e
    · subst e; rfl
  · intro n v hv
    rw [ls.neE]
    have : (cput h c).1.globals = h.globals := by simp only [cput, cwrite]; exact f5
    rw [this] at hv
    exact hp.globals n v hv
  · intro name p hl
    rw [ls.capE]
    refine hp.sym name p ?_
    have : (cput h c).1.symtab = h.symtab := by simp only [cput, cwrite]; exact f6
    unfold symLookup at hl ⊢; rw [this] at hl; exact hl
  · intro l lam hl hm
    have hold : h.cells[l]? = some (CCell.lambda lam) := by
      have := ls l
      rw [lambdaAt_iff.mpr hl] at this
      exact lambdaAt_iff.mp this.symm
    have hm' : l ∈ (calloc h).1.free := by simpa [cput, cwrite] using hm
    rcases f4 l hm' with h1 | h1
    · exact lf l lam hold h1
    · have := lt_of_get_some hold; omega
  · refine capAt_false_of_not_lambda ?_
    intro lam hl
    rcases hcell _ _ hl with e | ⟨e, _⟩ | e
    · exact hc lam e.symm
    · exact e rfl
    · cases e

end Marwood.Lemmas.Taint
