import Marwood.Transform.Model
/-!
# Fuel bounds for the matcher (`pattern_match` terminates on every input)

Every iteration of the matcher's `loop` consumes one item of the expression, and a nested call works
on one item, so the fuel needed is bounded by a potential of the *expression alone* — no assumption
on the pattern, the ellipsis or the literals.
-/
namespace Marwood.Transform
open Marwood

mutual
/-- cost of a nested `pattern_match` on item `e` (the pattern is a pair there) -/
def pot : Datum → Nat
  | .pair a d => 1 + (pot a + 1 + lp d)
  | .nil => 2
  | _ => 1
/-- cost of the loop over the items of `e` -/
def lp : Datum → Nat
  | .pair a d => pot a + 1 + lp d
  | .nil => 1
  | _ => 3
end

/-- cost of the loop over a list of items -/
def potL : List Datum → Nat
  | [] => 1
  | x :: xs => pot x + 1 + potL xs

theorem lp_eq (e : Datum) : lp e = potL (iterList e) := by
  induction e with
  | pair a d _ ihd => simp [lp, iterList, potL, ihd]
  | nil => simp [lp, iterList, potL]
  | _ => simp [lp, iterList, potL, pot]

theorem pot_lp_le (e : Datum) : pot e ≤ 3 * dsize e ∧ lp e ≤ 3 * dsize e := by
  induction e with
  | pair a d iha ihd => simp only [pot, lp, dsize]; omega
  | nil => simp [pot, lp, dsize]
  | _ => simp [pot, lp, dsize] <;> omega

end Marwood.Transform

namespace Marwood.Transform

theorem match_terminates_aux (ell : Datum) (lits : List Datum) : ∀ f : Nat,
    (∀ p e env, p.isPair = true → pot e ≤ f → ∃ r, patternMatch ell lits f p e env = .ok r) ∧
    (∀ p e env, 1 + lp e ≤ f → ∃ r, patternMatch ell lits f p e env = .ok r) ∧
    (∀ es ps cur inEll env, potL es ≤ f → ∃ r, matchLoop ell lits f es ps cur inEll env = .ok r) := by
  intro f
  induction f with
  | zero =>
    refine ⟨?_, ?_, ?_⟩
    · intro p e env _ h; have := (pot_lp_le e); cases e <;> simp [pot] at h <;> omega
    · intro p e env h; omega
    · intro es ps cur inEll env h; cases es <;> simp [potL] at h
  | succ f ih =>
    obtain ⟨ih1, ih2, ih3⟩ := ih
    have hloop : ∀ p e env, 1 + lp e ≤ f + 1 → ∃ r, patternMatch ell lits (f+1) p e env = .ok r := by
      intro p e env h
      unfold patternMatch
      split
      · exact ⟨_, rfl⟩
      · split
        · exact ⟨_, rfl⟩
        · exact ih3 _ _ _ _ _ (by rw [← lp_eq]; omega)
    refine ⟨?_, hloop, ?_⟩
    · intro p e env hp h
      cases e with
      | pair a d => exact hloop _ _ _ (by simp only [pot, lp] at h ⊢; omega)
      | nil => exact hloop _ _ _ (by simp only [pot, lp] at h ⊢; omega)
      | _ =>
        cases p <;> simp [Datum.isPair] at hp
        unfold patternMatch
        simp [Datum.isPair, Datum.isNil]
    · intro es ps cur inEll env h
      cases es with
      | nil =>
        unfold matchLoop
        simp only
        repeat' split
        all_goals exact ⟨_, rfl⟩
      | cons e es =>
        simp only [potL] at h
        have he : pot e ≤ f := by omega
        have hes : potL es ≤ f := by omega
        unfold matchLoop
        simp only
        split
        · exact ⟨_, rfl⟩
        · rename_i cur' pats' _
          split
          · split
            · split
              · exact ⟨_, rfl⟩
              · exact ih3 _ _ _ _ _ hes
            · split
              · exact ih3 _ _ _ _ _ hes
              · exact ih3 _ _ _ _ _ hes
          · obtain ⟨r, hr⟩ := ih1 (.pair _ _) e env rfl he
            rw [hr]
            obtain ⟨b, env'⟩ := r
            cases b
            · exact ⟨_, rfl⟩
            · exact ih3 _ _ _ _ _ hes
          · split
            · exact ⟨_, rfl⟩
            · exact ih3 _ _ _ _ _ hes

/-- `pattern_match` terminates on every input: fuel `3·|expr| + 1` is enough, whatever the pattern -/
theorem patternMatch_terminates (ell : Datum) (lits : List Datum) (p e : Datum) (env : Bindings)
    (f : Nat) (h : 3 * dsize e + 1 ≤ f) : ∃ r, patternMatch ell lits f p e env = .ok r :=
  (match_terminates_aux ell lits f).2.1 p e env (by have := (pot_lp_le e).2; omega)

end Marwood.Transform
