import Marwood.Lemmas.EvalPromiseMain
import Marwood.Lemmas.EvalPromiseExamples
/-!
# `force_delay_agrees`: the hypotheses are satisfiable

The state `libSt0` = the initial state of `Spec.Eval` with the prelude's four internal promise procedures
loaded (`force` still the primitive); the delayed expression `(begin (display 'x) 1)`. All hypotheses of
`force_delay_agrees` hold, the native slack-guarded run with fuel 6 is definite; hence the expansion
with fuel 15 prints the same log and yields the image of the same value.
-/
namespace Marwood.Spec.Eval.Derived
open Marwood Marwood.Spec.Eval Marwood.Spec.Eval.Prelude Marwood.Spec.Eval.Extra

def libSt0 : St :=
  { initSt with globals := insertG k_promiseUpdate cUpdate (insertG k_promiseValue cValue
      (insertG k_promiseDone cDone (insertG k_makePromise cMakePromise initSt.globals))) }

theorem inv_insertG {x : Text} {st : St} (hi : Inv x st) (s : Text) (v : Val) (hv : CleanVal x v) :
    Inv x { st with globals := insertG s v st.globals } := by
  refine ⟨hi.store, ?_⟩
  intro y w hy h
  simp only [lookup_insertG] at h
  split at h
  · cases h; exact hv
  · exact hi.globals y w hy h

theorem cleanVal_closure1 {x : Text} {ps : List Text} {b : Datum} (h : mentions x b = false) :
    CleanVal x (.closure ps none [b] []) := by
  intro d hd
  simp only [List.mem_singleton] at hd
  subst hd; exact h

theorem wf_libSt0 : WFSt libSt0 := by
  have h0 : ∀ (ps : List Text) (b : List Datum), ValOK initSt.store.size (.closure ps none b []) := by
    intro ps b p hp; cases hp
  exact (((wf_initSt.insertG k_makePromise cMakePromise (h0 _ _)).insertG k_promiseDone cDone (h0 _ _)).insertG
    k_promiseValue cValue (h0 _ _)).insertG k_promiseUpdate cUpdate (h0 _ _)

theorem inv_libSt0 : Inv k_force libSt0 := by
  have h1 := inv_insertG (x := k_force) (st := initSt) inv_initSt k_makePromise cMakePromise (cleanVal_closure1 (by decide))
  have h2 := inv_insertG h1 k_promiseDone cDone (cleanVal_closure1 (by decide))
  have h3 := inv_insertG h2 k_promiseValue cValue (cleanVal_closure1 (by decide))
  have h4 := inv_insertG h3 k_promiseUpdate cUpdate (by
    intro d hd
    simp only [bodyUpdate, List.mem_cons, List.not_mem_nil, or_false] at hd
    rcases hd with rfl | rfl | rfl <;> (show mentions k_force _ = false; decide))
  exact h4

theorem libOK_libSt0 : LibOK libSt0.globals :=
  ⟨by decide, by decide, by decide, by decide, by decide, by decide, by decide, by decide, by decide, by decide⟩

/-- evaluating `(begin (display 'x) 1)` on the expansion's side leaves the library alone -/
theorem keep_libSt0 : ∀ m v s2, (evalN m).eval eDisplayOne [] (preX eDisplayOne [] (withForce libSt0)) = .ok v s2 → LibSt s2 := by
  intro m v s2 h
  have h3 : (evalN 3).eval eDisplayOne [] (preX eDisplayOne [] (withForce libSt0)) =
      .ok (.int 1) { preX eDisplayOne [] (withForce libSt0) with out := [(false, .sym ['x'])] } := by rfl
  have hu := definite_unique (n := 3) (m := m) eDisplayOne [] (preX eDisplayOne [] (withForce libSt0))
    (by rw [h3]; simp) (by rw [h]; simp)
  rw [h3, h] at hu
  cases hu
  exact libSt_withForce libOK_libSt0

/-- **non-vacuity of `force_delay_agrees`** -/
theorem force_delay_demo :
    SpanAgree ((evalN 6).eval (forceUse (delayUse eDisplayOne)) [] libSt0)
      ((evalN 15).eval (forceUse (delayFull eDisplayOne)) [] (withForce libSt0)) 0 3 := by
  have h := force_delay_agrees eDisplayOne [] libSt0 wf_libSt0 (by intro p hp; cases hp) (by decide) rfl rfl (by decide)
    libOK_libSt0 (by decide) inv_libSt0 keep_libSt0 3 (definiteB_ne (by decide +kernel))
  exact h.2

end Marwood.Spec.Eval.Derived
