import Marwood.Lemmas.GoodMain
/-!
# `Safe` as an invariant: a concrete good initial state (non-vacuity)

The one-instruction program `HALT` on a well-formed four-cell heap (the state of `Proofs/C03.lean`'s
`sHalt_safe`, repeated here so that C13 and C07 can use it): `GoodI`, and the two hypotheses along the run
(`SizeBounded`, `StackDiscAlong`) hold for every parameter set `ext` with the utilisation-tested collector.
-/
namespace Marwood.Lemmas.Good.Demo
open Marwood Marwood.Vm Marwood.Vm.Concrete Marwood.Lemmas.Sim Marwood.Lemmas.Good
open Marwood.Heap (Heap GcState WFHeap RootsOk Roots vrefs vrefsList crefs)

theorem four_cases {i : Nat} (hi : i < 4) : i = 0 ∨ i = 1 ∨ i = 2 ∨ i = 3 := by omega


open Marwood.Lemmas.HeapWF in
/-- a heap holding one code object `HALT` -/
def hHalt : CHeap :=
  { chunk := 4, cells := #[.lambda { bc := [.opcode .halt], args := [], envmap := [] }, .val .undefined, .val .undefined,
      .val .undefined]
    gc := #[.allocated, .free, .free, .free], free := [1, 2, 3], symtab := [], globSyms := [], globals := #[] }

def sHalt (o : Nat) : St CHeap :=
  { heap := hHalt, stack := { cells := [.undefined], sp := 0 }, acc := .undefined, ep := usizeMax, ipL := 0, ipO := o,
    bp := 0 }

/-- its erasure, literally -/
def eHalt : Heap :=
  { chunk := 4, cells := #[.lambda [.opcode .halt] [] [], .atom .undefined, .atom .undefined, .atom .undefined]
    gc := #[.allocated, .free, .free, .free], free := [1, 2, 3], symtab := [] }

theorem toHeap_hHalt : toHeap hHalt = eHalt := by
  simp [toHeap, hHalt, eHalt, eraseC, eraseV, eraseOp]

theorem hHalt_gc (i : Nat) : eHalt.gc[i]? =
    if i = 0 then some GcState.allocated else if i < 4 then some GcState.free else none := by
  by_cases hi : i < 4
  · rcases four_cases hi with h | h | h | h <;> subst h <;> decide
  · have h1 : eHalt.gc[i]? = none := Array.getElem?_eq_none (by simp [eHalt]; omega)
    rw [h1]
    have : i ≠ 0 := by omega
    simp [this, hi]

theorem hHalt_cells (i : Nat) : eHalt.cells[i]? =
    if i = 0 then some (Heap.VCell.lambda [.opcode .halt] [] []) else if i < 4 then some Heap.VCell.undefined else none := by
  by_cases hi : i < 4
  · rcases four_cases hi with h | h | h | h <;> subst h <;> rfl
  · have h1 : eHalt.cells[i]? = none := Array.getElem?_eq_none (by simp [eHalt]; omega)
    rw [h1]
    have : i ≠ 0 := by omega
    simp [this, hi]

theorem hHalt_nonFree (i : Nat) : eHalt.NonFree i ↔ i = 0 := by
  unfold Heap.NonFree
  rw [hHalt_gc]
  by_cases h0 : i = 0
  · simp [h0]
  · by_cases h4 : i < 4 <;> simp [h0, h4]

theorem eHalt_wf : WFHeap true eHalt := by
  refine ⟨⟨by decide, ⟨by decide, by decide, 1, by decide, by decide⟩, by decide, ?_, by decide, ?_, ?_, ?_⟩, ?_⟩
  · intro i
    rw [hHalt_gc]
    by_cases h0 : i = 0
    · subst h0; decide
    · by_cases h4 : i < 4
      · have : i = 1 ∨ i = 2 ∨ i = 3 := by omega
        rcases this with h | h | h <;> subst h <;> decide
      · simp [h0, h4, eHalt]; omega
  · intro i hi
    rw [hHalt_gc] at hi
    rw [hHalt_cells]
    by_cases h0 : i = 0
    · simp [h0] at hi
    · by_cases h4 : i < 4
      · simp [h0, h4]
      · simp [h0, h4] at hi
  · intro name i
    have e : eHalt.symLookup name = none := rfl
    rw [e]
    unfold Heap.AllocSym
    rw [hHalt_nonFree, hHalt_cells]
    constructor
    · intro h; cases h
    · rintro ⟨h1, h2⟩; subst h2; simp at h1
  · intro i hi y hy
    rw [hHalt_nonFree] at hi
    subst hi
    have : eHalt.children true 0 = [] := rfl
    rw [this] at hy; cases hy
  · intro i
    rw [hHalt_gc]
    by_cases h0 : i = 0
    · simp [h0]
    · by_cases h4 : i < 4 <;> simp [h0, h4]

theorem sHalt_step0 (ext : ExtOps) (force : Bool) : (machine ext force).step (sHalt 0) = .halt (sHalt 1) := rfl
theorem sHalt_step1 (ext : ExtOps) (force : Bool) :
    (machine ext force).step (sHalt 1) = .fail (.err .invalidBytecode) (sHalt 1) := rfl
theorem sHalt_gc (ext : ExtOps) (o : Nat) : (machine ext false).gc (sHalt o) = sHalt o := by
  show cgc false (sHalt o) = sHalt o
  unfold cgc
  have : Heap.runGc true false (toHeap (sHalt o).heap) (rootsOf (sHalt o)) = .ok (.skipped eHalt) := by
    show Heap.runGc true false (toHeap hHalt) _ = _
    rw [toHeap_hHalt]; rfl
  rw [this]


theorem hHalt_cell {i : Nat} {c : CCell} (hc : hHalt.cells[i]? = some c) :
    (i = 0 ∧ c = .lambda { bc := [.opcode .halt], args := [], envmap := [] }) ∨ c = .val .undefined := by
  have hi : i < 4 := by have := lt_of_get_some hc; simpa [hHalt] using this
  rcases four_cases hi with h | h | h | h <;> subst h <;> simp [hHalt] at hc <;> subst hc <;> simp

theorem hHalt_hg : HG hHalt := by
  refine ⟨by rw [toHeap_hHalt]; exact eHalt_wf, ⟨?_, ?_, ?_⟩, ?_, ?_⟩
  · intro i v hv
    rcases hHalt_cell hv with ⟨_, h⟩ | h
    · cases h
    · cases h; rfl
  · intro v hv; simp [hHalt] at hv
  · intro i c hc
    rcases hHalt_cell hc with ⟨_, h⟩ | h <;> cases h
  · intro i l hl
    rcases hHalt_cell hl with ⟨_, h⟩ | h
    · cases h
      have h0 : ∀ p ∈ ([] : List (VCell × Source)), ∀ a, p.2 ≠ Source.iofArg a := by
        intro p hp; cases hp
      refine ⟨h0, ?_, ?_⟩
      · intro j hj
        cases j with
        | zero => simp at hj
        | succ j => simp at hj
      · intro j hj
        cases j with
        | zero => simp at hj
        | succ j => simp at hj
    · cases h
  · intro i ss hs
    rcases hHalt_cell hs with ⟨_, h⟩ | h <;> cases h

theorem sHalt_goodI (o : Nat) : GoodI (sHalt o) := by
  refine ⟨hHalt_hg, ?_, rfl⟩
  show RootsOk (toHeap hHalt) _
  rw [toHeap_hHalt]
  intro y hy
  have : (rootsOf (sHalt o)).refs true = [0, usizeMax] := by
    simp [rootsOf, sHalt, Roots.refs, hHalt, eraseV, vrefsList, vrefs]
  rw [this] at hy
  rcases List.mem_cons.mp hy with h | h
  · subst h; exact .inl ((hHalt_nonFree 0).mpr rfl)
  · have : y = usizeMax := by simpa using h
    subst this; exact .inr (by unfold Heap.Sentinel usizeMax; decide)

theorem sHalt_lambda (o : Nat) {l : CLambda} (h : lambdaAt (sHalt o).heap (sHalt o).ipL = some l) :
    l = { bc := [.opcode .halt], args := [], envmap := [] } := by
  have hl : lambdaAt hHalt 0 = some { bc := [.opcode .halt], args := [], envmap := [] } := rfl
  have h' : lambdaAt hHalt 0 = some l := h
  rw [hl] at h'; cases h'; rfl

theorem sHalt_disc (o : Nat) (ho : o = 0 ∨ o = 1) : StackDisc (sHalt o) := by
  have nop : ∀ op, op ≠ .halt → ¬ opAt (sHalt o) op := by
    rintro op hne ⟨l, hl, hb⟩
    have := sHalt_lambda o hl
    subst this
    rcases ho with h | h <;> subst h <;> simp [sHalt] at hb
    exact hne hb.symm
  refine ⟨?_, ?_, ?_, ?_, ?_, ?_⟩
  · intro l off h1 h2
    have := sHalt_lambda o h1
    subst this
    rcases ho with h | h <;> subst h <;> simp [sHalt] at h2
  · intro l h1 h2
    have := sHalt_lambda o h1
    subst this
    rcases ho with h | h <;> subst h <;> simp [sHalt] at h2
  · intro l off v h1 h2
    have := sHalt_lambda o h1
    subst this
    rcases ho with h | h <;> subst h <;> simp [sHalt] at h2
  · intro h; exact absurd h (nop _ (by decide))
  · rintro (h | h) <;> exact absurd h (nop _ (by decide))
  · rintro (h | h) <;> exact absurd h (nop _ (by decide))

/-- everything reachable from the initial state: itself and the state after HALT -/
theorem sHalt_reaches (ext : ExtOps) {s' : St CHeap} (hr : Reaches (machine ext false) (sHalt 0) s') :
    s' = sHalt 0 ∨ s' = sHalt 1 := by
  induction hr with
  | refl => exact .inl rfl
  | next _ e ih =>
    rcases ih with h | h <;> subst h
    · rw [sHalt_step0] at e; cases e
    · rw [sHalt_step1] at e; cases e
  | halt _ e ih =>
    rcases ih with h | h <;> subst h
    · rw [sHalt_step0] at e; cases e; exact .inr rfl
    · rw [sHalt_step1] at e; cases e
  | gc _ ih =>
    rcases ih with h | h <;> subst h
    · exact .inl (sHalt_gc ext 0)
    · exact .inr (sHalt_gc ext 1)

theorem sHalt_small (o : Nat) : Small (sHalt o).heap := by
  show 2 * 4 ≤ 2 ^ 63; decide

theorem sHalt_sizeBounded (ext : ExtOps) : SizeBounded (machine ext false) (sHalt 0) := by
  intro s' hr
  rcases sHalt_reaches ext hr with h | h <;> subst h <;> exact sHalt_small _

theorem sHalt_discAlong (ext : ExtOps) : StackDiscAlong (machine ext false) (sHalt 0) := by
  intro s' hr
  rcases sHalt_reaches ext hr with h | h <;> subst h
  · exact sHalt_disc 0 (.inl rfl)
  · exact sHalt_disc 1 (.inr rfl)

/-- from the state after HALT nothing else is reachable (the next fetch fails) -/
theorem sHalt_reaches1 (ext : ExtOps) {s' : St CHeap} (hr : Reaches (machine ext false) (sHalt 1) s') :
    s' = sHalt 1 := by
  induction hr with
  | refl => rfl
  | next _ e ih => subst ih; rw [sHalt_step1] at e; cases e
  | halt _ e ih => subst ih; rw [sHalt_step1] at e; cases e
  | gc _ ih => subst ih; exact sHalt_gc ext 1

theorem sHalt_sizeBounded1 (ext : ExtOps) : SizeBounded (machine ext false) (sHalt 1) := by
  intro s' hr; rw [sHalt_reaches1 ext hr]; exact sHalt_small 1

theorem sHalt_discAlong1 (ext : ExtOps) : StackDiscAlong (machine ext false) (sHalt 1) := by
  intro s' hr; rw [sHalt_reaches1 ext hr]; exact sHalt_disc 1 (.inr rfl)

end Marwood.Lemmas.Good.Demo
