import Marwood.Lemmas.Parse
import Marwood.Lemmas.ParseTextScan
/-!
# The parser never takes a panic branch on scanner output (used by C11; citable by C06)

Every panic site of the parser model is excluded when all tokens are `TokOK` for the text
(`ParseText.scan_bodies`: true of everything `scan` returns):

* `&text[lo..hi]` (`tokSpan`): the span is the slice of a body;
* `&span[2..]` of a character token: the body is spelled `#\…`;
* `&span[1..len-1]` of a string token: the body is spelled `"…"`;
* `chars().next().unwrap()` on a bracket token: the body is non-empty;
* `panic!("unexpected number prefix")`: a prefix token is `#` and one of `e i b o d x`;
* `from_str_radix`'s radix assertion: the radix is 10 or set by a prefix to 2, 8, 10, 16;
* `Ratio::<i32>::new` negating `i32::MIN`: excluded by the guard of `parseRational32`.
-/
namespace Marwood
namespace ParseText

/-! ## numbers -/

theorem parseIntStd_inRange {inRange : Int → Bool} {radix : Nat} {cs : Text} {n : Int}
    (h : parseIntStd inRange radix cs = some n) : inRange n = true := by
  unfold parseIntStd at h
  repeat' split at h
  all_goals simp_all

theorem tdiv_neg_of {d g : Int} (hg : 0 ≤ g) (h : d.tdiv g < 0) : d < 0 := by
  by_cases hd : 0 ≤ d
  · have := Int.tdiv_nonneg hd hg; omega
  · omega

theorem tdiv_ne_i32Min {n g : Int} (hn : inI32 n = true) (hne : n ≠ i32Min) :
    n.tdiv g ≠ i32Min := by
  intro h
  have hb : (n.tdiv g).natAbs ≤ n.natAbs := by
    rw [Int.natAbs_tdiv]; exact Nat.div_le_self _ _
  unfold inI32 i32Min i32Max at hn
  unfold i32Min at hne h
  simp only [Bool.and_eq_true, decide_eq_true_eq] at hn
  rw [h] at hb
  omega

theorem ratioNew32_noPanic {n d : Int} (hn : inI32 n = true) (hd : inI32 d = true)
    (hg : ¬ (d < 0 ∧ (n = i32Min ∨ d = i32Min))) (m : String) : ratioNew32 n d ≠ .panic m := by
  unfold ratioNew32
  split
  · simp
  · split
    · simp
    · simp only
      split
      · rename_i hneg
        have hd0 : d < 0 := tdiv_neg_of (Int.natCast_nonneg _) hneg
        have hn1 : n ≠ i32Min := fun e => hg ⟨hd0, .inl e⟩
        have hd1 : d ≠ i32Min := fun e => hg ⟨hd0, .inr e⟩
        split
        · rename_i hbad
          rcases hbad with hb | hb
          · exact absurd hb (tdiv_ne_i32Min hn hn1)
          · exact absurd hb (tdiv_ne_i32Min hd hd1)
        · simp
      · simp

theorem parseRational32_noPanic (radix : Nat) (s : Text) (m : String) :
    parseRational32 radix s ≠ .panic m := by
  unfold parseRational32
  split
  · simp
  · split
    · simp
    · rename_i n hn
      split
      · simp
      · rename_i d hd
        split
        · simp
        · rename_i hg
          split
          · simp
          · exact ratioNew32_noPanic (parseIntStd_inRange hn) (parseIntStd_inRange hd) hg m

theorem parseRational_noPanic (fo : FloatOps) (radix : Nat) (s : Text) (m : String) :
    parseRational fo radix s ≠ .panic m := by
  unfold parseRational
  simp only
  cases h32 : parseRational32 radix s with
  | panic m' => exact absurd h32 (parseRational32_noPanic radix s m')
  | ok v => obtain ⟨n, d⟩ := v; simp only; split <;> simp
  | err u =>
    cases u
    simp only
    repeat' split
    all_goals simp

def RadixOK (radix : Nat) : Prop := 2 ≤ radix ∧ radix ≤ 36

theorem parseNumber_noPanic (fo : FloatOps) {radix : Nat} (hr : RadixOK radix) (s : Text)
    (m : String) : parseNumber fo radix s ≠ .panic m := by
  unfold parseNumber
  have : ¬ (radix < 2 ∨ 36 < radix) := by unfold RadixOK at hr; omega
  simp only [this, if_false]
  split
  · simp
  · split
    · simp
    · cases hq : parseRational fo radix s with
      | panic m' => exact absurd hq (parseRational_noPanic fo radix s m')
      | ok n => simp
      | err u => cases u; simp only; split <;> simp

theorem parseWithExactness_noPanic (fo : FloatOps) {radix : Nat} (hr : RadixOK radix) (s : Text)
    (e : Exactness) (m : String) : parseWithExactness fo s e radix ≠ .panic m := by
  unfold parseWithExactness
  cases hp : parseNumber fo radix s with
  | panic m' => exact absurd hp (parseNumber_noPanic fo hr s m')
  | err u => simp
  | ok n =>
    simp only
    repeat' split
    all_goals simp

/-! ## slices of well-spelled tokens -/

theorem tokSpan_ok {text : Text} {t : Token} (h : TokOK text t) :
    ∃ body, tokSpan text t = .ok body ∧ body ≠ [] ∧ BodyOK t.ty body := by
  obtain ⟨body, hs, hne, hb⟩ := h
  exact ⟨body, by simp [tokSpan, hs], hne, hb⟩

theorem firstChar_ok {text : Text} {t : Token} (h : TokOK text t) :
    ∃ c, firstChar text t = .ok c := by
  obtain ⟨body, hs, hne, _⟩ := tokSpan_ok h
  cases body with
  | nil => exact absurd rfl hne
  | cons c cs => exact ⟨c, by simp [firstChar, hs]⟩

theorem closeList_noPanic {text : Text} {start t : Token} (hs : TokOK text start)
    (ht : TokOK text t) (acc : List Datum) (ts : List Token) (m : String) :
    closeList text start t acc ts ≠ .panic m := by
  obtain ⟨o, ho⟩ := firstChar_ok hs
  obtain ⟨c, hc⟩ := firstChar_ok ht
  unfold closeList
  simp only [ho, hc]
  split <;> simp

theorem closeVector_noPanic {text : Text} {t : Token} (ht : TokOK text t) (acc : List Datum)
    (ts : List Token) (m : String) : closeVector text t acc ts ≠ .panic m := by
  obtain ⟨c, hc⟩ := firstChar_ok ht
  unfold closeVector
  simp only [hc]
  split <;> simp

theorem dropBytes_two (r : Text) : dropBytes 2 ('#' :: '\\' :: r) = some r := by
  have h1 : ('#' : Char).utf8Size = 1 := by decide
  have h2 : ('\\' : Char).utf8Size = 1 := by decide
  simp [dropBytes, h1, h2]

/-- `parse_char`: `&span[2..]` of a token spelled `#\…` is in bounds -/
theorem parseCharSpan_noPanic (r : Text) (m : String) :
    parseCharSpan ('#' :: '\\' :: r) ≠ .panic m := by
  unfold parseCharSpan
  rw [dropBytes_two]
  simp only
  repeat' split
  all_goals simp

/-- the slice handed to `parse_string`: `&span[1..len-1]` of a token spelled `"…"` is in bounds
    and on character boundaries -/
theorem stringInner_ok (inner : Text) : ∃ s, stringInner ('"' :: (inner ++ ['"'])) = .ok s := by
  unfold stringInner
  split
  · exact ⟨_, rfl⟩
  · have hq : byteLen ['"'] = 1 := by decide
    have hlen : byteLen ('"' :: (inner ++ ['"'])) = 1 + byteLen inner + 1 := by
      have : '"' :: (inner ++ ['"']) = ['"'] ++ inner ++ ['"'] := by simp
      rw [this, byteLen_append, byteLen_append, hq]
    have hne : ¬ byteLen ('"' :: (inner ++ ['"'])) = 0 := by omega
    simp only [hne, if_false]
    have hs : sliceBytes 1 (byteLen ('"' :: (inner ++ ['"'])) - 1) ('"' :: (inner ++ ['"']))
        = some inner := by
      have e1 : '"' :: (inner ++ ['"']) = ['"'] ++ inner ++ ['"'] := by simp
      have e2 : byteLen ('"' :: (inner ++ ['"'])) - 1 = byteLen ['"'] + byteLen inner := by
        rw [hlen, hq]; omega
      rw [e2, e1]
      have := sliceBytes_append ['"'] inner ['"']
      rw [hq] at this ⊢
      exact this
    rw [hs]
    exact ⟨_, rfl⟩

theorem parseString_noPanic (inner : Text) (m : String) : parseString inner ≠ .panic m := by
  unfold parseString
  split <;> simp

theorem prefixStep_some {d : Char} (hd : isPrefixLetter d) (ex : Exactness) {radix : Nat}
    (hr : RadixOK radix) :
    ∃ ex' radix', prefixStep ['#', d] ex radix = some (ex', radix') ∧ RadixOK radix' := by
  unfold RadixOK at hr ⊢
  rcases hd with rfl | rfl | rfl | rfl | rfl | rfl
  · exact ⟨.exact, radix, by simp [prefixStep], hr⟩
  · exact ⟨.inexact, radix, by simp [prefixStep], hr⟩
  · exact ⟨ex, 2, by simp [prefixStep], by omega⟩
  · exact ⟨ex, 8, by simp [prefixStep], by omega⟩
  · exact ⟨ex, 10, by simp [prefixStep], by omega⟩
  · exact ⟨ex, 16, by simp [prefixStep], by omega⟩

/-! ## `parse_number` -/

theorem numberFinal_noPanic (fo : FloatOps) {text : Text} {t : Token} (ht : TokOK text t)
    {radix : Nat} (hr : RadixOK radix) (ex : Exactness) (ts : List Token) (m : String) :
    numberFinal fo text ex radix t ts ≠ .panic m := by
  obtain ⟨body, hs, _, _⟩ := tokSpan_ok ht
  unfold numberFinal
  simp only [hs]
  split
  · cases hp : parseWithExactness fo body ex radix with
    | panic m' => exact absurd hp (parseWithExactness_noPanic fo hr body ex m')
    | ok n => simp
    | err u => cases u; simp
  · simp

theorem parseNumberTok_noPanic (fo : FloatOps) {text : Text} :
    ∀ (ts : List Token) (ex : Exactness) (radix : Nat) (t : Token),
      TokOK text t → (∀ x ∈ ts, TokOK text x) → RadixOK radix →
      ∀ m, parseNumberTok fo text ex radix t ts ≠ .panic m := by
  intro ts
  induction ts with
  | nil =>
    intro ex radix t ht _ hr m
    rw [parseNumberTok]
    by_cases hty : t.ty = .numberPrefix
    · obtain ⟨body, hs, _, hb⟩ := tokSpan_ok ht
      obtain ⟨d, rfl, hd⟩ := hb.2.2 hty
      obtain ⟨ex', radix', hp, _⟩ := prefixStep_some hd ex hr
      simp [hty, hs, hp]
    · simp only [hty, if_false]
      exact numberFinal_noPanic fo ht hr ex [] m
  | cons t' ts ih =>
    intro ex radix t ht hall hr m
    rw [parseNumberTok]
    by_cases hty : t.ty = .numberPrefix
    · obtain ⟨body, hs, _, hb⟩ := tokSpan_ok ht
      obtain ⟨d, rfl, hd⟩ := hb.2.2 hty
      obtain ⟨ex', radix', hp, hr'⟩ := prefixStep_some hd ex hr
      simp only [hty, if_true, hs, hp]
      exact ih ex' radix' t' (hall t' (by simp)) (fun x hx => hall x (by simp [hx])) hr' m
    · simp only [hty, if_false]
      exact numberFinal_noPanic fo ht hr ex (t' :: ts) m

/-! ## the atom arms of `parse` -/

theorem parseAtom_noPanic (fo : FloatOps) {text : Text} {t : Token} (ht : TokOK text t)
    {ts : List Token} (hall : ∀ x ∈ ts, TokOK text x) (m : String) :
    parseAtom fo text t ts ≠ .panic m := by
  obtain ⟨body, hs, hne, hb⟩ := tokSpan_ok ht
  have h10 : RadixOK 10 := by unfold RadixOK; omega
  unfold parseAtom
  cases hty : t.ty
  all_goals simp only [hs]
  all_goals first
    | (simp; done)
    | exact parseNumberTok_noPanic fo ts _ _ t ht hall h10 m
    | skip
  · -- char
    obtain ⟨r, rfl⟩ := hb.1 hty
    cases hp : parseCharSpan ('#' :: '\\' :: r) with
    | panic m' => exact absurd hp (parseCharSpan_noPanic r m')
    | ok d => simp
    | err e => simp
  · -- string
    obtain ⟨inner, rfl⟩ := hb.2.1 hty
    obtain ⟨s, hsi⟩ := stringInner_ok inner
    simp only [hsi]
    cases hp : parseString s with
    | panic m' => exact absurd hp (parseString_noPanic s m')
    | ok d => simp
    | err e => simp

/-! ## the datum parser -/

def NoPanicO (r : Option (PRes (Datum × List Token))) : Prop := ∀ m, r ≠ some (.panic m)

theorem wrapRes_noPanic {name : String} {r : Option (PRes (Datum × List Token))}
    (h : NoPanicO r) : NoPanicO (wrapRes name r) := by
  intro m
  cases r with
  | none => simp [wrapRes]
  | some x =>
    cases x with
    | ok v => obtain ⟨d, rest⟩ := v; simp [wrapRes]
    | err e => simp [wrapRes]
    | panic m' => exact absurd rfl (h m')

/-- what `parse` leaves is part of what it was given -/
theorem parseF_rest_mem (fo : FloatOps) (text : Text) {f : Nat} {ts rest : List Token} {d : Datum}
    (h : parseF fo text f ts = some (.ok (d, rest))) : ∀ x ∈ rest, x ∈ ts := by
  obtain ⟨pre, _, hts, _, _⟩ := (consumes_all fo text f).1 _ _ _ h
  intro x hx
  rw [hts]
  exact List.mem_append_right _ hx

theorem parse_noPanic (fo : FloatOps) (text : Text) : ∀ f : Nat,
    (∀ ts, (∀ x ∈ ts, TokOK text x) → NoPanicO (parseF fo text f ts)) ∧
    (∀ start acc ts, TokOK text start → (∀ x ∈ ts, TokOK text x) →
        NoPanicO (listF fo text f start acc ts)) ∧
    (∀ acc ts, (∀ x ∈ ts, TokOK text x) → NoPanicO (tailF fo text f acc ts)) ∧
    (∀ acc ts, (∀ x ∈ ts, TokOK text x) → NoPanicO (vectorF fo text f acc ts)) := by
  intro f
  induction f with
  | zero =>
    refine ⟨?_, ?_, ?_, ?_⟩ <;> intros <;> intro m <;> simp [parseF, listF, tailF, vectorF]
  | succ f ih =>
    obtain ⟨ihP, ihL, ihT, ihV⟩ := ih
    refine ⟨?_, ?_, ?_, ?_⟩
    · intro ts hall
      cases ts with
      | nil => intro m; simp [parseF]
      | cons t ts =>
        have ht : TokOK text t := hall t (by simp)
        have hts : ∀ x ∈ ts, TokOK text x := fun x hx => hall x (by simp [hx])
        rw [parseF]
        cases hk : tokKind t.ty with
        | wrap name => simp only; exact wrapRes_noPanic (ihP ts hts)
        | list => simp only; exact ihL t [] ts ht hts
        | vector => simp only; exact ihV [] ts hts
        | atom =>
          simp only
          intro m hm
          exact parseAtom_noPanic fo ht hts m (Option.some.inj hm)
    · intro start acc ts hstart hall
      cases ts with
      | nil => intro m; simp [listF]
      | cons t ts =>
        have ht : TokOK text t := hall t (by simp)
        have hts : ∀ x ∈ ts, TokOK text x := fun x hx => hall x (by simp [hx])
        rw [listF]
        by_cases hr : t.ty = .rightParen
        · simp only [hr, if_true]
          intro m hm
          exact closeList_noPanic hstart ht acc ts m (Option.some.inj hm)
        · by_cases hd : t.ty = .dot
          · simp only [hd, if_true, reduceCtorEq, if_false]; exact ihT acc ts hts
          · simp only [hr, hd, if_false]
            cases h1 : parseF fo text f (t :: ts) with
            | none => intro m; simp
            | some r1 =>
              cases r1 with
              | err e => intro m; simp
              | panic m' => exact absurd h1 (ihP (t :: ts) hall m')
              | ok v =>
                obtain ⟨d1, rest1⟩ := v
                simp only
                exact ihL start _ rest1 hstart
                  (fun x hx => hall x (parseF_rest_mem fo text h1 x hx))
    · intro acc ts hall
      cases ts with
      | nil => intro m; rw [tailF]; split <;> simp
      | cons t ts =>
        rw [tailF]
        by_cases he : acc.isEmpty = true
        · intro m; simp [he]
        · simp only [he, Bool.false_eq_true, if_false]
          by_cases hdr : t.ty = .dot ∨ t.ty = .rightParen
          · intro m; simp [hdr]
          · simp only [hdr, if_false]
            cases h1 : parseF fo text f (t :: ts) with
            | none => intro m; simp
            | some r1 =>
              cases r1 with
              | err e => intro m; simp
              | panic m' => exact absurd h1 (ihP (t :: ts) hall m')
              | ok v =>
                obtain ⟨d1, rest1⟩ := v
                intro m
                cases rest1 with
                | nil => simp
                | cons c rest' => simp only; split <;> simp
    · intro acc ts hall
      cases ts with
      | nil => intro m; simp [vectorF]
      | cons t ts =>
        have ht : TokOK text t := hall t (by simp)
        have hts : ∀ x ∈ ts, TokOK text x := fun x hx => hall x (by simp [hx])
        rw [vectorF]
        by_cases hr : t.ty = .rightParen
        · simp only [hr, if_true]
          intro m hm
          exact closeVector_noPanic ht acc ts m (Option.some.inj hm)
        · by_cases hd : t.ty = .dot
          · intro m; simp [hd]
          · simp only [hr, hd, if_false]
            cases h1 : parseF fo text f (t :: ts) with
            | none => intro m; simp
            | some r1 =>
              cases r1 with
              | err e => intro m; simp
              | panic m' => exact absurd h1 (ihP (t :: ts) hall m')
              | ok v =>
                obtain ⟨d1, rest1⟩ := v
                simp only
                exact ihV _ rest1 (fun x hx => hall x (parseF_rest_mem fo text h1 x hx))

/-- `parse` on well-spelled tokens never panics (neither a slice, an `unwrap`, a `usize`
    subtraction, the prefix `panic!`, the radix assertion, `i32` negation, nor the model's fuel) -/
theorem parseTokens_noPanic (fo : FloatOps) {text : Text} {ts : List Token}
    (hall : ∀ x ∈ ts, TokOK text x) (m : String) : parseTokens fo text ts ≠ .panic m := by
  intro h
  have hf := parseTokens_fuel fo text ts
  rw [h] at hf
  exact (parse_noPanic fo text _).1 ts hall m hf

end ParseText
end Marwood
