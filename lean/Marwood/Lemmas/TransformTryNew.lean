import Marwood.Lemmas.TransformKeys
/-!
# Inversion of `Transform::try_new`: what an accepted transformer looks like
-/
namespace Marwood.Transform
open Marwood Marwood.Spec.Match

structure Pres (p p' : Pattern) : Prop where
  expr : p'.expr = p.expr
  ell : p'.ellipsis = p.ellipsis
  lits : p'.literals = p.literals

theorem Pres.refl (p : Pattern) : Pres p p := ⟨rfl, rfl, rfl⟩
theorem Pres.trans {a b c : Pattern} (h1 : Pres a b) (h2 : Pres b c) : Pres a c :=
  ⟨h2.expr.trans h1.expr, h2.ell.trans h1.ell, h2.lits.trans h1.lits⟩

theorem foldlM_pres {α : Type} (g : Pattern → α → Res Pattern)
    (hg : ∀ p a p', g p a = .ok p' → Pres p p') :
    ∀ (xs : List α) (p p' : Pattern), xs.foldlM g p = .ok p' → Pres p p' := by
  intro xs
  induction xs with
  | nil => intro p p' h; simp [List.foldlM] at h; cases h; exact Pres.refl _
  | cons x xs ih =>
    intro p p' h
    simp only [List.foldlM, bind, Res.bind] at h
    cases hx : g p x with
    | ok p1 => rw [hx] at h; exact (hg _ _ _ hx).trans (ih _ _ h)
    | err e => rw [hx] at h; cases h
    | panic m => rw [hx] at h; cases h
    | fuel => rw [hx] at h; cases h

theorem findExpanded_pres : ∀ (f : Nat) (it : Datum) (p p' : Pattern),
    findExpanded f it p = .ok p' → Pres p p' := by
  intro f
  induction f with
  | zero => intro it p p' h; simp [findExpanded] at h
  | succ f ih =>
    intro it p p' h
    cases it with
    | sym x =>
      simp only [findExpanded] at h
      split at h <;> cases h <;> exact ⟨rfl, rfl, rfl⟩
    | pair a d =>
      simp only [findExpanded] at h
      exact foldlM_pres _ (fun p a p' h => ih a p p' h) _ _ _ h
    | _ => simp only [findExpanded] at h; cases h; exact Pres.refl _

theorem buildLoop_pres : ∀ (f : Nat) (imp : Bool) (len idx : Nat) (items : List Datum) (ct : Nat)
    (p p' : Pattern), buildLoop f imp len idx items ct p = .ok p' → Pres p p' := by
  intro f
  induction f with
  | zero => intro imp len idx items ct p p' h; simp [buildLoop] at h
  | succ f ih =>
    intro imp len idx items ct p p' h
    cases items with
    | nil => simp only [buildLoop] at h; cases h; exact Pres.refl _
    | cons it rest =>
      unfold buildLoop at h
      simp only at h
      cases it with
      | sym x =>
        simp only at h
        split at h
        · repeat' split at h
          all_goals first | cases h | exact ih _ _ _ _ _ _ _ h
        · split at h
          · rename_i p1 hstep
            have hp1 : Pres p p1 := by
              split at hstep
              · split at hstep
                · cases hstep
                · cases hstep; exact ⟨rfl, rfl, rfl⟩
              · split at hstep
                · cases hstep
                · cases hstep; exact Pres.refl _
            split at h
            · split at h
              · rename_i p2 hfe
                exact hp1.trans ((findExpanded_pres _ _ _ _ hfe).trans (ih _ _ _ _ _ _ _ h))
              all_goals cases h
            · exact hp1.trans (ih _ _ _ _ _ _ _ h)
          all_goals cases h
      | pair a d =>
        simp only at h
        split at h
        · rename_i p1 hp1
          have hp1' : Pres p p1 := by
            split at hp1
            · exact findExpanded_pres _ _ _ _ hp1
            · cases hp1; exact Pres.refl _
          split at h
          · rename_i p2 hp2
            exact hp1'.trans ((ih _ _ _ _ _ _ _ hp2).trans (ih _ _ _ _ _ _ _ h))
          all_goals cases h
        all_goals cases h
      | _ => simp only at h; exact ih _ _ _ _ _ _ _ h

theorem Pattern.tryNew_ok {f : Nat} {expr ell : Datum} {lits : List Datum} {p : Pattern}
    (h : Pattern.tryNew f expr ell lits = .ok p) :
    p.expr = expr ∧ p.ellipsis = ell ∧ p.literals = lits ∧ ∃ kw body, expr = .pair kw body ∧
      build f body { expr := expr, variables := [], expanded := [], ellipsis := ell, literals := lits } = .ok p := by
  unfold Pattern.tryNew at h
  cases expr with
  | pair kw body =>
    simp only [Datum.isPair, Bool.not_true, Bool.false_eq_true, if_false, cdrE] at h
    have := buildLoop_pres _ _ _ _ _ _ _ _ h
    exact ⟨this.expr, this.ell, this.lits, kw, body, rfl, h⟩
  | _ => simp [Datum.isPair] at h

end Marwood.Transform

namespace Marwood.Transform
open Marwood Marwood.Spec.Match

/-- what `Transform::try_new` established about one rule -/
structure RuleOK (f : Nat) (ell : Datum) (lits : List Datum) (r : Pattern × Datum) : Prop where
  pat : Pattern.tryNew f r.1.expr ell lits = .ok r.1
  support : checkPatternSupport f r.1.expr ell false = .ok ()
  tsyntax : checkTemplateSyntax f r.2 r.1 ell = .ok ()
  tsupport : ∃ seen, checkTemplateSupport f r.2 r.1 ell false [] = .ok seen

theorem rulesLoop_ok (f : Nat) (ell : Datum) (lits : List Datum) :
    ∀ (items : List Datum) (acc rs : List (Pattern × Datum)),
      rulesLoop f ell lits items acc = .ok rs → (∀ r ∈ acc, RuleOK f ell lits r) →
      ∀ r ∈ rs, RuleOK f ell lits r := by
  intro items
  induction items with
  | nil => intro acc rs h hacc; simp only [rulesLoop] at h; cases h; exact hacc
  | cons it rest ih =>
    intro acc rs h hacc
    simp only [rulesLoop, bind, Res.bind] at h
    split at h
    · rename_i pattern hpat
      split at h
      · rename_i template htmpl
        split at h
        · rename_i hcps
          split at h
          · rename_i pat hpatnew
            split at h
            · rename_i hcts
              split at h
              · rename_i seen hsup
                refine ih _ _ h ?_
                intro r hr
                rcases List.mem_append.mp hr with hr | hr
                · exact hacc r hr
                · simp only [List.mem_singleton] at hr
                  subst hr
                  have hex := (Pattern.tryNew_ok hpatnew).1
                  exact ⟨by simpa [hex] using hpatnew, by simpa [hex] using hcps, hcts, ⟨seen, hsup⟩⟩
              all_goals cases h
            all_goals cases h
          all_goals cases h
        all_goals cases h
      all_goals cases h
    all_goals cases h

theorem allSym_names : ∀ (xs : List Datum), (xs.any fun it => !isSymbol it) = false →
    ∃ names : List Text, xs = names.map Datum.sym := by
  intro xs
  induction xs with
  | nil => intro _; exact ⟨[], rfl⟩
  | cons x xs ih =>
    intro h
    simp only [List.any_cons, Bool.or_eq_false_iff] at h
    obtain ⟨names, hn⟩ := ih h.2
    cases x <;> simp [isSymbol] at h
    rename_i s
    exact ⟨s :: names, by simp [hn]⟩

/-- an accepted definition: the ellipsis is an identifier, the literals are identifiers other than
    the ellipsis, and every rule passed `Pattern::try_new` and the three template/pattern checks -/
theorem Transform.tryNew_ok {f : Nat} {d : Datum} {t : Transform} (h : Transform.tryNew f d = .ok t) :
    ∃ s : Setup, t.ellipsis = s.ell ∧ t.literals = s.lits ∧ ∀ r ∈ t.rules, RuleOK f s.ell s.lits r := by
  unfold Transform.tryNew at h
  split at h
  · rename_i x keyword sr hiter
    split at h
    · cases h
    · simp only [bind, Res.bind] at h
      split at h
      · rename_i hd hcar
        split at h
        · cases h
        · split at h
          · rename_i sr1 hsr1
            split at h
            · rename_i hd1 hcar1
              split at h
              · rename_i pr hpr
                obtain ⟨ellipsis, sr2⟩ := pr
                simp only at h
                split at h
                · rename_i lh hlh
                  split at h
                  · cases h
                  · rename_i hallsym
                    split at h
                    · cases h
                    · rename_i hnoell
                      split at h
                      · rename_i sr3 hsr3
                        split at h
                        · rename_i rules hrules
                          cases h
                          -- the ellipsis is a symbol
                          have hell : ∃ es, ellipsis = Datum.sym es := by
                            cases hd1 with
                            | sym e =>
                              simp only at hpr
                              cases hc : cdrE sr1 with
                              | ok dd => simp [hc, Res.bind] at hpr; exact ⟨e, hpr.1.symm⟩
                              | _ => simp [hc, Res.bind] at hpr
                            | _ => simp at hpr; all_goals exact ⟨_, hpr.1.symm⟩
                          obtain ⟨es, hes⟩ := hell
                          obtain ⟨names, hnames⟩ := allSym_names (iterList lh) (by simpa using hallsym)
                          have hne : es ∉ names := by
                            intro hmem
                            apply hnoell
                            rw [hnames, hes]
                            simp only [List.any_map, List.any_eq_true]
                            exact ⟨es, hmem, by simp⟩
                          refine ⟨⟨es, names, hne⟩, by simp [Setup.ell, hes], by simp [Setup.lits, hnames], ?_⟩
                          simp only [Setup.ell, Setup.lits, ← hes, ← hnames]
                          exact rulesLoop_ok f ellipsis (iterList lh) _ [] rules hrules (by simp)
                        all_goals cases h
                      all_goals cases h
                all_goals cases h
              all_goals cases h
            all_goals cases h
          all_goals cases h
      all_goals cases h
  · cases h

end Marwood.Transform
