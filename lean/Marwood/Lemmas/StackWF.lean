import Marwood.Vm.Verify
import Marwood.Lemmas.TCall
import Marwood.Lemmas.SimErase
/-!
# WF-stack: the frame-chain invariant of the machine, relative to the bytecode verifier

`Frames T e f top bp l o K`: the stack `f` (a function from indices to cells) up to index `top` is
a chain of frames, the current one executing lambda `l` at offset `o` with base register `bp`;
`T` gives the verified typing of every code object, `e` is the stack pointer at which the
evaluation was entered (the entry frame has no header), `K` lists — innermost first — what each
frame will restore when it returns (a ghost: where the frame starts, saved `ep`, `ip`, `bp`).

Frame layout (run.rs CALL / ENTER): `args…, ArgumentCount(n), EnvironmentPointer,
InstructionPointer, BasePointer`, `bp` = index of the last argument, temporaries from `bp + 5`.

**Values.** The relation is parametric in `V : VCell → Prop`, "the cell holds a value": a temporary the
verifier types `val` satisfies `V`, so do the cells of the argument block under a CALL / TCALL, and the
argument cells of every frame; a frame of code object `t` has at least `argNeed t.bc` argument cells, so
every `BasePointerOffset` operand of its code addresses one of them. `V` is a field of the heap laws
(`CodeLaws.Val`, `Lemmas/StackWFLaws.lean`): `IsValue` (= `Lemmas.Sim.plainGlob`, the value notion of the
heap-simulation invariant `GoodI`) for the concrete machine, `fun _ => True` for the toy instances.
-/
namespace Marwood.Vm
open Verify Stack

variable {H : Type}

/-- **a first-class value**: a pointer, or a cell that mentions no heap address — the notion of the
    heap-simulation invariant (`GoodI.accv`, `Plain.globals`, the value-read clauses of `StackDisc`) -/
def IsValue (v : VCell) : Prop := Lemmas.Sim.plainGlob v = true

/-- the verifier's executable `isVal` is that notion -/
theorem isVal_eq_plainGlob (v : VCell) : Verify.isVal v = Lemmas.Sim.plainGlob v := by
  cases v <;> rfl

theorem isValue_of_isVal {v : VCell} (h : Verify.isVal v = true) : IsValue v := by
  unfold IsValue; rw [← isVal_eq_plainGlob]; exact h

theorem isValue_ptr (a : Nat) : IsValue (.ptr a) := rfl
theorem isValue_argc (n : Nat) : IsValue (.argc n) := rfl

/-- what a cell typed `t` may hold -/
def cellOk (V : VCell → Prop) : ACell → VCell → Prop
  | .any, _ => True
  | .val, v => V v
  | .argc n, v => v = .argc n ∧ V v

theorem cellOk.val_of_isV {V : VCell → Prop} {t : ACell} {v : VCell} (ht : t.isV = true) (h : cellOk V t v) : V v := by
  cases t with
  | any => cases ht
  | val => exact h
  | argc n => exact h.2

/-- the temporaries `a` (top first) are the cells `lo+1 … top` -/
def MatchAt (V : VCell → Prop) : List ACell → (Nat → VCell) → Nat → Nat → Prop
  | [], _, top, lo => top = lo
  | t :: a, f, top, lo => lo < top ∧ cellOk V t (f top) ∧ MatchAt V a f (top - 1) lo

/-- the cells `lo+1 … top` are what the abstract state says. At a CALL/TCALL the argument block is
    characterised at run time: *some* `argc m` on top of `m` **values** on top of the static rest. -/
def MatchSt (V : VCell → Prop) : AState → (Nat → VCell) → Nat → Nat → Prop
  | .pre, _, _, _ => False
  | .body a, f, top, lo => MatchAt V a f top lo
  | .call a, f, top, lo => ∃ m, f top = .argc m ∧ lo + m + 1 ≤ top ∧
      (∀ i, top - 1 - m < i → i < top → V (f i)) ∧ MatchAt V a f (top - 1 - m) lo

abbrev Typing := Nat → Option LamTy

/-- ghost description of a frame: index of its first cell, and the saved registers it returns to -/
structure FDesc where
  base : Nat
  sep : VCell
  sip : VCell
  sbp : Nat

inductive Frames (V : VCell → Prop) (T : Typing) (e : Nat) (f : Nat → VCell) :
    Nat → Nat → Nat → Nat → List FDesc → Prop
  /-- the entry frame: entry code (`PUSHIMM argc0; MOVIMM λ acc; CALL; HALT`), temporaries from `e+1` -/
  | entry {top bp l o : Nat} {t : LamTy} {st : AState} :
      T l = some t → t.entry = true → stateAt t.tm o = some st → MatchSt V st f top e →
      Frames V T e f top bp l o []
  /-- a complete frame: header intact at `bp+1 … bp+4`, temporaries as typed, at least as many argument
      cells as the code addresses, each holding a value, and below the first argument the caller's frame
      in the state it will be in when this frame returns (never a prologue instruction) -/
  | frame {top bp l o : Nat} {t : LamTy} {st : AState} {n ep' l' o' bp' : Nat} {K : List FDesc} :
      T l = some t → t.entry = false → stateAt t.tm o = some st → MatchSt V st f top (bp + 4) →
      f (bp + 1) = .argc n → f (bp + 2) = .envPtr ep' → f (bp + 3) = .instrPtr l' o' →
      f (bp + 4) = .basePtr bp' → n ≤ bp →
      argNeed t.bc ≤ n → (∀ i, bp - n < i → i ≤ bp → V (f i)) →
      (∀ t', T l' = some t' → stateAt t'.tm o' ≠ some .pre) →
      Frames V T e f (bp - n) bp' l' o' K →
      Frames V T e f top bp l o (⟨bp + 1 - n, .envPtr ep', .instrPtr l' o', bp'⟩ :: K)
  /-- between CALL/TCALL and the callee's ENTER: `args, argc, ep, ip` pushed, `bp` still the caller's -/
  | pre {top bp l o : Nat} {t : LamTy} {n ep' l' o' : Nat} {K : List FDesc} :
      T l = some t → t.entry = false → stateAt t.tm o = some .pre →
      n + 3 ≤ top → f top = .instrPtr l' o' → f (top - 1) = .envPtr ep' → f (top - 2) = .argc n →
      (∀ i, top - 3 - n < i → i ≤ top - 3 → V (f i)) →
      (∀ t', T l' = some t' → stateAt t'.tm o' ≠ some .pre) →
      Frames V T e f (top - 3 - n) bp l' o' K →
      Frames V T e f top bp l o (⟨top - 2 - n, .envPtr ep', .instrPtr l' o', bp⟩ :: K)

/-- WF-stack for a machine state -/
structure WF (V : VCell → Prop) (T : Typing) (e : Nat) (s : St H) (K : List FDesc) : Prop where
  cap : s.stack.sp < s.stack.cells.length
  frames : Frames V T e s.stack.cellAt s.stack.sp s.bp s.ipL s.ipO K

/-- a continuation object is the snapshot of a WF state at the return point of a call (never inside a
    procedure prologue) -/
structure ContWF (V : VCell → Prop) (T : Typing) (e : Nat) (c : Cont) (K : List FDesc) : Prop where
  cap : c.stack.sp < c.stack.cells.length
  frames : Frames V T e c.stack.cellAt c.stack.sp c.bp c.ipL c.ipO K
  body : ∀ t, T c.ipL = some t → stateAt t.tm c.ipO ≠ some .pre

/-! ## basic facts -/

variable {V : VCell → Prop}

theorem MatchAt.top_eq {a : List ACell} {f : Nat → VCell} : ∀ {top lo : Nat},
    MatchAt V a f top lo → top = lo + a.length := by
  induction a with
  | nil => intro top lo h; simpa [MatchAt] using h
  | cons t a ih =>
    intro top lo h
    obtain ⟨h1, _, h3⟩ := h
    have := ih h3
    simp only [List.length_cons]; omega

theorem MatchAt.congr {a : List ACell} {f f' : Nat → VCell} : ∀ {top lo : Nat},
    (∀ i, i ≤ top → f' i = f i) → MatchAt V a f top lo → MatchAt V a f' top lo := by
  induction a with
  | nil => intro top lo _ h; exact h
  | cons t a ih =>
    intro top lo hf h
    obtain ⟨h1, h2, h3⟩ := h
    refine ⟨h1, ?_, ih (fun i hi => hf i (by omega)) h3⟩
    rw [hf top (Nat.le_refl _)]; exact h2

/-- a weaker value notion is implied -/
theorem MatchAt.weaken {V' : VCell → Prop} (hV : ∀ v, V v → V' v) {a : List ACell} {f : Nat → VCell} :
    ∀ {top lo : Nat}, MatchAt V a f top lo → MatchAt V' a f top lo := by
  induction a with
  | nil => intro top lo h; exact h
  | cons t a ih =>
    intro top lo h
    obtain ⟨h1, h2, h3⟩ := h
    refine ⟨h1, ?_, ih h3⟩
    cases t with
    | any => trivial
    | val => exact hV _ h2
    | argc n => exact ⟨h2.1, hV _ h2.2⟩

theorem MatchAt.drop {f : Nat → VCell} : ∀ {a : List ACell} {n top lo : Nat},
    MatchAt V a f top lo → n ≤ a.length → MatchAt V (a.drop n) f (top - n) lo := by
  intro a n
  induction n generalizing a with
  | zero => intro top lo h _; simpa using h
  | succ n ih =>
    intro top lo h hn
    cases a with
    | nil => simp at hn
    | cons t a =>
      obtain ⟨_, _, h3⟩ := h
      have := ih h3 (by simpa using hn)
      simp only [List.drop_succ_cons]
      have e : top - (n + 1) = top - 1 - n := by omega
      rw [e]; exact this

/-- the `n` topmost cells, when all typed, hold values -/
theorem MatchAt.take_vals {f : Nat → VCell} : ∀ {a : List ACell} {n top lo : Nat},
    MatchAt V a f top lo → n ≤ a.length → (a.take n).all ACell.isV = true →
    ∀ i, top - n < i → i ≤ top → V (f i) := by
  intro a n
  induction n generalizing a with
  | zero => intro top lo _ _ _ i h1 h2; omega
  | succ n ih =>
    intro top lo h hn hall i h1 h2
    cases a with
    | nil => simp at hn
    | cons t a =>
      obtain ⟨hlt, hc, h3⟩ := h
      simp only [List.take_succ_cons, List.all_cons, Bool.and_eq_true] at hall
      by_cases hi : i = top
      · subst hi; exact hc.val_of_isV hall.1
      · exact ih h3 (by simpa using hn) hall.2 i (by omega) (by omega)

theorem MatchAt.push {a : List ACell} {f f' : Nat → VCell} {top lo : Nat} {t : ACell}
    (h : MatchAt V a f top lo) (hf : ∀ i, i ≤ top → f' i = f i) (ht : cellOk V t (f' (top + 1))) :
    MatchAt V (t :: a) f' (top + 1) lo := by
  have := h.top_eq
  exact ⟨by omega, ht, by simpa using h.congr hf⟩

theorem MatchSt.lo_le {st : AState} {f : Nat → VCell} {top lo : Nat} (h : MatchSt V st f top lo) :
    lo ≤ top := by
  cases st with
  | pre => exact h.elim
  | body a => have := MatchAt.top_eq h; omega
  | call a => obtain ⟨m, _, h2, _⟩ := h; omega

theorem MatchSt.congr {st : AState} {f f' : Nat → VCell} {top lo : Nat}
    (hf : ∀ i, i ≤ top → f' i = f i) (h : MatchSt V st f top lo) : MatchSt V st f' top lo := by
  cases st with
  | pre => exact h
  | body a => exact MatchAt.congr hf h
  | call a =>
    obtain ⟨m, h1, h2, hv, h3⟩ := h
    exact ⟨m, by rw [hf top (Nat.le_refl _)]; exact h1, h2,
      fun i hi1 hi2 => by rw [hf i (by omega)]; exact hv i hi1 hi2,
      MatchAt.congr (fun i hi => hf i (by omega)) h3⟩

theorem MatchSt.weaken {V' : VCell → Prop} (hV : ∀ v, V v → V' v) {st : AState} {f : Nat → VCell}
    {top lo : Nat} (h : MatchSt V st f top lo) : MatchSt V' st f top lo := by
  cases st with
  | pre => exact h
  | body a => exact MatchAt.weaken hV h
  | call a =>
    obtain ⟨m, h1, h2, hv, h3⟩ := h
    exact ⟨m, h1, h2, fun i a b => hV _ (hv i a b), MatchAt.weaken hV h3⟩

/-- the verifier's `flowsTo` is sound for the run-time matching relation -/
theorem flowsTo_sound {x : List ACell} {s : Option AState} {f : Nat → VCell} {top lo : Nat}
    (hfl : flowsTo x s = true) (h : MatchAt V x f top lo) : ∃ st, s = some st ∧ MatchSt V st f top lo := by
  cases s with
  | none => simp [flowsTo] at hfl
  | some st =>
    cases st with
    | pre => simp [flowsTo] at hfl
    | body y =>
      simp only [flowsTo, decide_eq_true_eq] at hfl
      subst hfl
      exact ⟨_, rfl, h⟩
    | call a =>
      cases x with
      | nil => simp [flowsTo] at hfl
      | cons c r =>
        cases c with
        | any => simp [flowsTo] at hfl
        | val => simp [flowsTo] at hfl
        | argc n =>
          simp only [flowsTo, Bool.and_eq_true, decide_eq_true_eq] at hfl
          obtain ⟨⟨hn, ha⟩, hall⟩ := hfl
          obtain ⟨h1, h2, h3⟩ := h
          have hb := h3.top_eq
          refine ⟨_, rfl, n, h2.1, by omega, ?_, ?_⟩
          · intro i hi1 hi2
            exact h3.take_vals hn hall i (by omega) (by omega)
          · rw [ha]
            exact h3.drop hn

theorem Frames.congr {T : Typing} {e : Nat} {f f' : Nat → VCell} {top bp l o : Nat} {K : List FDesc}
    (h : Frames V T e f top bp l o K) : (∀ i, i ≤ top → f' i = f i) → Frames V T e f' top bp l o K := by
  induction h with
  | entry h1 h2 h3 h4 => intro hf; exact .entry h1 h2 h3 (h4.congr hf)
  | @frame top bp l o t st n ep' l' o' bp' K h1 h2 h3 h4 h5 h6 h7 h8 h9 hnd hav hnp _ ih =>
    intro hf
    have hle := h4.lo_le
    have r := Frames.frame (f := f') h1 h2 h3 (h4.congr hf)
      (by rw [hf _ (by omega)]; exact h5) (by rw [hf _ (by omega)]; exact h6)
      (by rw [hf _ (by omega)]; exact h7) (by rw [hf _ (by omega)]; exact h8) h9 hnd
      (fun i a b => by rw [hf _ (by omega)]; exact hav i a b) hnp
      (ih (fun i hi => hf i (by omega)))
    exact r
  | @pre top bp l o t n ep' l' o' K h1 h2 h3 h4 h5 h6 h7 hav hnp _ ih =>
    intro hf
    exact Frames.pre (f := f') h1 h2 h3 h4
      (by rw [hf _ (by omega)]; exact h5) (by rw [hf _ (by omega)]; exact h6)
      (by rw [hf _ (by omega)]; exact h7)
      (fun i a b => by rw [hf _ (by omega)]; exact hav i a b) hnp
      (ih (fun i hi => hf i (by omega)))

theorem Frames.has_ty {T : Typing} {e : Nat} {f : Nat → VCell} {top bp l o : Nat} {K : List FDesc}
    (h : Frames V T e f top bp l o K) : ∃ t st, T l = some t ∧ stateAt t.tm o = some st := by
  cases h with
  | entry h1 _ h3 _ => exact ⟨_, _, h1, h3⟩
  | frame h1 _ h3 => exact ⟨_, _, h1, h3⟩
  | pre h1 _ h3 => exact ⟨_, _, h1, h3⟩

/-- "the return point is not a prologue instruction" under a larger typing -/
theorem Frames.np_mono {T T' : Typing} {e : Nat} {f : Nat → VCell} {top bp l o : Nat} {K : List FDesc}
    (h : Frames V T e f top bp l o K) (hT : ∀ t, T l = some t → T' l = some t)
    (hnp : ∀ t', T l = some t' → stateAt t'.tm o ≠ some .pre) :
    ∀ t', T' l = some t' → stateAt t'.tm o ≠ some .pre := by
  intro t' ht'
  obtain ⟨t, _, ht, _⟩ := h.has_ty
  have := hT t ht
  rw [ht'] at this
  have e : t' = t := Option.some.inj this
  rw [e]
  exact hnp t ht

/-- more code objects never hurt -/
theorem Frames.mono {T T' : Typing} {e : Nat} {f : Nat → VCell} {top bp l o : Nat} {K : List FDesc}
    (hT : ∀ l t, T l = some t → T' l = some t)
    (h : Frames V T e f top bp l o K) : Frames V T' e f top bp l o K := by
  induction h with
  | entry h1 h2 h3 h4 => exact .entry (hT _ _ h1) h2 h3 h4
  | frame h1 h2 h3 h4 h5 h6 h7 h8 h9 hnd hav hnp hc ih =>
    exact .frame (hT _ _ h1) h2 h3 h4 h5 h6 h7 h8 h9 hnd hav (hc.np_mono (hT _) hnp) ih
  | pre h1 h2 h3 h4 h5 h6 h7 hav hnp hc ih =>
    exact .pre (hT _ _ h1) h2 h3 h4 h5 h6 h7 hav (hc.np_mono (hT _) hnp) ih

/-- a weaker value notion is implied (`fun _ => True`: the shape of the frame chain alone) -/
theorem Frames.weaken {V' : VCell → Prop} (hV : ∀ v, V v → V' v) {T : Typing} {e : Nat} {f : Nat → VCell}
    {top bp l o : Nat} {K : List FDesc} (h : Frames V T e f top bp l o K) : Frames V' T e f top bp l o K := by
  induction h with
  | entry h1 h2 h3 h4 => exact .entry h1 h2 h3 (h4.weaken hV)
  | frame h1 h2 h3 h4 h5 h6 h7 h8 h9 hnd hav hnp _ ih =>
    exact .frame h1 h2 h3 (h4.weaken hV) h5 h6 h7 h8 h9 hnd (fun i a b => hV _ (hav i a b)) hnp ih
  | pre h1 h2 h3 h4 h5 h6 h7 hav hnp _ ih => exact .pre h1 h2 h3 h4 h5 h6 h7 (fun i a b => hV _ (hav i a b)) hnp ih

/-- every live frame starts at or below `top` -/
theorem Frames.e_le {T : Typing} {e : Nat} {f : Nat → VCell} {top bp l o : Nat} {K : List FDesc}
    (h : Frames V T e f top bp l o K) : e ≤ top := by
  induction h with
  | entry _ _ _ h4 => exact h4.lo_le
  | frame _ _ _ h4 _ _ _ _ _ _ _ _ _ ih => have := h4.lo_le; omega
  | pre _ _ _ _ _ _ _ _ _ _ ih => omega

/-- Inversion for a frame whose current instruction is not a prologue instruction: the temporaries
    match, and the frame can be rebuilt with any new temporaries above the same base `lo`. -/
theorem Frames.inv_body {T : Typing} {e : Nat} {f : Nat → VCell} {top bp l o : Nat} {K : List FDesc}
    (h : Frames V T e f top bp l o K) {t : LamTy} (ht : T l = some t) {st : AState}
    (hst : stateAt t.tm o = some st) (hne : st ≠ .pre) :
    ∃ lo, MatchSt V st f top lo ∧ (t.entry = true → lo = e) ∧ (t.entry = false → lo = bp + 4) ∧
      ∀ (f' : Nat → VCell) (top' o' : Nat) (st' : AState), (∀ i, i ≤ lo → f' i = f i) →
        stateAt t.tm o' = some st' → MatchSt V st' f' top' lo → Frames V T e f' top' bp l o' K := by
  cases h with
  | @entry _ _ _ _ t1 st1 h1 h2 h3 h4 =>
    have e1 : t1 = t := by rw [h1] at ht; exact Option.some.inj ht
    subst e1
    have e2 : st1 = st := by rw [h3] at hst; exact Option.some.inj hst
    subst e2
    refine ⟨e, h4, fun _ => rfl, fun h' => (by rw [h2] at h'; cases h'), ?_⟩
    intro f' top' o' st' _ hs hm
    exact .entry h1 h2 hs hm
  | @frame _ _ _ _ t1 st1 n ep' l' o' bp' K h1 h2 h3 h4 h5 h6 h7 h8 h9 hnd hav hnp h10 =>
    have e1 : t1 = t := by rw [h1] at ht; exact Option.some.inj ht
    subst e1
    have e2 : st1 = st := by rw [h3] at hst; exact Option.some.inj hst
    subst e2
    refine ⟨bp + 4, h4, fun h' => (by rw [h2] at h'; cases h'), fun _ => rfl, ?_⟩
    intro f' top' o' st' hf hs hm
    exact Frames.frame (f := f') h1 h2 hs hm
      (by rw [hf _ (by omega)]; exact h5) (by rw [hf _ (by omega)]; exact h6)
      (by rw [hf _ (by omega)]; exact h7) (by rw [hf _ (by omega)]; exact h8) h9 hnd
      (fun i a b => by rw [hf _ (by omega)]; exact hav i a b) hnp
      (h10.congr (fun i hi => hf i (by omega)))
  | @pre _ _ _ _ t1 n ep' l' o' K h1 h2 h3 h4 h5 h6 h7 hav hnp h8 =>
    have e1 : t1 = t := by rw [h1] at ht; exact Option.some.inj ht
    subst e1
    rw [h3] at hst
    exact absurd (Option.some.inj hst).symm hne

/-- Inversion for a complete frame (procedure code, not in the prologue): the header is intact -/
theorem Frames.inv_frame {T : Typing} {e : Nat} {f : Nat → VCell} {top bp l o : Nat} {K : List FDesc}
    (h : Frames V T e f top bp l o K) {t : LamTy} (ht : T l = some t) (hent : t.entry = false) {st : AState}
    (hst : stateAt t.tm o = some st) (hne : st ≠ .pre) :
    ∃ n ep' l' o' bp' K', MatchSt V st f top (bp + 4) ∧
      f (bp + 1) = .argc n ∧ f (bp + 2) = .envPtr ep' ∧ f (bp + 3) = .instrPtr l' o' ∧
      f (bp + 4) = .basePtr bp' ∧ n ≤ bp ∧ Frames V T e f (bp - n) bp' l' o' K' ∧
      K = ⟨bp + 1 - n, .envPtr ep', .instrPtr l' o', bp'⟩ :: K' := by
  cases h with
  | @entry _ _ _ _ t1 st1 h1 h2 h3 h4 =>
    have e1 : t1 = t := by rw [h1] at ht; exact Option.some.inj ht
    subst e1
    rw [h2] at hent; cases hent
  | @frame _ _ _ _ t1 st1 n ep' l' o' bp' K h1 h2 h3 h4 h5 h6 h7 h8 h9 hnd hav hnp h10 =>
    have e1 : t1 = t := by rw [h1] at ht; exact Option.some.inj ht
    subst e1
    have e2 : st1 = st := by rw [h3] at hst; exact Option.some.inj hst
    subst e2
    exact ⟨n, ep', l', o', bp', K, h4, h5, h6, h7, h8, h9, h10, rfl⟩
  | @pre _ _ _ _ t1 n ep' l' o' K h1 h2 h3 h4 h5 h6 h7 hav hnp h8 =>
    have e1 : t1 = t := by rw [h1] at ht; exact Option.some.inj ht
    subst e1
    rw [h3] at hst
    exact absurd (Option.some.inj hst).symm hne

/-- the argument cells of a complete frame: as many as its code addresses, each a value -/
theorem Frames.inv_args {T : Typing} {e : Nat} {f : Nat → VCell} {top bp l o : Nat} {K : List FDesc}
    (h : Frames V T e f top bp l o K) {t : LamTy} (ht : T l = some t) (hent : t.entry = false) {st : AState}
    (hst : stateAt t.tm o = some st) (hne : st ≠ .pre) :
    ∃ n l' o', f (bp + 1) = .argc n ∧ f (bp + 3) = .instrPtr l' o' ∧ n ≤ bp ∧ argNeed t.bc ≤ n ∧
      (∀ i, bp - n < i → i ≤ bp → V (f i)) ∧ ∀ t', T l' = some t' → stateAt t'.tm o' ≠ some .pre := by
  cases h with
  | @entry _ _ _ _ t1 st1 h1 h2 h3 h4 =>
    have e1 : t1 = t := by rw [h1] at ht; exact Option.some.inj ht
    subst e1
    rw [h2] at hent; cases hent
  | @frame _ _ _ _ t1 st1 n ep' l' o' bp' K h1 h2 h3 h4 h5 h6 h7 h8 h9 hnd hav hnp h10 =>
    have e1 : t1 = t := by rw [h1] at ht; exact Option.some.inj ht
    subst e1
    exact ⟨n, l', o', h5, h7, h9, hnd, hav, hnp⟩
  | @pre _ _ _ _ t1 n ep' l' o' K h1 h2 h3 h4 h5 h6 h7 hav hnp h8 =>
    have e1 : t1 = t := by rw [h1] at ht; exact Option.some.inj ht
    subst e1
    rw [h3] at hst
    exact absurd (Option.some.inj hst).symm hne

/-- Inversion at a prologue instruction -/
theorem Frames.inv_pre {T : Typing} {e : Nat} {f : Nat → VCell} {top bp l o : Nat} {K : List FDesc}
    (h : Frames V T e f top bp l o K) {t : LamTy} (ht : T l = some t)
    (hst : stateAt t.tm o = some .pre) :
    t.entry = false ∧ ∃ n ep' l' o' K', n + 3 ≤ top ∧ f top = .instrPtr l' o' ∧ f (top - 1) = .envPtr ep' ∧
      f (top - 2) = .argc n ∧ Frames V T e f (top - 3 - n) bp l' o' K' ∧
      K = ⟨top - 2 - n, .envPtr ep', .instrPtr l' o', bp⟩ :: K' := by
  cases h with
  | @entry _ _ _ _ t1 st1 h1 h2 h3 h4 =>
    have e1 : t1 = t := by rw [h1] at ht; exact Option.some.inj ht
    subst e1
    rw [h3] at hst
    have := Option.some.inj hst
    subst this
    exact h4.elim
  | @frame _ _ _ _ t1 st1 n ep' l' o' bp' K h1 h2 h3 h4 h5 h6 h7 h8 h9 hnd hav hnp h10 =>
    have e1 : t1 = t := by rw [h1] at ht; exact Option.some.inj ht
    subst e1
    rw [h3] at hst
    have := Option.some.inj hst
    subst this
    exact h4.elim
  | @pre _ _ _ _ t1 n ep' l' o' K h1 h2 h3 h4 h5 h6 h7 hav hnp h8 =>
    have e1 : t1 = t := by rw [h1] at ht; exact Option.some.inj ht
    subst e1
    exact ⟨h2, n, ep', l', o', K, h4, h5, h6, h7, h8, rfl⟩

/-- the argument block of a frame under construction holds values -/
theorem Frames.inv_pre_args {T : Typing} {e : Nat} {f : Nat → VCell} {top bp l o : Nat} {K : List FDesc}
    (h : Frames V T e f top bp l o K) {t : LamTy} (ht : T l = some t)
    (hst : stateAt t.tm o = some .pre) :
    ∃ n l' o', f (top - 2) = .argc n ∧ f top = .instrPtr l' o' ∧ n + 3 ≤ top ∧
      (∀ i, top - 3 - n < i → i ≤ top - 3 → V (f i)) ∧ ∀ t', T l' = some t' → stateAt t'.tm o' ≠ some .pre := by
  cases h with
  | @entry _ _ _ _ t1 st1 h1 h2 h3 h4 =>
    have e1 : t1 = t := by rw [h1] at ht; exact Option.some.inj ht
    subst e1
    rw [h3] at hst
    have := Option.some.inj hst
    subst this
    exact h4.elim
  | @frame _ _ _ _ t1 st1 n ep' l' o' bp' K h1 h2 h3 h4 h5 h6 h7 h8 h9 hnd hav hnp h10 =>
    have e1 : t1 = t := by rw [h1] at ht; exact Option.some.inj ht
    subst e1
    rw [h3] at hst
    have := Option.some.inj hst
    subst this
    exact h4.elim
  | @pre _ _ _ _ t1 n ep' l' o' K h1 h2 h3 h4 h5 h6 h7 hav hnp h8 =>
    exact ⟨n, l', o', h7, h5, h4, hav, hnp⟩

/-! ## `argNeed` -/

def argStep (m : Nat) (c : VCell) : Nat :=
  match c with
  | .bpOffset off => max m ((-off).toNat + 1)
  | _ => m

theorem argNeed_eq (bc : List VCell) : argNeed bc = bc.foldl argStep 0 := rfl

theorem foldl_argStep_ge : ∀ (bc : List VCell) (m : Nat), m ≤ bc.foldl argStep m := by
  intro bc
  induction bc with
  | nil => intro m; exact Nat.le_refl _
  | cons c bc ih =>
    intro m
    simp only [List.foldl_cons]
    refine Nat.le_trans ?_ (ih _)
    unfold argStep
    split
    · exact Nat.le_max_left _ _
    · exact Nat.le_refl _

theorem foldl_argStep_mem : ∀ (bc : List VCell) (m j : Nat) (off : Int),
    bc[j]? = some (.bpOffset off) → (-off).toNat + 1 ≤ bc.foldl argStep m := by
  intro bc
  induction bc with
  | nil => intro m j off h; simp at h
  | cons c bc ih =>
    intro m j off h
    simp only [List.foldl_cons]
    cases j with
    | zero =>
      simp only [List.getElem?_cons_zero, Option.some.injEq] at h
      subst h
      refine Nat.le_trans ?_ (foldl_argStep_ge _ _)
      simp only [argStep]
      exact Nat.le_max_right _ _
    | succ j =>
      simp only [List.getElem?_cons_succ] at h
      exact ih _ j off h

/-- a `BasePointerOffset(off)` cell of the code addresses one of the `argNeed` topmost argument cells -/
theorem argNeed_ge {bc : List VCell} {j : Nat} {off : Int} (h : bc[j]? = some (.bpOffset off)) :
    (-off).toNat + 1 ≤ argNeed bc := by
  rw [argNeed_eq]; exact foldl_argStep_mem bc 0 j off h

/-! ## the verifier's guarantees -/

theorem verifyLam_spec {bc : List VCell} {t : LamTy} (h : verifyLam bc = some t) :
    t.bc = bc ∧ checkAll t.bc t.tm t.entry = true := by
  unfold verifyLam verify at h
  simp only at h
  cases hi : infer bc (isEntryCode bc) with
  | error e => rw [hi] at h; cases h
  | ok r =>
    obtain ⟨tm, hh⟩ := r
    rw [hi] at h
    simp only at h
    by_cases hc : checkAll bc tm (isEntryCode bc) = true
    · simp only [hc, if_true] at h
      cases h
      exact ⟨rfl, hc⟩
    · have hc' : checkAll bc tm (isEntryCode bc) = false := by simpa using hc
      rw [hc'] at h
      simp only [Bool.false_eq_true, if_false] at h
      split at h
      · rename_i heq; split at heq <;> cases heq
      · cases h

theorem checkAll_at {bc : List VCell} {tm : TypeMap} {entry : Bool} (h : checkAll bc tm entry = true)
    {o : Nat} (ho : o < bc.length) : checkAt bc tm entry o = true := by
  unfold checkAll at h
  simp only [Bool.and_eq_true, List.all_eq_true, List.mem_range] at h
  exact h.2 o ho

theorem checkAll_init {bc : List VCell} {tm : TypeMap} {entry : Bool} (h : checkAll bc tm entry = true) :
    stateAt tm 0 = some (initState entry) := by
  unfold checkAll at h
  simp only [Bool.and_eq_true, decide_eq_true_eq] at h
  exact h.1

/-- the local check at an offset holding an opcode -/
theorem check_of_fetch {t : LamTy} (hc : checkAll t.bc t.tm t.entry = true) {o : Nat} {op : Op}
    {st : AState} (hf : t.bc[o]? = some (.opcode op)) (hst : stateAt t.tm o = some st) :
    checkOp t.bc t.tm t.entry o st op = true := by
  have ho : o < t.bc.length := by
    by_cases h : o < t.bc.length
    · exact h
    · rw [List.getElem?_eq_none (by omega)] at hf; cases hf
  have := checkAll_at hc ho
  unfold checkAt at this
  rw [hst] at this
  simp only at this
  rw [hf] at this
  simp only [Bool.and_eq_true] at this
  exact this.2

/-- the verifier's check of the cell after an opcode at a typed offset: a `BasePointerOffset` there
    (the source operand of MOV / PUSH) is in procedure code and not above the frame base -/
theorem src_of_fetch {t : LamTy} (hc : checkAll t.bc t.tm t.entry = true) {o : Nat} {op : Op}
    {st : AState} (hf : t.bc[o]? = some (.opcode op)) (hst : stateAt t.tm o = some st) :
    bpSrcOk t.entry t.bc[o + 1]? = true := by
  have ho : o < t.bc.length := by
    by_cases h : o < t.bc.length
    · exact h
    · rw [List.getElem?_eq_none (by omega)] at hf; cases hf
  have := checkAll_at hc ho
  unfold checkAt at this
  rw [hst] at this
  simp only at this
  rw [hf] at this
  simp only [Bool.and_eq_true] at this
  exact this.1

/-- the typing of the code objects of a heap -/
def tyOf (code : Nat → Option (List VCell)) : Typing := fun l => (code l).bind verifyLam

theorem tyOf_mono {code code' : Nat → Option (List VCell)}
    (h : ∀ l bc, code l = some bc → code' l = some bc) :
    ∀ l t, tyOf code l = some t → tyOf code' l = some t := by
  intro l t ht
  unfold tyOf at ht ⊢
  cases hc : code l with
  | none => rw [hc] at ht; cases ht
  | some bc => rw [hc] at ht; rw [h l bc hc]; exact ht

theorem tyOf_spec {code : Nat → Option (List VCell)} {l : Nat} {t : LamTy} (h : tyOf code l = some t) :
    code l = some t.bc ∧ checkAll t.bc t.tm t.entry = true := by
  unfold tyOf at h
  cases hc : code l with
  | none => rw [hc] at h; cases h
  | some bc =>
    rw [hc] at h
    have := verifyLam_spec h
    exact ⟨by rw [this.1], this.2⟩

end Marwood.Vm
