import Marwood.Lemmas.VerifyScan
import Marwood.Lemmas.VerifyBlkDefs
/-!
# The verifier's forward pass runs through structured code

`blk_scan`: if the cells of a code object from offset `b` are a loading (`Enc`) of a structured block
`Blk b code pre post`, the scan arrives at `b` with the abstract stack `pre ++ r` and every pending jump edge
it carries targets an offset at or after the end of the block, then the scan reaches the end of the block
without a reject, with the abstract stack `post ++ r` and the same outer pending edges.
-/
namespace Marwood.Vm.Verify
open Marwood.Vm

/-- the scan is about to read an instruction with abstract stack `x`: the stack falls through or arrives
    over a pending edge; every pending edge is such an arrival or one of the outer edges `P`, all of which
    are still pending -/
def Ready (s : Scan) (x : List ACell) (P : List (Nat × List ACell)) : Prop :=
  (s.cur = some x ∨ (s.cur = none ∧ (s.o, x) ∈ s.pend)) ∧
  (∀ p ∈ s.pend, p = (s.o, x) ∨ p ∈ P) ∧ (∀ p ∈ P, p ∈ s.pend)

theorem all_eq_cons {α : Type} (l : List α) (x : α) (hne : l ≠ []) (h : ∀ y ∈ l, y = x) :
    ∃ others, l = x :: others ∧ ∀ y ∈ others, y = x := by
  cases l with
  | nil => exact absurd rfl hne
  | cons a t =>
    have := h a (by simp)
    subst this
    exact ⟨t, rfl, fun y hy => h y (by simp [hy])⟩

theorem incoming_ready {s : Scan} {x : List ACell} {P : List (Nat × List ACell)} (hr : Ready s x P)
    (hP : ∀ p ∈ P, s.o < p.1) : ∃ others, incoming s = x :: others ∧ others.any (· != x) = false := by
  obtain ⟨h1, h2, _⟩ := hr
  have hall : ∀ y ∈ incoming s, y = x := by
    intro y hy
    simp only [incoming, List.mem_append, List.mem_map, List.mem_filter, Option.mem_toList] at hy
    rcases hy with hy | ⟨p, ⟨hp, hpo⟩, rfl⟩
    · rcases h1 with h1 | ⟨h1, _⟩
      · rw [h1] at hy; cases hy; rfl
      · rw [h1] at hy; cases hy
    · rcases h2 p hp with rfl | hpP
      · rfl
      · have := hP p hpP
        simp only [beq_iff_eq] at hpo
        omega
  have hne : incoming s ≠ [] := by
    rcases h1 with h1 | ⟨_, hm⟩
    · simp [incoming, h1]
    · intro h0
      have : x ∈ incoming s := by
        simp only [incoming, List.mem_append, List.mem_map, List.mem_filter]
        exact .inr ⟨(s.o, x), ⟨hm, by simp⟩, rfl⟩
      rw [h0] at this; cases this
  obtain ⟨others, he, ho⟩ := all_eq_cons _ _ hne hall
  refine ⟨others, he, ?_⟩
  rw [List.any_eq_false]
  intro y hy
  simp [ho y hy]

/-- one instruction from a `Ready` state -/
theorem scanOne_ready {bc : List VCell} {entry : Bool} {s : Scan} {x : List ACell}
    {P : List (Nat × List ACell)} {op : Op} {e : Effect}
    (hr : Ready s x P) (hP : ∀ p ∈ P, s.o < p.1) (hop : bc[s.o]? = some (.opcode op))
    (hbp : bpSrcOk entry bc[s.o + 1]? = true) (he : instrEffect bc entry s.o x op = .ok e) :
    scanOne bc entry s = .ok (applyEffect s e) ∧
      ∀ p, p ∈ (applyEffect s e).pend ↔ (p ∈ e.2.2.2.1 ∨ p ∈ P) := by
  obtain ⟨others, hi, ho⟩ := incoming_ready hr hP
  constructor
  · rw [scanOne_eq]
    unfold scanOne'
    simp only [hi, ho, hop, hbp, he]
    rfl
  · intro p
    rw [applyEffect_pend, List.mem_append, List.mem_filter]
    constructor
    · rintro (h | ⟨hp, hne⟩)
      · exact .inl h
      · rcases hr.2.1 p hp with rfl | h
        · simp at hne
        · exact .inr h
    · rintro (h | h)
      · exact .inl h
      · refine .inr ⟨hr.2.2 p h, ?_⟩
        have := hP p h
        simp only [bne_iff_ne, ne_eq]
        omega

/-! ## the cells of a block -/

/-- the cells from offset `base` are a loading of `code` -/
def CellsAt (bc : List VCell) (base : Nat) (code : List BC) : Prop :=
  ∀ i b, code[i]? = some b → ∃ v, bc[base + i]? = some v ∧ Enc b v

/-- no cell is a `BasePointerOffset` -/
def NoBp (bc : List VCell) : Prop := ∀ (i : Nat) (off : Int), bc[i]? ≠ some (VCell.bpOffset off)

theorem CellsAt.append {bc : List VCell} {base : Nat} {c1 c2 : List BC} (h : CellsAt bc base (c1 ++ c2)) :
    CellsAt bc base c1 ∧ CellsAt bc (base + c1.length) c2 := by
  constructor
  · intro i b hb
    apply h i b
    rw [List.getElem?_append_left (by
      rcases Nat.lt_or_ge i c1.length with hl | hl
      · exact hl
      · rw [List.getElem?_eq_none hl] at hb; cases hb)]
    exact hb
  · intro i b hb
    have := h (c1.length + i) b (by rw [List.getElem?_append_right (by omega)]; simpa using hb)
    rwa [Nat.add_assoc]

theorem CellsAt.head {bc : List VCell} {base : Nat} {b : BC} {c : List BC} (h : CellsAt bc base (b :: c)) :
    (∃ v, bc[base]? = some v ∧ Enc b v) ∧ CellsAt bc (base + 1) c := by
  constructor
  · simpa using h 0 b rfl
  · intro i b' hb
    have := h (i + 1) b' (by simpa using hb)
    rwa [show base + (i + 1) = base + 1 + i by omega] at this

theorem bpSrcOk_of_noBp {bc : List VCell} (hnb : NoBp bc) (entry : Bool) (i : Nat) :
    bpSrcOk entry bc[i]? = true := by
  cases h : (bc[i]? : Option VCell) with
  | none => rfl
  | some v =>
    cases v <;> try rfl
    exact absurd h (hnb i _)

theorem enc_loc {b : BC} {v : VCell} (hb : locB b = true) (he : Enc b v) :
    srcOk (some v) = true ∧ dstOk (some v) = true := by
  cases b <;> simp [locB] at hb <;> simp only [Enc] at he
  · subst he; exact ⟨rfl, rfl⟩
  · obtain ⟨g, rfl⟩ := he; exact ⟨rfl, rfl⟩
  · obtain ⟨g, rfl⟩ := he; exact ⟨rfl, rfl⟩

theorem dataCell_val {v : VCell} (h : dataCell v = true) : isVal v = true ∧ cellTy v = .val := by
  cases v <;> simp [dataCell] at h <;> exact ⟨rfl, rfl⟩

theorem enc_imm {b : BC} {v : VCell} (hb : immB b = true) (he : Enc b v) : immOk (some v) = true := by
  cases b <;> simp [immB] at hb <;> simp only [Enc] at he
  · exact (dataCell_val he).1
  · subst he; rfl
  · obtain ⟨a, rfl⟩ := he; rfl

/-- a fall-through instruction (no jump edge) from a `Ready` state -/
theorem leaf_step {bc : List VCell} (hnb : NoBp bc) {s : Scan} {x x' : List ACell}
    {P : List (Nat × List ACell)} {op : Op} {st : AState} {w hh : Nat}
    (hr : Ready s x P) (hP : ∀ p ∈ P, s.o + w ≤ p.1) (hop : bc[s.o]? = some (.opcode op))
    (he : instrEffect bc false s.o x op = .ok (st, w, some x', [], hh)) :
    Steps bc false s (applyEffect s (st, w, some x', [], hh)) ∧
      (applyEffect s (st, w, some x', [], hh)).o = s.o + w ∧
      Ready (applyEffect s (st, w, some x', [], hh)) x' P := by
  have hw := instrEffect_width he
  simp only at hw
  have hP' : ∀ p ∈ P, s.o < p.1 := fun p hp => by have := hP p hp; omega
  obtain ⟨h1, h2⟩ := scanOne_ready hr hP' hop (bpSrcOk_of_noBp hnb false _) he
  have hlt : s.o < bc.length := by
    rcases Nat.lt_or_ge s.o bc.length with h | h
    · exact h
    · rw [List.getElem?_eq_none h] at hop; cases hop
  refine ⟨Steps.one hlt h1, rfl, .inl rfl, ?_, ?_⟩
  · intro p hp
    rcases (h2 p).1 hp with h | h
    · simp at h
    · exact .inr h
  · intro p hp
    exact (h2 p).2 (.inr hp)

/-- a jump instruction (JMP / JNT) from a `Ready` state -/
theorem jump_step {bc : List VCell} (hnb : NoBp bc) {s : Scan} {x : List ACell}
    {P : List (Nat × List ACell)} {op : Op} {st : AState} {t hh : Nat} {cur' : Option (List ACell)}
    (hr : Ready s x P) (hP : ∀ p ∈ P, s.o + 2 ≤ p.1) (hop : bc[s.o]? = some (.opcode op))
    (he : instrEffect bc false s.o x op = .ok (st, 2, cur', [(t, x)], hh)) :
    Steps bc false s (applyEffect s (st, 2, cur', [(t, x)], hh)) ∧
      ∀ p, p ∈ (applyEffect s (st, 2, cur', [(t, x)], hh)).pend ↔ (p = (t, x) ∨ p ∈ P) := by
  have hP' : ∀ p ∈ P, s.o < p.1 := fun p hp => by have := hP p hp; omega
  obtain ⟨h1, h2⟩ := scanOne_ready hr hP' hop (bpSrcOk_of_noBp hnb false _) he
  have hlt : s.o < bc.length := by
    rcases Nat.lt_or_ge s.o bc.length with h | h
    · exact h
    · rw [List.getElem?_eq_none h] at hop; cases hop
  refine ⟨Steps.one hlt h1, ?_⟩
  intro p
  rw [h2 p]
  simp

theorem CellsAt.two {bc : List VCell} {base : Nat} {b0 b1 : BC} {c : List BC}
    (h : CellsAt bc base (b0 :: b1 :: c)) :
    ∃ v0 v1, bc[base]? = some v0 ∧ Enc b0 v0 ∧ bc[base + 1]? = some v1 ∧ Enc b1 v1 := by
  obtain ⟨⟨v0, h0, e0⟩, h'⟩ := h.head
  obtain ⟨⟨v1, h1, e1⟩, _⟩ := h'.head
  exact ⟨v0, v1, h0, e0, h1, e1⟩

theorem CellsAt.three {bc : List VCell} {base : Nat} {b0 b1 b2 : BC} {c : List BC}
    (h : CellsAt bc base (b0 :: b1 :: b2 :: c)) :
    ∃ v0 v1 v2, bc[base]? = some v0 ∧ Enc b0 v0 ∧ bc[base + 1]? = some v1 ∧ Enc b1 v1 ∧
      bc[base + 2]? = some v2 ∧ Enc b2 v2 := by
  obtain ⟨⟨v0, h0, e0⟩, h'⟩ := h.head
  obtain ⟨⟨v1, h1, e1⟩, h''⟩ := h'.head
  obtain ⟨⟨v2, h2, e2⟩, _⟩ := h''.head
  exact ⟨v0, v1, v2, h0, e0, h1, e1, h2, e2⟩

/-- the forward pass runs through structured code; the scan state it reaches (`F s`) does not depend on the
    loading -/
theorem blk_scan {b : Nat} {code : List BC} {p q : List ACell} (hb : Blk b code p q) :
    ∀ (r : List ACell), ∃ F : Scan → Scan, ∀ {bc : List VCell} (_ : NoBp bc) (s : Scan)
      (P : List (Nat × List ACell)),
    CellsAt bc b code → s.o = b → Ready s (p ++ r) P → (∀ e ∈ P, b + code.length ≤ e.1) →
    Steps bc false s (F s) ∧ (F s).o = b + code.length ∧ Ready (F s) (q ++ r) P := by
  induction hb with
  | nil b => intro r; exact ⟨id, fun _ s P _ ho hr _ => ⟨.refl _, by simpa using ho, hr⟩⟩
  | seq h1 h2 ih1 ih2 =>
    intro r
    obtain ⟨F1, k1⟩ := ih1 r
    obtain ⟨F2, k2⟩ := ih2 r
    refine ⟨fun s => F2 (F1 s), ?_⟩
    intro bc hnb s P hc ho hr hP
    obtain ⟨hc1, hc2⟩ := hc.append
    obtain ⟨st1, ho1, hr1⟩ := k1 hnb s P hc1 ho hr
      (fun e he => by have := hP e he; simp only [List.length_append] at this; omega)
    obtain ⟨st2, ho2, hr2⟩ := k2 hnb (F1 s) P hc2 ho1 hr1
      (fun e he => by have := hP e he; simp only [List.length_append] at this; omega)
    exact ⟨st1.trans st2, by simp only [ho2, List.length_append]; omega, hr2⟩
  | frame r' h ih =>
    intro r
    obtain ⟨F, k⟩ := ih (r' ++ r)
    refine ⟨F, ?_⟩
    intro bc hnb s P hc ho hr hP
    simp only [List.append_assoc] at hr ⊢
    exact k hnb s P hc ho hr hP
  | mov b src dst hs hd =>
    intro r
    refine ⟨fun s => applyEffect s (.body r, 3, some r, [], r.length), ?_⟩
    intro bc hnb s P hc ho hr hP
    subst ho
    obtain ⟨v0, v1, v2, h0, e0, h1, e1, h2, e2⟩ := hc.three
    simp only [Enc] at e0; subst e0
    exact leaf_step hnb hr hP h0 (by simp [instrEffect, h1, h2, (enc_loc hs e1).1, (enc_loc hd e2).2])
  | movImm b imm dst hs hd =>
    intro r
    refine ⟨fun s => applyEffect s (.body r, 3, some r, [], r.length), ?_⟩
    intro bc hnb s P hc ho hr hP
    subst ho
    obtain ⟨v0, v1, v2, h0, e0, h1, e1, h2, e2⟩ := hc.three
    simp only [Enc] at e0; subst e0
    exact leaf_step hnb hr hP h0 (by simp [instrEffect, h1, h2, enc_imm hs e1, (enc_loc hd e2).2])
  | pushAcc b =>
    intro r
    refine ⟨fun s => applyEffect s (.body r, 1, some (.val :: r), [], r.length + 1), ?_⟩
    intro bc hnb s P hc ho hr hP
    subst ho
    obtain ⟨⟨v0, h0, e0⟩, _⟩ := hc.head
    simp only [Enc] at e0; subst e0
    exact leaf_step hnb hr hP h0 (by simp [instrEffect])
  | pushArgc b n =>
    intro r
    refine ⟨fun s => applyEffect s (.body r, 2, some (.argc n :: r), [], r.length + 1), ?_⟩
    intro bc hnb s P hc ho hr hP
    subst ho
    obtain ⟨v0, v1, h0, e0, h1, e1⟩ := hc.two
    simp only [Enc] at e0 e1; subst e0; subst e1
    exact leaf_step hnb hr hP h0 (by simp [instrEffect, h1, cellTy])
  | pushDatum b d =>
    intro r
    refine ⟨fun s => applyEffect s (.body r, 2, some (.val :: r), [], r.length + 1), ?_⟩
    intro bc hnb s P hc ho hr hP
    subst ho
    obtain ⟨v0, v1, h0, e0, h1, e1⟩ := hc.two
    simp only [Enc] at e0 e1; subst e0
    exact leaf_step hnb hr hP h0 (by simp [instrEffect, h1, (dataCell_val e1).2])
  | closure b =>
    intro r
    refine ⟨fun s => applyEffect s (.body r, 1, some r, [], r.length), ?_⟩
    intro bc hnb s P hc ho hr hP
    subst ho
    obtain ⟨⟨v0, h0, e0⟩, _⟩ := hc.head
    simp only [Enc] at e0; subst e0
    exact leaf_step hnb hr hP h0 (by simp [instrEffect])
  | cons b c1 c2 h1 h2 =>
    intro r
    refine ⟨fun s => applyEffect s (.body (c1 :: c2 :: r), 1, some r, [], (c1 :: c2 :: r).length), ?_⟩
    intro bc hnb s P hc ho hr hP
    subst ho
    obtain ⟨⟨v0, h0, e0⟩, _⟩ := hc.head
    simp only [Enc] at e0; subst e0
    exact leaf_step hnb hr hP h0 (by simp [instrEffect, h1, h2])
  | vpush b c =>
    intro r
    refine ⟨fun s => applyEffect s (.body (c :: r), 1, some r, [], (c :: r).length), ?_⟩
    intro bc hnb s P hc ho hr hP
    subst ho
    obtain ⟨⟨v0, h0, e0⟩, _⟩ := hc.head
    simp only [Enc] at e0; subst e0
    exact leaf_step hnb hr hP h0 (by simp [instrEffect])
  | call b tail vs hv =>
    intro r
    refine ⟨fun s => applyEffect s (.call r, 1, some r, [], (ACell.argc vs.length :: (vs ++ r)).length), ?_⟩
    intro bc hnb s P hc ho hr hP
    subst ho
    obtain ⟨⟨v0, h0, e0⟩, _⟩ := hc.head
    simp only [Enc] at e0; subst e0
    have ht : (List.take vs.length (vs ++ r)).all ACell.isV = true := by
      rw [List.take_left]; exact hv
    have hd : List.drop vs.length (vs ++ r) = r := List.drop_left
    cases tail
    · exact leaf_step hnb hr hP h0 (by simp [instrEffect, hd]; simpa using ht)
    · exact leaf_step hnb hr hP h0 (by simp [instrEffect, hd]; simpa using ht)
  | ite tj tm ht hc' ha htj htm iht ihc iha =>
    rename_i b t c a
    intro r
    obtain ⟨F1, k1⟩ := iht r
    obtain ⟨F3, k3⟩ := ihc r
    obtain ⟨F5, k5⟩ := iha r
    refine ⟨fun s => F5 (applyEffect (F3 (applyEffect (F1 s) (.body r, 2, some r, [(tj, r)], r.length)))
      (.body r, 2, none, [(tm, r)], r.length)), ?_⟩
    intro bc hnb s P hc ho hr hP
    simp only [List.nil_append] at hr k1 k3 k5 ⊢
    -- the five pieces of the code
    obtain ⟨hc4, hca⟩ := hc.append
    obtain ⟨hc3, hcm⟩ := hc4.append
    obtain ⟨hc2, hcc⟩ := hc3.append
    obtain ⟨hct, hcj⟩ := hc2.append
    simp only [List.length_append, List.length_cons, List.length_nil] at hcm hcc hca hP ⊢
    -- test
    obtain ⟨st1, ho1, hr1⟩ := k1 hnb s P hct ho hr (fun e he => by have := hP e he; omega)
    generalize F1 s = s1 at st1 ho1 hr1 ⊢
    -- JNT
    obtain ⟨v0, v1, h0, e0, h1, e1⟩ := hcj.two
    simp only [Enc] at e0 e1; subst e0; subst e1
    rw [← ho1] at h0 h1
    obtain ⟨st2, hp2⟩ := jump_step (st := .body r) (hh := r.length) (cur' := some r) (t := tj)
      hnb hr1 (fun e he => by have := hP e he; omega) h0
      (by simp only [instrEffect, h1]; rw [if_neg (by omega)])
    have ho2 : (applyEffect s1 (.body r, 2, some r, [(tj, r)], r.length)).o = s1.o + 2 := rfl
    have hcur2 : (applyEffect s1 (.body r, 2, some r, [(tj, r)], r.length)).cur = some r := rfl
    generalize applyEffect s1 (.body r, 2, some r, [(tj, r)], r.length) = s2 at st2 hp2 ho2 hcur2 ⊢
    have hr2 : Ready s2 r ((tj, r) :: P) :=
      ⟨.inl hcur2, fun p hp => .inr (by simpa using (hp2 p).1 hp), fun p hp => (hp2 p).2 (by simpa using hp)⟩
    -- consequent
    obtain ⟨st3, ho3, hr3⟩ := k3 hnb s2 _ hcc (by omega) hr2 (fun e he => by
      rcases List.mem_cons.1 he with rfl | he
      · simp only; omega
      · have := hP e he; omega)
    generalize F3 s2 = s3 at st3 ho3 hr3 ⊢
    -- JMP
    obtain ⟨w0, w1, g0, f0, g1, f1⟩ := hcm.two
    simp only [Enc] at f0 f1; subst f0; subst f1
    have ho3' : s3.o = b + t.length + 2 + c.length := by omega
    rw [show b + (t.length + 2 + c.length) = s3.o by omega] at g0 g1
    obtain ⟨st4, hp4⟩ := jump_step (st := .body r) (hh := r.length) (cur' := none) (t := tm)
      hnb hr3 (fun e he => by
        rcases List.mem_cons.1 he with rfl | he
        · simp only; omega
        · have := hP e he; omega) g0
      (by simp only [instrEffect, g1]; rw [if_neg (by omega)])
    have ho4 : (applyEffect s3 (.body r, 2, none, [(tm, r)], r.length)).o = s3.o + 2 := rfl
    have hcur4 : (applyEffect s3 (.body r, 2, none, [(tm, r)], r.length)).cur = none := rfl
    generalize applyEffect s3 (.body r, 2, none, [(tm, r)], r.length) = s4 at st4 hp4 ho4 hcur4 ⊢
    have ho4' : s4.o = tj := by omega
    have hr4 : Ready s4 r ((tm, r) :: P) := by
      refine ⟨.inr ⟨hcur4, (hp4 _).2 (.inr (by rw [ho4']; simp))⟩, ?_, ?_⟩
      · intro p hp
        rcases (hp4 p).1 hp with rfl | hp
        · exact .inr (by simp)
        · rcases List.mem_cons.1 hp with rfl | hp
          · exact .inl (by rw [ho4'])
          · exact .inr (by simp [hp])
      · intro p hp
        rcases List.mem_cons.1 hp with rfl | hp
        · exact (hp4 _).2 (.inl rfl)
        · exact (hp4 _).2 (.inr (by simp [hp]))
    -- alternative
    obtain ⟨st5, ho5, hr5⟩ := k5 hnb s4 _ (by rw [htj]; rwa [show b + (t.length + 2 + c.length + 2) = b + t.length + 2 + c.length + 2 by omega] at hca) ho4' hr4 (fun e he => by
      rcases List.mem_cons.1 he with rfl | he
      · simp only; omega
      · have := hP e he; omega)
    generalize F5 s4 = s5 at st5 ho5 hr5 ⊢
    have ho5' : s5.o = tm := by omega
    refine ⟨st1.trans (st2.trans (st3.trans (st4.trans st5))), by omega, hr5.1.imp id (fun h => h), ?_, ?_⟩
    · intro p hp
      rcases hr5.2.1 p hp with h | h
      · exact .inl h
      · rcases List.mem_cons.1 h with rfl | h
        · exact .inl (by rw [ho5'])
        · exact .inr h
    · intro p hp
      exact hr5.2.2 p (by simp [hp])

end Marwood.Vm.Verify
