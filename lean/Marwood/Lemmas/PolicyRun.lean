import Marwood.Lemmas.PolicyRefine
import Marwood.Lemmas.PolicyBound
/-!
# Runs of the heap model project onto runs of the policy specification

`HRun h ops h'`: the heap model goes from `h` to `h'` by `Heap.alloc`s, `Heap.runGc`s (any roots, forced or
not, skipped or not) and arbitrary steps that leave the counters alone (writes into cells, symbol-table
edits); `ops` is the sequence of policy operations it performed. Every heap at which an operation starts
satisfies `Pre` (consequences of `WFHeap`, which C03 proves to be preserved).
-/
namespace Marwood.Lemmas.PolicyRun
open Marwood Marwood.Heap Marwood.Spec Marwood.Spec.HeapPolicy
open Marwood.Lemmas.HeapOps Marwood.Lemmas.PolicyRefine Marwood.Lemmas.PolicyBound

structure Pre (h : Heap) : Prop where
  sizes : h.gc.size = h.cells.size
  no_used : ∀ i : Nat, h.gc[i]? ≠ some GcState.used
  shape : Shape h
  free_le : h.free.length ≤ h.cells.size

inductive HRun (fixed : Bool) : Heap → List HeapPolicy.Op → Heap → Prop
  | done (h : Heap) : HRun fixed h [] h
  | alloc {h h1 h' : Heap} {p : Nat} {ops : List HeapPolicy.Op} :
      Pre h → h.alloc = .ok (h1, p) → HRun fixed h1 ops h' → HRun fixed h (.alloc :: ops) h'
  | skipped {h h' : Heap} {r : Roots} {force : Bool} {live : Nat} {ops : List HeapPolicy.Op} :
      Pre h → Heap.runGc fixed force h r = .ok (.skipped h) → HRun fixed h ops h' →
      HRun fixed h (.gcPoint force live :: ops) h'
  | collected {h h1 h' : Heap} {r : Roots} {force : Bool} {ops : List HeapPolicy.Op} :
      Pre h → Heap.runGc fixed force h r = .ok (.collected h1) → HRun fixed h1 ops h' →
      HRun fixed h (.gcPoint force (proj h1).used :: ops) h'
  | other {h h1 h' : Heap} {ops : List HeapPolicy.Op} :
      proj h1 = proj h → HRun fixed h1 ops h' → HRun fixed h ops h'

/-- a run of the heap model is, on `(chunk, capacity, used)`, the run of the specification -/
theorem hrun_proj (fixed : Bool) (h h' : Heap) (ops : List HeapPolicy.Op) (hr : HRun fixed h ops h') :
    proj h' = run (proj h) ops := by
  induction hr with
  | done h => rfl
  | alloc pre ha _ ih =>
    rw [ih, alloc_refines _ _ _ pre.sizes pre.shape pre.free_le ha]; rfl
  | @skipped h0 _ r force live _ pre hg _ ih =>
    have := runGc_refines fixed force h0 r _ pre.sizes pre.no_used pre.shape hg
    simp only at this
    rw [ih]
    simp only [run, step, gcPoint, this.2]
    rfl
  | @collected h0 h1 _ r force _ pre hg _ ih =>
    have := runGc_refines fixed force h0 r _ pre.sizes pre.no_used pre.shape hg
    simp only at this
    rw [ih]
    simp only [run, step]
    rw [← this.2]
  | other he _ ih => rw [ih, he]

/-- **T12.3 for the heap model**: along any run of the heap model whose allocation/collection pattern is
paced by `A` and `L`, started right after a collection point, the number of cells never exceeds the bound -/
theorem hrun_capacity_bounded (fixed : Bool) (h h' : Heap) (ops : List HeapPolicy.Op) (A L : Nat)
    (pre : Pre h) (hr : HRun fixed h ops h')
    (hu : (proj h).used ≤ L ∨ 4 * (proj h).used < 3 * h.cells.size) (hp : Paced A L 0 ops) :
    h'.cells.size ≤ bound h.chunk h.cells.size A L := by
  obtain ⟨_, _, k, _, hk⟩ := pre.shape
  have hproj := hrun_proj fixed h h' ops hr
  have hinit : Inv h.chunk h.cells.size A L 0 (proj h) := by
    have := inv_init h.chunk k (proj h).used A L (by rw [← hk]; exact hu)
    rw [← hk] at this
    exact this
  obtain ⟨a', hi⟩ := inv_run h.chunk h.cells.size A L ops _ 0 hinit hp
  have := hi.cap
  rw [← hproj] at this
  exact this

end Marwood.Lemmas.PolicyRun
