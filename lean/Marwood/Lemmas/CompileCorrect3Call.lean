import Marwood.Lemmas.CompileCorrect3EnterAll
import Marwood.Lemmas.CompileCorrect3RecBlock
/-!
# T01.3 stage 3 — operand lists, bodies, and the call of a closure: `ENTER`, the body, `RET`
-/
namespace Marwood.Lemmas.CompileCorrect3
open Marwood Marwood.Vm Marwood.Lemmas.CompileCorrect Marwood.Lemmas.CompileCorrect2
open Marwood.Spec.Eval (Val Prim Cell Env evalN evalStep applyStep evalArgs properList quoteVal kwOf insertG
  k_quote k_if_ k_setBang k_define k_lambda)

variable {H : Type} {ops : HeapOps H} {D : RepData2 ops}

theorem ArgsRun3.codeAfter {W : World} {s s' : MSt H} {len : Nat} {σ σ' : SSt} {ws : List Val} {vs : List VCell}
    (r : ArgsRun3 D W s len σ σ' ws vs s') {em : List (Text × Source)} {base : Nat} {code : List BC}
    (hc : CodeAt2 D em s.heap σ.store s.ipL base code) : CodeAt2 D em s'.heap σ'.store s'.ipL base code := by
  rw [r.ipL]; exact hc.ext r.ext.toExt2

/-! ## operand lists -/

theorem args3_ok (L : Laws3 D) {n : Nat} (ih : ExprOK3 D n) :
    ∀ (es : List Datum) f cst c base rest cst' code k (ρ : Env) (us : Text → Prop), F3L D.setG f c (bound ρ) us rest → CtxOK c →
    compileArgs f cst c base rest = .ok (cst', code, k) → cst'.lambdas <+: D.final →
    properList rest = some es →
    ∀ (σ : SSt) ws (σ' : SSt), evalArgs (evalN n) ρ es σ = .ok ws σ' →
    ∀ (W : World) (s : MSt H), CodeAt2 D c.envmap s.heap σ.store s.ipL base code → s.ipO = base →
      Inv3 D W s.heap σ → EnvRep3 ops W s.heap c s.ep ρ us → SWF s.stack →
    ∃ W' s' vs, W.le W' ∧ ArgsRun3 D W' s code.length σ σ' ws vs s' ∧ k = vs.length := by
  intro es
  induction es with
  | nil =>
    intro f cst c base rest cst' code k ρ us hfl hcx hcomp hpre hpl σ ws σ' hev W s hc hip hi her hw
    cases hfl with
    | nil =>
      obtain ⟨rfl, rfl, _⟩ := compileArgs_nil_inv2 hcomp
      obtain ⟨rfl, rfl⟩ := evalArgs_nil_inv hev
      exact ⟨W, s, [], World.le_refl _, ⟨.refl _, rfl, rfl, rfl, rfl, LiveEq.refl _, hw, .nil, hi,
        Ext3.refl _ _⟩, rfl⟩
    | cons a d _ _ =>
      obtain ⟨es', _, h⟩ := properList_pair_inv hpl
      cases h
  | cons e0 es ihes =>
    intro f cst c base rest cst' code k ρ us hfl hcx hcomp hpre hpl σ ws σ' hev W s hc hip hi her hw
    cases hfl with
    | nil => simp [properList] at hpl
    | cons a d hfa hfd =>
      obtain ⟨cst1, code1, code2, k2, hca, hcd, rfl, rfl⟩ := compileArgs_pair_inv2 hcomp
      obtain ⟨es', hpl', hes⟩ := properList_pair_inv hpl
      cases hes
      obtain ⟨v, σ1, ws', hea, hed, rfl⟩ := evalArgs_cons_inv hev
      subst hip
      have hpre1 : cst1.lambdas <+: D.final := ((monoOK3 _ _).2.1 _ _ _ _ _ _ _ _ _ hfd hcd).trans hpre
      obtain ⟨W1, s1, hw1, r1⟩ := ih _ _ _ _ _ _ _ _ _ hfa hcx hca hpre1 σ v σ1 hea W s hc.left.left rfl hi her hw
      have hcP1 : CodeAt2 D c.envmap s1.heap σ1.store s1.ipL s1.ipO [BC.op .pushAcc] :=
        (r1.codeAfter hc.left.right).cast r1.ipO.symm
      have hp := step_pushAcc hcP1.1 (hcP1.op 0 rfl)
      have hcD : CodeAt2 D c.envmap s1.heap σ1.store s1.ipL (s.ipO + code1.length + 1) code2 :=
        (r1.codeAfter hc.right).cast (by simp only [List.length_append, List.length_cons, List.length_nil]; omega)
      have her1 : EnvRep3 ops W1 s1.heap c s1.ep ρ us := by rw [r1.ep]; exact her.ext r1.ext hw1
      obtain ⟨W3, s3, vs', hw3, r3, hk⟩ := ihes _ _ _ _ _ _ _ _ _ _ hfd hcx hcd hpre hpl' σ1 ws' σ' hed W1
        { s1 with stack := s1.stack.push s1.acc, ipO := s1.ipO + 1 } hcD
        (by show s1.ipO + 1 = _; rw [r1.ipO]) r1.inv her1 (push_swf _ _)
      refine ⟨W3, s3, s1.acc :: vs', World.le_trans hw1 hw3, ⟨r1.steps.trans (.cons hp r3.steps),
        r3.ipL.trans r1.ipL, ?_, r3.bp.trans r1.bp, r3.ep.trans r1.ep, ?_, r3.swf,
        .cons (r1.acc.mono r3.ext hw3) r3.vals, r3.inv, r1.ext.trans r3.ext⟩, by simp [hk]⟩
      · have h3 := r3.ipO
        have h1 := r1.ipO
        have h2 : s3.ipO = s1.ipO + 1 + code2.length := h3
        simp only [List.length_append, List.length_cons, List.length_nil]
        omega
      · rw [pushAll_cons]
        exact ((r1.stack.push hw r1.swf s1.acc).pushAll (push_swf _ _) (push_swf _ _) vs').trans r3.stack

/-! ## bodies: leading definitions, then expressions -/

theorem body3_okN (L : Laws3 D) {n : Nat} (ih : ExprOK3 D n) (iht : ExprOKT3 D n) :
    ∀ (N : Nat) (body : List Datum), body.length ≤ N →
    ∀ f cst c base bodyD cst' code (ρ : Env) (us : Text → Prop) (ints : List Text) (d : Bool),
    F3B D.setG f c (bound ρ) us ints bodyD → CtxOK c →
    compileBody f cst c base bodyD = .ok (cst', code) → cst'.lambdas <+: D.final →
    properList bodyD = some body → (ints ≠ [] → d = true) →
    ∀ (σ : SSt) w (σ' : SSt), Spec.Eval.evalBodyForms (evalN n) ρ d body σ = .ok w σ' →
    ∀ (W : World) (s : MSt H) (fr : Frame), CodeAt2 D c.envmap s.heap σ.store s.ipL base code → s.ipO = base →
      Inv3 D W s.heap σ → EnvRep3 ops W s.heap c s.ep ρ us → SWF s.stack → FrameAt s.stack s.bp fr →
    ∃ W' s', W.le W' ∧ Out3 D W' s code.length σ σ' w true fr s' := by
  intro N
  induction N with
  | zero =>
    intro body hN f cst c base bodyD cst' code ρ us ints d hfb hcx hcomp hpre hpl
    have : body = [] := List.length_eq_zero_iff.mp (by omega)
    exact absurd this (F3B_nonempty hfb hpl)
  | succ N ihN =>
    intro body hN f cst c base bodyD cst' code ρ us ints d hfb hcx hcomp hpre hpl hd σ w σ' hev W s fr hc hip hi her hw hfr
    cases body with
    | nil => exact absurd rfl (F3B_nonempty hfb hpl)
    | cons e0 es =>
    have hes : es.length ≤ N := by simpa using hN
    have ihes := ihN es hes
    cases hfb with
    | last x hd0 hfx =>
      obtain ⟨es', hpl', hes⟩ := properList_pair_inv hpl
      cases hes
      have : es = [] := by
        simp only [properList] at hpl'
        injection hpl' with h; exact h.symm
      subst this
      rw [evalBodyForms_last hd0] at hev
      obtain ⟨cst1, code1, code2, c1, c2, rfl⟩ := compileBody_pair_inv hcomp
      rename_i f0
      have hnil : code2 = [] ∧ cst' = cst1 := by
        cases f0 with
        | zero => cases hfx
        | succ f1 => exact compileBody_nil_inv c2
      obtain ⟨rfl, rfl⟩ := hnil
      have c1' : compileExpr f0 cst c base true e0 = .ok (cst', code1) := c1
      rw [List.append_nil] at hc ⊢
      exact iht _ _ _ _ _ _ _ _ _ _ hfx hcx c1' hpre σ w σ' hev W s fr hc hip hi her hw (fun _ => hfr)
    | cons x y rest hd0 hfx hfr' =>
      obtain ⟨es', hpl', hes⟩ := properList_pair_inv hpl
      cases hes
      obtain ⟨es'', hpl'', rfl⟩ := properList_pair_inv hpl'
      rw [evalBodyForms_cons hd0] at hev
      obtain ⟨v, σ1, he1, he2⟩ := bind_ok_inv hev
      obtain ⟨cst1, code1, code2, c1, c2, rfl⟩ := compileBody_pair_inv hcomp
      have c1' : compileExpr _ cst c base false e0 = .ok (cst1, code1) := c1
      subst hip
      have hpre1 : cst1.lambdas <+: D.final := ((monoOK3 _ _).2.2 _ _ _ _ _ _ _ _ _ hfr' c2).trans hpre
      obtain ⟨W1, s1, hw1, r1⟩ := ih _ _ _ _ _ _ _ _ _ hfx hcx c1' hpre1 σ v σ1 he1 W s hc.left rfl hi her hw
      have her1 : EnvRep3 ops W1 s1.heap c s1.ep ρ us := by rw [r1.ep]; exact her.ext r1.ext hw1
      have hc2 : CodeAt2 D c.envmap s1.heap σ1.store s1.ipL (s.ipO + code1.length) code2 := r1.codeAfter hc.right
      have hfr1 : FrameAt s1.stack s1.bp fr := by rw [r1.bp]; exact hfr.of_liveEq r1.stack
      obtain ⟨W2, s2, hw2, o2⟩ := ihes _ _ _ _ _ _ _ ρ us [] false hfr' hcx c2 hpre hpl'
        (fun h => absurd rfl h) σ1 w σ' he2 W1 s1 fr hc2 r1.ipO r1.inv her1 r1.swf hfr1
      rcases o2 with r2 | ⟨ht, q2⟩
      · exact ⟨W2, s2, World.le_trans hw1 hw2, .inl (by
          have := r1.append r2
          simpa using this)⟩
      · exact ⟨W2, s2, World.le_trans hw1 hw2, .inr ⟨ht, Ret3.prepend r1.steps r1.ext q2⟩⟩
    | @defv f0 _ _ _ x e y rest ints' hin hns hres hfe hfr' =>
      obtain ⟨es', hpl', hes⟩ := properList_pair_inv hpl
      cases hes
      obtain ⟨es'', hpl'', rfl⟩ := properList_pair_inv hpl'
      have hdt : d = true := hd (by intro h; cases h)
      subst hdt
      obtain ⟨l, hl⟩ : ∃ l, ρ.lookup x = some l := by
        have : (ρ.lookup x).isSome = true := hns
        cases hq : ρ.lookup x with
        | none => rw [hq] at this; cases this
        | some l => exact ⟨l, rfl⟩
      obtain ⟨v, σ1, he1, hlt, he2⟩ := evalBodyForms_def_inv hl hev
      obtain ⟨cst1, code1, code2, c1, c2, rfl⟩ := compileBody_pair_inv hcomp
      obtain ⟨codeE, cE, rfl⟩ := compile_define_inv c1
      subst hip
      have hpre1 : cst1.lambdas <+: D.final := ((monoOK3 _ _).2.2 _ _ _ _ _ _ _ _ _ hfr' c2).trans hpre
      obtain ⟨W1, s1, hw1, r1⟩ := ih _ _ _ _ _ _ _ _ _ hfe hcx cE hpre1 σ v σ1 he1 W s hc.left.left rfl hi her hw
      have her1 : EnvRep3 ops W1 s1.heap c s1.ep ρ us := by rw [r1.ep]; exact her.ext r1.ext hw1
      have hcS := (r1.codeAfter hc.left.right).cast r1.ipO.symm
      obtain ⟨s2, r2, hinit⟩ := run3_store_lex L hin hl hlt hcS r1.acc r1.inv her1 r1.swf
      have r12 := r1.append r2
      have her2 : EnvRep3 ops W1 s2.heap c s2.ep ρ (fun z => us z ∧ z ≠ x) := by
        have hb : EnvRep3 ops W1 s2.heap c s2.ep ρ us := by rw [r2.ep]; exact her1.ext r2.ext (World.le_refl _)
        intro z j hj
        obtain ⟨e', n', l', hd', hl', hW', hin'⟩ := hb z j hj
        refine ⟨e', n', l', hd', hl', hW', fun hnu => ?_⟩
        by_cases hz : z = x
        · subst hz
          obtain ⟨e1, n1, _, hd1, _, _, _⟩ := her1 z j hj
          have hd2 : Denotes ops s2.heap s2.ep j e1 n1 := by rw [r2.ep]; exact hd1.ext r2.ext.toExt2
          obtain ⟨rfl, rfl⟩ := Denotes.func hd' hd2
          exact hinit j _ _ hj hd1
        · exact hin' (fun hu => hnu ⟨hu, hz⟩)
      have hc2 : CodeAt2 D c.envmap s2.heap _ s2.ipL
          (s.ipO + (codeE ++ [BC.op .mov, BC.acc, emitLoc c x, BC.op .movImm, BC.void, BC.acc]).length) code2 :=
        r12.codeAfter hc.right
      have hfr2 : FrameAt s2.stack s2.bp fr := by rw [r12.bp]; exact hfr.of_liveEq r12.stack
      obtain ⟨W2, s3, hw2, o2⟩ := ihes _ _ _ _ _ _ _ ρ _ ints' true hfr' hcx c2 hpre hpl'
        (fun _ => rfl) _ w σ' he2 W1 s2 fr hc2 (by rw [r12.ipO]; simp) r12.inv her2 r12.swf hfr2
      rcases o2 with r3 | ⟨ht, q3⟩
      · exact ⟨W2, s3, World.le_trans hw1 hw2, .inl (by
          have := r12.append r3
          have e : codeE.length + 6 + code2.length
              = (codeE ++ [BC.op .mov, BC.acc, emitLoc c x, BC.op .movImm, BC.void, BC.acc] ++ code2).length := by
            simp only [List.length_append, List.length_cons, List.length_nil]
          rw [e] at this; exact this)⟩
      · exact ⟨W2, s3, World.le_trans hw1 hw2, .inr ⟨ht, Ret3.prepend r12.steps r12.ext q3⟩⟩

    | block Bs ints0 bodyD0 hne hK =>
      have hdt : d = true := hd (F3K_ints_ne hne hK)
      subst hdt
      subst hip
      obtain ⟨s1, σ1, f1, cst1, restD, rest, code1, code2, ints1, r1, her1, rfl, c2, hfb2, hpl2, hlen, hev2⟩ :=
        block3_ok L hne hK hcx hcomp hpre hpl hev hc rfl hi her hw
      have hc2 : CodeAt2 D c.envmap s1.heap σ1.store s1.ipL (s.ipO + code1.length) code2 := r1.codeAfter hc.right
      have hfr1 : FrameAt s1.stack s1.bp fr := by rw [r1.bp]; exact hfr.of_liveEq r1.stack
      obtain ⟨W2, s2, hw2, o2⟩ := ihN rest (by simp only [List.length_cons] at hN hlen; omega) _ _ _ _ _ _ _ ρ _ ints1 true
        hfb2 hcx c2 hpre hpl2 (fun _ => rfl) σ1 w σ' hev2 W s1 fr hc2 r1.ipO r1.inv her1 r1.swf hfr1
      rcases o2 with r2 | ⟨ht, q2⟩
      · exact ⟨W2, s2, hw2, .inl (by
          have := r1.append r2
          simpa using this)⟩
      · exact ⟨W2, s2, hw2, .inr ⟨ht, Ret3.prepend r1.steps r1.ext q2⟩⟩

theorem body3_ok (L : Laws3 D) {n : Nat} (ih : ExprOK3 D n) (iht : ExprOKT3 D n) :
    ∀ (body : List Datum) f cst c base bodyD cst' code (ρ : Env) (us : Text → Prop) (ints : List Text) (d : Bool),
    F3B D.setG f c (bound ρ) us ints bodyD → CtxOK c →
    compileBody f cst c base bodyD = .ok (cst', code) → cst'.lambdas <+: D.final →
    properList bodyD = some body → (ints ≠ [] → d = true) →
    ∀ (σ : SSt) w (σ' : SSt), Spec.Eval.evalBodyForms (evalN n) ρ d body σ = .ok w σ' →
    ∀ (W : World) (s : MSt H) (fr : Frame), CodeAt2 D c.envmap s.heap σ.store s.ipL base code → s.ipO = base →
      Inv3 D W s.heap σ → EnvRep3 ops W s.heap c s.ep ρ us → SWF s.stack → FrameAt s.stack s.bp fr →
    ∃ W' s', W.le W' ∧ Out3 D W' s code.length σ σ' w true fr s' :=
  fun body => body3_okN L ih iht body.length body (Nat.le_refl _)

/-! ## the call of a closure: `[VARARG;] ENTER`, the body, `RET` -/

theorem callOK3_succ (L : Laws3 D) {n : Nat} (ih : ExprOK3 D n) (iht : ExprOKT3 D n) : CallOK3 D (n + 1) := by
  intro ps rest body ρc ws σ w σ' hap W s lam cenv vs st0 epc lc oc hcal hclos hi hvs hipL hipO hst hw0 hw
  change applyStep (evalN n) (.closure ps rest body ρc) ws σ = _ at hap
  obtain ⟨ρ', σ1, hbind, hbody⟩ := applyStep_closure_inv3 hap
  obtain ⟨ρ2, σ2, halloc, hforms⟩ := evalBody_inv hbody
  obtain ⟨f, cst, cst1, p, bcode, ints, h', a, W', stE, nf, hsE, hwW, hi1, her1, hcx, a12, a7, a9, a5, hcodeE, hwE, hfrE,
    hx1⟩ := enter_closure3 L hbind halloc hcal hclos hi hvs hipL hipO hst hw0 hw
  let sE : MSt H := { s with heap := h', ep := a, stack := stE, bp := st0.sp + nf, ipO := p.prologue.length }
  have hcodeB : CodeAt2 D p.ctx.envmap sE.heap σ2.store sE.ipL p.prologue.length bcode := by
    have := hcodeE.left.right.cast (show 0 + p.prologue.length = p.prologue.length by omega)
    show CodeAt2 D p.ctx.envmap h' σ2.store s.ipL _ bcode
    rw [hipL]; exact this
  obtain ⟨W2, s2, hw2, o2⟩ := body3_ok L ih iht _ _ _ _ _ _ _ _ ρ2 _ ints true a12 hcx a7 a9 a5 (fun _ => rfl) σ2 w σ'
    hforms W' sE ⟨nf, epc, lc, oc, s.bp, st0⟩ hcodeB rfl hi1 her1 hwE hfrE
  cases o2 with
  | inr hq =>
    obtain ⟨_, q2⟩ := hq
    exact ⟨W2, s2, World.le_trans hwW hw2, hsE.trans q2.steps, q2.ipL, q2.ipO, q2.ep, q2.bp, q2.stack, q2.swf,
      q2.acc, q2.inv, hx1.trans q2.ext⟩
  | inl r2 =>
    have hcodeR : CodeAt2 D p.ctx.envmap s2.heap σ'.store s2.ipL s2.ipO [.op .ret] := by
      have h1 : CodeAt2 D p.ctx.envmap sE.heap σ2.store sE.ipL (0 + (p.prologue ++ bcode).length) [.op .ret] := by
        show CodeAt2 D p.ctx.envmap h' σ2.store s.ipL _ _
        rw [hipL]; exact hcodeE.right
      refine (r2.codeAfter h1).cast ?_
      rw [r2.ipO]
      show _ = p.prologue.length + bcode.length
      simp
    have hfr2 : FrameAt s2.stack s2.bp ⟨nf, epc, lc, oc, s.bp, st0⟩ := by
      rw [r2.bp]; exact hfrE.of_liveEq r2.stack
    have hbp2 : s2.bp = st0.sp + nf := r2.bp
    have hsR := step_ret (s := s2) hcodeR.1 (by have := hcodeR.op 0 (o := .ret) rfl; simpa using this) hfr2.argc
      hfr2.le hfr2.ep hfr2.ip hfr2.bpc
    refine ⟨W2, _, World.le_trans hwW hw2, (hsE.trans r2.steps).trans (Steps.one hsR), rfl, rfl, rfl, rfl, ?_, ?_,
      r2.acc, r2.inv, hx1.trans r2.ext⟩
    · refine ⟨by show st0.sp = s2.bp - nf; rw [hbp2]; omega, ?_⟩
      intro i hi'
      show st0.cells[i]? = s2.stack.cells[i]?
      exact hfr2.below i hi'
    · show s2.bp - nf < s2.stack.cells.length
      have := r2.swf
      unfold SWF at this
      have h2 : s2.stack.sp = stE.sp := r2.stack.1.symm
      have h3 := hfrE.live
      omega

end Marwood.Lemmas.CompileCorrect3
