import Marwood.Lemmas.GoodMain
/-!
# `Safe` as an invariant: the error epilogue and `prepare_eval` under the simulation (T07.4)

After a failed evaluation `run_count` resets the registers, wipes the stack and collects
(`cgc force (onError sf)`, `sf` the state at the failing instruction). The *twin* is the machine with the
heap of the failing instruction and idle registers, `onError sf` — a VM that performed exactly the
definitions and mutations the failed evaluation completed. The two are `Sim`-related (`failed_twin_sim`: a
collection is absorbed, `cgc_sim`; the wiped stack and the reset registers contribute no roots), and
`prepare_eval` of the same form on both keeps them related (`prepare_sim`, under the law `CompLaws` of the
unmodelled compiler), so every later evaluation runs in related states (Proofs/C07.lean).
-/
namespace Marwood.Lemmas.Good
open Marwood Marwood.Vm Marwood.Vm.Concrete Marwood.Lemmas.Sim
open Marwood.Heap (GcState WFHeap RootsOk Roots vrefs vrefsList crefs)

/-- the error epilogue's reset keeps the invariant: fewer roots -/
theorem onError_goodI {s : St CHeap} (g : GoodI s) : GoodI (onError s) := by
  refine ⟨g.hg, ?_, rfl⟩
  intro y hy
  show NF s.heap y
  simp only [Heap.Roots.refs, rootsOf, onError, List.mem_append, List.mem_cons, List.not_mem_nil, or_false] at hy
  rcases hy with (((hy | hy) | hy) | hy) | hy
  · exact g.roots y (mem_refs_syms (by simpa [rootsOf] using hy))
  · obtain ⟨c, hc', he⟩ := List.mem_filterMap.mp hy
    obtain ⟨v, hv', rfl⟩ := List.mem_map.mp hc'
    have := eraseV_asPtr he
    subst this
    exact VRefsOk.ptr.mp (roots_glob g.roots g.hg.plain hv').2
  · obtain ⟨c, hc', hx⟩ := vrefsList_mem_iff.mp hy
    have : c = .undefined := (List.mem_replicate.mp (List.mem_of_mem_take hc')).2
    subst this
    simp [eraseV, vrefs] at hx
  · simp [eraseV, vrefs] at hy
  · rcases hy with rfl | rfl
    · exact roots_ipL g.roots
    · exact .inr (by unfold Heap.Sentinel usizeMax; decide)

/-- a state simulates itself: `sim_refl` of Lemmas/SimRefl.lean, which uses only the heap clauses and the roots
    of `Good` (an idle machine need not satisfy the two stack clauses at its stale `ip`) -/
theorem sim_refl_goodI {s : St CHeap} (g : GoodI s) : ∃ φ, Sim φ s s := by
  let P : Nat → Prop := fun a => (toHeap s.heap).NonFree a
  have hinv : HInv s.heap := HInv.of_wf g.hg.wf
  have hP : ∀ x, (P x ∨ Heap.Sentinel x) → AddrRel (idOn P) x x := by
    intro x hx
    rcases hx with h1 | h1
    · exact .inl (by simp [idOn, h1])
    · exact .inr ⟨rfl, h1⟩
  have hroot : ∀ x ∈ (rootsOf s).refs true, AddrRel (idOn P) x x := fun x hx => hP x (g.roots x hx)
  have hlt : ∀ a, P a → a < s.heap.cells.size := by
    intro a ha
    have := Marwood.Lemmas.HeapWF.nonFree_lt ha
    rw [g.hg.wf.sizes] at this
    simpa [toHeap] using this
  refine ⟨idOn P, ⟨⟨?_, ?_, ?_, ?_, hinv, hinv⟩, ?_, ?_, ?_, ?_, rfl, rfl⟩⟩
  · intro a a' b h1 h2
    unfold idOn at h1 h2
    split at h1 <;> split at h2 <;> simp_all
  · intro a b hab
    unfold idOn at hab
    split at hab
    · rename_i ha
      cases hab
      have hl := hlt a ha
      have hc : s.heap.cells[a]? = some s.heap.cells[a] := Array.getElem?_eq_getElem hl
      have hnf : a ∉ s.heap.free := by
        intro hm
        have := (hinv.free_iff a).mp hm
        rcases ha with h1 | h1 <;> (simp only [toHeap] at h1; rw [this] at h1; cases h1)
      refine ⟨_, _, hc, hc, CellRel.refl_of_refs ?_ ?_ ?_, hnf, hnf⟩
      · intro v hv; exact g.hg.plain.cells a v (by rw [hc, hv])
      · intro k hk; exact g.hg.plain.conts a k (by rw [hc, hk])
      · intro x hx
        refine hP x (g.hg.wf.closed a ha x ?_)
        rw [toHeap_children, hc]; exact hx
    · cases hab
  · -- globals
    have hpl := g.hg.plain.globals
    have hsl : ∀ x, VCell.ptr x ∈ s.heap.globals.toList → AddrRel (idOn P) x x := by
      intro x hx
      refine hroot x (mem_refs_slot ?_)
      simp only [rootsOf]
      exact List.mem_map.mpr ⟨_, hx, rfl⟩
    generalize s.heap.globals.toList = l at hpl hsl
    induction l with
    | nil => exact .nil
    | cons v vs ih =>
      refine .cons ?_ (ih (fun w hw => hpl w (List.mem_cons_of_mem _ hw)) (fun x hx => hsl x (List.mem_cons_of_mem _ hx)))
      have hp := hpl v (List.mem_cons_self ..)
      cases v with
      | ptr a => exact .ptr (hsl a (List.mem_cons_self ..))
      | pair _ _ => simp [plainGlob, isPtr, addrFree] at hp
      | closure _ _ => simp [plainGlob, isPtr, addrFree] at hp
      | lexEnvPtr _ _ => simp [plainGlob, isPtr, addrFree] at hp
      | envPtr _ => simp [plainGlob, isPtr, addrFree] at hp
      | instrPtr _ _ => simp [plainGlob, isPtr, addrFree] at hp
      | _ => exact .atom rfl
  · have hsy : ∀ x ∈ s.heap.globSyms, AddrRel (idOn P) x x :=
      fun x hx => hroot x (mem_refs_syms (by simpa [rootsOf] using hx))
    generalize s.heap.globSyms = l at hsy
    induction l with
    | nil => exact .nil
    | cons v vs ih => exact .cons (hsy v (List.mem_cons_self ..)) (ih (fun x hx => hsy x (List.mem_cons_of_mem _ hx)))
  · exact StackRelK.refl_of_refs (fun x hx => hroot x (mem_refs_stack (by simpa [rootsOf] using hx)))
  · exact VRel.refl_of_refs (fun x hx => hroot x (mem_refs_acc (by simpa [rootsOf] using hx)))
  · exact hroot _ (by simp [Roots.refs, rootsOf])
  · exact hroot _ (by simp [Roots.refs, rootsOf])


/-! ## the twin of a failed evaluation -/

/-- the state after the error epilogue (reset, wipe, collect) simulates the twin that kept the heap of the
    failing instruction and did not collect -/
theorem failed_twin_sim (force : Bool) {sf : St CHeap} (g : GoodI sf)
    (sm : Small (cgc force (onError sf)).heap) : ∃ ψ, Sim ψ (cgc force (onError sf)) (onError sf) := by
  have g1 := onError_goodI g
  obtain ⟨φ, hs⟩ := sim_refl_goodI g1
  obtain ⟨ψ, _, h⟩ := cgc_sim force hs g1.hg.plain g1.hg.wf g1.roots sm.sizeOk
  exact ⟨ψ, h⟩

/-! ## `prepare_eval` on related machines -/

/-- the law of the compiler for the simulation (the counterpart of `ExtLaws.compile` for `prepare_eval`) -/
structure CompLaws (comp : CHeap → VCell → Outcome (CHeap × VCell)) : Prop where
  sim : ∀ (φ : Inj) (h h' : CHeap) (d : VCell), HeapSim φ h h' → SizeOk h → SizeOk h' → SymOk h → SymOk h' →
    addrFree d = true → ORel (ExtPost φ) (comp h d) (comp h' d)

theorem prepare_sim {comp : CHeap → VCell → Outcome (CHeap × VCell)} (cl : CompLaws comp) {φ : Inj}
    {s t s2 t2 : St CHeap} {d : VCell} (h : Sim φ s t) (ok : SizeOk s.heap) (ok' : SizeOk t.heap)
    (so : SymOk s.heap) (so' : SymOk t.heap) (hd : addrFree d = true)
    (hs : prepareEval comp s d = .ok s2) (ht : prepareEval comp t d = .ok t2) : ∃ ψ, Sim ψ s2 t2 := by
  obtain ⟨h1, e, c1, rfl⟩ := prepareEval_inv hs
  obtain ⟨h1', e', c1', rfl⟩ := prepareEval_inv ht
  have hrel := cl.sim φ _ _ d h.heap ok ok' so so' hd
  rw [c1, c1'] at hrel
  cases hrel with
  | ok r =>
    obtain ⟨ψ, hle, hh, hv, _, _⟩ := r
    simp only at hh hv
    have he : AddrRel ψ e e' := by
      cases hv with
      | ptr x => exact x
      | atom x => simp [addrFree] at x
    exact ⟨ψ, hh, StackRelK.mono hle h.stack, h.acc.mono hle, h.ep.mono hle, he, rfl, h.bp⟩

/-! ## the stack trace of related states -/

theorem all2_take {ψ : Inj} : ∀ (l l' : List VCell) (n : Nat), l.length = l'.length →
    (∀ i, i < n → ∀ v v', l[i]? = some v → l'[i]? = some v' → VRel ψ v v') → All2 (VRel ψ) (l.take n) (l'.take n) := by
  intro l
  induction l with
  | nil =>
    intro l' n hl _
    cases l' with
    | nil => simpa using All2.nil
    | cons _ _ => simp at hl
  | cons a as ih =>
    intro l' n hl h
    cases l' with
    | nil => simp at hl
    | cons b bs =>
      cases n with
      | zero => simpa using All2.nil
      | succ n =>
        simp only [List.take_succ_cons]
        refine .cons (h 0 (by omega) a b rfl rfl) (ih bs n (by simpa using hl) ?_)
        intro i hi v v' h1 h2
        exact h (i + 1) (by omega) v v' (by simpa using h1) (by simpa using h2)

theorem all2_append {α β : Type} {R : α → β → Prop} {l1 l1' l2 l2'} (h1 : All2 R l1 l1') (h2 : All2 R l2 l2') :
    All2 R (l1 ++ l2) (l1' ++ l2') := by
  induction h1 with
  | nil => exact h2
  | cons a _ ih => exact .cons a ih

theorem all2_reverse {α β : Type} {R : α → β → Prop} {l l'} (h : All2 R l l') : All2 R l.reverse l'.reverse := by
  induction h with
  | nil => exact .nil
  | cons a _ ih =>
    simp only [List.reverse_cons]
    exact all2_append ih (.cons a .nil)

def frameOf : VCell → Option Nat
  | .instrPtr l _ => some l
  | _ => none

theorem all2_frames {ψ : Inj} {l l' : List VCell} (h : All2 (VRel ψ) l l') :
    All2 (AddrRel ψ) (l.filterMap frameOf) (l'.filterMap frameOf) := by
  induction h with
  | nil => exact .nil
  | @cons v v' _ _ a _ ih =>
    cases a with
    | instrPtr x => simpa [List.filterMap_cons, frameOf] using All2.cons x ih
    | atom x =>
      have : frameOf v = none := by
        cases v <;> first | rfl | simp [addrFree] at x
      simp only [List.filterMap_cons, this]; exact ih
    | pair _ _ => simpa [List.filterMap_cons, frameOf] using ih
    | closure _ _ => simpa [List.filterMap_cons, frameOf] using ih
    | lexEnvPtr _ => simpa [List.filterMap_cons, frameOf] using ih
    | envPtr _ => simpa [List.filterMap_cons, frameOf] using ih
    | ptr _ => simpa [List.filterMap_cons, frameOf] using ih

theorem traceFrames_eq (s : St CHeap) : traceFrames s = (s.stack.cells.take s.stack.sp).reverse.filterMap frameOf := by
  unfold traceFrames
  congr 1

/-- the frames of the stack traces of related states are related, innermost first: same length, each pair of
    code objects related by the injection (the trace the user sees is rendered from these lambdas) -/
theorem traceFrames_rel {ψ : Inj} {s t : St CHeap} (h : Sim ψ s t) :
    All2 (AddrRel ψ) (traceFrames s) (traceFrames t) := by
  rw [traceFrames_eq, traceFrames_eq, ← h.stack.1]
  refine all2_frames (all2_reverse (all2_take _ _ _ h.stack.2.1 ?_))
  intro i hi v v' h1 h2
  exact h.stack.2.2 i (by omega) v v' h1 h2

end Marwood.Lemmas.Good
