import Marwood.Lemmas.CompileCorrect2ConcreteOps
/-!
# T01.3 stage 2 — `Laws2` on the concrete heap model

Every field of `Laws2` that is about the heap proper is a THEOREM for `concreteOps ext` (`Vm/ConcreteHeap.lean`:
the collector's heap model with the allocator's free list, CLOSURE and ENTER as in run.rs) with the
representation `cD` and the invariant `CInv ∧ FreeInv ∧ named slots exist`: the observation laws, the global
store, `envPut`, CLOSURE (`closure_ok`) and ENTER (`activation_ok`) — including that an allocation never
disturbs a represented object although addresses are reused. What remains a parameter is exactly the
behaviour of the builtin procedures (`call`), which are parameters of the concrete machine too (`ExtOps`).
-/
namespace Marwood.Lemmas.CompileCorrect2.Conc
open Marwood Marwood.Vm Marwood.Vm.Concrete Marwood.Lemmas.CompileCorrect Marwood.Lemmas.CompileCorrect2
open Marwood.Spec.Eval (Val Cell evalN)

variable {ext : ExtOps} {E : AtomEnc} {named : Text → Prop} {slot : Text → Nat} {LM : Nat → Nat}
  {final : List LambdaM} {setG : Text → Prop}

theorem cput_eq (h : CHeap) (c : CCell) : ∃ h' p, cput h c = (h', p) := ⟨_, _, rfl⟩

/-- the invariant after an allocation -/
theorem srx_alloc {h h' : CHeap} {p : Nat} {c : CCell} (S : Array Cell)
    (hsl : ∀ x, named x → slot x < h.globals.size) (inv' : CInv h') (fi' : FreeInv h') (a : Alloc h h' p c) :
    (cD ext E named slot LM final setG).SRx h' S :=
  ⟨inv', fi', fun x hx => by rw [a.globals]; exact hsl x hx⟩

theorem c_closure_ok (h : CHeap) (S : Array Cell) (lam ep bp : Nat) (st : Stack) (srcs : List RSrc)
    (hsrx : (cD ext E named slot LM final setG).SRx h S)
    (hsrc : (cD ext E named slot LM final setG).lamSrcs h lam = some srcs)
    (h1 : ∀ (j : Nat) k, srcs[j]? = some (RSrc.iofEnv k) → ∃ g, (concreteOps ext).envGet h ep k = some g)
    (h2 : ∀ (j : Nat) n, srcs[j]? ≠ some (RSrc.iofArg n)) :
    ∃ h' p cenv, (concreteOps ext).makeClosure h lam ep bp st = .ok (h', .ptr p) ∧
      (concreteOps ext).callee h' (.ptr p) = .closure lam cenv ∧ (∀ k, (concreteOps ext).envGet h cenv k = none) ∧
      (∀ (j : Nat) src, srcs[j]? = some src →
        (concreteOps ext).envGet h' cenv j = some (cloSlot (concreteOps ext) h ep src)) ∧
      (∀ e k, e ≠ cenv → (concreteOps ext).envGet h' e k = (concreteOps ext).envGet h e k) ∧
      (∀ m, (concreteOps ext).globGet h' m = (concreteOps ext).globGet h m) ∧
      Ext2 (cD ext E named slot LM final setG) h S h' S ∧ (cD ext E named slot LM final setG).SRx h' S ∧
      (cD ext E named slot LM final setG).envOK h' cenv := by
  obtain ⟨inv, fi, hsl⟩ := hsrx
  have hsrc' : (lambdaAt h lam).map (fun lam => lam.envmap.map fun p => conv p.2) = some srcs := hsrc
  cases hl : lambdaAt h lam with
  | none => rw [hl] at hsrc'; cases hsrc'
  | some l =>
    rw [hl] at hsrc'
    have hs : l.envmap.map (fun p => conv p.2) = srcs := by simpa using hsrc'
    subst hs
    have hslots := closureSlots_ok (ext := ext) h ep bp st l.envmap h1 h2
    obtain ⟨h1', p1, hr1⟩ := cput_eq h (.lexEnv (l.envmap.map fun p => cloSlot (concreteOps ext) h ep (conv p.2)))
    have a1 : Alloc h h1' p1 (.lexEnv (l.envmap.map fun p => cloSlot (concreteOps ext) h ep (conv p.2))) := by
      have := (cput_alloc inv fi (.lexEnv (l.envmap.map fun p => cloSlot (concreteOps ext) h ep (conv p.2)))).1
      rw [hr1] at this; exact this
    have fi1 : FreeInv h1' := by
      have := (cput_alloc inv fi (.lexEnv (l.envmap.map fun p => cloSlot (concreteOps ext) h ep (conv p.2)))).2
      rw [hr1] at this; exact this
    have inv1 : CInv h1' := by
      have g := cput_grows (P := NoCont) inv (lexEnv_not_lambda (l.envmap.map fun p => cloSlot (concreteOps ext) h ep (conv p.2)))
        (lexEnv_not_cont _)
      rw [hr1] at g
      exact g.inv inv (fun c hc => hc.elim)
    obtain ⟨h2', p2, hr2⟩ := cput_eq h1' (.val (.closure lam p1))
    have a2 : Alloc h1' h2' p2 (.val (.closure lam p1)) := by
      have := (cput_alloc inv1 fi1 (.val (.closure lam p1))).1
      rw [hr2] at this; exact this
    have fi2 : FreeInv h2' := by
      have := (cput_alloc inv1 fi1 (.val (.closure lam p1))).2
      rw [hr2] at this; exact this
    have inv2 : CInv h2' := by
      have g := cput_grows (P := NoCont) inv1 (val_not_lambda (.closure lam p1)) (val_not_cont _)
      rw [hr2] at g
      exact g.inv inv1 (fun c hc => hc.elim)
    have henv1 : ∀ e, e ≠ p1 → envAt h1' e = envAt h e := fun e he => envAt_alloc_env a1 e he
    have henv2 : ∀ e, envAt h2' e = envAt h1' e := fun e => envAt_alloc_other a2 (by intro ss x; cases x) e
    have hframe : ∀ e k, e ≠ p1 → Concrete.envGet h2' e k = Concrete.envGet h e k := fun e k he =>
      envGet_of_envAt ((henv2 e).trans (henv1 e he)) k
    have hcenv : envAt h2' p1 = some (l.envmap.map fun p => cloSlot (concreteOps ext) h ep (conv p.2)) := by
      rw [henv2]; exact envAt_of_cell a1.cell
    refine ⟨h2', p2, p1, ?_, ?_, ?_, ?_, hframe, ?_, ?_, srx_alloc S (by rw [a1.globals]; exact hsl) inv2 fi2 a2,
      ⟨_, hcenv⟩⟩
    · show Concrete.makeClosure h lam ep bp st = _
      unfold Concrete.makeClosure
      rw [hl]
      simp only [hslots, ok_bind, hr1, hr2]
    · show (match h2'.cells[p2]? with | some c => calleeOfCell c | none => Callee.other) = _
      rw [a2.cell]; rfl
    · intro k
      show Concrete.envGet h p1 k = none
      unfold Concrete.envGet; rw [envAt_fresh a1]
    · intro j src hj
      show Concrete.envGet h2' p1 j = _
      unfold Concrete.envGet
      rw [hcenv]
      simp only [List.getElem?_map] at hj ⊢
      cases hq : l.envmap[j]? with
      | none => rw [hq] at hj; cases hj
      | some q =>
        rw [hq] at hj
        simp only [Option.map] at hj ⊢
        cases hj; rfl
    · intro m
      show h2'.globals[m]?.getD .undefined = h.globals[m]?.getD .undefined
      rw [a2.globals, a1.globals]
    · refine ext2_of_keeps S ((Alloc.keeps a1).trans (Alloc.keeps a2)) ?_ ?_
      · intro e n a b x
        have hne : e ≠ p1 := by
          intro e0; subst e0
          unfold Concrete.envGet at x; rw [envAt_fresh a1] at x; cases x
        rw [hframe e n hne]; exact x
      · intro e n v x hv
        have hne : e ≠ p1 := by
          intro e0; subst e0
          unfold Concrete.envGet at x; rw [envAt_fresh a1] at x; cases x
        exact ⟨v, by rw [hframe e n hne]; exact x, hv⟩

theorem c_activation_ok (h : CHeap) (S : Array Cell) (lam cenv bp : Nat) (st : Stack) (srcs : List RSrc) (nargs : Nat)
    (hsrx : (cD ext E named slot LM final setG).SRx h S)
    (hsrc : (cD ext E named slot LM final setG).lamSrcs h lam = some srcs)
    (hinfo : (concreteOps ext).lambdaInfo h lam = some ⟨nargs⟩)
    (hslots : ∀ (j : Nat) src, srcs[j]? = some src → ∃ g, (concreteOps ext).envGet h cenv j = some g)
    (hargs : ∀ (j : Nat) i, srcs[j]? = some (RSrc.arg i) →
      i < nargs ∧ nargs - i ≤ bp ∧ bp - (nargs - i) + 1 < st.cells.length)
    (hcenv : (cD ext E named slot LM final setG).envOK h cenv) :
    ∃ h' a, (concreteOps ext).makeActivation h lam cenv bp st = .ok (h', a) ∧
      (∀ k, (concreteOps ext).envGet h a k = none) ∧
      (∀ (j : Nat) i v, srcs[j]? = some (RSrc.arg i) → st.cells[bp - (nargs - i) + 1]? = some v →
        (concreteOps ext).envGet h' a j = some v) ∧
      (∀ (j : Nat) k, srcs[j]? = some (RSrc.iofEnv k) →
        (concreteOps ext).envGet h' a j = some (actCaptured cenv j ((concreteOps ext).envGet h cenv j))) ∧
      (∀ e k, e ≠ a → (concreteOps ext).envGet h' e k = (concreteOps ext).envGet h e k) ∧
      (∀ m, (concreteOps ext).globGet h' m = (concreteOps ext).globGet h m) ∧
      Ext2 (cD ext E named slot LM final setG) h S h' S ∧ (cD ext E named slot LM final setG).SRx h' S := by
  obtain ⟨inv, fi, hsl⟩ := hsrx
  obtain ⟨olds, holds⟩ := hcenv
  have hsrc' : (lambdaAt h lam).map (fun lam => lam.envmap.map fun p => conv p.2) = some srcs := hsrc
  have hinfo' : (lambdaAt h lam).map (fun lam => (⟨lam.args.length⟩ : LambdaInfo)) = some ⟨nargs⟩ := hinfo
  cases hl : lambdaAt h lam with
  | none => rw [hl] at hsrc'; cases hsrc'
  | some l =>
    rw [hl] at hsrc' hinfo'
    have hs : l.envmap.map (fun p => conv p.2) = srcs := by simpa using hsrc'
    have hn : l.args.length = nargs := by
      have : (⟨l.args.length⟩ : LambdaInfo) = ⟨nargs⟩ := by simpa using hinfo'
      injection this
    subst hs
    have hlen : l.envmap.length ≤ olds.length := by
      rcases Nat.lt_or_ge olds.length l.envmap.length with hlt | hge
      · exfalso
        have hj : (l.envmap.map fun p => conv p.2)[olds.length]? =
            some (conv (l.envmap[olds.length]'hlt).2) := by
          rw [List.getElem?_map, List.getElem?_eq_getElem hlt]; rfl
        obtain ⟨g, hg⟩ := hslots _ _ hj
        obtain ⟨ss, he, hk⟩ := envGet_some hg
        rw [holds] at he; cases he
        rw [List.getElem?_eq_none (Nat.le_refl _)] at hk; cases hk
      · exact hge
    obtain ⟨slots, hsl2, r1, r2⟩ := activationSlots_ok cenv bp nargs st l.envmap 0 olds hlen hargs
    obtain ⟨h1', p1, hr1⟩ := cput_eq h (.lexEnv slots)
    have a1 : Alloc h h1' p1 (.lexEnv slots) := by
      have := (cput_alloc inv fi (.lexEnv slots)).1
      rw [hr1] at this; exact this
    have fi1 : FreeInv h1' := by
      have := (cput_alloc inv fi (.lexEnv slots)).2
      rw [hr1] at this; exact this
    have inv1 : CInv h1' := by
      have g := cput_grows (P := NoCont) inv (lexEnv_not_lambda slots) (lexEnv_not_cont _)
      rw [hr1] at g
      exact g.inv inv (fun c hc => hc.elim)
    have hframe : ∀ e k, e ≠ p1 → Concrete.envGet h1' e k = Concrete.envGet h e k := fun e k he =>
      envGet_of_envAt (envAt_alloc_env a1 e he) k
    have hnew : envAt h1' p1 = some slots := envAt_of_cell a1.cell
    refine ⟨h1', p1, ?_, ?_, ?_, ?_, hframe, ?_, ?_, srx_alloc S hsl inv1 fi1 a1⟩
    · show Concrete.makeActivation h lam cenv bp st = _
      unfold Concrete.makeActivation
      rw [hl, holds]
      simp only [hn, hsl2, ok_bind, hr1]
    · intro k
      show Concrete.envGet h p1 k = none
      unfold Concrete.envGet; rw [envAt_fresh a1]
    · intro j i v hj hv
      show Concrete.envGet h1' p1 j = _
      unfold Concrete.envGet; rw [hnew]
      exact r1 j i v hj hv
    · intro j k hj
      show Concrete.envGet h1' p1 j = some (actCaptured cenv j (Concrete.envGet h cenv j))
      have := r2 j k hj
      unfold Concrete.envGet
      simp only [hnew, holds]
      rw [this, Nat.zero_add]
    · intro m
      show h1'.globals[m]?.getD .undefined = h.globals[m]?.getD .undefined
      rw [a1.globals]
    · refine ext2_of_keeps S (Alloc.keeps a1) ?_ ?_
      · intro e n a b x
        have hne : e ≠ p1 := by
          intro e0; subst e0
          unfold Concrete.envGet at x; rw [envAt_fresh a1] at x; cases x
        rw [hframe e n hne]; exact x
      · intro e n v x hv
        have hne : e ≠ p1 := by
          intro e0; subst e0
          unfold Concrete.envGet at x; rw [envAt_fresh a1] at x; cases x
        exact ⟨v, by rw [hframe e n hne]; exact x, hv⟩

end Marwood.Lemmas.CompileCorrect2.Conc
