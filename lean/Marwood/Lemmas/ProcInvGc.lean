import Marwood.Lemmas.ProcInvOps
/-!
# "No value leads to entry code" across `run_gc`

The collector moves nothing: a cell of the collected heap is `Undefined` (freed, or added by a growth) or the cell
it was (`liftGc_cell`). So no entry code appears (`EShr`), and every clause that *forbids* a pointer survives. The
one clause that *demands* something — a closure cell's lambda is a lambda cell holding procedure code — survives
because a closure cell that is kept was reachable, hence so was its lambda (a child of the closure cell in the
marker's graph), which is therefore the same cell afterwards (`liftGc_reach`).
-/
namespace Marwood.Lemmas.Good
open Marwood Marwood.Vm Marwood.Vm.Verify Marwood.Vm.Concrete Marwood.Lemmas.Sim Marwood.Spec
open Marwood.Heap (GcState vrefs vrefsList crefs Roots)
open Marwood.Lemmas.GcSafety

theorem neF_mono {E E' : Nat → Bool} (hE : ∀ q, E' q = true → E q = true) {v : VCell} (h : neF E v = true) :
    neF E' v = true := by
  cases v <;> first | rfl | skip
  rename_i q
  simp only [neF, Bool.not_eq_true'] at h ⊢
  cases he : E' q with
  | false => rfl
  | true => rw [hE q he] at h; cases h

theorem all_neF_mono {E E' : Nat → Bool} (hE : ∀ q, E' q = true → E q = true) {l : List VCell}
    (h : l.all (neF E) = true) : l.all (neF E') = true := by
  rw [List.all_eq_true] at h ⊢
  exact fun v hv => neF_mono hE (h v hv)

theorem immPF_mono {E E' : Nat → Bool} (hE : ∀ q, E' q = true → E q = true) {bc : List VCell}
    (h : immPF E bc = true) : immPF E' bc = true := by
  unfold immPF at h ⊢
  rw [List.all_eq_true] at h ⊢
  intro j hj
  have := h j hj
  cases h0 : bc[j]? with
  | none => rfl
  | some c =>
    rw [h0] at this
    cases c <;> try rfl
    rename_i op
    cases op <;> try rfl
    all_goals
      cases h1 : bc[j + 1]? with
      | none => rfl
      | some v =>
        simp only [h1] at this
        exact neF_mono hE this

/-- a cell content stays acceptable when no entry code appears and the lambda of a closure stays procedure code -/
theorem cellPB_shr {h h' : CHeap} (es : EShr h h') {c : CCell}
    (hpk : ∀ l e, c = CCell.val (.closure l e) → procAtB h l = true → procAtB h' l = true)
    (hc : cellPB h c = true) : cellPB h' c = true := by
  cases c with
  | val v =>
    cases v <;> first | rfl | skip
    · rename_i a d
      have hc' : (!entryAt h a && !entryAt h d) = true := hc
      show (!entryAt h' a && !entryAt h' d) = true
      simp only [Bool.and_eq_true, Bool.not_eq_true'] at hc' ⊢
      refine ⟨?_, ?_⟩
      · cases he : entryAt h' a with
        | false => rfl
        | true => rw [es a he] at hc'; cases hc'.1
      · cases he : entryAt h' d with
        | false => rfl
        | true => rw [es d he] at hc'; cases hc'.2
    · rename_i l e
      exact hpk l e rfl hc
    · rename_i q
      exact es.neB (v := .ptr q) hc
  | lexEnv ss => exact all_neF_mono es hc
  | vector ss => exact all_neF_mono es hc
  | lambda l => exact immPF_mono es hc
  | cont k => exact all_neF_mono es hc

theorem symLookup_toHeap (h : CHeap) (name : Text) : (toHeap h).symLookup name = symLookup h name := rfl

/-- **the collector preserves the two clauses** -/
theorem pinv_gc (force : Bool) {s : St CHeap} (ci : CInvG IsValue s.heap) (p : PInv s) : PInv (cgc force s) := by
  rcases cgc_cases force s with e | ⟨h', hrun, e⟩
  · rw [e]; exact p
  · rw [e]
    have co := collected_of_run ci hrun
    have es : EShr s.heap (liftGc s.heap h') := by
      intro q hq
      unfold entryAt at hq ⊢
      cases hl : lambdaAt (liftGc s.heap h') q with
      | none => rw [hl] at hq; cases hq
      | some lam =>
        rw [hl] at hq
        obtain ⟨hold, _, _⟩ := liftGc_code (lambdaAt_iff.mp hl) (by intro hh; cases hh)
        rw [lambdaAt_iff.mpr hold]; exact hq
    refine ⟨⟨?_, ?_, ?_⟩, es.neB p.acc, fun i v hi hv => es.neB (p.stk i v hi hv)⟩
    · intro i c hc
      by_cases hu : c = CCell.val .undefined
      · subst hu; rfl
      · obtain ⟨hold, hnf, hlt⟩ := liftGc_code hc hu
        refine cellPB_shr es ?_ (p.hp.cells i c hold)
        intro l e' hce hpr
        subst hce
        -- the closure cell `i` was reachable, hence so was its lambda `l`
        have hri : Reachable true (toHeap s.heap) ((rootsOf s).refs true) i := reachable_of_kept co hlt hnf
        unfold procAtB at hpr ⊢
        cases hla : lambdaAt s.heap l with
        | none => rw [hla] at hpr; cases hpr
        | some lam =>
          rw [hla] at hpr
          have hcl := lambdaAt_iff.mp hla
          have hl1 : l < (toHeap s.heap).gc.size := by
            have := lt_of_getElem? hcl
            show l < s.heap.gc.size
            rw [ci.sizes]; exact this
          have hchild : l ∈ (toHeap s.heap).children true i := by
            rw [toHeap_children, hold]
            simp [eraseC, eraseV, crefs]
          have hrl : Reachable true (toHeap s.heap) ((rootsOf s).refs true) l := Reach.step hri hchild hl1
          have := liftGc_reach ci co hrl
          rw [hcl] at this
          rw [lambdaAt_iff.mpr this]; exact hpr
    · intro n v hv
      exact es.neB (p.hp.globals n v hv)
    · intro name q hl
      have hl' : h'.symLookup name = some q := hl
      rw [co.gs.sym name] at hl'
      split at hl'
      · cases hl'
      · have := p.hp.sym name q hl'
        cases he : entryAt (liftGc s.heap h') q with
        | false => rfl
        | true => rw [es q he] at this; cases this

end Marwood.Lemmas.Good
