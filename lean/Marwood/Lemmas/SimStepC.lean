import Marwood.Lemmas.SimStepB
import Marwood.Lemmas.SimSym
/-!
# Heap simulation, lemma (b) part 3: RET, CONS (allocating), CALL of closures / lambdas / continuations

`put` allocates on both sides and `φ` is extended at the two fresh addresses (`putV_sim`; interning of an
inline symbol is Lemmas/SimSym.lean and needs the C18 invariant `SymOk` of both heaps). The builtin branch
of CALL is the law `BuiltinLaw`.
-/
namespace Marwood.Lemmas.Sim
open Marwood Marwood.Vm Marwood.Vm.Concrete
open Marwood.Heap (GcState)

def FrameLive (s : St CHeap) : Prop := s.bp + 4 ≤ s.stack.sp

section
variable (ext : ExtOps) {φ : Inj} {s t : St CHeap}

/-! ## RET -/

theorem stepRet_rel (h : Sim φ s t) (fl : FrameLive s) : ORel (Sim φ) (stepRet s) (stepRet t) := by
  unfold stepRet
  rw [show t.bp = s.bp from h.bp.symm]
  unfold FrameLive at fl
  refine ((h.stack.get (i := s.bp + 1) (by omega)).bind (fun _ _ hv => asArgc_rel hv)).bind ?_
  intro n n' hn
  subst hn
  unfold usub
  split
  · rename_i hle
    simp only [bind]
    have hst : StackRelK φ s.stack.sp { s.stack with sp := s.bp - n } { t.stack with sp := s.bp - n } :=
      ⟨rfl, h.stack.2.1, h.stack.2.2⟩
    refine ((hst.get (i := s.bp + 2) (by omega)).bind (fun _ _ hv => asEp_rel hv)).bind ?_
    intro ep ep' hep
    refine ((hst.get (i := s.bp + 3) (by omega)).bind (fun _ _ hv => asIp_rel hv)).bind ?_
    rintro ⟨l, o⟩ ⟨l', o'⟩ ⟨hl, ho⟩
    refine ((hst.get (i := s.bp + 4) (by omega)).bind (fun _ _ hv => asBp_rel hv)).bind ?_
    intro b b' hb
    subst hb
    exact .ok ⟨h.heap, hst.weaken (by show s.bp - n ≤ s.stack.sp; omega), h.acc, hep, hl, ho, rfl⟩
  · exact .panic

theorem exec_ret (h : Sim φ s t) (fl : FrameLive s) :
    ORel (PostB φ) (exec (concreteOps ext) .ret s) (exec (concreteOps ext) .ret t) := by
  unfold exec
  refine (stepRet_rel h fl).bind ?_
  intro s' t' hs
  exact .ok ⟨rfl, .of_sim hs⟩

/-! ## pop -/

theorem StackRelK.pop {K st st'} (h : StackRelK φ K st st') (hk : st.sp ≤ K) :
    ORel (fun a b => VRel φ a.1 b.1 ∧ StackRelK φ K a.2 b.2 ∧ a.2.sp + 1 = st.sp ∧
      st.cells[st.sp]? = some a.1 ∧ a.2.cells = st.cells) (st.pop) (st'.pop) := by
  unfold Stack.pop
  rw [← h.1]
  split
  · cases e1 : st.cells[st.sp]? with
    | none =>
      have : st'.cells[st.sp]? = none := by
        rw [List.getElem?_eq_none_iff] at e1 ⊢; rw [← h.2.1]; exact e1
      rw [this]; exact .err
    | some v =>
      have hl : st.sp < st'.cells.length := by
        rw [← h.2.1]; exact (List.getElem?_eq_some_iff.mp e1).1
      rw [List.getElem?_eq_getElem hl]
      refine .ok ⟨h.2.2 _ hk _ _ e1 (List.getElem?_eq_getElem hl), ⟨rfl, h.2.1, h.2.2⟩, ?_, rfl, rfl⟩
      show st.sp - 1 + 1 = st.sp
      omega
  · exact .err

/-! ## put -/

/-- `heap.put` of related values (inline symbols are interned, Lemmas/SimSym.lean) -/
theorem putV_sim {h h' : CHeap} (hs : HeapSim φ h h') (so : SymOk h) (so' : SymOk h') {v v'} (hv : VRel φ v v') :
    ∃ ψ, φ.le ψ ∧ HeapSim ψ (putV h v).1 (putV h' v').1 ∧ VRel ψ (putV h v).2 (putV h' v').2 ∧
      SymOk (putV h v).1 ∧ SymOk (putV h' v').1 := by
  unfold putV
  rw [← isPtr_rel hv]
  split
  · exact ⟨φ, φ.le_refl, hs, hv, so, so'⟩
  · exact putNew_sim hs so so' hv

theorem immediate_rel {v v'} (h : VRel φ v v') : immediate v = immediate v' := by
  cases h <;> rfl

/-- `heap.maybe_put` of related values -/
theorem maybePutV_sim {h h' : CHeap} (hs : HeapSim φ h h') (so : SymOk h) (so' : SymOk h') {v v'}
    (hv : VRel φ v v') :
    ∃ ψ, φ.le ψ ∧ HeapSim ψ (maybePutV h v).1 (maybePutV h' v').1 ∧ VRel ψ (maybePutV h v).2 (maybePutV h' v').2 ∧
      SymOk (maybePutV h v).1 ∧ SymOk (maybePutV h' v').1 := by
  unfold maybePutV
  rw [← isPtr_rel hv, ← immediate_rel hv]
  split
  · exact ⟨φ, φ.le_refl, hs, hv, so, so'⟩
  · exact putNew_sim hs so so' hv

/-! ## CONS -/

theorem exec_cons (h : Sim φ s t) (so : SymOk s.heap) (so' : SymOk t.heap) :
    ORel (PostB φ) (exec (concreteOps ext) .cons s) (exec (concreteOps ext) .cons t) := by
  unfold exec
  refine (h.stack.pop (Nat.le_refl _)).bind ?_
  rintro ⟨d, st1⟩ ⟨d', st1'⟩ ⟨hd, hst1, hsp1, _, _⟩
  simp only at hd hst1 hsp1 ⊢
  simp only [concreteOps]
  obtain ⟨ψ1, le1, hh1, hd1, so1, so1'⟩ := putV_sim h.heap so so' hd
  generalize putV s.heap d = r1 at hh1 hd1 so1
  generalize putV t.heap d' = r1' at hh1 hd1 so1'
  obtain ⟨h1, d1⟩ := r1
  obtain ⟨h1', d1'⟩ := r1'
  simp only at hh1 hd1 so1 so1' ⊢
  refine (hst1.pop (by omega)).bind ?_
  rintro ⟨a, st2⟩ ⟨a', st2'⟩ ⟨ha, hst2, hsp2, _, _⟩
  simp only at ha hst2 hsp2 ⊢
  obtain ⟨ψ2, le2, hh2, ha2, so2, so2'⟩ := putV_sim hh1 so1 so1' (ha.mono le1)
  generalize putV h1 a = r2 at hh2 ha2 so2
  generalize putV h1' a' = r2' at hh2 ha2 so2'
  obtain ⟨h2, a2⟩ := r2
  obtain ⟨h2', a2'⟩ := r2'
  simp only at hh2 ha2 so2 so2' ⊢
  refine (asPtr_rel ha2).bind ?_
  intro pa pa' hpa
  refine (asPtr_rel (hd1.mono le2)).bind ?_
  intro pd pd' hpd
  obtain ⟨ψ3, le3, hh3, hp3, _, _⟩ := putV_sim hh2 so2 so2' (v := .pair pa pd) (v' := .pair pa' pd') (.pair hpa hpd)
  generalize putV h2 (.pair pa pd) = r3 at hh3 hp3
  generalize putV h2' (.pair pa' pd') = r3' at hh3 hp3
  obtain ⟨h3, p3⟩ := r3
  obtain ⟨h3', p3'⟩ := r3'
  simp only at hh3 hp3 ⊢
  have le : φ.le ψ3 := Inj.le_trans le1 (Inj.le_trans le2 le3)
  refine .ok ⟨rfl, ψ3, le, hh3, ?_, hp3, h.ep.mono le, h.ipL.mono le, h.ipO, h.bp⟩
  exact (hst2.mono le).weaken (by show st2.sp ≤ s.stack.sp; omega)

end

end Marwood.Lemmas.Sim

namespace Marwood.Lemmas.Sim
open Marwood Marwood.Vm Marwood.Vm.Concrete

section
variable (ext : ExtOps) {φ : Inj} {s t : St CHeap}

/-- the law of the builtin branch of CALL / TCALL: `runBuiltin` (pop `argc` and the arguments, the Rust
    procedure's effect `ExtOps.builtinEval` / `compileEval`, `maybe_put` of the result) respects the
    simulation. Stated once for the 142 procedures; `apply`, `eval`, `call/cc` are included. -/
def BuiltinLaw : Prop :=
  ∀ (φ : Inj) (s t : St CHeap) (id : Nat), Sim φ s t → SizeOk s.heap → SizeOk t.heap → SymOk s.heap → SymOk t.heap →
    ORel (Post φ) (runBuiltin (concreteOps ext) id s) (runBuiltin (concreteOps ext) id t)

/-! ## continuation invocation -/

theorem restore_rel {K st st'} (h : StackRelK φ K st st') {c c' : Cont} (hc : ContRel φ c c') :
    ORel (fun a b => StackRel φ a b) (st.restore c.stack) (st'.restore c'.stack) := by
  unfold Stack.restore
  rw [← h.2.1, ← hc.stack.2.1]
  split
  · refine .ok ⟨hc.stack.1, by simp [h.2.1, hc.stack.2.1], ?_⟩
    intro i hi v v' h1 h2
    simp only at hi h1 h2
    have hfull := hc.full
    rw [List.getElem?_append_left (by omega)] at h1
    rw [List.getElem?_append_left (by rw [← hc.stack.2.1]; omega)] at h2
    exact hc.stack.2.2 i hi v v' h1 h2
  · exact .panic

theorem invokeCont_rel (h : Sim φ s t) {c c' : Cont} (hc : ContRel φ c c') :
    ORel (Sim φ) (invokeCont s c) (invokeCont t c') := by
  unfold invokeCont
  refine (h.stack.pop (Nat.le_refl _)).bind ?_
  rintro ⟨a, st1⟩ ⟨a', st1'⟩ ⟨ha, hst1, hsp1, _, _⟩
  simp only at ha hst1 hsp1 ⊢
  refine (asArgc_rel ha).bind ?_
  intro n n' hn
  subst hn
  split
  · exact .err
  · refine (hst1.pop (by omega)).bind ?_
    rintro ⟨r, st2⟩ ⟨r', st2'⟩ ⟨hr, hst2, _, _, _⟩
    simp only at hr hst2 ⊢
    unfold restoreCont
    simp only
    refine ORel.bind (R := Sim φ) ?_ ?_
    · refine (restore_rel hst2 hc).bind ?_
      intro st3 st3' hst3
      exact .ok ⟨h.heap, hst3, .atom rfl, hc.ep, hc.ipL, hc.ipO, hc.bp⟩
    · intro s3 t3 h3
      exact .ok (h3.setAcc hr)

/-! ## CALL -/

theorem Sim.enterFrame (h : Sim φ s t) {l l'} (hl : AddrRel φ l l') :
    Sim φ { (s.push (.envPtr s.ep)).push (.instrPtr s.ipL s.ipO) with ipL := l, ipO := 0 }
      { (t.push (.envPtr t.ep)).push (.instrPtr t.ipL t.ipO) with ipL := l', ipO := 0 } := by
  have h1 := h.push (.envPtr h.ep)
  have h2 := h1.push (v := .instrPtr s.ipL s.ipO) (v' := .instrPtr t.ipL t.ipO) (by rw [h.ipO]; exact .instrPtr h.ipL)
  exact ⟨h2.heap, h2.stack, h2.acc, h2.ep, hl, rfl, h2.bp⟩

theorem stepCall_rel (bl : BuiltinLaw ext) (h : Sim φ s t) (ok : SizeOk s.heap) (ok' : SizeOk t.heap)
    (so : SymOk s.heap) (so' : SymOk t.heap) :
    ORel (Post φ) (stepCall (concreteOps ext) s) (stepCall (concreteOps ext) t) := by
  unfold stepCall
  have hcal := callee_rel h.heap ok ok' h.acc
  simp only [concreteOps] at hcal ⊢
  generalize callee s.heap s.acc = k at hcal
  generalize callee t.heap t.acc = k' at hcal
  cases hcal with
  | closure hl _ => exact .ok (.of_sim (h.enterFrame hl))
  | lambda =>
    refine (asPtr_rel h.acc).bind ?_
    intro l l' hl
    exact .ok (.of_sim (h.enterFrame hl))
  | builtin => exact bl φ s t _ h ok ok' so so'
  | continuation hc => exact (invokeCont_rel h hc).imp fun _ _ r => .of_sim r
  | other => exact .err

theorem exec_call (bl : BuiltinLaw ext) (h : Sim φ s t) (ok : SizeOk s.heap) (ok' : SizeOk t.heap)
    (so : SymOk s.heap) (so' : SymOk t.heap) :
    ORel (PostB φ) (exec (concreteOps ext) .callAcc s) (exec (concreteOps ext) .callAcc t) := by
  unfold exec
  refine (stepCall_rel ext bl h ok ok' so so').bind ?_
  intro s' t' hs
  exact .ok ⟨rfl, hs⟩

/-! ## ENTER -/

/-- the law of ENTER's environment construction for a closure (`build_lexical_environment` + `put`) -/
def ActivationLaw : Prop :=
  ∀ (φ : Inj) (h h' : CHeap) (lam lam' env env' bp : Nat) (st st' : Stack),
    HeapSim φ h h' → SizeOk h → SizeOk h' → AddrRel φ lam lam' → AddrRel φ env env' → StackRel φ st st' →
    bp + 4 = st.sp →
    ORel (fun a b => ∃ ψ, φ.le ψ ∧ HeapSim ψ a.1 b.1 ∧ ψ a.2 = some b.2)
      (makeActivation h lam env bp st) (makeActivation h' lam' env' bp st')

theorem stepEnter_rel (al : ActivationLaw) (h : Sim φ s t) (ok : SizeOk s.heap) (ok' : SizeOk t.heap) :
    ORel (Post φ) (stepEnter (concreteOps ext) s) (stepEnter (concreteOps ext) t) := by
  unfold stepEnter
  have hcal := callee_rel h.heap ok ok' h.acc
  simp only [concreteOps] at hcal ⊢
  generalize callee s.heap s.acc = k at hcal
  generalize callee t.heap t.acc = k' at hcal
  -- the common tail, for related `(lam, cenv)`
  have tail : ∀ (lam lam' : Nat) (cenv cenv' : Option Nat), AddrRel φ lam lam' →
      OptRel (AddrRel φ) cenv cenv' →
      ORel (Post φ)
        (match Option.map (fun lam => ({ argc := lam.args.length } : LambdaInfo)) (lambdaAt s.heap lam) with
          | none => Outcome.err Err.expectedType
          | some info => do
            let a ← s.stack.getOffset (-2)
            let n ← asArgc a
            if n ≠ info.argc then Outcome.err Err.invalidNumArgs else do
            let st := s.stack.push (VCell.basePtr s.bp)
            let bp ← usub st.sp 4 "enter: sp - 4"
            let s1 : St CHeap := { s with stack := st, bp := bp }
            match cenv with
            | none => Outcome.ok s1
            | some env => do
              let (hp, e) ← makeActivation s1.heap lam env s1.bp s1.stack
              Outcome.ok { s1 with heap := hp, ep := e })
        (match Option.map (fun lam => ({ argc := lam.args.length } : LambdaInfo)) (lambdaAt t.heap lam') with
          | none => Outcome.err Err.expectedType
          | some info => do
            let a ← t.stack.getOffset (-2)
            let n ← asArgc a
            if n ≠ info.argc then Outcome.err Err.invalidNumArgs else do
            let st := t.stack.push (VCell.basePtr t.bp)
            let bp ← usub st.sp 4 "enter: sp - 4"
            let s1 : St CHeap := { t with stack := st, bp := bp }
            match cenv' with
            | none => Outcome.ok s1
            | some env => do
              let (hp, e) ← makeActivation s1.heap lam' env s1.bp s1.stack
              Outcome.ok { s1 with heap := hp, ep := e }) := by
    intro lam lam' cenv cenv' hl hce
    rcases lambdaAt_rel h.heap ok ok' hl with ⟨e1, e2⟩ | ⟨l, l', e1, e2, _, hargs, _⟩
    · rw [e1, e2]; exact .err
    · rw [e1, e2]
      simp only [Option.map_some]
      refine (h.stack.getOffset (Nat.le_refl _) (by omega)).bind ?_
      intro a a' ha
      refine (asArgc_rel ha).bind ?_
      intro n n' hn
      subst hn
      rw [← hargs.length_eq]
      split
      · exact .err
      · obtain ⟨hp1, hp2⟩ := h.stack.push (Nat.le_refl _) (v := .basePtr s.bp) (v' := .basePtr t.bp)
          (by rw [h.bp]; exact .atom rfl)
        have hsp : (t.stack.push (.basePtr t.bp)).sp = (s.stack.push (.basePtr s.bp)).sp := hp1.1.symm
        rw [hsp]
        unfold usub
        split
        · rename_i hle
          simp only [bind]
          have hst : StackRel φ (s.stack.push (.basePtr s.bp)) (t.stack.push (.basePtr t.bp)) := by
            show StackRelK φ (s.stack.push (.basePtr s.bp)).sp _ _
            rw [hp2]; exact hp1.weaken (by omega)
          cases hce with
          | none => exact .ok ⟨φ, φ.le_refl, h.heap, hst, h.acc, h.ep, h.ipL, h.ipO, rfl⟩
          | some henv =>
            simp only
            refine (al φ _ _ _ _ _ _ _ _ _ h.heap ok ok' hl henv hst (by omega)).bind ?_
            rintro ⟨hp, e⟩ ⟨hp', e'⟩ ⟨ψ, hle, hh, he⟩
            exact .ok ⟨ψ, hle, hh, StackRelK.mono hle hst, h.acc.mono hle, .inl he, h.ipL.mono hle, h.ipO, rfl⟩
        · exact .panic
  cases hcal with
  | closure hl he => exact tail _ _ _ _ hl (.some he)
  | lambda =>
    simp only [bind]
    have hp := asPtr_rel h.acc
    generalize asPtr s.acc = x at hp
    generalize asPtr t.acc = y at hp
    cases hp with
    | ok r => exact tail _ _ _ _ r .none
    | err => exact .err
    | panic => exact .panic
  | builtin => exact .err
  | continuation _ => exact .err
  | other => exact .err

theorem exec_enter (al : ActivationLaw) (h : Sim φ s t) (ok : SizeOk s.heap) (ok' : SizeOk t.heap) :
    ORel (PostB φ) (exec (concreteOps ext) .enter s) (exec (concreteOps ext) .enter t) := by
  unfold exec
  refine (stepEnter_rel ext al h ok ok').bind ?_
  intro s' t' hs
  exact .ok ⟨rfl, hs⟩

end

end Marwood.Lemmas.Sim
