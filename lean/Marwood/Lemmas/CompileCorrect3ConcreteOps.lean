import Marwood.Lemmas.CompileCorrect3ConcreteRep
/-!
# T01.3 stage 3 on the concrete heap — allocation, assignment, the global store

* `HOk`: the part of the invariant an allocation re-establishes by itself; `cput_step`: one allocation.
* `activationSlots_internal`: ENTER copies the closure environment's slot for an internal definition.
* `c3_envPut_ok`, `c3_globPut_ext`: the laws `envPut_ok` and `globPut_ext` of `Laws3`.
-/
namespace Marwood.Lemmas.CompileCorrect3.Conc
open Marwood Marwood.Vm Marwood.Vm.Concrete Marwood.Lemmas.CompileCorrect Marwood.Lemmas.CompileCorrect2
  Marwood.Lemmas.CompileCorrect2.Conc
open Marwood.Spec.Eval (Val Cell)

variable {ext : ExtOps} {E : AtomEnc} {named : Text → Prop} {slot : Text → Nat} {LM : Nat → Nat}
  {final : List LambdaM} {setG : Text → Prop}

/-- the invariant without the symbol table and the global slots -/
structure HOk (h : CHeap) : Prop where
  cinv : CInv h
  fi : FreeInv h
  clos : ClosEnv h
  hinv : Sim.HInv h

theorem srx_ok {h : CHeap} {S : Array Cell} (x : (cD3 ext E named slot LM final setG).SRx h S) : HOk h :=
  ⟨x.1, x.2.1, x.2.2.2.1, x.2.2.2.2.1⟩

theorem srx_sym {h : CHeap} {S : Array Cell} (x : (cD3 ext E named slot LM final setG).SRx h S) : Sim.SymOk h :=
  x.2.2.2.2.2

theorem srx_slots {h : CHeap} {S : Array Cell} (x : (cD3 ext E named slot LM final setG).SRx h S) :
    ∀ y, named y → slot y < h.globals.size := x.2.2.1

theorem srx_mk {h : CHeap} (S : Array Cell) (ok : HOk h) (so : Sim.SymOk h)
    (hsl : ∀ y, named y → slot y < h.globals.size) : (cD3 ext E named slot LM final setG).SRx h S :=
  ⟨ok.cinv, ok.fi, hsl, ok.clos, ok.hinv, so⟩

/-! ## one allocation -/

theorem not_sym_lexEnv (ss : List VCell) (name : Text) : ¬ Sim.isSymCell (CCell.lexEnv ss) name := by
  rintro ⟨tag, x, _⟩; cases x

theorem not_sym_val {v : VCell} (hv : symOf v = none) (name : Text) : ¬ Sim.isSymCell (CCell.val v) name := by
  rintro ⟨tag, x, ht⟩
  cases x
  simp [symOf, ht] at hv

/-- `Heap::alloc` and the write of a cell that is not a code object; a new closure cell refers to an environment -/
theorem cput_step {h : CHeap} (ok : HOk h) {c : CCell} (h1 : ∀ lam, c ≠ CCell.lambda lam) (h2 : ∀ k, c ≠ CCell.cont k)
    (h3 : ∀ lam e, c = CCell.val (.closure lam e) → ∃ ss, envAt h e = some ss) :
    ∃ h' p, cput h c = (h', p) ∧ Alloc h h' p c ∧ HOk h' := by
  obtain ⟨h', p, hr⟩ := cput_eq h c
  have a : Alloc h h' p c := by
    have := (cput_alloc ok.cinv ok.fi c).1
    rw [hr] at this; exact this
  have fi' : FreeInv h' := by
    have := (cput_alloc ok.cinv ok.fi c).2
    rw [hr] at this; exact this
  have cinv' : CInv h' := by
    have g := cput_grows (P := NoCont) ok.cinv h1 (fun k x => (h2 k x).elim)
    rw [hr] at g
    exact g.inv ok.cinv (fun c hc => hc.elim)
  have hinv' : Sim.HInv h' := by
    have : Sim.HInv (cput h c).1 := Sim.cwrite_inv _ (Sim.calloc_spec h ok.hinv).inv _ _
    rw [hr] at this; exact this
  refine ⟨h', p, hr, a, cinv', fi', ?_, hinv'⟩
  intro q lam e x
  rcases a.onlyNew x (by intro y; cases y) with rfl | x0
  · have hc := a.cell
    rw [x] at hc
    exact keeps_env (Alloc.keeps a) (h3 lam e (Option.some.inj hc).symm)
  · exact keeps_env (Alloc.keeps a) (ok.clos q lam e x0)

/-- an allocation leaves the slots of the existing environments alone -/
theorem alloc_envGet {h h' : CHeap} {p : Nat} {c : CCell} (a : Alloc h h' p c) {e n : Nat} {v : VCell}
    (x : Concrete.envGet h e n = some v) : Concrete.envGet h' e n = some v := by
  obtain ⟨ss, hs, hk⟩ := envGet_some x
  have : envAt h' e = some ss := envAt_of_cell (a.kept (envAt_cell hs) (by intro y; cases y))
  unfold Concrete.envGet; rw [this]; exact hk

theorem newClos_alloc {h h' : CHeap} {p : Nat} {c : CCell} (a : Alloc h h' p c)
    (hc : ∀ lam e, c = CCell.val (.closure lam e) →
      envAt h e = none ∨ ∃ (p' lam' : Nat), h.cells[p']? = some (CCell.val (.closure lam' e))) : NewClos h h' := by
  intro q lam e x
  rcases a.onlyNew x (by intro y; cases y) with rfl | x0
  · have h0 := a.cell
    rw [x] at h0
    exact hc lam e (Option.some.inj h0).symm
  · exact .inr ⟨q, lam, x0⟩

/-- the allocated address is not an environment a closure cell of the new heap refers to, unless the new cell
    is such a closure cell -/
theorem alloc_not_envOK {h h' : CHeap} {p : Nat} {c : CCell} (a : Alloc h h' p c) (ce : ClosEnv h)
    (hc : ∀ lam, c ≠ CCell.val (.closure lam p)) : ¬ cEnvOK h' p := by
  rintro ⟨_, q, lam, x⟩
  rcases a.onlyNew x (by intro y; cases y) with rfl | x0
  · have h0 := a.cell
    rw [x] at h0
    exact hc lam (Option.some.inj h0).symm
  · obtain ⟨ss, hs⟩ := ce q lam p x0
    rw [envAt_fresh a] at hs; cases hs

/-! ## ENTER: the slots of the internal definitions -/

theorem conv_internal {src : Concrete.Source} (x : conv src = RSrc.internal) :
    src = Concrete.Source.global ∨ src = Concrete.Source.internal := by
  cases src <;> first | exact .inl rfl | exact .inr rfl | cases x

/-- `build_lexical_environment` clones the closure environment's slot for an `Internal` (or `Global`) source -/
theorem activationSlots_internal (env bp argc : Nat) (st : Stack) :
    ∀ (em : List (VCell × Concrete.Source)) (slot : Nat) (olds slots : List VCell),
    activationSlots env bp argc st slot olds em = .ok slots →
    ∀ (j : Nat), (em.map fun p => conv p.2)[j]? = some RSrc.internal → slots[j]? = olds[j]? := by
  intro em
  induction em with
  | nil => intro slot olds slots _ j hj; simp at hj
  | cons q em ih =>
    intro slot olds slots hs j hj
    obtain ⟨x, src⟩ := q
    cases olds with
    | nil => simp [activationSlots] at hs
    | cons old olds =>
      simp only [activationSlots] at hs
      obtain ⟨v0, hv0, hs⟩ := bind_inv hs
      obtain ⟨vs, hvs, hs⟩ := bind_inv hs
      cases hs
      cases j with
      | zero =>
        simp at hj
        rcases conv_internal hj with rfl | rfl
        · simp only [activationSlot] at hv0; cases hv0; rfl
        · simp only [activationSlot] at hv0; cases hv0; rfl
      | succ j =>
        simp only [List.getElem?_cons_succ]
        exact ih (slot + 1) olds vs hvs j (by simpa using hj)

/-! ## assignment -/

theorem c3_envPut_ok (h : CHeap) (S : Array Cell) (e k : Nat) (old u : VCell)
    (hsrx : (cD3 ext E named slot LM final setG).SRx h S) (hnok : ¬ (cD3 ext E named slot LM final setG).envOK h e)
    (hget : (concreteOps ext).envGet h e k = some old) (hold : isEnvPtr old = false) (hu : isEnvPtr u = false)
    (hund : u ≠ .undefined) :
    ∃ h', (concreteOps ext).envPut h e k u = some h' ∧ Ext3 (cD3 ext E named slot LM final setG) h S h' S ∧
      (cD3 ext E named slot LM final setG).SRx h' S ∧
      (∀ e' k', (concreteOps ext).envGet h' e' k' = if e' = e ∧ k' = k then some u else (concreteOps ext).envGet h e' k') ∧
      ∀ m, (concreteOps ext).globGet h' m = (concreteOps ext).globGet h m := by
  have ok := srx_ok hsrx
  obtain ⟨ss, he, hk⟩ := envGet_some hget
  have hlt : k < ss.length := by
    rcases Nat.lt_or_ge k ss.length with h1 | h1
    · exact h1
    · rw [List.getElem?_eq_none h1] at hk; cases hk
  have hcell := envAt_cell he
  have helt : e < h.cells.size := getElem?_lt hcell
  have hput : Concrete.envPut h e k u = some (cwrite h e (.lexEnv (ss.set k u))) := by
    unfold Concrete.envPut; rw [he]; simp [hlt]
  have hcells : ∀ i, (cwrite h e (.lexEnv (ss.set k u))).cells[i]? =
      if i = e then some (CCell.lexEnv (ss.set k u)) else h.cells[i]? := by
    intro i
    show (h.cells.setIfInBounds e _)[i]? = _
    by_cases hi : i = e
    · subst hi; simp [helt]
    · rw [Array.getElem?_setIfInBounds_ne (fun x => hi x.symm)]; simp [hi]
  have henvAt : ∀ e', envAt (cwrite h e (.lexEnv (ss.set k u))) e' =
      if e' = e then some (ss.set k u) else envAt h e' := by
    intro e'
    unfold Concrete.envAt
    rw [hcells]
    by_cases hi : e' = e
    · simp [hi]
    · simp [hi]
  have hgetAll : ∀ e' k', Concrete.envGet (cwrite h e (.lexEnv (ss.set k u))) e' k' =
      if e' = e ∧ k' = k then some u else Concrete.envGet h e' k' := by
    intro e' k'
    unfold Concrete.envGet
    rw [henvAt]
    by_cases hi : e' = e
    · subst hi
      simp only [if_true, true_and, he]
      by_cases hk' : k' = k
      · subst hk'; simp [hlt]
      · have : ¬ k = k' := fun x => hk' x.symm
        simp [hk', this]
    · simp [hi]
  have hkeeps : Keeps h (cwrite h e (.lexEnv (ss.set k u))) := by
    intro i c hc _
    rw [hcells]
    by_cases hi : i = e
    · subst hi
      rw [hcell] at hc; cases hc
      exact .inr ⟨ss, ss.set k u, rfl, by simp⟩
    · exact .inl (by simp [hi, hc])
  have hclos : ∀ (p lam e0 : Nat), (cwrite h e (.lexEnv (ss.set k u))).cells[p]? = some (CCell.val (.closure lam e0)) →
      h.cells[p]? = some (CCell.val (.closure lam e0)) := by
    intro p lam e0 x
    rw [hcells] at x
    by_cases hi : p = e
    · simp [hi] at x
    · simpa [hi] using x
  refine ⟨_, hput, ?_, srx_mk S ⟨?_, ?_, ?_, Sim.cwrite_inv _ ok.hinv _ _⟩ ?_
    (fun y hy => srx_slots hsrx y hy), hgetAll, fun _ => rfl⟩
  · refine ext3_of_keeps S hkeeps ?_ ?_ ?_ ?_ (fun p lam e0 x => .inr ⟨p, lam, hclos p lam e0 x⟩)
    · intro e' n a b x
      rw [hgetAll]
      by_cases hs : e' = e ∧ n = k
      · obtain ⟨rfl, rfl⟩ := hs
        have : Concrete.envGet h e' n = some old := hget
        rw [this] at x; cases x; cases hold
      · simp [hs, x]
    · intro e' n v x hv
      rw [hgetAll]
      by_cases hs : e' = e ∧ n = k
      · exact ⟨u, by simp [hs], hu⟩
      · exact ⟨v, by simp [hs, x], hv⟩
    · intro e' n v x hv hne
      rw [hgetAll]
      by_cases hs : e' = e ∧ n = k
      · exact ⟨u, by simp [hs], hu, hund⟩
      · exact ⟨v, by simp [hs, x], hv, hne⟩
    · intro e' n okE x
      rw [hgetAll]
      by_cases hs : e' = e ∧ n = k
      · obtain ⟨rfl, rfl⟩ := hs
        exact absurd okE hnok
      · simp [hs, x]
  · exact (envPut_grows ok.cinv hput).inv ok.cinv (fun c hc => hc.elim)
  · refine ⟨fun p hp => ?_, ok.fi.nodup⟩
    have hpu := ok.fi.undef p hp
    have hne : p ≠ e := by
      intro x; subst x
      rw [hcell] at hpu; cases hpu
    rw [hcells]; simp [hne, hpu]
  · intro p lam e0 x
    obtain ⟨s0, hs0⟩ := ok.clos p lam e0 (hclos p lam e0 x)
    rw [henvAt]
    by_cases hi : e0 = e
    · exact ⟨ss.set k u, by simp [hi]⟩
    · exact ⟨s0, by simp [hi, hs0]⟩
  · exact symOk_cwrite (srx_sym hsrx) hcell (not_sym_lexEnv ss) (not_sym_lexEnv _)

/-! ## the global store -/

theorem c3_globPut_ext (h : CHeap) (S : Array Cell) (n : Nat) (u : VCell)
    (hsrx : (cD3 ext E named slot LM final setG).SRx h S) :
    Ext3 (cD3 ext E named slot LM final setG) h S ((concreteOps ext).globPut h n u) S ∧
      (cD3 ext E named slot LM final setG).SRx ((concreteOps ext).globPut h n u) S ∧
      ∀ e k, (concreteOps ext).envGet ((concreteOps ext).globPut h n u) e k = (concreteOps ext).envGet h e k := by
  have ok := srx_ok hsrx
  refine ⟨ext3_of_frame S (fun _ _ hc _ => .inl hc) (fun _ _ _ x => x) (fun p lam _ x => .inr ⟨p, lam, x⟩),
    srx_mk S ⟨cinv_of_eq ok.cinv rfl rfl rfl rfl, freeInv_of_eq ok.fi rfl rfl, closEnv_of_eq ok.clos rfl,
      hinv_of_eq ok.hinv rfl rfl rfl rfl⟩ (symOk_of_eq (srx_sym hsrx) rfl rfl rfl) (fun x hx => ?_), fun _ _ => rfl⟩
  show slot x < (h.globals.setIfInBounds n u).size
  rw [Array.size_setIfInBounds]; exact srx_slots hsrx x hx

end Marwood.Lemmas.CompileCorrect3.Conc
