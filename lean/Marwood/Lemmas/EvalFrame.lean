import Marwood.Spec.Eval
/-!
# T01.1 — the frame (independence) property of `Spec.Eval`: framework

Fix a name `x`. Two states are *similar* when they have the same store and output log and their
global environments agree on every name other than `x`. A state is *clean* when no value in it
mentions `x`: no symbol `x`, no closure whose body contains the symbol `x` anywhere (so neither a
variable reference nor quoted data that `eval` could turn into one). A computation *respects* the
frame when, started in similar states of which the first is clean, it ends in similar states, clean
again, with equal results that are clean.
-/
namespace Marwood.Spec.Eval
open Marwood

/-- the symbol `x` occurs in the datum (anywhere: code or quoted data) -/
def mentions (x : Text) : Datum → Bool
  | .sym s => s == x
  | .pair a d => mentions x a || mentions x d
  | .vec e => mentions x e
  | _ => false

def Clean (x : Text) (d : Datum) : Prop := mentions x d = false

def CleanVal (x : Text) : Val → Prop
  | .sym s => s ≠ x
  | .closure _ _ body _ => ∀ d ∈ body, Clean x d
  | _ => True

def CleanCell (x : Text) : Cell → Prop
  | .var v => CleanVal x v
  | .pair a d => CleanVal x a ∧ CleanVal x d
  | .vec xs => ∀ v ∈ xs, CleanVal x v
  | .promise _ v => CleanVal x v

def CleanStore (x : Text) (s : Array Cell) : Prop := ∀ (i : Nat) (c : Cell), s[i]? = some c → CleanCell x c

structure Inv (x : Text) (st : St) : Prop where
  store : CleanStore x st.store
  globals : ∀ y v, y ≠ x → st.globals.lookup y = some v → CleanVal x v

structure Sim (x : Text) (st st' : St) : Prop where
  store : st'.store = st.store
  out : st'.out = st.out
  globals : ∀ y, y ≠ x → st'.globals.lookup y = st.globals.lookup y

/-- related states: the first is clean, the second similar to it -/
def Rel (x : Text) (st st' : St) : Prop := Inv x st ∧ Sim x st st'

def RRes {α : Type} (x : Text) (P : α → Prop) : Res α → Res α → Prop
  | .ok a s, .ok a' s' => a = a' ∧ P a ∧ Rel x s s'
  | .err e s, .err e' s' => e = e' ∧ Rel x s s'
  | .timeout, .timeout => True
  | _, _ => False

/-- the computation respects the frame, and its result satisfies `P` -/
def Resp {α : Type} (x : Text) (m : M α) (P : α → Prop) : Prop :=
  ∀ st st', Rel x st st' → RRes x P (m st) (m st')

variable {x : Text} {α β : Type}

theorem Resp.pure {P : α → Prop} (a : α) (h : P a) : Resp x (pure a : M α) P := by
  intro st st' r; exact ⟨rfl, h, r⟩

theorem Resp.throw {P : α → Prop} (e : ErrClass) : Resp x (throw e : M α) P := by
  intro st st' r; exact ⟨rfl, r⟩

theorem Resp.timeout {P : α → Prop} : Resp x (timeoutM : M α) P := by
  intro st st' _; trivial

theorem Resp.bind {P : α → Prop} {Q : β → Prop} {m : M α} {f : α → M β}
    (hm : Resp x m P) (hf : ∀ a, P a → Resp x (f a) Q) : Resp x (m >>= f) Q := by
  intro st st' r
  have h := hm st st' r
  show RRes x Q (M.bind' m f st) (M.bind' m f st')
  unfold M.bind'
  cases h1 : m st with
  | ok a s =>
    cases h2 : m st' with
    | ok a' s' =>
      simp only [h1, h2, RRes] at h
      obtain ⟨rfl, pa, rr⟩ := h
      exact hf a pa s s' rr
    | err e s' => simp [h1, h2, RRes] at h
    | timeout => simp [h1, h2, RRes] at h
  | err e s =>
    cases h2 : m st' with
    | ok a' s' => simp [h1, h2, RRes] at h
    | err e' s' => simpa [h1, h2, RRes] using h
    | timeout => simp [h1, h2, RRes] at h
  | timeout =>
    cases h2 : m st' with
    | ok a' s' => simp [h1, h2, RRes] at h
    | err e' s' => simp [h1, h2, RRes] at h
    | timeout => trivial

theorem Resp.mono {P Q : α → Prop} {m : M α} (hm : Resp x m P) (h : ∀ a, P a → Q a) : Resp x m Q := by
  intro st st' r
  have := hm st st' r
  cases h1 : m st <;> cases h2 : m st' <;> simp_all [RRes]
  obtain ⟨rfl, pa, _⟩ := this
  exact h _ pa

theorem Resp.map_unit {P : α → Prop} {m : M α} (hm : Resp x m P) : Resp x m (fun _ => True) :=
  hm.mono (fun _ _ => trivial)

/-! ## the state operations -/

theorem resp_allocCell (c : Cell) (hc : CleanCell x c) : Resp x (allocCell c) (fun _ => True) := by
  intro st st' ⟨inv, sim⟩
  simp only [allocCell, RRes, sim.store, true_and]
  refine ⟨⟨?_, inv.globals⟩, ⟨by simp [sim.store], sim.out, sim.globals⟩⟩
  intro i c' h
  simp only [Array.getElem?_push] at h
  split at h
  · cases h; exact hc
  · exact inv.store i c' h

theorem resp_readCell (l : Loc) : Resp x (readCell l) (CleanCell x) := by
  intro st st' ⟨inv, sim⟩
  simp only [readCell, sim.store]
  cases h : st.store[l]? with
  | none => exact ⟨rfl, inv, sim⟩
  | some c => exact ⟨rfl, inv.store l c h, inv, sim⟩

theorem resp_writeCell (l : Loc) (c : Cell) (hc : CleanCell x c) : Resp x (writeCell l c) (fun _ => True) := by
  intro st st' ⟨inv, sim⟩
  simp only [writeCell, sim.store]
  split
  · refine ⟨rfl, trivial, ⟨?_, inv.globals⟩, ⟨by simp [sim.store], sim.out, sim.globals⟩⟩
    intro i c' h
    simp only [Array.getElem?_setIfInBounds] at h
    split at h
    · first
        | (cases h; exact hc)
        | (split at h
           · cases h; exact hc
           · cases h)
    · exact inv.store i c' h
  · exact ⟨rfl, inv, sim⟩

theorem resp_getStore : Resp x getStore (CleanStore x) := by
  intro st st' ⟨inv, sim⟩
  simp only [getStore, sim.store]
  exact ⟨rfl, inv.store, inv, sim⟩

theorem lookup_insertG (s : Text) (v : Val) (g : List (Text × Val)) (y : Text) :
    (insertG s v g).lookup y = if y == s then some v else g.lookup y := by
  induction g with
  | nil => by_cases hy : y == s <;> simp [insertG, List.lookup, hy]
  | cons kv r ih =>
    obtain ⟨k, w⟩ := kv
    by_cases hk : k == s
    · have hks : k = s := by simpa using hk
      subst hks
      by_cases hy : y == k <;> simp [insertG, List.lookup, hy]
    · by_cases hy : y == k
      · have hyk : y = k := by simpa using hy
        subst hyk
        simp [insertG, List.lookup, hk]
      · have hk' : (k == s) = false := by simpa using hk
        have hy' : (y == k) = false := by simpa using hy
        simp only [insertG, hk']
        rw [if_neg (by simp), List.lookup_cons, hy', List.lookup_cons, hy']
        simp [ih]

theorem resp_getGlobal (s : Text) (hs : s ≠ x) : Resp x (getGlobal s) (CleanVal x) := by
  intro st st' ⟨inv, sim⟩
  simp only [getGlobal, sim.globals s hs]
  cases h : st.globals.lookup s with
  | none => exact ⟨rfl, inv, sim⟩
  | some v => exact ⟨rfl, inv.globals s v hs h, inv, sim⟩

theorem rel_insertG {st st' : St} (s : Text) (v : Val) (hs : s ≠ x) (hv : CleanVal x v)
    (inv : Inv x st) (sim : Sim x st st') :
    Rel x { st with globals := insertG s v st.globals } { st' with globals := insertG s v st'.globals } := by
  refine ⟨⟨inv.store, ?_⟩, ⟨sim.store, sim.out, ?_⟩⟩
  · intro y w hy h
    simp only [lookup_insertG] at h
    split at h
    · cases h; exact hv
    · exact inv.globals y w hy h
  · intro y hy
    simp only [lookup_insertG, sim.globals y hy]

theorem resp_putGlobal (s : Text) (v : Val) (hs : s ≠ x) (hv : CleanVal x v) :
    Resp x (putGlobal s v) (fun _ => True) := by
  intro st st' ⟨inv, sim⟩
  exact ⟨rfl, trivial, rel_insertG s v hs hv inv sim⟩

theorem resp_setGlobal (s : Text) (v : Val) (hs : s ≠ x) (hv : CleanVal x v) :
    Resp x (setGlobal s v) (fun _ => True) := by
  intro st st' ⟨inv, sim⟩
  simp only [setGlobal, sim.globals s hs]
  cases h : st.globals.lookup s with
  | none => exact ⟨rfl, inv, sim⟩
  | some w => exact ⟨rfl, trivial, rel_insertG s v hs hv inv sim⟩

theorem resp_emit (w : Bool) (d : Datum) : Resp x (emit w d) (fun _ => True) := by
  intro st st' ⟨inv, sim⟩
  exact ⟨rfl, trivial, ⟨inv.store, inv.globals⟩, ⟨sim.store, by simp [sim.out], sim.globals⟩⟩

end Marwood.Spec.Eval
