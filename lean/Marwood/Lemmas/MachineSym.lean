import Marwood.Lemmas.GoodMain
/-!
# C18 at machine level: what the invariant `GoodI` says about symbol cells of the concrete machine

`GoodI s` (Lemmas/GoodDefs.lean) contains `WFHeap true (toHeap s.heap)`, hence `Interned`: the symbol table
maps a name to a cell iff that cell is allocated and holds that name. This file reads it on the concrete
heap `CHeap`:

* `SymCell h p n` — cell `p` of the concrete heap holds the symbol named `n` (an `opaque` tag `y…`);
  `symCell_iff` — that is `Symbol n` in the erasure.
* `Sees s p` — address `p` is one the machine can get hold of: it is among the collector's roots (global
  binding keys, pointer global slots, stack cells `≤ sp`, `acc`, `ip.0`, `ep`) or is referred to by the content
  of an allocated heap cell (car / cdr of a pair, vector element, environment slot, saved stack of a
  continuation, operand of a code object, …: `crefs`).
* `Loc s v` — the readable list of places a first-class value `v` can sit in; `loc_sees`.
* `sees_sym_alloc` — under `GoodI`, a symbol cell the machine sees is allocated.
* `putNew_symbol_interns`, `putV_symbol_interns`, `maybePutV_symbol_interns` — the concrete allocator with its
  real free list: producing a symbol value returns the cell that already holds the name, or — only when no
  allocated cell holds it — a fresh one.
-/
namespace Marwood.Lemmas.MachineSym
open Marwood Marwood.Vm Marwood.Vm.Concrete Marwood.Lemmas.Sim Marwood.Lemmas.Good
open Marwood.Heap (GcState WFHeap RootsOk vrefs vrefsList crefs Interned)
open Marwood.Lemmas.HeapWFOps (putNew_wf PutFacts)

/-- cell `p` of the concrete heap holds the symbol named `n` -/
def SymCell (h : CHeap) (p : Nat) (n : Text) : Prop :=
  ∃ tag, h.cells[p]? = some (CCell.val (.opaque tag)) ∧ symName? tag = some n

/-- the machine value `v` is a pointer to a symbol cell named `n` -/
def SymVal (h : CHeap) (v : VCell) (n : Text) : Prop := ∃ p, v = .ptr p ∧ SymCell h p n

theorem eraseC_symbol {c : CCell} {n : Text} (h : eraseC c = Heap.VCell.symbol n) :
    ∃ tag, c = CCell.val (.opaque tag) ∧ symName? tag = some n := by
  cases c with
  | val v =>
    cases v with
    | «opaque» tag =>
      refine ⟨tag, rfl, ?_⟩
      simp only [eraseC, eraseV] at h
      split at h
      · rename_i m hm; cases h; exact hm
      · cases h
    | _ => simp [eraseC, eraseV] at h
  | _ => simp [eraseC] at h

/-- a symbol cell of the concrete heap is a `Symbol` cell of its erasure, and conversely -/
theorem symCell_iff {h : CHeap} {p : Nat} {n : Text} :
    SymCell h p n ↔ (toHeap h).cells[p]? = some (Heap.VCell.symbol n) := by
  rw [toHeap_cells_get]
  constructor
  · rintro ⟨tag, hc, ht⟩
    rw [hc]
    simp [eraseC, eraseV, ht]
  · intro hc
    cases hcell : h.cells[p]? with
    | none => rw [hcell] at hc; cases hc
    | some c =>
      rw [hcell] at hc
      simp only [Option.map_some, Option.some.injEq] at hc
      obtain ⟨tag, hcc, ht⟩ := eraseC_symbol hc
      exact ⟨tag, by rw [hcell, hcc], ht⟩

/-- a symbol cell holds one name -/
theorem SymCell.name_unique {h : CHeap} {p : Nat} {n m : Text} (a : SymCell h p n) (b : SymCell h p m) : n = m := by
  have h1 := symCell_iff.mp a
  have h2 := symCell_iff.mp b
  rw [h1] at h2
  simpa using h2

/-! ## what the machine can see -/

/-- address `p` is a root of the collector, or is referred to by the content of an allocated cell -/
inductive Sees (s : St CHeap) : Nat → Prop
  | root {p : Nat} : p ∈ (rootsOf s).refs true → Sees s p
  | cell {i p : Nat} {c : CCell} : (toHeap s.heap).NonFree i → s.heap.cells[i]? = some c →
      p ∈ crefs true (eraseC c) → Sees s p

/-- the places a first-class value can sit in -/
inductive Loc (s : St CHeap) : VCell → Prop
  | acc : Loc s s.acc
  | stack {i : Nat} {v : VCell} : i ≤ s.stack.sp → s.stack.cells[i]? = some v → Loc s v
  | glob {v : VCell} : v ∈ s.heap.globals.toList → Loc s v
  | boxed {i : Nat} {v : VCell} : (toHeap s.heap).NonFree i → s.heap.cells[i]? = some (CCell.val v) → Loc s v
  | car {i a d : Nat} : (toHeap s.heap).NonFree i → s.heap.cells[i]? = some (CCell.val (.pair a d)) → Loc s (.ptr a)
  | cdr {i a d : Nat} : (toHeap s.heap).NonFree i → s.heap.cells[i]? = some (CCell.val (.pair a d)) → Loc s (.ptr d)
  | vecElem {i : Nat} {es : List VCell} {v : VCell} : (toHeap s.heap).NonFree i →
      s.heap.cells[i]? = some (CCell.vector es) → v ∈ es → Loc s v
  | envSlot {i : Nat} {ss : List VCell} {v : VCell} : (toHeap s.heap).NonFree i →
      s.heap.cells[i]? = some (CCell.lexEnv ss) → v ∈ ss → Loc s v
  | contSlot {i : Nat} {k : Cont} {v : VCell} : (toHeap s.heap).NonFree i →
      s.heap.cells[i]? = some (CCell.cont k) → v ∈ k.stack.cells → Loc s v

theorem vrefs_ptr (p : Nat) : vrefs true (eraseV (.ptr p)) = [p] := by simp [eraseV, vrefs]

theorem mem_vrefsList_ptr {l : List VCell} {p : Nat} (h : VCell.ptr p ∈ l) : p ∈ vrefsList true (l.map eraseV) :=
  vrefsList_mem_iff.mpr ⟨_, h, by simp [vrefs_ptr]⟩

/-- a pointer sitting in one of the listed places is an address the machine sees -/
theorem loc_sees {s : St CHeap} {p : Nat} (l : Loc s (.ptr p)) : Sees s p := by
  generalize hv : VCell.ptr p = v at l
  cases l with
  | acc =>
    refine .root (mem_refs_acc ?_)
    simp [rootsOf, ← hv, vrefs_ptr]
  | @stack i _ hi hc =>
    subst hv
    refine .root (mem_refs_stack ?_)
    simp only [rootsOf]
    refine mem_vrefsList_ptr ?_
    rw [List.mem_iff_getElem?]
    exact ⟨i, by rw [List.getElem?_take]; simp [Nat.lt_succ_of_le hi, hc]⟩
  | glob hm =>
    subst hv
    refine .root (mem_refs_slot ?_)
    simp only [rootsOf]
    exact List.mem_map.mpr ⟨_, hm, by simp [eraseV]⟩
  | boxed hn hc =>
    subst hv
    exact .cell hn hc (by simp [eraseC, eraseV, crefs])
  | car hn hc =>
    cases hv
    exact .cell hn hc (by simp [eraseC, eraseV, crefs])
  | cdr hn hc =>
    cases hv
    exact .cell hn hc (by simp [eraseC, eraseV, crefs])
  | vecElem hn hc hm =>
    subst hv
    exact .cell hn hc (by simp only [eraseC, crefs]; exact mem_vrefsList_ptr hm)
  | envSlot hn hc hm =>
    subst hv
    exact .cell hn hc (by simp only [eraseC, crefs]; exact mem_vrefsList_ptr hm)
  | contSlot hn hc hm =>
    subst hv
    refine .cell hn hc ?_
    simp only [eraseC, crefs, Heap.contRefs, List.mem_append]
    exact .inl (mem_vrefsList_ptr hm)

/-- under the invariant, what the machine sees is allocated (or a sentinel) -/
theorem sees_nf {s : St CHeap} (g : GoodI s) {p : Nat} (hs : Sees s p) : NF s.heap p := by
  cases hs with
  | root hm => exact g.roots p hm
  | cell hn hc hm => exact g.hg.closed hn hc p hm

/-- under the invariant, a symbol cell the machine sees is an allocated symbol cell of the erasure -/
theorem sees_sym_alloc {s : St CHeap} (g : GoodI s) {p : Nat} {n : Text} (hs : Sees s p) (hc : SymCell s.heap p n) :
    (toHeap s.heap).AllocSym p n := by
  obtain ⟨tag, hcell, _⟩ := id hc
  exact ⟨symCell_iff.mp hc, (sees_nf g hs).nonFree g.hg.wf hcell⟩

/-! ## the concrete allocator interns -/

theorem putNew_ptr (h : CHeap) (v : VCell) : ∃ a, (putNew h v).2 = .ptr a := by
  unfold putNew
  split
  · split
    · exact ⟨_, rfl⟩
    · exact ⟨_, rfl⟩
  · exact ⟨_, rfl⟩

/-- what producing the symbol value `v` (name `n`) does to a well-formed concrete heap -/
structure Produced (h h' : CHeap) (r : VCell) (n : Text) : Prop where
  wf : WFHeap true (toHeap h')
  /-- the result is a pointer to an allocated cell holding the name, and the table maps the name to it -/
  res : ∃ p, r = .ptr p ∧ (toHeap h').AllocSym p n ∧ symLookup h' n = some p
  /-- every allocated symbol stays where it was -/
  keep : ∀ q m, (toHeap h).AllocSym q m → (toHeap h').AllocSym q m
  /-- the cell is the one that held the name already (nothing changes), or no allocated cell held it -/
  fresh : (∃ p, r = .ptr p ∧ (toHeap h).AllocSym p n ∧ h' = h) ∨ ∀ q, ¬ (toHeap h).AllocSym q n

theorem putNew_symbol_interns {h : CHeap} (wf : WFHeap true (toHeap h)) (sm : Small h) {v : VCell} {n : Text}
    (hs : symOf v = some n) : Produced h (putNew h v).1 (putNew h v).2 n := by
  have inv := HInv.of_wf wf
  have hput := toHeap_putNew inv v
  rw [eraseV_sym hs] at hput
  obtain ⟨wf', pf⟩ := putNew_wf true _ _ _ _ wf (by intro y hy; simp [crefs] at hy) (sm.grown inv) hput
  obtain ⟨a, ha⟩ := putNew_ptr h v
  obtain ⟨p, hv, hnf, hc⟩ := pf.result
  have hpa : a = p := by rw [ha] at hv; simpa [eraseV] using hv
  subst hpa
  have hal : (toHeap (putNew h v).1).AllocSym a n := ⟨hc, hnf⟩
  refine ⟨wf', ⟨a, ha, hal, (wf'.interned n a).mpr hal⟩, ?_, ?_⟩
  · intro q m hq
    obtain ⟨x, y⟩ := pf.keep q hq.2
    exact ⟨by rw [y]; exact hq.1, x⟩
  · cases hk : symLookup h n with
    | some p =>
      have e : putNew h v = (h, .ptr p) := by simp only [putNew, hs, hk]
      left
      refine ⟨p, by rw [e], (wf.interned n p).mp hk, by rw [e]⟩
    | none =>
      right
      intro q hq
      have := (wf.interned n q).mpr hq
      have hl : (toHeap h).symLookup n = symLookup h n := rfl
      rw [hl, hk] at this
      cases this

/-- `Heap::put` of a symbol value on the concrete heap -/
theorem putV_symbol_interns {h : CHeap} (wf : WFHeap true (toHeap h)) (sm : Small h) {v : VCell} {n : Text}
    (hs : symOf v = some n) : Produced h (putV h v).1 (putV h v).2 n := by
  have hnp : isPtr v = false := by
    obtain ⟨tag, rfl, _⟩ := symOf_some hs; rfl
  have e : putV h v = putNew h v := by simp [putV, hnp]
  rw [e]
  exact putNew_symbol_interns wf sm hs

theorem symbol_not_immediate {v : VCell} {n : Text} (hs : symOf v = some n) : immediate v = false := by
  obtain ⟨tag, rfl, ht⟩ := symOf_some hs
  unfold symName? at ht
  unfold immediate
  split at ht
  · rename_i r hr; simp [hr]
  · cases ht

/-- `Heap::maybe_put` of a symbol value (the tail of `runBuiltin`: the result of `string->symbol`, …) -/
theorem maybePutV_symbol_interns {h : CHeap} (wf : WFHeap true (toHeap h)) (sm : Small h) {v : VCell} {n : Text}
    (hs : symOf v = some n) : Produced h (maybePutV h v).1 (maybePutV h v).2 n := by
  have hnp : isPtr v = false := by
    obtain ⟨tag, rfl, _⟩ := symOf_some hs; rfl
  have e : maybePutV h v = putNew h v := by simp [maybePutV, hnp, symbol_not_immediate hs]
  rw [e]
  exact putNew_symbol_interns wf sm hs

end Marwood.Lemmas.MachineSym
