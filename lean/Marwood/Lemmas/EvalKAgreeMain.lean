import Marwood.Lemmas.EvalKAgreeBody
import Marwood.Lemmas.EvalKAgreeCond
import Marwood.Lemmas.EvalKAgreeQq
import Marwood.Lemmas.EvalKAgreeApply
/-! # `Spec.EvalK` without `call/cc` is `Spec.Eval` — special forms, expressions, the main theorem -/
namespace Marwood.Lemmas.EvalKAgree
open Marwood Marwood.Spec.Eval Marwood.Spec.EvalK

variable {r : Rec}

/-- split the machine side's match, rewrite the other side's scrutinee with what was learnt -/
macro "msplit" : tactic => `(tactic| (split <;> try simp only [*]))
/-- the fall-through branch of a syntax match: both sides raise the syntax error -/
macro "mwild" : tactic => `(tactic| first
  | exact Sim.throw _ _ _ _
  | (split <;> first | exact Sim.throw _ _ _ _ | (exfalso; simp_all)))

theorem sim_withM_pure {α : Type} (x : M α) (g : α → Val) (σ : St) (κ : Kont) (ks : Array Kont) :
    Sim (withM x σ ks fun a σ' => retTo (g a) κ σ' ks) ((x >>= fun a => (pure (g a) : M Val)) σ) κ ks := by
  apply Sim.withM
  intro a σ' _
  exact Sim.pure _ _ _ _

/-- `evalKw` -/
theorem sim_kw (hr : SimRec r) (ρ : Env) (k : Kw) (rest : Datum) (σ : St) (κ : Kont) (ks : Array Kont) :
    Sim (kwGo ρ k rest κ σ ks) (evalKw r ρ k rest σ) κ ks := by
  cases k <;> simp only [kwGo, evalKw]
  case quote =>
    msplit
    · exact sim_withM_ret _ _ _ _
    · mwild
  case quasiquote =>
    msplit
    · exact sim_qq hr _ _ _ _ _ _
    · mwild
  case unquote => exact Sim.throw _ _ _ _
  case lambda =>
    msplit
    · exact sim_withM_ret _ _ _ _
    · mwild
  case define => exact Sim.throw _ _ _ _
  case setBang =>
    msplit
    · msplit
      · mwild
      · apply Sim.evalBind hr
        intro v σ' _
        simp only [retGo]
        exact sim_withM_pure (assignVar ρ _ v) (fun _ => Val.void) σ' κ ks
    · mwild
  case if_ =>
    msplit
    · apply Sim.evalBind hr
      intro v σ' _
      simp only [retGo]
      msplit
      · exact hr.eval _ _ _ _ _
      · exact Sim.pure _ _ _ _
    · apply Sim.evalBind hr
      intro v σ' _
      simp only [retGo]
      msplit
      · exact hr.eval _ _ _ _ _
      · exact hr.eval _ _ _ _ _
    · mwild
  case let_ =>
    msplit
    · msplit
      · msplit
        · mwild
        · rename_i name _ _ _ _ bs b body _ _ _
          have := sim_args hr ρ (.namedLet name (bs.map (·.1)) (b :: body)) _ κ ks
            (fun vs σ' => sim_argsDone_namedLet hr ρ name (bs.map (·.1)) (b :: body) vs σ' κ ks)
            (bs.map (·.2)) [] σ
          simpa using this
      · mwild
    · msplit
      · rename_i bs b body _ _
        have := sim_args hr ρ (.letBody (bs.map (·.1)) (b :: body)) _ κ ks
          (fun vs σ' => sim_argsDone_letBody hr ρ (bs.map (·.1)) (b :: body) vs σ' κ ks)
          (bs.map (·.2)) [] σ
        simpa using this
      · mwild
    · mwild
  case letStar =>
    msplit
    · msplit
      · exact sim_letStar hr _ _ _ _ _ _
      · mwild
    · mwild
  case letrec =>
    msplit
    · msplit
      · apply Sim.withM
        intro ρ' σ' _
        exact sim_letrec hr ρ' _ _ σ' κ ks
      · mwild
    · mwild
  case begin_ =>
    msplit
    · exact sim_exprs hr _ _ _ _ _
    · mwild
  case cond =>
    msplit
    · exact sim_cond hr ρ _ σ κ ks
    · mwild
  case case_ =>
    msplit
    · msplit
      · apply Sim.evalBind hr
        intro v σ' _
        simp only [retGo]
        exact sim_case hr ρ v _ σ' κ ks
      · mwild
    · mwild
  case and_ =>
    msplit
    · exact sim_and hr ρ _ σ κ ks
    · mwild
  case or_ =>
    msplit
    · exact sim_or hr ρ _ σ κ ks
    · mwild
  case when_ =>
    msplit
    · apply Sim.evalBind hr
      intro v σ' _
      simp only [retGo]
      cases truthy v
      · exact Sim.pure _ _ _ _
      · exact sim_exprs hr _ _ _ _ _
    · mwild
  case unless_ =>
    msplit
    · apply Sim.evalBind hr
      intro v σ' _
      simp only [retGo]
      cases truthy v
      · exact sim_exprs hr _ _ _ _ _
      · exact Sim.pure _ _ _ _
    · mwild
  case delay =>
    msplit
    · exact sim_withM_pure _ (fun l => Val.promise l) σ κ ks
    · mwild

/-- an application: operands left to right, then the operator -/
theorem sim_application (hr : SimRec r) (ρ : Env) (f rest : Datum) (σ : St) (κ : Kont) (ks : Array Kont) :
    Sim (match properList rest with
          | some es => argsGo ρ [] es (.call f) κ σ ks
          | none => failWith .syntax σ ks)
      ((match properList rest with
          | some es => (do
              let vs ← evalArgs r ρ es
              let fv ← r.eval f ρ
              r.apply fv vs : M Val)
          | none => throw .syntax) σ) κ ks := by
  cases properList rest with
  | none => exact Sim.throw _ _ _ _
  | some es =>
    have := sim_args hr ρ (.call f) _ κ ks
      (fun vs σ' => sim_argsDone_call hr ρ f vs σ' κ ks) es [] σ
    simpa using this

/-- `evalStep` -/
theorem sim_ev (hr : SimRec r) (e : Datum) (ρ : Env) (σ : St) (κ : Kont) (ks : Array Kont) :
    Sim (evGo e ρ κ σ ks) (evalStep r e ρ σ) κ ks := by
  cases e <;> simp only [evGo, evalStep]
  case pair f rest =>
    cases f <;> simp only []
    case sym s =>
      cases kwOf s with
      | some k => exact sim_kw hr _ _ _ _ _ _
      | none => exact sim_application hr ρ _ rest σ κ ks
    all_goals exact sim_application hr ρ _ rest σ κ ks
  all_goals first
    | exact Sim.throw _ _ _ _
    | exact sim_withM_ret _ _ _ _

/-- one more level of fuel -/
theorem simRec_step (hr : SimRec r) : SimRec { eval := evalStep r, apply := applyStep r } where
  eval e ρ σ κ ks := Sim.ev (sim_ev hr e ρ σ κ ks)
  apply f args σ κ ks := Sim.app (by
    show Sim (applyGo f args κ σ ks) _ κ ks
    exact sim_applyGo hr (fun ρ body σ κ ks => sim_body hr ρ body σ κ ks) f args σ κ ks)

/-- **the machine without `call/cc` simulates `Spec.Eval` at every fuel** -/
theorem simRec_evalN : ∀ n, SimRec (evalN n)
  | 0 => { eval := fun _ _ _ _ _ => trivial, apply := fun _ _ _ _ _ => trivial }
  | n+1 => simRec_step (simRec_evalN n)

end Marwood.Lemmas.EvalKAgree
