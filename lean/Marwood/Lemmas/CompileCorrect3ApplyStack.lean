import Marwood.Lemmas.CompileCorrect3VarArg
/-!
# T01.3 stage 3 — the `apply` builtin: the stack rewrite

Forward execution lemma for `builtinApply` under `CALL`/`TCALL`: the operands `proc, a₁ … aₖ, lst` become
`a₁ … aₖ, e₁ … eₘ` (the elements of the proper list `lst`), `proc` moves to `acc`, and the same instruction runs
again. The two loops of the model (`builtinApply.shift`, `builtinApply.pushList`) have their own lemmas.
-/
namespace Marwood.Lemmas.CompileCorrect3
open Marwood Marwood.Vm Marwood.Lemmas.CompileCorrect Marwood.Lemmas.CompileCorrect2
variable {H : Type} {ops : HeapOps H}

/-- machine list: `v` is a proper list whose element cells are at the heap addresses `ptrs` -/
inductive MList (ops : HeapOps H) (h : H) : VCell → List Nat → Prop
  | nil {v} : ops.deref h v = .nil → MList ops h v []
  | cons {v pa pd ps} : ops.deref h v = .pair pa pd → MList ops h (.ptr pd) ps → MList ops h v (pa :: ps)

/-! ## the stack -/

/-- a stack that agrees with `st0` below and carries `vs` above it is `pushAll st0 vs` on the live part -/
theorem liveEq_pushAll {st0 st' : Stack} {vs : List VCell} (hw0 : SWF st0)
    (hsp : st'.sp = st0.sp + vs.length)
    (h0 : ∀ i, i ≤ st0.sp → st'.cells[i]? = st0.cells[i]?)
    (h1 : ∀ j, j < vs.length → st'.cells[st0.sp + 1 + j]? = vs[j]?) : LiveEq (pushAll st0 vs) st' := by
  refine ⟨by rw [pushAll_sp, hsp], ?_⟩
  intro i hi
  rw [pushAll_sp] at hi
  by_cases c : i ≤ st0.sp
  · rw [pushAll_below st0 vs hw0 i c, h0 i c]
  · obtain ⟨j, rfl⟩ : ∃ j, i = st0.sp + 1 + j := ⟨i - (st0.sp + 1), by omega⟩
    rw [pushAll_get st0 vs hw0 j (by omega), h1 j (by omega)]

theorem pop_any {st : Stack} (hw : SWF st) (hp : 0 < st.sp) :
    ∃ v, st.pop = .ok (v, { st with sp := st.sp - 1 }) := by
  unfold SWF at hw
  unfold Stack.pop
  simp only [hp, if_true]
  rw [List.getElem?_eq_getElem hw]
  exact ⟨_, rfl⟩

theorem setOffset_neg {st : Stack} {k i : Nat} {v : VCell} (hk : st.sp = i + k + 1) (hw : SWF st) :
    st.setOffset (-(k : Int) - 1) v = .ok { st with cells := st.cells.set i v } := by
  unfold SWF at hw
  unfold Stack.setOffset
  have h0 : (0 : Int) ≤ (st.sp : Int) + (-(k : Int) - 1) := by omega
  simp only [h0, if_true]
  have e : ((st.sp : Int) + (-(k : Int) - 1)).toNat = i := by omega
  rw [e]
  unfold Stack.set
  have hlt : i < st.cells.length := by omega
  simp only [hlt, if_true]

/-! ## the loops -/

/-- `shift j`: the `j` cells below the top… more exactly the cells `sp-j+1 … sp` are copied one cell down -/
theorem shift_ok : ∀ (j : Nat) (st : Stack), j ≤ st.sp → SWF st →
    ∃ st', builtinApply.shift j st = .ok st' ∧ st'.sp = st.sp ∧ st'.cells.length = st.cells.length ∧
      (∀ i, i + j < st.sp ∨ st.sp ≤ i → st'.cells[i]? = st.cells[i]?) ∧
      (∀ i, st.sp ≤ i + j → i < st.sp → st'.cells[i]? = st.cells[i + 1]?)
  | 0, st, _, _ => ⟨st, rfl, rfl, rfl, fun _ _ => rfl, fun i h1 h2 => by omega⟩
  | j + 1, st, hj, hw => by
    have hw' : st.sp < st.cells.length := hw
    obtain ⟨i0, hi0⟩ : ∃ i0, st.sp = i0 + j + 1 := ⟨st.sp - (j + 1), by omega⟩
    have hget : st.getOffset (-(j : Int)) = .ok st.cells[i0 + 1] :=
      getOffset_neg (i := i0 + 1) (by omega) (List.getElem?_eq_getElem (by omega))
    have hset := setOffset_neg (v := st.cells[i0 + 1]) hi0 hw
    obtain ⟨st', e, h1, h2, h3, h4⟩ := shift_ok j { st with cells := st.cells.set i0 st.cells[i0 + 1] }
      (by show j ≤ st.sp; omega) (by show st.sp < (st.cells.set i0 _).length; rw [List.length_set]; exact hw')
    refine ⟨st', ?_, h1, by rw [h2]; exact List.length_set .., ?_, ?_⟩
    · unfold builtinApply.shift
      simp only [hget, ok_bind, hset]
      exact e
    · intro i hi
      rw [h3 i (by show i + j < st.sp ∨ st.sp ≤ i; omega)]
      show (st.cells.set i0 _)[i]? = _
      exact List.getElem?_set_ne (by omega)
    · intro i hi1 hi2
      by_cases c : i = i0
      · subst c
        rw [h3 i (by show i + j < st.sp ∨ st.sp ≤ i; omega)]
        show (st.cells.set i _)[i]? = _
        rw [List.getElem?_set_self (by omega), List.getElem?_eq_getElem]
      · rw [h4 i (by show st.sp ≤ i + j; omega) hi2]
        show (st.cells.set i0 _)[i + 1]? = _
        exact List.getElem?_set_ne (by omega)

/-- `pushList`: the element pointers of a proper list are pushed, first to last, and counted -/
theorem pushList_ok {s : MSt H} {v : VCell} {ptrs : List Nat} (hml : MList ops s.heap v ptrs) :
    ∀ (fuel n : Nat) (a b : Stack), ptrs.length < fuel → LiveEq a b → SWF a → SWF b →
    ∃ b', builtinApply.pushList ops s fuel (ops.deref s.heap v) n b = .ok (n + ptrs.length, b') ∧
      LiveEq (pushAll a (ptrs.map VCell.ptr)) b' ∧ SWF b' := by
  induction hml with
  | nil hd =>
    intro fuel n a b hf hl ha hb
    obtain ⟨f, rfl⟩ : ∃ f, fuel = f + 1 := ⟨fuel - 1, by simp at hf; omega⟩
    refine ⟨b, ?_, hl, hb⟩
    unfold builtinApply.pushList
    rw [hd]
    rfl
  | @cons v pa pd ps hd _ ih =>
    intro fuel n a b hf hl ha hb
    obtain ⟨f, rfl⟩ : ∃ f, fuel = f + 1 := ⟨fuel - 1, by omega⟩
    obtain ⟨b', e, hl', hb'⟩ := ih f (n + 1) (a.push (.ptr pa)) (b.push (.ptr pa))
      (by simp only [List.length_cons] at hf; omega) (hl.push ha hb _) (push_swf _ _) (push_swf _ _)
    refine ⟨b', ?_, ?_, hb'⟩
    · unfold builtinApply.pushList
      rw [hd]
      simp only
      rw [e, List.length_cons]
      congr 2
      omega
    · rw [List.map_cons, pushAll_cons]
      exact hl'

/-! ## the builtin -/

theorem builtinApply_ok {s : MSt H} {stk0 : Stack} {pg : Nat} {vl : VCell} {mid : List VCell} {ptrs : List Nat}
    (hst : LiveEq ((pushAll stk0 (.ptr pg :: mid ++ [vl])).push (.argc (mid.length + 2))) s.stack)
    (hw0 : SWF stk0) (hw : SWF s.stack)
    (hml : MList ops s.heap vl ptrs) (hlen : ptrs.length + 1 ≤ 100000) (hip : 0 < s.ipO) :
    ∃ st', builtinApply ops s = .ok ({ s with stack := st', ipO := s.ipO - 1 }, .ptr pg) ∧
      LiveEq ((pushAll stk0 (mid ++ ptrs.map VCell.ptr)).push (.argc (mid.length + ptrs.length))) st' ∧ SWF st' := by
  rw [pushAll_append] at hst
  change LiveEq (((pushAll stk0 (.ptr pg :: mid)).push vl).push (.argc (mid.length + 2))) s.stack at hst
  have hA : SWF (pushAll stk0 (.ptr pg :: mid)) := pushAll_swf _ _ hw0
  obtain ⟨st1, pp1, l1, w1⟩ := pop_push' hst (push_swf _ _) hw
  obtain ⟨st2, pp2, l2, w2⟩ := pop_push' l1 hA w1
  -- the cells of `st2`
  have sp2 : st2.sp = stk0.sp + 1 + mid.length := by
    rw [← l2.1, pushAll_sp, List.length_cons]; omega
  have cell2 : ∀ i, i ≤ stk0.sp + 1 + mid.length → st2.cells[i]? = (pushAll stk0 (.ptr pg :: mid)).cells[i]? :=
    fun i hi => (l2.2 i (by rw [pushAll_sp, List.length_cons]; omega)).symm
  have low2 : ∀ i, i ≤ stk0.sp → st2.cells[i]? = stk0.cells[i]? := fun i hi => by
    rw [cell2 i (by omega), pushAll_below stk0 _ hw0 i hi]
  have up2 : ∀ j, j < mid.length + 1 → st2.cells[stk0.sp + 1 + j]? = (VCell.ptr pg :: mid)[j]? := fun j hj => by
    rw [cell2 _ (by omega), pushAll_get stk0 _ hw0 j (by rw [List.length_cons]; exact hj)]
  -- shape of the list
  have hshape : ops.deref s.heap vl = .nil ∨ ∃ a d, ops.deref s.heap vl = .pair a d := by
    cases hml with
    | nil hd => exact .inl hd
    | cons hd _ => exact .inr ⟨_, _, hd⟩
  -- the procedure
  have hproc : st2.getOffset (-(((mid.length + 2 : Nat) : Int) - 2)) = .ok (.ptr pg) := by
    have e : (-(((mid.length + 2 : Nat) : Int) - 2)) = -(mid.length : Int) := by omega
    rw [e]
    exact getOffset_neg (i := stk0.sp + 1) (by omega) (by have := up2 0 (by omega); simpa using this)
  -- the shift
  obtain ⟨st3, e3, sp3, len3, keep3, mv3⟩ := shift_ok mid.length st2 (by omega) w2
  have w3 : SWF st3 := by unfold SWF at *; omega
  obtain ⟨vtop, pp3⟩ := pop_any w3 (by omega)
  have l4 : LiveEq (pushAll stk0 mid) { st3 with sp := st3.sp - 1 } := by
    refine liveEq_pushAll hw0 ?_ ?_ ?_
    · show st3.sp - 1 = _; omega
    · intro i hi
      show st3.cells[i]? = _
      rw [keep3 i (by omega), low2 i hi]
    · intro j hj
      show st3.cells[stk0.sp + 1 + j]? = _
      rw [mv3 _ (by omega) (by omega), show stk0.sp + 1 + j + 1 = stk0.sp + 1 + (j + 1) by omega,
        up2 (j + 1) (by omega)]
      rfl
  have w4 : SWF { st3 with sp := st3.sp - 1 } := pop_swf w3
  -- the list
  obtain ⟨st5, e5, l5, w5⟩ := pushList_ok hml 100000 mid.length (pushAll stk0 mid) _ (by omega) l4
    (pushAll_swf _ _ hw0) w4
  have hu : usub s.ipO 1 "apply: ip.1 -= 1" = .ok (s.ipO - 1) := by
    unfold usub
    have : 1 ≤ s.ipO := hip
    simp only [this, if_true]
  have hnlt : ¬ mid.length + 2 < 2 := by omega
  refine ⟨st5.push (.argc (mid.length + ptrs.length)), ?_, ?_, push_swf _ _⟩
  · unfold builtinApply
    rcases hshape with hd | ⟨a, d, hd⟩ <;>
    · rw [hd] at e5
      simp only [pp1, ok_bind, asArgc, hnlt, if_false, pp2, hd, Bool.not_true, Bool.false_eq_true, hproc,
        Nat.add_sub_cancel, e3, pp3, e5, hu]
  · rw [pushAll_append]
    exact l5.push (pushAll_swf _ _ (pushAll_swf _ _ hw0)) w5 _

/-- `CALL`/`TCALL` with the `apply` builtin in `acc`, operands `proc, a₁ … aₖ, lst` and their number on the stack,
    `proc` a heap pointer, `lst` a proper machine list shorter than the model's guard: one step later the same
    instruction is about to run again with `proc` in `acc` and the operands `a₁ … aₖ, e₁ … eₘ` on the stack. -/
theorem step_apply {s : MSt H} {tail : Bool} {id : Nat} {stk0 : Stack} {pg : Nat} {vl : VCell} {mid : List VCell}
    {ptrs : List Nat}
    (hl : ops.isLambda s.heap s.ipL = true)
    (h0 : ops.fetch s.heap s.ipL s.ipO = some (.opcode (if tail = true then .tcallAcc else .callAcc)))
    (hcal : ops.callee s.heap s.acc = .builtin id) (hkind : ops.builtinKind s.heap id = .apply)
    (hst : LiveEq ((pushAll stk0 (.ptr pg :: mid ++ [vl])).push (.argc (mid.length + 2))) s.stack)
    (hw0 : SWF stk0) (hw : SWF s.stack)
    (hml : MList ops s.heap vl ptrs) (hlen : ptrs.length + 1 ≤ 100000) :
    ∃ st', step ops s = .ok ({ s with stack := st', acc := .ptr pg }, false) ∧
      LiveEq ((pushAll stk0 (mid ++ ptrs.map VCell.ptr)).push (.argc (mid.length + ptrs.length))) st' ∧ SWF st' := by
  obtain ⟨st', e, h2, h3⟩ := builtinApply_ok (ops := ops) (s := { s with ipO := s.ipO + 1 }) hst hw0 hw hml hlen
    (Nat.succ_pos _)
  refine ⟨st', ?_, h2, h3⟩
  have hrb : runBuiltin ops id { s with ipO := s.ipO + 1 } = .ok { s with stack := st', acc := .ptr pg } := by
    unfold runBuiltin
    simp only [hkind, e, ok_bind]
    rfl
  unfold step
  rw [readOpcode_eq hl h0]
  cases tail
  · simp only [ok_bind, Bool.false_eq_true, if_false, stepCall, hcal, hrb]
  · simp only [ok_bind, if_true, stepTCall, hcal, hrb]

end Marwood.Lemmas.CompileCorrect3
