import Marwood.Lemmas.PrepareEnvCode
import Marwood.Lemmas.NoPanicDefs
/-!
# The allocator steps of `prepare_eval` keep the no-panic clauses of the heap

`InstStep` (Lemmas/PrepareDefs.lean) only adds cells: value cells, vectors, and lambda cells satisfying `Q`. Any
per-cell predicate `P` (`AllCells P`) that does not constrain value cells / lexical environments (`QFree`), holds of
vectors and of the lambda cells `Q` admits is therefore kept. Instances: `HeapNP` (`Q ⊆ CodeOk`, whose clause `np`
is `LamNP`) and `ContBound n` (no continuation cell is created).
-/
namespace Marwood.Lemmas.Good
open Marwood Marwood.Vm Marwood.Vm.Verify Marwood.Vm.Concrete Marwood.Lemmas.Sim
open Marwood.Heap (GcState)

theorem NPArgs.lamNP {cl : CLambda} (a : NPArgs cl) : LamNP cl := ⟨a.vararg, a.argSrc⟩

theorem NewCellOk.all {P : CCell → Prop} (q : QFree P) (hv : ∀ es, P (.vector es)) {Q : CLambda → Prop}
    (hl : ∀ cl, Q cl → P (.lambda cl)) {c : CCell} (x : NewCellOk Q c) : P c := by
  cases x with
  | pair a d => exact q.val _
  | atom _ _ => exact q.val _
  | vector es => exact hv es
  | lambda hq => exact hl _ hq

theorem instStep_allCells {P : CCell → Prop} (q : QFree P) (hv : ∀ es, P (.vector es)) {Q : CHeap → CLambda → Prop}
    (hl : ∀ h cl, Q h cl → P (.lambda cl)) {h h' : CHeap} (st : InstStep Q h h') (a : AllCells P h) : AllCells P h' := by
  cases st with
  | cell hn _ _ _ => exact cput_all q a (hn.all q hv (hl _))
  | sym _ _ => exact putNew_all q a _
  | glob _ => exact a.of_cells rfl
  | resym _ _ => exact a.of_cells rfl

theorem instSteps_allCells {P : CCell → Prop} (q : QFree P) (hv : ∀ es, P (.vector es)) {Q : CHeap → CLambda → Prop}
    (hl : ∀ h cl, Q h cl → P (.lambda cl)) {h h' : CHeap} (st : InstSteps Q h h') (a : AllCells P h) : AllCells P h' := by
  induction st with
  | refl _ => exact a
  | step s _ ih => exact ih (instStep_allCells q hv hl s a)

theorem instSteps_heapNP {Q : CHeap → CLambda → Prop} (hQ : ∀ h cl, Q h cl → CodeOk cl) {h h' : CHeap} (st : InstSteps Q h h')
    (a : HeapNP h) : HeapNP h' :=
  instSteps_allCells lamQ_free (fun _ _ e => by cases e)
    (fun _ cl hq l e => by cases e; exact (hQ _ _ hq).np.lamNP) st a

theorem instSteps_contBound {Q : CHeap → CLambda → Prop} {n : Nat} {h h' : CHeap} (st : InstSteps Q h h')
    (a : ContBound n h) : ContBound n h' :=
  instSteps_allCells (contQ_free n) (fun _ _ e => by cases e) (fun _ _ _ _ e => by cases e) st a

/-! ## the two no-panic clauses `NPInv` across `prepare_eval` -/

/-- loader steps (of an accepted or of a rejected form) keep `NPInv`: new code objects satisfy `LamNP`, no continuation
    cell is created, the stack — hence its capacity — is unchanged -/
theorem npinv_installsGarbage {s s' : St CHeap} (i : NPInv s) (st : InstallsGarbage s s') : NPInv s' := by
  refine ⟨instSteps_heapNP (fun _ _ q => q.code) st.steps i.lam, ?_⟩
  have hst : s'.stack = s.stack := by rw [st.regs]
  show ContBound s'.stack.cells.length s'.heap
  rw [hst]
  exact instSteps_contBound st.steps i.cont

/-- **`prepare_npinv`**: `prepare_eval` keeps the two further clauses of T06.6 -/
theorem prepare_npinv {e : Datum} {fuel : Nat} {s s' : St CHeap} {entry : Nat} (i : NPInv s)
    (st : Installs e fuel s s' entry) : NPInv (prepare s' entry) :=
  npinv_prepare_entry (npinv_installsGarbage i st.garbage) entry

end Marwood.Lemmas.Good
