import Marwood.Lemmas.GcMark
import Marwood.Lemmas.GcSweep
import Marwood.Lemmas.HeapOps
/-!
# `Heap::mark` and `Vm::run_gc` at heap level: T03.1, T03.2, T12.1, T03.3 (collector part)
-/
namespace Marwood.Lemmas.GcSafety
open Marwood Marwood.Heap Marwood.Spec Marwood.Lemmas.GcMark Marwood.Lemmas.GcSweep
open Marwood.Lemmas.HeapOps

/-- reachability in the marker's own graph -/
def Reachable (fixed : Bool) (h : Heap) (roots : List Nat) (x : Nat) : Prop :=
  Reach (h.children fixed) h.gc.size roots x

theorem isUsed_iff (s : GcState) : Heap.isUsed s = true ↔ s = GcState.used := by
  cases s <;> simp [Heap.isUsed]

theorem marked_iff (g : Array GcState) (x : Nat) :
    Marked Heap.isUsed g x ↔ g[x]? = some GcState.used := by
  constructor
  · rintro ⟨s, hs, hm⟩; rw [hs, (isUsed_iff s).mp hm]
  · intro h; exact ⟨_, h, rfl⟩

/-- fuel adequacy: `mark` always returns -/
theorem mark_total (fixed : Bool) (h : Heap) (roots : List Nat) : ∃ h', h.mark fixed roots = some h' := by
  unfold Heap.mark
  obtain ⟨r, hr⟩ := markLoop_fuel Heap.isUsed GcState.used (h.children fixed) rfl
    (Heap.markFuel fixed h roots) roots h.gc (by
      have := weight_le_total Heap.isUsed (h.children fixed) h.gc
      unfold Heap.markFuel Heap.totalRefs
      omega)
  exact ⟨_, by rw [hr]; rfl⟩

structure MarkSpec (fixed : Bool) (h : Heap) (roots : List Nat) (h' : Heap) : Prop where
  chunk : h'.chunk = h.chunk
  cells : h'.cells = h.cells
  free : h'.free = h.free
  symtab : h'.symtab = h.symtab
  gcsize : h'.gc.size = h.gc.size
  /-- T03.1: marked = reachable -/
  used_iff : ∀ x : Nat, h'.gc[x]? = some GcState.used ↔ Reachable fixed h roots x
  frame : ∀ x : Nat, h'.gc[x]? = h.gc[x]? ∨ (h'.gc[x]? = some GcState.used ∧ x < h.gc.size)
  closed : ∀ x : Nat, h'.gc[x]? = some GcState.used → ∀ y ∈ h.children fixed x, y < h.gc.size →
    h'.gc[y]? = some GcState.used

theorem mark_spec (fixed : Bool) (h : Heap) (roots : List Nat) (h' : Heap)
    (hnu : ∀ i : Nat, h.gc[i]? ≠ some GcState.used) (hm : h.mark fixed roots = some h') :
    MarkSpec fixed h roots h' := by
  unfold Heap.mark at hm
  cases hl : markLoop Heap.isUsed GcState.used (h.children fixed) (Heap.markFuel fixed h roots) roots h.gc with
  | none => rw [hl] at hm; cases hm
  | some g =>
    rw [hl] at hm
    simp only [Option.map_some, Option.some.injEq] at hm
    subst hm
    have h0 : ∀ x, ¬ Marked Heap.isUsed h.gc x := by
      intro x hx; exact hnu x ((marked_iff _ _).mp hx)
    have hsz := markLoop_size _ _ _ _ _ _ _ hl
    refine ⟨rfl, rfl, rfl, rfl, hsz, ?_, ?_, ?_⟩
    · intro x
      rw [← marked_iff]
      exact markLoop_exact Heap.isUsed GcState.used (h.children fixed) rfl _ _ _ _ hl h0 x
    · intro x
      rcases markLoop_frame _ _ _ _ _ _ _ hl x with h1 | ⟨h1, _, h3⟩
      · exact Or.inl h1
      · exact Or.inr ⟨h1, h3⟩
    · intro x hx y hy hlt
      obtain ⟨_, _, h3⟩ := markLoop_complete Heap.isUsed GcState.used (h.children fixed) rfl _ _ _ _ hl
        (by intro x hx; exact absurd hx (h0 x))
      rcases h3 x ((marked_iff _ _).mpr hx) y hy (by rw [hsz]; exact hlt) with h4 | h4
      · exact (marked_iff _ _).mp h4
      · simp at h4

/-! ## what a collection does -/

open Classical

/-- extensional description of `mark roots; sweep` -/
structure CollectSpec (fixed : Bool) (h : Heap) (roots : List Nat) (h' : Heap) : Prop where
  chunk : h'.chunk = h.chunk
  gcsize : h'.gc.size = h.gc.size
  csize : h'.cells.size = h.cells.size
  /-- reachable cells end up `Allocated` -/
  gc_reach : ∀ x : Nat, Reachable fixed h roots x → h'.gc[x]? = some GcState.allocated
  /-- everything else in range ends up `Free` -/
  gc_unreach : ∀ x : Nat, x < h.gc.size → ¬ Reachable fixed h roots x → h'.gc[x]? = some GcState.free
  /-- reachable cells keep their content -/
  cells_reach : ∀ x : Nat, Reachable fixed h roots x → h'.cells[x]? = h.cells[x]?
  /-- cells that were free keep their content, cells that are freed become `Undefined` -/
  cells_unreach : ∀ x : Nat, ¬ Reachable fixed h roots x →
    h'.cells[x]? = if h.gc[x]? = some GcState.allocated then some VCell.undefined else h.cells[x]?
  free : h'.free = ((List.range h.cells.size).filter fun j =>
      h.gc[j]? = some GcState.allocated ∧ ¬ Reachable fixed h roots j).reverse ++ h.free
  sym : ∀ name, h'.symLookup name =
    if ∃ j : Nat, h.gc[j]? = some GcState.allocated ∧ ¬ Reachable fixed h roots j ∧
        h.cells[j]? = some (VCell.symbol name) then none
    else h.symLookup name

theorem collect_spec (fixed : Bool) (h : Heap) (roots : List Nat)
    (hsz : h.gc.size = h.cells.size) (hnu : ∀ i : Nat, h.gc[i]? ≠ some GcState.used) :
    ∃ h1 h2, h.mark fixed roots = some h1 ∧ h1.sweep = .ok h2 ∧ CollectSpec fixed h roots h2 := by
  obtain ⟨h1, hm⟩ := mark_total fixed h roots
  have ms := mark_spec fixed h roots h1 hnu hm
  obtain ⟨h2, hs, ss⟩ := sweep_spec h1 (by rw [ms.gcsize, ms.cells]; exact hsz)
  refine ⟨h1, h2, hm, hs, ?_⟩
  -- state of a cell after marking
  have hstate : ∀ x : Nat, h1.gc[x]? = if Reachable fixed h roots x then some GcState.used else h.gc[x]? := by
    intro x
    by_cases hr : Reachable fixed h roots x
    · simp [hr, (ms.used_iff x).mpr hr]
    · simp only [hr, if_false]
      rcases ms.frame x with h3 | ⟨h3, _⟩
      · exact h3
      · exact absurd ((ms.used_iff x).mp h3) hr
  have halloc : ∀ x : Nat, h1.gc[x]? = some GcState.allocated ↔
      (h.gc[x]? = some GcState.allocated ∧ ¬ Reachable fixed h roots x) := by
    intro x
    rw [hstate x]
    by_cases hr : Reachable fixed h roots x <;> simp [hr]
  refine ⟨by rw [ss.chunk, ms.chunk], by rw [ss.gcsize, ms.gcsize], by rw [ss.csize, ms.cells], ?_, ?_, ?_,
    ?_, ?_, ?_⟩
  · intro x hr
    rw [ss.gc x, hstate x]; simp [hr, sweptState]
  · intro x hx hr
    rw [ss.gc x, hstate x]
    simp only [hr, if_false]
    have hne := hnu x
    rw [Array.getElem?_eq_getElem hx] at hne ⊢
    cases hg : h.gc[x] <;> simp_all [sweptState]
  · intro x hr
    rw [ss.cells x, hstate x, ms.cells]; simp [hr]
  · intro x hr
    rw [ss.cells x, hstate x, ms.cells]; simp [hr]
  · rw [ss.free, ms.free, ms.cells]
    congr 2
    apply List.filter_congr
    intro j _
    simp only [decide_eq_decide]
    exact halloc j
  · intro name
    rw [ss.sym name]
    have : (∃ j : Nat, h1.gc[j]? = some GcState.allocated ∧ h1.cells[j]? = some (VCell.symbol name)) ↔
        ∃ j : Nat, h.gc[j]? = some GcState.allocated ∧ ¬ Reachable fixed h roots j ∧
          h.cells[j]? = some (VCell.symbol name) := by
      constructor
      · rintro ⟨j, h3, h4⟩
        exact ⟨j, ((halloc j).mp h3).1, ((halloc j).mp h3).2, by rw [← ms.cells]; exact h4⟩
      · rintro ⟨j, h3, h4, h5⟩
        exact ⟨j, (halloc j).mpr ⟨h3, h4⟩, by rw [ms.cells]; exact h5⟩
    simp only [this, Heap.symLookup, ms.symtab]

end Marwood.Lemmas.GcSafety

namespace Marwood.Lemmas.GcSafety
open Marwood Marwood.Heap Marwood.Spec Marwood.Lemmas.GcMark Marwood.Lemmas.GcSweep
open Marwood.Lemmas.HeapOps
open Classical

/-! ## `run_gc` -/

theorem runGc_inv (fixed force : Bool) (h : Heap) (r : Roots) (res : Heap.GcResult)
    (hr : Heap.runGc fixed force h r = .ok res) :
    (res = .skipped h) ∨ (res = .fuelExhausted ∧ h.mark fixed (r.refs fixed) = none) ∨
    ∃ h1 h2 h', res = .collected h' ∧ h.mark fixed (r.refs fixed) = some h1 ∧ h1.sweep = .ok h2 ∧
      (h' = h2 ∨ h2.grow = .ok h') := by
  unfold Heap.runGc at hr
  cases hu : h.usedSize with
  | error e => simp [hu, bind, Except.bind] at hr
  | ok used =>
    simp only [hu, bind, Except.bind] at hr
    split at hr
    · left; simp [pure, Except.pure] at hr; exact hr.symm
    · cases hmk : h.mark fixed (r.refs fixed) with
      | none =>
        simp only [hmk, pure, Except.pure] at hr
        right; left; simp at hr; exact ⟨hr.symm, rfl⟩
      | some h1 =>
        simp only [hmk] at hr
        cases hsw : h1.sweep with
        | error e => simp [hsw] at hr
        | ok h2 =>
          simp only [hsw] at hr
          cases hu2 : h2.usedSize with
          | error e => simp [hu2] at hr
          | ok used2 =>
            simp only [hu2] at hr
            split at hr
            · cases hg : h2.grow with
              | error e => simp [hg] at hr
              | ok h3 =>
                simp only [hg, pure, Except.pure] at hr
                right; right
                refine ⟨h1, h2, h3, ?_, rfl, hsw, Or.inr hg⟩
                simp at hr; exact hr.symm
            · right; right
              refine ⟨h1, h2, h2, ?_, rfl, hsw, Or.inl rfl⟩
              simp [pure, Except.pure] at hr; exact hr.symm

/-- fuel is never exhausted -/
theorem runGc_never_fuel (fixed force : Bool) (h : Heap) (r : Roots) :
    Heap.runGc fixed force h r ≠ .ok .fuelExhausted := by
  intro hr
  rcases runGc_inv fixed force h r _ hr with h1 | ⟨_, h2⟩ | ⟨_, _, _, h3, _⟩
  · cases h1
  · obtain ⟨h', hm⟩ := mark_total fixed h (r.refs fixed)
    rw [hm] at h2; cases h2
  · cases h3

theorem grow_get (h h' : Heap) (hsz : h.gc.size = h.cells.size) (g : GrowSpec h h') :
    (∀ x : Nat, x < h.cells.size → h'.cells[x]? = h.cells[x]? ∧ h'.gc[x]? = h.gc[x]?) ∧
    (∀ x : Nat, h.cells.size ≤ x → x < h'.cells.size →
      h'.cells[x]? = some VCell.undefined ∧ h'.gc[x]? = some GcState.free) ∧
    h'.gc.size = h'.cells.size := by
  refine ⟨?_, ?_, ?_⟩
  · intro x hx
    rw [g.cells, g.gc]
    exact ⟨Array.getElem?_append_left hx, Array.getElem?_append_left (by omega)⟩
  · intro x h1 h2
    rw [g.cells, g.gc]
    rw [Array.getElem?_append_right h1, Array.getElem?_append_right (by omega)]
    simp [Array.getElem?_replicate]
    constructor <;> omega
  · have := g.lt
    rw [g.gc]
    simp
    omega

/-- extensional description of a whole collection including the optional growth step -/
structure GcSpec (fixed : Bool) (h : Heap) (roots : List Nat) (h' : Heap) : Prop where
  chunk : h'.chunk = h.chunk
  sizes : h'.gc.size = h'.cells.size
  size_le : h.cells.size ≤ h'.cells.size
  gc_reach : ∀ x : Nat, Reachable fixed h roots x → h'.gc[x]? = some GcState.allocated
  gc_unreach : ∀ x : Nat, x < h'.cells.size → ¬ Reachable fixed h roots x → h'.gc[x]? = some GcState.free
  cells_reach : ∀ x : Nat, Reachable fixed h roots x → h'.cells[x]? = h.cells[x]?
  sym : ∀ name, h'.symLookup name =
    if ∃ j : Nat, h.gc[j]? = some GcState.allocated ∧ ¬ Reachable fixed h roots j ∧
        h.cells[j]? = some (VCell.symbol name) then none
    else h.symLookup name

theorem runGc_spec (fixed force : Bool) (h : Heap) (r : Roots) (h' : Heap)
    (hsz : h.gc.size = h.cells.size) (hnu : ∀ i : Nat, h.gc[i]? ≠ some GcState.used) (hs : Shape h)
    (hr : Heap.runGc fixed force h r = .ok (.collected h')) :
    GcSpec fixed h (r.refs fixed) h' := by
  rcases runGc_inv fixed force h r _ hr with h1 | ⟨h1, _⟩ | ⟨h1, h2, h'', he, hm, hsw, hg⟩
  · cases h1
  · cases h1
  · cases he
    obtain ⟨k1, k2, hm', hsw', cs⟩ := collect_spec fixed h (r.refs fixed) hsz hnu
    rw [hm] at hm'; cases hm'
    rw [hsw] at hsw'; cases hsw'
    have hlt : ∀ x, Reachable fixed h (r.refs fixed) x → x < h.cells.size := by
      intro x hx; rw [← hsz]; exact reach_lt _ hx
    rcases hg with hg | hg
    · subst hg
      refine ⟨cs.chunk, by rw [cs.gcsize, cs.csize, hsz], by rw [cs.csize]; exact Nat.le_refl _, cs.gc_reach, ?_, cs.cells_reach, cs.sym⟩
      intro x hx
      exact cs.gc_unreach x (by rw [hsz, ← cs.csize]; exact hx)
    · have hs2 : Shape h2 := by
        obtain ⟨a, b, k, hk, hk2⟩ := hs
        exact ⟨by rw [cs.chunk]; exact a, by rw [cs.chunk]; exact b, k, hk, by rw [cs.csize, cs.chunk]; exact hk2⟩
      have hsz2 : h2.gc.size = h2.cells.size := by rw [cs.gcsize, cs.csize, hsz]
      obtain ⟨h3, hg3, gs, _⟩ := grow_spec h2 hsz2 hs2
      rw [hg] at hg3; cases hg3
      obtain ⟨g1, g2, g3⟩ := grow_get h2 h' hsz2 gs
      refine ⟨by rw [gs.chunk, cs.chunk], g3, by have := gs.lt; rw [cs.csize] at this; omega, ?_, ?_, ?_, ?_⟩
      · intro x hx
        rw [(g1 x (by rw [cs.csize]; exact hlt x hx)).2]; exact cs.gc_reach x hx
      · intro x hx hnr
        by_cases hx2 : x < h2.cells.size
        · rw [(g1 x hx2).2]; exact cs.gc_unreach x (by rw [hsz, ← cs.csize]; exact hx2) hnr
        · exact (g2 x (by omega) hx).2
      · intro x hx
        rw [(g1 x (by rw [cs.csize]; exact hlt x hx)).1]; exact cs.cells_reach x hx
      · intro name
        have : h'.symLookup name = h2.symLookup name := by simp [Heap.symLookup, gs.symtab]
        rw [this]; exact cs.sym name

end Marwood.Lemmas.GcSafety
