import Marwood.Lemmas.SimErase
import Marwood.Lemmas.SimAlloc
import Marwood.Lemmas.HeapWF
/-!
# Heap simulation, lemma (a): a collection is absorbed

`Sim φ s t → ∃ ψ ⊆ φ, Sim ψ (cgc s) t`: the collector (the C03 model `Heap.runGc`, run on the erasure)
keeps every cell reachable from the roots allocated and unchanged (T03.2, `runGc_spec`) and leaves a
well-formed heap (T03.3, `runGc_wf`); `φ` is restricted to the reachable addresses. No register changes
(`cgc_regs`).
-/
namespace Marwood.Lemmas.Sim
open Marwood Marwood.Vm Marwood.Vm.Concrete Marwood.Spec
open Marwood.Heap (GcState vrefs vrefsList bcRefs crefs WFHeap RootsOk Roots)
open Marwood.Lemmas.GcSafety Marwood.Lemmas.HeapWF Marwood.Lemmas.GcMark
open Classical

theorem toHeap_cells_get (h : CHeap) (i : Nat) : (toHeap h).cells[i]? = (h.cells[i]?).map eraseC := by
  simp [toHeap]

theorem toHeap_children (h : CHeap) (x : Nat) :
    (toHeap h).children true x = match h.cells[x]? with
      | some c => crefs true (eraseC c)
      | none => [] := by
  unfold Heap.Heap.children
  rw [toHeap_cells_get]
  cases h.cells[x]? <;> rfl

theorem HInv.of_wf {h : CHeap} (wf : WFHeap true (toHeap h)) : HInv h :=
  ⟨by have := wf.sizes; simpa [toHeap] using this, by have := wf.shape; simpa [toHeap] using this,
   wf.free_iff, wf.nodup, wf.no_used⟩

/-! ## restricting `φ` to a set closed under the marker's edges -/

theorem mem_refs_syms {r : Roots} {x} (h : x ∈ r.globalSyms) : x ∈ r.refs true := by
  simp [Roots.refs, h]

theorem mem_refs_slot {r : Roots} {x} (h : Heap.VCell.ptr x ∈ r.globalSlots) : x ∈ r.refs true := by
  have : x ∈ r.globalSlots.filterMap Heap.VCell.asPtr? :=
    List.mem_filterMap.mpr ⟨_, h, rfl⟩
  simp [Roots.refs, this]

theorem mem_refs_stack {r : Roots} {x} (h : x ∈ vrefsList true r.stack) : x ∈ r.refs true := by
  simp [Roots.refs, h]

theorem mem_refs_acc {r : Roots} {x} (h : x ∈ vrefs true r.acc) : x ∈ r.refs true := by
  simp [Roots.refs, h]

theorem Sim.restrict {φ : Inj} {s t : St CHeap} (h : Sim φ s t) (pl : Plain s.heap) (D : Nat → Prop)
    (hroot : ∀ x ∈ (rootsOf s).refs true, x < s.heap.cells.size → D x)
    (hstep : ∀ a c x, D a → s.heap.cells[a]? = some c → x ∈ crefs true (eraseC c) →
      x < s.heap.cells.size → D x) :
    Sim (restr φ D) s t ∧ ∀ a b, restr φ D a = some b → D a := by
  have hdom : ∀ x b, φ x = some b → x < s.heap.cells.size := fun x b hx => (h.heap.dom_lt hx).1
  have hD : ∀ a b, restr φ D a = some b → D a ∧ φ a = some b := by
    intro a b hab
    unfold restr at hab
    split at hab
    · exact ⟨by assumption, hab⟩
    · cases hab
  refine ⟨⟨⟨?_, ?_, ?_, ?_, h.heap.inv, h.heap.inv'⟩, ?_, ?_, ?_, ?_, h.ipO, h.bp⟩, fun a b hab => (hD a b hab).1⟩
  · intro a a' b h1 h2
    exact h.heap.inj a a' b (hD _ _ h1).2 (hD _ _ h2).2
  · intro a b hab
    obtain ⟨da, hab'⟩ := hD a b hab
    obtain ⟨c, c', e1, e2, r, f1, f2⟩ := h.heap.cells a b hab'
    refine ⟨c, c', e1, e2, r.restrict ?_ ?_, f1, f2⟩
    · intro v hv; subst hv; exact pl.cells a v e1
    · intro x hx b' hb'; exact hstep a c x da e1 hx (hdom x b' hb')
  · -- globals: only pointer-valued slots are roots; the others mention no address (`Plain`)
    have hg := h.heap.globals
    have hpl := pl.globals
    have hsl : ∀ x, VCell.ptr x ∈ s.heap.globals.toList → ∀ b, φ x = some b → D x := by
      intro x hx b hb
      refine hroot x (mem_refs_slot ?_) (hdom x b hb)
      simp only [rootsOf]
      exact List.mem_map.mpr ⟨_, hx, rfl⟩
    generalize s.heap.globals.toList = l at hg hpl hsl
    generalize t.heap.globals.toList = l' at hg
    induction hg with
    | nil => exact .nil
    | cons h1 _ ih =>
      refine .cons ?_ (ih (fun v hv => hpl v (List.mem_cons_of_mem _ hv))
        (fun x hx => hsl x (List.mem_cons_of_mem _ hx)))
      have hp := hpl _ (List.mem_cons_self ..)
      cases h1 with
      | ptr h1 => exact .ptr (h1.restrict (fun b hb => hsl _ (List.mem_cons_self ..) b hb))
      | atom h1 => exact .atom h1
      | pair _ _ => simp [plainGlob, isPtr, addrFree] at hp
      | closure _ _ => simp [plainGlob, isPtr, addrFree] at hp
      | lexEnvPtr _ => simp [plainGlob, isPtr, addrFree] at hp
      | envPtr _ => simp [plainGlob, isPtr, addrFree] at hp
      | instrPtr _ => simp [plainGlob, isPtr, addrFree] at hp
  · have hg := h.heap.globSyms
    have hsy : ∀ x ∈ s.heap.globSyms, ∀ b, φ x = some b → D x := by
      intro x hx b hb
      exact hroot x (mem_refs_syms (by simpa [rootsOf] using hx)) (hdom x b hb)
    generalize s.heap.globSyms = l at hg hsy
    generalize t.heap.globSyms = l' at hg
    induction hg with
    | nil => exact .nil
    | cons h1 _ ih =>
      exact .cons (h1.restrict (hsy _ (List.mem_cons_self ..)))
        (ih (fun x hx => hsy x (List.mem_cons_of_mem _ hx)))
  · refine StackRelK.restrict h.stack ?_
    intro x hx b hb
    exact hroot x (mem_refs_stack (by simpa [rootsOf] using hx)) (hdom x b hb)
  · refine h.acc.restrict ?_
    intro x hx b hb
    exact hroot x (mem_refs_acc (by simpa [rootsOf] using hx)) (hdom x b hb)
  · refine h.ep.restrict ?_
    intro b hb
    exact hroot _ (by simp [Roots.refs, rootsOf]) (hdom _ b hb)
  · refine h.ipL.restrict ?_
    intro b hb
    exact hroot _ (by simp [Roots.refs, rootsOf]) (hdom _ b hb)

/-- replace the left heap by one that agrees on the domain of `φ` -/
theorem Sim.transfer_left {φ : Inj} {s t : St CHeap} (h : Sim φ s t) (hp : CHeap)
    (hcells : ∀ a b, φ a = some b → hp.cells[a]? = s.heap.cells[a]? ∧ a ∉ hp.free)
    (hg : hp.globals = s.heap.globals) (hs : hp.globSyms = s.heap.globSyms) (inv : HInv hp) :
    Sim φ { s with heap := hp } t := by
  refine ⟨⟨h.heap.inj, ?_, by rw [hg]; exact h.heap.globals, by rw [hs]; exact h.heap.globSyms, inv, h.heap.inv'⟩,
    h.stack, h.acc, h.ep, h.ipL, h.ipO, h.bp⟩
  intro a b hab
  obtain ⟨c, c', e1, e2, r, _, f2⟩ := h.heap.cells a b hab
  obtain ⟨k1, k2⟩ := hcells a b hab
  exact ⟨c, c', by show hp.cells[a]? = some c; rw [k1]; exact e1, e2, r, k2, f2⟩

/-! ## the collection -/

/-- **lemma (a)**: a collection on the left is absorbed. Hypotheses on the state being collected: its
    erasure is a well-formed heap with allocated roots (T03.3's invariant), the kind discipline `Plain`,
    and the collected heap is below the sentinel size. -/
theorem cgc_sim (force : Bool) {φ : Inj} {s t : St CHeap} (h : Sim φ s t) (pl : Plain s.heap)
    (wf : WFHeap true (toHeap s.heap)) (hr : RootsOk (toHeap s.heap) ((rootsOf s).refs true))
    (hb : SizeOk (cgc force s).heap) :
    ∃ ψ, ψ.le φ ∧ Sim ψ (cgc force s) t := by
  unfold cgc at hb ⊢
  cases hrun : Heap.Heap.runGc true force (toHeap s.heap) (rootsOf s) with
  | error e => exact ⟨φ, φ.le_refl, by simpa [hrun] using h⟩
  | ok res =>
    cases res with
    | skipped _ => exact ⟨φ, φ.le_refl, by simpa [hrun] using h⟩
    | fuelExhausted => exact ⟨φ, φ.le_refl, by simpa [hrun] using h⟩
    | collected h' =>
      simp only [hrun] at hb ⊢
      have hb' : h'.cells.size ≤ 2 ^ 63 := by simpa [SizeOk, liftGc] using hb
      have wf' := runGc_wf true force _ _ h' wf hr hb' hrun
      have gs := runGc_spec true force _ _ h' wf.sizes wf.no_used wf.shape hrun
      let D : Nat → Prop := Reachable true (toHeap s.heap) ((rootsOf s).refs true)
      have hsize : (toHeap s.heap).gc.size = s.heap.cells.size := by
        rw [wf.sizes]; simp [toHeap]
      obtain ⟨hsim, hdom⟩ := h.restrict pl D
        (fun x hx hl => Reach.root hx (by rw [hsize]; exact hl))
        (fun a c x da e hx hl => Reach.step da (by rw [toHeap_children, e]; exact hx) (by rw [hsize]; exact hl))
      refine ⟨restr φ D, restr_le φ D, ?_⟩
      refine hsim.transfer_left (liftGc s.heap h') ?_ rfl rfl ?_
      · intro a b hab
        have da : D a := hdom a b hab
        have hga := gs.gc_reach a da
        have hlt : a < s.heap.cells.size := by rw [← hsize]; exact reach_lt _ da
        have hlt' : a < h'.cells.size := by
          have := gs.size_le; simp [toHeap] at this; omega
        constructor
        · simp only [liftGc]
          rw [Array.getElem?_ofFn]
          simp [hlt', hga, hlt]
        · intro hm
          have := (wf'.free_iff a).mp (by simpa [liftGc] using hm)
          rw [hga] at this; cases this
      · refine ⟨?_, ?_, ?_, ?_, ?_⟩
        · simp [liftGc, wf'.sizes]
        · have hc : h'.chunk = s.heap.chunk := gs.chunk
          have := wf'.shape
          rw [hc] at this
          simpa [liftGc] using this
        · simpa [liftGc] using wf'.free_iff
        · simpa [liftGc] using wf'.nodup
        · simpa [liftGc] using wf'.no_used

end Marwood.Lemmas.Sim
