import Marwood.Lemmas.CompileCorrect3Defs
/-!
# T01.3 stage 3 — inversion of `Spec.Eval` on rest parameters and internal definitions
-/
namespace Marwood.Lemmas.CompileCorrect3
open Marwood Marwood.Lemmas.CompileCorrect Marwood.Lemmas.CompileCorrect2
open Marwood.Spec.Eval
variable {r : Rec}

/-! ## lists in the store -/

/-- `ListIn` is monotone when the store keeps its cells -/
theorem ListIn.mono {S S' : Array Cell} (hS : ∀ (l : Nat) (c : Cell), S[l]? = some c → S'[l]? = some c) :
    ∀ {v : Val} {xs : List Val}, ListIn S v xs → ListIn S' v xs := by
  intro v xs h
  induction h with
  | nil => exact .nil
  | cons h1 _ ih => exact .cons (hS _ _ h1) ih

/-- a store that grows keeping the old cells keeps its lists -/
theorem ListIn.mono_of_lt {S S' : Array Cell} (hS : ∀ l, l < S.size → S'[l]? = S[l]?)
    {v : Val} {xs : List Val} (h : ListIn S v xs) : ListIn S' v xs := by
  refine ListIn.mono (fun l c hc => ?_) h
  have hlt : l < S.size := by
    by_cases hl : l < S.size
    · exact hl
    · rw [Array.getElem?_eq_none (by omega)] at hc; cases hc
  rw [hS l hlt]; exact hc

/-- `allocList`: one pair cell per element (the last element's cell first) -/
theorem allocList_inv : ∀ (xs : List Val) (σ σ' : SSt) (v : Val), allocList xs σ = .ok v σ' →
    σ'.globals = σ.globals ∧ σ'.out = σ.out ∧ σ'.store.size = σ.store.size + xs.length ∧
    (∀ l, l < σ.store.size → σ'.store[l]? = σ.store[l]?) ∧ ListIn σ'.store v xs := by
  intro xs
  induction xs with
  | nil =>
    intro σ σ' v h
    simp only [allocList] at h
    obtain ⟨rfl, rfl⟩ := pure_ok_inv h
    exact ⟨rfl, rfl, rfl, fun _ _ => rfl, .nil⟩
  | cons a as ih =>
    intro σ σ' v h
    simp only [allocList] at h
    obtain ⟨t, σ0, h1, h2⟩ := bind_ok_inv h
    unfold Marwood.Spec.Eval.cons at h2
    obtain ⟨l, σ2, h3, h4⟩ := bind_ok_inv h2
    unfold allocCell at h3
    injection h3 with hl hσ
    subst hl hσ
    obtain ⟨rfl, rfl⟩ := pure_ok_inv h4
    obtain ⟨e1, e2, e3, e4, e5⟩ := ih σ σ0 t h1
    refine ⟨e1, e2, by simp [Array.size_push, e3]; omega, ?_, ?_⟩
    · intro l hl
      show (σ0.store.push _)[l]? = _
      rw [← e4 l hl]
      simp [Array.getElem?_push, Nat.ne_of_lt (show l < σ0.store.size by omega)]
    · refine .cons (l := σ0.store.size) (a := a) (d := t) (by simp) ?_
      exact ListIn.mono_of_lt (fun l hl => by simp [Array.getElem?_push, Nat.ne_of_lt hl]) e5

/-! ## binding the parameters -/

/-- `bindArgs` with an optional rest parameter -/
theorem bindArgs3_inv : ∀ (ps : List Text) (rest : Option Text) (args : List Val) (ρ ρ' : Env) (σ σ1 : SSt),
    (ps ++ rest.toList).Nodup → bindArgs ps rest args ρ σ = .ok ρ' σ1 →
    ps.length ≤ args.length ∧ (rest = none → args.length = ps.length) ∧
    σ1.globals = σ.globals ∧ σ1.out = σ.out ∧
    σ1.store.size = σ.store.size + args.length + (if rest.isSome then 1 else 0) ∧
    (∀ l, l < σ.store.size → σ1.store[l]? = σ.store[l]?) ∧
    (∀ i a, i < ps.length → args[i]? = some a → σ1.store[σ.store.size + i]? = some (.var a)) ∧
    (∀ i x, ps[i]? = some x → ρ'.lookup x = some (σ.store.size + i)) ∧
    (∀ rn, rest = some rn → ∃ lv, ρ'.lookup rn = some (σ.store.size + args.length) ∧
        σ1.store[σ.store.size + args.length]? = some (.var lv) ∧ ListIn σ1.store lv (args.drop ps.length)) ∧
    (∀ x, x ∉ ps ++ rest.toList → ρ'.lookup x = ρ.lookup x) := by
  intro ps
  induction ps with
  | nil =>
    intro rest args ρ ρ' σ σ1 _ h
    cases rest with
    | none =>
      cases args with
      | nil =>
        simp only [bindArgs] at h
        obtain ⟨rfl, rfl⟩ := pure_ok_inv h
        exact ⟨Nat.le_refl _, fun _ => rfl, rfl, rfl, rfl, fun _ _ => rfl, by intro i a hi; simp at hi,
          by intro i x hi; simp at hi, (fun rn hrn => nomatch hrn), fun _ _ => rfl⟩
      | cons a as => simp only [bindArgs] at h; exact absurd h throw_ne_ok
    | some rn =>
      simp only [bindArgs] at h
      obtain ⟨lst, σ0, h1, h2⟩ := bind_ok_inv h
      obtain ⟨l, σ2, h3, h4⟩ := bind_ok_inv h2
      unfold allocCell at h3
      injection h3 with hl hσ
      subst hl hσ
      obtain ⟨rfl, rfl⟩ := pure_ok_inv h4
      obtain ⟨e1, e2, e3, e4, e5⟩ := allocList_inv args σ σ0 lst h1
      refine ⟨Nat.zero_le _, (fun hc => nomatch hc), e1, e2, by simp [Array.size_push, e3], ?_, ?_, ?_, ?_, ?_⟩
      · intro l hl
        show (σ0.store.push _)[l]? = _
        rw [← e4 l hl]
        simp [Array.getElem?_push, Nat.ne_of_lt (show l < σ0.store.size by omega)]
      · intro i a hi; simp at hi
      · intro i x hi; simp at hi
      · intro rn' hrn
        cases hrn
        refine ⟨lst, by simp [List.lookup, e3], ?_, ?_⟩
        · show (σ0.store.push _)[σ.store.size + args.length]? = _
          rw [← e3]; simp
        · simp only [List.length_nil, List.drop_zero]
          exact ListIn.mono_of_lt (fun l hl => by simp [Array.getElem?_push, Nat.ne_of_lt hl]) e5
      · intro x hx
        have hx1 : x ≠ rn := by simpa using hx
        have : (x == rn) = false := by simpa using hx1
        simp [List.lookup, this]
  | cons p ps ih =>
    intro rest args ρ ρ' σ σ1 hnd h
    cases args with
    | nil => simp only [bindArgs] at h; exact absurd h throw_ne_ok
    | cons a as =>
      simp only [bindArgs] at h
      obtain ⟨l, σ0, h1, h2⟩ := bind_ok_inv h
      unfold allocCell at h1
      injection h1 with hl hσ
      subst hl hσ
      rw [List.cons_append] at hnd
      have hnd' : (ps ++ rest.toList).Nodup := (List.nodup_cons.mp hnd).2
      have hp : p ∉ ps ++ rest.toList := (List.nodup_cons.mp hnd).1
      obtain ⟨e1, e2, e3, e4, e5, e6, e7, e8, e9, e10⟩ := ih rest as _ ρ' _ σ1 hnd' h2
      simp only [Array.size_push] at e5 e6 e7 e8 e9
      refine ⟨by simp; omega, by intro hr; simp [e2 hr], e3, e4, by simp [e5]; omega, ?_, ?_, ?_, ?_, ?_⟩
      · intro l hl
        rw [e6 l (by omega)]
        simp [Array.getElem?_push, Nat.ne_of_lt hl]
      · intro i v hlt hi
        cases i with
        | zero =>
          simp at hi; subst hi
          rw [Nat.add_zero, e6 σ.store.size (by omega)]
          simp
        | succ j =>
          simp at hi hlt
          have := e7 j v hlt hi
          rwa [show σ.store.size + 1 + j = σ.store.size + (j + 1) by omega] at this
      · intro i x hi
        cases i with
        | zero =>
          simp at hi; subst hi
          rw [Nat.add_zero, e10 p hp]
          simp [List.lookup]
        | succ j =>
          simp at hi
          have := e8 j x hi
          rwa [show σ.store.size + 1 + j = σ.store.size + (j + 1) by omega] at this
      · intro rn hrn
        obtain ⟨lv, g1, g2, g3⟩ := e9 rn hrn
        refine ⟨lv, ?_, ?_, ?_⟩
        · rw [g1]; simp; omega
        · rw [show σ.store.size + (a :: as).length = σ.store.size + 1 + as.length by simp; omega]; exact g2
        · simpa using g3
      · intro x hx
        rw [List.cons_append] at hx
        have hx1 : x ≠ p := fun e => hx (e ▸ List.mem_cons_self)
        have hx2 : x ∉ ps ++ rest.toList := fun e => hx (List.mem_cons_of_mem _ e)
        rw [e10 x hx2]
        have : (x == p) = false := by simpa using hx1
        simp [List.lookup, this]

/-- the variables of the internal definitions: one fresh `#<undefined>` cell per name, in order -/
theorem allocVars_undef_inv : ∀ (ints : List Text) (ρ ρ' : Env) (σ σ1 : SSt), ints.Nodup →
    allocVars (ints.map fun x => (x, Val.undef)) ρ σ = .ok ρ' σ1 →
    σ1.globals = σ.globals ∧ σ1.out = σ.out ∧ σ1.store.size = σ.store.size + ints.length ∧
    (∀ l, l < σ.store.size → σ1.store[l]? = σ.store[l]?) ∧
    (∀ i, i < ints.length → σ1.store[σ.store.size + i]? = some (.var .undef)) ∧
    (∀ i x, ints[i]? = some x → ρ'.lookup x = some (σ.store.size + i)) ∧
    (∀ x, x ∉ ints → ρ'.lookup x = ρ.lookup x) := by
  intro ints
  induction ints with
  | nil =>
    intro ρ ρ' σ σ1 _ h
    simp only [List.map_nil, allocVars] at h
    obtain ⟨rfl, rfl⟩ := pure_ok_inv h
    exact ⟨rfl, rfl, rfl, fun _ _ => rfl, by intro i hi; simp at hi, by intro i x hi; simp at hi, fun _ _ => rfl⟩
  | cons p ps ih =>
    intro ρ ρ' σ σ1 hnd h
    simp only [List.map_cons, allocVars] at h
    obtain ⟨l, σ0, h1, h2⟩ := bind_ok_inv h
    unfold allocCell at h1
    injection h1 with hl hσ
    subst hl hσ
    have hnd' : ps.Nodup := (List.nodup_cons.mp hnd).2
    have hp : p ∉ ps := (List.nodup_cons.mp hnd).1
    obtain ⟨e2, e3, e4, e5, e6, e7, e8⟩ := ih _ ρ' _ σ1 hnd' h2
    simp only [Array.size_push] at e4 e5 e6 e7
    refine ⟨e2, e3, by simp [e4]; omega, ?_, ?_, ?_, ?_⟩
    · intro l hl
      rw [e5 l (by omega)]
      simp [Array.getElem?_push, Nat.ne_of_lt hl]
    · intro i hi
      cases i with
      | zero =>
        rw [Nat.add_zero, e5 σ.store.size (by omega)]
        simp
      | succ j =>
        simp at hi
        have := e6 j hi
        rwa [show σ.store.size + 1 + j = σ.store.size + (j + 1) by omega] at this
    · intro i x hi
      cases i with
      | zero =>
        simp at hi; subst hi
        rw [Nat.add_zero, e8 p hp]
        simp [List.lookup]
      | succ j =>
        simp at hi
        have := e7 j x hi
        rwa [show σ.store.size + 1 + j = σ.store.size + (j + 1) by omega] at this
    · intro x hx
      have hx1 : x ≠ p := fun e => hx (e ▸ List.mem_cons_self)
      have hx2 : x ∉ ps := fun e => hx (List.mem_cons_of_mem _ e)
      rw [e8 x hx2]
      have : (x == p) = false := by simpa using hx1
      simp [List.lookup, this]

/-! ## bodies with internal definitions -/

/-- a body: the variables of its leading definitions, then its forms -/
theorem evalBody_inv {ρ : Env} {body : List Datum} {σ σ' : SSt} {w : Val} (h : evalBody r ρ body σ = .ok w σ') :
    ∃ ρ' σ1, allocVars ((leadingDefs body).map fun x => (x, Val.undef)) ρ σ = .ok ρ' σ1 ∧
      evalBodyForms r ρ' true body σ1 = .ok w σ' := by
  unfold evalBody at h
  obtain ⟨ρ', σ1, h1, h2⟩ := bind_ok_inv h
  exact ⟨ρ', σ1, h1, h2⟩

theorem isDefine_defForm (x : Text) (e : Datum) : isDefine (defForm x e) = true := by
  simp [isDefine, defForm]

theorem definedName_defForm (x : Text) (e : Datum) : definedName (defForm x e) = some x := by
  simp [definedName, defForm]

/-- a leading `(define x e)` with `x` lexically bound: evaluate, overwrite the variable's cell, go on -/
theorem evalBodyForms_def_inv {ρ : Env} {x : Text} {e e' : Datum} {es : List Datum} {σ σ' : SSt} {w : Val} {l : Nat}
    (hl : ρ.lookup x = some l)
    (h : evalBodyForms r ρ true (defForm x e :: e' :: es) σ = .ok w σ') :
    ∃ v σ1, r.eval e ρ σ = .ok v σ1 ∧ l < σ1.store.size ∧
      evalBodyForms r ρ true (e' :: es) { σ1 with store := σ1.store.setIfInBounds l (.var v) } = .ok w σ' := by
  simp only [evalBodyForms, isDefine_defForm, Bool.and_self, if_true] at h
  obtain ⟨⟨x', v⟩, σ1, h1, h2⟩ := bind_ok_inv h
  simp only [defineValue, defForm] at h1
  split at h1
  · exact absurd h1 throw_ne_ok
  · obtain ⟨v0, σ0, h3, h4⟩ := bind_ok_inv h1
    obtain ⟨hxv, rfl⟩ := pure_ok_inv h4
    injection hxv with hx hv
    subst hx hv
    change (assignVar ρ x' v >>= fun _ => evalBodyForms r ρ true (e' :: es)) σ1 = _ at h2
    obtain ⟨u, σ2, h5, h6⟩ := bind_ok_inv h2
    simp only [assignVar, hl] at h5
    unfold writeCell at h5
    by_cases hlt : l < σ1.store.size
    · simp only [hlt, if_true] at h5
      injection h5 with _ h7
      subst h7
      exact ⟨v, σ1, h3, hlt, h6⟩
    · simp only [hlt, if_false] at h5
      cases h5

/-- the names `F3B` lists are the leading definitions of the body, and the body is not empty -/
theorem isDefine_curForm (x : Text) (f b : Datum) : isDefine (curForm x f b) = true := by
  simp [isDefine, curForm]

theorem definedName_curForm (x : Text) (f b : Datum) : definedName (curForm x f b) = some x := by
  simp [definedName, curForm]

/-- a leading `(define (x . formals) body …)` with `x` lexically bound: the closure, the variable's cell, go on -/
theorem evalBodyForms_cur_inv {ρ : Env} {x : Text} {formals lbody e' : Datum} {es : List Datum} {σ σ' : SSt} {w : Val}
    {l : Nat} (hl : ρ.lookup x = some l)
    (h : evalBodyForms r ρ true (curForm x formals lbody :: e' :: es) σ = .ok w σ') :
    ∃ ps rst b bs, Spec.Eval.parseFormals formals = some (ps, rst) ∧ properList lbody = some (b :: bs) ∧
      l < σ.store.size ∧
      evalBodyForms r ρ true (e' :: es)
        { σ with store := σ.store.setIfInBounds l (.var (.closure ps rst (b :: bs) ρ)) } = .ok w σ' := by
  simp only [evalBodyForms, isDefine_curForm, Bool.and_self, if_true] at h
  obtain ⟨⟨x', v⟩, σ1, h1, h2⟩ := bind_ok_inv h
  simp only [defineValue, curForm] at h1
  split at h1
  · exact absurd h1 throw_ne_ok
  · obtain ⟨v0, σ0, h3, h4⟩ := bind_ok_inv h1
    obtain ⟨hxv, rfl⟩ := pure_ok_inv h4
    injection hxv with hx hv
    subst hx hv
    cases hpf : Spec.Eval.parseFormals formals with
    | none => simp only [Spec.Eval.makeClosure, hpf] at h3; exact absurd h3 throw_ne_ok
    | some pr =>
    obtain ⟨ps, rst⟩ := pr
    cases hpb : properList lbody with
    | none => simp only [Spec.Eval.makeClosure, hpf, hpb] at h3; exact absurd h3 throw_ne_ok
    | some bl =>
    cases bl with
    | nil => simp only [Spec.Eval.makeClosure, hpf, hpb] at h3; exact absurd h3 throw_ne_ok
    | cons b bs =>
      simp only [Spec.Eval.makeClosure, hpf, hpb] at h3
      obtain ⟨rfl, rfl⟩ := pure_ok_inv h3
      change (assignVar ρ x' _ >>= fun _ => evalBodyForms r ρ true (e' :: es)) σ1 = _ at h2
      obtain ⟨u, σ2, h5, h6⟩ := bind_ok_inv h2
      simp only [assignVar, hl] at h5
      unfold writeCell at h5
      by_cases hlt : l < σ1.store.size
      · simp only [hlt, if_true] at h5
        injection h5 with _ h7
        subst h7
        exact ⟨ps, rst, b, bs, rfl, rfl, hlt, h6⟩
      · simp only [hlt, if_false] at h5
        cases h5

theorem F3B_body_def {d y rest : Datum} {x : Text} {ints' : List Text} {body : List Datum}
    (hd1 : isDefine d = true) (hd2 : definedName d = some x)
    (hp : properList (.pair d (.pair y rest)) = some body)
    (ih : ∀ q, properList (.pair y rest) = some q → leadingDefs q = ints' ∧ q ≠ []) :
    leadingDefs body = x :: ints' ∧ body ≠ [] := by
  have hp2 : properList (.pair d (.pair y rest)) =
      (properList (.pair y rest)).map (d :: ·) := by rw [properList]
  rw [hp2] at hp
  cases hq : properList (.pair y rest) with
  | none => rw [hq] at hp; cases hp
  | some q =>
    rw [hq] at hp
    simp only [Option.map] at hp
    injection hp with hp
    subst hp
    refine ⟨?_, by simp⟩
    simp only [leadingDefs, hd1, hd2, if_true]
    rw [(ih _ hq).1]

mutual
theorem F3B_body_aux {G : Text → Prop} : ∀ {f : Nat} {c : Marwood.Vm.Ctx} {ns us : Text → Prop}
    {ints : List Text} {bodyD : Datum}, F3B G f c ns us ints bodyD → ∀ body, properList bodyD = some body →
    leadingDefs body = ints ∧ body ≠ []
  | _, _, _, _, _, _, .last x hx _, body, hp => by
    simp [properList] at hp
    subst hp
    simp [leadingDefs, hx]
  | _, _, _, _, _, _, .cons x y rest hx _ _, body, hp => by
    simp only [properList] at hp
    cases hq : properList rest with
    | none => simp [hq] at hp
    | some q =>
      simp [hq] at hp
      subst hp
      simp [leadingDefs, hx]
  | _, _, _, _, _, _, .defv x e y rest ints' _ _ _ _ hB, body, hp =>
    F3B_body_def (isDefine_defForm _ _) (definedName_defForm _ _) hp (fun q hq => F3B_body_aux hB q hq)
  | _, _, _, _, _, _, .block Bs ints bodyD _ hK, body, hp => F3K_body_aux hK body hp
theorem F3K_body_aux {G : Text → Prop} : ∀ {f : Nat} {c : Marwood.Vm.Ctx} {ns us : Text → Prop} {Bs todo : List Text}
    {ints : List Text} {bodyD : Datum}, F3K G f c ns us Bs todo ints bodyD → ∀ body, properList bodyD = some body →
    leadingDefs body = ints ∧ body ≠ []
  | _, _, _, _, _, _, _, _, .defl x formals lbody y rest ints' _ _ _ _ hK, body, hp =>
    F3B_body_def (isDefine_defForm _ _) (definedName_defForm _ _) hp (fun q hq => F3K_body_aux hK q hq)
  | _, _, _, _, _, _, _, _, .defc x formals lbody y rest ints' p ps rst lints caps _ _ _ _ _ _ _ _ _ _ _ hK, body, hp =>
    F3B_body_def (isDefine_curForm _ _ _) (definedName_curForm _ _ _) hp (fun q hq => F3K_body_aux hK q hq)
  | _, _, _, _, _, _, _, _, .done ints bodyD hB, body, hp => F3B_body_aux hB body hp
end

theorem leadingDefs_of_F3B {G : Text → Prop} : ∀ {f : Nat} {c : Marwood.Vm.Ctx} {ns us : Text → Prop} {ints : List Text} {bodyD : Datum}
    {body : List Datum}, F3B G f c ns us ints bodyD → properList bodyD = some body → leadingDefs body = ints :=
  fun h hp => (F3B_body_aux h _ hp).1

theorem F3B_nonempty {G : Text → Prop} : ∀ {f : Nat} {c : Marwood.Vm.Ctx} {ns us : Text → Prop} {ints : List Text} {bodyD : Datum}
    {body : List Datum}, F3B G f c ns us ints bodyD → properList bodyD = some body → body ≠ [] :=
  fun h hp => (F3B_body_aux h _ hp).2

/-- application of a closure (any formals): bind, then the body -/
theorem applyStep_closure_inv3 {ps : List Text} {rest : Option Text} {body : List Datum} {ρc : Env} {args : List Val}
    {σ σ' : SSt} {w : Val} (h : applyStep r (.closure ps rest body ρc) args σ = .ok w σ') :
    ∃ ρ' σ1, bindArgs ps rest args ρc σ = .ok ρ' σ1 ∧ evalBody r ρ' body σ1 = .ok w σ' := by
  simp only [applyStep] at h
  obtain ⟨ρ', σ1, h1, h2⟩ := bind_ok_inv h
  exact ⟨ρ', σ1, h1, h2⟩

end Marwood.Lemmas.CompileCorrect3
