import Marwood.Lemmas.EnvFitStack
/-!
# The slot clause of T06.6 as an invariant (4b): the builtins reached from CALL / TCALL, invoking a continuation

`runBuiltin_fv` (`apply`, `call/cc`, `eval`, generic builtins, and the tail of `runBuiltin` storing the result with
`maybe_put`), `invokeCont_fv`. Mirrors `Lemmas/ProcInvStepC.lean` with `PairsOk` in place of the stack predicate `SM`
and `FStep` / `HF.step` in place of `OpRes`. The stack kit (`FB.SA`: header cells refer to allocated cells; `FB.Blk`: an
argument block holds values) is used again by the TCALL copy loops in `Lemmas/EnvFitStepB2.lean`.
-/
namespace Marwood.Lemmas.Good
open Marwood Marwood.Vm Marwood.Vm.Verify Marwood.Vm.Concrete Marwood.Lemmas.Sim
open Marwood.Heap (GcState vrefs crefs)
open StepC

namespace FB

/-! ## generic facts -/

/-- lambda cells are not on the free list (a free cell is `Undefined`) -/
theorem lf_of_hg {h : CHeap} (g : HG h) : LF h := by
  intro l lam hc hm
  have hnf := alloc_of_ne_undef g hc (by intro hh; cases hh)
  have : (toHeap h).gc[l]? = some GcState.free := (g.wf.free_iff l).mp hm
  rcases hnf with x | x <;> (rw [this] at x; cases x)

theorem lamKeep_of_ls {h h' : CHeap} (ls : LamSame h h') : LamKeep h h' := by
  intro l lam hl; rw [ls l]; exact hl

theorem small_bound {h : CHeap} (sm : Small h) : h.cells.size ≤ 2 ^ 63 := by
  unfold Small at sm; omega

theorem get_inv {st : Stack} {i : Nat} {v : VCell} (h : st.get i = .ok v) : st.cells[i]? = some v := by
  unfold Stack.get at h
  split at h
  · rename_i w hw; cases h; exact hw
  · cases h

/-- away from the new top, a push keeps the cells (or pads with `Undefined`) -/
theorem push_get' {st : Stack} {v w : VCell} {i : Nat} (hi : i ≠ st.sp + 1) (h : (st.push v).cells[i]? = some w) :
    st.cells[i]? = some w ∨ w = .undefined := by
  unfold Stack.push at h
  split at h
  · simp only at h
    rw [List.getElem?_set_ne (by omega)] at h
    exact .inl h
  · simp only at h
    rw [List.getElem?_set_ne (by omega), List.getElem?_append] at h
    split at h
    · exact .inl h
    · right
      rw [List.getElem?_replicate] at h
      split at h
      · cases h; rfl
      · cases h

theorem set_inv {st st' : Stack} {k : Nat} {v : VCell} (hs : st.set k v = .ok st') :
    st'.sp = st.sp ∧ ∀ i w, st'.cells[i]? = some w → (i = k ∧ w = v) ∨ (i ≠ k ∧ st.cells[i]? = some w) := by
  unfold Stack.set at hs
  split at hs
  · cases hs
    refine ⟨rfl, ?_⟩
    intro i w hw
    simp only at hw
    by_cases hik : i = k
    · subst hik
      rw [List.getElem?_set_self (by assumption)] at hw
      cases hw; exact .inl ⟨rfl, rfl⟩
    · rw [List.getElem?_set_ne (by omega)] at hw
      exact .inr ⟨hik, hw⟩
  · cases hs

theorem setOffset_inv {st st' : Stack} {off : Int} {v : VCell} (hs : st.setOffset off v = .ok st') :
    ∃ k, st.set k v = .ok st' := by
  unfold Stack.setOffset at hs
  simp only at hs
  split at hs
  · exact ⟨_, hs⟩
  · cases hs

/-! ## header cells refer to allocated cells -/

def HdrNF (h : CHeap) (v : VCell) : Prop := (∀ e, v = .envPtr e → NF h e) ∧ (∀ l o, v = .instrPtr l o → NF h l)

theorem HdrNF.of_nhdr {h : CHeap} {v : VCell} (x : NHdr v) : HdrNF h v :=
  ⟨fun e he => absurd he (x.1 e), fun l o he => absurd he (x.2 l o)⟩

theorem HdrNF.undef (h : CHeap) : HdrNF h .undefined :=
  ⟨fun _ he => (by cases he), fun _ _ he => (by cases he)⟩

theorem HdrNF.of_refs {h : CHeap} {v : VCell} (x : VRefsOk h v) : HdrNF h v :=
  ⟨fun e he => by subst he; exact nf_envPtr x, fun l o he => by subst he; exact nf_instrPtr x⟩

theorem HdrNF.mono {h h' : CHeap} (m : Mono h h') {v : VCell} (x : HdrNF h v) : HdrNF h' v :=
  ⟨fun e he => (x.1 e he).mono m, fun l o he => (x.2 l o he).mono m⟩

theorem nhdr_argc (n : Nat) : NHdr (.argc n) := ⟨fun _ hh => (by cases hh), fun _ _ hh => (by cases hh)⟩

theorem nhdr_ptr (p : Nat) : NHdr (.ptr p) := ⟨fun _ hh => (by cases hh), fun _ _ hh => (by cases hh)⟩

/-- the header cells at or below `B`, and at or below `sp`, refer to allocated cells -/
def SA (h : CHeap) (st : Stack) (B : Nat) : Prop :=
  ∀ (i : Nat) (v : VCell), (i ≤ B ∨ i ≤ st.sp) → st.cells[i]? = some v → HdrNF h v

theorem SA.of_good {s : St CHeap} (g : GoodI s) : SA s.heap s.stack s.stack.sp := by
  intro i v hi hv
  exact .of_refs (roots_stack g.roots (by omega) hv)

theorem SA.heap {h h' : CHeap} {st : Stack} {B : Nat} (x : SA h st B) (m : Mono h h') : SA h' st B :=
  fun i v hi hv => (x i v hi hv).mono m

theorem SA.resp {h : CHeap} {st st' : Stack} {B : Nat} (x : SA h st B) (hc : st'.cells = st.cells)
    (hsp : st'.sp ≤ B ∨ st'.sp ≤ st.sp) : SA h st' B := by
  intro i v hi hv
  rw [hc] at hv
  refine x i v ?_ hv
  rcases hi with hi | hi
  · exact .inl hi
  · rcases hsp with h1 | h1
    · exact .inl (by omega)
    · exact .inr (by omega)

theorem SA.push {h : CHeap} {st : Stack} {B : Nat} (x : SA h st B) {v : VCell} (hv : HdrNF h v) : SA h (st.push v) B := by
  intro i w hi hw
  by_cases hi1 : i = st.sp + 1
  · subst hi1
    rw [push_top] at hw
    cases hw; exact hv
  · rcases push_get' hi1 hw with hw' | hw'
    · refine x i w ?_ hw'
      rcases hi with hi | hi
      · exact .inl hi
      · rw [push_sp] at hi; exact .inr (by omega)
    · subst hw'; exact .undef h

theorem SA.set {h : CHeap} {st st' : Stack} {B : Nat} (x : SA h st B) {v : VCell} (hv : HdrNF h v) {k : Nat}
    (hs : st.set k v = .ok st') : SA h st' B := by
  obtain ⟨e, hc⟩ := set_inv hs
  intro i w hi hw
  rcases hc i w hw with ⟨_, rfl⟩ | ⟨_, hw'⟩
  · exact hv
  · exact x i w (by rw [e] at hi; exact hi) hw'

theorem SA.pop {h : CHeap} {st st' : Stack} {B : Nat} (x : SA h st B) {v : VCell} (hp : st.pop = .ok (v, st')) :
    SA h st' B := by
  obtain ⟨_, _, p3, p4⟩ := pop_inv hp
  exact x.resp p4 (.inr (by omega))

theorem SA.popN {h : CHeap} {st st' : Stack} {B : Nat} (x : SA h st B) {n : Nat} {vs : List VCell}
    (hp : popN n st = .ok (vs, st')) : SA h st' B := by
  obtain ⟨q1, q2, _⟩ := popN_inv n hp
  exact x.resp q1 (.inr (by omega))

theorem SA.nfe {h : CHeap} {st : Stack} {B : Nat} (x : SA h st B) :
    ∀ i e, i ≤ st.sp → st.cells[i]? = some (.envPtr e) → NF h e :=
  fun i e hi hv => (x i _ (.inr hi) hv).1 e rfl

theorem SA.nfl {h : CHeap} {st : Stack} {B : Nat} (x : SA h st B) :
    ∀ i l o, i ≤ st.sp → st.cells[i]? = some (.instrPtr l o) → NF h l :=
  fun i l o hi hv => (x i _ (.inr hi) hv).2 l o rfl

/-! ## an argument block holds values -/

/-- the `n` cells below `S` hold values -/
def Blk (st : Stack) (S n : Nat) : Prop :=
  ∀ i v, i < S → S ≤ i + n → st.cells[i]? = some v → plainGlob v = true

theorem Blk.set {st st' : Stack} {S n : Nat} (x : Blk st S n) {v : VCell} (hv : plainGlob v = true) {k : Nat}
    (hs : st.set k v = .ok st') : Blk st' S n := by
  obtain ⟨_, hc⟩ := set_inv hs
  intro i w h1 h2 hw
  rcases hc i w hw with ⟨_, rfl⟩ | ⟨_, hw'⟩
  · exact hv
  · exact x i w h1 h2 hw'

theorem Blk.push {st : Stack} {S n : Nat} (x : Blk st S n) {v : VCell} (hv : plainGlob v = true) :
    Blk (st.push v) S n := by
  intro i w h1 h2 hw
  by_cases hi1 : i = st.sp + 1
  · subst hi1
    rw [push_top] at hw
    cases hw; exact hv
  · rcases push_get' hi1 hw with hw' | hw'
    · exact x i w h1 h2 hw'
    · subst hw'; rfl

theorem Blk.resp {st st' : Stack} {S n : Nat} (x : Blk st S n) (hc : st'.cells = st.cells) : Blk st' S n := by
  intro i w h1 h2 hw; rw [hc] at hw; exact x i w h1 h2 hw

end FB

open FB

/-! ## invoking a continuation -/

/-- invoking a continuation object found through `acc` -/
theorem invokeCont_fv {s s' : St CHeap} {c : Cont} (g : GoodI s) (f : FInv s)
    (hc : callee s.heap s.acc = .continuation c) (hnp : ¬ InPre s.heap c.ipL c.ipO)
    (h : invokeCont s c = .ok s') : FInv s' := by
  obtain ⟨q, _, hcell⟩ := callee_cont_cell hc
  have hcf : ContF s.heap c := f.hf q _ hcell
  have hlen := g.hg.plain.conts q c hcell
  unfold invokeCont at h
  obtain ⟨⟨a, st1⟩, h1, h⟩ := bind_ok h
  obtain ⟨n, h2, h⟩ := bind_ok h
  simp only at h
  split at h
  · cases h
  · obtain ⟨⟨r, st2⟩, h3, h⟩ := bind_ok h
    obtain ⟨s2, h4, h⟩ := bind_ok h
    cases h
    unfold restoreCont at h4
    obtain ⟨st3, h5, h4⟩ := bind_ok h4
    cases h4
    unfold Stack.restore at h5
    split at h5
    · cases h5
      refine ⟨f.hf, ?_, ?_, ?_⟩
      · refine hcf.1.congr ?_
        intro i hi
        simp only
        rw [List.getElem?_append_left (by omega)]
      · intro hp; exact absurd hp hnp
      · intro _; exact hcf.2
    · cases h5

/-! ## the two loops of `apply` -/

/-- the shift loop of `apply` moves cells of the argument block around -/
theorem applyShift_fv {h : CHeap} {B S n : Nat} :
    ∀ (k : Nat) (st st' : Stack), builtinApply.shift k st = .ok st' → PairsOk h st.cells B → SA h st B → Blk st S n →
      st.sp + 2 = S → k + 1 ≤ n → PairsOk h st'.cells B ∧ SA h st' B ∧ st'.sp = st.sp := by
  intro k
  induction k with
  | zero =>
    intro st st' hs x y _ _ _
    simp only [builtinApply.shift] at hs
    cases hs
    exact ⟨x, y, rfl⟩
  | succ k ih =>
    intro st st' hs x y z hS hk
    simp only [builtinApply.shift] at hs
    obtain ⟨v, hv, hs⟩ := bind_ok hs
    obtain ⟨st1, hs1, hs⟩ := bind_ok hs
    obtain ⟨r1, r2⟩ := getOffset_inv hv
    have hpg : plainGlob v = true := z _ v (by omega) (by omega) r2
    obtain ⟨k', hk'⟩ := setOffset_inv hs1
    obtain ⟨x1, e1, _⟩ := x.setOffset (NHdr.of_plainGlob hpg) hs1
    have y1 := y.set (.of_nhdr (NHdr.of_plainGlob hpg)) hk'
    have z1 := z.set hpg hk'
    obtain ⟨a, b, c⟩ := ih st1 st' hs x1 y1 z1 (by omega) (by omega)
    exact ⟨a, b, by omega⟩

/-- the push loop of `apply` pushes pointers -/
theorem applyPushList_fv {ext : ExtOps} {s : St CHeap} {h : CHeap} {B : Nat} :
    ∀ (fuel : Nat) (rest : VCell) (n : Nat) (st : Stack) (n' : Nat) (st' : Stack),
      builtinApply.pushList (concreteOps ext) s fuel rest n st = .ok (n', st') →
      PairsOk h st.cells st.sp → SA h st B → PairsOk h st'.cells st'.sp ∧ SA h st' B := by
  intro fuel
  induction fuel with
  | zero => intro rest n st n' st' hh; simp only [builtinApply.pushList] at hh; cases hh
  | succ fuel ih =>
    intro rest n st n' st' hh x y
    simp only [builtinApply.pushList] at hh
    split at hh
    · rename_i car cdr
      exact ih _ _ _ _ _ hh (x.push (nhdr_ptr car).2) (y.push (.of_nhdr (nhdr_ptr car)))
    · cases hh
      exact ⟨x, y⟩
    · cases hh

/-! ## the builtins -/

/-- what each of the four builtin kinds delivers to the tail of `runBuiltin` -/
structure BResF (s s2 : St CHeap) (v : VCell) : Prop where
  hg : HG s2.heap
  hf : HF s2.heap
  fk : FitKeep s.heap s2.heap
  lk : LamKeep s.heap s2.heap
  mono : Mono s.heap s2.heap
  stk : PairsOk s2.heap s2.stack.cells s2.stack.sp
  sa : SA s2.heap s2.stack s2.stack.sp
  ep : s2.ep = s.ep
  ipL : s2.ipL = s.ipL
  ipO : s2.ipO = s.ipO ∨ s2.ipO + 1 = s.ipO
  clo : ∀ l e, v = .closure l e → Fit s2.heap e l
  vr : VRefsOk s2.heap v
  pv : plainVal v = true

/-- the stack facts are established in the heap before the builtin -/
theorem BResF.build {s s2 : St CHeap} {v : VCell} {B : Nat} (hg : HG s2.heap) (hf : HF s2.heap)
    (fk : FitKeep s.heap s2.heap) (lk : LamKeep s.heap s2.heap) (mono : Mono s.heap s2.heap)
    (stk : PairsOk s.heap s2.stack.cells s2.stack.sp) (sa : SA s.heap s2.stack B)
    (ep : s2.ep = s.ep) (ipL : s2.ipL = s.ipL) (ipO : s2.ipO = s.ipO ∨ s2.ipO + 1 = s.ipO)
    (clo : ∀ l e, v = .closure l e → Fit s2.heap e l) (vr : VRefsOk s2.heap v) (pv : plainVal v = true) :
    BResF s s2 v :=
  ⟨hg, hf, fk, lk, mono, stk.keep' fk sa.nfe sa.nfl, fun i w hi hw => (sa i w (.inr (by omega)) hw).mono mono,
    ep, ipL, ipO, clo, vr, pv⟩

theorem not_closure_of_plainGlobB {v : VCell} (hp : plainGlob v = true) : ∀ l e, v ≠ .closure l e := by
  intro l e he; subst he; simp [plainGlob, isPtr, addrFree] at hp

section
variable {ext : ExtOps} {s s2 : St CHeap} {v : VCell}

theorem builtinApply_fv (g : GoodI s) (hblk : ArgBlock s.stack s.stack.sp) (f : FInv s)
    (h : builtinApply (concreteOps ext) s = .ok (s2, v)) : BResF s s2 v := by
  unfold builtinApply at h
  obtain ⟨⟨a, st1⟩, h1, h⟩ := bind_ok h
  obtain ⟨argc, h2, h⟩ := bind_ok h
  obtain ⟨hge, h⟩ := ite_err_ok h
  obtain ⟨⟨top, st2⟩, h3, h⟩ := bind_ok h
  obtain ⟨_, h⟩ := ite_err_ok h
  obtain ⟨proc, h4, h⟩ := bind_ok h
  obtain ⟨st3, h5, h⟩ := bind_ok h
  obtain ⟨⟨x0, st4⟩, h6, h⟩ := bind_ok h
  obtain ⟨⟨n, st5⟩, h7, h⟩ := bind_ok h
  obtain ⟨ipO, hip, h⟩ := bind_ok h
  cases h
  obtain ⟨p1, p2, p3, p4⟩ := pop_inv h1
  obtain ⟨q1, q2, q3, q4⟩ := pop_inv h3
  cases a <;> simp only [asArgc] at h2 <;> cases h2
  have sa0 : SA s.heap s.stack s.stack.sp := .of_good g
  have sa2 : SA s.heap st2 s.stack.sp := (sa0.pop h1).pop h3
  have pk2 : PairsOk s.heap st2.cells st2.sp := (f.stk.pop h1).pop h3
  have blk2 : Blk st2 s.stack.sp argc := by
    intro i w i1 i2 hw
    rw [q4, p4] at hw
    exact hblk argc p2 i w i1 i2 hw
  -- the procedure
  have e : -((argc : Int) - 2) = -(((argc - 2 : Nat)) : Int) := by omega
  rw [e] at h4
  obtain ⟨r1, r2⟩ := getOffset_inv h4
  rw [q4, p4] at r2
  have hi : st2.sp - (argc - 2) < s.stack.sp := by omega
  have hpg : plainGlob v = true := hblk argc p2 _ _ hi (by omega) r2
  have hvr : VRefsOk s.heap v := roots_stack g.roots (by omega) r2
  -- the loops
  obtain ⟨pk3, sa3, e3⟩ := applyShift_fv (h := s.heap) (B := st2.sp) (S := s.stack.sp) (n := argc) _ _ _ h5 pk2
    (fun i w hi hw => sa2 i w (by omega) hw) blk2 (by omega) (by omega)
  have pk4 : PairsOk s.heap st4.cells st4.sp := by
    obtain ⟨_, _, t3, t4⟩ := pop_inv h6
    rw [t4]; exact pk3.mono (by omega)
  have sa4 := sa3.pop h6
  obtain ⟨pk5, sa5⟩ := applyPushList_fv (ext := ext) (s := s) _ _ _ _ _ _ h7 pk4 sa4
  have pk6 := pk5.push (v := .argc n) (nhdr_argc n).2
  have sa6 := sa5.push (v := .argc n) (.of_nhdr (nhdr_argc n))
  obtain ⟨u1, u2⟩ := usub_inv hip
  exact BResF.build (s := s) g.hg f.hf (fun _ _ _ _ x => x) (fun _ _ x => x) (.refl _) pk6 sa6 rfl rfl
    (.inr (by show ipO + 1 = s.ipO; omega)) (fun l e he => absurd he (not_closure_of_plainGlobB hpg l e)) hvr
    (plainGlob_plainVal hpg)

theorem builtinCallcc_fv (g : GoodI s) (hblk : ArgBlock s.stack s.stack.sp) (f : FInv s)
    (hfit : Fit s.heap s.ep s.ipL) (h : builtinCallcc (concreteOps ext) s = .ok (s2, v)) (sm : Small s2.heap) :
    BResF s s2 v := by
  unfold builtinCallcc at h
  obtain ⟨⟨a, st1⟩, h1, h⟩ := bind_ok h
  obtain ⟨argc, h2, h⟩ := bind_ok h
  obtain ⟨hge, h⟩ := ite_err_ok h
  obtain ⟨⟨proc, st2⟩, h3, h⟩ := bind_ok h
  obtain ⟨_, h⟩ := ite_err_ok h
  obtain ⟨cst, h4, h⟩ := bind_ok h
  simp only [concreteOps] at h
  obtain ⟨ipO, hip, h⟩ := bind_ok h
  cases h
  obtain ⟨p1, p2, p3, p4⟩ := pop_inv h1
  obtain ⟨q1, q2, q3, q4⟩ := pop_inv h3
  cases a <;> simp only [asArgc] at h2 <;> cases h2
  have hargc : argc = 1 := by omega
  subst hargc
  have sa2 : SA s.heap st2 s.stack.sp := ((SA.of_good g).pop h1).pop h3
  have pk2 : PairsOk s.heap st2.cells st2.sp := (f.stk.pop h1).pop h3
  rw [p3, p4] at q2
  have hpg : plainGlob v = true := hblk 1 p2 _ _ (by omega) (by omega) q2
  have hvr : VRefsOk s.heap v := roots_stack g.roots (by omega) q2
  obtain ⟨u1, u2⟩ := usub_inv hip
  unfold Stack.capture at h4
  split at h4
  · rename_i hlen
    cases h4
    have hcells : ∀ w ∈ (st2.cells.take (st2.sp + 1)), VRefsOk s.heap w := by
      intro w hw
      obtain ⟨i, hi⟩ := List.mem_iff_getElem?.mp hw
      rw [List.getElem?_take] at hi
      split at hi
      · rw [q4, p4] at hi
        exact roots_stack g.roots (by omega) hi
      · cases hi
    have r := newCont_hg g.hg (k := ⟨⟨st2.cells.take (st2.sp + 1), st2.sp⟩, s.ep, s.ipL, s.ipO, s.bp⟩)
      hcells (roots_ipL g.roots) (roots_ep g.roots)
      (by simp only [List.length_take]; omega) sm
    have x := newCont_fstep (lf_of_hg g.hg) ⟨⟨st2.cells.take (st2.sp + 1), st2.sp⟩, s.ep, s.ipL, s.ipO, s.bp⟩
    generalize hk : (⟨⟨st2.cells.take (st2.sp + 1), st2.sp⟩, s.ep, s.ipL, s.ipO, s.bp⟩ : Cont) = k at r x sm ⊢
    have b' : (cput s.heap (.cont k)).1.cells.size ≤ 2 ^ 63 := small_bound sm
    have fk := x.fitKeep g.hg b'
    -- the continuation object's clause
    have pkc : PairsOk s.heap k.stack.cells k.stack.sp := by
      subst hk
      refine pk2.congr ?_
      intro i hi
      simp only at hi ⊢
      rw [List.getElem?_take, if_pos (by omega)]
    have hcf : ContF (cput s.heap (.cont k)).1 k := by
      refine ⟨pkc.keep' fk ?_ ?_, ?_⟩
      · intro i e hi hv
        subst hk
        simp only at hi hv
        rw [List.getElem?_take, if_pos (by omega)] at hv
        exact sa2.nfe i e hi hv
      · intro i l o hi hv
        subst hk
        simp only at hi hv
        rw [List.getElem?_take, if_pos (by omega)] at hv
        exact sa2.nfl i l o hi hv
      · subst hk
        exact fk _ _ (roots_ep g.roots) (roots_ipL g.roots) hfit
    have hf' : HF (cput s.heap (.cont k)).1 :=
      HF.step g.hg b' f.hf x (fun i c _ hc => by subst hc; exact hcf)
    have pk3 := (pk2.push (v := .ptr (cput s.heap (.cont k)).2) (nhdr_ptr _).2).push (v := .argc 1) (nhdr_argc 1).2
    have sa3 := (sa2.push (v := .ptr (cput s.heap (.cont k)).2) (.of_nhdr (nhdr_ptr _))).push (v := .argc 1)
      (.of_nhdr (nhdr_argc 1))
    exact BResF.build (s := s) r.1 hf' fk (lamKeep_of_ls x.ls) r.2.1 pk3 sa3 rfl rfl
      (.inr (by show ipO + 1 = s.ipO; omega)) (fun l e he => absurd he (not_closure_of_plainGlobB hpg l e))
      (hvr.mono r.2.1) (plainGlob_plainVal hpg)
  · cases h4

theorem builtinEvalProc_fv (eg : ExtGood ext) (ef : ExtFit ext) (g : GoodI s) (hblk : ArgBlock s.stack s.stack.sp)
    (f : FInv s) (h : builtinEvalProc (concreteOps ext) s = .ok (s2, v)) (sm : Small s2.heap) : BResF s s2 v := by
  unfold builtinEvalProc at h
  obtain ⟨⟨a, st1⟩, h1, h⟩ := bind_ok h
  obtain ⟨argc, h2, h⟩ := bind_ok h
  obtain ⟨hge, h⟩ := ite_err_ok h
  obtain ⟨⟨e, st2⟩, h3, h⟩ := bind_ok h
  obtain ⟨⟨h', lam⟩, h4, h⟩ := bind_ok h
  obtain ⟨ipO, hip, h⟩ := bind_ok h
  cases h
  obtain ⟨p1, p2, p3, p4⟩ := pop_inv h1
  obtain ⟨q1, q2, q3, q4⟩ := pop_inv h3
  cases a <;> simp only [asArgc] at h2 <;> cases h2
  have hargc : argc = 1 := by omega
  subst hargc
  have sa2 : SA s.heap st2 s.stack.sp := ((SA.of_good g).pop h1).pop h3
  have pk2 : PairsOk s.heap st2.cells st2.sp := (f.stk.pop h1).pop h3
  rw [p3, p4] at q2
  have hpg : plainGlob e = true := hblk 1 p2 _ _ (by omega) (by omega) q2
  have hvr : VRefsOk s.heap e := roots_stack g.roots (by omega) q2
  have hd := (deref_ok g.hg hvr (plainGlob_plainVal hpg)).1
  obtain ⟨u1, u2⟩ := usub_inv hip
  simp only [concreteOps] at h4
  obtain ⟨r1, r2, r3, r4⟩ := eg.compile _ _ _ _ g.hg hd h4 sm
  obtain ⟨t1, t2, t3, t4⟩ := ef.compile _ _ _ _ g.hg r1 f.hf (lf_of_hg g.hg) hd h4
  have pk3 := pk2.push (v := .argc 0) (nhdr_argc 0).2
  have sa3 := sa2.push (v := .argc 0) (.of_nhdr (nhdr_argc 0))
  exact BResF.build (s := s) r1 t1 t2 t3 r2 pk3 sa3 rfl rfl (.inr (by show ipO + 1 = s.ipO; omega)) t4 r4 r3

theorem builtinGeneric_fv {id : Nat} (eg : ExtGood ext) (ef : ExtFit ext) (g : GoodI s)
    (hblk : ArgBlock s.stack s.stack.sp) (f : FInv s)
    (h : builtinGeneric (concreteOps ext) id s = .ok (s2, v)) (sm : Small s2.heap) : BResF s s2 v := by
  unfold builtinGeneric at h
  obtain ⟨⟨a, st1⟩, h1, h⟩ := bind_ok h
  obtain ⟨argc, h2, h⟩ := bind_ok h
  obtain ⟨⟨args, st2⟩, h3, h⟩ := bind_ok h
  obtain ⟨⟨h', w⟩, h4, h⟩ := bind_ok h
  cases h
  obtain ⟨p1, p2, p3, p4⟩ := pop_inv h1
  obtain ⟨q1, q2, q3⟩ := popN_inv argc h3
  cases a <;> simp only [asArgc] at h2 <;> cases h2
  have sa2 : SA s.heap st2 s.stack.sp := ((SA.of_good g).pop h1).popN h3
  have pk2 : PairsOk s.heap st2.cells st2.sp := (f.stk.pop h1).popN h3
  have hargs : ∀ x ∈ args, VOk s.heap x := by
    intro x hx
    obtain ⟨i, i1, i2, i3⟩ := q3 x hx
    rw [p4] at i3
    exact ⟨hblk argc p2 i x (by omega) (by omega) i3, roots_stack g.roots (by omega) i3⟩
  simp only [concreteOps] at h4
  obtain ⟨r1, r2, r3, r4⟩ := eg.eval _ _ _ _ _ g.hg hargs h4 sm
  obtain ⟨t1, t2, t3, t4⟩ := ef.eval _ _ _ _ _ g.hg r1 f.hf (lf_of_hg g.hg) hargs h4
  exact BResF.build (s := s) r1 t1 t2 t3 r2 pk2 sa2 rfl rfl (.inl rfl) t4 r4 r3

/-- from the result of a builtin kind to `FInv` of a state that differs by a modelled heap change -/
theorem BResF.finish {N : CCell → Prop} {s s2 s' : St CHeap} {v : VCell} (g : GoodI s) (r : BResF s s2 v)
    (x : FStep N s2.heap s'.heap) (b' : s'.heap.cells.size ≤ 2 ^ 63)
    (hN : ∀ (i : Nat) (c : CCell), s'.heap.cells[i]? = some c → N c → CellF s'.heap c)
    (hst : s'.stack = s2.stack) (hep : s'.ep = s2.ep) (hl : s'.ipL = s2.ipL) (ho : s'.ipO = s2.ipO)
    (hfit : Fit s.heap s.ep s.ipL) (hlam : ∃ lam, lambdaAt s.heap s.ipL = some lam)
    (h1 : 1 ≤ s.ipO → ¬ InPre s.heap s.ipL (s.ipO - 1)) (h2 : ¬ InPre s.heap s.ipL s.ipO) : FInv s' := by
  have fk2 := x.fitKeep r.hg b'
  refine ⟨HF.step r.hg b' r.hf x hN, ?_, ?_, ?_⟩
  · rw [hst]; exact r.stk.keep' fk2 r.sa.nfe r.sa.nfl
  · intro hp
    exfalso
    rw [hl, r.ipL, ho, InPre.ls x.ls] at hp
    obtain ⟨lam, hlam⟩ := hlam
    have hp' := InPre.lamKeep r.lk hlam hp
    rcases r.ipO with e | e
    · rw [e] at hp'; exact h2 hp'
    · have e' : s2.ipO = s.ipO - 1 := by omega
      rw [e'] at hp'; exact h1 (by omega) hp'
  · intro _
    rw [hep, hl, r.ep, r.ipL]
    exact fk2 _ _ ((roots_ep g.roots).mono r.mono) ((roots_ipL g.roots).mono r.mono)
      (r.fk _ _ (roots_ep g.roots) (roots_ipL g.roots) hfit)

/-- **a builtin reached from CALL / TCALL** (`s` is the state after the opcode has been read: `s.ipO - 1` is the
    offset of CALL / TCALL, where `apply`, `call/cc` and `eval` go back to) -/
theorem runBuiltin_fv {id : Nat} {s s' : St CHeap} (eg : ExtGood ext) (ef : ExtFit ext) (g : GoodI s)
    (hblk : ArgBlock s.stack s.stack.sp) (sm' : Small s'.heap) (f : FInv s)
    (hfit : Fit s.heap s.ep s.ipL) (hlam : ∃ lam, lambdaAt s.heap s.ipL = some lam)
    (h1 : 1 ≤ s.ipO → ¬ InPre s.heap s.ipL (s.ipO - 1)) (h2 : ¬ InPre s.heap s.ipL s.ipO)
    (hr : runBuiltin (concreteOps ext) id s = .ok s') : FInv s' := by
  rw [StepC.runBuiltin_eq] at hr
  obtain ⟨⟨s2, v⟩, hb, hr⟩ := bind_ok hr
  have key : Small s2.heap → BResF s s2 v := by
    intro sm2
    cases hk : (concreteOps ext).builtinKind s.heap id <;> rw [hk] at hb <;> simp only at hb
    · exact builtinApply_fv g hblk f hb
    · exact builtinEvalProc_fv eg ef g hblk f hb sm2
    · exact builtinCallcc_fv g hblk f hfit hb sm2
    · exact builtinGeneric_fv eg ef g hblk f hb sm2
  unfold StepC.builtinTail at hr
  simp only at hr
  by_cases hp : ∃ q, v = .ptr q
  · obtain ⟨q, rfl⟩ := hp
    simp only at hr
    cases hr
    have r := key sm'
    exact r.finish (N := fun _ => False) (s' := { s2 with acc := .ptr q }) g (.refl (lf_of_hg r.hg)) (small_bound sm')
      (fun _ _ _ hh => hh.elim) rfl rfl rfl rfl hfit hlam h1 h2
  · have e : s' = { s2 with heap := (maybePutV s2.heap v).1, acc := (maybePutV s2.heap v).2 } := by
      cases v <;> first | (exact absurd ⟨_, rfl⟩ hp) | (simp only [concreteOps] at hr; cases hr; rfl)
    subst e
    have r := key (sm'.of_le (maybePutV_size _ _))
    have x := maybePutV_fstep (lf_of_hg r.hg) v
    have b' : (maybePutV s2.heap v).1.cells.size ≤ 2 ^ 63 := small_bound sm'
    refine r.finish (s' := { s2 with heap := (maybePutV s2.heap v).1, acc := (maybePutV s2.heap v).2 }) g x b' ?_
      rfl rfl rfl rfl hfit hlam h1 h2
    intro i c _ hc
    subst hc
    intro l e he
    subst he
    exact x.fitKeep r.hg b' e l (r.vr e (by simp [eraseV, vrefs])) (r.vr l (by simp [eraseV, vrefs])) (r.clo l e rfl)

end

end Marwood.Lemmas.Good
