import Marwood.Lemmas.ContResumeRun
/-!
# `BpLive` is a theorem: a `BasePointerOffset` source operand of verified code reads a live cell

The bytecode verifier (`Vm/Verify.lean`, `bpSrcOk` in `checkAt`) accepts a `BasePointerOffset(off)` in
the cell after a reachable opcode — the *source* operand of MOV / PUSH, `load_operand` run.rs:402-407 —
only in procedure code and with `off ≤ 0`. In a WF-stack state (`WFS`) the current frame of procedure
code outside its prologue is complete: its header `bp+1 ..= bp+4` lies below `sp`. So the cell read,
`stack[bp + off]`, is at or below `bp`: an argument cell of the current frame (`compile.rs` emits
`bp - argc + i + 1` for argument `i`; that `-off < argc` is compared with `args.len()` of every real
lambda by the `bytecode-verifier` stream, `Verify.argNeed`) or a cell of a caller's frame — in every case
a **live** cell (`≤ sp`), never a stale one above `sp`.

* `WFS.bp_src` — the general statement (any heap, under `CodeLaws`), in terms of the verified typing;
* `bpLive_of_wfs` — the side condition `Marwood.Vm.BpLive` of `Lemmas/ContResumeStep.lean`
  (`step_stack`, `step_live_congruence`, C05) discharged from `WFS`;
* the formulation of `Lemmas/SimStepA.lean` (`Marwood.Lemmas.Sim.BpLive`, about the concrete heap, with
  `ip.1` already at the operand) is `Lemmas/ConcreteLawsBpLive.lean: simBpLive_of_wfs`, from the same
  `WFS.bp_src`, for the concrete instance of `CodeLaws`.
-/
namespace Marwood.Vm
open Verify Stack

variable {H : Type} {ops : HeapOps H}

theorem flowsTo_isSome {x : List ACell} {s : Option AState} (h : flowsTo x s = true) : ∃ st, s = some st := by
  cases s with
  | none => simp [flowsTo] at h
  | some st => exact ⟨st, rfl⟩

/-- what the verifier has checked at an offset it assigns a state to -/
theorem typed_offset {t : LamTy} (hc : checkAll t.bc t.tm t.entry = true) {o : Nat} {st : AState}
    (hst : stateAt t.tm o = some st) (ho : o < t.bc.length) :
    ∃ op, t.bc[o]? = some (.opcode op) ∧ bpSrcOk t.entry t.bc[o + 1]? = true ∧
      checkOp t.bc t.tm t.entry o st op = true := by
  have := checkAll_at hc ho
  unfold checkAt at this
  rw [hst] at this
  simp only at this
  split at this
  · rename_i op hop
    simp only [Bool.and_eq_true] at this
    exact ⟨op, hop, this.1, this.2⟩
  · cases this

/-- the cell after a prologue instruction (VARARG, ENTER) is an opcode -/
theorem after_pre_is_opcode {t : LamTy} (hc : checkAll t.bc t.tm t.entry = true) {o : Nat}
    (hst : stateAt t.tm o = some .pre) (ho : o + 1 < t.bc.length) : ∃ op, t.bc[o + 1]? = some (.opcode op) := by
  obtain ⟨op, _, _, hck⟩ := typed_offset hc hst (by omega)
  have hnext : ∃ st', stateAt t.tm (o + 1) = some st' := by
    cases op <;> simp only [checkOp, Bool.and_eq_true, decide_eq_true_eq] at hck <;>
      first | exact absurd hck Bool.false_ne_true | skip
    · exact flowsTo_isSome hck.2
    · exact ⟨_, hck.2⟩
  obtain ⟨st', hst'⟩ := hnext
  obtain ⟨op', hop', _⟩ := typed_offset hc hst' ho
  exact ⟨op', hop'⟩

/-- **A bp-relative source operand of the current instruction, in a WF-stack state.** If the cell after
    the current instruction's opcode is `BasePointerOffset(off)`, then the code is procedure code, the
    current frame is complete (`argc n` at `bp+1`, header below `sp`), and `off ≤ 0`: the cell
    `stack[bp + off]` that `load_operand` reads is at or below the frame base `bp`, hence below `sp`. -/
theorem WFS.bp_src {cl : CodeLaws ops} {s : St H} {K : List FDesc} (hw : WFS cl s K) {t : LamTy}
    (ht : tyOf (cl.code s.heap) s.ipL = some t) {off : Int}
    (hb : t.bc[s.ipO + 1]? = some (.bpOffset off)) :
    t.entry = false ∧ off ≤ 0 ∧ s.bp + 4 ≤ s.stack.sp ∧
      ∃ n, s.stack.cellAt (s.bp + 1) = .argc n ∧ n ≤ s.bp := by
  obtain ⟨t', st, ht', hst⟩ := hw.wf.frames.has_ty
  have e : t' = t := by rw [ht] at ht'; exact (Option.some.inj ht').symm
  subst e
  have hchk := (tyOf_spec ht).2
  have ho : s.ipO + 1 < t'.bc.length := by
    by_cases h : s.ipO + 1 < t'.bc.length
    · exact h
    · rw [List.getElem?_eq_none (by omega)] at hb; cases hb
  obtain ⟨op, _, hsrc, _⟩ := typed_offset hchk hst (by omega)
  rw [hb] at hsrc
  simp only [bpSrcOk, Bool.and_eq_true, Bool.not_eq_true', decide_eq_true_eq] at hsrc
  obtain ⟨hent, hoff⟩ := hsrc
  have hne : st ≠ .pre := by
    intro hp
    subst hp
    obtain ⟨op', hop'⟩ := after_pre_is_opcode hchk hst ho
    rw [hb] at hop'; cases hop'
  obtain ⟨n, ep', l', o', bp', K', hm, hA, _, _, _, hn, _, _⟩ := hw.wf.frames.inv_frame ht hent hst hne
  exact ⟨hent, hoff, hm.lo_le, n, hA, hn⟩

/-- **`BpLive` from WF-stack** (the side condition of `step_stack` / `step_live_congruence`,
    `Lemmas/ContResumeStep.lean`): in a WF-stack state of verified code, a `BasePointerOffset` source
    operand of the current instruction designates a cell at or below `sp`. -/
theorem bpLive_of_wfs {cl : CodeLaws ops} {s : St H} {K : List FDesc} (hw : WFS cl s K) : BpLive ops s := by
  intro off hf
  obtain ⟨t, st, ht, _⟩ := hw.wf.frames.has_ty
  rw [cl.fetch_code hw.inv (tyOf_spec ht).1] at hf
  obtain ⟨_, h2, h3, _⟩ := hw.bp_src ht hf
  omega

/-- the same with `ip.1` already advanced to the operand (the form in which `load_operand` meets it) -/
theorem bpLive_operand_of_wfs {cl : CodeLaws ops} {s : St H} {K : List FDesc} (hw : WFS cl s K) {off : Int}
    (hf : ops.fetch s.heap s.ipL (s.ipO + 1) = some (.bpOffset off)) :
    off ≤ 0 ∧ (s.bp : Int) + off ≤ s.bp ∧ s.bp + 4 ≤ s.stack.sp := by
  obtain ⟨t, st, ht, _⟩ := hw.wf.frames.has_ty
  rw [cl.fetch_code hw.inv (tyOf_spec ht).1] at hf
  obtain ⟨_, h2, h3, _⟩ := hw.bp_src ht hf
  exact ⟨h2, by omega, h3⟩

/-! ## `step_live_congruence` and the run-level congruence without the `BpLive` side condition -/

/-- `step` is a function of (live stack, registers, heap) — `step_live_congruence` with `BpLive`
    discharged by WF-stack -/
theorem step_live_congruence_wf {cl : CodeLaws ops} (ll : LiveLaws cl) {s1 s2 r1 : St H} {K : List FDesc}
    {bl : Bool} (hw : WFS cl s1 K) (heq : LiveEq s1 s2) (hcap2 : s2.stack.sp < s2.stack.cells.length)
    (hfit : ∀ c, ops.callee s1.heap s1.acc = .continuation c → c.stack.cells.length ≤ s2.stack.cells.length)
    (hs : step ops s1 = .ok (r1, bl)) :
    ∃ r2, step ops s2 = .ok (r2, bl) ∧ LiveEq r1 r2 ∧ r2.stack.sp < r2.stack.cells.length :=
  step_live_congruence ll hw heq hcap2 (bpLive_of_wfs hw) hfit hs

/-- what is left of `SideOK` (`Lemmas/ContResumeRun.lean`) once `BpLive` is a theorem: along the two runs
    in lock step, an invoked continuation's stack copy fits the capacity of the second machine's stack
    (the real stack never shrinks) -/
def FitOK (ops : HeapOps H) : Nat → St H → St H → Prop
  | 0, _, _ => True
  | n + 1, s1, s2 =>
    (∀ c, ops.callee s1.heap s1.acc = .continuation c → c.stack.cells.length ≤ s2.stack.cells.length) ∧
    ∀ r1 r2, step ops s1 = .ok (r1, false) → step ops s2 = .ok (r2, false) → FitOK ops n r1 r2

theorem sideOK_of_fitOK {cl : CodeLaws ops} : ∀ (n : Nat) {s1 s2 : St H} {K : List FDesc},
    WFS cl s1 K → FitOK ops n s1 s2 → SideOK ops n s1 s2 := by
  intro n
  induction n with
  | zero => intro _ _ _ _ _; trivial
  | succ n ih =>
    intro s1 s2 K hw hf
    refine ⟨bpLive_of_wfs hw, hf.1, ?_⟩
    intro r1 r2 h1 h2
    obtain ⟨K', hw', _⟩ := step_preserves hw h1
    exact ih hw' (hf.2 r1 r2 h1 h2)

theorem runN_live_congruence_wf {cl : CodeLaws ops} (ll : LiveLaws cl) (n : Nat) {s1 s2 r1 : St H}
    {K : List FDesc} {bl : Bool} (hw : WFS cl s1 K) (heq : LiveEq s1 s2)
    (hcap2 : s2.stack.sp < s2.stack.cells.length) (hfit : FitOK ops n s1 s2)
    (hr : runN ops n s1 = .ok (r1, bl)) : ∃ r2, runN ops n s2 = .ok (r2, bl) ∧ LiveEq r1 r2 :=
  runN_live_congruence ll n hw heq hcap2 (sideOK_of_fitOK n hw hfit) hr

end Marwood.Vm
