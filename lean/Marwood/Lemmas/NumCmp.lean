import Mathlib.Tactic.FieldSimp
import Marwood.Lemmas.NumArith
import Marwood.Num.Cmp
/-!
# The comparison model computes the order of the values (ℚ ∪ {±∞})
-/
namespace Marwood.Cmp
open Marwood Marwood.Arith Marwood.NumSpec

/-- three-way comparison in the extended rationals -/
def cmpExt (x y : Ext) : Ordering := if Ext.lt x y then .lt else if x = y then .eq else .gt

/-! ## the order on `Ext` is a strict total order -/

theorem Ext.lt_irrefl (x : Ext) : Ext.lt x x = false := by
  cases x <;> simp [Ext.lt]

theorem Ext.lt_trans {x y z : Ext} (h1 : Ext.lt x y = true) (h2 : Ext.lt y z = true) :
    Ext.lt x z = true := by
  cases x <;> cases y <;> cases z <;> simp_all [Ext.lt]
  exact _root_.lt_trans h1 h2

theorem Ext.lt_asymm {x y : Ext} (h : Ext.lt x y = true) : Ext.lt y x = false := by
  cases x <;> cases y <;> simp_all [Ext.lt]
  exact le_of_lt h

theorem Ext.trichotomy (x y : Ext) : Ext.lt x y = true ∨ x = y ∨ Ext.lt y x = true := by
  cases x <;> cases y <;> simp [Ext.lt]
  exact lt_trichotomy _ _

theorem cmpExt_lt {x y : Ext} : cmpExt x y = .lt ↔ Ext.lt x y = true := by
  unfold cmpExt; split <;> [simp_all; (split <;> simp_all)]

theorem cmpExt_eq {x y : Ext} : cmpExt x y = .eq ↔ x = y := by
  unfold cmpExt
  cases hb : Ext.lt x y
  · by_cases he : x = y <;> simp [he]
  · constructor
    · intro h'; simp at h'
    · intro he; subst he; rw [Ext.lt_irrefl] at hb; cases hb

theorem cmpExt_gt {x y : Ext} : cmpExt x y = .gt ↔ Ext.lt y x = true := by
  unfold cmpExt
  cases hb : Ext.lt x y
  · by_cases he : x = y
    · subst he; simp [Ext.lt_irrefl]
    · rcases Ext.trichotomy x y with h1 | h1 | h1
      · rw [hb] at h1; cases h1
      · exact absurd h1 he
      · simp [he, h1]
  · constructor
    · intro h'; simp at h'
    · intro h2; rw [Ext.lt_asymm hb] at h2; cases h2

theorem cmpExt_fin (a b : Rat) : cmpExt (.fin a) (.fin b) = Fl.cmpRat a b := by
  unfold cmpExt Fl.cmpRat
  by_cases h : a < b
  · simp [Ext.lt, h]
  · by_cases he : a = b
    · simp [Ext.lt, he]
    · simp [Ext.lt, h, he]

/-! ## doubles -/

theorem finite_of_not_nan_inf {f : F64} (h1 : Fl.isNaN f = false) (h2 : Fl.isInf f = false) :
    Fl.isFinite f = true := by
  unfold Fl.isNaN at h1; unfold Fl.isInf at h2; unfold Fl.isFinite
  by_cases he : Fl.expField f = 2047
  · by_cases hm : Fl.mantField f = 0 <;> simp_all
  · simp [he]

/-- the decoder of the model and the value of the specification agree on every double -/
theorem classify_ext (f : F64) :
    (Fl.classify f = .nan ∧ ext (.flo f) = none) ∨
    (∃ s, Fl.classify f = .inf s ∧ ext (.flo f) = some (if s then .ninf else .pinf)) ∨
    (∃ s m, Fl.classify f = .fin s m ∧ ext (.flo f) = some (.fin (Fl.sgn s m))) := by
  unfold Fl.classify ext
  by_cases h1 : Fl.isNaN f = true
  · left; simp [h1]
  · right
    by_cases h2 : Fl.isInf f = true
    · left; exact ⟨Fl.signBit f, by simp [h1, h2], by simp [h1, h2]⟩
    · right
      have hf := finite_of_not_nan_inf (by simpa using h1) (by simpa using h2)
      refine ⟨Fl.signBit f, Fl.magRat f, by simp [h1, h2], ?_⟩
      simp only [h1, h2, Fl.toRat?, hf, if_true, Option.map_some, Fl.sgn]
      simp

theorem flo_partialCmp {f g : F64} {x y : Ext} (hx : ext (.flo f) = some x)
    (hy : ext (.flo g) = some y) : Fl.partialCmp f g = some (cmpExt x y) := by
  unfold Fl.partialCmp
  rcases classify_ext f with ⟨_, h⟩ | ⟨s, hc, h⟩ | ⟨s, m, hc, h⟩
  · rw [h] at hx; cases hx
  · rcases classify_ext g with ⟨_, h'⟩ | ⟨t, hc', h'⟩ | ⟨t, m', hc', h'⟩
    · rw [h'] at hy; cases hy
    · rw [h] at hx; rw [h'] at hy; cases hx; cases hy; rw [hc, hc']
      cases s <;> cases t <;> simp [cmpExt, Ext.lt]
    · rw [h] at hx; rw [h'] at hy; cases hx; cases hy; rw [hc, hc']
      cases s <;> simp [cmpExt, Ext.lt]
  · rcases classify_ext g with ⟨_, h'⟩ | ⟨t, hc', h'⟩ | ⟨t, m', hc', h'⟩
    · rw [h'] at hy; cases hy
    · rw [h] at hx; rw [h'] at hy; cases hx; cases hy; rw [hc, hc']
      cases t <;> simp [cmpExt, Ext.lt]
    · rw [h] at hx; rw [h'] at hy; cases hx; cases hy; rw [hc, hc']
      simp only [cmpExt_fin]

/-! ## exact numbers -/

theorem exactRat_val {a : Num} (ha : a.WF = true) (he : isExact a = true) :
    ∃ q, exactRat a = some q ∧ ext a = some (.fin q) := by
  cases a with
  | fix n => exact ⟨n, rfl, rfl⟩
  | big n => exact ⟨n, rfl, rfl⟩
  | rat n d =>
    have hd := wf_rat_pos ha
    refine ⟨mkRat n d.toNat, rfl, ?_⟩
    simp only [ext, val, Option.map_some, Option.some.injEq, Ext.fin.injEq]
    rw [Rat.mkRat_eq_div]
    congr 1
    have : ((d.toNat : Int)) = d := Int.toNat_of_nonneg hd.le
    exact_mod_cast congrArg (fun z : Int => (z : Rat)) this.symm
  | flo f => simp [isExact] at he

theorem exactCmpF64_spec {a : Num} {f : F64} (ha : a.WF = true) (he : isExact a = true)
    {x y : Ext} (hx : ext a = some x) (hy : ext (.flo f) = some y) :
    exactCmpF64 a f = some (cmpExt x y) := by
  obtain ⟨q, hq, hv⟩ := exactRat_val ha he
  rw [hv] at hx; cases hx
  unfold exactCmpF64
  rw [hq]
  rcases classify_ext f with ⟨_, h⟩ | ⟨s, hc, h⟩ | ⟨s, m, hc, h⟩
  · rw [h] at hy; cases hy
  · rw [h] at hy; cases hy; rw [hc]
    cases s <;> simp [cmpExt, Ext.lt]
  · rw [h] at hy; cases hy; rw [hc]
    simp only [cmpExt_fin]

theorem cmpExt_rev (x y : Ext) : Ordering.rev (cmpExt x y) = cmpExt y x := by
  rcases Ext.trichotomy x y with h | h | h
  · rw [cmpExt_lt.mpr h, cmpExt_gt.mpr h]; rfl
  · subst h; rw [cmpExt_eq.mpr rfl]; rfl
  · rw [cmpExt_gt.mpr h, cmpExt_lt.mpr h]; rfl

/-! ## integers and ratios -/

theorem cmpInt_spec (l r : Int) : cmpInt l r = cmpExt (.fin l) (.fin r) := by
  rw [cmpExt_fin]
  unfold cmpInt Fl.cmpRat
  by_cases h : l < r
  · have : (l : Rat) < r := by exact_mod_cast h
    simp [h, this]
  · by_cases he : l = r
    · subst he; simp
    · have h1 : ¬ (l : Rat) < r := by intro hh; exact h (by exact_mod_cast hh)
      have h2 : ¬ (l : Rat) = r := by intro hh; exact he (by exact_mod_cast hh)
      simp [h, he, h1, h2]

/-- `Ord for Ratio`: for positive denominators the order of the cross products is the order
    of the values -/
theorem ratioCmp_spec (n d n' d' : Int) (hd : 0 < d) (hd' : 0 < d') :
    ratioCmp (n, d) (n', d') = cmpExt (.fin ((n : Rat) / d)) (.fin ((n' : Rat) / d')) := by
  rw [cmpExt_fin]
  unfold ratioCmp Fl.cmpRat
  have hq : (0 : Rat) < d := by exact_mod_cast hd
  have hq' : (0 : Rat) < d' := by exact_mod_cast hd'
  have key_lt : (n : Rat) / d < n' / d' ↔ n * d' < n' * d := by
    rw [div_lt_div_iff₀ hq hq']
    exact_mod_cast Iff.rfl
  have key_eq : (n : Rat) / d = n' / d' ↔ n * d' = n' * d := by
    rw [div_eq_div_iff hq.ne' hq'.ne']
    exact_mod_cast Iff.rfl
  simp only
  by_cases h : n * d' < n' * d
  · simp [h, key_lt.mpr h]
  · by_cases he : n * d' = n' * d
    · simp [he, key_eq.mpr he]
    · have h1 : ¬ (n : Rat) / d < n' / d' := fun hh => h (key_lt.mp hh)
      have h2 : ¬ (n : Rat) / d = n' / d' := fun hh => he (key_eq.mp hh)
      simp [h, he, h1, h2]

/-- a well-formed 32-bit ratio lies within the i32 range -/
theorem rat_bounds {n d : Int} (h : (Num.rat n d).WF = true) :
    (-2147483648 : Rat) ≤ (n : Rat) / d ∧ (n : Rat) / d ≤ 2147483647 := by
  have hd := wf_rat_pos h
  have hn := (inI32_iff n).mp (wf_rat_i32 h).1
  have hq : (0 : Rat) < d := by exact_mod_cast hd
  have hd1 : (1 : Rat) ≤ d := by exact_mod_cast hd
  have hn1 : (-2147483648 : Rat) ≤ n := by exact_mod_cast hn.1
  have hn2 : (n : Rat) ≤ 2147483647 := by exact_mod_cast hn.2
  constructor
  · rw [le_div_iff₀ hq]; nlinarith
  · rw [div_le_iff₀ hq]; nlinarith

/-- an integer outside the i32 range lies beyond every 32-bit ratio, on the side of its sign -/
theorem wide_vs_rat {l n d : Int} (hl : inI32 l = false) (h : (Num.rat n d).WF = true) :
    cmpInt l 0 = cmpExt (.fin l) (.fin ((n : Rat) / d)) ∧ (l : Rat) ≠ (n : Rat) / d := by
  obtain ⟨b1, b2⟩ := rat_bounds h
  have hl' : ¬ (-2147483648 ≤ l ∧ l ≤ 2147483647) := by
    intro hh; rw [(inI32_iff l).mpr hh] at hl; cases hl
  by_cases hneg : l < 0
  · have h1 : l ≤ -2147483649 := by omega
    have h2 : (l : Rat) ≤ -2147483649 := by exact_mod_cast h1
    have h3 : (l : Rat) < (n : Rat) / d := by linarith
    refine ⟨?_, ne_of_lt h3⟩
    rw [cmpExt_lt.mpr (by simp [Ext.lt, h3])]
    simp [cmpInt, hneg]
  · have h1 : 2147483648 ≤ l := by omega
    have h2 : (2147483648 : Rat) ≤ l := by exact_mod_cast h1
    have h3 : (n : Rat) / d < (l : Rat) := by linarith
    refine ⟨?_, ne_of_gt h3⟩
    rw [cmpExt_gt.mpr (by simp [Ext.lt, h3])]
    have : ¬ l = 0 := by omega
    simp [cmpInt, hneg, this]

theorem cmpInt_swap (a b : Int) : cmpInt a b = Ordering.rev (cmpInt b a) := by
  unfold cmpInt
  rcases Int.lt_trichotomy a b with h | h | h
  · have h2 : ¬ b < a := by omega
    have h3 : ¬ (b == a) = true := by simp; omega
    rw [if_pos h, if_neg h2, if_neg h3]; rfl
  · subst h; simp [Ordering.rev]
  · have h2 : ¬ a < b := by omega
    have h3 : ¬ (a == b) = true := by simp; omega
    rw [if_neg h2, if_neg h3, if_pos h]; rfl

theorem some_beq_eq (o : Ordering) : (some o == some Ordering.eq) = true ↔ o = .eq := by
  cases o <;> simp

theorem ext_fix (l : Int) : ext (.fix l) = some (.fin (l : Rat)) := rfl
theorem ext_big (l : Int) : ext (.big l) = some (.fin (l : Rat)) := rfl
theorem ext_rat (n d : Int) : ext (.rat n d) = some (.fin ((n : Rat) / d)) := rfl

theorem div_one_cast (l : Int) : (l : Rat) / ((1 : Int) : Rat) = l := by simp

/-- `partial_cmp` of an integer (fix or big carrier, value `l`) against a ratio -/
theorem int_vs_rat {l n d : Int} (h : (Num.rat n d).WF = true) :
    (if inI32 l then ratioCmp (l, 1) (n, d) else cmpInt l 0)
      = cmpExt (.fin l) (.fin ((n : Rat) / d)) := by
  by_cases hi : inI32 l = true
  · rw [if_pos hi, ratioCmp_spec l 1 n d (by decide) (wf_rat_pos h), div_one_cast]
  · rw [if_neg hi]; exact (wide_vs_rat (by simpa using hi) h).1

theorem rat_vs_int {l n d : Int} (h : (Num.rat n d).WF = true) :
    (if inI32 l then ratioCmp (n, d) (l, 1) else cmpInt 0 l)
      = cmpExt (.fin ((n : Rat) / d)) (.fin l) := by
  by_cases hi : inI32 l = true
  · rw [if_pos hi, ratioCmp_spec n d l 1 (wf_rat_pos h) (by decide), div_one_cast]
  · rw [if_neg hi, cmpInt_swap, (wide_vs_rat (by simpa using hi) h).1, cmpExt_rev]

/-- T09.2 core: `partial_cmp` is the three-way comparison of the values -/
theorem partialCmp_spec (a b : Num) (ha : a.WF = true) (hb : b.WF = true) {x y : Ext}
    (hx : ext a = some x) (hy : ext b = some y) : partialCmp a b = some (cmpExt x y) := by
  cases a <;> cases b
  case fix.fix l r => cases hx; cases hy; simp only [partialCmp, cmpInt_spec]
  case fix.big l r => cases hx; cases hy; simp only [partialCmp, cmpInt_spec]
  case big.fix l r => cases hx; cases hy; simp only [partialCmp, cmpInt_spec]
  case big.big l r => cases hx; cases hy; simp only [partialCmp, cmpInt_spec]
  case fix.rat l n d => cases hx; cases hy; simp only [partialCmp, int_vs_rat hb]
  case big.rat l n d => cases hx; cases hy; simp only [partialCmp, int_vs_rat hb]
  case rat.fix n d r => cases hx; cases hy; simp only [partialCmp, rat_vs_int ha]
  case rat.big n d r => cases hx; cases hy; simp only [partialCmp, rat_vs_int ha]
  case rat.rat n d n' d' =>
    cases hx; cases hy
    simp only [partialCmp, ratioCmp_spec n d n' d' (wf_rat_pos ha) (wf_rat_pos hb)]
  case flo.flo f g => simp only [partialCmp]; exact flo_partialCmp hx hy
  case flo.fix f r =>
    simp only [partialCmp, exactCmpF64_spec hb rfl hy hx, Option.map_some, cmpExt_rev]
  case flo.big f r =>
    simp only [partialCmp, exactCmpF64_spec hb rfl hy hx, Option.map_some, cmpExt_rev]
  case flo.rat f n d =>
    simp only [partialCmp, exactCmpF64_spec hb rfl hy hx, Option.map_some, cmpExt_rev]
  case fix.flo l g => simp only [partialCmp]; exact exactCmpF64_spec ha rfl hx hy
  case big.flo l g => simp only [partialCmp]; exact exactCmpF64_spec ha rfl hx hy
  case rat.flo n d g => simp only [partialCmp]; exact exactCmpF64_spec ha rfl hx hy

theorem beq_eq_iff (o : Ordering) : (o == Ordering.eq) = true ↔ o = .eq := by
  cases o <;> simp

theorem fin_inj_int (l r : Int) : (Ext.fin (l : Rat) = Ext.fin (r : Rat)) ↔ l = r := by
  constructor
  · intro h; injection h with h; exact_mod_cast h
  · intro h; rw [h]

/-- T09.1 core: `==` is equality of the values -/
theorem eq_spec (a b : Num) (ha : a.WF = true) (hb : b.WF = true) {x y : Ext}
    (hx : ext a = some x) (hy : ext b = some y) : Cmp.eq a b = true ↔ x = y := by
  cases a <;> cases b
  case fix.fix l r => cases hx; cases hy; simp only [Cmp.eq, beq_iff_eq, fin_inj_int]
  case fix.big l r => cases hx; cases hy; simp only [Cmp.eq, beq_iff_eq, fin_inj_int]
  case big.fix l r => cases hx; cases hy; simp only [Cmp.eq, beq_iff_eq, fin_inj_int]
  case big.big l r => cases hx; cases hy; simp only [Cmp.eq, beq_iff_eq, fin_inj_int]
  case fix.rat l n d =>
    cases hx; cases hy
    simp only [Cmp.eq]
    by_cases hi : inI32 l = true
    · have := int_vs_rat (l := l) hb
      rw [if_pos hi] at this
      rw [hi, Bool.true_and, beq_eq_iff, this, cmpExt_eq]
    · have hw := (wide_vs_rat (by simpa using hi) hb).2
      simp only [Bool.not_eq_true] at hi
      rw [hi, Bool.false_and]
      constructor
      · intro h; cases h
      · intro h; injection h with h; exact absurd h hw
  case big.rat l n d =>
    cases hx; cases hy
    simp only [Cmp.eq]
    by_cases hi : inI32 l = true
    · have := int_vs_rat (l := l) hb
      rw [if_pos hi] at this
      rw [hi, Bool.true_and, beq_eq_iff, this, cmpExt_eq]
    · have hw := (wide_vs_rat (by simpa using hi) hb).2
      simp only [Bool.not_eq_true] at hi
      rw [hi, Bool.false_and]
      constructor
      · intro h; cases h
      · intro h; injection h with h; exact absurd h hw
  case rat.fix n d l =>
    cases hx; cases hy
    simp only [Cmp.eq]
    by_cases hi : inI32 l = true
    · have := int_vs_rat (l := l) ha
      rw [if_pos hi] at this
      rw [hi, Bool.true_and, beq_eq_iff, this, cmpExt_eq]
      exact eq_comm
    · have hw := (wide_vs_rat (by simpa using hi) ha).2
      simp only [Bool.not_eq_true] at hi
      rw [hi, Bool.false_and]
      constructor
      · intro h; cases h
      · intro h; injection h with h; exact absurd h.symm hw
  case rat.big n d l =>
    cases hx; cases hy
    simp only [Cmp.eq]
    by_cases hi : inI32 l = true
    · have := rat_vs_int (l := l) ha
      rw [if_pos hi] at this
      rw [hi, Bool.true_and, beq_eq_iff, this, cmpExt_eq]
    · have hw := (wide_vs_rat (by simpa using hi) ha).2
      simp only [Bool.not_eq_true] at hi
      rw [hi, Bool.false_and]
      constructor
      · intro h; cases h
      · intro h; injection h with h; exact absurd h.symm hw
  case rat.rat n d n' d' =>
    cases hx; cases hy
    simp only [Cmp.eq, beq_eq_iff, ratioCmp_spec n d n' d' (wf_rat_pos ha) (wf_rat_pos hb), cmpExt_eq]
  case flo.flo f g =>
    simp only [Cmp.eq, flo_partialCmp hx hy]
    rw [some_beq_eq, cmpExt_eq]
  case flo.fix f r =>
    simp only [Cmp.eq, exactCmpF64_spec hb rfl hy hx]; rw [some_beq_eq, cmpExt_eq]; exact eq_comm
  case flo.big f r =>
    simp only [Cmp.eq, exactCmpF64_spec hb rfl hy hx]; rw [some_beq_eq, cmpExt_eq]; exact eq_comm
  case flo.rat f n d =>
    simp only [Cmp.eq, exactCmpF64_spec hb rfl hy hx]; rw [some_beq_eq, cmpExt_eq]; exact eq_comm
  case fix.flo l g => simp only [Cmp.eq, exactCmpF64_spec ha rfl hx hy]; rw [some_beq_eq, cmpExt_eq]
  case big.flo l g => simp only [Cmp.eq, exactCmpF64_spec ha rfl hx hy]; rw [some_beq_eq, cmpExt_eq]
  case rat.flo n d g => simp only [Cmp.eq, exactCmpF64_spec ha rfl hx hy]; rw [some_beq_eq, cmpExt_eq]

/-! ## the four order relations -/

theorem lt_spec (a b : Num) (ha : a.WF = true) (hb : b.WF = true) {x y : Ext}
    (hx : ext a = some x) (hy : ext b = some y) : Cmp.lt a b = Ext.lt x y := by
  unfold Cmp.lt
  rw [partialCmp_spec a b ha hb hx hy]
  cases h : Ext.lt x y
  · cases hc : cmpExt x y
    · rw [cmpExt_lt.mp hc] at h; cases h
    · rfl
    · rfl
  · rw [cmpExt_lt.mpr h]; rfl

theorem gt_spec (a b : Num) (ha : a.WF = true) (hb : b.WF = true) {x y : Ext}
    (hx : ext a = some x) (hy : ext b = some y) : Cmp.gt a b = Ext.lt y x := by
  unfold Cmp.gt
  rw [partialCmp_spec a b ha hb hx hy]
  cases h : Ext.lt y x
  · cases hc : cmpExt x y
    · rfl
    · rfl
    · rw [cmpExt_gt.mp hc] at h; cases h
  · rw [cmpExt_gt.mpr h]; rfl

theorem Ext.le_iff (x y : Ext) : Ext.le x y = true ↔ (x = y ∨ Ext.lt x y = true) := by
  unfold Ext.le; simp

theorem le_spec (a b : Num) (ha : a.WF = true) (hb : b.WF = true) {x y : Ext}
    (hx : ext a = some x) (hy : ext b = some y) : Cmp.le a b = Ext.le x y := by
  unfold Cmp.le
  rw [partialCmp_spec a b ha hb hx hy]
  rcases Ext.trichotomy x y with h | h | h
  · rw [cmpExt_lt.mpr h]; symm; rw [Ext.le_iff]; exact Or.inr h
  · subst h; rw [cmpExt_eq.mpr rfl]; symm; rw [Ext.le_iff]; exact Or.inl rfl
  · rw [cmpExt_gt.mpr h]
    cases hle : Ext.le x y
    · rfl
    · rcases (Ext.le_iff x y).mp hle with h1 | h1
      · subst h1; rw [Ext.lt_irrefl] at h; cases h
      · rw [Ext.lt_asymm h] at h1; cases h1

theorem ge_spec (a b : Num) (ha : a.WF = true) (hb : b.WF = true) {x y : Ext}
    (hx : ext a = some x) (hy : ext b = some y) : Cmp.ge a b = Ext.le y x := by
  unfold Cmp.ge
  rw [partialCmp_spec a b ha hb hx hy]
  rcases Ext.trichotomy x y with h | h | h
  · rw [cmpExt_lt.mpr h]
    cases hle : Ext.le y x
    · rfl
    · rcases (Ext.le_iff y x).mp hle with h1 | h1
      · subst h1; rw [Ext.lt_irrefl] at h; cases h
      · rw [Ext.lt_asymm h] at h1; cases h1
  · subst h; rw [cmpExt_eq.mpr rfl]; symm; rw [Ext.le_iff]; exact Or.inl rfl
  · rw [cmpExt_gt.mpr h]; symm; rw [Ext.le_iff]; exact Or.inr h

theorem eq_spec' (a b : Num) (ha : a.WF = true) (hb : b.WF = true) {x y : Ext}
    (hx : ext a = some x) (hy : ext b = some y) : Cmp.eq a b = (x == y) := by
  cases h : Cmp.eq a b
  · symm; simp only [beq_eq_false_iff_ne, ne_eq]
    intro he; rw [(eq_spec a b ha hb hx hy).mpr he] at h; cases h
  · symm; simp only [beq_iff_eq]; exact (eq_spec a b ha hb hx hy).mp h

/-! ## the variadic fold -/

/-- conjunction of `comp` over adjacent pairs, in argument order -/
def adjAll (comp : Num → Num → Bool) : List Num → Bool
  | a :: b :: rest => comp a b && adjAll comp (b :: rest)
  | _ => true

theorem numCompLoop_false (comp : Num → Num → Bool) (y : Num) (rest : List Num) :
    numCompLoop comp y rest false = false := by
  induction rest generalizing y with
  | nil => rfl
  | cons x r ih => simp only [numCompLoop]; split <;> exact ih _

theorem adjAll_snoc2 (comp : Num → Num → Bool) (l : List Num) (x y : Num) :
    adjAll comp (l ++ [x, y]) = (adjAll comp (l ++ [x]) && comp x y) := by
  induction l with
  | nil => simp [adjAll]
  | cons a l' ih =>
    cases l' with
    | nil => simp [adjAll]
    | cons b l'' =>
      simp only [List.cons_append, adjAll] at ih ⊢
      rw [ih, Bool.and_assoc]

theorem numCompLoop_true (comp : Num → Num → Bool) (y : Num) (rest : List Num) :
    numCompLoop comp y rest true = adjAll comp (rest.reverse ++ [y]) := by
  induction rest generalizing y with
  | nil => rfl
  | cons x r ih =>
    simp only [numCompLoop, List.reverse_cons, List.append_assoc, List.cons_append, List.nil_append]
    rw [adjAll_snoc2]
    by_cases h : comp x y = true
    · rw [if_pos h, ih, h, Bool.and_true]
    · rw [if_neg h, numCompLoop_false]
      simp only [Bool.not_eq_true] at h
      rw [h, Bool.and_false]

/-- T09.3 core: `num_comp` is the conjunction over adjacent argument pairs -/
theorem numComp_adj (comp : Num → Num → Bool) (a : Num) (rest : List Num) :
    numComp comp (a :: rest) = .ok (adjAll comp (a :: rest)) := by
  unfold numComp
  cases h : (a :: rest).reverse with
  | nil => simp at h
  | cons y r =>
    simp only
    rw [numCompLoop_true]
    have : r.reverse ++ [y] = a :: rest := by
      have := congrArg List.reverse h
      simpa using this.symm
    rw [this]

theorem adjAll_chain (comp : Num → Num → Bool) (rel : Ext → Ext → Bool)
    (h : ∀ a b x y, a.WF = true → b.WF = true → ext a = some x → ext b = some y → comp a b = rel x y) :
    ∀ (args : List Num) (xs : List Ext), (∀ a ∈ args, a.WF = true) →
      List.Forall₂ (fun a x => ext a = some x) args xs → adjAll comp args = chain rel xs := by
  intro args
  induction args with
  | nil => intro xs _ hf; cases hf; rfl
  | cons a rest ih =>
    intro xs hw hf
    cases hf with
    | cons hax hrest =>
      rename_i x xs'
      cases rest with
      | nil => cases hrest; rfl
      | cons b rest' =>
        cases hrest with
        | cons hby hrest' =>
          rename_i y ys
          simp only [adjAll, chain]
          rw [h a b x y (hw a (by simp)) (hw b (by simp)) hax hby]
          rw [ih (y :: ys) (fun c hc => hw c (List.mem_cons_of_mem _ hc)) (List.Forall₂.cons hby hrest')]

/-! ## min, max, sign predicates -/

theorem Ext.lt_of_not_lt_of_lt {a b c : Ext} (h1 : Ext.lt b a = false) (h2 : Ext.lt b c = true) :
    Ext.lt a c = true := by
  rcases Ext.trichotomy a b with h | h | h
  · exact Ext.lt_trans h h2
  · subst h; exact h2
  · rw [h] at h1; cases h1

theorem Ext.lt_of_lt_of_not_lt {a b c : Ext} (h1 : Ext.lt a b = true) (h2 : Ext.lt c b = false) :
    Ext.lt a c = true := by
  rcases Ext.trichotomy b c with h | h | h
  · exact Ext.lt_trans h1 h
  · subst h; exact h1
  · rw [h] at h2; cases h2

theorem minLoop_spec (e : Num → Ext) (res : Num) (xs : List Num)
    (hw : ∀ a ∈ res :: xs, a.WF = true) (he : ∀ a ∈ res :: xs, ext a = some (e a)) :
    minLoop res xs ∈ res :: xs ∧ ∀ a ∈ res :: xs, Ext.lt (e a) (e (minLoop res xs)) = false := by
  induction xs generalizing res with
  | nil =>
    simp only [minLoop, List.mem_singleton, forall_eq, true_and]
    exact Ext.lt_irrefl _
  | cons x xs ih =>
    simp only [minLoop]
    have hx_mem : x ∈ res :: x :: xs := by simp
    have hr_mem : res ∈ res :: x :: xs := by simp
    have hlt := lt_spec x res (hw x hx_mem) (hw res hr_mem) (he x hx_mem) (he res hr_mem)
    generalize hr' : (if Cmp.lt x res = true then x else res) = r'
    have hr'mem : r' ∈ res :: x :: xs := by
      rw [← hr']; split <;> simp
    have hsub : ∀ a ∈ r' :: xs, a ∈ res :: x :: xs := by
      intro a ha
      rcases List.mem_cons.mp ha with h | h
      · rw [h]; exact hr'mem
      · simp [h]
    obtain ⟨hm, hall⟩ := ih r' (fun a ha => hw a (hsub a ha)) (fun a ha => he a (hsub a ha))
    refine ⟨hsub _ hm, ?_⟩
    intro a ha
    have hr'min : Ext.lt (e r') (e (minLoop r' xs)) = false := hall r' (by simp)
    -- r' ≤ res and r' ≤ x
    have hr'res : Ext.lt (e res) (e r') = false := by
      rw [← hr']; split
      · rename_i h; rw [hlt] at h; exact Ext.lt_asymm h
      · exact Ext.lt_irrefl _
    have hr'x : Ext.lt (e x) (e r') = false := by
      rw [← hr']; split
      · exact Ext.lt_irrefl _
      · rename_i h; rw [hlt] at h; simpa using h
    rcases List.mem_cons.mp ha with h | h
    · subst h
      cases hc : Ext.lt (e a) (e (minLoop r' xs))
      · rfl
      · have := Ext.lt_of_not_lt_of_lt hr'res hc
        rw [this] at hr'min; cases hr'min
    · rcases List.mem_cons.mp h with h | h
      · subst h
        cases hc : Ext.lt (e a) (e (minLoop r' xs))
        · rfl
        · have := Ext.lt_of_not_lt_of_lt hr'x hc
          rw [this] at hr'min; cases hr'min
      · exact hall a (List.mem_cons_of_mem _ h)

theorem maxLoop_spec (e : Num → Ext) (res : Num) (xs : List Num)
    (hw : ∀ a ∈ res :: xs, a.WF = true) (he : ∀ a ∈ res :: xs, ext a = some (e a)) :
    maxLoop res xs ∈ res :: xs ∧ ∀ a ∈ res :: xs, Ext.lt (e (maxLoop res xs)) (e a) = false := by
  induction xs generalizing res with
  | nil =>
    simp only [maxLoop, List.mem_singleton, forall_eq, true_and]
    exact Ext.lt_irrefl _
  | cons x xs ih =>
    simp only [maxLoop]
    have hx_mem : x ∈ res :: x :: xs := by simp
    have hr_mem : res ∈ res :: x :: xs := by simp
    have hgt := gt_spec x res (hw x hx_mem) (hw res hr_mem) (he x hx_mem) (he res hr_mem)
    generalize hr' : (if Cmp.gt x res = true then x else res) = r'
    have hr'mem : r' ∈ res :: x :: xs := by
      rw [← hr']; split <;> simp
    have hsub : ∀ a ∈ r' :: xs, a ∈ res :: x :: xs := by
      intro a ha
      rcases List.mem_cons.mp ha with h | h
      · rw [h]; exact hr'mem
      · simp [h]
    obtain ⟨hm, hall⟩ := ih r' (fun a ha => hw a (hsub a ha)) (fun a ha => he a (hsub a ha))
    refine ⟨hsub _ hm, ?_⟩
    intro a ha
    have hr'max : Ext.lt (e (maxLoop r' xs)) (e r') = false := hall r' (by simp)
    have hr'res : Ext.lt (e r') (e res) = false := by
      rw [← hr']; split
      · rename_i h; rw [hgt] at h; exact Ext.lt_asymm h
      · exact Ext.lt_irrefl _
    have hr'x : Ext.lt (e r') (e x) = false := by
      rw [← hr']; split
      · exact Ext.lt_irrefl _
      · rename_i h; rw [hgt] at h; simpa using h
    rcases List.mem_cons.mp ha with h | h
    · subst h
      cases hc : Ext.lt (e (maxLoop r' xs)) (e a)
      · rfl
      · have := Ext.lt_of_lt_of_not_lt hc hr'res
        rw [this] at hr'max; cases hr'max
    · rcases List.mem_cons.mp h with h | h
      · subst h
        cases hc : Ext.lt (e (maxLoop r' xs)) (e a)
        · rfl
        · have := Ext.lt_of_lt_of_not_lt hc hr'x
          rw [this] at hr'max; cases hr'max
      · exact hall a (List.mem_cons_of_mem _ h)

end Marwood.Cmp
