import Marwood.Vm.EnvInvCheck
import Marwood.Lemmas.NoPanicMain
/-!
# The slot clause of T06.6 as an invariant (1): "fit" — definitions, how heaps change, the stack

`Fit h e l`: the lexical environment in cell `e` has a slot for every entry of the environment map of the lambda in cell
`l`. `FInv s` (the propositional form of `Vm/EnvInvCheck.lean: stateFB`):

* `HF s.heap` — every closure cell `Closure(l, e)` fits; every code object's `MOVIMM <Ptr(p)> %acc; CLOSURE` sites load a
  lambda whose `IofEnvironment(k)` sources index the code object's own map, and its PUSHIMM immediates are no
  `InstructionPointer`s; every continuation object's stack copy has fitting header pairs and its saved `(ep, ip.0)` fits;
* `PairsOk` of the live stack — every adjacent `EnvironmentPointer(e), InstructionPointer(l, _)` at or below `sp` fits;
* the current `(ep, ip.0)` fits unless the machine is in a procedure prologue (verifier state `pre` of procedure code:
  between CALL / TCALL and the callee's ENTER, `ep` is still the caller's), and then `acc` still holds the callee CALL /
  TCALL dispatched on.

`FStep N h h'` — how one instruction changes the heap as far as `Fit` is concerned: same lambda cells, an existing
environment keeps its length, new cells (satisfying `N`) appear only at addresses that were free or beyond the heap,
cells that are not environments and not free keep their content. `HF.step`: `HF` is kept when the new cells satisfy their
clause.
-/
namespace Marwood.Lemmas.Good
open Marwood Marwood.Vm Marwood.Vm.Verify Marwood.Vm.Concrete Marwood.Lemmas.Sim
open Marwood.Heap (GcState WFHeap RootsOk vrefs vrefsList crefs bcRefs)

/-! ## the propositions -/

def Fit (h : CHeap) (e l : Nat) : Prop :=
  ∀ lam ss, lambdaAt h l = some lam → envAt h e = some ss → lam.envmap.length ≤ ss.length

/-- the `IofEnvironment` sources of the lambda `v` points to index a map of `n` entries -/
def ChildFit (h : CHeap) (n : Nat) (v : VCell) : Prop :=
  ∀ p lam', v = .ptr p → lambdaAt h p = some lam' → ∀ x ∈ lam'.envmap, ∀ k, x.2 = Source.iofEnv k → k < n

/-- not an `InstructionPointer` -/
def NIP (v : VCell) : Prop := ∀ l o, v ≠ .instrPtr l o

/-- neither header cell -/
def NHdr (v : VCell) : Prop := (∀ e, v ≠ .envPtr e) ∧ NIP v

def PairsOk (h : CHeap) (cells : List VCell) (sp : Nat) : Prop :=
  ∀ i e l o, i + 1 ≤ sp → cells[i]? = some (.envPtr e) → cells[i + 1]? = some (.instrPtr l o) → Fit h e l

def CodeF (h : CHeap) (lam : CLambda) : Prop :=
  (∀ j v, siteB lam.bc j = true → lam.bc[j + 1]? = some v → ChildFit h lam.envmap.length v) ∧
  (∀ j v, lam.bc[j]? = some (.opcode .pushImm) → lam.bc[j + 1]? = some v → NIP v)

def ContF (h : CHeap) (k : Cont) : Prop := PairsOk h k.stack.cells k.stack.sp ∧ Fit h k.ep k.ipL

def CellF (h : CHeap) : CCell → Prop
  | .val v => ∀ l e, v = .closure l e → Fit h e l
  | .lambda lam => CodeF h lam
  | .cont k => ContF h k
  | _ => True

def HF (h : CHeap) : Prop := ∀ (i : Nat) (c : CCell), h.cells[i]? = some c → CellF h c

/-- the verifier's state at `(l, o)` is `pre`: a prologue instruction (VARARG / ENTER) -/
def InPre (h : CHeap) (l o : Nat) : Prop :=
  ∃ lam t, lambdaAt h l = some lam ∧ verifyLam lam.bc = some t ∧ t.entry = false ∧ stateAt t.tm o = some .pre

/-- the lambda cell CALL / TCALL / ENTER dispatch on when `acc` holds a closure or a bare lambda -/
def calleeLam (h : CHeap) (acc : VCell) : Option Nat :=
  match callee h acc with
  | .closure lam _ => some lam
  | .lambda => (match acc with | .ptr p => some p | _ => none)
  | _ => none

structure FInv (s : St CHeap) : Prop where
  hf : HF s.heap
  stk : PairsOk s.heap s.stack.cells s.stack.sp
  /-- in a prologue `acc` still holds the callee whose code `ip.0` points to (or the error reset wiped it: ENTER then
      fails) -/
  pre : InPre s.heap s.ipL s.ipO → s.acc = .undefined ∨ calleeLam s.heap s.acc = some s.ipL
  /-- outside a prologue the current environment fits the current code -/
  fit : ¬ InPre s.heap s.ipL s.ipO → Fit s.heap s.ep s.ipL

/-- allocated environments and lambdas keep fitting -/
def FitKeep (h h' : CHeap) : Prop := ∀ e l, NF h e → NF h l → Fit h e l → Fit h' e l

/-! ## basic facts -/

theorem Fit.of_no_env {h : CHeap} {e l : Nat} (hn : envAt h e = none) : Fit h e l := by
  intro lam ss _ he; rw [hn] at he; cases he

theorem Fit.of_empty {h : CHeap} {e l : Nat} (hn : ∀ lam, lambdaAt h l = some lam → lam.envmap = []) : Fit h e l := by
  intro lam ss hl _; rw [hn lam hl]; exact Nat.zero_le _

theorem NHdr.of_plainGlob {v : VCell} (hp : plainGlob v = true) : NHdr v := by
  refine ⟨?_, ?_⟩
  · intro e he; subst he; simp [plainGlob, isPtr, addrFree] at hp
  · intro l o he; subst he; simp [plainGlob, isPtr, addrFree] at hp

theorem NIP.of_plainVal {v : VCell} (hp : plainVal v = true) : NIP v := by
  intro l o e; subst e; simp [plainVal] at hp

theorem nf_envPtr {h : CHeap} {e : Nat} (x : VRefsOk h (.envPtr e)) : NF h e := x e (by simp [eraseV, vrefs])

theorem nf_instrPtr {h : CHeap} {l o : Nat} (x : VRefsOk h (.instrPtr l o)) : NF h l := x l (by simp [eraseV, vrefs])

theorem PairsOk.keep {h h' : CHeap} {cells : List VCell} {sp : Nat} (k : FitKeep h h')
    (nf : ∀ i v, i ≤ sp → cells[i]? = some v → VRefsOk h v) (x : PairsOk h cells sp) : PairsOk h' cells sp := by
  intro i e l o hi he hl
  exact k e l (nf_envPtr (nf i _ (by omega) he)) (nf_instrPtr (nf (i + 1) _ hi hl)) (x i e l o hi he hl)

theorem PairsOk.mono {h : CHeap} {cells : List VCell} {sp sp' : Nat} (x : PairsOk h cells sp) (le : sp' ≤ sp) :
    PairsOk h cells sp' := fun i e l o hi => x i e l o (by omega)

/-- same cells at or below `sp` -/
theorem PairsOk.congr {h : CHeap} {cells cells' : List VCell} {sp : Nat} (x : PairsOk h cells sp)
    (hc : ∀ i, i ≤ sp → cells'[i]? = cells[i]?) : PairsOk h cells' sp := by
  intro i e l o hi he hl
  rw [hc i (by omega)] at he
  rw [hc (i + 1) hi] at hl
  exact x i e l o hi he hl

/-- a non-undefined cell is allocated -/
theorem alloc_of_ne_undef {h : CHeap} (g : HG h) {i : Nat} {c : CCell} (hc : h.cells[i]? = some c)
    (hu : c ≠ .val .undefined) : (toHeap h).NonFree i := by
  have hlt : i < h.cells.size := lt_of_get_some hc
  have hs : (toHeap h).gc.size = (toHeap h).cells.size := g.wf.sizes
  have hgl : i < h.gc.size := by
    have : (toHeap h).gc.size = h.gc.size := rfl
    have h2 : (toHeap h).cells.size = h.cells.size := by simp [toHeap]
    omega
  have hget : (toHeap h).gc[i]? = some h.gc[i] := by
    show h.gc[i]? = some h.gc[i]
    exact Array.getElem?_eq_getElem hgl
  cases hst : h.gc[i] with
  | free =>
    exfalso
    rw [hst] at hget
    have := g.wf.free_undef i hget
    rw [toHeap_cells_get, hc] at this
    simp only [Option.map_some, Option.some.injEq] at this
    exact hu (eraseC_undef this)
  | allocated => rw [hst] at hget; exact .inl hget
  | used => rw [hst] at hget; exact .inr hget

/-- an allocated address is not on the free list and below the heap size, a sentinel is at or above `2^63` -/
theorem NF.cases {h : CHeap} (g : HG h) {e : Nat} (x : NF h e) :
    (e ∉ h.free ∧ e < h.cells.size) ∨ 2 ^ 63 ≤ e := by
  rcases x with x | x
  · left
    have hs : (toHeap h).gc.size = (toHeap h).cells.size := g.wf.sizes
    have h2 : (toHeap h).cells.size = h.cells.size := by simp [toHeap]
    refine ⟨?_, ?_⟩
    · intro hm
      have : (toHeap h).gc[e]? = some GcState.free := (g.wf.free_iff e).mp hm
      rcases x with x | x <;> (rw [this] at x; cases x)
    · have : e < (toHeap h).gc.size := by
        rcases x with x | x <;> exact lt_of_get_some x
      omega
  · exact .inr x

theorem free_lt {h : CHeap} (g : HG h) {e : Nat} (hm : e ∈ h.free) : e < h.cells.size := by
  have : (toHeap h).gc[e]? = some GcState.free := (g.wf.free_iff e).mp hm
  have hs : (toHeap h).gc.size = (toHeap h).cells.size := g.wf.sizes
  have h2 : (toHeap h).cells.size = h.cells.size := by simp [toHeap]
  have := lt_of_get_some this
  omega

theorem hg_bound {h : CHeap} (g : HG h) : h.cells.size ≤ 2 ^ 63 := by
  have := g.wf.bound
  simpa [toHeap] using this

/-! ## how one instruction changes the heap -/

structure FStep (N : CCell → Prop) (h h' : CHeap) : Prop where
  ls : LamSame h h'
  lf : LF h'
  cells : ∀ (i : Nat) (c : CCell), h'.cells[i]? = some c →
    h.cells[i]? = some c ∨
    (∃ ss ss', c = .lexEnv ss' ∧ h.cells[i]? = some (.lexEnv ss) ∧ ss.length = ss'.length) ∨
    ((i ∈ h.free ∨ h.cells.size ≤ i) ∧ N c) ∨ c = .val .undefined
  keep : ∀ (i : Nat) (c : CCell), h.cells[i]? = some c → i ∉ h.free → (∀ ss, c ≠ .lexEnv ss) → h'.cells[i]? = some c
  free : ∀ p : Nat, p ∈ h'.free → p ∈ h.free ∨ h.cells.size ≤ p
  size : h.cells.size ≤ h'.cells.size

theorem FStep.refl {N : CCell → Prop} {h : CHeap} (lf : LF h) : FStep N h h :=
  ⟨.refl h, lf, fun _ _ x => .inl x, fun _ _ x _ _ => x, fun _ x => .inl x, Nat.le_refl _⟩

theorem FStep.weaken {N N' : CCell → Prop} {h h' : CHeap} (x : FStep N h h') (hn : ∀ c, N c → N' c) : FStep N' h h' :=
  ⟨x.ls, x.lf, fun i c hc => by
    rcases x.cells i c hc with a | a | ⟨a, b⟩ | a
    · exact .inl a
    · exact .inr (.inl a)
    · exact .inr (.inr (.inl ⟨a, hn c b⟩))
    · exact .inr (.inr (.inr a)), x.keep, x.free, x.size⟩

theorem FStep.trans {N : CCell → Prop} {a b c : CHeap} (hN : ∀ ss, N (.lexEnv ss)) (x : FStep N a b) (y : FStep N b c) :
    FStep N a c := by
  have hfree : ∀ p, (p ∈ b.free ∨ b.cells.size ≤ p) → (p ∈ a.free ∨ a.cells.size ≤ p) := by
    intro p hp
    rcases hp with hp | hp
    · exact x.free p hp
    · right; have := x.size; omega
  refine ⟨x.ls.trans y.ls, y.lf, ?_, ?_, fun p hp => hfree p (y.free p hp), Nat.le_trans x.size y.size⟩
  · intro i cc hc
    rcases y.cells i cc hc with h1 | ⟨ss, ss', e1, h1, hl⟩ | ⟨h1, h2⟩ | h1
    · exact x.cells i cc h1
    · subst e1
      rcases x.cells i _ h1 with k1 | ⟨s0, s1, e2, k1, kl⟩ | ⟨k1, _⟩ | k1
      · exact .inr (.inl ⟨ss, ss', rfl, k1, hl⟩)
      · cases e2; exact .inr (.inl ⟨s0, ss', rfl, k1, by omega⟩)
      · exact .inr (.inr (.inl ⟨k1, hN ss'⟩))
      · cases k1
    · exact .inr (.inr (.inl ⟨hfree i h1, h2⟩))
    · exact .inr (.inr (.inr h1))
  · intro i cc hc hnf hne
    refine y.keep i cc (x.keep i cc hc hnf hne) ?_ hne
    intro hm
    rcases x.free i hm with h1 | h1
    · exact hnf h1
    · have := lt_of_get_some hc; omega

/-- heaps with the same cells and free list -/
theorem FStep.of_eq {N : CCell → Prop} {h h' : CHeap} (lf : LF h) (hc : h'.cells = h.cells) (hf : h'.free = h.free) :
    FStep N h h' := by
  refine ⟨.of_cells hc, ?_, ?_, ?_, ?_, by rw [hc]; exact Nat.le_refl _⟩
  · intro l lam hl hm; rw [hc] at hl; rw [hf] at hm; exact lf l lam hl hm
  · intro i c x; rw [hc] at x; exact .inl x
  · intro i c x _ _; rw [hc]; exact x
  · intro p x; rw [hf] at x; exact .inl x

/-- what `envAt` of the later heap says about the earlier one -/
theorem FStep.env {N : CCell → Prop} {h h' : CHeap} (x : FStep N h h') {e : Nat} {ss' : List VCell}
    (he : envAt h' e = some ss') :
    (∃ ss, envAt h e = some ss ∧ ss.length = ss'.length) ∨ e ∈ h.free ∨ h.cells.size ≤ e := by
  rcases x.cells e _ (envAt_cell he) with h1 | ⟨ss, s1, e1, h1, hl⟩ | ⟨h1, _⟩ | h1
  · left; refine ⟨ss', ?_, rfl⟩; unfold envAt; rw [h1]
  · cases e1; left; refine ⟨ss, ?_, hl⟩; unfold envAt; rw [h1]
  · exact .inr h1
  · cases h1

/-- **allocated environments keep their length, lambda cells are the same: fitting is kept** -/
theorem FStep.fitKeep {N : CCell → Prop} {h h' : CHeap} (x : FStep N h h') (g : HG h) (b' : h'.cells.size ≤ 2 ^ 63) :
    FitKeep h h' := by
  intro e l nfe _ hfit lam ss' hl he
  rw [x.ls l] at hl
  rcases x.env he with ⟨ss, h1, hlen⟩ | h1 | h1
  · have := hfit lam ss hl h1; omega
  · exfalso
    rcases nfe.cases g with ⟨k1, _⟩ | k1
    · exact k1 h1
    · have := free_lt g h1; have := hg_bound g; omega
  · exfalso
    have hlt : e < h'.cells.size := lt_of_get_some (envAt_cell he)
    rcases nfe.cases g with ⟨_, k1⟩ | k1 <;> omega

theorem ChildFit.ls {h h' : CHeap} (ls : LamSame h h') {n : Nat} {v : VCell} (x : ChildFit h n v) : ChildFit h' n v := by
  intro p lam' hv hl; rw [ls p] at hl; exact x p lam' hv hl

theorem CodeF.ls {h h' : CHeap} (ls : LamSame h h') {lam : CLambda} (x : CodeF h lam) : CodeF h' lam :=
  ⟨fun j v hs hv => (x.1 j v hs hv).ls ls, x.2⟩

/-- the stack copy, `ep` and `ip.0` of an allocated continuation cell refer to allocated cells -/
theorem cont_refs {h : CHeap} {k : Cont} (x : CRefsOk h (.cont k)) :
    (∀ v ∈ k.stack.cells, VRefsOk h v) ∧ NF h k.ipL ∧ NF h k.ep := by
  refine ⟨?_, ?_, ?_⟩
  · intro v hv y hy
    refine x y ?_
    simp only [eraseC, crefs, Heap.contRefs, List.mem_append]
    exact Or.inl (vrefsList_mem_iff.mpr ⟨v, hv, hy⟩)
  · exact x _ (by simp [eraseC, crefs, Heap.contRefs])
  · exact x _ (by simp [eraseC, crefs, Heap.contRefs])

theorem ContF.keep {h h' : CHeap} (k : FitKeep h h') {c : Cont} (r : CRefsOk h (.cont c)) (x : ContF h c) : ContF h' c := by
  obtain ⟨r1, r2, r3⟩ := cont_refs r
  exact ⟨x.1.keep k (fun i v _ hv => r1 v (List.mem_of_getElem? hv)), k _ _ r3 r2 x.2⟩

/-- an old cell's clause in the later heap -/
theorem CellF.keep {h h' : CHeap} (g : HG h) (k : FitKeep h h') (ls : LamSame h h') {i : Nat} {c : CCell}
    (hc : h.cells[i]? = some c) (x : CellF h c) : CellF h' c := by
  by_cases hu : c = .val .undefined
  · subst hu; intro l e he; cases he
  have hr : CRefsOk h c := g.closed (alloc_of_ne_undef g hc hu) hc
  cases c with
  | val v =>
    intro l e he
    subst he
    exact k e l (hr e (by simp [eraseC, eraseV, crefs])) (hr l (by simp [eraseC, eraseV, crefs])) (x l e rfl)
  | lambda lam => exact CodeF.ls ls x
  | cont c => exact ContF.keep k hr x
  | lexEnv _ => trivial
  | vector _ => trivial

/-- **`HF` across an instruction**: the new cells have to satisfy their clause in the later heap -/
theorem HF.step {N : CCell → Prop} {h h' : CHeap} (g : HG h) (b' : h'.cells.size ≤ 2 ^ 63) (hf : HF h)
    (x : FStep N h h') (hN : ∀ (i : Nat) (c : CCell), h'.cells[i]? = some c → N c → CellF h' c) : HF h' := by
  intro i c hc
  rcases x.cells i c hc with h1 | ⟨ss, ss', e1, _, _⟩ | ⟨_, h2⟩ | h1
  · exact CellF.keep g (x.fitKeep g b') x.ls h1 (hf i c h1)
  · subst e1; trivial
  · exact hN i c hc h2
  · subst h1; intro l e he; cases he

/-- cells that carry no clause -/
def NoClaim (c : CCell) : Prop :=
  (∀ l e, c ≠ .val (.closure l e)) ∧ (∀ lam, c ≠ .lambda lam) ∧ (∀ k, c ≠ .cont k)

theorem NoClaim.cellF {h : CHeap} {c : CCell} (n : NoClaim c) : CellF h c := by
  cases c with
  | val v => intro l e he; subst he; exact absurd rfl (n.1 l e)
  | lambda lam => exact absurd rfl (n.2.1 lam)
  | cont k => exact absurd rfl (n.2.2 k)
  | lexEnv _ => trivial
  | vector _ => trivial

theorem NoClaim.lexEnv (ss : List VCell) : NoClaim (.lexEnv ss) := by
  refine ⟨?_, ?_, ?_⟩ <;> (intros; intro hh; cases hh)

theorem NoClaim.val {v : VCell} (hv : ∀ l e, v ≠ .closure l e) : NoClaim (.val v) := by
  refine ⟨?_, ?_, ?_⟩
  · intro l e hh; cases hh; exact hv l e rfl
  · intro lam hh; cases hh
  · intro k hh; cases hh

theorem HF.step_noClaim {h h' : CHeap} (g : HG h) (b' : h'.cells.size ≤ 2 ^ 63) (hf : HF h)
    (x : FStep NoClaim h h') : HF h' := HF.step g b' hf x (fun _ _ _ n => n.cellF)

end Marwood.Lemmas.Good
