import Marwood.Lemmas.TransformEllSound
/-!
# The decidable pattern classes of T17.1 with ellipsis, and what they imply

* `bodyTrailing`  — `(_ p1 … pn x <ell>)`, `x` a symbol, `pi` ellipsis-free;
* `bodyVarTail`   — `(_ p1 … pn x <ell> q1 … qm)`;
* `bodySubTail`   — `(_ p1 … pn P <ell> q1 … qm)`, `P` any ellipsis-free sub-pattern;
each implies `nn` (ellipsis depth ≤ 1); the first never meets the `zeroRepTail` situation.
-/
namespace Marwood.Transform
open Marwood Marwood.Spec.Match

/-- the identifiers of a transformer as the specification's context -/
def ctxOf (t : Transform) : Ctx :=
  { ellipsis := (match t.ellipsis with | .sym es => es | _ => []),
    literals := t.literals.filterMap symName }

theorem ctxOf_eq (s : Setup) (t : Transform) (hte : t.ellipsis = s.ell) (htl : t.literals = s.lits) :
    ctxOf t = s.ctx := by
  simp only [ctxOf, hte, htl, Setup.ell, Setup.lits, Setup.ctx, List.filterMap_map]
  congr 1
  induction s.litNames with
  | nil => rfl
  | cons a as ih => simp [symName, ih]

/-- `(p1 … pn P <ell> q1 … qm)` with everything ellipsis-free -/
def bodySubTail (es : Text) : List Datum → Bool
  | x :: e :: rest =>
    if e = .sym es then plain es x && rest.all (plain es) else plain es x && bodySubTail es (e :: rest)
  | _ => false

/-- `(p1 … pn x <ell> q1 … qm)` with `x` a symbol -/
def bodyVarTail (es : Text) : List Datum → Bool
  | x :: e :: rest =>
    if e = .sym es then isSymbol x && plain es x && rest.all (plain es)
    else plain es x && bodyVarTail es (e :: rest)
  | _ => false

/-- `(p1 … pn x <ell>)` with `x` a symbol -/
def bodyTrailing (es : Text) : List Datum → Bool
  | x :: e :: rest =>
    if e = .sym es then isSymbol x && plain es x && rest.isEmpty
    else plain es x && bodyTrailing es (e :: rest)
  | _ => false

theorem bodyTrailing_varTail (es : Text) : ∀ items, bodyTrailing es items = true → bodyVarTail es items = true := by
  intro items
  induction items with
  | nil => intro h; simp [bodyTrailing] at h
  | cons x items ih =>
    intro h
    cases items with
    | nil => simp [bodyTrailing] at h
    | cons e rest =>
      simp only [bodyTrailing] at h
      simp only [bodyVarTail]
      split
      · rename_i he
        simp only [he, if_true, Bool.and_eq_true] at h
        have : rest = [] := by simpa using h.2
        simp [h.1.1, h.1.2, this]
      · rename_i he
        simp only [he, if_false, Bool.and_eq_true] at h
        simp [h.1, ih h.2]

theorem bodyVarTail_subTail (es : Text) : ∀ items, bodyVarTail es items = true → bodySubTail es items = true := by
  intro items
  induction items with
  | nil => intro h; simp [bodyVarTail] at h
  | cons x items ih =>
    intro h
    cases items with
    | nil => simp [bodyVarTail] at h
    | cons e rest =>
      simp only [bodyVarTail] at h
      simp only [bodySubTail]
      split
      · rename_i he
        simp only [he, if_true, Bool.and_eq_true] at h
        simp [h.1.2, h.2]
      · rename_i he
        simp only [he, if_false, Bool.and_eq_true] at h
        simp [h.1, ih h.2]

theorem nn_of_plain (es : Text) : ∀ a : Datum,
    (plain es a = true → nn es a = true) ∧ (plain.plainTail es a = true → nn es a = true) := by
  intro a
  induction a with
  | pair h tl ihh iht =>
    have key : plain es h = true → plain.plainTail es tl = true → nn es (.pair h tl) = true := by
      intro hh htl
      cases tl with
      | pair e r =>
        have he : e ≠ .sym es := by
          simp only [plain.plainTail, Bool.and_eq_true] at htl
          intro he
          have := plain_ne_ell htl.1
          simp [he] at this
        simp only [nn, he, if_false, Bool.and_eq_true]
        exact ⟨ihh.1 hh, iht.2 htl⟩
      | nil => simp [nn, ihh.1 hh]
      | _ => simp [plain.plainTail] at htl
    constructor
    · intro hp; simp only [plain, Bool.and_eq_true] at hp; exact key hp.1 hp.2
    · intro hp; simp only [plain.plainTail, Bool.and_eq_true] at hp; exact key hp.1 hp.2
  | vec v _ => exact ⟨fun h => by simp [plain] at h, fun h => by simp [plain.plainTail] at h⟩
  | _ => exact ⟨fun _ => by simp [nn], fun _ => by simp [nn]⟩

theorem plainTail_ofList (es : Text) : ∀ (xs : List Datum), xs.all (plain es) = true →
    plain.plainTail es (Datum.ofList xs) = true := by
  intro xs
  induction xs with
  | nil => intro _; rfl
  | cons x xs ih =>
    intro h
    simp only [List.all_cons, Bool.and_eq_true] at h
    simp [Datum.ofList, plain.plainTail, h.1, ih h.2]

theorem nn_of_subTail (es : Text) : ∀ items, bodySubTail es items = true → nn es (Datum.ofList items) = true := by
  intro items
  induction items with
  | nil => intro h; simp [bodySubTail] at h
  | cons x items ih =>
    intro h
    cases items with
    | nil => simp [bodySubTail] at h
    | cons e rest =>
      simp only [bodySubTail] at h
      simp only [Datum.ofList, nn]
      split
      · rename_i he
        simp only [he, if_true, Bool.and_eq_true] at h
        simp only [Bool.and_eq_true]
        exact ⟨h.1, (nn_of_plain es _).2 (plainTail_ofList es rest h.2)⟩
      · rename_i he
        simp only [he, if_false, Bool.and_eq_true] at h
        simp only [Bool.and_eq_true]
        exact ⟨(nn_of_plain es x).1 h.1, ih h.2⟩

/-! ### the trailing class never meets the `zeroRepTail` situation -/

theorem gp_plain (s : Setup) : ∀ (P : Datum),
    (plain s.es P = true → ∀ E, gp s.ctx P E = false) ∧
    (plain.plainTail s.es P = true → ∀ E, gp s.ctx P E = false) := by
  intro P
  induction P with
  | pair h tl ihh iht =>
    have key : plain s.es h = true → plain.plainTail s.es tl = true → ∀ E, gp s.ctx (.pair h tl) E = false := by
      intro hh htl E
      rw [gp_cons _ _ _ _ (headNotEll_plainTail s htl)]
      cases E with
      | pair e1 er => simp [ihh.1 hh e1, iht.2 htl er]
      | _ => rfl
    constructor
    · intro hp; simp only [plain, Bool.and_eq_true] at hp; exact key hp.1 hp.2
    · intro hp; simp only [plain.plainTail, Bool.and_eq_true] at hp; exact key hp.1 hp.2
  | _ => exact ⟨fun _ E => by simp [gp, zeroRepTail], fun _ E => by simp [gp, zeroRepTail]⟩

theorem gp_trailing (s : Setup) : ∀ items, bodyTrailing s.es items = true →
    ∀ E, gp s.ctx (Datum.ofList items) E = false := by
  intro items
  induction items with
  | nil => intro h; simp [bodyTrailing] at h
  | cons x items ih =>
    intro h E
    cases items with
    | nil => simp [bodyTrailing] at h
    | cons e rest =>
      simp only [bodyTrailing] at h
      by_cases he : e = .sym s.es
      · simp only [he, if_true, Bool.and_eq_true] at h
        have hr : rest = [] := by simpa using h.2
        subst he hr
        have hq : s.ctx.isEllD (.sym s.es) = true := isEllD_ell s
        simp only [Datum.ofList]
        rw [gp_ell _ _ _ _ _ hq]
        have hx := (gp_plain s x).1 h.1.2
        simp [spineLen, hx, gp_nil]
      · simp only [he, if_false, Bool.and_eq_true] at h
        have hhd : headNotEll s.ctx (Datum.ofList (e :: rest)) = true := by
          simp [Datum.ofList, headNotEll, s.isEllD_eq, Setup.ell, he]
        simp only [Datum.ofList] at hhd ⊢
        rw [gp_cons _ _ _ _ hhd]
        cases E with
        | pair e1 er =>
          have := ih h.2 er
          simp only [Datum.ofList] at this
          simp [(gp_plain s x).1 h.1 e1, this]
        | _ => rfl

end Marwood.Transform
