import Marwood.Lemmas.CompileCorrect3Err
import Marwood.Lemmas.CompileCorrect2FailMain
/-!
# T01.3 stage 3, ERROR case — references, `set!`, `if`, operand lists

As `CompileCorrect2FailMain.lean`, over `Inv3`/`EnvRep3`/`Ext3`. A reference to a lexical variable never fails (its
cell is there); the unbound-variable error is that of a global.
-/
namespace Marwood.Lemmas.CompileCorrect3
open Marwood Marwood.Vm Marwood.Lemmas.CompileCorrect Marwood.Lemmas.CompileCorrect2
open Marwood.Spec.Eval (Val Prim Cell Env ErrClass evalN evalStep applyStep evalArgs properList quoteVal kwOf insertG
  k_quote k_if_ k_setBang k_define k_lambda)

variable {H : Type} {ops : HeapOps H} {D : RepData2 ops}

theorem err3_sym (L : Laws3 D) {f : Nat} {cst cst' : CState} {c : Ctx} {base : Nat} {tail : Bool} {x : Text}
    {code : List BC} {ρ : Env} {us : Text → Prop} (hsc : inEnv c x = true ↔ bound ρ x) (hcx : CtxOK c)
    (hcomp : compileExpr (f + 1) cst c base tail (.sym x) = .ok (cst', code))
    {r : Spec.Eval.Rec} {σ σ' : SSt} {cl : ErrClass} (hev : evalStep r (.sym x) ρ σ = .err cl σ') (hcs : cl ≠ .syntax)
    {W : World} {s : MSt H} {fr : Frame} (hc : CodeAt2 D c.envmap s.heap σ.store s.ipL base code)
    (hip : s.ipO = base) (hi : Inv3 D W s.heap σ) (her : EnvRep3 ops W s.heap c s.ep ρ us) (hw : SWF s.stack)
    (hfr : tail = true → FrameAt s.stack s.bp fr) :
    ∃ W' sf e', W.le W' ∧ ErrRun3 D W' s (errBase tail s fr) σ σ' cl sf e' := by
  have _ := L
  obtain ⟨rfl, _⟩ := compile_sym_inv2 hcomp
  subst hip
  rcases evalStep_sym_err_inv2 hev with h | ⟨l, hl, hno⟩ | ⟨hl, hg, rfl, rfl⟩
  · exact absurd h hcs
  · exfalso
    have hin : inEnv c x = true := hsc.mpr (by simp [bound, hl])
    obtain ⟨j, hj⟩ := (slotIdx_some_iff_inEnv c x).mp hin
    obtain ⟨e, n, l', _, hl', hW, _⟩ := her x j hj
    rw [hl] at hl'; cases hl'
    obtain ⟨_, w, _, _, h3, _⟩ := hi.vars e n l hW
    exact hno w h3
  · have hin : inEnv c x = false := by
      cases hb : inEnv c x with
      | false => rfl
      | true => have := hsc.mp hb; simp [bound, hl] at this
    rw [emitLoc_glob hcx hin] at hc
    have hu := hi.unbound x (hc.globalCell 1 rfl).1 hg
    have hs := step_mov_glob_unbound hc.1 (hc.op 0 rfl) (hc.globalCell 1 rfl).2 hu
    exact ⟨W, s, _, World.le_refl _, ⟨.refl _, hs, rfl, errBase_le hfr, hw, hi, Ext3.refl _ _⟩⟩

theorem err3_setBang (L : Laws3 D) {n : Nat} (ih : ExprOK3 D n) (ihe : ExprErr3NT D n)
    {f : Nat} {cst cst' : CState} {c : Ctx} {base : Nat} {tail : Bool} {x : Text} {e : Datum} {code : List BC}
    {ρ : Env} {us : Text → Prop} (hsc : inEnv c x = true ↔ bound ρ x) (hG : ¬ bound ρ x → D.setG x)
    (hfe : F3 D.setG f c (bound ρ) us false e) (hcx : CtxOK c)
    (hcomp : compileExpr (f + 1) cst c base tail
      (.pair (.sym k_setBang) (.pair (.sym x) (.pair e .nil))) = .ok (cst', code))
    (hpre : cst'.lambdas <+: D.final) {σ σ' : SSt} {cl : ErrClass}
    (hev : evalStep (evalN n) (.pair (.sym k_setBang) (.pair (.sym x) (.pair e .nil))) ρ σ = .err cl σ')
    (hcs : cl ≠ .syntax) {W : World} {s : MSt H} {fr : Frame}
    (hc : CodeAt2 D c.envmap s.heap σ.store s.ipL base code) (hip : s.ipO = base)
    (hi : Inv3 D W s.heap σ) (her : EnvRep3 ops W s.heap c s.ep ρ us) (hw : SWF s.stack)
    (hfr : tail = true → FrameAt s.stack s.bp fr) :
    ∃ W' sf e', W.le W' ∧ ErrRun3 D W' s (errBase tail s fr) σ σ' cl sf e' := by
  have _ := L
  obtain ⟨code1, hc1, rfl⟩ := compile_setBang_inv2 hcomp
  subst hip
  rcases evalStep_setBang_err_inv2 hev with h | h | ⟨v, σ1, he, hcase⟩
  · exact absurd h hcs
  · obtain ⟨W', sf, e', hw', r⟩ := ihe _ _ _ _ _ _ _ _ _ hfe hcx hc1 hpre σ cl σ' h hcs W s hc.left rfl hi her hw
    exact ⟨W', sf, e', hw', r.lift hfr (.refl _) (Ext3.refl _ _) (StackExt.refl _)⟩
  · exfalso
    obtain ⟨W1, s1, hw1, r1⟩ := ih _ _ _ _ _ _ _ _ _ hfe hcx hc1 hpre σ v σ1 he W s hc.left rfl hi her hw
    rcases hcase with ⟨l, hl, hnlt⟩ | ⟨hl, hg⟩
    · have hin : inEnv c x = true := hsc.mpr (by simp [bound, hl])
      obtain ⟨j, hj⟩ := (slotIdx_some_iff_inEnv c x).mp hin
      obtain ⟨e0, n0, l', _, hl', hW, _⟩ := her x j hj
      rw [hl] at hl'; cases hl'
      obtain ⟨_, w, _, _, h3, _⟩ := r1.inv.vars e0 n0 l (hw1 _ _ _ hW)
      exact hnlt (lt_size_of_get h3)
    · exact r1.inv.gset x (hG (by simp [bound, hl])) hg

theorem err3_if2 (L : Laws3 D) {n : Nat} (ih : ExprOK3 D n) (ihe : ExprErr3NT D n) (ihet : ExprErr3 D n)
    {f : Nat} {cst cst' : CState} {c : Ctx} {base : Nat} {tail : Bool} {t cn : Datum} {code : List BC} {ρ : Env}
    {us : Text → Prop}
    (hft : F3 D.setG f c (bound ρ) us false t) (hfc : F3 D.setG f c (bound ρ) us tail cn) (hcx : CtxOK c)
    (hcomp : compileExpr (f + 1) cst c base tail (.pair (.sym k_if_) (.pair t (.pair cn .nil))) = .ok (cst', code))
    (hpre : cst'.lambdas <+: D.final) {σ σ' : SSt} {cl : ErrClass}
    (hev : evalStep (evalN n) (.pair (.sym k_if_) (.pair t (.pair cn .nil))) ρ σ = .err cl σ') (hcs : cl ≠ .syntax)
    {W : World} {s : MSt H} {fr : Frame}
    (hc : CodeAt2 D c.envmap s.heap σ.store s.ipL base code) (hip : s.ipO = base)
    (hi : Inv3 D W s.heap σ) (her : EnvRep3 ops W s.heap c s.ep ρ us) (hw : SWF s.stack)
    (hfr : tail = true → FrameAt s.stack s.bp fr) :
    ∃ W' sf e', W.le W' ∧ ErrRun3 D W' s (errBase tail s fr) σ σ' cl sf e' := by
  obtain ⟨cst1, tcode, ccode, hct, hcc, rfl⟩ := compile_if2_inv2 hcomp
  subst hip
  have hcT := hc.left.left.left.left
  have hcJ := hc.left.left.left.right
  have hcC := hc.left.left.right
  have hpre1 : cst1.lambdas <+: D.final := ((monoOK3 _ f).1 _ _ _ _ _ _ _ _ _ hfc hcc).trans hpre
  rcases evalStep_if2_err_inv hev with h | ⟨v, σ1, het, htr, hec⟩
  · obtain ⟨W', sf, e', hw', r⟩ := ihe _ _ _ _ _ _ _ _ _ hft hcx hct hpre1 σ cl σ' h hcs W s hcT rfl hi her hw
    exact ⟨W', sf, e', hw', r.lift hfr (.refl _) (Ext3.refl _ _) (StackExt.refl _)⟩
  · obtain ⟨W1, s1, hw1, r1⟩ := ih _ _ _ _ _ _ _ _ _ hft hcx hct hpre1 σ v σ1 het W s hcT rfl hi her hw
    have hcJ1 := (r1.codeAfter hcJ).cast r1.ipO.symm
    have her1 : EnvRep3 ops W1 s1.heap c s1.ep ρ us := by rw [r1.ep]; exact her.ext r1.ext hw1
    have hfr1 : tail = true → FrameAt s1.stack s1.bp fr := by
      intro ht; rw [r1.bp]; exact (hfr ht).of_liveEq r1.stack
    have ipo1 := r1.ipO
    have hne : ops.deref s1.heap s1.acc ≠ .bool false := fun e =>
      not_false_of_truthy htr ((VR3.truth L r1.acc).mp e)
    have hj := step_jnt_true hcJ1.1 (hcJ1.op 0 rfl) (hcJ1.targetCell 1 rfl) hne
    have hcC1 : CodeAt2 D c.envmap s1.heap σ1.store s1.ipL (s.ipO + tcode.length + 2) ccode :=
      (r1.codeAfter hcC).cast (by simp only [List.length_append, List.length_cons, List.length_nil]; omega)
    obtain ⟨W3, sf, e', hw3, r3⟩ := ihet _ _ _ _ _ _ _ _ _ _ hfc hcx hcc hpre σ1 cl σ' hec hcs W1
      { s1 with ipO := s1.ipO + 2 } fr hcC1 (by show s1.ipO + 2 = _; omega) r1.inv her1 r1.swf hfr1
    exact ⟨W3, sf, e', World.le_trans hw1 hw3,
      r3.after (r1.steps.trans (Steps.one hj)) r1.ext (errBase_mono (s1 := { s1 with ipO := s1.ipO + 2 }) r1.stack.ext)⟩

theorem err3_if3 (L : Laws3 D) {n : Nat} (ih : ExprOK3 D n) (ihe : ExprErr3NT D n) (ihet : ExprErr3 D n)
    {f : Nat} {cst cst' : CState} {c : Ctx} {base : Nat} {tail : Bool} {t cn a : Datum} {code : List BC} {ρ : Env}
    {us : Text → Prop}
    (hft : F3 D.setG f c (bound ρ) us false t) (hfc : F3 D.setG f c (bound ρ) us tail cn)
    (hfa : F3 D.setG f c (bound ρ) us tail a) (hcx : CtxOK c)
    (hcomp : compileExpr (f + 1) cst c base tail
      (.pair (.sym k_if_) (.pair t (.pair cn (.pair a .nil)))) = .ok (cst', code))
    (hpre : cst'.lambdas <+: D.final) {σ σ' : SSt} {cl : ErrClass}
    (hev : evalStep (evalN n) (.pair (.sym k_if_) (.pair t (.pair cn (.pair a .nil)))) ρ σ = .err cl σ')
    (hcs : cl ≠ .syntax) {W : World} {s : MSt H} {fr : Frame}
    (hc : CodeAt2 D c.envmap s.heap σ.store s.ipL base code) (hip : s.ipO = base)
    (hi : Inv3 D W s.heap σ) (her : EnvRep3 ops W s.heap c s.ep ρ us) (hw : SWF s.stack)
    (hfr : tail = true → FrameAt s.stack s.bp fr) :
    ∃ W' sf e', W.le W' ∧ ErrRun3 D W' s (errBase tail s fr) σ σ' cl sf e' := by
  obtain ⟨cst1, cst2, tcode, ccode, acode, hct, hcc, hca, rfl⟩ := compile_if3_inv2 hcomp
  subst hip
  have hcT := hc.left.left.left.left
  have hcJ := hc.left.left.left.right
  have hcC := hc.left.left.right
  have hcA := hc.right
  have hpre2 : cst2.lambdas <+: D.final := ((monoOK3 _ f).1 _ _ _ _ _ _ _ _ _ hfa hca).trans hpre
  have hpre1 : cst1.lambdas <+: D.final := ((monoOK3 _ f).1 _ _ _ _ _ _ _ _ _ hfc hcc).trans hpre2
  rcases evalStep_if3_err_inv hev with h | ⟨v, σ1, het, hbr⟩
  · obtain ⟨W', sf, e', hw', r⟩ := ihe _ _ _ _ _ _ _ _ _ hft hcx hct hpre1 σ cl σ' h hcs W s hcT rfl hi her hw
    exact ⟨W', sf, e', hw', r.lift hfr (.refl _) (Ext3.refl _ _) (StackExt.refl _)⟩
  · obtain ⟨W1, s1, hw1, r1⟩ := ih _ _ _ _ _ _ _ _ _ hft hcx hct hpre1 σ v σ1 het W s hcT rfl hi her hw
    have hcJ1 := (r1.codeAfter hcJ).cast r1.ipO.symm
    have her1 : EnvRep3 ops W1 s1.heap c s1.ep ρ us := by rw [r1.ep]; exact her.ext r1.ext hw1
    have hfr1 : tail = true → FrameAt s1.stack s1.bp fr := by
      intro ht; rw [r1.bp]; exact (hfr ht).of_liveEq r1.stack
    have ipo1 := r1.ipO
    rcases hbr with ⟨htr, hec⟩ | ⟨rfl, hea⟩
    · have hne : ops.deref s1.heap s1.acc ≠ .bool false := fun e =>
        not_false_of_truthy htr ((VR3.truth L r1.acc).mp e)
      have hj := step_jnt_true hcJ1.1 (hcJ1.op 0 rfl) (hcJ1.targetCell 1 rfl) hne
      have hcC1 : CodeAt2 D c.envmap s1.heap σ1.store s1.ipL (s.ipO + tcode.length + 2) ccode :=
        (r1.codeAfter hcC).cast (by simp only [List.length_append, List.length_cons, List.length_nil]; omega)
      obtain ⟨W3, sf, e', hw3, r3⟩ := ihet _ _ _ _ _ _ _ _ _ _ hfc hcx hcc hpre2 σ1 cl σ' hec hcs W1
        { s1 with ipO := s1.ipO + 2 } fr hcC1 (by show s1.ipO + 2 = _; omega) r1.inv her1 r1.swf hfr1
      exact ⟨W3, sf, e', World.le_trans hw1 hw3,
        r3.after (r1.steps.trans (Steps.one hj)) r1.ext
          (errBase_mono (s1 := { s1 with ipO := s1.ipO + 2 }) r1.stack.ext)⟩
    · have hf : ops.deref s1.heap s1.acc = .bool false := (VR3.truth L r1.acc).mpr rfl
      have hj := step_jnt_false hcJ1.1 (hcJ1.op 0 rfl) (hcJ1.targetCell 1 rfl) hf
      have hcA1 : CodeAt2 D c.envmap s1.heap σ1.store s1.ipL (s.ipO + tcode.length + 2 + ccode.length + 2) acode :=
        (r1.codeAfter hcA).cast (by simp only [List.length_append, List.length_cons, List.length_nil]; omega)
      obtain ⟨W3, sf, e', hw3, r3⟩ := ihet _ _ _ _ _ _ _ _ _ _ hfa hcx hca hpre σ1 cl σ' hea hcs W1
        { s1 with ipO := s.ipO + tcode.length + 2 + ccode.length + 2 } fr hcA1 rfl r1.inv her1 r1.swf hfr1
      exact ⟨W3, sf, e', World.le_trans hw1 hw3,
        r3.after (r1.steps.trans (Steps.one hj)) r1.ext
          (errBase_mono (s1 := { s1 with ipO := s.ipO + tcode.length + 2 + ccode.length + 2 }) r1.stack.ext)⟩

/-- operand lists -/
theorem argsErr3 (L : Laws3 D) {n : Nat} (ih : ExprOK3 D n) (ihe : ExprErr3NT D n) :
    ∀ (es : List Datum) f cst c base rest cst' code k (ρ : Env) (us : Text → Prop),
    F3L D.setG f c (bound ρ) us rest → CtxOK c →
    compileArgs f cst c base rest = .ok (cst', code, k) → cst'.lambdas <+: D.final →
    properList rest = some es →
    ∀ (σ : SSt) cl (σ' : SSt), evalArgs (evalN n) ρ es σ = .err cl σ' → cl ≠ .syntax →
    ∀ (W : World) (s : MSt H), CodeAt2 D c.envmap s.heap σ.store s.ipL base code → s.ipO = base →
      Inv3 D W s.heap σ → EnvRep3 ops W s.heap c s.ep ρ us → SWF s.stack →
    ∃ W' sf e', W.le W' ∧ ErrRun3 D W' s s.stack σ σ' cl sf e' := by
  have _ := L
  intro es
  induction es with
  | nil =>
    intro f cst c base rest cst' code k ρ us hfl hcx hcomp hpre hpl σ cl σ' hev
    exact absurd hev evalArgs_nil_ne_err
  | cons e0 es ihes =>
    intro f cst c base rest cst' code k ρ us hfl hcx hcomp hpre hpl σ cl σ' hev hcs W s hc hip hi her hw
    cases hfl with
    | nil => simp [properList] at hpl
    | cons a d hfa hfd =>
      obtain ⟨cst1, code1, code2, k2, hca, hcd, rfl, rfl⟩ := compileArgs_pair_inv2 hcomp
      obtain ⟨es', hpl', hes⟩ := properList_pair_inv hpl
      cases hes
      subst hip
      have hpre1 : cst1.lambdas <+: D.final := ((monoOK3 _ _).2.1 _ _ _ _ _ _ _ _ _ hfd hcd).trans hpre
      rcases evalArgs_cons_err_inv hev with h | ⟨v, σ1, hea, hed⟩
      · exact ihe _ _ _ _ _ _ _ _ _ hfa hcx hca hpre1 σ cl σ' h hcs W s hc.left.left rfl hi her hw
      · obtain ⟨W1, s1, hw1, r1⟩ := ih _ _ _ _ _ _ _ _ _ hfa hcx hca hpre1 σ v σ1 hea W s hc.left.left rfl hi her hw
        have hcP1 : CodeAt2 D c.envmap s1.heap σ1.store s1.ipL s1.ipO [BC.op .pushAcc] :=
          (r1.codeAfter hc.left.right).cast r1.ipO.symm
        have hp := step_pushAcc hcP1.1 (hcP1.op 0 rfl)
        have hcD : CodeAt2 D c.envmap s1.heap σ1.store s1.ipL (s.ipO + code1.length + 1) code2 :=
          (r1.codeAfter hc.right).cast (by simp only [List.length_append, List.length_cons, List.length_nil]; omega)
        have her1 : EnvRep3 ops W1 s1.heap c s1.ep ρ us := by rw [r1.ep]; exact her.ext r1.ext hw1
        obtain ⟨W3, sf, e', hw3, r3⟩ := ihes _ _ _ _ _ _ _ _ _ _ hfd hcx hcd hpre hpl' σ1 cl σ' hed hcs W1
          { s1 with stack := s1.stack.push s1.acc, ipO := s1.ipO + 1 } hcD
          (by show s1.ipO + 1 = _; rw [r1.ipO]) r1.inv her1 (push_swf _ _)
        exact ⟨W3, sf, e', World.le_trans hw1 hw3,
          r3.after (r1.steps.trans (Steps.one hp)) r1.ext (r1.stack.ext.trans (StackExt.push _ _ r1.swf))⟩

end Marwood.Lemmas.CompileCorrect3
