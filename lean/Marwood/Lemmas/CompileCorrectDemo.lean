import Marwood.Lemmas.CompileCorrectConcrete
/-!
# T01.3 stage 1 — the builtin hypothesis is satisfiable: a concrete machine with `not`

`notExt` gives the concrete machine one generic builtin (every id behaves as `not`); the encoding supports
the primitive `not` (builtin id 7). All of `AtomLaws` then holds (`not_atomLaws`) — in particular the
`builtin` field, the only assumption that is not about the heap proper — and the main theorem applies to
`(not #t)` in a heap whose global `not` holds builtin 7 (`demo_not_runs`).
-/
namespace Marwood.Lemmas.CompileCorrect
open Marwood Marwood.Vm Marwood.Vm.Concrete
open Marwood.Spec.Eval (Val Prim applyPrim1 truthy)

def notExt : ExtOps where
  builtinKind _ _ := .generic
  builtinEval h _ args := match args with
    | [v] => .ok (h, .bool (Concrete.deref h v == .bool false))
    | _ => .err .invalidNumArgs
  compileEval _ _ := .err .invalidSyntax
  vectorPush _ _ _ := .err .invalidSyntax

def notEnc (int : Int → String) (char : Char → String) (str sym : Text → String) : AtomEnc :=
  ⟨int, char, str, sym, fun p => if p = .not then some 7 else none⟩

theorem not_truthy_iff (x : Val) : (!truthy x) = true ↔ x = .bool false := by
  cases x <;> simp [truthy]
  rename_i b; cases b <;> simp

theorem atomVR_deref {ext : ExtOps} {E : AtomEnc} {h : CHeap} {S : Array Spec.Eval.Cell} {v : VCell} {x : Val}
    (hv : atomVR (concreteOps ext) E h S v x) : ∃ c, E.cell x = some c ∧ Concrete.deref h v = c := by
  obtain ⟨c, hc, hv⟩ := hv
  refine ⟨c, hc, ?_⟩
  rcases hv with rfl | ⟨p, rfl, hg⟩
  · have := cell_not_ptr hc
    cases v <;> first | rfl | exact absurd rfl (this _)
  · exact hg

theorem not_atomLaws (int : Int → String) (char : Char → String) (str sym : Text → String)
    (named : Text → Prop) (slot : Text → Nat)
    (hinj : ∀ a b, named a → named b → slot a = slot b → a = b) :
    AtomLaws (concreteOps notExt) (notEnc int char str sym) (concreteBase notExt named slot) := by
  refine concrete_atomLaws notExt _ named slot hinj ?_ ?_
  · intro p id h
    simp only [notEnc] at h
    split at h
    · rename_i hp; subst hp; exact ⟨by decide, by decide, by decide, by decide, by decide⟩
    · cases h
  · intro h σ p id vs ws w σ' l hsr hp hvs hap
    simp only [notEnc] at hp
    split at hp
    · rename_i hpn
      subst hpn
      cases hp
      refine ⟨rfl, ?_⟩
      match ws, hvs, hap with
      | [], _, hap => cases hap
      | [x], hvs, hap =>
        cases hvs with
        | cons hv ht =>
          cases ht
          rename_i v
          have hw : w = .bool (!truthy x) ∧ σ' = σ := by
            change Spec.Eval.Res.ok (Val.bool (!truthy x)) σ = _ at hap
            injection hap with h1 h2
            exact ⟨h1.symm, h2.symm⟩
          obtain ⟨rfl, rfl⟩ := hw
          obtain ⟨c, hc, hd⟩ := atomVR_deref hv
          refine ⟨h, .bool (Concrete.deref h v == .bool false), rfl, ?_, hsr, Evolves.refl _ _ _⟩
          refine ⟨.bool (!truthy x), rfl, .inl ?_⟩
          congr 1
          rw [hd]
          have h1 := cell_false_iff hc
          have h2 := not_truthy_iff x
          by_cases hx : x = .bool false
          · rw [h1.mpr hx, h2.mpr hx]; rfl
          · have hc' : ¬ c = .bool false := fun e => hx (h1.mp e)
            have ht : ¬ (!truthy x) = true := fun e => hx (h2.mp e)
            simp only [Bool.not_eq_true] at ht
            rw [ht]
            simpa using hc'
      | x :: y :: r, _, hap => cases hap
    · cases hp

/-! ## `(not #t)` end to end -/

def k_not : Text := ['n', 'o', 't']

def notExpr : Datum := .pair (.sym k_not) (.pair (.bool true) .nil)

def notCode : List BC :=
  [.op .movImm, .datum (.bool true), .acc, .op .pushAcc, .op .pushImm, .argc 1,
   .op .mov, .global k_not, .acc, .op .callAcc]

def notHeap : CHeap :=
  { chunk := 1
    cells := #[.lambda ⟨[.opcode .movImm, .bool true, .acc, .opcode .pushAcc, .opcode .pushImm, .argc 1,
                         .opcode .mov, .globSlot 0, .acc, .opcode .callAcc], [], []⟩]
    gc := #[.allocated], free := [], symtab := [], globSyms := [], globals := #[.builtin 7] }

def notState : MSt CHeap :=
  { heap := notHeap, stack := ⟨[.undefined, .undefined, .undefined, .undefined], 0⟩, acc := .undefined,
    ep := 0, ipL := 0, ipO := 0, bp := 0 }

def notSpecSt : SSt := { globals := [(k_not, .prim .not)], store := #[], out := [] }

theorem notExpr_frag : Frag notExpr := by
  refine .app _ _ ⟨by decide, ?_⟩ (.sym _) (.cons _ _ (.bool true) .nil)
  intro x hx; cases hx; decide

theorem notExpr_compile : compileExpr 3 {} c0 0 false notExpr = .ok ({}, notCode) := by
  simp [compileExpr, compileArgs, notExpr, notCode, k_not, Datum.isSymStr, emitLoc, Ctx.bindingLocation, c0,
    isPrimitive, primitiveSymbols]

theorem notExpr_eval : (Spec.Eval.evalN 3).eval notExpr [] notSpecSt = .ok (.bool false) notSpecSt := by
  rfl

theorem demo_not_runs (int : Int → String) (char : Char → String) (str sym : Text → String) :
    ∃ s', ExprRun (atomData (concreteOps notExt) (notEnc int char str sym)
        (concreteBase notExt (fun x => x = k_not) (fun _ => 0)))
      notState 10 notSpecSt notSpecSt (.bool false) s' := by
  refine compileExpr_correct_atoms
    (not_atomLaws int char str sym (fun x => x = k_not) (fun _ => 0) (by intro a b ha hb _; rw [ha, hb]))
    3 {} 0 false notExpr {} notCode notExpr_frag notExpr_compile 3 notSpecSt (.bool false) notSpecSt
    notExpr_eval notState ⟨rfl, ?_⟩ rfl ⟨?_, ?_, ?_⟩ (by show 0 < 4; omega)
  · intro i bc hi
    match i, hi with
    | 0, hi => cases hi; exact ⟨_, rfl, rfl⟩
    | 1, hi =>
      cases hi
      refine ⟨.bool true, rfl, ?_⟩
      show (∀ o, VCell.bool true ≠ .opcode o) ∧ ∀ w, atomVal (.bool true) = some w → _
      exact ⟨(by intro o h; cases h), (by intro w hw; cases hw; exact ⟨.bool true, rfl, .inl rfl⟩)⟩
    | 2, hi => cases hi; exact ⟨_, rfl, rfl⟩
    | 3, hi => cases hi; exact ⟨_, rfl, rfl⟩
    | 4, hi => cases hi; exact ⟨_, rfl, rfl⟩
    | 5, hi => cases hi; exact ⟨_, rfl, rfl⟩
    | 6, hi => cases hi; exact ⟨_, rfl, rfl⟩
    | 7, hi => cases hi; exact ⟨_, rfl, ⟨rfl, rfl⟩⟩
    | 8, hi => cases hi; exact ⟨_, rfl, rfl⟩
    | 9, hi => cases hi; exact ⟨_, rfl, rfl⟩
    | n + 10, hi => cases hi
  · intro x w hx hl
    cases (show x = k_not from hx)
    have : w = .prim .not := by
      have : notSpecSt.globals.lookup k_not = some (.prim .not) := by decide
      rw [this] at hl; injection hl with hl; exact hl.symm
    subst this
    exact ⟨.builtin 7, rfl, .inl rfl⟩
  · intro x hx hl
    cases (show x = k_not from hx)
    have : notSpecSt.globals.lookup k_not = some (.prim .not) := by decide
    rw [this] at hl; cases hl
  · intro x hx
    show (fun _ => 0) x < notHeap.globals.size
    show 0 < 1
    omega

end Marwood.Lemmas.CompileCorrect
