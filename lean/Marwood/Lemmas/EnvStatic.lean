import Marwood.Vm.Env
import Marwood.Spec.Scope
/-!
# Lemmas for T02.1: environment-map chains end at the innermost binder
-/
namespace Marwood.Vm.Env
open Marwood.Scope Marwood.Spec.Scope

/-- first entry for a symbol with its index -/
def entryOf : Envmap → Name → Option (Nat × Source)
  | [], _ => none
  | (y, src) :: em, x => if y = x then some (0, src) else (entryOf em x).map fun (i, s) => (i + 1, s)

theorem slotOf_eq_entryOf (em : Envmap) (x : Name) : slotOf em x = (entryOf em x).map (·.1) := by
  induction em with
  | nil => rfl
  | cons p em ih =>
    obtain ⟨y, src⟩ := p
    simp only [slotOf, entryOf]
    split
    · rfl
    · rw [ih]; cases entryOf em x <;> rfl

theorem entryOf_getElem (em : Envmap) (x : Name) (i : Nat) (src : Source)
    (h : entryOf em x = some (i, src)) : em[i]? = some (x, src) := by
  induction em generalizing i with
  | nil => simp [entryOf] at h
  | cons p em ih =>
    obtain ⟨y, s⟩ := p
    simp only [entryOf] at h
    split at h
    · next hy => cases h; simp [hy]
    · cases h' : entryOf em x with
      | none => simp [h'] at h
      | some q =>
        obtain ⟨j, t⟩ := q
        simp [h'] at h
        obtain ⟨rfl, rfl⟩ := h
        simpa using ih j h'

theorem entryOf_none_iff (em : Envmap) (x : Name) : entryOf em x = none ↔ ∀ p ∈ em, p.1 ≠ x := by
  induction em with
  | nil => simp [entryOf]
  | cons p em ih =>
    obtain ⟨y, s⟩ := p
    by_cases hy : y = x
    · subst hy
      simp [entryOf]
    · have h1 : (entryOf ((y, s) :: em) x = none) ↔ entryOf em x = none := by
        simp only [entryOf, if_neg hy]
        cases entryOf em x <;> simp
      rw [h1, ih]
      constructor
      · intro h p hp
        cases hp with
        | head => exact hy
        | tail _ hp => exact h p hp
      · intro h p hp
        exact h p (List.mem_cons_of_mem _ hp)

theorem entryOf_append (a b : Envmap) (x : Name) :
    entryOf (a ++ b) x = match entryOf a x with
      | some r => some r
      | none => (entryOf b x).map fun (i, s) => (i + a.length, s) := by
  induction a with
  | nil => simp [entryOf]
  | cons p a ih =>
    obtain ⟨y, s⟩ := p
    simp only [List.cons_append, entryOf]
    split
    · rfl
    · rw [ih]
      cases entryOf a x with
      | some r => rfl
      | none =>
        cases entryOf b x with
        | none => rfl
        | some q => simp [Nat.add_assoc]

theorem argIndex_none_iff (as : List Name) (x : Name) : argIndex as x = none ↔ x ∉ as := by
  induction as with
  | nil => simp [argIndex]
  | cons y ys ih =>
    by_cases hy : y = x
    · subst hy
      simp [argIndex]
    · have h1 : (argIndex (y :: ys) x = none) ↔ argIndex ys x = none := by
        simp only [argIndex, if_neg hy]
        cases argIndex ys x <;> simp
      rw [h1, ih]
      simp [Ne.symm hy]

theorem entryOf_argEntries (as : List Name) (i : Nat) (x : Name) :
    entryOf (argEntries as i) x = (argIndex as x).map fun n => (n, Source.argument (i + n)) := by
  induction as generalizing i with
  | nil => rfl
  | cons y ys ih =>
    simp only [argEntries, entryOf, argIndex]
    split
    · simp
    · rw [ih]
      cases argIndex ys x with
      | none => rfl
      | some n => simp; omega

theorem entryOf_internal (l : List Name) (x : Name) :
    (x ∉ l → entryOf (l.map fun s => (s, Source.internal)) x = none) ∧
    (x ∈ l → ∃ i, entryOf (l.map fun s => (s, Source.internal)) x = some (i, .internal)) := by
  induction l with
  | nil => simp [entryOf]
  | cons y ys ih =>
    simp only [List.map_cons, entryOf]
    split
    · next h => subst h; simp
    · next h =>
      constructor
      · intro hx
        have : x ∉ ys := fun hh => hx (List.mem_cons_of_mem _ hh)
        rw [ih.1 this]; rfl
      · intro hx
        have : x ∈ ys := by
          cases hx with
          | head => exact absurd rfl h
          | tail _ hh => exact hh
        obtain ⟨i, hi⟩ := ih.2 this
        exact ⟨i + 1, by rw [hi]; rfl⟩

theorem freeEntry_name (iof : LamCtx) (s : Name) (p : Name × Source) (h : freeEntry iof s = some p) :
    p.1 = s := by
  unfold freeEntry at h
  split at h
  · cases h; rfl
  · split at h
    · cases h; rfl
    · cases h

theorem entryOf_free (iof : LamCtx) (free : List Name) (x : Name) :
    (x ∉ free ∨ freeEntry iof x = none → entryOf (free.filterMap (freeEntry iof)) x = none) ∧
    (∀ src, x ∈ free → freeEntry iof x = some (x, src) →
        ∃ i, entryOf (free.filterMap (freeEntry iof)) x = some (i, src)) := by
  induction free with
  | nil => simp [entryOf]
  | cons y ys ih =>
    constructor
    · intro h
      rw [entryOf_none_iff]
      intro p hp
      rw [List.mem_filterMap] at hp
      obtain ⟨a, ha, hpa⟩ := hp
      have hn := freeEntry_name iof a p hpa
      intro hpx
      rw [hn] at hpx
      subst hpx
      cases h with
      | inl h => exact h ha
      | inr h => rw [h] at hpa; cases hpa
    · intro src hx hfe
      by_cases hy : y = x
      · subst hy
        refine ⟨0, ?_⟩
        simp [List.filterMap_cons, hfe, entryOf]
      · have hx' : x ∈ ys := by
          cases hx with
          | head => exact absurd rfl hy
          | tail _ hh => exact hh
        obtain ⟨i, hi⟩ := ih.2 src hx' hfe
        rw [List.filterMap_cons]
        cases hfy : freeEntry iof y with
        | none => exact ⟨i, hi⟩
        | some p =>
          have hn := freeEntry_name iof y p hfy
          obtain ⟨py, ps⟩ := p
          simp at hn
          subst hn
          refine ⟨i + 1, ?_⟩
          simp [entryOf, hy, hi]

/-! ### the first entry of a name in a new map -/

/-- a fixed or rest parameter: its own `Argument` entry -/
theorem entryOf_newEnvmap_arg (args internal free : List Name) (iof : LamCtx) (x : Name) (n : Nat)
    (h : argIndex args x = some n) :
    entryOf (newEnvmap args internal free iof) x = some (n, .argument n) := by
  unfold newEnvmap
  rw [List.append_assoc, entryOf_append, entryOf_argEntries, h]
  simp

/-- an internal definition that is not also a parameter: an `InternalDefinition` entry -/
theorem entryOf_newEnvmap_internal (args internal free : List Name) (iof : LamCtx) (x : Name)
    (ha : x ∉ args) (hi : x ∈ internal) :
    ∃ i, entryOf (newEnvmap args internal free iof) x = some (i, .internal) := by
  unfold newEnvmap
  rw [List.append_assoc, entryOf_append, entryOf_argEntries, (argIndex_none_iff args x).mpr ha]
  obtain ⟨i, hi'⟩ := (entryOf_internal internal x).2 hi
  simp only [Option.map_none]
  rw [entryOf_append, hi']
  exact ⟨_, rfl⟩

/-- a name the level does not bind: the entry `free_symbols` contributes, if any -/
theorem entryOf_newEnvmap_free (args internal free : List Name) (iof : LamCtx) (x : Name)
    (ha : x ∉ args) (hi : x ∉ internal) :
    (x ∉ free ∨ freeEntry iof x = none → entryOf (newEnvmap args internal free iof) x = none) ∧
    (∀ src, x ∈ free → freeEntry iof x = some (x, src) →
        ∃ i, entryOf (newEnvmap args internal free iof) x = some (i, src)) := by
  unfold newEnvmap
  rw [List.append_assoc, entryOf_append, entryOf_argEntries, (argIndex_none_iff args x).mpr ha]
  simp only [Option.map_none]
  rw [entryOf_append, (entryOf_internal internal x).1 hi]
  constructor
  · intro h
    rw [(entryOf_free iof free x).1 h]; rfl
  · intro src hx hfe
    obtain ⟨i, h⟩ := (entryOf_free iof free x).2 src hx hfe
    rw [h]
    exact ⟨_, rfl⟩

end Marwood.Vm.Env
