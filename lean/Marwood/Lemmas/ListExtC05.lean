import Marwood.Lemmas.ListExtSim
import Marwood.Lemmas.ListExtGood
import Marwood.Lemmas.ListExtCode
import Marwood.Lemmas.ListExtProc
import Marwood.Lemmas.ListExtDemo
import Marwood.Proofs.C04
import Marwood.Proofs.C05

/-! Corollaries of `Proofs/C05.lean` at the real builtins `listExtWith` (see Lemmas/ListExtProps.lean for the overview). -/

namespace Marwood.Proofs.C05
open Marwood.Vm Marwood.Vm.Stack Marwood.Proofs.C04 Marwood.Vm.Concrete Marwood.Vm.Verify

open Marwood.Lemmas.Good Marwood.Lemmas.Sim in
/-- **C05's run-level sentence at the real builtins**: if the run of the machine after `(k v)` — through any calls of
    `cons`, `car`, `set-car!`, … — halts with value `a` in heap `h`, so does its run from "call/cc has just returned
    `v`": same value, same heap. No hypothesis about the builtins. -/
theorem invoke_run_same_result_listExt (eqTag : String → String → Bool) (force : Bool)
    {s0 t t1 : St CHeap} {Kt : List FDesc} {op : Op} {n : Nat}
    (h0sp : 2 ≤ s0.stack.sp) (h0cap : s0.stack.sp < s0.stack.cells.length)
    (g : GoodI t) (hwt : WFS (concreteLawsV (listExtWith eqTag) (listExtWith_codeLawsV eqTag)) t Kt) (pt : PInv t)
    (sb : SizeBounded (machine (listExtWith eqTag) force) t)
    (hr : readOpcode (concreteOps (listExtWith eqTag)) t = .ok (op, t1)) (hop : op = .callAcc ∨ op = .tcallAcc)
    (hk : callee t.heap t.acc = .continuation (capturedCont s0))
    (hsp : 2 ≤ t.stack.sp) (htop : t.stack.cellAt t.stack.sp = .argc n) (hn : 1 ≤ n)
    (hfit : s0.stack.sp - 2 + 1 ≤ t.stack.cells.length) :
    ∃ r, step (concreteOps (listExtWith eqTag)) t = .ok (r, false) ∧
      ∀ (m : Nat) (r' : St CHeap),
        FitOK (concreteOps (listExtWith eqTag)) m r (Resume s0 (t.stack.cellAt (t.stack.sp - 1)) t.heap) →
        runN (concreteOps (listExtWith eqTag)) m r = .ok (r', true) →
        ∃ r'', runN (concreteOps (listExtWith eqTag)) m (Resume s0 (t.stack.cellAt (t.stack.sp - 1)) t.heap) =
            .ok (r'', true) ∧ r''.acc = r'.acc ∧ r''.heap = r'.heap :=
  invoke_run_same_result_machine _ force (listExtWith_laws eqTag) (listExtWith_good eqTag) (listExtWith_codeLawsV eqTag)
    (listExtWith_proc eqTag) h0sp h0cap g hwt pt sb hr hop hk hsp htop hn hfit

end Marwood.Proofs.C05
