import Marwood.Lemmas.CompileCorrectDefs
/-!
# T01.3 stage 1 — the code `compileExpr` emits for the forms of the fragment (top-level context)
-/
namespace Marwood.Lemmas.CompileCorrect
open Marwood Marwood.Vm
open Marwood.Spec.Eval (k_quote k_if_ k_setBang k_define)

theorem emitLoc_c0 (s : Text) : emitLoc c0 s = .global s := by
  simp [emitLoc, Ctx.bindingLocation, c0]

theorem storeCode_c0 (s : Text) :
    storeCode c0 s = [.op .mov, .acc, .global s, .op .movImm, .void, .acc] := by
  simp [storeCode, emitLoc_c0]

/-- heads against the compiler's keyword tests -/
theorem quote_tests :
    (Datum.sym k_quote).isSymStr ['d','e','f','i','n','e'] = false ∧
    (Datum.sym k_quote).isSymStr ['d','e','f','i','n','e','-','s','y','n','t','a','x'] = false ∧
    (Datum.sym k_quote).isSymStr ['l','a','m','b','d','a'] = false ∧
    (Datum.sym k_quote).isSymStr ['λ'] = false ∧
    (Datum.sym k_quote).isSymStr ['q','u','a','s','i','q','u','o','t','e'] = false ∧
    (Datum.sym k_quote).isSymStr ['q','u','o','t','e'] = true := by decide

theorem if_tests :
    (Datum.sym k_if_).isSymStr ['d','e','f','i','n','e'] = false ∧
    (Datum.sym k_if_).isSymStr ['d','e','f','i','n','e','-','s','y','n','t','a','x'] = false ∧
    (Datum.sym k_if_).isSymStr ['l','a','m','b','d','a'] = false ∧
    (Datum.sym k_if_).isSymStr ['λ'] = false ∧
    (Datum.sym k_if_).isSymStr ['q','u','a','s','i','q','u','o','t','e'] = false ∧
    (Datum.sym k_if_).isSymStr ['q','u','o','t','e'] = false ∧
    (Datum.sym k_if_).isSymStr ['i','f'] = true := by decide

theorem setBang_tests :
    (Datum.sym k_setBang).isSymStr ['d','e','f','i','n','e'] = false ∧
    (Datum.sym k_setBang).isSymStr ['d','e','f','i','n','e','-','s','y','n','t','a','x'] = false ∧
    (Datum.sym k_setBang).isSymStr ['l','a','m','b','d','a'] = false ∧
    (Datum.sym k_setBang).isSymStr ['λ'] = false ∧
    (Datum.sym k_setBang).isSymStr ['q','u','a','s','i','q','u','o','t','e'] = false ∧
    (Datum.sym k_setBang).isSymStr ['q','u','o','t','e'] = false ∧
    (Datum.sym k_setBang).isSymStr ['i','f'] = false ∧
    (Datum.sym k_setBang).isSymStr ['s','e','t','!'] = true := by decide

variable {fuel : Nat} {st st' : CState} {base : Nat} {tail : Bool} {code : List BC}

/-- a self-evaluating constant -/
theorem compile_const_inv {d : Datum}
    (hd : (∃ b, d = .bool b) ∨ (∃ c, d = .char c) ∨ (∃ n, d = .num n) ∨ (∃ s, d = .str s))
    (h : compileExpr (fuel + 1) st c0 base tail d = .ok (st', code)) :
    code = [.op .movImm, .datum d, .acc] := by
  rcases hd with ⟨b, rfl⟩ | ⟨c, rfl⟩ | ⟨n, rfl⟩ | ⟨s, rfl⟩ <;>
    (simp only [compileExpr] at h; cases h; rfl)

theorem compile_sym_inv {s : Text} (h : compileExpr (fuel + 1) st c0 base tail (.sym s) = .ok (st', code)) :
    code = [.op .mov, .global s, .acc] := by
  simp only [compileExpr] at h
  split at h
  · cases h
  · cases h; rw [emitLoc_c0]

theorem compile_quote_inv {d rest : Datum}
    (h : compileExpr (fuel + 1) st c0 base tail (.pair (.sym k_quote) (.pair d rest)) = .ok (st', code)) :
    code = [.op .movImm, .datum d, .acc] := by
  unfold compileExpr at h
  obtain ⟨t1, t2, t3, t4, t5, t6⟩ := quote_tests
  simp only [t1, t2, t3, t4, t5, t6, Bool.false_eq_true, if_false, if_true, Bool.or_self] at h
  cases h; rfl

theorem compile_setBang_inv {x : Text} {e : Datum}
    (h : compileExpr (fuel + 1) st c0 base tail
      (.pair (.sym k_setBang) (.pair (.sym x) (.pair e .nil))) = .ok (st', code)) :
    ∃ code1, compileExpr fuel st c0 base false e = .ok (st', code1) ∧
      code = code1 ++ [.op .mov, .acc, .global x, .op .movImm, .void, .acc] := by
  unfold compileExpr at h
  obtain ⟨t1, t2, t3, t4, t5, t6, t7, t8⟩ := setBang_tests
  simp only [t1, t2, t3, t4, t5, t6, t7, t8, Bool.false_eq_true, if_false, if_true, Bool.or_self,
    Datum.iter] at h
  split at h
  · cases h
  · cases h1 : compileExpr fuel st c0 base false e with
    | error err => rw [h1] at h; cases h
    | ok r1 =>
      obtain ⟨st1, code1⟩ := r1
      rw [h1] at h
      simp only [storeCode_c0] at h
      cases h
      exact ⟨code1, rfl, rfl⟩

theorem compile_if2_inv {t c : Datum}
    (h : compileExpr (fuel + 1) st c0 base tail
      (.pair (.sym k_if_) (.pair t (.pair c .nil))) = .ok (st', code)) :
    ∃ st1 tcode ccode, compileExpr fuel st c0 base false t = .ok (st1, tcode) ∧
      compileExpr fuel st1 c0 (base + tcode.length + 2) tail c = .ok (st', ccode) ∧
      code = tcode ++ [.op .jnt, .target (base + tcode.length + 2 + ccode.length + 2)] ++ ccode
              ++ [.op .jmp, .target (base + tcode.length + 2 + ccode.length + 2 + 3)]
              ++ [.op .movImm, .void, .acc] := by
  unfold compileExpr at h
  obtain ⟨t1, t2, t3, t4, t5, t6, t7⟩ := if_tests
  simp only [t1, t2, t3, t4, t5, t6, t7, Bool.false_eq_true, if_false, if_true, Bool.or_self,
    Datum.iter, Datum.isNil, Datum.isList, Bool.not_true] at h
  cases h1 : compileExpr fuel st c0 base false t with
  | error err => rw [h1] at h; cases h
  | ok r1 =>
    obtain ⟨st1, tcode⟩ := r1
    rw [h1] at h
    simp only at h
    cases h2 : compileExpr fuel st1 c0 (base + tcode.length + 2) tail c with
    | error err => rw [h2] at h; cases h
    | ok r2 =>
      obtain ⟨st2, ccode⟩ := r2
      rw [h2] at h
      simp only at h
      cases h
      exact ⟨st1, tcode, ccode, rfl, h2, rfl⟩

theorem compile_if3_inv {t c a : Datum}
    (h : compileExpr (fuel + 1) st c0 base tail
      (.pair (.sym k_if_) (.pair t (.pair c (.pair a .nil)))) = .ok (st', code)) :
    ∃ st1 st2 tcode ccode acode, compileExpr fuel st c0 base false t = .ok (st1, tcode) ∧
      compileExpr fuel st1 c0 (base + tcode.length + 2) tail c = .ok (st2, ccode) ∧
      compileExpr fuel st2 c0 (base + tcode.length + 2 + ccode.length + 2) tail a = .ok (st', acode) ∧
      code = tcode ++ [.op .jnt, .target (base + tcode.length + 2 + ccode.length + 2)] ++ ccode
              ++ [.op .jmp, .target (base + tcode.length + 2 + ccode.length + 2 + acode.length)]
              ++ acode := by
  unfold compileExpr at h
  obtain ⟨t1, t2, t3, t4, t5, t6, t7⟩ := if_tests
  simp only [t1, t2, t3, t4, t5, t6, t7, Bool.false_eq_true, if_false, if_true, Bool.or_self,
    Datum.iter, Datum.isNil, Datum.isList, Bool.not_true] at h
  cases h1 : compileExpr fuel st c0 base false t with
  | error err => rw [h1] at h; cases h
  | ok r1 =>
    obtain ⟨st1, tcode⟩ := r1
    rw [h1] at h
    simp only at h
    cases h2 : compileExpr fuel st1 c0 (base + tcode.length + 2) tail c with
    | error err => rw [h2] at h; cases h
    | ok r2 =>
      obtain ⟨st2, ccode⟩ := r2
      rw [h2] at h
      simp only at h
      cases h3 : compileExpr fuel st2 c0 (base + tcode.length + 2 + ccode.length + 2) tail a with
      | error err => rw [h3] at h; cases h
      | ok r3 =>
        obtain ⟨st3, acode⟩ := r3
        rw [h3] at h
        simp only at h
        cases h
        exact ⟨st1, st2, tcode, ccode, acode, rfl, h2, h3, rfl⟩

/-- application: operand codes (each followed by `PUSH`), the argument count, the operator, the call -/
theorem compile_app_inv {f rest : Datum} (hf : AppHead f)
    (h : compileExpr (fuel + 1) st c0 base tail (.pair f rest) = .ok (st', code)) :
    ∃ st1 code1 n pcode, compileArgs fuel st c0 base rest = .ok (st1, code1, n) ∧
      compileExpr fuel st1 c0 (base + code1.length + 2) false f = .ok (st', pcode) ∧
      code = code1 ++ [.op .pushImm, .argc n] ++ pcode ++ [.op (if tail then .tcallAcc else .callAcc)] := by
  unfold compileExpr at h
  have hn := hf.1
  have k1 := hn ['d','e','f','i','n','e'] (by simp [specialForms])
  have k2 := hn ['d','e','f','i','n','e','-','s','y','n','t','a','x'] (by simp [specialForms])
  have k3 := hn ['l','a','m','b','d','a'] (by simp [specialForms])
  have k4 := hn ['λ'] (by simp [specialForms])
  have k5 := hn ['q','u','a','s','i','q','u','o','t','e'] (by simp [specialForms])
  have k6 := hn ['q','u','o','t','e'] (by simp [specialForms])
  have k7 := hn ['i','f'] (by simp [specialForms])
  have k8 := hn ['s','e','t','!'] (by simp [specialForms])
  simp only [k1, k2, k3, k4, k5, k6, k7, k8, Bool.false_eq_true, if_false, Bool.or_self] at h
  cases h1 : compileArgs fuel st c0 base rest with
  | error e => simp [h1] at h
  | ok r1 =>
    obtain ⟨st1, code1, n⟩ := r1
    simp only [h1] at h
    cases h2 : compileExpr fuel st1 c0 (base + code1.length + 2) false f with
    | error e => simp [h2] at h
    | ok r2 =>
      obtain ⟨st2, pcode⟩ := r2
      simp only [h2] at h
      cases h
      exact ⟨st1, code1, n, pcode, rfl, h2, rfl⟩

theorem compileArgs_pair_inv {a d : Datum} {n : Nat}
    (h : compileArgs (fuel + 1) st c0 base (.pair a d) = .ok (st', code, n)) :
    ∃ st1 code1 code2 n2, compileExpr fuel st c0 base false a = .ok (st1, code1) ∧
      compileArgs fuel st1 c0 (base + code1.length + 1) d = .ok (st', code2, n2) ∧
      code = code1 ++ [.op .pushAcc] ++ code2 ∧ n = n2 + 1 := by
  simp only [compileArgs] at h
  cases h1 : compileExpr fuel st c0 base false a with
  | error e => simp [h1] at h
  | ok r1 =>
    obtain ⟨st1, code1⟩ := r1
    simp only [h1] at h
    cases h2 : compileArgs fuel st1 c0 (base + code1.length + 1) d with
    | error e => simp [h2] at h
    | ok r2 =>
      obtain ⟨st2, code2, n2⟩ := r2
      simp only [h2] at h
      cases h
      exact ⟨st1, code1, code2, n2, rfl, h2, rfl, rfl⟩

theorem compileArgs_nil_inv {n : Nat}
    (h : compileArgs (fuel + 1) st c0 base .nil = .ok (st', code, n)) : code = [] ∧ n = 0 := by
  simp only [compileArgs] at h
  cases h
  exact ⟨rfl, rfl⟩

end Marwood.Lemmas.CompileCorrect
