import Marwood.Lemmas.StackWFBuiltin
/-!
# TCALL to a procedure: the frame is replaced in place (both branches), and VARARG's frame rewrite
— inversion lemmas in the form the WF-stack preservation proof needs
-/
namespace Marwood.Vm
open Verify Stack

variable {H : Type} {ops : HeapOps H}

/-- the procedure arm of `stepTCall`, once the target lambda is known -/
def tcallTail (s : St H) (lam : Nat) : Outcome (St H) := do
  let argc ← (do let v ← s.stack.getOffset 0; asArgc v)
  let frameArgc ← (do let v ← s.stack.get (s.bp + 1); asArgc v)
  if argc = frameArgc then do
    let savedBp ← s.stack.get (s.bp + 4)
    let st ← tcallCopySame argc 0 s.bp s.stack
    let st := { st with sp := s.bp + 3 }
    let bp ← asBp savedBp
    .ok { s with stack := st, bp := bp, ipL := lam, ipO := 0 }
  else do
    let savedSp := s.stack.sp
    let savedEp ← s.stack.get (s.bp + 2)
    let savedIp ← s.stack.get (s.bp + 3)
    let savedBp ← s.stack.get (s.bp + 4)
    let sp0 ← usub s.bp frameArgc "tcall: bp - frame_argc"
    let st := { s.stack with sp := sp0 }
    let st ← tcallCopyDiff argc savedSp st
    let st := ((st.push (.argc argc)).push savedEp).push savedIp
    let bp ← asBp savedBp
    .ok { s with stack := st, bp := bp, ipL := lam, ipO := 0 }

theorem stepTCall_closure {s : St H} {lam env : Nat} (hc : ops.callee s.heap s.acc = .closure lam env) :
    stepTCall ops s = tcallTail s lam := by
  unfold stepTCall tcallTail
  rw [hc]
  rfl

theorem stepTCall_lambda {s : St H} (hc : ops.callee s.heap s.acc = .lambda) :
    stepTCall ops s = (asPtr s.acc >>= fun lam => tcallTail s lam) := by
  unfold stepTCall tcallTail
  rw [hc]

/-- TCALL rewrites the current frame: the new argument block starts where the old frame started, the
    saved `ep`/`ip` of the replaced frame follow it, `bp` is the replaced frame's saved `bp`, and
    nothing below the old frame is touched. -/
theorem tcallTail_ok {s s' : St H} {lam fa n B : Nat} {E I : VCell} (h : tcallTail s lam = .ok s')
    (hcap : s.stack.sp < s.stack.cells.length)
    (hfa : s.stack.cellAt (s.bp + 1) = .argc fa) (hE : s.stack.cellAt (s.bp + 2) = E)
    (hI : s.stack.cellAt (s.bp + 3) = I) (hB : s.stack.cellAt (s.bp + 4) = .basePtr B)
    (htop : s.stack.cellAt s.stack.sp = .argc n) (hroom : s.bp + 4 + n < s.stack.sp) (hbase : fa ≤ s.bp) :
    s'.stack.sp = s.bp - fa + n + 3 ∧ s'.stack.sp < s'.stack.cells.length ∧
      s'.stack.cellAt (s.bp - fa + n + 1) = .argc n ∧ s'.stack.cellAt (s.bp - fa + n + 2) = E ∧
      s'.stack.cellAt (s.bp - fa + n + 3) = I ∧
      (∀ i, i + fa ≤ s.bp → s'.stack.cellAt i = s.stack.cellAt i) ∧
      s'.bp = B ∧ s'.ipL = lam ∧ s'.ipO = 0 ∧ s'.heap = s.heap := by
  unfold tcallTail at h
  obtain ⟨argc, h1, h⟩ := bind_inv h
  obtain ⟨v0, g0, a0⟩ := bind_inv h1
  obtain ⟨fargc, h2, h⟩ := bind_inv h
  obtain ⟨v1, g1, a1⟩ := bind_inv h2
  have e0 := asArgc_ok a0
  have e1 := asArgc_ok a1
  have g0' := getOffset_ok (k := 0) (by simpa using g0)
  rw [e0] at g0'
  simp only [Nat.sub_zero] at g0'
  rw [htop] at g0'
  have en : argc = n := by have := g0'.2; cases this; rfl
  subst en
  have ef : fargc = fa := by
    have := (get_ok g1).1
    rw [e1, hfa] at this
    cases this; rfl
  subst ef
  split at h
  · rename_i heq
    subst heq
    obtain ⟨sb, g4, h⟩ := bind_inv h
    obtain ⟨st, hcp, h⟩ := bind_inv h
    obtain ⟨bp', ab, h⟩ := bind_inv h
    cases h
    have e4 := (get_ok g4).1
    rw [hB] at e4
    subst e4
    have eb := asBp_ok ab
    cases eb
    obtain ⟨st', c1, c2, c3, c4, c5⟩ :=
      tcallCopySame_spec argc 0 s.bp s.stack hcap (by omega) (by omega)
    rw [c1] at hcp
    cases hcp
    have hc : ∀ i, (Stack.cellAt { cells := st.cells, sp := s.bp + 3 } i) = st.cellAt i := fun _ => rfl
    refine ⟨by show s.bp + 3 = _; omega, by show s.bp + 3 < st.cells.length; rw [c3]; omega,
      ?_, ?_, ?_, ?_, rfl, rfl, rfl, rfl⟩
    · have e : s.bp - argc + argc + 1 = s.bp + 1 := by omega
      show Stack.cellAt { cells := st.cells, sp := s.bp + 3 } _ = _
      rw [e, hc, c5 (s.bp + 1) (.inr (by omega)), hfa]
    · have e : s.bp - argc + argc + 2 = s.bp + 2 := by omega
      show Stack.cellAt { cells := st.cells, sp := s.bp + 3 } _ = _
      rw [e, hc, c5 (s.bp + 2) (.inr (by omega)), hE]
    · have e : s.bp - argc + argc + 3 = s.bp + 3 := by omega
      show Stack.cellAt { cells := st.cells, sp := s.bp + 3 } _ = _
      rw [e, hc, c5 (s.bp + 3) (.inr (by omega)), hI]
    · intro i hi
      show Stack.cellAt { cells := st.cells, sp := s.bp + 3 } _ = _
      rw [hc]
      exact c5 i (.inl (by omega))
  · rename_i hne
    obtain ⟨se, g2, h⟩ := bind_inv h
    obtain ⟨si, g3, h⟩ := bind_inv h
    obtain ⟨sb, g4, h⟩ := bind_inv h
    obtain ⟨sp0, hu, h⟩ := bind_inv h
    obtain ⟨st, hcp, h⟩ := bind_inv h
    obtain ⟨bp', ab, h⟩ := bind_inv h
    cases h
    have e2 := (get_ok g2).1
    have e3 := (get_ok g3).1
    have e4 := (get_ok g4).1
    rw [hE] at e2; rw [hI] at e3; rw [hB] at e4
    subst e2 e3 e4
    have eb := asBp_ok ab
    cases eb
    obtain ⟨_, u2⟩ := usub_ok hu
    subst u2
    obtain ⟨st', c1, c2, c3, c4, c5, c6⟩ :=
      tcallCopyDiff_spec argc s.stack.sp { s.stack with sp := s.bp - fargc } hcap (by simp; omega)
    rw [c1] at hcp
    cases hcp
    simp only at c2 c4 c5 c6
    refine ⟨by simp [c2], push_sp_lt _ _, ?_, ?_, ?_, ?_, rfl, rfl, rfl, rfl⟩
    · simp only [push_cellAt, push_sp, c2]
      have n1 : ¬ (s.bp - fargc + argc + 1 = s.bp - fargc + argc + 1 + 1 + 1) := by omega
      have n2 : ¬ (s.bp - fargc + argc + 1 = s.bp - fargc + argc + 1 + 1) := by omega
      simp [n1, n2]
    · simp only [push_cellAt, push_sp, c2]
      have n1 : ¬ (s.bp - fargc + argc + 2 = s.bp - fargc + argc + 1 + 1 + 1) := by omega
      have n2 : (s.bp - fargc + argc + 2 = s.bp - fargc + argc + 1 + 1) := by omega
      simp [n1, n2]
    · simp only [push_cellAt, push_sp, c2]
      have n1 : (s.bp - fargc + argc + 3 = s.bp - fargc + argc + 1 + 1 + 1) := by omega
      simp [n1]
    · intro i hi
      simp only [push_cellAt, push_sp, c2]
      have n1 : ¬ (i = s.bp - fargc + argc + 1 + 1 + 1) := by omega
      have n2 : ¬ (i = s.bp - fargc + argc + 1 + 1) := by omega
      have n3 : ¬ (i = s.bp - fargc + argc + 1) := by omega
      simp only [n1, n2, n3, if_false]
      exact c5 i (by omega)

/-- the cells of the new argument block TCALL builds are the cells of the block under the `argc` on top -/
theorem tcallTail_args {s s' : St H} {lam fa n B : Nat} {E I : VCell} (h : tcallTail s lam = .ok s')
    (hcap : s.stack.sp < s.stack.cells.length)
    (hfa : s.stack.cellAt (s.bp + 1) = .argc fa) (hE : s.stack.cellAt (s.bp + 2) = E)
    (hI : s.stack.cellAt (s.bp + 3) = I) (hB : s.stack.cellAt (s.bp + 4) = .basePtr B)
    (htop : s.stack.cellAt s.stack.sp = .argc n) (hroom : s.bp + 4 + n < s.stack.sp) (hbase : fa ≤ s.bp) :
    ∀ i, s.bp - fa < i → i ≤ s.bp - fa + n →
      ∃ j, s.stack.sp - 1 - n < j ∧ j < s.stack.sp ∧ s'.stack.cellAt i = s.stack.cellAt j := by
  unfold tcallTail at h
  obtain ⟨argc, h1, h⟩ := bind_inv h
  obtain ⟨v0, g0, a0⟩ := bind_inv h1
  obtain ⟨fargc, h2, h⟩ := bind_inv h
  obtain ⟨v1, g1, a1⟩ := bind_inv h2
  have e0 := asArgc_ok a0
  have e1 := asArgc_ok a1
  have g0' := getOffset_ok (k := 0) (by simpa using g0)
  rw [e0] at g0'
  simp only [Nat.sub_zero] at g0'
  rw [htop] at g0'
  have en : argc = n := by have := g0'.2; cases this; rfl
  subst en
  have ef : fargc = fa := by
    have := (get_ok g1).1
    rw [e1, hfa] at this
    cases this; rfl
  subst ef
  split at h
  · rename_i heq
    subst heq
    obtain ⟨sb, g4, h⟩ := bind_inv h
    obtain ⟨st, hcp, h⟩ := bind_inv h
    obtain ⟨bp', ab, h⟩ := bind_inv h
    cases h
    obtain ⟨st', c1, c2, c3, c4, c5⟩ :=
      tcallCopySame_spec argc 0 s.bp s.stack hcap (by omega) (by omega)
    rw [c1] at hcp
    cases hcp
    intro i hi1 hi2
    have hc : ∀ i, (Stack.cellAt { cells := st.cells, sp := s.bp + 3 } i) = st.cellAt i := fun _ => rfl
    refine ⟨s.stack.sp - 1 - (s.bp - i), by omega, by omega, ?_⟩
    show Stack.cellAt { cells := st.cells, sp := s.bp + 3 } _ = _
    rw [hc]
    have := c4 (s.bp - i) (by omega)
    have e : s.bp - 0 - (s.bp - i) = i := by omega
    rw [e] at this
    rw [this]
    simp
  · rename_i hne
    obtain ⟨se, g2, h⟩ := bind_inv h
    obtain ⟨si, g3, h⟩ := bind_inv h
    obtain ⟨sb, g4, h⟩ := bind_inv h
    obtain ⟨sp0, hu, h⟩ := bind_inv h
    obtain ⟨st, hcp, h⟩ := bind_inv h
    obtain ⟨bp', ab, h⟩ := bind_inv h
    cases h
    obtain ⟨_, u2⟩ := usub_ok hu
    subst u2
    obtain ⟨st', c1, c2, c3, c4, c5, c6⟩ :=
      tcallCopyDiff_spec argc s.stack.sp { s.stack with sp := s.bp - fargc } hcap (by simp; omega)
    rw [c1] at hcp
    cases hcp
    simp only at c2 c4 c5 c6
    intro i hi1 hi2
    refine ⟨s.stack.sp - argc + (i - (s.bp - fargc + 1)), by omega, by omega, ?_⟩
    simp only [push_cellAt, push_sp, c2]
    have n1 : ¬ (i = s.bp - fargc + argc + 1 + 1 + 1) := by omega
    have n2 : ¬ (i = s.bp - fargc + argc + 1 + 1) := by omega
    have n3 : ¬ (i = s.bp - fargc + argc + 1) := by omega
    simp only [n1, n2, n3, if_false]
    have := c4 (i - (s.bp - fargc + 1)) (by omega)
    have e : s.bp - fargc + 1 + (i - (s.bp - fargc + 1)) = i := by omega
    rw [e] at this
    rw [this]
    rfl

/-! ## VARARG -/

theorem put_ext {cl : CodeLaws ops} {h h' : H} {v a : VCell} (hi : cl.HInv h) (hp : ops.put h v = (h', a)) :
    Ext cl h h' := by
  have := Ext.step (cl := cl) hi (.put h v)
  rw [hp] at this
  exact this

theorem varargCollect_ok {cl : CodeLaws ops} : ∀ (k : Nat) (h : H) (acc : Nat) (st : Stack) (h' : H) (l : Nat)
    (st' : Stack), cl.HInv h → varargCollect ops k h acc st = .ok (h', l, st') →
    st'.sp + k = st.sp ∧ st'.cells = st.cells ∧ Ext cl h h' := by
  intro k
  induction k with
  | zero =>
    intro h acc st h' l st' hi hc
    simp only [varargCollect] at hc
    cases hc
    exact ⟨rfl, rfl, Ext.refl hi⟩
  | succ k ih =>
    intro h acc st h' l st' hi hc
    simp only [varargCollect] at hc
    obtain ⟨⟨v, st1⟩, hp, hc⟩ := bind_inv hc
    dsimp only at hc
    obtain ⟨pa, _, hc⟩ := bind_inv hc
    obtain ⟨pp, _, hc⟩ := bind_inv hc
    have x1 : Ext cl h (ops.put h v).1 := Ext.step hi (.put _ _)
    have x2 : Ext cl (ops.put h v).1 (ops.put (ops.put h v).1 (.pair pa acc)).1 := Ext.step x1.inv (.put _ _)
    obtain ⟨r1, r2, r3⟩ := ih _ _ _ _ _ _ x2.inv hc
    have p1 := pop_ok hp
    exact ⟨by omega, by rw [r2, p1.2.1], (x1.trans x2).trans r3⟩

/-- VARARG rewrites the argument block and keeps the two header cells CALL pushed on top of it -/
theorem stepVarArg_ok {cl : CodeLaws ops} {s s' : St H} {n : Nat} {E I : VCell} (hi : cl.HInv s.heap)
    (h : stepVarArg ops s = .ok s') (hcap : s.stack.sp < s.stack.cells.length) (hn : n + 3 ≤ s.stack.sp)
    (hI : s.stack.cellAt s.stack.sp = I) (hE : s.stack.cellAt (s.stack.sp - 1) = E)
    (hA : s.stack.cellAt (s.stack.sp - 2) = .argc n) :
    ∃ n', s'.stack.sp < s'.stack.cells.length ∧ n' + 3 ≤ s'.stack.sp ∧
      s'.stack.sp - 3 - n' = s.stack.sp - 3 - n ∧
      s'.stack.cellAt s'.stack.sp = I ∧ s'.stack.cellAt (s'.stack.sp - 1) = E ∧
      s'.stack.cellAt (s'.stack.sp - 2) = .argc n' ∧
      (∀ i, i ≤ s.stack.sp - 3 - n → s'.stack.cellAt i = s.stack.cellAt i) ∧
      s'.bp = s.bp ∧ s'.ipL = s.ipL ∧ s'.ipO = s.ipO ∧ Ext cl s.heap s'.heap := by
  unfold stepVarArg at h
  split at h
  · cases h
  · rename_i info hinfo
    obtain ⟨req, hu, h⟩ := bind_inv h
    obtain ⟨argc, h1, h⟩ := bind_inv h
    obtain ⟨v2, g2, a2⟩ := bind_inv h1
    have e2 : (-2 : Int) = -((2 : Nat) : Int) := by omega
    rw [e2] at g2
    obtain ⟨_, g2'⟩ := getOffset_ok g2
    have ea := asArgc_ok a2
    rw [ea, hA] at g2'
    cases g2'
    split at h
    · cases h
    · rename_i hlt
      split at h
      · -- exactly one optional argument: converted in place
        rename_i heq
        obtain ⟨v3, g3, h⟩ := bind_inv h
        dsimp only at h
        obtain ⟨pa, _, h⟩ := bind_inv h
        obtain ⟨pn, _, h⟩ := bind_inv h
        obtain ⟨st1, hset, h⟩ := bind_inv h
        cases h
        have e3 : (-3 : Int) = -((3 : Nat) : Int) := by omega
        rw [e3] at hset
        obtain ⟨s1, s2, s3⟩ := setOffset_ok hset
        subst s3
        have x1 : Ext cl s.heap (ops.put s.heap v3).1 := Ext.step hi (.put _ _)
        have x2 : Ext cl _ (ops.put (ops.put s.heap v3).1 .nil).1 := Ext.step x1.inv (.put _ _)
        have x3 : Ext cl _ (ops.put (ops.put (ops.put s.heap v3).1 .nil).1 (.pair pa pn)).1 :=
          Ext.step x2.inv (.put _ _)
        have hc : ∀ (p3 : VCell) i, ¬ i = s.stack.sp - 3 →
            Stack.cellAt { s.stack with cells := s.stack.cells.set (s.stack.sp - 3) p3 } i = s.stack.cellAt i := by
          intro p3
          intro i hne
          rw [at_set_cells _ _ _ _ s2]
          simp [hne]
        refine ⟨n, by simpa using hcap, hn, rfl, ?_, ?_, ?_, ?_, rfl, rfl, rfl, (x1.trans x2).trans x3⟩
        · show Stack.cellAt _ s.stack.sp = I
          rw [hc _ _ (by omega)]; exact hI
        · show Stack.cellAt _ (s.stack.sp - 1) = E
          rw [hc _ _ (by omega)]; exact hE
        · show Stack.cellAt _ (s.stack.sp - 2) = _
          rw [hc _ _ (by omega)]; exact hA
        · intro i hi'
          exact hc _ i (by omega)
      · -- rebuild the block
        rename_i hne
        obtain ⟨⟨c1, st1⟩, hp1, h⟩ := bind_inv h
        dsimp only at h
        obtain ⟨⟨c2, st2⟩, hp2, h⟩ := bind_inv h
        dsimp only at h
        obtain ⟨⟨c3, st3⟩, hp3, h⟩ := bind_inv h
        dsimp only at h
        obtain ⟨pn, _, h⟩ := bind_inv h
        obtain ⟨⟨h2, lst, st4⟩, hcol, h⟩ := bind_inv h
        dsimp only at h
        cases h
        have p1 := pop_ok hp1
        have p2 := pop_ok hp2
        have p3 := pop_ok hp3
        have x1 : Ext cl s.heap (ops.put s.heap .nil).1 := Ext.step hi (.put _ _)
        obtain ⟨r1, r2, r3⟩ := varargCollect_ok (cl := cl) _ _ _ _ _ _ _ x1.inv hcol
        obtain ⟨u1, u2⟩ := usub_ok hu
        have hc4 : ∀ i, st4.cellAt i = s.stack.cellAt i := by
          intro i; unfold Stack.cellAt; rw [r2, p3.2.1, p2.2.1, p1.2.1]
        have ec1 : c1 = I := by rw [p1.2.2]; exact hI
        have ec2 : c2 = E := by
          rw [p2.2.2]
          have : st1.cellAt st1.sp = s.stack.cellAt (s.stack.sp - 1) := by
            unfold Stack.cellAt; rw [p1.2.1]
            have : st1.sp = s.stack.sp - 1 := by omega
            rw [this]
          rw [this]; exact hE
        subst ec1 ec2
        refine ⟨req + 1, push_sp_lt _ _, ?_, ?_, ?_, ?_, ?_, ?_, rfl, rfl, rfl, x1.trans r3⟩
        · simp only [push_sp]; omega
        · simp only [push_sp]; omega
        · simp [push_cellAt]
        · simp only [push_cellAt, push_sp]
          have n1 : ¬ (st4.sp + 1 + 1 + 1 + 1 - 1 = st4.sp + 1 + 1 + 1 + 1) := by omega
          have n2 : (st4.sp + 1 + 1 + 1 + 1 - 1 = st4.sp + 1 + 1 + 1) := by omega
          simp [n1, n2]
        · simp only [push_cellAt, push_sp]
          have n1 : ¬ (st4.sp + 1 + 1 + 1 + 1 - 2 = st4.sp + 1 + 1 + 1 + 1) := by omega
          have n2 : ¬ (st4.sp + 1 + 1 + 1 + 1 - 2 = st4.sp + 1 + 1 + 1) := by omega
          have n3 : (st4.sp + 1 + 1 + 1 + 1 - 2 = st4.sp + 1 + 1) := by omega
          simp [n1, n2, n3]
        · intro i hi'
          simp only [push_cellAt, push_sp]
          have n1 : ¬ (i = st4.sp + 1 + 1 + 1 + 1) := by omega
          have n2 : ¬ (i = st4.sp + 1 + 1 + 1) := by omega
          have n3 : ¬ (i = st4.sp + 1 + 1) := by omega
          have n4 : ¬ (i = st4.sp + 1) := by omega
          simp only [n1, n2, n3, n4, if_false]
          exact hc4 i

/-- VARARG leaves `args.len()` of the running code object as the argument count, over values -/
theorem stepVarArg_vals {cl : CodeLaws ops} {s s' : St H} {n : Nat} (hi : cl.HInv s.heap)
    (h : stepVarArg ops s = .ok s') (hn : n + 3 ≤ s.stack.sp)
    (hA : s.stack.cellAt (s.stack.sp - 2) = .argc n)
    (hv : ∀ i, s.stack.sp - 3 - n < i → i ≤ s.stack.sp - 3 → cl.Val (s.stack.cellAt i)) :
    ∃ info, ops.lambdaInfo s.heap s.ipL = some info ∧
      s'.stack.cellAt (s'.stack.sp - 2) = .argc info.argc ∧
      ∀ i, s'.stack.sp - 3 - info.argc < i → i ≤ s'.stack.sp - 3 → cl.Val (s'.stack.cellAt i) := by
  unfold stepVarArg at h
  split at h
  · cases h
  · rename_i info hinfo
    refine ⟨info, hinfo, ?_⟩
    obtain ⟨req, hu, h⟩ := bind_inv h
    obtain ⟨argc, h1, h⟩ := bind_inv h
    obtain ⟨v2, g2, a2⟩ := bind_inv h1
    have e2 : (-2 : Int) = -((2 : Nat) : Int) := by omega
    rw [e2] at g2
    obtain ⟨_, g2'⟩ := getOffset_ok g2
    have ea := asArgc_ok a2
    rw [ea, hA] at g2'
    cases g2'
    obtain ⟨u1, u2⟩ := usub_ok hu
    split at h
    · cases h
    · rename_i hlt
      split at h
      · rename_i heq
        obtain ⟨v3, g3, h⟩ := bind_inv h
        dsimp only at h
        obtain ⟨pa, _, h⟩ := bind_inv h
        obtain ⟨pn, _, h⟩ := bind_inv h
        obtain ⟨st1, hset, h⟩ := bind_inv h
        cases h
        have e3 : (-3 : Int) = -((3 : Nat) : Int) := by omega
        rw [e3] at hset
        obtain ⟨s1, s2, s3⟩ := setOffset_ok hset
        subst s3
        have hc : ∀ (p3 : VCell) i, ¬ i = s.stack.sp - 3 →
            Stack.cellAt { s.stack with cells := s.stack.cells.set (s.stack.sp - 3) p3 } i = s.stack.cellAt i := by
          intro p3
          intro i hne
          rw [at_set_cells _ _ _ _ s2]
          simp [hne]
        have en : info.argc = n := by omega
        refine ⟨?_, ?_⟩
        · show Stack.cellAt _ (s.stack.sp - 2) = _
          rw [hc _ _ (by omega), en]; exact hA
        · intro i hi1 hi2
          simp only at hi1 hi2
          show cl.Val (Stack.cellAt _ i)
          by_cases hi3 : i = s.stack.sp - 3
          · rw [at_set_cells _ _ _ _ s2]
            simp only [hi3, if_true]
            exact cl.put_val _ _
          · rw [hc _ _ hi3]
            exact hv i (by omega) hi2
      · rename_i hne
        obtain ⟨⟨c1, st1⟩, hp1, h⟩ := bind_inv h
        dsimp only at h
        obtain ⟨⟨c2, st2⟩, hp2, h⟩ := bind_inv h
        dsimp only at h
        obtain ⟨⟨c3, st3⟩, hp3, h⟩ := bind_inv h
        dsimp only at h
        obtain ⟨pn, _, h⟩ := bind_inv h
        obtain ⟨⟨h2, lst, st4⟩, hcol, h⟩ := bind_inv h
        dsimp only at h
        cases h
        have p1 := pop_ok hp1
        have p2 := pop_ok hp2
        have p3 := pop_ok hp3
        have x1 : Ext cl s.heap (ops.put s.heap .nil).1 := Ext.step hi (.put _ _)
        obtain ⟨r1, r2, r3⟩ := varargCollect_ok (cl := cl) _ _ _ _ _ _ _ x1.inv hcol
        have hc4 : ∀ i, st4.cellAt i = s.stack.cellAt i := by
          intro i; unfold Stack.cellAt; rw [r2, p3.2.1, p2.2.1, p1.2.1]
        have en : info.argc = req + 1 := by omega
        refine ⟨?_, ?_⟩
        · simp only [push_cellAt, push_sp]
          have n1 : ¬ (st4.sp + 1 + 1 + 1 + 1 - 2 = st4.sp + 1 + 1 + 1 + 1) := by omega
          have n2 : ¬ (st4.sp + 1 + 1 + 1 + 1 - 2 = st4.sp + 1 + 1 + 1) := by omega
          have n3 : (st4.sp + 1 + 1 + 1 + 1 - 2 = st4.sp + 1 + 1) := by omega
          simp [n1, n2, n3, en]
        · intro i hi1 hi2
          simp only [push_sp] at hi1 hi2
          simp only [push_cellAt, push_sp]
          have n1 : ¬ (i = st4.sp + 1 + 1 + 1 + 1) := by omega
          have n2 : ¬ (i = st4.sp + 1 + 1 + 1) := by omega
          have n3 : ¬ (i = st4.sp + 1 + 1) := by omega
          simp only [n1, n2, n3, if_false]
          by_cases hi3 : i = st4.sp + 1
          · simp only [hi3, if_true]
            exact cl.val_imm _ rfl
          · simp only [hi3, if_false]
            rw [hc4]
            exact hv i (by omega) (by omega)

theorem tcallTail_acc {s s' : St H} {lam : Nat} (h : tcallTail s lam = .ok s') : s'.acc = s.acc := by
  unfold tcallTail at h
  obtain ⟨argc, h1, h⟩ := bind_inv h
  obtain ⟨fargc, h2, h⟩ := bind_inv h
  split at h
  · obtain ⟨sb, g4, h⟩ := bind_inv h
    obtain ⟨st, hcp, h⟩ := bind_inv h
    obtain ⟨bp', ab, h⟩ := bind_inv h
    cases h; rfl
  · obtain ⟨se, g2, h⟩ := bind_inv h
    obtain ⟨si, g3, h⟩ := bind_inv h
    obtain ⟨sb, g4, h⟩ := bind_inv h
    obtain ⟨sp0, hu, h⟩ := bind_inv h
    obtain ⟨st, hcp, h⟩ := bind_inv h
    obtain ⟨bp', ab, h⟩ := bind_inv h
    cases h; rfl

theorem stepVarArg_acc {s s' : St H} (h : stepVarArg ops s = .ok s') : s'.acc = s.acc := by
  unfold stepVarArg at h
  split at h
  · cases h
  · obtain ⟨req, hu, h⟩ := bind_inv h
    obtain ⟨argc, h1, h⟩ := bind_inv h
    split at h
    · cases h
    · split at h
      · obtain ⟨v3, g3, h⟩ := bind_inv h
        dsimp only at h
        obtain ⟨pa, _, h⟩ := bind_inv h
        obtain ⟨pn, _, h⟩ := bind_inv h
        obtain ⟨st1, hset, h⟩ := bind_inv h
        cases h; rfl
      · obtain ⟨⟨c1, st1⟩, hp1, h⟩ := bind_inv h
        dsimp only at h
        obtain ⟨⟨c2, st2⟩, hp2, h⟩ := bind_inv h
        dsimp only at h
        obtain ⟨⟨c3, st3⟩, hp3, h⟩ := bind_inv h
        dsimp only at h
        obtain ⟨pn, _, h⟩ := bind_inv h
        obtain ⟨⟨h2, lst, st4⟩, hcol, h⟩ := bind_inv h
        dsimp only at h
        cases h; rfl

end Marwood.Vm
