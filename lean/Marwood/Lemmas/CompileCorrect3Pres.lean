import Marwood.Lemmas.CompileCorrect3Defs
/-!
# T01.3 stage 3 — what the representation keeps while heap, store and world grow; observing a value
-/
namespace Marwood.Lemmas.CompileCorrect3
open Marwood Marwood.Vm Marwood.Lemmas.CompileCorrect Marwood.Lemmas.CompileCorrect2
open Marwood.Spec.Eval (Val Prim Cell Env quoteVal)

variable {H : Type} {ops : HeapOps H} {D : RepData2 ops}

theorem ext2_refl (h : H) (S : Array Cell) : Ext2 D h S h S :=
  ⟨StoreExt.refl _, fun _ _ x => x, fun _ _ x => x, fun _ x => ⟨x, fun _ => rfl, rfl, rfl⟩, fun _ _ _ x => x,
   fun _ x => x, fun _ _ _ _ x => x, fun _ _ v x y => ⟨v, x, y⟩⟩

theorem Ext3.refl (h : H) (S : Array Cell) : Ext3 D h S h S :=
  ⟨ext2_refl h S, fun _ _ _ x => x, fun _ _ x => x, fun _ _ _ x => x, fun _ _ _ _ x => x⟩

theorem Ext3.trans {h1 h2 h3 : H} {S1 S2 S3 : Array Cell} (a : Ext3 D h1 S1 h2 S2) (b : Ext3 D h2 S2 h3 S3) :
    Ext3 D h1 S1 h3 S3 :=
  ⟨a.toExt2.trans b.toExt2, fun v x y p => b.pairs v x y (a.pairs v x y p), fun e k p => b.init e k (a.init e k p),
   fun e k ok u => b.undefOK e k (a.envOK e ok) (a.undefOK e k ok u),
   fun e k v g ok => by
     obtain ⟨v', g'⟩ := a.toExt2.envSome g
     exact a.okBack e k v g (b.okBack e k v' g' ok)⟩

/-- only the store changed -/
theorem Ext3.storeOnly (L : Laws3 D) (h : H) {S S' : Array Cell} (x : StoreExt S S') : Ext3 D h S h S' :=
  ⟨⟨x, fun _ _ y => L.vr_store _ _ _ _ _ x y,
   fun _ _ y => DatumAt.transport (fun _ _ z => L.vr_store _ _ _ _ _ x z) (fun _ _ _ z => z) (fun _ _ z => z) y,
   fun _ y => ⟨y, fun _ => rfl, rfl, rfl⟩, fun _ _ _ y => y, fun _ y => y, fun _ _ _ _ y => y,
   fun _ _ v y z => ⟨v, y, z⟩⟩, fun _ _ _ y => y, fun _ _ y => y, fun _ _ _ y => y, fun _ _ _ _ y => y⟩

/-- the parametrised relations follow the heap when the demand does -/
theorem EnvRep3g.ext {W W' : World} {h h' : H} {S S' : Array Cell} {P P' : Nat → Nat → Prop} {c : Ctx} {ep : Nat}
    {ρ : Env} {us : Text → Prop} (r : EnvRep3g ops W h P c ep ρ us) (x : Ext3 D h S h' S') (hw : W.le W')
    (hP : ∀ e n, P e n → P' e n) : EnvRep3g ops W' h' P' c ep ρ us := by
  intro y j hj
  obtain ⟨e, n, l, hd, hl, hW, hin⟩ := r y j hj
  exact ⟨e, n, l, hd.ext x.toExt2, hl, hw _ _ _ hW, fun hu => hP _ _ (hin hu)⟩

theorem EnvRep3.ext {W W' : World} {h h' : H} {S S' : Array Cell} {c : Ctx} {ep : Nat} {ρ : Env} {us : Text → Prop}
    (r : EnvRep3 ops W h c ep ρ us) (x : Ext3 D h S h' S') (hw : W.le W') : EnvRep3 ops W' h' c ep ρ us := by
  intro y j hj
  obtain ⟨e, n, l, hd, hl, hW, hin⟩ := r y j hj
  exact ⟨e, n, l, hd.ext x.toExt2, hl, hw _ _ _ hW, fun hu => x.init _ _ (hin hu)⟩

/-- fewer unreadable names -/
theorem EnvRep3.weaken {W : World} {h : H} {c : Ctx} {ep : Nat} {ρ : Env} {us us' : Text → Prop}
    (r : EnvRep3 ops W h c ep ρ us) (hs : ∀ x, us x → us' x) : EnvRep3 ops W h c ep ρ us' := by
  intro y j hj
  obtain ⟨e, n, l, hd, hl, hW, hin⟩ := r y j hj
  exact ⟨e, n, l, hd, hl, hW, fun hu => hin (fun h => hu (hs _ h))⟩

theorem EnvRep3.toEnvRep {W : World} {h : H} {c : Ctx} {ep : Nat} {ρ : Env} {us : Text → Prop}
    (r : EnvRep3 ops W h c ep ρ us) : EnvRep ops W h c ep ρ := by
  intro y j hj
  obtain ⟨e, n, l, hd, hl, hW, _⟩ := r y j hj
  exact ⟨e, n, l, hd, hl, hW⟩

theorem ClosOK3g.mono {W W' : World} {h h' : H} {S S' : Array Cell} {P P' : Nat → Nat → Prop} {lam cenv : Nat}
    {ps : List Text} {rest : Option Text} {body : List Datum} {ρc : Env}
    (c : ClosOK3g D W h P lam cenv ps rest body ρc) (x : Ext3 D h S h' S') (hw : W.le W')
    (hP : ∀ e n, P e n → P' e n) : ClosOK3g D W' h' P' lam cenv ps rest body ρc := by
  obtain ⟨f, cst, cst1, co, p, bcode, ints, caps, a1, a2, a3, a4, a5, a6, a7, a8, a9, a10, a11, a12, a13,
    a14, a15, a16, a17, a18, a19⟩ := c
  obtain ⟨b1, _, _, b4⟩ := x.code lam a11
  refine ⟨f, cst, cst1, co, p, bcode, ints, caps, a1, a2, a3, a4, a5, a6, a7, a8, a9, a10, b1, a12,
    b4.trans a13, a14, a15, ?_, ?_, x.envOK _ a18, fun j y hy => x.undefOK _ _ a18 (a19 j y hy)⟩
  · intro j hj
    obtain ⟨g, hg⟩ := a16 j hj
    exact x.toExt2.envSome hg
  · intro j y hj hy
    obtain ⟨e, n, l, h1, h2, h3, h4⟩ := a17 j y hj hy
    exact ⟨e, n, l, x.envPtr _ _ _ _ h1, h2, hw _ _ _ h3, hP _ _ h4⟩

theorem ClosOK3.mono {W W' : World} {h h' : H} {S S' : Array Cell} {lam cenv : Nat} {ps : List Text}
    {rest : Option Text} {body : List Datum} {ρc : Env} (c : ClosOK3 D W h lam cenv ps rest body ρc)
    (x : Ext3 D h S h' S') (hw : W.le W') : ClosOK3 D W' h' lam cenv ps rest body ρc :=
  ClosOK3g.mono c x hw (fun e n => x.init e n)

theorem VR3.mono {W W' : World} {h h' : H} {S S' : Array Cell} {v : VCell} {w : Val}
    (r : VR3 D W h S v w) (x : Ext3 D h S h' S') (hw : W.le W') : VR3 D W' h' S' v w := by
  induction r with
  | base hb => exact .base (x.vr _ _ hb)
  | clos hc hok => exact .clos (x.clos _ _ _ hc) (hok.mono x hw)
  | pair hs hd _ _ ih1 ih2 =>
    exact .pair (x.store.keep _ _ hs (by intro v e; cases e)) (x.pairs _ _ _ hd) ih1 ih2

theorem All2.vr3_mono {W W' : World} {h h' : H} {S S' : Array Cell} {vs : List VCell} {ws : List Val}
    (r : All2 (VR3 D W h S) vs ws) (x : Ext3 D h S h' S') (hw : W.le W') : All2 (VR3 D W' h' S') vs ws :=
  All2.mono (fun _ _ y => VR3.mono y x hw) r

/-! ## how the machine observes a represented value -/

theorem VR3.void (L : Laws3 D) (W : World) (h : H) (S : Array Cell) : VR3 D W h S .void .void := .base (L.void h S)

theorem VR3.truth (L : Laws3 D) {W : World} {h : H} {S : Array Cell} {v : VCell} {w : Val}
    (r : VR3 D W h S v w) : ops.deref h v = .bool false ↔ w = .bool false := by
  cases r with
  | base hb => exact L.truth _ _ _ _ hb
  | clos hc _ => exact ⟨fun e => absurd e (L.clos_true _ _ _ _ hc), fun e => by cases e⟩
  | pair _ hd _ _ =>
    refine ⟨fun e => ?_, fun e => ?_⟩
    · rw [hd] at e; cases e
    · cases e

theorem VR3.ne_undefined (L : Laws3 D) {W : World} {h : H} {S : Array Cell} {v : VCell} {w : Val}
    (r : VR3 D W h S v w) : v ≠ .undefined := by
  cases r with
  | base hb => exact L.ne_undefined _ _ _ _ hb
  | clos hc _ => exact L.clos_ne_undefined _ _ _ _ hc
  | pair _ hd _ _ => exact L.pair_ne_undefined _ _ _ _ hd

theorem VR3.not_envptr (L : Laws3 D) {W : World} {h : H} {S : Array Cell} {v : VCell} {w : Val}
    (r : VR3 D W h S v w) : isEnvPtr v = false := by
  cases r with
  | base hb => exact L.not_envptr _ _ _ _ hb
  | clos hc _ => exact L.clos_not_envptr _ _ _ _ hc
  | pair _ hd _ _ => exact L.pair_not_envptr _ _ _ _ hd

/-- a closure value is represented by a closure -/
theorem VR3.closure_inv (L : Laws3 D) {W : World} {h : H} {S : Array Cell} {v : VCell} {ps : List Text}
    {rest : Option Text} {body : List Datum} {ρc : Env} (r : VR3 D W h S v (.closure ps rest body ρc)) :
    ∃ lam cenv, ops.callee h v = .closure lam cenv ∧ ClosOK3 D W h lam cenv ps rest body ρc := by
  cases r with
  | base hb => exact absurd hb (L.vr_no_closure _ _ _ _ _ _ _)
  | clos hc hok => exact ⟨_, _, hc, hok⟩

/-- a primitive procedure is a stage-1 value, and not a re-dispatching one -/
theorem VR3.prim_inv (L : Laws3 D) {W : World} {h : H} {S : Array Cell} {v : VCell} {p : Prim}
    (r : VR3 D W h S v (.prim p)) : D.VR h S v (.prim p) ∧ ¬ Redisp p := by
  cases r with
  | base hb => exact ⟨hb, L.vr_no_redisp _ _ _ _ hb⟩

theorem quoteLaws_of3 (L : Laws3 D) : QuoteLaws D.toRepData D.vecElems where
  vr_pair := L.vr_pair
  vr_vec := L.vr_vec
  vr_store := fun _ _ _ _ _ hp x => L.vr_store _ _ _ _ _ (StoreExt.ofStorePrefix hp) x
  srx_store := fun _ _ _ hp x => L.srx_store _ _ _ (StoreExt.ofStorePrefix hp) x

/-- the invariant after a step that touches neither the globals nor any related location -/
theorem Inv3.frame {W : World} {h h' : H} {σ σ' : SSt} (i : Inv3 D W h σ)
    (x : Ext3 D h σ.store h' σ'.store) (hx : D.SRx h' σ'.store) (hg : σ'.globals = σ.globals)
    (hgg : ∀ m, ops.globGet h' m = ops.globGet h m)
    (hloc : ∀ e n l, W e n l → ops.envGet h' e n = ops.envGet h e n ∧ σ'.store[l]? = σ.store[l]?) :
    Inv3 D W h' σ' := by
  refine ⟨fun y w hn hl => ?_, fun y hn hl => ?_, hx, fun y hy => hg ▸ i.gset y hy, i.loaded.ext x.toExt2, i.wfun,
    i.winj, fun e n l hW => ?_, fun e n l hW ok => ?_⟩
  rotate_right
  · obtain ⟨v, _, h1, _⟩ := i.vars e n l hW
    exact i.wact e n l hW (x.okBack e n v h1 ok)
  · rw [hgg]; exact (i.bound y w hn (hg ▸ hl)).mono x (World.le_refl _)
  · rw [hgg]; exact i.unbound y hn (hg ▸ hl)
  · obtain ⟨v, w, h1, h2, h3, h4⟩ := i.vars e n l hW
    obtain ⟨e1, e2⟩ := hloc e n l hW
    exact ⟨v, w, e1 ▸ h1, h2, e2 ▸ h3, fun hv => (h4 hv).mono x (World.le_refl _)⟩

/-- a heap step that keeps store, environments and globals keeps the invariant -/
theorem Inv3.step3 {W : World} {h h' : H} {σ : SSt} (i : Inv3 D W h σ) (s : Step3 D h σ.store h') :
    Inv3 D W h' σ :=
  i.frame s.ext s.srx rfl s.glob (fun e n _ _ => ⟨s.env e n, rfl⟩)

theorem Step3.trans {h1 h2 h3 : H} {S : Array Cell} (a : Step3 D h1 S h2) (b : Step3 D h2 S h3) : Step3 D h1 S h3 :=
  ⟨a.ext.trans b.ext, b.srx, fun e k => (b.env e k).trans (a.env e k), fun m => (b.glob m).trans (a.glob m)⟩

end Marwood.Lemmas.CompileCorrect3
