import Marwood.Lemmas.ContResumeLive
/-!
# `step` is a function of the live stack, the registers and the heap

`step_stack`: from a WF state `s`, replace the stack by any stack `b` that agrees with it on the live
cells `0 ..= sp` (other stale cells above `sp`, another capacity). If `step` succeeds on `s` it
succeeds on the replaced state, with the same registers, heap and halting flag, and the resulting
stacks agree on their live cells again.

What this needs besides WF-stack (`WFS`, which bounds the frame-header reads of RET / TCALL by `sp`
and excludes `BasePointerOffset` destinations):
* `BpLive` — a `BasePointerOffset` *source* operand of the current instruction designates a cell at
  or below `sp` (the bytecode verifier does not check source offsets; `compile.rs` only emits
  `bp - argc + i + 1` for argument `i`; the same side condition as `Lemmas/SimStepA.BpLive`, checked
  on every state of the simulation stream by `Driver/SimGood` "bp-live");
* `LiveLaws` — CLOSURE's and ENTER's environment construction read live cells only;
* when the callee is a continuation, that its stack copy fits the capacity of the replaced stack
  (`Stack.restore` panics otherwise: the real stack never shrinks, so a copy taken from it fits).
-/
namespace Marwood.Vm
open Verify Stack

variable {H : Type} {ops : HeapOps H}

/-- the current instruction's `BasePointerOffset` source operand (if it has one) is live -/
def BpLive (ops : HeapOps H) (s : St H) : Prop :=
  ∀ off, ops.fetch s.heap s.ipL (s.ipO + 1) = some (.bpOffset off) → (s.bp : Int) + off ≤ s.stack.sp

/-- **What `step_stack` needs from the environment constructors** (a parameter, not an axiom):
    `build_closure_environment` (CLOSURE) does not read stale stack cells — its `IofArgument`
    sources are dead (DESIGN §1), the `Environment` sources read the heap; `build_lexical_environment`
    (ENTER) reads the arguments of the frame it has just completed (`bp + 4 = sp`), which are live. -/
structure LiveLaws (cl : CodeLaws ops) : Prop where
  makeClosure : ∀ {h lam ep bp} {a b : Stack}, cl.HInv h → Agree a.sp a b →
    ops.makeClosure h lam ep bp a = ops.makeClosure h lam ep bp b
  makeActivation : ∀ {h lam env bp} {a b : Stack}, cl.HInv h → bp + 4 = a.sp → Agree a.sp a b →
    ops.makeActivation h lam env bp a = ops.makeActivation h lam env bp b

theorem bind_ok_eq {α β : Type} {x : Outcome α} {f : α → Outcome β} {a : α} (h : x = .ok a) :
    (x >>= f) = f a := by rw [h]; rfl

theorem ite_err_cond {α : Type} {c : Prop} [Decidable c] {e : Err} {x : Outcome α} {r : α}
    (h : (if c then Outcome.err e else x) = .ok r) : ¬ c := by
  split at h
  · cases h
  · assumption

/-! ## operand access -/

theorem readOpcode_stack {s s1 : St H} {op : Op} (b : Stack) (h : readOpcode ops s = .ok (op, s1)) :
    readOpcode ops { s with stack := b } = .ok (op, { s1 with stack := b }) := by
  obtain ⟨hf, e1⟩ := readOpcode_ok h
  subst e1
  unfold readOpcode at h ⊢
  dsimp only at h ⊢
  split at h
  · cases h
  · rename_i hl
    simp only [hl, hf]
    rfl

theorem readOperand_stack {s s1 : St H} {v : VCell} (b : Stack) (h : readOperand ops s = .ok (v, s1)) :
    readOperand ops { s with stack := b } = .ok (v, { s1 with stack := b }) := by
  obtain ⟨hf, e1⟩ := readOperand_ok h
  subst e1
  unfold readOperand at h ⊢
  dsimp only at h ⊢
  split at h
  · cases h
  · rename_i hl
    simp only [hl, hf] at h ⊢
    cases v <;> first | (cases h; done) | rfl

theorem loadOperand_stack {s s1 : St H} {v : VCell} {L : Nat} {b : Stack} (hag : Agree L s.stack b)
    (hlive : ∀ off, ops.fetch s.heap s.ipL s.ipO = some (.bpOffset off) → (s.bp : Int) + off ≤ L)
    (h : loadOperand ops s = .ok (v, s1)) :
    loadOperand ops { s with stack := b } = .ok (v, { s1 with stack := b }) := by
  unfold loadOperand at h ⊢
  obtain ⟨⟨opnd, s2⟩, hro, h⟩ := bind_inv h
  obtain ⟨hf, e2⟩ := readOperand_ok hro
  rw [bind_ok_eq (readOperand_stack b hro)]
  subst e2
  dsimp only at h ⊢
  cases opnd with
  | acc => cases h; rfl
  | ptr p => cases h; rfl
  | bpOffset off =>
    dsimp only at h ⊢
    have hl := hlive off hf
    split at h
    · rename_i h0
      obtain ⟨w, hg, h⟩ := bind_inv h
      cases h
      simp only [h0, if_true]
      rw [← hag.get_eq (i := ((s.bp : Int) + off).toNat) (by omega), bind_ok_eq hg]
    · cases h
  | globSlot n =>
    dsimp only at h ⊢
    cases hg : ops.globGet s.heap n <;> simp only [hg] at h ⊢ <;> cases h <;> rfl
  | lexEnvSlot n =>
    dsimp only at h ⊢
    cases he : ops.envGet s.heap s.ep n with
    | none => simp only [he] at h; cases h
    | some w =>
      simp only [he] at h ⊢
      cases w with
      | lexEnvPtr e k =>
        dsimp only at h ⊢
        cases he2 : ops.envGet s.heap e k with
        | none => simp only [he2] at h; cases h
        | some v' => simp only [he2] at h ⊢; cases h; rfl
      | _ => dsimp only at h ⊢; cases h; rfl
  | _ => cases h

theorem storeOperand_stack {cl : CodeLaws ops} {s s1 : St H} {v : VCell} (b : Stack) (hi : cl.HInv s.heap)
    (hnb : dstOk (ops.fetch s.heap s.ipL s.ipO) = true) (h : storeOperand ops s v = .ok s1) :
    s1.stack = s.stack ∧ storeOperand ops { s with stack := b } v = .ok { s1 with stack := b } := by
  refine ⟨(storeOperand_ok (cl := cl) hi h hnb).1, ?_⟩
  unfold storeOperand at h ⊢
  obtain ⟨⟨opnd, s2⟩, hro, h⟩ := bind_inv h
  obtain ⟨hf, e2⟩ := readOperand_ok hro
  rw [bind_ok_eq (readOperand_stack b hro)]
  subst e2
  rw [hf] at hnb
  dsimp only at h ⊢
  cases opnd with
  | acc => cases h; rfl
  | ptr p => cases h; rfl
  | bpOffset off => simp [dstOk] at hnb
  | globSlot n => cases h; rfl
  | lexEnvSlot n =>
    dsimp only at h ⊢
    cases he : ops.envGet s.heap s.ep n with
    | none => simp only [he] at h; cases h
    | some w =>
      simp only [he] at h ⊢
      cases w with
      | lexEnvPtr e k =>
        dsimp only at h ⊢
        cases he2 : ops.envPut s.heap e k v with
        | none => simp only [he2] at h; cases h
        | some h' => simp only [he2] at h ⊢; cases h; rfl
      | _ =>
        dsimp only at h ⊢
        cases he2 : ops.envPut s.heap s.ep n v with
        | none => simp only [he2] at h; cases h
        | some h' => simp only [he2] at h ⊢; cases h; rfl
  | _ => cases h

/-! ## RET, ENTER -/

theorem stepRet_stack {s s' : St H} {L : Nat} {b : Stack} (hag : Agree L s.stack b) (hbp : s.bp + 4 ≤ L)
    (h : stepRet s = .ok s') :
    ∃ b', stepRet { s with stack := b } = .ok { s' with stack := b' } ∧ Agree L s'.stack b' := by
  unfold stepRet at h ⊢
  obtain ⟨n, h1, h⟩ := bind_inv h
  obtain ⟨sp, hu, h⟩ := bind_inv h
  obtain ⟨ep, h2, h⟩ := bind_inv h
  obtain ⟨⟨l, o⟩, h3, h⟩ := bind_inv h
  obtain ⟨bp', h4, h⟩ := bind_inv h
  cases h
  obtain ⟨_, hsp⟩ := usub_ok hu
  have hag2 := hag.setSp (n := sp) (by omega)
  have g1 := hag.get_eq (i := s.bp + 1) (by omega)
  have g2 := hag2.get_eq (i := s.bp + 2) (by omega)
  have g3 := hag2.get_eq (i := s.bp + 3) (by omega)
  have g4 := hag2.get_eq (i := s.bp + 4) (by omega)
  refine ⟨{ b with sp := sp }, ?_, hag2⟩
  rw [← g1, bind_ok_eq h1, bind_ok_eq hu]
  dsimp only
  rw [← g2, bind_ok_eq h2, ← g3, bind_ok_eq h3]
  dsimp only
  rw [← g4, bind_ok_eq h4]

/-- the body of ENTER once the callee's lambda (and closure environment) is known -/
def enterTail (ops : HeapOps H) (s : St H) (lam : Nat) (cenv : Option Nat) : Outcome (St H) :=
  match ops.lambdaInfo s.heap lam with
  | none => .err .expectedType
  | some info => do
    let a ← s.stack.getOffset (-2)
    let n ← asArgc a
    if n ≠ info.argc then .err .invalidNumArgs else do
    let st := s.stack.push (.basePtr s.bp)
    let bp ← usub st.sp 4 "enter: sp - 4"
    let s := { s with stack := st, bp := bp }
    match cenv with
    | none => .ok s
    | some env => do
      let (h, e) ← ops.makeActivation s.heap lam env s.bp s.stack
      .ok { s with heap := h, ep := e }

theorem stepEnter_eq (s : St H) : stepEnter ops s =
    match ops.callee s.heap s.acc with
    | .closure lam env => enterTail ops s lam (some env)
    | .lambda => asPtr s.acc >>= fun p => enterTail ops s p none
    | _ => .err .invalidBytecode := by
  unfold stepEnter enterTail
  cases ops.callee s.heap s.acc <;> rfl

theorem enterTail_stack {cl : CodeLaws ops} (ll : LiveLaws cl) {s s' : St H} {L : Nat} {b : Stack}
    {lam : Nat} {cenv : Option Nat}
    (hi : cl.HInv s.heap) (hag : Agree L s.stack b) (h : enterTail ops s lam cenv = .ok s') :
    ∃ b' L', enterTail ops { s with stack := b } lam cenv = .ok { s' with stack := b' } ∧
      Agree L' s'.stack b' := by
  unfold enterTail at h ⊢
  dsimp only at h ⊢
  split at h
  · cases h
  · rename_i info hinfo
    obtain ⟨a, hg, h⟩ := bind_inv h
    obtain ⟨n, hn, h⟩ := bind_inv h
    split at h
    · cases h
    · rename_i hne
      obtain ⟨bp, hu, h⟩ := bind_inv h
      have hle := hag.le
      have g1 := hag.getOffset_eq (off := -2) (by omega)
      obtain ⟨L1, hL1, hag1⟩ := hag.push (.basePtr s.bp)
      rw [← g1, bind_ok_eq hg, bind_ok_eq hn]
      simp only [hne, if_false]
      have hu' : usub (b.push (.basePtr s.bp)).sp 4 "enter: sp - 4" = .ok bp := by
        simp only [push_sp, ← hag.sp]; simpa using hu
      obtain ⟨hu1, hu2⟩ := usub_ok hu
      simp only [push_sp] at hu1 hu2
      rw [bind_ok_eq hu']
      cases cenv with
      | none =>
        dsimp only at h ⊢
        cases h
        exact ⟨_, L1, rfl, hag1⟩
      | some env =>
        dsimp only at h ⊢
        obtain ⟨⟨h', e⟩, hm, h⟩ := bind_inv h
        cases h
        have := ll.makeActivation (lam := lam) (env := env) (bp := bp) hi (by simp only [push_sp]; omega)
          (hag1.weaken (Nat.le_refl _) hag1.le)
        rw [← this, bind_ok_eq hm]
        exact ⟨_, L1, rfl, hag1⟩

theorem stepEnter_stack {cl : CodeLaws ops} (ll : LiveLaws cl) {s s' : St H} {L : Nat} {b : Stack}
    (hi : cl.HInv s.heap) (hag : Agree L s.stack b) (h : stepEnter ops s = .ok s') :
    ∃ b' L', stepEnter ops { s with stack := b } = .ok { s' with stack := b' } ∧ Agree L' s'.stack b' := by
  rw [stepEnter_eq] at h ⊢
  dsimp only at h ⊢
  cases hc : ops.callee s.heap s.acc <;> simp only [hc] at h ⊢ <;> try (cases h; done)
  · exact enterTail_stack ll hi hag h
  · obtain ⟨p, hp, h⟩ := bind_inv h
    rw [bind_ok_eq hp]
    exact enterTail_stack ll hi hag h

/-! ## continuation invocation -/

theorem invokeCont_stack {s s' : St H} {L : Nat} {b : Stack} {c : Cont} (hag : Agree L s.stack b)
    (hc : c.stack.sp < c.stack.cells.length) (hfit : c.stack.cells.length ≤ b.cells.length)
    (h : invokeCont s c = .ok s') :
    ∃ b', invokeCont { s with stack := b } c = .ok { s' with stack := b' } ∧ Agree c.stack.sp s'.stack b' := by
  unfold invokeCont at h ⊢
  obtain ⟨⟨a, st1⟩, hp1, h⟩ := bind_inv h
  dsimp only at h
  obtain ⟨n, ha, h⟩ := bind_inv h
  split at h
  · cases h
  · rename_i hn
    obtain ⟨⟨r, st2⟩, hp2, h⟩ := bind_inv h
    dsimp only at h
    obtain ⟨s3, hrc, h⟩ := bind_inv h
    cases h
    unfold restoreCont at hrc ⊢
    obtain ⟨st3, hre, hrc⟩ := bind_inv hrc
    cases hrc
    obtain ⟨b1, q1, hag1⟩ := hag.pop hp1
    obtain ⟨b2, q2, hag2⟩ := hag1.pop hp2
    have hlen : b2.cells.length = b.cells.length := by rw [(pop_ok q2).2.1, (pop_ok q1).2.1]
    obtain ⟨b3, q3, hag3⟩ := Agree.restore_any (b := b2) hc hre (by rw [hlen]; exact hfit)
    refine ⟨b3, ?_, hag3⟩
    dsimp only
    rw [bind_ok_eq q1]
    dsimp only
    rw [bind_ok_eq ha]
    simp only [hn, if_false]
    rw [bind_ok_eq q2]
    dsimp only
    rw [bind_ok_eq q3]
    rfl

/-! ## builtins -/

theorem builtinGeneric_stack {s s' : St H} {v : VCell} {id : Nat} {L : Nat} {b : Stack}
    (hag : Agree L s.stack b) (h : builtinGeneric ops id s = .ok (s', v)) :
    ∃ b', builtinGeneric ops id { s with stack := b } = .ok ({ s' with stack := b' }, v) ∧
      Agree L s'.stack b' := by
  unfold builtinGeneric at h ⊢
  obtain ⟨⟨a, st1⟩, hp1, h⟩ := bind_inv h
  dsimp only at h
  obtain ⟨argc, ha, h⟩ := bind_inv h
  obtain ⟨⟨args, st2⟩, hpn, h⟩ := bind_inv h
  dsimp only at h
  obtain ⟨⟨h', r⟩, hbe, h⟩ := bind_inv h
  cases h
  obtain ⟨b1, q1, hag1⟩ := hag.pop hp1
  obtain ⟨b2, q2, hag2⟩ := Agree.popN _ hag1 hpn
  refine ⟨b2, ?_, hag2⟩
  dsimp only
  rw [bind_ok_eq q1]; dsimp only
  rw [bind_ok_eq ha, bind_ok_eq q2]; dsimp only
  rw [bind_ok_eq hbe]

theorem builtinEvalProc_stack {s s' : St H} {v : VCell} {L : Nat} {b : Stack}
    (hag : Agree L s.stack b) (h : builtinEvalProc ops s = .ok (s', v)) :
    ∃ b' L', builtinEvalProc ops { s with stack := b } = .ok ({ s' with stack := b' }, v) ∧
      Agree L' s'.stack b' := by
  unfold builtinEvalProc at h ⊢
  obtain ⟨⟨a, st1⟩, hp1, h⟩ := bind_inv h
  dsimp only at h
  obtain ⟨argc, ha, h⟩ := bind_inv h
  split at h
  · cases h
  · rename_i hne
    obtain ⟨⟨e, st2⟩, hp2, h⟩ := bind_inv h
    dsimp only at h
    obtain ⟨⟨h', lam⟩, hce, h⟩ := bind_inv h
    dsimp only at h
    obtain ⟨ipO, hu, h⟩ := bind_inv h
    cases h
    obtain ⟨b1, q1, hag1⟩ := hag.pop hp1
    obtain ⟨b2, q2, hag2⟩ := hag1.pop hp2
    obtain ⟨L3, _, hag3⟩ := hag2.push (.argc 0)
    refine ⟨_, L3, ?_, hag3⟩
    dsimp only
    rw [bind_ok_eq q1]; dsimp only
    rw [bind_ok_eq ha]
    simp only [hne, if_false]
    rw [bind_ok_eq q2]; dsimp only
    rw [bind_ok_eq hce]; dsimp only
    rw [bind_ok_eq hu]

theorem builtinCallcc_stack {s s' : St H} {v : VCell} {L : Nat} {b : Stack}
    (hag : Agree L s.stack b) (h : builtinCallcc ops s = .ok (s', v)) :
    ∃ b' L', builtinCallcc ops { s with stack := b } = .ok ({ s' with stack := b' }, v) ∧
      Agree L' s'.stack b' := by
  unfold builtinCallcc at h ⊢
  obtain ⟨⟨a, st1⟩, hp1, h⟩ := bind_inv h
  dsimp only at h
  obtain ⟨argc, ha, h⟩ := bind_inv h
  split at h
  · cases h
  · rename_i hne
    obtain ⟨⟨proc, st2⟩, hp2, h⟩ := bind_inv h
    dsimp only at h
    split at h
    · cases h
    · rename_i hproc
      obtain ⟨cst, hcap, h⟩ := bind_inv h
      obtain ⟨ipO, hu, h⟩ := bind_inv h
      cases h
      obtain ⟨b1, q1, hag1⟩ := hag.pop hp1
      obtain ⟨b2, q2, hag2⟩ := hag1.pop hp2
      have hc := hag2.capture_eq
      obtain ⟨L3, _, hag3⟩ := hag2.push (ops.newCont s.heap ⟨cst, s.ep, s.ipL, s.ipO, s.bp⟩).2
      obtain ⟨L4, _, hag4⟩ := hag3.push (.argc 1)
      refine ⟨_, L4, ?_, hag4⟩
      dsimp only
      rw [bind_ok_eq q1]; dsimp only
      rw [bind_ok_eq ha]
      simp only [hne, if_false]
      rw [bind_ok_eq q2]; dsimp only
      simp only [hproc, Bool.false_eq_true, if_false]
      rw [← hc, bind_ok_eq hcap]
      rw [bind_ok_eq hu]

theorem builtinApply_stack {s s' : St H} {v : VCell} {L : Nat} {b : Stack}
    (hag : Agree L s.stack b) (h : builtinApply ops s = .ok (s', v)) :
    ∃ b' L', builtinApply ops { s with stack := b } = .ok ({ s' with stack := b' }, v) ∧
      Agree L' s'.stack b' := by
  unfold builtinApply at h ⊢
  obtain ⟨⟨a, st1⟩, hp1, h⟩ := bind_inv h
  dsimp only at h
  obtain ⟨argc, ha, h⟩ := bind_inv h
  split at h
  · cases h
  · rename_i hlt
    obtain ⟨⟨top, st2⟩, hp2, h⟩ := bind_inv h
    dsimp only at h
    have hshape := ite_err_cond h
    replace h := ite_err_inv h
    · obtain ⟨proc, hg, h⟩ := bind_inv h
      obtain ⟨st3, hsh, h⟩ := bind_inv h
      obtain ⟨⟨x, st4⟩, hp4, h⟩ := bind_inv h
      dsimp only at h
      obtain ⟨⟨n, st5⟩, hpl, h⟩ := bind_inv h
      dsimp only at h
      obtain ⟨ipO, hu, h⟩ := bind_inv h
      cases h
      obtain ⟨b1, q1, hag1⟩ := hag.pop hp1
      obtain ⟨b2, q2, hag2⟩ := hag1.pop hp2
      have hle2 := hag2.le
      have g := hag2.getOffset_eq (off := -((argc : Int) - 2)) (by omega)
      obtain ⟨b3, q3, hag3⟩ := Agree.shift _ hag2 hsh
      obtain ⟨b4, q4, hag4⟩ := hag3.pop hp4
      obtain ⟨b5, L5, _, q5, hag5⟩ :=
        Agree.pushList (ops := ops) (s := s) (s2 := { s with stack := b }) rfl _ _ _ hag4 hpl
      obtain ⟨L6, _, hag6⟩ := hag5.push (.argc n)
      refine ⟨_, L6, ?_, hag6⟩
      dsimp only
      rw [bind_ok_eq q1]; dsimp only
      rw [bind_ok_eq ha]
      simp only [hlt, if_false]
      rw [bind_ok_eq q2]; dsimp only
      simp only [hshape, Bool.false_eq_true, if_false]
      rw [← g, bind_ok_eq hg, bind_ok_eq q3, bind_ok_eq q4]; dsimp only
      rw [bind_ok_eq q5]; dsimp only
      rw [bind_ok_eq hu]

/-- the `acc` update after a builtin -/
def accTail (ops : HeapOps H) (s : St H) (v : VCell) : Outcome (St H) :=
  match v with
  | .ptr p => .ok { s with acc := .ptr p }
  | v => let (h, r) := ops.maybePut s.heap v; .ok { s with heap := h, acc := r }

theorem runBuiltin_eq (id : Nat) (s : St H) : runBuiltin ops id s =
    ((match ops.builtinKind s.heap id with
      | .apply => builtinApply ops s
      | .callcc => builtinCallcc ops s
      | .eval => builtinEvalProc ops s
      | .generic => builtinGeneric ops id s) >>= fun (s, v) => accTail ops s v) := by
  unfold runBuiltin accTail
  cases ops.builtinKind s.heap id <;> rfl

theorem accTail_stack {s s' : St H} {v : VCell} (b : Stack) (h : accTail ops s v = .ok s') :
    s'.stack = s.stack ∧ accTail ops { s with stack := b } v = .ok { s' with stack := b } := by
  unfold accTail at h ⊢
  cases v <;> dsimp only at h ⊢ <;> cases h <;> exact ⟨rfl, rfl⟩

theorem runBuiltin_stack {s s' : St H} {id : Nat} {L : Nat} {b : Stack}
    (hag : Agree L s.stack b) (h : runBuiltin ops id s = .ok s') :
    ∃ b' L', runBuiltin ops id { s with stack := b } = .ok { s' with stack := b' } ∧
      Agree L' s'.stack b' := by
  rw [runBuiltin_eq] at h ⊢
  obtain ⟨⟨s2, v⟩, hb, h⟩ := bind_inv h
  dsimp only at h hb ⊢
  have fin : ∀ {b' L'}, Agree L' s2.stack b' → ∃ b'' L'', accTail ops { s2 with stack := b' } v =
      .ok { s' with stack := b'' } ∧ Agree L'' s'.stack b'' := by
    intro b' L' hag'
    obtain ⟨e, q⟩ := accTail_stack b' h
    exact ⟨b', L', q, by rw [e]; exact hag'⟩
  cases hk : ops.builtinKind s.heap id <;> rw [hk] at hb <;> dsimp only at hb ⊢
  · obtain ⟨b', L', q, hag'⟩ := builtinApply_stack hag hb
    obtain ⟨b'', L'', q', hag''⟩ := fin hag'
    exact ⟨b'', L'', by rw [bind_ok_eq q]; exact q', hag''⟩
  · obtain ⟨b', L', q, hag'⟩ := builtinEvalProc_stack hag hb
    obtain ⟨b'', L'', q', hag''⟩ := fin hag'
    exact ⟨b'', L'', by rw [bind_ok_eq q]; exact q', hag''⟩
  · obtain ⟨b', L', q, hag'⟩ := builtinCallcc_stack hag hb
    obtain ⟨b'', L'', q', hag''⟩ := fin hag'
    exact ⟨b'', L'', by rw [bind_ok_eq q]; exact q', hag''⟩
  · obtain ⟨b', q, hag'⟩ := builtinGeneric_stack hag hb
    obtain ⟨b'', L'', q', hag''⟩ := fin hag'
    exact ⟨b'', L'', by rw [bind_ok_eq q]; exact q', hag''⟩

/-! ## CALL, TCALL, VARARG -/

/-- what CALL/TCALL need to know about a continuation callee: its copy is full (`sp` inside it — it
    is a snapshot of a WF state) and fits the capacity of the other stack -/
def ContFits (ops : HeapOps H) (s : St H) (b : Stack) : Prop :=
  ∀ c, ops.callee s.heap s.acc = .continuation c →
    c.stack.sp < c.stack.cells.length ∧ c.stack.cells.length ≤ b.cells.length

theorem stepCall_stack {s s' : St H} {L : Nat} {b : Stack} (hag : Agree L s.stack b)
    (hcf : ContFits ops s b) (h : stepCall ops s = .ok s') :
    ∃ b' L', stepCall ops { s with stack := b } = .ok { s' with stack := b' } ∧ Agree L' s'.stack b' := by
  unfold stepCall at h ⊢
  dsimp only at h ⊢
  cases hc : ops.callee s.heap s.acc with
  | builtin id =>
    simp only [hc] at h ⊢
    exact runBuiltin_stack hag h
  | continuation c =>
    simp only [hc] at h ⊢
    obtain ⟨c1, c2⟩ := hcf c hc
    obtain ⟨b', q, hag'⟩ := invokeCont_stack hag c1 c2 h
    exact ⟨b', _, q, hag'⟩
  | other => simp only [hc] at h; cases h
  | closure lam env =>
    simp only [hc] at h ⊢
    cases h
    obtain ⟨L1, _, hag1⟩ := hag.push (.envPtr s.ep)
    obtain ⟨L2, _, hag2⟩ := hag1.push (.instrPtr s.ipL s.ipO)
    exact ⟨_, L2, rfl, hag2⟩
  | lambda =>
    simp only [hc] at h ⊢
    obtain ⟨lam, hp, h⟩ := bind_inv h
    cases h
    rw [bind_ok_eq hp]
    obtain ⟨L1, _, hag1⟩ := hag.push (.envPtr s.ep)
    obtain ⟨L2, _, hag2⟩ := hag1.push (.instrPtr s.ipL s.ipO)
    exact ⟨_, L2, rfl, hag2⟩

theorem tcallTail_stack {s s' : St H} {L : Nat} {b : Stack} {lam : Nat} (hag : Agree L s.stack b)
    (hsp : s.stack.sp = L) (hbp : s.bp + 4 ≤ L) (h : tcallTail s lam = .ok s') :
    ∃ b' L', tcallTail { s with stack := b } lam = .ok { s' with stack := b' } ∧ Agree L' s'.stack b' := by
  unfold tcallTail at h ⊢
  obtain ⟨argc, h1, h⟩ := bind_inv h
  obtain ⟨fargc, h2, h⟩ := bind_inv h
  have g0 := hag.getOffset_eq (off := 0) (by omega)
  have g1 := hag.get_eq (i := s.bp + 1) (by omega)
  have g2 := hag.get_eq (i := s.bp + 2) (by omega)
  have g3 := hag.get_eq (i := s.bp + 3) (by omega)
  have g4 := hag.get_eq (i := s.bp + 4) (by omega)
  dsimp only
  rw [← g0, bind_ok_eq h1, ← g1, bind_ok_eq h2]
  split at h
  · rename_i heq
    subst heq
    rw [if_pos rfl]
    obtain ⟨sb, h4, h⟩ := bind_inv h
    obtain ⟨st, hcp, h⟩ := bind_inv h
    obtain ⟨bp', hb, h⟩ := bind_inv h
    cases h
    obtain ⟨b1, q1, hag1⟩ := Agree.tcallCopySame _ _ _ hag (by omega) hcp
    have hag2 := hag1.setSp (n := s.bp + 3) (by omega)
    refine ⟨_, L, ?_, hag2⟩
    rw [← g4, bind_ok_eq h4, bind_ok_eq q1, bind_ok_eq hb]
  · rename_i hne
    simp only [hne, if_false]
    obtain ⟨se, h2', h⟩ := bind_inv h
    obtain ⟨si, h3, h⟩ := bind_inv h
    obtain ⟨sb, h4, h⟩ := bind_inv h
    obtain ⟨sp0, hu, h⟩ := bind_inv h
    obtain ⟨st, hcp, h⟩ := bind_inv h
    obtain ⟨bp', hb, h⟩ := bind_inv h
    cases h
    obtain ⟨_, hsp0⟩ := usub_ok hu
    have hag0 := hag.setSp (n := sp0) (by omega)
    obtain ⟨b1, L1, _, q1, hag1⟩ := Agree.tcallCopyDiff argc s.stack.sp hag0 (by omega) hcp
    obtain ⟨L2, _, hag2⟩ := hag1.push (.argc argc)
    obtain ⟨L3, _, hag3⟩ := hag2.push se
    obtain ⟨L4, _, hag4⟩ := hag3.push si
    refine ⟨_, L4, ?_, hag4⟩
    rw [← g2, bind_ok_eq h2', ← g3, bind_ok_eq h3, ← g4, bind_ok_eq h4, bind_ok_eq hu]
    dsimp only
    rw [← hag.sp, bind_ok_eq q1, bind_ok_eq hb]

theorem stepTCall_stack {s s' : St H} {L : Nat} {b : Stack} (hag : Agree L s.stack b)
    (hsp : s.stack.sp = L) (hbp : s.bp + 4 ≤ L)
    (hcf : ContFits ops s b) (h : stepTCall ops s = .ok s') :
    ∃ b' L', stepTCall ops { s with stack := b } = .ok { s' with stack := b' } ∧ Agree L' s'.stack b' := by
  cases hc : ops.callee s.heap s.acc with
  | builtin id =>
    unfold stepTCall at h ⊢
    dsimp only at h ⊢
    simp only [hc] at h ⊢
    exact runBuiltin_stack hag h
  | continuation c =>
    unfold stepTCall at h ⊢
    dsimp only at h ⊢
    simp only [hc] at h ⊢
    obtain ⟨c1, c2⟩ := hcf c hc
    obtain ⟨b', q, hag'⟩ := invokeCont_stack hag c1 c2 h
    exact ⟨b', _, q, hag'⟩
  | other =>
    unfold stepTCall at h
    rw [hc] at h; cases h
  | closure lam env =>
    rw [stepTCall_closure hc] at h
    rw [stepTCall_closure (s := { s with stack := b }) (lam := lam) (env := env) hc]
    exact tcallTail_stack hag hsp hbp h
  | lambda =>
    rw [stepTCall_lambda hc] at h
    rw [stepTCall_lambda (s := { s with stack := b }) hc]
    obtain ⟨lam, hp, h⟩ := bind_inv h
    dsimp only
    rw [bind_ok_eq hp]
    exact tcallTail_stack hag hsp hbp h

theorem stepVarArg_stack {s s' : St H} {L : Nat} {b : Stack} (hag : Agree L s.stack b)
    (h : stepVarArg ops s = .ok s') :
    ∃ b' L', stepVarArg ops { s with stack := b } = .ok { s' with stack := b' } ∧ Agree L' s'.stack b' := by
  unfold stepVarArg at h ⊢
  dsimp only at h ⊢
  split at h
  · cases h
  · rename_i info hinfo
    obtain ⟨req, hu, h⟩ := bind_inv h
    obtain ⟨argc, h1, h⟩ := bind_inv h
    have hle := hag.le
    have g2 := hag.getOffset_eq (off := -2) (by omega)
    rw [bind_ok_eq hu, ← g2, bind_ok_eq h1]
    split at h
    · cases h
    · rename_i hlt
      simp only [hlt, if_false]
      split at h
      · rename_i heq
        simp only [heq, if_true]
        obtain ⟨v3, g3, h⟩ := bind_inv h
        obtain ⟨pa, hpa, h⟩ := bind_inv h
        obtain ⟨pn, hpn, h⟩ := bind_inv h
        obtain ⟨st1, hset, h⟩ := bind_inv h
        cases h
        have e3 := hag.getOffset_eq (off := -3) (by omega)
        obtain ⟨b1, q1, hag1⟩ := hag.setOffset (off := -3) (by omega) hset
        refine ⟨b1, L, ?_, hag1⟩
        rw [← e3, bind_ok_eq g3]
        dsimp only
        rw [bind_ok_eq hpa, bind_ok_eq hpn, bind_ok_eq q1]
      · rename_i hne
        simp only [hne, if_false]
        obtain ⟨⟨c1, st1⟩, hp1, h⟩ := bind_inv h
        dsimp only at h
        obtain ⟨⟨c2, st2⟩, hp2, h⟩ := bind_inv h
        dsimp only at h
        obtain ⟨⟨c3, st3⟩, hp3, h⟩ := bind_inv h
        dsimp only at h
        obtain ⟨pn, hpn, h⟩ := bind_inv h
        obtain ⟨⟨h2, lst, st4⟩, hcol, h⟩ := bind_inv h
        dsimp only at h
        cases h
        obtain ⟨b1, q1, hag1⟩ := hag.pop hp1
        obtain ⟨b2, q2, hag2⟩ := hag1.pop hp2
        obtain ⟨b3, q3, hag3⟩ := hag2.pop hp3
        obtain ⟨b4, q4, hag4⟩ := Agree.varargCollect _ _ _ hag3 hcol
        obtain ⟨L5, _, hag5⟩ := hag4.push (.ptr lst)
        obtain ⟨L6, _, hag6⟩ := hag5.push (.argc (req + 1))
        obtain ⟨L7, _, hag7⟩ := hag6.push c2
        obtain ⟨L8, _, hag8⟩ := hag7.push c1
        refine ⟨_, L8, ?_, hag8⟩
        rw [bind_ok_eq q1]; dsimp only
        rw [bind_ok_eq q2]; dsimp only
        rw [bind_ok_eq q3]; dsimp only
        rw [bind_ok_eq hpn, bind_ok_eq q4]

/-! ## one instruction -/

/-- **`step` reads live cells only**: replace the stack of a WF state by one that agrees with it on
    `0 ..= sp`; a successful `step` stays successful, with the same heap, registers and halting flag,
    and the new stacks agree on their live cells. -/
theorem step_stack {cl : CodeLaws ops} (ll : LiveLaws cl) {s r : St H} {K : List FDesc} {b : Stack} {bl : Bool}
    (hw : WFS cl s K) (hag : Agree s.stack.sp s.stack b) (hbl : BpLive ops s)
    (hfit : ∀ c, ops.callee s.heap s.acc = .continuation c → c.stack.cells.length ≤ b.cells.length)
    (hs : step ops s = .ok (r, bl)) :
    ∃ b', step ops { s with stack := b } = .ok ({ r with stack := b' }, bl) ∧
      Agree r.stack.sp r.stack b' := by
  have hs0 := hs
  unfold step at hs0 ⊢
  obtain ⟨⟨op, s1⟩, hr, hs0⟩ := bind_inv hs0
  obtain ⟨t, st, ai, e1⟩ := hw.instr hr
  rw [bind_ok_eq (readOpcode_stack b hr)]
  subst e1
  have fin : ∀ {r : St H} {b' : Stack} {L' : Nat}, Agree L' r.stack b' → Agree r.stack.sp r.stack b' :=
    fun h => h.weaken (Nat.le_refl _) h.le
  have hcf : ContFits ops { s with ipO := s.ipO + 1 } b := by
    intro c hc
    obtain ⟨Kc, hcw⟩ := cl.cont_wf hw.inv hc
    exact ⟨hcw.cap, hfit c hc⟩
  have chk := ai.chk
  have hfr := hw.wf.frames
  cases op with
  | jmp =>
    dsimp only at hs0 ⊢
    obtain ⟨⟨v, s2⟩, hro, hs0⟩ := bind_inv hs0
    obtain ⟨o, ho, hs0⟩ := bind_inv hs0
    cases hs0
    have e2 := (readOperand_ok hro).2
    rw [bind_ok_eq (readOperand_stack b hro)]
    subst e2
    dsimp only
    rw [bind_ok_eq ho]
    exact ⟨b, rfl, hag⟩
  | jnt =>
    dsimp only at hs0 ⊢
    obtain ⟨⟨v, s2⟩, hro, hs0⟩ := bind_inv hs0
    obtain ⟨o, ho, hs0⟩ := bind_inv hs0
    have e2 := (readOperand_ok hro).2
    rw [bind_ok_eq (readOperand_stack b hro)]
    subst e2
    dsimp only at hs0 ⊢
    rw [bind_ok_eq ho]
    split at hs0 <;> (cases hs0; exact ⟨b, rfl, hag⟩)
  | mov =>
    dsimp only at hs0 ⊢
    cases st <;> simp only [checkOp, Bool.and_eq_true] at chk <;> first | exact absurd chk Bool.false_ne_true | skip
    obtain ⟨⟨_, c1⟩, _⟩ := chk
    obtain ⟨⟨v, s2⟩, hlo, hs0⟩ := bind_inv hs0
    obtain ⟨s3, hso, hs0⟩ := bind_inv hs0
    cases hs0
    have e2 := loadOperand_ok hlo
    rw [bind_ok_eq (loadOperand_stack (s := { s with ipO := s.ipO + 1 }) hag hbl hlo)]
    subst e2
    have hnb : dstOk (ops.fetch s.heap s.ipL (s.ipO + 1 + 1)) = true := by rw [ai.fetch]; exact c1
    obtain ⟨q1, q2⟩ := storeOperand_stack (cl := cl) (s := { s with ipO := s.ipO + 1 + 1 }) b ai.hw.inv hnb hso
    dsimp only
    rw [bind_ok_eq q2]
    exact ⟨b, rfl, by rw [q1]; exact hag⟩
  | movImm =>
    dsimp only at hs0 ⊢
    cases st <;> simp only [checkOp, Bool.and_eq_true] at chk <;> first | exact absurd chk Bool.false_ne_true | skip
    obtain ⟨⟨_, c1⟩, _⟩ := chk
    obtain ⟨⟨v, s2⟩, hro, hs0⟩ := bind_inv hs0
    obtain ⟨s3, hso, hs0⟩ := bind_inv hs0
    cases hs0
    have e2 := (readOperand_ok hro).2
    rw [bind_ok_eq (readOperand_stack b hro)]
    subst e2
    have hnb : dstOk (ops.fetch s.heap s.ipL (s.ipO + 1 + 1)) = true := by rw [ai.fetch]; exact c1
    obtain ⟨q1, q2⟩ := storeOperand_stack (cl := cl) (s := { s with ipO := s.ipO + 1 + 1 }) b ai.hw.inv hnb hso
    dsimp only
    rw [bind_ok_eq q2]
    exact ⟨b, rfl, by rw [q1]; exact hag⟩
  | push =>
    dsimp only at hs0 ⊢
    obtain ⟨⟨v, s2⟩, hlo, hs0⟩ := bind_inv hs0
    cases hs0
    have e2 := loadOperand_ok hlo
    rw [bind_ok_eq (loadOperand_stack (s := { s with ipO := s.ipO + 1 }) hag hbl hlo)]
    subst e2
    obtain ⟨L1, _, hag1⟩ := hag.push v
    exact ⟨_, rfl, fin hag1⟩
  | pushImm =>
    dsimp only at hs0 ⊢
    obtain ⟨⟨v, s2⟩, hro, hs0⟩ := bind_inv hs0
    cases hs0
    have e2 := (readOperand_ok hro).2
    rw [bind_ok_eq (readOperand_stack b hro)]
    subst e2
    obtain ⟨L1, _, hag1⟩ := hag.push v
    exact ⟨_, rfl, fin hag1⟩
  | pushAcc =>
    dsimp only at hs0 ⊢
    cases hs0
    obtain ⟨L1, _, hag1⟩ := hag.push s.acc
    exact ⟨_, rfl, fin hag1⟩
  | halt =>
    dsimp only at hs0 ⊢
    cases hs0
    exact ⟨b, rfl, hag⟩
  | cons =>
    dsimp only at hs0 ⊢
    obtain ⟨⟨d, st1⟩, hp1, hs0⟩ := bind_inv hs0
    dsimp only at hs0
    obtain ⟨⟨a, st2⟩, hp2, hs0⟩ := bind_inv hs0
    dsimp only at hs0
    obtain ⟨pa, ha, hs0⟩ := bind_inv hs0
    obtain ⟨pd, hd, hs0⟩ := bind_inv hs0
    cases hs0
    obtain ⟨b1, q1, hag1⟩ := hag.pop hp1
    obtain ⟨b2, q2, hag2⟩ := hag1.pop hp2
    rw [bind_ok_eq q1]; dsimp only
    rw [bind_ok_eq q2]; dsimp only
    rw [bind_ok_eq ha, bind_ok_eq hd]
    exact ⟨b2, rfl, hag2.weaken (Nat.le_refl _) hag2.le⟩
  | vpushAcc =>
    dsimp only at hs0 ⊢
    obtain ⟨⟨d, st1⟩, hp1, hs0⟩ := bind_inv hs0
    dsimp only at hs0
    obtain ⟨h', hv, hs0⟩ := bind_inv hs0
    cases hs0
    obtain ⟨b1, q1, hag1⟩ := hag.pop hp1
    rw [bind_ok_eq q1]; dsimp only
    rw [bind_ok_eq hv]
    exact ⟨b1, rfl, hag1.weaken (Nat.le_refl _) hag1.le⟩
  | closureAcc =>
    dsimp only at hs0 ⊢
    obtain ⟨lam, hp, hs0⟩ := bind_inv hs0
    obtain ⟨⟨h', c⟩, hm, hs0⟩ := bind_inv hs0
    cases hs0
    have := ll.makeClosure (lam := lam) (ep := s.ep) (bp := s.bp) hw.inv hag
    rw [bind_ok_eq hp, ← this, bind_ok_eq hm]
    exact ⟨b, rfl, hag⟩
  | callAcc =>
    dsimp only at hs0 ⊢
    obtain ⟨s2, he, hs0⟩ := bind_inv hs0
    cases hs0
    obtain ⟨b', L', q, hag'⟩ := stepCall_stack (s := { s with ipO := s.ipO + 1 }) hag hcf he
    rw [bind_ok_eq q]
    exact ⟨b', rfl, fin hag'⟩
  | tcallAcc =>
    dsimp only at hs0 ⊢
    cases st <;> simp only [checkOp, Bool.and_eq_true] at chk <;> first | exact absurd chk Bool.false_ne_true | skip
    have hent : t.entry = false := by simpa using chk.1
    obtain ⟨_, _, _, _, _, _, hm, _⟩ := hfr.inv_frame ai.ht hent ai.hst (by simp)
    have hbp := hm.lo_le
    obtain ⟨s2, he, hs0⟩ := bind_inv hs0
    cases hs0
    obtain ⟨b', L', q, hag'⟩ := stepTCall_stack (s := { s with ipO := s.ipO + 1 }) hag rfl hbp hcf he
    rw [bind_ok_eq q]
    exact ⟨b', rfl, fin hag'⟩
  | enter =>
    dsimp only at hs0 ⊢
    obtain ⟨s2, he, hs0⟩ := bind_inv hs0
    cases hs0
    obtain ⟨b', L', q, hag'⟩ := stepEnter_stack ll (s := { s with ipO := s.ipO + 1 }) hw.inv hag he
    rw [bind_ok_eq q]
    exact ⟨b', rfl, fin hag'⟩
  | ret =>
    dsimp only at hs0 ⊢
    cases st <;> simp only [checkOp] at chk <;> first | exact absurd chk Bool.false_ne_true | skip
    have hent : t.entry = false := by simpa using chk
    obtain ⟨_, _, _, _, _, _, hm, _⟩ := hfr.inv_frame ai.ht hent ai.hst (by simp)
    have hbp := hm.lo_le
    obtain ⟨s2, he, hs0⟩ := bind_inv hs0
    cases hs0
    obtain ⟨b', q, hag'⟩ := stepRet_stack (s := { s with ipO := s.ipO + 1 }) hag hbp he
    rw [bind_ok_eq q]
    exact ⟨b', rfl, fin hag'⟩
  | varArg =>
    dsimp only at hs0 ⊢
    obtain ⟨s2, he, hs0⟩ := bind_inv hs0
    cases hs0
    obtain ⟨b', L', q, hag'⟩ := stepVarArg_stack (s := { s with ipO := s.ipO + 1 }) hag he
    rw [bind_ok_eq q]
    exact ⟨b', rfl, fin hag'⟩

end Marwood.Vm
