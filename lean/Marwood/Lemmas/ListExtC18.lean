import Marwood.Lemmas.ListExtSim
import Marwood.Lemmas.ListExtGood
import Marwood.Lemmas.ListExtCode
import Marwood.Lemmas.ListExtProc
import Marwood.Lemmas.ListExtDemo
import Marwood.Lemmas.ListExtC03
import Marwood.Proofs.C18

/-! Corollaries of `Proofs/C18.lean` at the real builtins `listExtWith` (see Lemmas/ListExtProps.lean for the overview). -/

namespace Marwood.Proofs.C18
open Marwood Marwood.Heap Marwood.Vm Marwood.Vm.Concrete Marwood.Lemmas.Sim Marwood.Lemmas.Good Marwood.Proofs.C03
  Marwood.Lemmas.MachineSym

/-- the stack discipline along every run of the machine with the real builtins -/
theorem stackDiscAlong_listExt (eqTag : String → String → Bool) (force : Bool) {s0 : St CHeap}
    (h0 : VmOk (listExtWith eqTag) (listExtWith_codeLawsV eqTag) s0) (p0 : PInv s0)
    (sb : SizeBounded (machine (listExtWith eqTag) force) s0) :
    StackDiscAlong (machine (listExtWith eqTag) force) s0 :=
  stackDiscAlong_of_wfs force (listExtWith_laws eqTag) (listExtWith_good eqTag) h0 sb
    (calleeOkAlong_listExt eqTag force h0 p0 sb)

/-- **T18.1/T18.2 at the real builtins**: in every state the machine reaches — through any number of `cons`,
    `set-car!`, `eq?`, … calls and of collections — two symbol values sitting anywhere a first-class value can sit
    are equal iff their names are equal -/
theorem symbols_interned_listExt (eqTag : String → String → Bool) (force : Bool) {s0 : St CHeap}
    (h0 : VmOk (listExtWith eqTag) (listExtWith_codeLawsV eqTag) s0) (p0 : PInv s0)
    (sb : SizeBounded (machine (listExtWith eqTag) force) s0) {s : St CHeap}
    (hr : Reaches (machine (listExtWith eqTag) force) s0 s)
    {v w : Vm.VCell} {n m : Text} (lv : Loc s v) (lw : Loc s w) (sv : SymVal s.heap v n) (sw : SymVal s.heap w m) :
    v = w ↔ n = m :=
  symbols_interned_in_every_reachable_state force (listExtWith_laws eqTag) (listExtWith_good eqTag) h0.1 sb
    (stackDiscAlong_listExt eqTag force h0 p0 sb) hr lv lw sv sw

/-- production: every allocated symbol cell of the state after an instruction (a builtin call included) is THE
    cell of its name -/
theorem symbol_production_interns_listExt (eqTag : String → String → Bool) (force : Bool) {s0 : St CHeap}
    (h0 : VmOk (listExtWith eqTag) (listExtWith_codeLawsV eqTag) s0) (p0 : PInv s0)
    (sb : SizeBounded (machine (listExtWith eqTag) force) s0) {s s' : St CHeap}
    (hr : Reaches (machine (listExtWith eqTag) force) s0 s)
    (hs : (machine (listExtWith eqTag) force).step s = .next s' ∨ (machine (listExtWith eqTag) force).step s = .halt s')
    {p : Nat} {n : Text} (hc : SymCell s'.heap p n) (hn : (toHeap s'.heap).NonFree p) :
    symLookup s'.heap n = some p ∧ ∀ q, SymCell s'.heap q n → (toHeap s'.heap).NonFree q → q = p :=
  symbol_production_interns_machine force (listExtWith_laws eqTag) (listExtWith_good eqTag) h0.1 sb
    (stackDiscAlong_listExt eqTag force h0 p0 sb) hr hs hc hn

end Marwood.Proofs.C18
