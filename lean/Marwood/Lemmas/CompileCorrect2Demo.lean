import Marwood.Lemmas.CompileCorrect2Toy
/-!
# T01.3 stage 2 — every hypothesis discharged for `((lambda (x) (if x 1 2)) #t)`

The compiler model emits for the program (top-level context, fuel 20, offset 0, non-tail)

    MOVIMM #t acc; PUSH acc; PUSHIMM argc1; MOVIMM <lambda 0> acc; CLOSURE; CALL

and registers lambda 0 = `ENTER; MOV <env x> acc; JNT 11; MOVIMM 1 acc; JMP 14; MOVIMM 2 acc; RET` with the
environment map `[x ↦ Argument 0]`. On the heap of `CompileCorrect2Toy.lean` (lambda 0 at address 0, the
top-level code at address 1) all hypotheses of `compileExpr_correct2` hold, so the machine runs CLOSURE, CALL,
ENTER (activation environment `[#t]`), the body (the lexical load of `x`, `JNT`, the constant), RET, and
ends with a representation of `1` in `acc`, the stack as before, and a heap that represents the
specification's final state (one variable cell, holding `#t`).
-/
namespace Marwood.Lemmas.CompileCorrect2.Toy
open Marwood Marwood.Vm Marwood.Lemmas.CompileCorrect Marwood.Lemmas.CompileCorrect2
open Marwood.Spec.Eval (Val Cell evalN k_lambda k_if_)

def kx : Text := ['x']

def lamE : Datum :=
  Datum.ofList [.sym k_lambda, Datum.ofList [.sym kx],
    Datum.ofList [.sym k_if_, .sym kx, .num (.fix 1), .num (.fix 2)]]

def progE : Datum := Datum.ofList [lamE, .bool true]

def lamCtx : Ctx := ⟨[kx], [(kx, .argument 0)]⟩

def bodyCode : List BC :=
  [.op .mov, .envSlot kx, .acc, .op .jnt, .target 11, .op .movImm, .datum (.num (.fix 1)), .acc,
   .op .jmp, .target 14, .op .movImm, .datum (.num (.fix 2)), .acc]

def demoParts : LambdaParts :=
  { formals := [kx], isVararg := false, ctx := lamCtx, prologue := [.op .enter],
    body := Datum.ofList [Datum.ofList [.sym k_if_, .sym kx, .num (.fix 1), .num (.fix 2)]] }

def demoLam : LambdaM := lamOf demoParts bodyCode

def progCode : List BC :=
  [.op .movImm, .datum (.bool true), .acc, .op .pushAcc, .op .pushImm, .argc 1,
   .op .movImm, .lambda 0, .acc, .op .closureAcc, .op .callAcc]

theorem demo_parts : lambdaParts 18 c0 lamE false = .ok demoParts := by rfl

deriving instance DecidableEq for Marwood.Vm.BC
deriving instance DecidableEq for Marwood.Vm.LambdaM
deriving instance DecidableEq for Marwood.Vm.CState

/-- the compiler returned exactly this table and this code (a decidable test: kernel-evaluated below) -/
def okIs (r : Except CErr (CState × List BC)) (st : CState) (code : List BC) : Bool :=
  match r with
  | .ok (s, c) => s == st && c == code
  | .error _ => false

theorem okIs_eq {r : Except CErr (CState × List BC)} {st : CState} {code : List BC} (h : okIs r st code = true) :
    r = .ok (st, code) := by
  cases r with
  | error e => cases h
  | ok p =>
    obtain ⟨s, c⟩ := p
    simp only [okIs, Bool.and_eq_true, beq_iff_eq] at h
    rw [h.1, h.2]

theorem demo_compile : compileExpr 20 {} c0 0 false progE = .ok ({ lambdas := [demoLam] }, progCode) :=
  okIs_eq (by decide +kernel)

def demoCells0 : List VCell :=
  [.opcode .enter, .opcode .mov, .lexEnvSlot 0, .acc, .opcode .jnt, .ptr 11, .opcode .movImm, .opaque "n1", .acc,
   .opcode .jmp, .ptr 14, .opcode .movImm, .opaque "n2", .acc, .opcode .ret]

def demoCells1 : List VCell :=
  [.opcode .movImm, .bool true, .acc, .opcode .pushAcc, .opcode .pushImm, .argc 1,
   .opcode .movImm, .ptr 0, .acc, .opcode .closureAcc, .opcode .callAcc]

def demoHeap : THeap :=
  { lams := [⟨demoCells0, 1, [.arg 0]⟩, ⟨demoCells1, 0, []⟩], envs := #[], clos := #[], globals := #[] }

def demoState : MSt THeap :=
  { heap := demoHeap, stack := ⟨List.replicate 8 .undefined, 0⟩, acc := .undefined, ep := 0, ipL := 1, ipO := 0,
    bp := 0 }

def demoSt : SSt := { globals := [], store := #[], out := [] }
def demoSt' : SSt := { globals := [], store := #[.var (.bool true)], out := [] }

theorem demo_eval : (evalN 6).eval progE [] demoSt = .ok (.int 1) demoSt' := by rfl

abbrev demoD : RepData2 tops := tD [demoLam]

/-- what represents an integer on this heap -/
theorem tVRc_int {h : THeap} {S : Array Cell} {v : VCell} {n : Int} (x : tVRc h S v (.int n)) :
    v = .opaque ("n" ++ toString n) := by
  cases x with
  | base hb => exact hb

/-- loaded code from a list of cells -/
theorem CodeAt2.ofAll2 {H : Type} {ops : HeapOps H} {D : RepData2 ops} {em : List (Text × Source)} {h : H}
    {S : Array Cell} {l base : Nat} {code : List BC} (vs : List VCell) (hl : ops.isLambda h l = true)
    (hf : ∀ i, i < vs.length → ops.fetch h l (base + i) = vs[i]?)
    (h2 : All2 (Loads2 D em h S) code vs) : CodeAt2 D em h S l base code := by
  refine ⟨hl, ?_⟩
  induction h2 generalizing base with
  | nil => intro i bc hi; simp at hi
  | @cons bc v code vs hb _ ih =>
    intro i bc' hi
    cases i with
    | zero =>
      simp at hi; subst hi
      exact ⟨v, by rw [hf 0 (by simp)]; rfl, hb⟩
    | succ j =>
      simp at hi
      have := ih (base := base + 1) (fun k hk => by
        have := hf (k + 1) (by simp; omega)
        rw [show base + 1 + k = base + (k + 1) by omega, this]; simp) j bc' hi
      rwa [show base + 1 + j = base + (j + 1) by omega] at this

theorem demo_frag : F2 (fun _ => False) 20 c0 (bound []) false progE := by
  have hx : inEnv lamCtx kx = true := by decide
  refine F2.app lamE _ ⟨by decide, by intro x h; cases h⟩ ?_ (F2L.cons _ _ (F2.bool true) F2L.nil)
  refine F2.lambda (Datum.ofList [.sym kx]) _ demoParts [kx] _ [] [] demo_parts (by rfl) rfl rfl (by decide) (by rfl)
    (by intro e he; simp at he; subst he; rfl) rfl (by intro q hq; cases hq) ?_
  refine F2B.last _ (F2.if3 _ _ _ (F2.sym kx ⟨fun _ => .inl (by simp), fun _ => hx⟩) (F2.num _) (F2.num _))

theorem demo_loads_n1 (h : THeap) (S : Array Cell) (em : List (Text × Source)) :
    Loads2 demoD em h S (.datum (.num (.fix 1))) (.opaque "n1") :=
  ⟨(by intro o e; cases e), .atom rfl (.base rfl)⟩

theorem demo_loads_n2 (h : THeap) (S : Array Cell) (em : List (Text × Source)) :
    Loads2 demoD em h S (.datum (.num (.fix 2))) (.opaque "n2") :=
  ⟨(by intro o e; cases e), .atom rfl (.base rfl)⟩

theorem demo_code0 (S : Array Cell) : CodeAt2 demoD lamCtx.envmap demoHeap S 0 0 demoLam.bc := by
  refine CodeAt2.ofAll2 demoCells0 rfl (fun i _ => by rw [Nat.zero_add]; rfl) ?_
  have hslot : Loads2 demoD lamCtx.envmap demoHeap S (.envSlot kx) (.lexEnvSlot 0) := ⟨0, by decide, rfl⟩
  exact .cons rfl (.cons rfl (.cons hslot (.cons rfl (.cons rfl (.cons rfl (.cons rfl
    (.cons (demo_loads_n1 _ _ _) (.cons rfl (.cons rfl (.cons rfl (.cons rfl (.cons (demo_loads_n2 _ _ _)
    (.cons rfl (.cons rfl .nil))))))))))))))

theorem demo_code1 (S : Array Cell) : CodeAt2 demoD c0.envmap demoHeap S 1 0 progCode := by
  refine CodeAt2.ofAll2 demoCells1 rfl (fun i _ => by rw [Nat.zero_add]; rfl) ?_
  have hb : Loads2 demoD c0.envmap demoHeap S (.datum (.bool true)) (.bool true) :=
    ⟨(by intro o e; cases e), .atom rfl (.base rfl)⟩
  have hlam : Loads2 demoD c0.envmap demoHeap S (.lambda 0) (.ptr 0) := by
    refine ⟨rfl, fun lamM hl => ?_⟩
    have : lamM = demoLam := by
      have h0 : ([demoLam] : List LambdaM)[0]? = some demoLam := rfl
      have hl' : ([demoLam] : List LambdaM)[0]? = some lamM := hl
      rw [h0] at hl'; injection hl' with e; exact e.symm
    subst this
    exact ⟨rfl, rfl⟩
  exact .cons rfl (.cons hb (.cons rfl (.cons rfl (.cons rfl (.cons rfl (.cons rfl (.cons hlam (.cons rfl
    (.cons rfl (.cons rfl .nil))))))))))

def W0 : World := fun _ _ _ => False

theorem demo_inv : Inv2 demoD W0 demoHeap demoSt := by
  refine ⟨(by intro x w h; cases h), (by intro x h; cases h), trivial, (by intro x h; cases h), ?_,
    (by intro e n l l' h; cases h),
    (by intro e n e' n' l h; cases h), (by intro e n l h; cases h)⟩
  intro id lamM hid
  have hid' : ([demoLam] : List LambdaM)[id]? = some lamM := hid
  cases id with
  | zero =>
    have h0 : ([demoLam] : List LambdaM)[0]? = some demoLam := rfl
    rw [h0] at hid'; injection hid' with e; subst e
    exact ⟨demo_code0 _, rfl⟩
  | succ k => simp at hid'

/-- **Non-vacuity of stage 2**: the machine run of `((lambda (x) (if x 1 2)) #t)` exists and ends with a
    representation of `1`. -/
theorem demo_closure_runs :
    ∃ W' s', Run2 demoD W' demoState 11 demoSt demoSt' (.int 1) s' := by
  obtain ⟨W', s', _, r⟩ := compileExpr_correct2_nontail (laws [demoLam]) 20 {} c0 0 progE _ progCode [] demo_frag
    ctxOK_top demo_compile (List.prefix_refl _) 6 demoSt (.int 1) demoSt' demo_eval W0 demoState (demo_code1 _) rfl
    demo_inv (envRep_top _ _ _) (by show 0 < 8; omega)
  exact ⟨W', s', r⟩

/-- … in particular `acc` holds the number's cell -/
theorem demo_closure_acc : ∃ W' s', Run2 demoD W' demoState 11 demoSt demoSt' (.int 1) s' ∧ s'.acc = .opaque "n1" := by
  obtain ⟨W', s', r⟩ := demo_closure_runs
  exact ⟨W', s', r, tVRc_int r.acc⟩


/-! ## a tail call: `((lambda (f) (f #t)) (lambda (x) (if x 1 2)))`

The body of the first procedure is the application `(f #t)` in tail position: `TCALL` replaces the frame of
the activation of `(lambda (f) …)` by one for `(lambda (x) …)` (equal argument counts: the copy loop), and the
`RET` of the latter returns to the top-level code. -/

def kf : Text := ['f']

def lamF : Datum := Datum.ofList [.sym k_lambda, Datum.ofList [.sym kf], Datum.ofList [.sym kf, .bool true]]

def progT : Datum := Datum.ofList [lamF, lamE]

def lamCtxF : Ctx := ⟨[kf], [(kf, .argument 0)]⟩

def bodyCodeF : List BC :=
  [.op .movImm, .datum (.bool true), .acc, .op .pushAcc, .op .pushImm, .argc 1, .op .mov, .envSlot kf, .acc,
   .op .tcallAcc]

def demoPartsF : LambdaParts :=
  { formals := [kf], isVararg := false, ctx := lamCtxF, prologue := [.op .enter],
    body := Datum.ofList [Datum.ofList [.sym kf, .bool true]] }

def demoLamF : LambdaM := lamOf demoPartsF bodyCodeF

def progCodeT : List BC :=
  [.op .movImm, .lambda 0, .acc, .op .closureAcc, .op .pushAcc, .op .pushImm, .argc 1,
   .op .movImm, .lambda 1, .acc, .op .closureAcc, .op .callAcc]

theorem demo_parts17 : lambdaParts 17 c0 lamE false = .ok demoParts := by rfl
theorem demo_partsF : lambdaParts 18 c0 lamF false = .ok demoPartsF := by rfl

theorem demo_compileT : compileExpr 20 {} c0 0 false progT = .ok ({ lambdas := [demoLam, demoLamF] }, progCodeT) :=
  okIs_eq (by decide +kernel)

def demoCellsF : List VCell :=
  [.opcode .enter, .opcode .movImm, .bool true, .acc, .opcode .pushAcc, .opcode .pushImm, .argc 1,
   .opcode .mov, .lexEnvSlot 0, .acc, .opcode .tcallAcc, .opcode .ret]

def demoCellsT : List VCell :=
  [.opcode .movImm, .ptr 0, .acc, .opcode .closureAcc, .opcode .pushAcc, .opcode .pushImm, .argc 1,
   .opcode .movImm, .ptr 1, .acc, .opcode .closureAcc, .opcode .callAcc]

def demoHeapT : THeap :=
  { lams := [⟨demoCells0, 1, [.arg 0]⟩, ⟨demoCellsF, 1, [.arg 0]⟩, ⟨demoCellsT, 0, []⟩], envs := #[], clos := #[],
    globals := #[] }

def demoStateT : MSt THeap :=
  { heap := demoHeapT, stack := ⟨List.replicate 8 .undefined, 0⟩, acc := .undefined, ep := 0, ipL := 2, ipO := 0,
    bp := 0 }

def demoStT' : SSt :=
  { globals := []
    store := #[.var (.closure [kx] none [Datum.ofList [.sym k_if_, .sym kx, .num (.fix 1), .num (.fix 2)]] []),
               .var (.bool true)]
    out := [] }

theorem demo_evalT : (evalN 8).eval progT [] demoSt = .ok (.int 1) demoStT' := by rfl

abbrev demoDT : RepData2 tops := tD [demoLam, demoLamF]

theorem demo_fragT : F2 (fun _ => False) 20 c0 (bound []) false progT := by
  have hx : inEnv lamCtx kx = true := by decide
  have hf : inEnv lamCtxF kf = true := by decide
  refine F2.app lamF _ ⟨by decide, by intro x h; cases h⟩ ?_ (F2L.cons _ _ ?_ F2L.nil)
  · refine F2.lambda (Datum.ofList [.sym kf]) _ demoPartsF [kf] _ [] [] demo_partsF (by rfl) rfl rfl (by decide)
      (by rfl) (by intro e he; simp at he; subst he; rfl) rfl (by intro q hq; cases hq) ?_
    refine F2B.last _ (F2.app _ _ ⟨by decide, by intro x h; cases h; decide⟩
      (F2.sym kf ⟨fun _ => .inl (by simp), fun _ => hf⟩) (F2L.cons _ _ (F2.bool true) F2L.nil))
  · refine F2.lambda (Datum.ofList [.sym kx]) _ demoParts [kx] _ [] [] demo_parts17 (by rfl) rfl rfl (by decide)
      (by rfl) (by intro e he; simp at he; subst he; rfl) rfl (by intro q hq; cases hq) ?_
    refine F2B.last _ (F2.if3 _ _ _ (F2.sym kx ⟨fun _ => .inl (by simp), fun _ => hx⟩) (F2.num _) (F2.num _))

theorem demoT_final_get {id : Nat} {lamM : LambdaM} (h : ([demoLam, demoLamF] : List LambdaM)[id]? = some lamM) :
    (id = 0 ∧ lamM = demoLam) ∨ (id = 1 ∧ lamM = demoLamF) := by
  match id, h with
  | 0, h => left; exact ⟨rfl, by injection h with e; exact e.symm⟩
  | 1, h => right; exact ⟨rfl, by injection h with e; exact e.symm⟩
  | n + 2, h => simp at h

theorem demoT_code0 (S : Array Cell) : CodeAt2 demoDT lamCtx.envmap demoHeapT S 0 0 demoLam.bc := by
  refine CodeAt2.ofAll2 demoCells0 rfl (fun i _ => by rw [Nat.zero_add]; rfl) ?_
  have hslot : Loads2 demoDT lamCtx.envmap demoHeapT S (.envSlot kx) (.lexEnvSlot 0) := ⟨0, by decide, rfl⟩
  have n1 : Loads2 demoDT lamCtx.envmap demoHeapT S (.datum (.num (.fix 1))) (.opaque "n1") :=
    ⟨(by intro o e; cases e), .atom rfl (.base rfl)⟩
  have n2 : Loads2 demoDT lamCtx.envmap demoHeapT S (.datum (.num (.fix 2))) (.opaque "n2") :=
    ⟨(by intro o e; cases e), .atom rfl (.base rfl)⟩
  exact .cons rfl (.cons rfl (.cons hslot (.cons rfl (.cons rfl (.cons rfl (.cons rfl
    (.cons n1 (.cons rfl (.cons rfl (.cons rfl (.cons rfl (.cons n2 (.cons rfl (.cons rfl .nil))))))))))))))

theorem demoT_codeF (S : Array Cell) : CodeAt2 demoDT lamCtxF.envmap demoHeapT S 1 0 demoLamF.bc := by
  refine CodeAt2.ofAll2 demoCellsF rfl (fun i _ => by rw [Nat.zero_add]; rfl) ?_
  have hslot : Loads2 demoDT lamCtxF.envmap demoHeapT S (.envSlot kf) (.lexEnvSlot 0) := ⟨0, by decide, rfl⟩
  have hb : Loads2 demoDT lamCtxF.envmap demoHeapT S (.datum (.bool true)) (.bool true) :=
    ⟨(by intro o e; cases e), .atom rfl (.base rfl)⟩
  exact .cons rfl (.cons rfl (.cons hb (.cons rfl (.cons rfl (.cons rfl (.cons rfl (.cons rfl (.cons hslot
    (.cons rfl (.cons rfl (.cons rfl .nil)))))))))))

theorem demoT_codeTop (S : Array Cell) : CodeAt2 demoDT c0.envmap demoHeapT S 2 0 progCodeT := by
  refine CodeAt2.ofAll2 demoCellsT rfl (fun i _ => by rw [Nat.zero_add]; rfl) ?_
  have hl0 : Loads2 demoDT c0.envmap demoHeapT S (.lambda 0) (.ptr 0) := by
    refine ⟨rfl, fun lamM hl => ?_⟩
    rcases demoT_final_get hl with ⟨_, rfl⟩ | ⟨h, _⟩
    · exact ⟨rfl, rfl⟩
    · cases h
  have hl1 : Loads2 demoDT c0.envmap demoHeapT S (.lambda 1) (.ptr 1) := by
    refine ⟨rfl, fun lamM hl => ?_⟩
    rcases demoT_final_get hl with ⟨h, _⟩ | ⟨_, rfl⟩
    · cases h
    · exact ⟨rfl, rfl⟩
  exact .cons rfl (.cons hl0 (.cons rfl (.cons rfl (.cons rfl (.cons rfl (.cons rfl (.cons rfl (.cons hl1 (.cons rfl
    (.cons rfl (.cons rfl .nil)))))))))))

theorem demoT_inv : Inv2 demoDT W0 demoHeapT demoSt := by
  refine ⟨(by intro x w h; cases h), (by intro x h; cases h), trivial, (by intro x h; cases h), ?_,
    (by intro e n l l' h; cases h),
    (by intro e n e' n' l h; cases h), (by intro e n l h; cases h)⟩
  intro id lamM hid
  rcases demoT_final_get hid with ⟨rfl, rfl⟩ | ⟨rfl, rfl⟩
  · exact ⟨demoT_code0 _, rfl⟩
  · exact ⟨demoT_codeF _, rfl⟩

/-- **Non-vacuity, tail call**: CLOSURE twice, CALL, ENTER, the operand, the lexical load of `f`, TCALL (the frame
    is replaced), ENTER, the body of the second procedure, RET to the top-level code. -/
theorem demo_tailcall_runs :
    ∃ W' s', Run2 demoDT W' demoStateT 12 demoSt demoStT' (.int 1) s' ∧ s'.acc = .opaque "n1" := by
  obtain ⟨W', s', _, r⟩ := compileExpr_correct2_nontail (laws [demoLam, demoLamF]) 20 {} c0 0 progT _ progCodeT []
    demo_fragT ctxOK_top demo_compileT (List.prefix_refl _) 8 demoSt (.int 1) demoStT' demo_evalT W0 demoStateT
    (demoT_codeTop _) rfl demoT_inv (envRep_top _ _ _) (by show 0 < 8; omega)
  exact ⟨W', s', r, tVRc_int r.acc⟩

end Marwood.Lemmas.CompileCorrect2.Toy
