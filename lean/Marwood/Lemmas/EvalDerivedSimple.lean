import Marwood.Lemmas.EvalDerived
/-!
# T01.2, second half (part 2): `unless`, `begin`, `and`, `or`
-/
namespace Marwood.Spec.Eval.Derived
open Marwood Marwood.Spec.Eval Marwood.Spec.Eval.Prelude

variable (r : Rec) (ρ : Env)

/-! ## unless -/

theorem truthy_bool (x : Bool) : truthy (.bool x) = x := by cases x <;> rfl

theorem LeAt.congr_right {α : Type} {st : St} {a b b' : M α} (h : b st = b' st) (h' : LeAt st a b') : LeAt st a b :=
  fun hd => h.trans (h' hd)

/-- `not` is not shadowed and globally bound to the primitive: `(not v)` is `#t` iff `v` is `#f` -/
theorem not_app_at {β : Type} (v : Val) (K : Val → M β) (st1 : St) (hρ : ρ.lookup k_not = none)
    (hg : st1.globals.lookup k_not = some (.prim .not)) :
    (evalVar k_not ρ >>= fun fv => applyStep r fv [v] >>= K) st1 = K (.bool (!truthy v)) st1 := by
  have h1 : evalVar k_not ρ st1 = .ok (.prim .not) st1 := by
    have hr : reserved k_not = false := by decide
    simp [evalVar, hr, hρ, getGlobal, hg]
  have h2 : applyStep r (.prim .not) [v] = pure (.bool (!truthy v)) := rfl
  show M.bind' (evalVar k_not ρ) (fun fv => M.bind' (applyStep r fv [v]) K) st1 = _
  simp only [M.bind', h1, h2]
  rfl

theorem native_not_app (t : Datum) :
    evalStep r (L [s k_not, t]) ρ = (do
      let v ← r.eval t ρ
      let fv ← r.eval (s k_not) ρ
      r.apply fv [v]) := by
  rw [native_app r ρ (s k_not) [t] (by intro x hx; cases hx; exact kwOf_not), evalArgs_one, bind_assoc]
  rfl

/-- **unless**: `(unless t b body …)` and `(if (not t) (begin b body …))`, from every state in which
    `not` is not shadowed lexically and is globally bound to the primitive once `t` has been evaluated -/
theorem unless_same (t b : Datum) (body : List Datum) (st : St) (hρ : ρ.lookup k_not = none)
    (hnot : ∀ m v st1, (evalN m).eval t ρ st = .ok v st1 → st1.globals.lookup k_not = some (.prim .not)) :
    SameAt 2 (unlessUse t b body) (unlessExp t b body) ρ st := by
  intro n
  cases n with
  | zero => exact ⟨fun h => absurd rfl h, fun h => absurd rfl h⟩
  | succ n =>
    constructor
    · show LeAt st _ _
      rw [evalN_succ_eval, evalN_succ_eval, native_unless, unlessExp, native_if2, evalN_succ_eval,
        native_not_app, bind_assoc]
      refine LeAt.bind (Le.at (eval_le_add n 1 t ρ) st) (fun v st1 hv => ?_)
      have hg := hnot n v st1 hv
      refine LeAt.congr_right (b' := if (!truthy v) = true then (evalN (n+2)).eval (L (s k_begin_ :: b :: body)) ρ
          else pure .void) ?_ ?_
      · rw [evalN_succ_eval (n := n), native_sym, bind_assoc]
        simp only [evalN_succ_apply]
        rw [not_app_at (evalN n) ρ v _ st1 hρ hg, truthy_bool]
      · cases hv' : truthy v
        · simp only [Bool.not_false, if_true, Bool.false_eq_true, if_false]
          rw [evalN_succ_eval, native_begin]
          exact Le.at (le_evalExprs (recLe_evalN (Nat.le_add_right n 1)) ρ _) st1
        · simp only [Bool.not_true, if_true, Bool.false_eq_true, if_false]
          exact LeAt.refl _ _
    · show LeAt st _ _
      refine LeAt.trans ?_ (Le.at (eval_le_add (n+1) 2 _ ρ) st)
      rw [evalN_succ_eval, evalN_succ_eval, native_unless, unlessExp, native_if2]
      have hX : Le ((evalN n).eval (L [s k_not, t]) ρ) (do
          let v ← (evalN n).eval t ρ
          let fv ← evalVar k_not ρ
          applyStep (evalN n) fv [v]) := by
        refine (eval_le_step n _ ρ).trans ?_
        rw [native_not_app]
        refine Le.bind (Le.refl _) (fun v => Le.bind ?_ (fun fv => apply_le_step n fv [v]))
        have := eval_le_step n (s k_not) ρ
        rwa [native_sym] at this
      refine LeAt.trans (Le.at (Le.bind hX
        (f' := fun w => if truthy w then evalExprs (evalN n) ρ (b :: body) else pure .void) (fun w => ?_)) st) ?_
      · split
        · have := eval_le_step n (L (s k_begin_ :: b :: body)) ρ
          rwa [native_begin] at this
        · exact Le.refl _
      · rw [bind_assoc]
        refine LeAt.bind (LeAt.refl _ _) (fun v st1 hv => LeAt.of_eq ?_)
        have hg := hnot n v st1 hv
        rw [bind_assoc, not_app_at (evalN n) ρ v _ st1 hρ hg, truthy_bool]
        cases truthy v <;> rfl

/-! ## begin (bodies without definitions) -/

theorem evalBodyForms_noDefs : ∀ (es : List Datum) (d : Bool), (∀ e ∈ es, isDefine e = false) →
    evalBodyForms r ρ d es = evalExprs r ρ es
  | [], _, _ => rfl
  | [e], d, h => by
    have he := h e (by simp)
    simp [evalBodyForms, evalExprs, he]
  | e :: e' :: es, d, h => by
    have he := h e (by simp)
    have ih := evalBodyForms_noDefs (e' :: es) false (fun x hx => h x (by simp [hx]))
    simp [evalBodyForms, evalExprs, he, ih]

theorem evalBody_noDefs (es : List Datum) (h : ∀ e ∈ es, isDefine e = false) :
    evalBody r ρ es = evalExprs r ρ es := by
  have hl : leadingDefs es = [] := by
    cases es with
    | nil => rfl
    | cons e es => simp [leadingDefs, h e (by simp)]
  unfold evalBody
  rw [hl]
  show (pure ρ >>= fun ρ' => evalBodyForms r ρ' true es) = _
  rw [pure_bind, evalBodyForms_noDefs r ρ es true h]

/-- calling a parameterless procedure made on the spot from a body without definitions is the body -/
theorem thunk_call (es : List Datum) (h : ∀ e ∈ es, isDefine e = false) :
    (makeClosure .nil (L es) ρ >>= fun fv => applyStep r fv []) = evalExprs r ρ es := by
  cases es with
  | nil => rfl
  | cons b bs =>
    have : makeClosure .nil (L (b :: bs)) ρ = pure (.closure [] none (b :: bs) ρ) := by
      simp [makeClosure, parseFormals, L, properList_ofList]
    rw [this, pure_bind]
    show (pure ρ >>= fun ρ' => evalBody r ρ' (b :: bs)) = _
    rw [pure_bind, evalBody_noDefs r ρ _ h]

theorem native_beginExp (es : List Datum) :
    evalStep r (beginExp es) ρ = (r.eval (L (s k_lambda :: .nil :: es)) ρ >>= fun fv => r.apply fv []) := by
  rw [beginExp, native_app r ρ _ [] (by intro x hx; simp [L, Datum.ofList] at hx), evalArgs_nil, pure_bind]

/-- **begin**, for bodies without definitions: `(begin e …)` and `((lambda () e …))` -/
theorem begin_same (es : List Datum) (h : ∀ e ∈ es, isDefine e = false) :
    Same 1 (beginUse es) (beginExp es) ρ := by
  intro n
  cases n with
  | zero => exact ⟨Le.timeout _, Le.timeout _⟩
  | succ n =>
    constructor
    · rw [evalN_succ_eval, evalN_succ_eval, beginUse, native_begin, native_beginExp, evalN_succ_eval,
        native_lambda]
      simp only [evalN_succ_apply]
      rw [thunk_call (evalN n) ρ es h]
      exact Le.refl _
    · refine Le.trans ?_ (eval_le_add (n+1) 1 _ ρ)
      rw [evalN_succ_eval, evalN_succ_eval, beginUse, native_begin, native_beginExp,
        ← thunk_call (evalN n) ρ es h]
      refine Le.bind ?_ (fun fv => apply_le_step n fv [])
      have := eval_le_step n (L (s k_lambda :: .nil :: es)) ρ
      rwa [native_lambda] at this

/-! ## and -/

/-- **and**: `(and)` is `#t`, `(and e)` is `e`, `(and e e2 …)` is `(if e (and e2 …) #f)` -/
theorem and_same (es : List Datum) : Same 1 (andUse es) (andExp es) ρ := by
  intro n
  cases n with
  | zero =>
    refine ⟨Le.timeout _, ?_⟩
    -- fuel 0 yields nothing for the expansion either
    exact Le.timeout _
  | succ n =>
    match es with
    | [] =>
      refine ⟨(Le.of_eq rfl).trans (eval_le_add (n+1) 1 _ ρ), (Le.of_eq rfl).trans (eval_le_add (n+1) 1 _ ρ)⟩
    | [e] =>
      constructor
      · rw [evalN_succ_eval, native_and]
        exact (Le.of_eq rfl).trans (eval_le_add n 2 e ρ)
      · rw [evalN_succ_eval (n := n + 1), native_and]
        exact Le.of_eq rfl
    | e :: e2 :: es =>
      constructor
      · rw [evalN_succ_eval, evalN_succ_eval, native_and, andExp, native_if3]
        simp only [evalAnd]
        refine Le.bind ((recLe_evalN_succ n).eval e ρ) (fun v => ?_)
        split
        · rw [evalN_succ_eval]
          exact Le.of_eq (native_and (evalN n) ρ (e2 :: es)).symm
        · rename_i hv
          rw [truthy_false hv]
          exact Le.of_eq rfl
      · refine Le.trans ?_ (eval_le_add (n+1) 1 _ ρ)
        rw [evalN_succ_eval, evalN_succ_eval, native_and, andExp, native_if3]
        simp only [evalAnd]
        refine Le.bind (Le.refl _) (fun v => ?_)
        split
        · have := eval_le_step n (andUse (e2 :: es)) ρ
          rwa [native_and] at this
        · rename_i hv
          rw [truthy_false hv]
          exact eval_le_step n (.bool false) ρ

/-! ## or (no operand, one operand; two or more: `EvalDerivedCapture.lean`) -/

theorem or_same_nil : Same 1 (orUse []) (orExp []) ρ := by
  intro n
  cases n with
  | zero => exact ⟨Le.timeout _, Le.timeout _⟩
  | succ n =>
    exact ⟨(Le.of_eq rfl).trans (eval_le_add (n+1) 1 _ ρ), (Le.of_eq rfl).trans (eval_le_add (n+1) 1 _ ρ)⟩

theorem or_same_one (e : Datum) : Same 1 (orUse [e]) (orExp [e]) ρ := by
  intro n
  cases n with
  | zero => exact ⟨Le.timeout _, Le.timeout _⟩
  | succ n =>
    constructor
    · rw [evalN_succ_eval, native_or]
      exact (Le.of_eq rfl).trans (eval_le_add n 2 e ρ)
    · rw [evalN_succ_eval (n := n + 1), native_or]
      exact Le.of_eq rfl

end Marwood.Spec.Eval.Derived
