import Marwood.Lemmas.TransformEllAcceptPat
/-!
# Every template `Transform::try_new` accepts is in the class `tP`

`check_template_syntax` (`ctsLoop`): no list starts with the ellipsis and no list contains it twice
(`plP`/`plS`, the same placement predicate `Pattern::build` establishes for patterns).
`check_template_support` (`ctsupLoop`): proper, vector-free lists; outside a group no expanded
variable; an element followed by the ellipsis is a *unit*: no element followed by the ellipsis
inside (so, with the placement, no ellipsis at all: `plain`), its expanded variables are collected
in `seen` once each (`Nodup`) and there is at least one.
-/
namespace Marwood.Transform.EllAccept
open Marwood Marwood.Spec.Match Marwood.Transform.Term

/-! ## `check_template_syntax`: placement of the ellipsis -/

theorem plS_of_iterList (es : Text) : ∀ (x : Datum) (allow : Bool),
    plS es allow (Datum.ofList (iterList x)) = true → plS es allow x = true := by
  intro x
  induction x with
  | pair q rest _ ihr =>
    intro allow h
    simp only [iterList, Datum.ofList, plS] at h ⊢
    split
    · rename_i hq
      simp only [hq, if_true, Bool.and_eq_true] at h
      simp only [Bool.and_eq_true]
      exact ⟨h.1, ihr _ h.2⟩
    · rename_i hq
      simp only [hq, if_false, Bool.and_eq_true] at h
      simp only [Bool.and_eq_true]
      exact ⟨h.1, ihr _ h.2⟩
  | _ => intro allow _; simp [plS]

theorem plP_of_plS {es : Text} {a d : Datum} (ha : a ≠ .sym es) (h : plS es true (.pair a d) = true) :
    plP es (.pair a d) = true := by
  simp only [plS, ha, if_false, Bool.and_eq_true] at h
  simp only [plP, Bool.and_eq_true, decide_eq_true_eq]
  exact ⟨⟨ha, h.1⟩, h.2⟩

theorem plS_of_plP {es : Text} {a d : Datum} (h : plP es (.pair a d) = true) :
    a ≠ .sym es ∧ plS es true (.pair a d) = true := by
  simp only [plP, Bool.and_eq_true, decide_eq_true_eq] at h
  refine ⟨h.1.1, ?_⟩
  simp only [plS, h.1.1, if_false, Bool.and_eq_true]
  exact ⟨h.1.2, h.2⟩

theorem ctsLoop_place (p : Pattern) (es : Text) : ∀ (f : Nat) (imp se : Bool) (items : List Datum),
    ctsLoop p (.sym es) f imp se items = .ok () → plS es (!se) (Datum.ofList items) = true := by
  intro f
  induction f with
  | zero => intro imp se items h; simp [ctsLoop] at h
  | succ f ih =>
    intro imp se items h
    cases items with
    | nil => simp [Datum.ofList, plS]
    | cons t rest =>
      unfold ctsLoop at h
      cases t with
      | pair a d =>
        simp only at h
        split at h
        · cases h
        · rename_i hhead
          have ha : a ≠ .sym es := by simpa using hhead
          split at h
          · rename_i hsub
            have h1 := plS_of_iterList es _ _ (by simpa using ih _ _ _ hsub)
            have h2 := ih _ _ _ h
            rw [plS_ofList_cons_ne (by simp)]
            simp only [plP_of_plS ha h1, h2, Bool.and_self]
          all_goals cases h
      | sym x =>
        simp only at h
        split at h
        · cases h
        · by_cases hx : x = es
          · subst hx
            have hc : cellEq (Datum.sym x) (Datum.sym x) = true := by simp
            simp only [hc, if_true] at h
            split at h
            · cases h
            · rename_i hse
              have hse' : se = false := by
                cases se with
                | false => rfl
                | true => simp at hse
              have h2 := ih _ _ _ h
              rw [plS_ofList_cons_ell]
              simpa [hse'] using h2
          · have hc : cellEq (Datum.sym x) (Datum.sym es) = false := by simp [hx]
            simp only [hc, Bool.false_eq_true, if_false] at h
            have h2 := ih _ _ _ h
            rw [plS_ofList_cons_ne (by simpa using hx)]
            simp [plP, h2]
      | _ =>
        simp only at h
        have h2 := ih _ _ _ h
        rw [plS_ofList_cons_ne (by simp)]
        simp [plP, h2]

theorem checkTemplateSyntax_place {f : Nat} {T : Datum} {p : Pattern} {es : Text}
    (h : checkTemplateSyntax f T p (.sym es) = .ok ()) : plP es T = true := by
  unfold checkTemplateSyntax at h
  cases T with
  | pair a d =>
    simp only at h
    split at h
    · cases h
    · rename_i hhead
      have ha : a ≠ .sym es := by simpa using hhead
      have h1 := plS_of_iterList es _ _ (by simpa using ctsLoop_place p es _ _ _ _ h)
      exact plP_of_plS ha h1
  | _ => simp [plP]

/-! ## `check_template_support` inside a group -/

def evSymsL (ev : List Text) : List Datum → List Text
  | [] => []
  | it :: rest => evSyms ev it ++ evSymsL ev rest

theorem evSymsL_iterList (ev : List Text) (d : Datum) : evSymsL ev (iterList d) = evSyms ev d := by
  induction d with
  | pair a d _ ihd => simp only [iterList, evSymsL, ihd, evSyms, tmplSyms, List.filter_append]
  | nil => rfl
  | _ => simp [iterList, evSymsL]

theorem plainTail_of (es : Text) : ∀ d : Datum, endsInNil d = true →
    (∀ it ∈ iterList d, plain es it = true) → plain.plainTail es d = true := by
  intro d
  induction d with
  | pair a d _ ihd =>
    intro h1 h2
    simp only [endsInNil] at h1
    simp only [plain.plainTail, Bool.and_eq_true]
    exact ⟨h2 a (by simp [iterList]), ihd h1 (fun it hit => h2 it (by simp [iterList, hit]))⟩
  | nil => intro _ _; rfl
  | _ => intro h1; simp [endsInNil] at h1

/-- the answer of the loop run inside a group -/
def UnitRes (es : Text) (ev : List Text) (items : List Datum) (ns : List Text) (seen' : List Datum) : Prop :=
  (∀ it ∈ items, plain es it = true) ∧ seen' = (ns ++ evSymsL ev items).map Datum.sym ∧
    (ns.Nodup → (ns ++ evSymsL ev items).Nodup)

theorem supOne_unit (p : Pattern) (es : Text) (ev : List Text)
    (hexp : ∀ x, p.isExpandedVariable (.sym x) = decide (x ∈ ev)) (f : Nat)
    (ih : ∀ (items : List Datum) (allow : Bool) (ns : List Text) (seen' : List Datum),
      peekIs (.sym es) items = false → plS es allow (Datum.ofList items) = true →
      ctsupLoop p (.sym es) f true items (ns.map Datum.sym) = .ok seen' → UnitRes es ev items ns seen')
    (it : Datum) (ns : List Text) (seen' : List Datum) (hne : it ≠ .sym es) (hpl : plP es it = true)
    (h : supOne p (.sym es) f it true (ns.map Datum.sym) = .ok seen') :
    plain es it = true ∧ seen' = (ns ++ evSyms ev it).map Datum.sym ∧
      (ns.Nodup → (ns ++ evSyms ev it).Nodup) := by
  cases it with
  | vec v => simp [supOne] at h
  | sym x =>
    have hx : x ≠ es := by simpa using hne
    have hc : cellEq (Datum.sym x) (Datum.sym es) = false := by simp [hx]
    simp only [supOne, hc, Bool.false_eq_true, if_false, hexp, anySym_mem, Bool.not_true] at h
    by_cases hxe : x ∈ ev
    · simp only [hxe, decide_true, if_true] at h
      by_cases hxn : x ∈ ns
      · simp [hxn] at h
      · simp only [hxn, decide_false, Bool.false_eq_true, if_false] at h
        cases h
        have hev : evSyms ev (.sym x) = [x] := by simp [evSyms, tmplSyms, hxe]
        rw [hev]
        refine ⟨by simp [plain, hx], by simp, fun hnd => ?_⟩
        rw [List.nodup_append]
        exact ⟨hnd, by simp, fun a ha b hb => by
          simp only [List.mem_singleton] at hb; subst hb; intro hab; subst hab; exact hxn ha⟩
    · simp only [hxe, decide_false, Bool.false_eq_true, if_false] at h
      cases h
      have hev : evSyms ev (.sym x) = [] := by simp [evSyms, tmplSyms, hxe]
      rw [hev]
      exact ⟨by simp [plain, hx], by simp, fun hnd => by simpa using hnd⟩
  | pair a d =>
    simp only [supOne] at h
    split at h
    · cases h
    · rename_i himp
      have hnil := isImproper_false_endsInNil (by simpa using himp)
      have heq := endsInNil_ofList hnil
      obtain ⟨ha, hpls⟩ := plS_of_plP hpl
      have hres := ih (iterList (.pair a d)) true ns seen' (by simp [iterList, peekIs, ha])
        (by rw [← heq]; exact hpls) h
      obtain ⟨h1, h2, h3⟩ := hres
      rw [evSymsL_iterList] at h2 h3
      refine ⟨?_, h2, h3⟩
      simp only [plain, Bool.and_eq_true]
      simp only [endsInNil] at hnil
      exact ⟨h1 a (by simp [iterList]),
        plainTail_of es d hnil (fun it hit => h1 it (by simp [iterList, hit]))⟩
  | _ =>
    simp only [supOne] at h
    cases h
    exact ⟨rfl, by simp [evSyms, tmplSyms], fun hnd => by simpa [evSyms, tmplSyms] using hnd⟩

theorem ctsupLoop_unit (p : Pattern) (es : Text) (ev : List Text)
    (hexp : ∀ x, p.isExpandedVariable (.sym x) = decide (x ∈ ev)) : ∀ (f : Nat)
    (items : List Datum) (allow : Bool) (ns : List Text) (seen' : List Datum),
    peekIs (.sym es) items = false → plS es allow (Datum.ofList items) = true →
    ctsupLoop p (.sym es) f true items (ns.map Datum.sym) = .ok seen' → UnitRes es ev items ns seen' := by
  intro f
  induction f with
  | zero => intro items allow ns seen' _ _ h; simp [ctsupLoop] at h
  | succ f ih =>
    intro items allow ns seen' hhead hpl h
    cases items with
    | nil =>
      simp only [ctsupLoop] at h
      cases h
      exact ⟨fun it hit => (by cases hit), (by simp [evSymsL]), fun hnd => (by simpa [evSymsL] using hnd)⟩
    | cons it rest =>
      have hne : it ≠ .sym es := by
        intro hit; subst hit; simp [peekIs] at hhead
      have hc : cellEq it (Datum.sym es) = false := by simpa using hne
      rw [plS_ofList_cons_ne hne] at hpl
      simp only [Bool.and_eq_true] at hpl
      rw [ctsupLoop_succ] at h
      simp only [hc, Bool.false_eq_true, if_false, if_true] at h
      split at h
      · cases h
      · rename_i hpk
        have hpk : peekIs (.sym es) rest = false := by simpa using hpk
        split at h
        · rename_i seen1 hone
          obtain ⟨h1, h2, h3⟩ := supOne_unit p es ev hexp f ih it ns seen1 hne hpl.1 hone
          rw [h2] at h
          obtain ⟨r1, r2, r3⟩ := ih rest allow _ seen' hpk hpl.2 h
          refine ⟨?_, ?_, ?_⟩
          · intro x hx
            simp only [List.mem_cons] at hx
            rcases hx with rfl | hx
            · exact h1
            · exact r1 x hx
          · rw [r2]; simp [evSymsL, List.append_assoc]
          · intro hnd
            have := r3 (h3 hnd)
            simpa [evSymsL, List.append_assoc] using this
        all_goals cases h

/-! ## `check_template_support` outside groups -/

theorem supOne_outer (p : Pattern) (es : Text) (ev : List Text)
    (hexp : ∀ x, p.isExpandedVariable (.sym x) = decide (x ∈ ev)) (f : Nat)
    (ih : ∀ (items : List Datum) (allow : Bool) (seen seen' : List Datum),
      peekIs (.sym es) items = false → plS es allow (Datum.ofList items) = true →
      ctsupLoop p (.sym es) f false items seen = .ok seen' → tS es ev (Datum.ofList items) = true)
    (it : Datum) (seen seen' : List Datum) (hne : it ≠ .sym es) (hpl : plP es it = true)
    (h : supOne p (.sym es) f it false seen = .ok seen') : tP es ev it = true := by
  cases it with
  | vec v => simp [supOne] at h
  | sym x =>
    have hx : x ≠ es := by simpa using hne
    have hc : cellEq (Datum.sym x) (Datum.sym es) = false := by simp [hx]
    simp only [supOne, hc, Bool.false_eq_true, if_false, hexp, Bool.not_false, if_true] at h
    by_cases hxe : x ∈ ev
    · simp [hxe] at h
    · simp [tP, hx, hxe]
  | pair a d =>
    simp only [supOne] at h
    split at h
    · cases h
    · rename_i himp
      have hnil := isImproper_false_endsInNil (by simpa using himp)
      have heq := endsInNil_ofList hnil
      obtain ⟨ha, hpls⟩ := plS_of_plP hpl
      have hres := ih (iterList (.pair a d)) true seen seen' (by simp [iterList, peekIs, ha])
        (by rw [← heq]; exact hpls) h
      rw [← heq] at hres
      rw [tP_pair]; exact hres
  | _ => simp [tP]

theorem ctsupLoop_outer (s : Setup) (p : Pattern) (ev : List Text)
    (hexp : ∀ x, p.isExpandedVariable (.sym x) = decide (x ∈ ev)) : ∀ (f : Nat)
    (items : List Datum) (allow : Bool) (seen seen' : List Datum),
    peekIs (.sym s.es) items = false → plS s.es allow (Datum.ofList items) = true →
    ctsupLoop p (.sym s.es) f false items seen = .ok seen' → tS s.es ev (Datum.ofList items) = true := by
  intro f
  induction f using Nat.strongRecOn with
  | ind f ih =>
  intro items allow seen seen' hhead hpl h
  cases f with
  | zero => simp [ctsupLoop] at h
  | succ f =>
    cases items with
    | nil => simp [Datum.ofList, tS]
    | cons it rest =>
      have hne : it ≠ .sym s.es := by
        intro hit; subst hit; simp [peekIs] at hhead
      have hc : cellEq it (Datum.sym s.es) = false := by simpa using hne
      rw [plS_ofList_cons_ne hne] at hpl
      simp only [Bool.and_eq_true] at hpl
      rw [ctsupLoop_succ] at h
      simp only [hc, Bool.false_eq_true, if_false] at h
      by_cases hpk : peekIs (.sym s.es) rest = true
      · -- a group `it ...`
        simp only [hpk, if_true] at h
        cases rest with
        | nil => simp [peekIs] at hpk
        | cons e rest' =>
          have he : e = .sym s.es := by simpa [peekIs] using hpk
          subst he
          split at h
          · rename_i seen1 hone
            split at h
            · cases h
            · rename_i hne1
              obtain ⟨h1, h2, h3⟩ := supOne_unit p s.es ev hexp f (ctsupLoop_unit p s.es ev hexp f)
                it [] seen1 hne hpl.1 hone
              simp only [List.nil_append] at h2 h3
              have hunit : unitOK s.es ev it = true := by
                simp only [unitOK, Bool.and_eq_true, decide_eq_true_eq, Bool.not_eq_true']
                refine ⟨⟨h1, h3 List.nodup_nil⟩, ?_⟩
                cases hev : evSyms ev it with
                | nil => rw [h2, hev] at hne1; simp at hne1
                | cons _ _ => rfl
              have hpl2 := hpl.2
              rw [plS_ofList_cons_ell] at hpl2
              simp only [Bool.and_eq_true] at hpl2
              have hhead' : peekIs (.sym s.es) rest' = false := by
                cases rest' with
                | nil => rfl
                | cons q qs =>
                  by_cases hq : q = .sym s.es
                  · subst hq
                    have := hpl2.2
                    rw [plS_ofList_cons_ell] at this
                    simp at this
                  · simpa [peekIs] using hq
              cases f with
              | zero => simp [ctsupLoop] at h
              | succ f' =>
                rw [ctsupLoop_succ] at h
                have hcc : cellEq (Datum.sym s.es) (Datum.sym s.es) = true := by simp
                simp only [hcc, if_true] at h
                have hrest := ih f' (by omega) rest' false seen seen' hhead' hpl2.2 h
                rw [tS_cons_ell]
                simp [hunit, hrest]
          all_goals cases h
      · have hpk : peekIs (.sym s.es) rest = false := by simpa using hpk
        simp only [hpk, Bool.false_eq_true, if_false] at h
        split at h
        · rename_i seen1 hone
          have hit := supOne_outer p s.es ev hexp f (ih f (Nat.lt_succ_self f)) it seen seen1 hne hpl.1 hone
          have hrest := ih f (Nat.lt_succ_self f) rest allow seen1 seen' hpk hpl.2 h
          rw [tS_cons_ne s ev it rest (by simpa [Setup.ell] using hpk)]
          simp [hit, hrest]
        all_goals cases h

end Marwood.Transform.EllAccept

namespace Marwood.Transform
open Marwood Marwood.Spec.Match Marwood.Transform.Term Marwood.Transform.EllAccept

/-- **(B) the template of every accepted rule is in the class `tP`** for the ellipsis variables of
    the rule's pattern -/
theorem ruleOK_tP (s : Setup) {f : Nat} {r : Pattern × Datum} (h : RuleOK f s.ell s.lits r)
    {kw body : Datum} (hpe : r.1.expr = .pair kw body) :
    tP s.es (ellVars s.ctx body) r.2 = true := by
  obtain ⟨kw', body', hpe', _, _, hexp, _⟩ := ruleOK_build s h
  rw [hpe] at hpe'
  injection hpe' with _ hb
  subst hb
  have hplace := checkTemplateSyntax_place (es := s.es) h.tsyntax
  obtain ⟨seen, hsup⟩ := h.tsupport
  rw [checkTemplateSupport_eq] at hsup
  have hne : r.2 ≠ .sym s.es := by
    intro hT
    rw [hT] at hsup
    simp [supOne, Setup.ell] at hsup
  exact supOne_outer r.1 s.es _ hexp f (ctsupLoop_outer s r.1 _ hexp f) r.2 [] seen hne hplace hsup

/-- **the soundness class holds for every rule of every accepted transformer** -/
theorem ruleOK_d1 (s : Setup) {f : Nat} {r : Pattern × Datum} (h : RuleOK f s.ell s.lits r) :
    ruleD1 s.ctx r = true := by
  obtain ⟨kw, body, hpe, _⟩ := ruleOK_build s h
  simp only [ruleD1, hpe, Bool.and_eq_true]
  exact ⟨ruleOK_nn s h hpe, ruleOK_tP s h hpe⟩

/-- every rule of every accepted definition, in the form `transformRules_d1` consumes -/
theorem accepted_d1 {f : Nat} {d : Datum} {t : Transform} (hdef : Transform.tryNew f d = .ok t) :
    ∃ s : Setup, t.ellipsis = s.ell ∧ t.literals = s.lits ∧
      ∀ r ∈ t.rules, RuleOK f s.ell s.lits r ∧ ruleD1 s.ctx r = true := by
  obtain ⟨s, hte, htl, hrules⟩ := Transform.tryNew_ok hdef
  exact ⟨s, hte, htl, fun r hr => ⟨hrules r hr, ruleOK_d1 s (hrules r hr)⟩⟩

/-- the class is not trivially true: it is a computed fact about
    `(syntax-rules (else) ((_ x (a b) ... else) ((a ...) x)))`, and false for a template that uses the
    ellipsis variable `a` outside a group -/
example : ∃ t, Transform.tryNew 100 ellBuildDef = .ok t ∧
    (t.rules.all fun r => ruleD1 ellBuildSetup.ctx r) = true ∧
    (t.rules.all fun r => ruleD1 ellBuildSetup.ctx (r.1, .sym ['a'])) = false :=
  ⟨_, rfl, by decide, by decide⟩

end Marwood.Transform
