import Marwood.Lemmas.CompileCorrect3Enter
import Marwood.Lemmas.CompileCorrect3VarArg
/-!
# T01.3 stage 3 — the prologue of a closure: `VARARG` (rest parameter) and `ENTER`

`enter_closure3`: the specification binds the parameters (`bindArgs`: one variable per fixed parameter, then a
fresh list of the remaining arguments for the rest parameter) and allocates the internally defined variables
(`evalBody`); the machine runs `VARARG` (if the procedure has a rest parameter) and `ENTER`. Afterwards the
activation environment represents the specification's environment: parameters readable, internal names not yet.
-/
namespace Marwood.Lemmas.CompileCorrect3
open Marwood Marwood.Vm Marwood.Lemmas.CompileCorrect Marwood.Lemmas.CompileCorrect2
open Marwood.Spec.Eval (Val Prim Cell Env evalN evalStep applyStep evalArgs properList quoteVal kwOf insertG
  k_quote k_if_ k_setBang k_define k_lambda)

variable {H : Type} {ops : HeapOps H} {D : RepData2 ops}

theorem all2_take {α β : Type} {R : α → β → Prop} : ∀ (n : Nat) {l : List α} {l' : List β},
    All2 R l l' → All2 R (l.take n) (l'.take n)
  | 0, _, _, _ => .nil
  | _ + 1, _, _, .nil => .nil
  | n + 1, _, _, .cons h t => .cons h (all2_take n t)

theorem lt_size_of_get {S : Array Cell} {l : Nat} {c : Cell} (h : S[l]? = some c) : l < S.size := by
  rcases Nat.lt_or_ge l S.size with h1 | h1
  · exact h1
  · simp [Array.getElem?_eq_none h1] at h

theorem enter_closure3 (L : Laws3 D) {ps : List Text} {rest : Option Text} {body : List Datum} {ρc ρ' ρ2 : Env}
    {ws : List Val} {σ σ1 σ2 : SSt}
    (hbind : Spec.Eval.bindArgs ps rest ws ρc σ = .ok ρ' σ1)
    (halloc : Spec.Eval.allocVars ((Spec.Eval.leadingDefs body).map fun x => (x, Val.undef)) ρ' σ1 = .ok ρ2 σ2)
    {W : World} {s : MSt H} {lam cenv : Nat} {vs : List VCell} {st0 : Stack} {epc lc oc : Nat}
    (hcal : ops.callee s.heap s.acc = .closure lam cenv) (hclos : ClosOK3 D W s.heap lam cenv ps rest body ρc)
    (hi : Inv3 D W s.heap σ) (hvs : All2 (VR3 D W s.heap σ.store) vs ws) (hipL : s.ipL = lam) (hipO : s.ipO = 0)
    (hst : LiveEq (callFrame st0 vs epc lc oc) s.stack) (hw0 : SWF st0) (hw : SWF s.stack) :
    ∃ (f : Nat) (cst cst1 : CState) (p : LambdaParts) (bcode : List BC) (ints : List Text) (h' : H) (a : Nat)
      (W' : World) (stE : Stack) (nf : Nat),
      Steps ops s { s with heap := h', ep := a, stack := stE, bp := st0.sp + nf, ipO := p.prologue.length } ∧
      W.le W' ∧ Inv3 D W' h' σ2 ∧ EnvRep3 ops W' h' p.ctx a ρ2 (fun x => x ∈ ints) ∧ CtxOK p.ctx ∧
      F3B D.setG f p.ctx (bound ρ2) (fun x => x ∈ ints) ints p.body ∧
      compileBody f cst p.ctx p.prologue.length p.body = .ok (cst1, bcode) ∧
      cst1.lambdas <+: D.final ∧ properList p.body = some body ∧
      CodeAt2 D p.ctx.envmap h' σ2.store lam 0 (p.prologue ++ bcode ++ [.op .ret]) ∧
      SWF stE ∧ FrameAt stE (st0.sp + nf) ⟨nf, epc, lc, oc, s.bp, st0⟩ ∧
      Ext3 D s.heap σ.store h' σ2.store := by
  obtain ⟨f, cst, cst1, co, p, bcode, ints, caps, a1, a2, a3, a4, a5, a6, a7, a8, a9, a10, a11, a12, a13, a14, a15,
    a16, a17, a18, a19⟩ := hclos
  have hld : Spec.Eval.leadingDefs body = ints := leadingDefs_of_F3B a12 a6
  rw [hld] at halloc
  have hndf : (ps ++ rest.toList).Nodup := (List.nodup_append.mp a5).1
  have hndi : ints.Nodup := (List.nodup_append.mp a5).2.1
  have hdisj : ∀ x, x ∈ ps ++ rest.toList → x ∉ ints := fun x hx hxi =>
    (List.nodup_append.mp a5).2.2 x hx x hxi rfl
  obtain ⟨b1, b2, b3, b4, b5, b6, b7, b8, b9, b10⟩ := bindArgs3_inv ps rest ws ρc ρ' σ σ1 hndf hbind
  obtain ⟨c1, c2, c3, c4, c5, c6, c7⟩ := allocVars_undef_inv ints ρ' ρ2 σ1 σ2 hndi halloc
  have hsz1 : σ.store.size ≤ σ1.store.size := by omega
  -- the store only grew
  have hold : ∀ l, l < σ.store.size → σ2.store[l]? = σ.store[l]? := fun l hl => by
    rw [c4 l (by omega), b6 l hl]
  have hse : StoreExt σ.store σ2.store := StoreExt.ofPrefix (by omega) hold
  have hx0 : Ext3 D s.heap σ.store s.heap σ2.store := Ext3.storeOnly L s.heap hse
  have hbnd : ∀ e n l, W e n l → l < σ.store.size := by
    intro e n l hW
    obtain ⟨_, u, _, _, h3, _⟩ := hi.vars e n l hW
    exact lt_size_of_get h3
  have hi2 : Inv3 D W s.heap σ2 :=
    hi.frame hx0 (L.srx_store _ _ _ hse hi.extra) (c1.trans b3) (fun _ => rfl)
      (fun e n l hW => ⟨rfl, hold l (hbnd e n l hW)⟩)
  have hvs2 : All2 (VR3 D W s.heap σ2.store) vs ws := All2.vr3_mono hvs hx0 (World.le_refl _)
  have hvl : vs.length = ws.length := All2.length_eq hvs
  -- the loaded code
  obtain ⟨hcode, hinfo⟩ := hi2.loaded _ _ a8
  rw [← a10] at hcode hinfo
  have hcodeP : CodeAt2 D p.ctx.envmap s.heap σ2.store lam 0 (p.prologue ++ bcode ++ [.op .ret]) := hcode
  have hbound : (fun x => x ∈ ps ++ rest.toList ++ ints ∨ bound ρc x) = bound ρ2 := by
    funext x
    apply propext
    have key : x ∈ ps ++ rest.toList ++ ints → bound ρ2 x := by
      intro hm
      rcases List.mem_append.mp hm with hm | hm
      · have hni := hdisj x hm
        show (ρ2.lookup x).isSome = true
        rw [c7 x hni]
        rcases List.mem_append.mp hm with hm | hm
        · obtain ⟨i, hi', hxi⟩ := List.getElem_of_mem hm
          have : ps[i]? = some x := by rw [List.getElem?_eq_getElem hi', hxi]
          simp [b8 i x this]
        · cases rest with
          | none => simp at hm
          | some rn =>
            have : x = rn := by simpa using hm
            subst this
            obtain ⟨lv, g1, _, _⟩ := b9 x rfl
            simp [g1]
      · obtain ⟨i, hi', hxi⟩ := List.getElem_of_mem hm
        have : ints[i]? = some x := by rw [List.getElem?_eq_getElem hi', hxi]
        show (ρ2.lookup x).isSome = true
        simp [c6 i x this]
    constructor
    · intro hx
      by_cases hm : x ∈ ps ++ rest.toList ++ ints
      · exact key hm
      · rcases hx with hx | hx
        · exact absurd hx hm
        · show (ρ2.lookup x).isSome = true
          have h1 : x ∉ ints := fun h => hm (List.mem_append_right _ h)
          have h2 : x ∉ ps ++ rest.toList := fun h => hm (List.mem_append_left _ h)
          rw [c7 x h1, b10 x h2]; exact hx
    · intro hx
      by_cases hm : x ∈ ps ++ rest.toList ++ ints
      · exact .inl hm
      · right
        show (ρc.lookup x).isSome = true
        have h1 : x ∉ ints := fun h => hm (List.mem_append_right _ h)
        have h2 : x ∉ ps ++ rest.toList := fun h => hm (List.mem_append_left _ h)
        rw [← b10 x h2, ← c7 x h1]; exact hx
  rw [hbound] at a12
  have hother : ∀ x, x ∉ ps ++ rest.toList ++ ints → ρ2.lookup x = ρc.lookup x := by
    intro x hm
    have h1 : x ∉ ints := fun h => hm (List.mem_append_right _ h)
    have h2 : x ∉ ps ++ rest.toList := fun h => hm (List.mem_append_left _ h)
    rw [c7 x h1, b10 x h2]
  have hil : ∀ i x, ints[i]? = some x → ρ2.lookup x = some (σ1.store.size + i) := c6
  have hiv : ∀ i, i < ints.length → ∃ w, σ2.store[σ1.store.size + i]? = some (.var w) := fun i hi' => ⟨_, c5 i hi'⟩
  cases rest with
  | none =>
    have hfs : ps ++ (none : Option Text).toList = ps := by simp
    rw [hfs] at a1 a5 a14 a17 hother
    have hwl : ws.length = ps.length := b2 rfl
    have hpro : p.prologue = [.op .enter] := by rw [a4, a2]; rfl
    have b5' : σ1.store.size = σ.store.size + ws.length := by simpa using b5
    obtain ⟨h', a, W', stE, hsE, hwW, hi1, her1, hcx, hwE, hfrE, hext⟩ :=
      enter_core L (loc := fun n => if n < ps.length then σ.store.size + n else σ1.store.size + (n - ps.length))
        (bnd := σ.store.size) (pos := 0) (ρ2 := ρ2) (ρc := ρc) hcal (a3.trans a1) a1 a5 a8 a10 a11 a13 a14 a15 a16
        a17 a18 a19 (by rw [hpro]; rfl) hi2 hvs2 (by omega) hipL hipO hst hw0 hw hbnd
        (by intro n hn; show σ.store.size ≤ ite _ _ _; split <;> omega)
        (by
          intro n m hn hm he
          have he' : (if n < ps.length then σ.store.size + n else σ1.store.size + (n - ps.length))
              = (if m < ps.length then σ.store.size + m else σ1.store.size + (m - ps.length)) := he
          split at he' <;> split at he' <;> omega)
        (by
          intro i x hx
          have hlt : i < ps.length := by
            rcases Nat.lt_or_ge i ps.length with h1 | h1
            · exact h1
            · rw [List.getElem?_eq_none h1] at hx; cases hx
          have hni : x ∉ ints := hdisj x (by simpa using List.mem_of_getElem? hx)
          show ρ2.lookup x = some (ite _ _ _)
          rw [if_pos hlt, c7 x hni]; exact b8 i x hx)
        (by
          intro i w hw'
          have hlt : i < ps.length := by
            rcases Nat.lt_or_ge i ws.length with h1 | h1
            · omega
            · rw [List.getElem?_eq_none h1] at hw'; cases hw'
          show σ2.store[ite _ _ _]? = _
          rw [if_pos hlt, c4 _ (by omega)]; exact b7 i w hlt hw')
        (by
          intro i x hx
          show ρ2.lookup x = some (ite _ _ _)
          rw [if_neg (by omega), show ps.length + i - ps.length = i by omega]; exact hil i x hx)
        (by
          intro i hi'
          show ∃ w, σ2.store[ite _ _ _]? = _
          rw [if_neg (by omega), show ps.length + i - ps.length = i by omega]; exact hiv i hi')
        hother
    refine ⟨f, cst, cst1, p, bcode, ints, h', a, W', stE, vs.length, ?_, hwW, hi1, her1, hcx, a12, a7, a9, a6,
      hcodeP.ext hext.toExt2, hwE, hfrE, hx0.trans hext⟩
    have : p.prologue.length = s.ipO + 1 := by rw [hpro, hipO]; rfl
    rw [this]
    exact Steps.one hsE
  | some rn =>
    have hfs : ps ++ (some rn : Option Text).toList = ps ++ [rn] := by simp
    rw [hfs] at a1 a5 a14 a17 hother
    have hpro : p.prologue = [.op .varArg, .op .enter] := by rw [a4, a2]; rfl
    have b5' : σ1.store.size = σ.store.size + ws.length + 1 := by simpa using b5
    obtain ⟨lv, g1, g2, g3⟩ := b9 rn rfl
    have hlist : ListIn σ2.store lv (ws.drop ps.length) := ListIn.mono_of_lt c4 g3
    -- VARARG
    have hinfo' : ops.lambdaInfo s.heap s.ipL = some ⟨ps.length + 1⟩ := by
      rw [hipL, hinfo]; simp [lamOf, a1]
    have hf0 : ops.fetch s.heap s.ipL s.ipO = some (.opcode .varArg) := by
      have := hcodeP.op 0 (o := .varArg) (by rw [hpro]; rfl)
      rw [hipL, hipO]; simpa using this
    obtain ⟨h1, lst, st1, hstepV, hlive1, hswf1, hvrl, hs3⟩ :=
      varArg_ok L (by rw [hipL]; exact a11) hf0 hinfo' hi2.extra hvs2 (by omega) hlist hst hw0 hw
    have hvs1 : All2 (VR3 D W h1 σ2.store) (vs.take ps.length ++ [.ptr lst]) (ws.take ps.length ++ [lv]) :=
      all2_snoc (all2_take _ (All2.vr3_mono hvs2 hs3.ext (World.le_refl _))) hvrl
    have hi3 : Inv3 D W h1 σ2 := hi2.step3 hs3
    obtain ⟨k1, _, _, k4⟩ := hs3.ext.code lam a11
    have hlen1 : (vs.take ps.length ++ [VCell.ptr lst]).length = ps.length + 1 := by
      simp [List.length_take]; omega
    obtain ⟨h', a, W', stE, hsE, hwW, hi1, her1, hcx, hwE, hfrE, hext⟩ :=
      enter_core L (s := { s with heap := h1, stack := st1, ipO := s.ipO + 1 })
        (loc := fun n => if n < ps.length then σ.store.size + n else if n = ps.length then σ.store.size + ws.length
          else σ1.store.size + (n - (ps.length + 1)))
        (bnd := σ.store.size) (pos := 1) (ρ2 := ρ2) (ρc := ρc) (hs3.ext.clos _ _ _ hcal) (a3.trans a1) a1 a5 a8 a10 k1
        (k4.trans a13) a14 a15 (fun j hj => by obtain ⟨g, hg⟩ := a16 j hj; exact hs3.ext.toExt2.envSome hg)
        (fun j x hj hx => by
          obtain ⟨e, n, l, q1, q2, q3, q4⟩ := a17 j x hj hx
          exact ⟨e, n, l, hs3.ext.envPtr _ _ _ _ q1, q2, q3, hs3.ext.init _ _ q4⟩)
        (hs3.ext.envOK _ a18) (fun j x hx => hs3.ext.undefOK _ _ a18 (a19 j x hx)) (by rw [hpro]; rfl) hi3 hvs1 (by rw [hlen1]; simp) hipL (by show s.ipO + 1 = 1; omega)
        hlive1 hw0 hswf1 hbnd
        (by
          intro n hn
          show σ.store.size ≤ ite _ _ _
          split
          · omega
          · split <;> omega)
        (by
          intro n m hn hm he
          have he' : (if n < ps.length then σ.store.size + n else if n = ps.length then σ.store.size + ws.length
              else σ1.store.size + (n - (ps.length + 1)))
              = (if m < ps.length then σ.store.size + m else if m = ps.length then σ.store.size + ws.length
              else σ1.store.size + (m - (ps.length + 1))) := he
          simp only [List.length_append, List.length_cons, List.length_nil] at hn hm
          split at he' <;> split at he' <;> (try split at he') <;> (try split at he') <;> omega)
        (by
          intro i x hx
          have hni : x ∉ ints := hdisj x (by simpa using List.mem_of_getElem? hx)
          show ρ2.lookup x = some (ite _ _ _)
          rw [c7 x hni]
          by_cases hlt : i < ps.length
          · rw [if_pos hlt]
            rw [List.getElem?_append_left hlt] at hx
            exact b8 i x hx
          · have hi' : i = ps.length := by
              rcases Nat.lt_or_ge i (ps ++ [rn]).length with h1 | h1
              · simp at h1; omega
              · rw [List.getElem?_eq_none h1] at hx; cases hx
            subst hi'
            rw [if_neg hlt, if_pos rfl]
            have : x = rn := by simpa using hx.symm
            subst this
            exact g1)
        (by
          intro i w hw'
          show σ2.store[ite _ _ _]? = _
          by_cases hlt : i < ps.length
          · rw [if_pos hlt, c4 _ (by omega)]
            have hlt2 : i < (ws.take ps.length).length := by simp [List.length_take]; omega
            rw [List.getElem?_append_left hlt2, List.getElem?_take] at hw'
            simp only [hlt, if_true] at hw'
            exact b7 i w hlt hw'
          · have hlen : (ws.take ps.length).length = ps.length := by simp [List.length_take]; omega
            have hi' : i = ps.length := by
              rcases Nat.lt_or_ge i (ws.take ps.length ++ [lv]).length with h1 | h1
              · simp only [List.length_append, hlen, List.length_cons, List.length_nil] at h1; omega
              · rw [List.getElem?_eq_none h1] at hw'; cases hw'
            subst hi'
            rw [if_neg hlt, if_pos rfl, c4 _ (by omega)]
            rw [List.getElem?_append_right (by omega), hlen] at hw'
            simp at hw'
            subst hw'
            exact g2)
        (by
          intro i x hx
          show ρ2.lookup x = some (ite _ _ _)
          have hl : (ps ++ [rn]).length = ps.length + 1 := by simp
          rw [hl, if_neg (by omega), if_neg (by omega), show ps.length + 1 + i - (ps.length + 1) = i by omega]
          exact hil i x hx)
        (by
          intro i hi'
          show ∃ w, σ2.store[ite _ _ _]? = _
          have hl : (ps ++ [rn]).length = ps.length + 1 := by simp
          rw [hl, if_neg (by omega), if_neg (by omega), show ps.length + 1 + i - (ps.length + 1) = i by omega]
          exact hiv i hi')
        hother
    refine ⟨f, cst, cst1, p, bcode, ints, h', a, W', stE, ps.length + 1, ?_, hwW, hi1, her1, hcx, a12, a7, a9, a6,
      (hcodeP.ext hs3.ext.toExt2).ext hext.toExt2, hwE, by rw [← hlen1]; exact hfrE, (hx0.trans hs3.ext).trans hext⟩
    have hpl : p.prologue.length = s.ipO + 1 + 1 := by rw [hpro, hipO]; rfl
    rw [hpl, ← hlen1]
    exact .cons hstepV (Steps.one hsE)

end Marwood.Lemmas.CompileCorrect3
