import Marwood.Lemmas.EnvFitStack
/-!
# The slot clause of T06.6 as an invariant (4): the collector, the epilogues, `prepare_eval`, the executable check

* `finv_gc` — the collector moves nothing: a cell it keeps has its content, a cell it frees becomes `Undefined`, so every
  `Fit` claim survives (it is conditional on both cells being there); the code object under `ip.0` and the callee in
  `acc` are roots.
* `finv_onDone`, `finv_onError` — the epilogues wipe the stack; the error reset sets `ep` to the sentinel.
* `finv_prepare` — under the law `CompFit` of the compiler inside `prepare_eval`.
* `stateFB_sound` — the executable clauses of `Vm/EnvInvCheck.lean` imply `FInv`.
-/
namespace Marwood.Lemmas.Good
open Marwood Marwood.Vm Marwood.Vm.Verify Marwood.Vm.Concrete Marwood.Lemmas.Sim
open Marwood.Heap (GcState)
open Marwood.Lemmas.GcSafety Marwood.Lemmas.GcMark

/-! ## heaps whose cells are cells of an earlier heap, or `Undefined` -/

/-- every cell of `H` that is not `Undefined` is the same cell of `h` -/
def Shrinks (h H : CHeap) : Prop :=
  ∀ (i : Nat) (c : CCell), H.cells[i]? = some c → c ≠ CCell.val .undefined → h.cells[i]? = some c

theorem Shrinks.lam {h H : CHeap} (x : Shrinks h H) {l : Nat} {lam : CLambda} (hl : lambdaAt H l = some lam) :
    lambdaAt h l = some lam :=
  lambdaAt_iff.mpr (x l _ (lambdaAt_iff.mp hl) (fun hh => by cases hh))

theorem Shrinks.env {h H : CHeap} (x : Shrinks h H) {e : Nat} {ss : List VCell} (he : envAt H e = some ss) :
    envAt h e = some ss := by
  have := x e _ (envAt_cell he) (fun hh => by cases hh)
  unfold envAt; rw [this]

theorem Shrinks.fit {h H : CHeap} (x : Shrinks h H) {e l : Nat} (f : Fit h e l) : Fit H e l :=
  fun lam ss hl he => f lam ss (x.lam hl) (x.env he)

theorem Shrinks.pairs {h H : CHeap} (x : Shrinks h H) {cells : List VCell} {sp : Nat} (p : PairsOk h cells sp) :
    PairsOk H cells sp := fun i e l o hi he hl => x.fit (p i e l o hi he hl)

theorem Shrinks.cellF {h H : CHeap} (x : Shrinks h H) {c : CCell} (f : CellF h c) : CellF H c := by
  cases c with
  | val v => intro l e he; exact x.fit (f l e he)
  | lambda lam =>
    refine ⟨?_, f.2⟩
    intro j v hs hv p lam' hp hl
    exact f.1 j v hs hv p lam' hp (x.lam hl)
  | cont k => exact ⟨x.pairs f.1, x.fit f.2⟩
  | lexEnv _ => trivial
  | vector _ => trivial

theorem Shrinks.hf {h H : CHeap} (x : Shrinks h H) (f : HF h) : HF H := by
  intro i c hc
  by_cases hu : c = CCell.val .undefined
  · subst hu; intro l e he; cases he
  · exact x.cellF (f i c (x i c hc hu))

theorem Shrinks.inPre {h H : CHeap} (x : Shrinks h H) {l o : Nat} (p : InPre H l o) : InPre h l o := by
  obtain ⟨lam, t, h1, h2, h3, h4⟩ := p
  exact ⟨lam, t, x.lam h1, h2, h3, h4⟩

/-! ## the collector -/

theorem liftGc_shrinks (h : CHeap) (h' : Heap.Heap) : Shrinks h (liftGc h h') :=
  fun _ _ hc hu => (liftGc_code hc hu).1

/-- **`FInv` is preserved by the collector** -/
theorem finv_gc (force : Bool) {s : St CHeap} (g : GoodI s) (ci : CInvG IsValue s.heap) (f : FInv s) :
    FInv (cgc force s) := by
  rcases cgc_cases force s with e | ⟨h', hrun, e⟩
  · rw [e]; exact f
  · have co := collected_of_run ci hrun
    have sh : Shrinks s.heap (liftGc s.heap h') := liftGc_shrinks s.heap h'
    have hroot : ∀ p, p ∈ (rootsOf s).refs true → p < s.heap.cells.size →
        (liftGc s.heap h').cells[p]? = s.heap.cells[p]? := by
      intro p hm hlt
      have hl : p < (toHeap s.heap).gc.size := by
        show p < s.heap.gc.size
        rw [ci.sizes]; exact hlt
      exact liftGc_reach ci co (Marwood.Spec.Reach.root hm hl)
    have hip : InPre s.heap s.ipL s.ipO → InPre (liftGc s.heap h') s.ipL s.ipO := by
      rintro ⟨lam, t, h1, h2, h3, h4⟩
      have hc := lambdaAt_iff.mp h1
      have := hroot s.ipL (by simp [Heap.Roots.refs, rootsOf]) (lt_of_get_some hc)
      exact ⟨lam, t, lambdaAt_iff.mpr (by rw [this]; exact hc), h2, h3, h4⟩
    rw [e]
    refine ⟨sh.hf f.hf, sh.pairs f.stk, ?_, ?_⟩
    · intro hp
      rcases f.pre (sh.inPre hp) with hu | hc
      · exact Or.inl hu
      refine Or.inr ?_
      show calleeLam (liftGc s.heap h') s.acc = some s.ipL
      unfold calleeLam callee at hc ⊢
      cases hacc : s.acc with
      | ptr p =>
        rw [hacc] at hc
        simp only at hc ⊢
        cases hcell : s.heap.cells[p]? with
        | none => rw [hcell] at hc; cases hc
        | some c =>
          have hm : p ∈ (rootsOf s).refs true := mem_refs_acc (by simp [rootsOf, hacc, eraseV, Heap.vrefs])
          rw [hroot p hm (lt_of_get_some hcell)]
          exact hc
      | closure l e' => rw [hacc] at hc; exact hc
      | builtin id => rw [hacc] at hc; exact hc
      | _ => rw [hacc] at hc; cases hc
    · intro hn
      exact sh.fit (f.fit (fun hp => hn (hip hp)))

/-! ## the epilogues -/

theorem pairsOk_replicate (h : CHeap) (n sp : Nat) : PairsOk h (List.replicate n VCell.undefined) sp := by
  intro i e l o _ he _
  rw [List.getElem?_replicate] at he
  split at he <;> cases he

/-- **the success epilogue** (`Stack::clear`) -/
theorem finv_onDone {s : St CHeap} (f : FInv s) : FInv (onDone s) :=
  ⟨f.hf, pairsOk_replicate _ _ _, f.pre, f.fit⟩

/-- the sentinel `usize::MAX` is no heap cell -/
theorem envAt_sentinel {h : CHeap} (g : HG h) {e : Nat} (he : 2 ^ 63 ≤ e) : envAt h e = none := by
  cases hx : envAt h e with
  | none => rfl
  | some ss =>
    have := lt_of_get_some (envAt_cell hx)
    have := hg_bound g
    omega

/-- **the error epilogue**: the stack is wiped, `ep` is the sentinel, `acc` is `Undefined`; `ip` stays at the failing
    instruction (which may be a prologue instruction: ENTER's arity error) -/
theorem finv_onError {s : St CHeap} (g : HG s.heap) (f : FInv s) : FInv (onError s) := by
  refine ⟨f.hf, pairsOk_replicate _ _ _, fun _ => Or.inl rfl, fun _ => ?_⟩
  show Fit s.heap usizeMax s.ipL
  exact Fit.of_no_env (envAt_sentinel g (by unfold usizeMax; omega))

/-! ## `prepare_eval` -/

/-- the law of the compiler inside `prepare_eval` for `FInv`: between two heaps satisfying the heap-simulation
    invariant it keeps `HF` (the code objects it installs have fitting children), keeps allocated environments and
    lambdas, and the entry lambda it returns has an empty environment map and is entry code (not in a prologue) -/
structure CompFit (comp : CHeap → VCell → Outcome (CHeap × VCell)) : Prop where
  hf : ∀ (h : CHeap) (d : VCell) (h' : CHeap) (e : Nat), HG h → HG h' → HF h → addrFree d = true →
    comp h d = .ok (h', .ptr e) → HF h' ∧ (∀ lam, lambdaAt h' e = some lam → lam.envmap = []) ∧ ¬ InPre h' e 0

/-- the state `prepare_eval` produces from an idle machine (stack wiped) -/
theorem finv_prepare {comp : CHeap → VCell → Outcome (CHeap × VCell)} (cf : CompFit comp) {s s' : St CHeap} {d : VCell}
    (g : HG s.heap) (g' : HG s'.heap) (f : FInv s) (hst : ∀ c ∈ s.stack.cells, c = VCell.undefined)
    (hd : addrFree d = true) (hp : prepareEval comp s d = .ok s') : FInv s' := by
  obtain ⟨h', e, hc, rfl⟩ := prepareEval_inv hp
  obtain ⟨k1, k2, k3⟩ := cf.hf _ _ _ _ g g' f.hf hd hc
  refine ⟨k1, ?_, fun hp => absurd hp k3, fun _ => Fit.of_empty k2⟩
  intro i e' l o _ he _
  have := hst _ (List.mem_of_getElem? he)
  cases this

/-- pointing `ip` at an entry lambda already in the heap -/
theorem finv_prepare_entry {s : St CHeap} (f : FInv s) (entry : Nat)
    (he : ∀ lam, lambdaAt s.heap entry = some lam → lam.envmap = []) (hnp : ¬ InPre s.heap entry 0) :
    FInv (prepare s entry) :=
  ⟨f.hf, f.stk, fun hp => absurd hp hnp, fun _ => Fit.of_empty he⟩

/-! ## soundness of the executable clauses -/

theorem fitB_sound {h : CHeap} {e l : Nat} (hb : fitB h e l = true) : Fit h e l := by
  intro lam ss hl he
  unfold fitB at hb
  rw [hl, he] at hb
  simpa using hb

theorem pairsEB_sound {h : CHeap} {cells : List VCell} {sp : Nat} (hb : pairsEB h cells sp = true) :
    PairsOk h cells sp := by
  intro i e l o hi he hl
  unfold pairsEB at hb
  rw [List.all_eq_true] at hb
  have := hb i (List.mem_range.mpr (by omega))
  rw [he, hl] at this
  exact fitB_sound this

theorem childFitB_sound {h : CHeap} {n : Nat} {v : VCell} (hb : childFitB h n v = true) : ChildFit h n v := by
  intro p lam' hv hl x hx k hk
  subst hv
  unfold childFitB at hb
  simp only [hl] at hb
  unfold iofEnvFitB at hb
  rw [List.all_eq_true] at hb
  have := hb x hx
  rw [hk] at this
  simpa using this

theorem sitesFB_sound {h : CHeap} {l : CLambda} (hb : sitesFB h l = true) : CodeF h l := by
  unfold sitesFB at hb
  rw [List.all_eq_true] at hb
  have hlt : ∀ j (v : VCell), l.bc[j + 1]? = some v → j < l.bc.length := by
    intro j v hv
    have := List.getElem?_eq_some_iff.mp hv
    obtain ⟨hlt, _⟩ := this
    omega
  refine ⟨?_, ?_⟩
  · intro j v hs hv
    have := hb j (List.mem_range.mpr (hlt j v hv))
    simp only [Bool.and_eq_true, Bool.or_eq_true, Bool.not_eq_true'] at this
    rcases this.1 with h1 | h1
    · rw [hs] at h1; cases h1
    · rw [hv] at h1; exact childFitB_sound h1
  · intro j v hop hv w o he
    subst he
    have := hb j (List.mem_range.mpr (hlt j _ hv))
    simp only [Bool.and_eq_true] at this
    have h2 := this.2
    rw [hop, hv] at h2
    simp [notIpB] at h2

theorem cellFB_sound {h : CHeap} {c : CCell} (hb : cellFB h c = true) : CellF h c := by
  cases c with
  | val v =>
    intro l e he
    subst he
    exact fitB_sound hb
  | lambda lam => exact sitesFB_sound hb
  | cont k =>
    simp only [cellFB, Bool.and_eq_true] at hb
    exact ⟨pairsEB_sound hb.1, fitB_sound hb.2⟩
  | lexEnv _ => trivial
  | vector _ => trivial

theorem heapFB_sound {h : CHeap} (hb : heapFB h = true) : HF h := by
  intro i c hc
  unfold heapFB at hb
  rw [Array.all_eq_true] at hb
  have hlt : i < h.cells.size := lt_of_get_some hc
  have := hb i hlt
  rw [Array.getElem?_eq_getElem hlt] at hc
  cases hc
  exact cellFB_sound this

theorem inPreB_iff {h : CHeap} {l o : Nat} : inPreB h l o = true ↔ InPre h l o := by
  unfold inPreB InPre
  constructor
  · intro hb
    cases hl : lambdaAt h l with
    | none => rw [hl] at hb; cases hb
    | some lam =>
      rw [hl] at hb
      simp only at hb
      cases ht : verifyLam lam.bc with
      | none => rw [ht] at hb; cases hb
      | some t =>
        rw [ht] at hb
        simp only [Bool.and_eq_true, Bool.not_eq_true', decide_eq_true_eq] at hb
        exact ⟨lam, t, rfl, ht, hb.1, hb.2⟩
  · rintro ⟨lam, t, h1, h2, h3, h4⟩
    rw [h1]
    simp only [h2, h3, h4]
    simp

theorem calleeLamB_eq (h : CHeap) (a : VCell) : calleeLamB h a = calleeLam h a := rfl

/-- **the executable check implies the invariant** -/
theorem stateFB_sound {s : St CHeap} (hb : stateFB s = true) : FInv s := by
  unfold stateFB at hb
  simp only [Bool.and_eq_true] at hb
  obtain ⟨⟨h1, h2⟩, h3⟩ := hb
  refine ⟨heapFB_sound h1, pairsEB_sound h2, ?_, ?_⟩
  · intro hp
    unfold curFitB at h3
    rw [inPreB_iff.mpr hp] at h3
    simp only [if_true, Bool.or_eq_true, decide_eq_true_eq] at h3
    rw [← calleeLamB_eq]; exact h3
  · intro hn
    unfold curFitB at h3
    have : inPreB s.heap s.ipL s.ipO = false := by
      cases hx : inPreB s.heap s.ipL s.ipO with
      | false => rfl
      | true => exact absurd (inPreB_iff.mp hx) hn
    rw [this] at h3
    simp only [Bool.false_eq_true, if_false] at h3
    exact fitB_sound h3

end Marwood.Lemmas.Good
