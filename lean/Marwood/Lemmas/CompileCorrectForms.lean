import Marwood.Lemmas.CompileCorrectRun
/-!
# T01.3 stage 1 — stages 3 and 4: `set!` of a global and `if`, given the statement for sub-expressions
-/
namespace Marwood.Lemmas.CompileCorrect
open Marwood Marwood.Vm
open Marwood.Spec.Eval (Val Prim Cell evalN evalStep applyStep evalArgs properList quoteVal kwOf insertG
  k_quote k_if_ k_setBang k_define)

variable {H : Type} {ops : HeapOps H} {D : RepData ops}

/-! ## composing runs -/

theorem ExprRun.append {s s1 s2 : MSt H} {len1 len2 : Nat} {σ σ1 σ2 : SSt} {v w : Val}
    (r1 : ExprRun D s len1 σ σ1 v s1) (r2 : ExprRun D s1 len2 σ1 σ2 w s2) :
    ExprRun D s (len1 + len2) σ σ2 w s2 :=
  ⟨r1.steps.trans r2.steps, r2.ipL.trans r1.ipL, by rw [r2.ipO, r1.ipO, Nat.add_assoc],
   r2.bp.trans r1.bp, r2.ep.trans r1.ep, r1.stack.trans r2.stack, r2.swf, r2.acc, r2.sr,
   r1.ev.trans (r1.ipL ▸ r2.ev)⟩

/-- a jump executed before the run -/
theorem ExprRun.step_before {s s' : MSt H} {o len len' : Nat} {σ σ' : SSt} {w : Val}
    (hs : step ops s = .ok ({ s with ipO := o }, false))
    (r : ExprRun D { s with ipO := o } len σ σ' w s') (ho : o + len = s.ipO + len') :
    ExprRun D s len' σ σ' w s' :=
  ⟨.cons hs r.steps, r.ipL, by rw [r.ipO]; exact ho, r.bp, r.ep, r.stack, r.swf, r.acc, r.sr, r.ev⟩

/-- a jump executed after the run -/
theorem ExprRun.step_after {s s' : MSt H} {o len len' : Nat} {σ σ' : SSt} {w : Val}
    (r : ExprRun D s len σ σ' w s')
    (hs : step ops s' = .ok ({ s' with ipO := o }, false)) (ho : o = s.ipO + len') :
    ExprRun D s len' σ σ' w { s' with ipO := o } :=
  ⟨r.steps.trans (Steps.one hs), r.ipL, ho, r.bp, r.ep, r.stack, r.swf, r.acc, r.sr, r.ev⟩

/-- `MOV-IMMEDIATE <void> %acc` as a run -/
theorem run_void (L : RepLaws D) {s : MSt H} {σ : SSt}
    (hc : CodeAt D s.heap σ.store s.ipL s.ipO [.op .movImm, .void, .acc])
    (hsr : SR D s.heap σ) (hw : SWF s.stack) : ∃ s', ExprRun D s 3 σ σ .void s' :=
  ⟨_, ⟨Steps.one (run_movImm_void hc), rfl, rfl, rfl, rfl, LiveEq.refl _, hw, L.void _ _, hsr,
    Evolves.refl _ _ _⟩⟩

/-- the code that follows a run, in the heap the run left -/
theorem ExprRun.codeAfter {s s' : MSt H} {len : Nat} {σ σ' : SSt} {w : Val} (r : ExprRun D s len σ σ' w s')
    {base : Nat} {code : List BC} (hc : CodeAt D s.heap σ.store s.ipL base code) :
    CodeAt D s'.heap σ'.store s'.ipL base code := by
  rw [r.ipL]; exact hc.evolve r.ev

/-! ## `set!` -/

theorem case_setBang (L : RepLaws D) {fuel : Nat} (ih : ExprOK D fuel)
    {cst cst' : CState} {base : Nat} {tail : Bool} {x : Text} {e : Datum} {code : List BC} (hfe : Frag e)
    (hcomp : compileExpr (fuel + 1) cst c0 base tail
      (.pair (.sym k_setBang) (.pair (.sym x) (.pair e .nil))) = .ok (cst', code))
    {n : Nat} {σ σ' : SSt} {w : Val}
    (hev : evalStep (evalN n) (.pair (.sym k_setBang) (.pair (.sym x) (.pair e .nil))) [] σ = .ok w σ')
    {s : MSt H} (hc : CodeAt D s.heap σ.store s.ipL base code) (hip : s.ipO = base)
    (hsr : SR D s.heap σ) (hw : SWF s.stack) :
    ∃ s', ExprRun D s code.length σ σ' w s' := by
  obtain ⟨code1, hc1, rfl⟩ := compile_setBang_inv hcomp
  obtain ⟨v, σ1, he, _, rfl, rfl⟩ := evalStep_setBang_inv hev
  subst hip
  obtain ⟨s1, r1⟩ := ih _ _ _ _ _ _ hfe hc1 n σ v σ1 he s hc.left rfl hsr hw
  have hc2 := r1.codeAfter hc.right
  rw [← r1.ipO] at hc2
  obtain ⟨s2, r2⟩ := run_store L (x := x) hc2 r1.acc r1.sr r1.swf
  refine ⟨s2, ?_⟩
  have := r1.append r2
  simpa using this

/-! ## `if` -/

theorem not_false_of_truthy {v : Val} (h : Spec.Eval.truthy v = true) : v ≠ .bool false := by
  intro e; subst e; simp [Spec.Eval.truthy] at h

theorem case_if2 (L : RepLaws D) {fuel : Nat} (ih : ExprOK D fuel)
    {cst cst' : CState} {base : Nat} {tail : Bool} {t c : Datum} {code : List BC} (hft : Frag t) (hfc : Frag c)
    (hcomp : compileExpr (fuel + 1) cst c0 base tail
      (.pair (.sym k_if_) (.pair t (.pair c .nil))) = .ok (cst', code))
    {n : Nat} {σ σ' : SSt} {w : Val}
    (hev : evalStep (evalN n) (.pair (.sym k_if_) (.pair t (.pair c .nil))) [] σ = .ok w σ')
    {s : MSt H} (hc : CodeAt D s.heap σ.store s.ipL base code) (hip : s.ipO = base)
    (hsr : SR D s.heap σ) (hw : SWF s.stack) :
    ∃ s', ExprRun D s code.length σ σ' w s' := by
  obtain ⟨cst1, tcode, ccode, hct, hcc, rfl⟩ := compile_if2_inv hcomp
  obtain ⟨v, σ1, het, hbr⟩ := evalStep_if2_inv hev
  subst hip
  -- the five pieces of the code
  have hcT := hc.left.left.left.left
  have hcJ := hc.left.left.left.right
  have hcC := hc.left.left.right
  have hcK := hc.left.right
  have hcV := hc.right
  obtain ⟨s1, r1⟩ := ih _ _ _ _ _ _ hft hct n σ v σ1 het s hcT rfl hsr hw
  have hcJ1 := (r1.codeAfter hcJ).cast r1.ipO.symm
  have hlen : (tcode ++ [BC.op .jnt, BC.target (s.ipO + tcode.length + 2 + ccode.length + 2)] ++ ccode
      ++ [BC.op .jmp, BC.target (s.ipO + tcode.length + 2 + ccode.length + 2 + 3)]
      ++ [BC.op .movImm, BC.void, BC.acc]).length = tcode.length + 2 + ccode.length + 2 + 3 := by
    simp only [List.length_append, List.length_cons, List.length_nil]
  rw [hlen]
  have ipo1 := r1.ipO
  rcases hbr with ⟨htr, hec⟩ | ⟨rfl, rfl, rfl⟩
  · -- the test is true: fall through, run the consequent, jump over the alternative
    have hne : ops.deref s1.heap s1.acc ≠ .bool false := fun e =>
      not_false_of_truthy htr ((L.truth _ _ _ _ r1.acc).mp e)
    have hj := step_jnt_true hcJ1.1 (hcJ1.op 0 rfl) (hcJ1.targetCell 1 rfl) hne
    have hcC1 : CodeAt D s1.heap σ1.store s1.ipL (s.ipO + tcode.length + 2) ccode :=
      (r1.codeAfter hcC).cast (by simp only [List.length_append, List.length_cons, List.length_nil]; omega)
    obtain ⟨s3, r3⟩ := ih _ _ _ _ _ _ hfc hcc n σ1 w σ' hec { s1 with ipO := s1.ipO + 2 } hcC1
      (by show s1.ipO + 2 = _; omega) r1.sr r1.swf
    have r13 := r1.append (ExprRun.step_before (len' := 2 + ccode.length) hj r3 (by show _ = s1.ipO + _; omega))
    have hcK3 : CodeAt D s3.heap σ'.store s3.ipL s3.ipO
        [BC.op .jmp, BC.target (s.ipO + tcode.length + 2 + ccode.length + 2 + 3)] :=
      (r13.codeAfter hcK).cast (by
        rw [r13.ipO]; simp only [List.length_append, List.length_cons, List.length_nil]; omega)
    have hk := step_jmp hcK3.1 (hcK3.op 0 rfl) (hcK3.targetCell 1 rfl)
    exact ⟨_, r13.step_after hk (by omega)⟩
  · -- the test is false: jump to the `void` arm
    have hf : ops.deref s1.heap s1.acc = .bool false := (L.truth _ _ _ _ r1.acc).mpr rfl
    have hj := step_jnt_false hcJ1.1 (hcJ1.op 0 rfl) (hcJ1.targetCell 1 rfl) hf
    have hcV1 : CodeAt D s1.heap σ'.store s1.ipL (s.ipO + tcode.length + 2 + ccode.length + 2)
        [BC.op .movImm, BC.void, BC.acc] :=
      (r1.codeAfter hcV).cast (by simp only [List.length_append, List.length_cons, List.length_nil]; omega)
    obtain ⟨s3, r3⟩ := run_void L
      (s := { s1 with ipO := s.ipO + tcode.length + 2 + ccode.length + 2 }) hcV1 r1.sr r1.swf
    have := r1.append (ExprRun.step_before (len' := 2 + ccode.length + 2 + 3) hj r3
      (by show _ = s1.ipO + _; omega))
    exact ⟨s3, by
      have e : tcode.length + (2 + ccode.length + 2 + 3) = tcode.length + 2 + ccode.length + 2 + 3 := by omega
      rw [e] at this; exact this⟩

theorem case_if3 (L : RepLaws D) {fuel : Nat} (ih : ExprOK D fuel)
    {cst cst' : CState} {base : Nat} {tail : Bool} {t c a : Datum} {code : List BC}
    (hft : Frag t) (hfc : Frag c) (hfa : Frag a)
    (hcomp : compileExpr (fuel + 1) cst c0 base tail
      (.pair (.sym k_if_) (.pair t (.pair c (.pair a .nil)))) = .ok (cst', code))
    {n : Nat} {σ σ' : SSt} {w : Val}
    (hev : evalStep (evalN n) (.pair (.sym k_if_) (.pair t (.pair c (.pair a .nil)))) [] σ = .ok w σ')
    {s : MSt H} (hc : CodeAt D s.heap σ.store s.ipL base code) (hip : s.ipO = base)
    (hsr : SR D s.heap σ) (hw : SWF s.stack) :
    ∃ s', ExprRun D s code.length σ σ' w s' := by
  obtain ⟨cst1, cst2, tcode, ccode, acode, hct, hcc, hca, rfl⟩ := compile_if3_inv hcomp
  obtain ⟨v, σ1, het, hbr⟩ := evalStep_if3_inv hev
  subst hip
  have hcT := hc.left.left.left.left
  have hcJ := hc.left.left.left.right
  have hcC := hc.left.left.right
  have hcK := hc.left.right
  have hcA := hc.right
  obtain ⟨s1, r1⟩ := ih _ _ _ _ _ _ hft hct n σ v σ1 het s hcT rfl hsr hw
  have hcJ1 := (r1.codeAfter hcJ).cast r1.ipO.symm
  have hlen : (tcode ++ [BC.op .jnt, BC.target (s.ipO + tcode.length + 2 + ccode.length + 2)] ++ ccode
      ++ [BC.op .jmp, BC.target (s.ipO + tcode.length + 2 + ccode.length + 2 + acode.length)]
      ++ acode).length = tcode.length + 2 + ccode.length + 2 + acode.length := by
    simp only [List.length_append, List.length_cons, List.length_nil]
  rw [hlen]
  have ipo1 := r1.ipO
  rcases hbr with ⟨htr, hec⟩ | ⟨rfl, hea⟩
  · have hne : ops.deref s1.heap s1.acc ≠ .bool false := fun e =>
      not_false_of_truthy htr ((L.truth _ _ _ _ r1.acc).mp e)
    have hj := step_jnt_true hcJ1.1 (hcJ1.op 0 rfl) (hcJ1.targetCell 1 rfl) hne
    have hcC1 : CodeAt D s1.heap σ1.store s1.ipL (s.ipO + tcode.length + 2) ccode :=
      (r1.codeAfter hcC).cast (by simp only [List.length_append, List.length_cons, List.length_nil]; omega)
    obtain ⟨s3, r3⟩ := ih _ _ _ _ _ _ hfc hcc n σ1 w σ' hec { s1 with ipO := s1.ipO + 2 } hcC1
      (by show s1.ipO + 2 = _; omega) r1.sr r1.swf
    have r13 := r1.append (ExprRun.step_before (len' := 2 + ccode.length) hj r3 (by show _ = s1.ipO + _; omega))
    have hcK3 : CodeAt D s3.heap σ'.store s3.ipL s3.ipO
        [BC.op .jmp, BC.target (s.ipO + tcode.length + 2 + ccode.length + 2 + acode.length)] :=
      (r13.codeAfter hcK).cast (by
        rw [r13.ipO]; simp only [List.length_append, List.length_cons, List.length_nil]; omega)
    have hk := step_jmp hcK3.1 (hcK3.op 0 rfl) (hcK3.targetCell 1 rfl)
    exact ⟨_, r13.step_after hk (by omega)⟩
  · have hf : ops.deref s1.heap s1.acc = .bool false := (L.truth _ _ _ _ r1.acc).mpr rfl
    have hj := step_jnt_false hcJ1.1 (hcJ1.op 0 rfl) (hcJ1.targetCell 1 rfl) hf
    have hcA1 : CodeAt D s1.heap σ1.store s1.ipL (s.ipO + tcode.length + 2 + ccode.length + 2) acode :=
      (r1.codeAfter hcA).cast (by simp only [List.length_append, List.length_cons, List.length_nil]; omega)
    obtain ⟨s3, r3⟩ := ih _ _ _ _ _ _ hfa hca n σ1 w σ' hea
      { s1 with ipO := s.ipO + tcode.length + 2 + ccode.length + 2 } hcA1 rfl r1.sr r1.swf
    have := r1.append (ExprRun.step_before (len' := 2 + ccode.length + 2 + acode.length) hj r3
      (by show _ = s1.ipO + _; omega))
    exact ⟨s3, by
      have e : tcode.length + (2 + ccode.length + 2 + acode.length)
          = tcode.length + 2 + ccode.length + 2 + acode.length := by omega
      rw [e] at this; exact this⟩

end Marwood.Lemmas.CompileCorrect
