import Marwood.Lemmas.CompileCorrectInstr
import Marwood.Lemmas.CompileCorrectSpec
import Marwood.Lemmas.CompileCorrectShape
import Marwood.Lemmas.EvalFrame
/-!
# T01.3 stage 1 — statement of the simulation, bookkeeping lemmas, and the cases without sub-expressions
(constants, `(quote atom)`, global reference)
-/
namespace Marwood.Lemmas.CompileCorrect
open Marwood Marwood.Vm
open Marwood.Spec.Eval (Val Prim Cell evalN evalStep applyStep evalArgs properList quoteVal kwOf insertG
  k_quote k_if_ k_setBang k_define)

variable {H : Type} {ops : HeapOps H} {D : RepData ops}

/-! ## heaps over time -/

theorem Evolves.refl (l : Nat) (h : H) (S : Array Cell) : Evolves D l h S h S :=
  ⟨fun _ _ x => x, fun x => x, fun _ _ => rfl⟩

theorem Evolves.trans {l : Nat} {h1 h2 h3 : H} {S1 S2 S3 : Array Cell}
    (a : Evolves D l h1 S1 h2 S2) (b : Evolves D l h2 S2 h3 S3) : Evolves D l h1 S1 h3 S3 :=
  ⟨fun v w x => b.vr v w (a.vr v w x), fun x => b.isLambda (a.isLambda x),
   fun x o => (b.fetch (a.isLambda x) o).trans (a.fetch x o)⟩

theorem evolves_globPut (L : RepLaws D) (l : Nat) (h : H) (S : Array Cell) (n : Nat) (u : VCell) :
    Evolves D l h S (ops.globPut h n u) S :=
  ⟨fun v w x => L.globPut_VR h n u S v w x, fun x => by rw [L.globPut_isLambda]; exact x,
   fun _ o => L.globPut_fetch h n u l o⟩

theorem Loads.evolve {l : Nat} {h h' : H} {S S' : Array Cell} (e : Evolves D l h S h' S') {bc : BC} {v : VCell}
    (x : Loads D h S bc v) : Loads D h' S' bc v := by
  cases bc <;> first | exact x | exact ⟨x.1, fun w hw => e.vr _ _ (x.2 w hw)⟩

theorem CodeAt.evolve {l base : Nat} {h h' : H} {S S' : Array Cell} {code : List BC}
    (hc : CodeAt D h S l base code) (e : Evolves D l h S h' S') : CodeAt D h' S' l base code := by
  refine ⟨e.isLambda hc.1, fun i bc hi => ?_⟩
  obtain ⟨v, hf, hl⟩ := hc.2 i bc hi
  exact ⟨v, by rw [e.fetch hc.1]; exact hf, hl.evolve e⟩

theorem CodeAt.left {l base : Nat} {h : H} {S : Array Cell} {a b : List BC}
    (hc : CodeAt D h S l base (a ++ b)) : CodeAt D h S l base a := by
  refine ⟨hc.1, fun i bc hi => hc.2 i bc ?_⟩
  have hlt : i < a.length := by
    rcases Nat.lt_or_ge i a.length with h1 | h1
    · exact h1
    · rw [List.getElem?_eq_none h1] at hi; cases hi
  rw [List.getElem?_append_left hlt]; exact hi

theorem CodeAt.right {l base : Nat} {h : H} {S : Array Cell} {a b : List BC}
    (hc : CodeAt D h S l base (a ++ b)) : CodeAt D h S l (base + a.length) b := by
  refine ⟨hc.1, fun i bc hi => ?_⟩
  have := hc.2 (a.length + i) bc (by rw [List.getElem?_append_right (by omega)]; simpa using hi)
  rwa [← Nat.add_assoc] at this

theorem CodeAt.cast {l base base' : Nat} {h : H} {S : Array Cell} {code : List BC}
    (hc : CodeAt D h S l base code) (e : base = base') : CodeAt D h S l base' code := e ▸ hc

theorem CodeAt.op {l base : Nat} {h : H} {S : Array Cell} {code : List BC} (hc : CodeAt D h S l base code)
    (i : Nat) {o : Op} (hi : code[i]? = some (.op o)) : ops.fetch h l (base + i) = some (.opcode o) := by
  obtain ⟨v, hf, hl⟩ := hc.2 i _ hi
  cases (show v = .opcode o from hl); exact hf

theorem CodeAt.accCell {l base : Nat} {h : H} {S : Array Cell} {code : List BC} (hc : CodeAt D h S l base code)
    (i : Nat) (hi : code[i]? = some .acc) : ops.fetch h l (base + i) = some .acc := by
  obtain ⟨v, hf, hl⟩ := hc.2 i _ hi
  cases (show v = .acc from hl); exact hf

theorem CodeAt.globalCell {l base : Nat} {h : H} {S : Array Cell} {code : List BC} (hc : CodeAt D h S l base code)
    (i : Nat) {x : Text} (hi : code[i]? = some (.global x)) :
    D.named x ∧ ops.fetch h l (base + i) = some (.globSlot (D.slot x)) := by
  obtain ⟨v, hf, hl⟩ := hc.2 i _ hi
  obtain ⟨hn, hv⟩ := (show D.named x ∧ v = .globSlot (D.slot x) from hl)
  cases hv; exact ⟨hn, hf⟩

theorem CodeAt.argcCell {l base : Nat} {h : H} {S : Array Cell} {code : List BC} (hc : CodeAt D h S l base code)
    (i : Nat) {n : Nat} (hi : code[i]? = some (.argc n)) : ops.fetch h l (base + i) = some (.argc n) := by
  obtain ⟨v, hf, hl⟩ := hc.2 i _ hi
  cases (show v = .argc n from hl); exact hf

theorem CodeAt.targetCell {l base : Nat} {h : H} {S : Array Cell} {code : List BC} (hc : CodeAt D h S l base code)
    (i : Nat) {n : Nat} (hi : code[i]? = some (.target n)) : ops.fetch h l (base + i) = some (.ptr n) := by
  obtain ⟨v, hf, hl⟩ := hc.2 i _ hi
  cases (show v = .ptr n from hl); exact hf

theorem CodeAt.voidCell {l base : Nat} {h : H} {S : Array Cell} {code : List BC} (hc : CodeAt D h S l base code)
    (i : Nat) (hi : code[i]? = some .void) : ops.fetch h l (base + i) = some .void := by
  obtain ⟨v, hf, hl⟩ := hc.2 i _ hi
  cases (show v = .void from hl); exact hf

theorem All2.mono {α β : Type} {R R' : α → β → Prop} (f : ∀ a b, R a b → R' a b) :
    ∀ {l l'}, All2 R l l' → All2 R' l l'
  | _, _, .nil => .nil
  | _, _, .cons h t => .cons (f _ _ h) (All2.mono f t)

theorem All2.length_eq {α β : Type} {R : α → β → Prop} : ∀ {l l'}, All2 R l l' → l.length = l'.length
  | _, _, .nil => rfl
  | _, _, .cons _ t => by simp [All2.length_eq t]

/-! ## what a run of compiled code establishes -/

/-- running the code of an expression: `len` cells consumed, the live stack as before, a representation
    of the value in `acc`, the heap represents the new state -/
structure ExprRun (D : RepData ops) (s : MSt H) (len : Nat) (σ σ' : SSt) (w : Val) (s' : MSt H) : Prop where
  steps : Steps ops s s'
  ipL : s'.ipL = s.ipL
  ipO : s'.ipO = s.ipO + len
  bp : s'.bp = s.bp
  ep : s'.ep = s.ep
  stack : LiveEq s.stack s'.stack
  swf : SWF s'.stack
  acc : D.VR s'.heap σ'.store s'.acc w
  sr : SR D s'.heap σ'
  ev : Evolves D s.ipL s.heap σ.store s'.heap σ'.store

/-- running the code of an operand list: the values `vs` have been pushed, first operand deepest -/
structure ArgsRun (D : RepData ops) (s : MSt H) (len : Nat) (σ σ' : SSt) (ws : List Val) (vs : List VCell)
    (s' : MSt H) : Prop where
  steps : Steps ops s s'
  ipL : s'.ipL = s.ipL
  ipO : s'.ipO = s.ipO + len
  bp : s'.bp = s.bp
  ep : s'.ep = s.ep
  stack : LiveEq (pushAll s.stack vs) s'.stack
  swf : SWF s'.stack
  vals : All2 (D.VR s'.heap σ'.store) vs ws
  sr : SR D s'.heap σ'
  ev : Evolves D s.ipL s.heap σ.store s'.heap σ'.store

/-- the statement for expressions, at compiler fuel `fuel` -/
def ExprOK (D : RepData ops) (fuel : Nat) : Prop :=
  ∀ cst base tail e cst' code, Frag e → compileExpr fuel cst c0 base tail e = .ok (cst', code) →
  ∀ n (σ : SSt) w (σ' : SSt), (evalN n).eval e [] σ = .ok w σ' →
  ∀ s : MSt H, CodeAt D s.heap σ.store s.ipL base code → s.ipO = base → SR D s.heap σ → SWF s.stack →
  ∃ s', ExprRun D s code.length σ σ' w s'

/-- the statement for operand lists -/
def ArgsOK (D : RepData ops) (fuel : Nat) : Prop :=
  ∀ cst base rest cst' code k, FragList rest → compileArgs fuel cst c0 base rest = .ok (cst', code, k) →
  ∀ n (σ : SSt) es ws (σ' : SSt), properList rest = some es → evalArgs (evalN n) [] es σ = .ok ws σ' →
  ∀ s : MSt H, CodeAt D s.heap σ.store s.ipL base code → s.ipO = base → SR D s.heap σ → SWF s.stack →
  ∃ s' vs, ArgsRun D s code.length σ σ' ws vs s' ∧ k = vs.length

/-! ## instructions on loaded code -/

/-- `MOV-IMMEDIATE <void> %acc` -/
theorem run_movImm_void {s : MSt H} {S : Array Cell}
    (hc : CodeAt D s.heap S s.ipL s.ipO [.op .movImm, .void, .acc]) :
    step ops s = .ok ({ s with acc := .void, ipO := s.ipO + 3 }, false) :=
  step_movImm_acc hc.1 (hc.op 0 rfl) (hc.voidCell 1 rfl) (by intro o h; cases h) (hc.accCell 2 rfl)

/-- `MOV-IMMEDIATE <datum> %acc` -/
theorem run_movImm_datum (s : MSt H) {S : Array Cell} {d : Datum}
    (hc : CodeAt D s.heap S s.ipL s.ipO [.op .movImm, .datum d, .acc]) :
    ∃ v, step ops s = .ok ({ s with acc := v, ipO := s.ipO + 3 }, false) ∧
      ∀ w, atomVal d = some w → D.VR s.heap S v w := by
  obtain ⟨v, hf, hl⟩ := hc.2 1 (.datum d) rfl
  exact ⟨v, step_movImm_acc hc.1 (hc.op 0 rfl) hf hl.1 (hc.accCell 2 rfl), hl.2⟩

/-! ## stages 1 and 2: constants, quoted atoms, global references -/

/-- any form whose code is `MOV-IMMEDIATE d %acc` and whose meaning is `quoteVal d` for atomic `d` -/
theorem run_atom {s : MSt H} {σ σ' : SSt} {w : Val} {d : Datum} (hd : IsAtom d)
    (hq : quoteVal d σ = .ok w σ')
    (hc : CodeAt D s.heap σ.store s.ipL s.ipO [.op .movImm, .datum d, .acc])
    (hsr : SR D s.heap σ) (hw : SWF s.stack) :
    ∃ s', ExprRun D s 3 σ σ' w s' := by
  obtain ⟨ha, rfl⟩ := quoteVal_atom hd hq
  obtain ⟨v, hs, hv⟩ := run_movImm_datum s hc
  exact ⟨_, ⟨Steps.one hs, rfl, rfl, rfl, rfl, LiveEq.refl _, hw, hv w ha, hsr, Evolves.refl _ _ _⟩⟩

/-- global variable reference -/
theorem run_sym (L : RepLaws D) {s : MSt H} {σ σ' : SSt} {w : Val} {x : Text} {r : Spec.Eval.Rec}
    (he : evalStep r (.sym x) [] σ = .ok w σ')
    (hc : CodeAt D s.heap σ.store s.ipL s.ipO [.op .mov, .global x, .acc])
    (hsr : SR D s.heap σ) (hw : SWF s.stack) :
    ∃ s', ExprRun D s 3 σ σ' w s' := by
  obtain ⟨hl, rfl⟩ := evalStep_sym_inv he
  have hv := hsr.bound x w (hc.globalCell 1 rfl).1 hl
  have hs := step_mov_glob_acc hc.1 (hc.op 0 rfl) (hc.globalCell 1 rfl).2 (L.ne_undefined _ _ _ _ hv)
    (hc.accCell 2 rfl)
  exact ⟨_, ⟨Steps.one hs, rfl, rfl, rfl, rfl, LiveEq.refl _, hw, hv, hsr, Evolves.refl _ _ _⟩⟩

/-! ## stage 3: assignment to a global (`set!`, and the store half of `define`) -/

/-- the representation after `globals[x] := v` -/
theorem SR.insert (L : RepLaws D) {h : H} {σ : SSt} {x : Text} {v : VCell} {w : Val}
    (hsr : SR D h σ) (hx : D.named x) (hv : D.VR h σ.store v w) :
    SR D (ops.globPut h (D.slot x) v) { σ with globals := insertG x w σ.globals } := by
  refine ⟨fun y u hny hy => ?_, fun y hny hy => ?_, L.globPut_SRx _ _ _ _ hsr.extra⟩
  · rw [Spec.Eval.lookup_insertG] at hy
    rw [L.glob_get_put _ _ _ _ _ hsr.extra hx]
    by_cases hyx : y = x
    · subst hyx
      simp only [BEq.rfl, if_true] at hy
      cases hy
      simp only [if_true]
      exact L.globPut_VR _ _ _ _ _ _ hv
    · have hne : D.slot y ≠ D.slot x := fun e => hyx (L.slot_inj _ _ hny hx e)
      have hb : (y == x) = false := by simpa using hyx
      simp only [hb, Bool.false_eq_true, if_false] at hy
      simp only [hne, if_false]
      exact L.globPut_VR _ _ _ _ _ _ (hsr.bound y u hny hy)
  · rw [Spec.Eval.lookup_insertG] at hy
    by_cases hyx : y = x
    · subst hyx; simp at hy
    · have hne : D.slot y ≠ D.slot x := fun e => hyx (L.slot_inj _ _ hny hx e)
      have hb : (y == x) = false := by simpa using hyx
      simp only [hb, Bool.false_eq_true, if_false] at hy
      rw [L.glob_get_put _ _ _ _ _ hsr.extra hx]
      simp only [hne, if_false]
      exact hsr.unbound y hny hy

/-- `MOV %acc <global x>; MOV-IMMEDIATE <void> %acc` after the value has been computed -/
theorem run_store (L : RepLaws D) {s : MSt H} {σ : SSt} {w : Val} {x : Text}
    (hc : CodeAt D s.heap σ.store s.ipL s.ipO [.op .mov, .acc, .global x, .op .movImm, .void, .acc])
    (hacc : D.VR s.heap σ.store s.acc w) (hsr : SR D s.heap σ) (hw : SWF s.stack) :
    ∃ s', ExprRun D s 6 σ { σ with globals := insertG x w σ.globals } .void s' := by
  have h1 := step_mov_acc_glob hc.1 (hc.op 0 rfl) (hc.accCell 1 rfl) (hc.globalCell 2 rfl).2
  have hev := evolves_globPut L s.ipL s.heap σ.store (D.slot x) s.acc
  have hc2 : CodeAt D (ops.globPut s.heap (D.slot x) s.acc) σ.store s.ipL (s.ipO + 3) [.op .movImm, .void, .acc] :=
    (CodeAt.right (a := [.op .mov, .acc, .global x]) hc).evolve hev
  have h2 := run_movImm_void (s := { s with heap := ops.globPut s.heap (D.slot x) s.acc, ipO := s.ipO + 3 }) hc2
  refine ⟨_, ⟨.cons h1 (Steps.one h2), rfl, rfl, rfl, rfl, LiveEq.refl _, hw, L.void _ _, ?_, hev⟩⟩
  exact SR.insert L hsr (hc.globalCell 2 rfl).1 hacc

end Marwood.Lemmas.CompileCorrect
