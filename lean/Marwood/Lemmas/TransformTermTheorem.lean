import Marwood.Lemmas.TransformTermExpand
import Marwood.Lemmas.TransformFuel
/-!
# T17.2: `expand` and `transform` terminate for every transformer `Transform::try_new` accepts

`expand_okT_fuel` — on a template of the accepted shape, with `n` bindings, fuel
`2·(n+1)·|template|` is enough. `expand_terminates_accepted` instantiates it for the rules of an
accepted transformer; `transform_terminates_accepted` adds the matcher (`3·|use|+1`, and it produces
at most `|use|` bindings).
-/
namespace Marwood.Transform
open Marwood

/-- explicit fuel for `expand` on template `T` with `n` bindings in the environment -/
def expandFuel (T : Datum) (n : Nat) : Nat := 2 * (n + 1) * dsize T

theorem expandFuel_mono (T : Datum) {n m : Nat} (h : n ≤ m) : expandFuel T n ≤ expandFuel T m := by
  unfold expandFuel
  exact Nat.mul_le_mul_right _ (by omega)

end Marwood.Transform

namespace Marwood.Transform.Term
open Marwood

/-! ## One group -/

theorem group_step (ell : Datum) (p : Pattern)
    (hsub : ∀ c, p.isExpandedVariable c = true → p.isVariable c = true) (n : Nat)
    (cur : Datum) (rest : List Datum) (s : Text) (hexp : p.isExpandedVariable (.sym s) = true)
    (hocc : occ s cur = true) (hng : ng ell cur = true) (hpk : peekIs ell rest = true)
    (g : Nat) (v : List Datum) (env : PEnv) (hinv : InvAll n env) (hD : 2 * dsize cur ≤ g + 1)
    (hsucc : ∀ v env1, InvAll n env1 → cursor (.sym s) env < cursor (.sym s) env1 →
      expandLoop ell p g cur rest v env1 ≠ .fuel)
    (hexit : ∀ t rest' v env1, rest.tail = t :: rest' → InvAll n env1 →
      expandLoop ell p g t rest' v env1 ≠ .fuel) :
    expandLoop ell p (g + 1) cur rest v env ≠ .fuel := by
  rw [expandLoop_succ]
  have h1 := (expand_ng_fuel ell p g).1 cur env hng hD
  cases hc : expand ell p g cur env with
  | ok r =>
    obtain ⟨o1, env1⟩ := r
    have hinv1 := (expand_inv ell p n g).1 _ _ _ _ hinv hc
    cases o1 with
    | some cell =>
      simp only [hpk, if_true]
      exact hsucc _ _ hinv1 (((expand_cursor_mono ell p hsub s hexp g).1 _ _ _ _ hng hc).2 hocc)
    | none =>
      simp only [hpk, Bool.not_true, Bool.false_eq_true, if_false]
      cases htl : rest.tail with
      | nil => simp
      | cons t rest' => exact hexit t rest' v _ htl (InvAll_reset hinv1)
  | err x => simp
  | panic m => simp
  | fuel => exact absurd hc h1

theorem group_terminates (ell : Datum) (p : Pattern)
    (hsub : ∀ c, p.isExpandedVariable c = true → p.isVariable c = true) (n : Nat)
    (cur : Datum) (rest : List Datum) (s : Text) (hexp : p.isExpandedVariable (.sym s) = true)
    (hocc : occ s cur = true) (hng : ng ell cur = true) (hpk : peekIs ell rest = true)
    (F W : Nat)
    (hk : ∀ g, g < F → ∀ t rest' v env, rest.tail = t :: rest' → InvAll n env → W ≤ g →
      expandLoop ell p g t rest' v env ≠ .fuel) :
    ∀ (m g : Nat) (v : List Datum) (env : PEnv), g ≤ F → InvAll n env →
      n - cursor (.sym s) env ≤ m → (m + 1) * (2 * dsize cur) + W ≤ g →
      expandLoop ell p g cur rest v env ≠ .fuel := by
  have hpos := dsize_pos cur
  intro m
  induction m with
  | zero =>
    intro g v env hg hinv hm hfuel
    cases g with
    | zero => omega
    | succ g =>
      refine group_step ell p hsub n cur rest s hexp hocc hng hpk g v env hinv (by omega) ?_ ?_
      · intro v1 env1 hinv1 hlt
        have := cursor_le hinv1 (.sym s)
        omega
      · intro t rest' v1 env1 htl hinv1
        exact hk g (by omega) t rest' v1 env1 htl hinv1 (by omega)
  | succ m ih =>
    intro g v env hg hinv hm hfuel
    have hmul : (m + 1 + 1) * (2 * dsize cur) = (m + 1) * (2 * dsize cur) + 2 * dsize cur :=
      Nat.succ_mul _ _
    cases g with
    | zero => omega
    | succ g =>
      refine group_step ell p hsub n cur rest s hexp hocc hng hpk g v env hinv (by omega) ?_ ?_
      · intro v1 env1 hinv1 hlt
        have := cursor_le hinv1 (.sym s)
        exact ih g v1 env1 (by omega) hinv1 (by omega) (by omega)
      · intro t rest' v1 env1 htl hinv1
        exact hk g (by omega) t rest' v1 env1 htl hinv1 (by omega)

/-! ## Whole templates -/

theorem okL_cons {p : Pattern} {ell cur : Datum} {rest : List Datum} (h : okL p ell (cur :: rest) = true) :
    (peekIs ell rest = true → ng ell cur = true ∧ hasExp p cur = true) ∧
    (peekIs ell rest = false → okT p ell cur = true) ∧ okL p ell rest = true := by
  simp only [okL, Bool.and_eq_true] at h
  refine ⟨fun hpk => ?_, fun hpk => ?_, h.2⟩
  · simpa [hpk] using h.1
  · simpa [hpk] using h.1

theorem okL_tail {p : Pattern} {ell : Datum} {l : List Datum} (h : okL p ell l = true) :
    okL p ell l.tail = true := by
  cases l with
  | nil => exact h
  | cons x xs => exact (okL_cons h).2.2

theorem okL_of_pair {p : Pattern} {ell a d : Datum} (h : okT p ell (.pair a d) = true) :
    okL p ell (a :: iterList d) = true := by
  simpa only [okL, okT, okL_iterList] using h

theorem expand_okT_fuel (ell : Datum) (p : Pattern)
    (hsub : ∀ c, p.isExpandedVariable c = true → p.isVariable c = true) (n K : Nat)
    (hK : K = 2 * (n + 1)) : ∀ f : Nat,
    (∀ T env, okT p ell T = true → InvAll n env → K * dsize T ≤ f + 1 →
      expand ell p f T env ≠ .fuel) ∧
    (∀ cur rest v env, okL p ell (cur :: rest) = true → InvAll n env →
      K * wsum (cur :: rest) ≤ f → expandLoop ell p f cur rest v env ≠ .fuel) := by
  have hK2 : 2 ≤ K := by omega
  intro f
  induction f using Nat.strongRecOn with
  | ind f ih =>
  cases f with
  | zero =>
    constructor
    · intro T env _ _ hf
      have := Nat.mul_le_mul hK2 (dsize_pos T)
      omega
    · intro cur rest v env _ _ hf
      have h1 : 1 ≤ wsum (cur :: rest) := by have := dsize_pos cur; simp only [wsum]; omega
      have := Nat.mul_le_mul hK2 h1
      omega
  | succ f =>
    constructor
    · intro T env hok hinv hf
      cases hT : T with
      | pair a d =>
        rw [hT] at hok hf
        rw [expand_pair]
        refine (ih f (Nat.lt_succ_self f)).2 a (iterList d) [] env (okL_of_pair hok) hinv ?_
        have h1 : wsum (a :: iterList d) ≤ dsize a + dsize d := by
          have := wsum_iterList_le d; simp only [wsum]; omega
        have h2 := Nat.mul_le_mul_left K h1
        have h3 : K * dsize (.pair a d) = K * (dsize a + dsize d) + K := by
          simp only [dsize]; rw [Nat.mul_add, Nat.mul_one]
        omega
      | sym y =>
        rw [expand_sym]
        split
        · exact getBinding_ne_fuel _ _ _
        · simp
      | _ => rw [expand_atom _ _ _ _ _ rfl rfl]; simp
    · intro cur rest v env hok hinv hf
      obtain ⟨hgrp, hplain, hokrest⟩ := okL_cons hok
      have hsplit : K * wsum (cur :: rest) = K * dsize cur + K * wsum rest := by
        simp only [wsum]; rw [Nat.mul_add]
      have hKc := Nat.mul_le_mul hK2 (dsize_pos cur)
      by_cases hpk : peekIs ell rest = true
      · -- a group
        obtain ⟨hng, hhas⟩ := hgrp hpk
        obtain ⟨s, hexp, hocc⟩ := hasExp_occ p cur hhas
        have htl := Nat.mul_le_mul_left K (wsum_tail_le rest)
        have hconv : (n + 1) * (2 * dsize cur) = K * dsize cur := by
          rw [hK, Nat.mul_left_comm, Nat.mul_assoc]
        refine group_terminates ell p hsub n cur rest s hexp hocc hng hpk (f + 1) (K * wsum rest.tail)
          ?_ n (f + 1) v env (Nat.le_refl _) hinv (Nat.sub_le _ _) (by omega)
        intro g hg t rest' v1 env1 htail hinv1 hW
        refine (ih g hg).2 t rest' v1 env1 ?_ hinv1 (by rw [← htail]; exact hW)
        rw [← htail]; exact okL_tail hokrest
      · have hpk : peekIs ell rest = false := by simpa using hpk
        have hokc := hplain hpk
        have h1 := (ih f (Nat.lt_succ_self f)).1 cur env hokc hinv (by omega)
        rw [expandLoop_succ]
        cases hc : expand ell p f cur env with
        | ok r =>
          obtain ⟨o1, env1⟩ := r
          have hinv1 := (expand_inv ell p n f).1 _ _ _ _ hinv hc
          cases o1 with
          | none => simp [hpk]
          | some cell =>
            simp only [hpk, Bool.false_eq_true, if_false]
            cases rest with
            | nil => simp
            | cons t rest' =>
              simp only
              exact (ih f (Nat.lt_succ_self f)).2 _ _ _ _ hokrest hinv1 (by omega)
        | err x => simp
        | panic m => simp
        | fuel => exact absurd hc h1

/-- `expand` never answers an error by itself -/
theorem expand_ne_err (ell : Datum) (p : Pattern) : ∀ f : Nat,
    (∀ T env e, expand ell p f T env ≠ .err e) ∧
    (∀ cur rest v env e, expandLoop ell p f cur rest v env ≠ .err e) := by
  intro f
  induction f with
  | zero =>
    constructor
    · intro T env e; rw [expand_zero]; simp
    · intro cur rest v env e; rw [expandLoop_zero]; simp
  | succ f ih =>
    obtain ⟨ih1, ih2⟩ := ih
    constructor
    · intro T env e
      cases hT : T with
      | pair a d => rw [expand_pair]; exact ih2 _ _ _ _ _
      | sym y =>
        rw [expand_sym]
        split
        · unfold PEnv.getBinding
          split
          · simp
          · split
            · intro h
              have := getExpandedBinding_ne_err env (.sym y) e
              exact this h
            · simp
        · simp
      | _ => rw [expand_atom _ _ _ _ _ rfl rfl]; simp
    · intro cur rest v env e
      rw [expandLoop_succ]
      cases hc : expand ell p f cur env with
      | ok r =>
        obtain ⟨o1, env1⟩ := r
        cases o1 with
        | none =>
          simp only
          split
          · simp
          · split
            · exact ih2 _ _ _ _ _
            · simp
        | some cell =>
          simp only
          split
          · exact ih2 _ _ _ _ _
          · split
            · exact ih2 _ _ _ _ _
            · simp
      | err x => exact absurd hc (ih1 _ _ _)
      | panic m => simp
      | fuel => simp

end Marwood.Transform.Term

namespace Marwood.Transform
open Marwood Marwood.Transform.Term

/-! ## The theorems -/

/-- **`expand` terminates on every rule of every accepted transformer**: with `B` the bindings the
    matcher produced, fuel `expandFuel template |B| = 2·(|B|+1)·|template|` is enough. -/
theorem expand_terminates_accepted (f0 : Nat) (d : Datum) (t : Transform)
    (hdef : Transform.tryNew f0 d = .ok t) (r : Pattern × Datum) (hr : r ∈ t.rules)
    (hsub : ∀ c, r.1.isExpandedVariable c = true → r.1.isVariable c = true)
    (B : Bindings) (fuel : Nat) (hf : expandFuel r.2 B.length ≤ fuel) :
    expand t.ellipsis r.1 fuel r.2 (PEnv.new r.1 B) ≠ .fuel := by
  obtain ⟨s, hte, _, hrules⟩ := Transform.tryNew_ok hdef
  have hok := ruleOK_okT s (hrules r hr)
  rw [hte]
  refine (expand_okT_fuel s.ell r.1 hsub B.length _ rfl fuel).1 r.2 _ hok (InvAll_new r.1 B) ?_
  unfold expandFuel at hf
  omega

/-- the same, spelling out the possible answers: a result or a panic (the slice in
    `get_expanded_binding`), never fuel exhaustion and never an error -/
theorem expand_terminates_accepted' (f0 : Nat) (d : Datum) (t : Transform)
    (hdef : Transform.tryNew f0 d = .ok t) (r : Pattern × Datum) (hr : r ∈ t.rules)
    (hsub : ∀ c, r.1.isExpandedVariable c = true → r.1.isVariable c = true)
    (B : Bindings) (fuel : Nat) (hf : expandFuel r.2 B.length ≤ fuel) :
    (∃ o, expand t.ellipsis r.1 fuel r.2 (PEnv.new r.1 B) = .ok o) ∨
    (∃ site, expand t.ellipsis r.1 fuel r.2 (PEnv.new r.1 B) = .panic site) := by
  have h1 := expand_terminates_accepted f0 d t hdef r hr hsub B fuel hf
  have h2 := (expand_ne_err t.ellipsis r.1 fuel).1 r.2 (PEnv.new r.1 B)
  cases hc : expand t.ellipsis r.1 fuel r.2 (PEnv.new r.1 B) with
  | ok o => exact Or.inl ⟨o, rfl⟩
  | panic m => exact Or.inr ⟨m, rfl⟩
  | err e => exact absurd hc (h2 e)
  | fuel => exact absurd hc h1

end Marwood.Transform

namespace Marwood.Transform.Term
open Marwood

/-! ## The matcher produces at most `|use|` bindings -/

theorem match_bindings_aux (ell : Datum) (lits : List Datum) : ∀ f : Nat,
    (∀ p e env b env', patternMatch ell lits f p e env = .ok (b, env') →
      env'.length ≤ env.length + dsize e) ∧
    (∀ es ps cur inEll env b env', matchLoop ell lits f es ps cur inEll env = .ok (b, env') →
      env'.length ≤ env.length + wsum es) := by
  intro f
  induction f with
  | zero =>
    constructor
    · intro p e env b env' h; simp [patternMatch] at h
    · intro es ps cur inEll env b env' h; simp [matchLoop] at h
  | succ f ih =>
    obtain ⟨ih1, ih2⟩ := ih
    constructor
    · intro p e env b env' h
      unfold patternMatch at h
      split at h
      · cases h; omega
      · split at h
        · cases h; omega
        · have := ih2 _ _ _ _ _ _ _ h
          have := wsum_iterList_le e
          omega
    · intro es ps cur inEll env b env' h
      cases es with
      | nil =>
        unfold matchLoop at h
        simp only at h
        repeat' split at h
        all_goals (cases h; simp [wsum])
      | cons e es =>
        have hpos := dsize_pos e
        unfold matchLoop at h
        simp only [wsum] at h ⊢
        split at h
        · cases h; omega
        · split at h
          · split at h
            · split at h
              · cases h; omega
              · have := ih2 _ _ _ _ _ _ _ h; omega
            · split at h
              · have := ih2 _ _ _ _ _ _ _ h
                simp only [List.length_append, List.length_singleton] at this
                omega
              · have := ih2 _ _ _ _ _ _ _ h; omega
          · split at h
            · rename_i env1 hpm
              have h1 := ih1 _ _ _ _ _ hpm
              have := ih2 _ _ _ _ _ _ _ h
              omega
            · rename_i env1 hpm
              have h1 := ih1 _ _ _ _ _ hpm
              cases h; omega
            all_goals cases h
          · split at h
            · cases h; omega
            · have := ih2 _ _ _ _ _ _ _ h; omega

/-- the matcher adds at most one binding per node of the expression it consumes -/
theorem patternMatch_bindings (ell : Datum) (lits : List Datum) (f : Nat) (p e : Datum)
    (b : Bool) (B : Bindings) (h : patternMatch ell lits f p e [] = .ok (b, B)) : B.length ≤ dsize e := by
  have := (match_bindings_aux ell lits f).1 p e [] b B h
  simpa using this

theorem transformRules_terminates (t : Transform) (fuel : Nat) (u : Datum)
    (hf1 : 3 * dsize u + 1 ≤ fuel) : ∀ (rules : List (Pattern × Datum)),
    (∀ r ∈ rules, okT r.1 t.ellipsis r.2 = true ∧
      (∀ c, r.1.isExpandedVariable c = true → r.1.isVariable c = true) ∧
      expandFuel r.2 (dsize u) ≤ fuel) →
    transformRules fuel t u rules ≠ .fuel := by
  intro rules
  induction rules with
  | nil => intro _; simp [transformRules]
  | cons r rules ih =>
    intro hall
    obtain ⟨pat, template⟩ := r
    obtain ⟨hok, hsub, hfr⟩ := hall (pat, template) (by simp)
    have ih' := ih (fun r hr => hall r (List.mem_cons_of_mem _ hr))
    unfold transformRules
    cases hp : cdrE pat.expr with
    | ok pcdr =>
      simp only
      cases hu : cdrE u with
      | ok ecdr =>
        simp only
        have hsz : dsize ecdr ≤ dsize u := by
          cases u <;> simp [cdrE] at hu
          subst hu
          simp only [dsize]; omega
        obtain ⟨res, hres⟩ := patternMatch_terminates t.ellipsis t.literals pcdr ecdr [] fuel (by omega)
        obtain ⟨b, B⟩ := res
        rw [hres]
        cases b with
        | false => exact ih'
        | true =>
          simp only
          have hB := patternMatch_bindings _ _ _ _ _ _ _ hres
          have hfuel : expandFuel template B.length ≤ fuel :=
            Nat.le_trans (expandFuel_mono template (Nat.le_trans hB hsz)) hfr
          have hne := (expand_okT_fuel t.ellipsis pat hsub B.length _ rfl fuel).1 template _ hok
            (InvAll_new pat B) (by unfold expandFuel at hfuel; omega)
          cases hc : expand t.ellipsis pat fuel template (PEnv.new pat B) with
          | ok o =>
            obtain ⟨o1, env1⟩ := o
            cases o1 <;> simp
          | err e => simp
          | panic m => simp
          | fuel => exact absurd hc hne
      | err e => simp
      | panic m => simp
      | fuel => simp [cdrE] at hu; cases u <;> simp at hu
    | err e => simp
    | panic m => simp
    | fuel => cases hpe : pat.expr <;> simp [cdrE, hpe] at hp

end Marwood.Transform.Term

namespace Marwood.Transform
open Marwood Marwood.Transform.Term

/-- **`transform` terminates for every accepted transformer and every use**: the matcher needs
    `3·|use| + 1`, it produces at most `|use|` bindings, and `expand` then needs
    `expandFuel template |use|` for the rule that fired. -/
theorem transform_terminates_accepted (f0 : Nat) (d : Datum) (t : Transform)
    (hdef : Transform.tryNew f0 d = .ok t)
    (hsub : ∀ r ∈ t.rules, ∀ c, r.1.isExpandedVariable c = true → r.1.isVariable c = true)
    (u : Datum) (fuel : Nat) (hf1 : 3 * dsize u + 1 ≤ fuel)
    (hf2 : ∀ r ∈ t.rules, expandFuel r.2 (dsize u) ≤ fuel) :
    t.transform fuel u ≠ .fuel := by
  obtain ⟨s, hte, _, hrules⟩ := Transform.tryNew_ok hdef
  unfold Transform.transform
  split
  · simp
  · refine transformRules_terminates t fuel u hf1 t.rules (fun r hr => ⟨?_, hsub r hr, hf2 r hr⟩)
    rw [hte]
    exact ruleOK_okT s (hrules r hr)

end Marwood.Transform

namespace Marwood.Transform.Term
open Marwood

/-! ## The fuel the driver runs with (`useFuel`) is enough -/

theorem mem_iterList_dsize {it d : Datum} (h : it ∈ iterList d) : dsize it ≤ dsize d := by
  have hw : ∀ (l : List Datum), it ∈ l → dsize it ≤ wsum l := by
    intro l
    induction l with
    | nil => intro h; cases h
    | cons x xs ih =>
      intro h
      simp only [List.mem_cons] at h
      simp only [wsum]
      rcases h with rfl | h
      · omega
      · have := ih h; omega
  exact Nat.le_trans (hw _ h) (wsum_iterList_le d)

theorem cdrE_dsize {x y : Datum} (h : cdrE x = .ok y) : dsize y ≤ dsize x := by
  cases x <;> simp [cdrE] at h
  subst h; simp only [dsize]; omega

theorem carE_dsize {x y : Datum} (h : carE x = .ok y) : dsize y ≤ dsize x := by
  cases x <;> simp [carE] at h
  subst h; simp only [dsize]; omega

theorem rulesLoop_dsize (f : Nat) (ell : Datum) (lits : List Datum) (N : Nat) :
    ∀ (items : List Datum) (acc rs : List (Pattern × Datum)),
      rulesLoop f ell lits items acc = .ok rs → (∀ r ∈ acc, dsize r.2 ≤ N) →
      (∀ it ∈ items, dsize it ≤ N) → ∀ r ∈ rs, dsize r.2 ≤ N := by
  intro items
  induction items with
  | nil => intro acc rs h hacc _; simp only [rulesLoop] at h; cases h; exact hacc
  | cons it rest ih =>
    intro acc rs h hacc hitems
    simp only [rulesLoop, bind, Res.bind] at h
    split at h
    · rename_i pattern hpat
      split at h
      · rename_i template htmpl
        have htsz : dsize template ≤ N := by
          have hit := hitems it (by simp)
          cases hcd : cdrE it with
          | ok c =>
            rw [hcd] at htmpl
            have h1 := cdrE_dsize hcd
            have h2 := carE_dsize (x := c) (by simpa using htmpl)
            omega
          | err e => rw [hcd] at htmpl; cases htmpl
          | panic m => rw [hcd] at htmpl; cases htmpl
          | fuel => rw [hcd] at htmpl; cases htmpl
        split at h
        · split at h
          · rename_i pat _
            split at h
            · split at h
              · refine ih _ _ h ?_ (fun x hx => hitems x (List.mem_cons_of_mem _ hx))
                intro r hr
                rcases List.mem_append.mp hr with hr | hr
                · exact hacc r hr
                · simp only [List.mem_singleton] at hr
                  subst hr
                  exact htsz
              all_goals cases h
            all_goals cases h
          all_goals cases h
        all_goals cases h
      all_goals cases h
    all_goals cases h

/-- every template of an accepted transformer is a part of the definition it was read from -/
theorem tryNew_template_dsize {f : Nat} {d : Datum} {t : Transform} (h : Transform.tryNew f d = .ok t) :
    ∀ r ∈ t.rules, dsize r.2 ≤ dsize d := by
  unfold Transform.tryNew at h
  split at h
  · rename_i x keyword sr hiter
    have hsr : dsize sr ≤ dsize d := mem_iterList_dsize (by rw [hiter]; simp)
    split at h
    · cases h
    · simp only [bind, Res.bind] at h
      split at h
      · split at h
        · cases h
        · split at h
          · rename_i sr1 hsr1
            have h1 := cdrE_dsize hsr1
            split at h
            · rename_i hd1 hcar1
              split at h
              · rename_i pr hpr
                obtain ⟨ellipsis, sr2⟩ := pr
                have h2 : dsize sr2 ≤ dsize sr1 := by
                  cases hd1 with
                  | sym e =>
                    simp only at hpr
                    cases hc : cdrE sr1 with
                    | ok dd =>
                      simp [hc] at hpr
                      rw [← hpr.2]; exact cdrE_dsize hc
                    | _ => simp [hc] at hpr
                  | _ => simp at hpr; all_goals (rw [← hpr.2]; exact Nat.le_refl _)
                simp only at h
                split at h
                · split at h
                  · cases h
                  · split at h
                    · cases h
                    · split at h
                      · rename_i sr3 hsr3
                        have h3 := cdrE_dsize hsr3
                        split at h
                        · rename_i rules hrules
                          cases h
                          refine rulesLoop_dsize f _ _ (dsize d) _ [] rules hrules (by simp) ?_
                          intro it hit
                          have := mem_iterList_dsize hit
                          omega
                        all_goals cases h
                      all_goals cases h
                all_goals cases h
              all_goals cases h
            all_goals cases h
          all_goals cases h
      all_goals cases h
  · cases h

end Marwood.Transform.Term

namespace Marwood.Transform
open Marwood Marwood.Transform.Term

/-- **the driver's fuel is enough**: `transform` run with `useFuel d u` on a transformer read from
    definition `d` never runs out of fuel -/
theorem transform_useFuel_terminates (f0 : Nat) (d : Datum) (t : Transform)
    (hdef : Transform.tryNew f0 d = .ok t)
    (hsub : ∀ r ∈ t.rules, ∀ c, r.1.isExpandedVariable c = true → r.1.isVariable c = true)
    (u : Datum) : t.transform (useFuel d u) u ≠ .fuel := by
  have hmul : useFuel d u = 2 * (dsize u + 2) * dsize d + 2 * (dsize u + 2) * 2 := by
    unfold useFuel
    rw [Nat.mul_assoc, Nat.mul_comm (dsize d + 2), ← Nat.mul_assoc, Nat.mul_add]
  refine transform_terminates_accepted f0 d t hdef hsub u _ ?_ ?_
  · have : 2 * (dsize u + 2) * 2 = 4 * dsize u + 8 := by omega
    omega
  · intro r hr
    have hsz := tryNew_template_dsize hdef r hr
    unfold expandFuel
    have h1 : 2 * (dsize u + 1) * dsize r.2 ≤ 2 * (dsize u + 2) * dsize d :=
      Nat.mul_le_mul (by omega) hsz
    omega

end Marwood.Transform

namespace Marwood.Transform.Term
open Marwood

/-! ## The hypotheses are satisfiable: an accepted definition with an ellipsis template -/

/-- `(define-syntax m (syntax-rules () ((_ (a b) ...) ((b a) ...))))` -/
def swapDef : Datum :=
  Datum.ofList [.sym ['d'], .sym ['m'], Datum.ofList [syntaxRulesSym, .nil,
    Datum.ofList [Datum.ofList [.sym ['_'], Datum.ofList [.sym ['a'], .sym ['b']], defaultEllipsis],
                  Datum.ofList [Datum.ofList [.sym ['b'], .sym ['a']], defaultEllipsis]]]]

/-- `((b a) ...)` -/
def swapTemplate : Datum := Datum.ofList [Datum.ofList [.sym ['b'], .sym ['a']], defaultEllipsis]

def swapPat : Pattern :=
  { expr := Datum.ofList [.sym ['_'], Datum.ofList [.sym ['a'], .sym ['b']], defaultEllipsis],
    variables := [.sym ['a'], .sym ['b']], expanded := [.sym ['a'], .sym ['b']],
    ellipsis := defaultEllipsis, literals := [] }

def swapT : Transform :=
  { keyword := .sym ['m'], ellipsis := defaultEllipsis, rules := [(swapPat, swapTemplate)], literals := [] }

/-- `(m (1 2) (3 4))` -/
def swapUse : Datum :=
  Datum.ofList [.sym ['m'], Datum.ofList [.num (.fix 1), .num (.fix 2)],
    Datum.ofList [.num (.fix 3), .num (.fix 4)]]

theorem swapDef_accepted : Transform.tryNew (defFuel swapDef) swapDef = .ok swapT := by decide

theorem swapT_hsub : ∀ r ∈ swapT.rules, ∀ c, r.1.isExpandedVariable c = true → r.1.isVariable c = true := by
  intro r hr c h
  simp only [swapT, List.mem_singleton] at hr
  subst hr
  exact h

/-- the accepted shape, computed: the group `(b a) ...` is group-free inside and mentions `b` -/
example : okT swapPat defaultEllipsis swapTemplate = true := by decide

/-- `expand_terminates_accepted` applies: whatever bindings the matcher delivered -/
example (B : Bindings) (fuel : Nat) (hf : expandFuel swapTemplate B.length ≤ fuel) :
    expand swapT.ellipsis swapPat fuel swapTemplate (PEnv.new swapPat B) ≠ .fuel :=
  expand_terminates_accepted _ _ _ swapDef_accepted (swapPat, swapTemplate) (by simp [swapT])
    (swapT_hsub _ (by simp [swapT])) B fuel hf

/-- `transform_terminates_accepted` applies to the use `(m (1 2) (3 4))`, and the run it speaks
    about is a real expansion through the ellipsis: `((2 1) (4 3))` -/
example (fuel : Nat) (hf : 288 ≤ fuel) : swapT.transform fuel swapUse ≠ .fuel := by
  have hu : dsize swapUse = 15 := by decide
  refine transform_terminates_accepted _ _ _ swapDef_accepted swapT_hsub swapUse fuel (by omega) ?_
  intro r hr
  simp only [swapT, List.mem_singleton] at hr
  subst hr
  have : expandFuel swapTemplate (dsize swapUse) = 288 := by decide
  show expandFuel swapTemplate (dsize swapUse) ≤ fuel
  omega

example : swapT.transform 288 swapUse
    = .ok (Datum.ofList [Datum.ofList [.num (.fix 2), .num (.fix 1)],
                         Datum.ofList [.num (.fix 4), .num (.fix 3)]]) := by decide

end Marwood.Transform.Term
