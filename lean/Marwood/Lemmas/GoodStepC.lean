import Marwood.Lemmas.GoodBuiltin
/-!
# `Safe` as an invariant: the heap part of `run_one`, opcode by opcode (3): CALL TCALL ENTER
(closures, bare lambdas, continuations, and the builtins `apply`, `call/cc`, `eval`, generic;
the builtins and the stack inversions are in Lemmas/GoodBuiltin.lean)
-/
namespace Marwood.Lemmas.Good
open Marwood Marwood.Vm Marwood.Vm.Concrete Marwood.Lemmas.Sim
open Marwood.Heap (GcState WFHeap RootsOk vrefs vrefsList crefs)
open StepC

section
variable {ext : ExtOps} {s0 : St CHeap}

theorem hg_call {s' : St CHeap} {b : Bool} (eg : ExtGood ext) (g : GoodI s0) (sd : StackDisc s0) (hop : opAt s0 .callAcc)
    (hx : exec (concreteOps ext) .callAcc (nx s0) = .ok (s', b)) (sm : Small s'.heap) :
    HG s'.heap ∧ plainGlob s'.acc = true := by
  unfold exec at hx
  obtain ⟨s1, h1, hx⟩ := bind_ok hx
  cases hx
  have hblk : ArgBlock (nx s0).stack (nx s0).stack.sp := sd.call (.inl hop)
  unfold stepCall at h1
  cases hc : (concreteOps ext).callee (nx s0).heap (nx s0).acc with
  | builtin id => rw [hc] at h1; exact runBuiltin_hg eg g.nx hblk h1 sm
  | continuation c => rw [hc] at h1; exact invokeCont_hg g.nx hblk h1
  | other => rw [hc] at h1; cases h1
  | closure lam env => rw [hc] at h1; cases h1; exact ⟨g.hg, g.accv⟩
  | lambda =>
    rw [hc] at h1
    obtain ⟨lam, _, h1⟩ := bind_ok h1
    cases h1
    exact ⟨g.hg, g.accv⟩

namespace StepC

/-- the closure / bare-lambda branch of TCALL: only the stack and the registers `bp`, `ip` change -/
theorem tcall_rest {s s' : St CHeap} {lam : Nat}
    (h : (do
      let argc ← (do let v ← s.stack.getOffset 0; asArgc v)
      let frameArgc ← (do let v ← s.stack.get (s.bp + 1); asArgc v)
      if argc = frameArgc then do
        let savedBp ← s.stack.get (s.bp + 4)
        let st ← tcallCopySame argc 0 s.bp s.stack
        let st := { st with sp := s.bp + 3 }
        let bp ← asBp savedBp
        (.ok { s with stack := st, bp := bp, ipL := lam, ipO := 0 } : Outcome (St CHeap))
      else do
        let savedSp := s.stack.sp
        let savedEp ← s.stack.get (s.bp + 2)
        let savedIp ← s.stack.get (s.bp + 3)
        let savedBp ← s.stack.get (s.bp + 4)
        let sp0 ← usub s.bp frameArgc "tcall: bp - frame_argc"
        let st := { s.stack with sp := sp0 }
        let st ← tcallCopyDiff argc savedSp st
        let st := ((st.push (.argc argc)).push savedEp).push savedIp
        let bp ← asBp savedBp
        .ok { s with stack := st, bp := bp, ipL := lam, ipO := 0 }) = .ok s') :
    s'.heap = s.heap ∧ s'.acc = s.acc := by
  obtain ⟨argc, _, h⟩ := bind_ok h
  obtain ⟨frameArgc, _, h⟩ := bind_ok h
  simp only at h
  split at h
  · obtain ⟨savedBp, _, h⟩ := bind_ok h
    obtain ⟨st, _, h⟩ := bind_ok h
    obtain ⟨bp, _, h⟩ := bind_ok h
    cases h
    exact ⟨rfl, rfl⟩
  · obtain ⟨savedEp, _, h⟩ := bind_ok h
    obtain ⟨savedIp, _, h⟩ := bind_ok h
    obtain ⟨savedBp, _, h⟩ := bind_ok h
    obtain ⟨sp0, _, h⟩ := bind_ok h
    obtain ⟨st, _, h⟩ := bind_ok h
    obtain ⟨bp, _, h⟩ := bind_ok h
    cases h
    exact ⟨rfl, rfl⟩

end StepC

theorem hg_tcall {s' : St CHeap} {b : Bool} (eg : ExtGood ext) (g : GoodI s0) (sd : StackDisc s0) (hop : opAt s0 .tcallAcc)
    (hx : exec (concreteOps ext) .tcallAcc (nx s0) = .ok (s', b)) (sm : Small s'.heap) :
    HG s'.heap ∧ plainGlob s'.acc = true := by
  unfold exec at hx
  obtain ⟨s1, h1, hx⟩ := bind_ok hx
  cases hx
  have hblk : ArgBlock (nx s0).stack (nx s0).stack.sp := sd.call (.inr hop)
  unfold stepTCall at h1
  cases hc : (concreteOps ext).callee (nx s0).heap (nx s0).acc with
  | builtin id => rw [hc] at h1; exact runBuiltin_hg eg g.nx hblk h1 sm
  | continuation c => rw [hc] at h1; exact invokeCont_hg g.nx hblk h1
  | other => rw [hc] at h1; cases h1
  | closure lam env =>
    rw [hc] at h1
    obtain ⟨lam', _, h1⟩ := bind_ok h1
    obtain ⟨e1, e2⟩ := tcall_rest h1
    rw [e1, e2]
    exact ⟨g.hg, g.accv⟩
  | lambda =>
    rw [hc] at h1
    obtain ⟨lam', _, h1⟩ := bind_ok h1
    obtain ⟨e1, e2⟩ := tcall_rest h1
    rw [e1, e2]
    exact ⟨g.hg, g.accv⟩

namespace StepC

/-- the closure a callee resolves to refers to allocated cells -/
theorem callee_closure_nf {s : St CHeap} (g : GoodI s) {lam env : Nat}
    (hc : callee s.heap s.acc = .closure lam env) : NF s.heap lam ∧ NF s.heap env := by
  have hr := roots_acc g.roots
  unfold callee at hc
  split at hc
  · rename_i p heq
    have hp : NF s.heap p := by
      rw [heq] at hr
      exact VRefsOk.ptr.mp hr
    split at hc
    · rename_i c hcell
      have hcl := g.hg.closed (hp.nonFree g.hg.wf hcell) hcell
      cases c with
      | val v =>
        cases v <;> simp only [calleeOfCell] at hc <;> cases hc
        exact ⟨hcl _ (by simp [eraseC, eraseV, crefs]), hcl _ (by simp [eraseC, eraseV, crefs])⟩
      | _ => simp only [calleeOfCell] at hc <;> cases hc
    · cases hc
  · rename_i l e heq
    cases hc
    rw [heq] at hr
    exact ⟨hr _ (by simp [eraseV, vrefs]), hr _ (by simp [eraseV, vrefs])⟩
  · cases hc
  · cases hc

/-- ENTER once the callee has been resolved -/
def enterBody (ops : HeapOps CHeap) (s : St CHeap) (lam : Nat) (cenv : Option Nat) : Outcome (St CHeap) :=
  match ops.lambdaInfo s.heap lam with
  | none => .err .expectedType
  | some info => do
    let a ← s.stack.getOffset (-2)
    let n ← asArgc a
    if n ≠ info.argc then .err .invalidNumArgs else do
    let st := s.stack.push (.basePtr s.bp)
    let bp ← usub st.sp 4 "enter: sp - 4"
    let s := { s with stack := st, bp := bp }
    match cenv with
    | none => .ok s
    | some env => do
      let (h, e) ← ops.makeActivation s.heap lam env s.bp s.stack
      .ok { s with heap := h, ep := e }

theorem stepEnter_eq (ops : HeapOps CHeap) (s : St CHeap) :
    stepEnter ops s =
      (match ops.callee s.heap s.acc with
        | .closure lam env => (.ok (lam, some env) : Outcome (Nat × Option Nat))
        | .lambda => do let p ← asPtr s.acc; .ok (p, none)
        | _ => .err .invalidBytecode) >>= fun p => enterBody ops s p.1 p.2 := by
  unfold stepEnter
  cases ops.callee s.heap s.acc <;> first | rfl | (generalize asPtr s.acc = x; cases x <;> rfl)

end StepC

theorem hg_enter {s' : St CHeap} {b : Bool} (g : GoodI s0) (sd : StackDisc s0) (hop : opAt s0 .enter)
    (hx : exec (concreteOps ext) .enter (nx s0) = .ok (s', b)) (sm : Small s'.heap) :
    HG s'.heap ∧ plainGlob s'.acc = true := by
  unfold exec at hx
  obtain ⟨s1, h1, hx⟩ := bind_ok hx
  cases hx
  have hblk : ArgBlock s0.stack (s0.stack.sp - 2) := sd.enter (.inl hop)
  rw [stepEnter_eq] at h1
  obtain ⟨⟨lam, cenv⟩, hce, h1⟩ := bind_ok h1
  unfold enterBody at h1
  simp only [concreteOps] at h1
  cases hla : lambdaAt s0.heap lam with
  | none => rw [hla] at h1; cases h1
  | some l =>
    rw [hla] at h1
    simp only [Option.map_some] at h1
    obtain ⟨a, ha, h1⟩ := bind_ok h1
    obtain ⟨n, hn, h1⟩ := bind_ok h1
    obtain ⟨hnl, h1⟩ := ite_err_ok h1
    obtain ⟨bp', hbp, h1⟩ := bind_ok h1
    cases cenv with
    | none => simp only at h1; cases h1; exact ⟨g.hg, g.accv⟩
    | some env =>
      simp only at h1
      obtain ⟨⟨h', e⟩, hma, h1⟩ := bind_ok h1
      cases h1
      -- the callee is a closure
      have hcal : callee s0.heap s0.acc = .closure lam env := by
        cases hc : (concreteOps ext).callee (nx s0).heap (nx s0).acc with
        | closure l2 e2 => rw [hc] at hce; cases hce; exact hc
        | lambda => rw [hc] at hce; obtain ⟨p, _, hce⟩ := bind_ok hce; cases hce
        | builtin id => rw [hc] at hce; cases hce
        | continuation c => rw [hc] at hce; cases hce
        | other => rw [hc] at hce; cases hce
      obtain ⟨_, hne⟩ := callee_closure_nf g hcal
      cases a <;> simp only [asArgc] at hn <;> cases hn
      have e2 : (-2 : Int) = -((2 : Nat) : Int) := rfl
      rw [e2] at ha
      obtain ⟨a1, a2⟩ := getOffset_inv ha
      obtain ⟨b1, b2⟩ := usub_inv hbp
      rw [push_sp] at b1 b2
      have hnl' : n = l.args.length := by simpa using hnl
      subst b2
      refine (fun r => ⟨r.1, g.accv⟩) (makeActivation_hg g.hg hne ?_ hma sm)
      intro l2 hl2 a v ha1 ha2 hv
      have : l2 = l := by rw [hla] at hl2; exact (Option.some.inj hl2).symm
      subst this
      have hsp : (nx s0).stack.sp = s0.stack.sp := rfl
      rw [hsp] at a1 a2 b1 ha2 hv
      rcases push_get (by omega) hv with hv | rfl
      · by_cases haa : a = l2.args.length
        · subst haa
          have : s0.stack.sp + 1 - 4 - (l2.args.length - l2.args.length) + 1 = s0.stack.sp - 2 := by omega
          rw [this] at hv
          have a2' : s0.stack.cells[s0.stack.sp - 2]? = some (VCell.argc n) := a2
          rw [a2'] at hv
          cases hv
          exact .of_addrFree _ rfl
        · have a2' : s0.stack.cells[s0.stack.sp - 2]? = some (VCell.argc n) := a2
          exact ⟨hblk n a2' _ v (by omega) (by omega) hv, roots_stack g.roots (by omega) hv⟩
      · exact .of_addrFree _ rfl

end

end Marwood.Lemmas.Good
