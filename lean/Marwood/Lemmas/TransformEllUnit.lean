import Marwood.Lemmas.TransformEllRep
import Marwood.Lemmas.TransformEllCursor
/-!
# One iteration of an ellipsis group: `expand` on the sub-template at stage `j`

All ellipsis variables of the sub-template have their cursor at stage `j`. If every one of them has a
`j`-th item, `expand` answers the instantiation of the sub-template with the bindings of iteration
`j` and moves exactly those cursors to stage `j + 1` (`unit_step`); if they are exhausted it answers
`None` (`unit_done`).
-/
namespace Marwood.Transform
open Marwood Marwood.Spec.Match

/-! ### unfolding `expand` -/

theorem expand_sym (ell : Datum) (p : Pattern) (f : Nat) (x : Text) (env : PEnv) :
    expand ell p (f + 1) (.sym x) env =
      if p.isVariable (.sym x) then env.getBinding p (.sym x) else .ok (some (.sym x), env) := by
  rw [expand]

theorem expand_pair (ell : Datum) (p : Pattern) (f : Nat) (a d : Datum) (env : PEnv) :
    expand ell p (f + 1) (.pair a d) env = expandLoop ell p f a (iterList d) [] env := by
  rw [expand]

theorem expandLoop_succ (ell : Datum) (p : Pattern) (f : Nat) (cur : Datum) (rest v : List Datum) (env : PEnv) :
    expandLoop ell p (f + 1) cur rest v env =
      (match expand ell p f cur env with
       | .ok (some cell, env) =>
         if peekIs ell rest then expandLoop ell p f cur rest (v ++ [cell]) env
         else
           match rest with
           | t :: rest => expandLoop ell p f t rest (v ++ [cell]) env
           | [] => .ok (some (Datum.ofList (v ++ [cell])), env)
       | .ok (none, env) =>
         if !peekIs ell rest then .ok (none, env)
         else
           match rest.tail with
           | t :: rest => expandLoop ell p f t rest v env.resetIters
           | [] => .ok (some (Datum.ofList v), env.resetIters)
       | .err x => .err x
       | .panic s => .panic s
       | .fuel => .fuel) := by
  rw [expandLoop]
  rfl

theorem expand_datum (ell : Datum) (p : Pattern) (f : Nat) (T : Datum) (env : PEnv)
    (h : isDatumPat T = true) : expand ell p (f + 1) T env = .ok (some T, env) := by
  cases T <;> simp [isDatumPat] at h <;> simp [expand]

theorem inst_datum (c : Ctx) (esc skip : Bool) (T : Datum) (b : Binds)
    (h : isDatumPat T = true) : inst c esc skip T b = .ok T := by
  cases T <;> simp [isDatumPat] at h <;> simp [inst]

theorem tmplSyms_datum (T : Datum) (h : isDatumPat T = true) : tmplSyms T = [] := by
  cases T <;> simp [isDatumPat] at h <;> rfl

/-! ### stages -/

/-- every ellipsis variable `x` has a cursor, at stage `σ x` -/
def Stage (B : Bindings) (ev : List Text) (iters : List (Datum × Option Nat)) (σ : Text → Nat) : Prop :=
  ∀ x ∈ ev, ∃ c, findIter (.sym x) iters = some c ∧ CurAt B x c (σ x)

def bump (σ : Text → Nat) (xs : List Text) : Text → Nat := fun x => if x ∈ xs then σ x + 1 else σ x

theorem bump_nil (σ : Text → Nat) : bump σ [] = σ := by
  funext x; simp [bump]

theorem bump_append (σ : Text → Nat) (xs ys : List Text) (h : ∀ x ∈ xs, x ∉ ys) :
    bump (bump σ xs) ys = bump σ (xs ++ ys) := by
  funext x
  simp only [bump, List.mem_append]
  by_cases hx : x ∈ xs
  · have := h x hx
    simp [hx, this]
  · simp [hx]

theorem tmplSyms_ofList_cons (a : Datum) (r : List Datum) :
    tmplSyms (Datum.ofList (a :: r)) = tmplSyms a ++ tmplSyms (Datum.ofList r) := by
  simp [Datum.ofList, tmplSyms]

theorem evSyms_ofList_cons (ev : List Text) (a : Datum) (r : List Datum) :
    evSyms ev (Datum.ofList (a :: r)) = evSyms ev a ++ evSyms ev (Datum.ofList r) := by
  simp [evSyms, tmplSyms_ofList_cons]

theorem evSyms_ofList_nil (ev : List Text) : evSyms ev (Datum.ofList []) = [] := by
  simp [evSyms, Datum.ofList, tmplSyms]

section unit
variable (s : Setup) (pat : Pattern) (ev : List Text) (B : Bindings) (bs : Binds)

/-- the hypotheses on the ellipsis variables of a sub-template at stage `j` -/
def Ready (σ : Text → Nat) (bj : Binds) (j : Nat) (T : Datum) : Prop :=
  ∀ x ∈ evSyms ev T, σ x = j ∧ ∃ d, (proj (.sym x) B)[j]? = some d ∧ bj.lookup x = some (.one d)

theorem unit_sym (hc : Corr pat ev B bs) (bj : Binds) (j : Nat)
    (hbj : ∀ x, x ∉ ev → bj.lookup x = bs.lookup x) (f : Nat) (x : Text)
    (iters : List (Datum × Option Nat)) (σ : Text → Nat) (o : Option Datum) (env' : PEnv)
    (hx : x ≠ s.es) (hst : Stage B ev iters σ) (hr : Ready ev B σ bj j (.sym x))
    (h : expand s.ell pat (f + 1) (.sym x) ⟨B, iters⟩ = .ok (o, env')) :
    ∃ d iters', o = some d ∧ env' = ⟨B, iters'⟩ ∧ Stage B ev iters' (bump σ (evSyms ev (.sym x))) ∧
      inst s.ctx false false (.sym x) bj = .ok d := by
  rw [expand_sym] at h
  cases hvar : pat.isVariable (.sym x) with
  | false =>
    simp only [hvar, Bool.false_eq_true, if_false] at h
    cases h
    obtain ⟨hl, hnev⟩ := hc.notVar x hvar
    refine ⟨.sym x, iters, rfl, rfl, ?_, ?_⟩
    · have : evSyms ev (.sym x) = [] := by simp [evSyms, tmplSyms, hnev]
      rw [this, bump_nil]; exact hst
    · unfold inst
      simp [hbj x hnev, hl, s.isEll_iff, beq_text, hx]
  | true =>
    simp only [hvar, if_true] at h
    by_cases hxev : x ∈ ev
    · -- an ellipsis variable: the cursor moves
      have hexp : pat.isExpandedVariable (.sym x) = true := by rw [hc.exp]; simpa using hxev
      simp only [PEnv.getBinding, hvar, hexp, Bool.not_true, Bool.false_eq_true, if_false, if_true] at h
      have hsyms : evSyms ev (.sym x) = [x] := by simp [evSyms, tmplSyms, hxev]
      obtain ⟨hσ, d, hd, hlk⟩ := hr x (by rw [hsyms]; simp)
      obtain ⟨c, hfi, hcur⟩ := hst x hxev
      rw [hσ] at hcur
      obtain ⟨c', hget, hcur'⟩ := getExpandedBinding_hit B iters x c j d hfi hcur hd
      rw [hget] at h
      cases h
      refine ⟨d, _, rfl, rfl, ?_, ?_⟩
      · intro y hy
        by_cases hxy : x = y
        · subst hxy
          refine ⟨some c', findIter_setIter_same _ _ _ _ hfi, ?_⟩
          simp only [hsyms, bump, List.mem_singleton, if_true, hσ]
          exact hcur'
        · obtain ⟨cy, hfy, hcy⟩ := hst y hy
          refine ⟨cy, by rw [findIter_setIter_other x y hxy]; exact hfy, ?_⟩
          have : ¬ y = x := fun e => hxy e.symm
          simpa [hsyms, bump, this] using hcy
      · unfold inst
        simp [hlk]
    · have hexp : pat.isExpandedVariable (.sym x) = false := by rw [hc.exp]; simpa using hxev
      simp only [PEnv.getBinding, hvar, hexp, Bool.not_true, Bool.false_eq_true, if_false] at h
      cases h
      obtain ⟨d, hl, hp⟩ := hc.plainVar x hvar hxev
      have hfk : (findKey (.sym x) B 0).map (·.2) = some d := by
        rcases findKey_spec (.sym x) B 0 with ⟨_, h2⟩ | ⟨i, v, h1, _, h3⟩
        · rw [hp] at h2; cases h2
        · rw [hp] at h3
          injection h3 with hv _
          rw [h1, hv]; rfl
      refine ⟨d, iters, hfk, rfl, ?_, ?_⟩
      · have : evSyms ev (.sym x) = [] := by simp [evSyms, tmplSyms, hxev]
        rw [this, bump_nil]; exact hst
      · unfold inst
        simp [hbj x hxev, hl]

theorem Ready_head {σ : Text → Nat} {bj : Binds} {j : Nat} {a : Datum} {r : List Datum}
    (h : Ready ev B σ bj j (Datum.ofList (a :: r))) : Ready ev B σ bj j a := by
  intro x hx
  exact h x (by rw [evSyms_ofList_cons]; exact List.mem_append_left _ hx)

theorem Ready_tail {σ : Text → Nat} {bj : Binds} {j : Nat} {a : Datum} {r : List Datum}
    (hn : (evSyms ev (Datum.ofList (a :: r))).Nodup)
    (h : Ready ev B σ bj j (Datum.ofList (a :: r))) :
    Ready ev B (bump σ (evSyms ev a)) bj j (Datum.ofList r) := by
  intro x hx
  rw [evSyms_ofList_cons] at hn
  have hdis := (List.nodup_append.mp hn).2.2
  have hxa : x ∉ evSyms ev a := fun hxa => hdis x hxa x hx rfl
  have := h x (by rw [evSyms_ofList_cons]; exact List.mem_append_right _ hx)
  simpa [bump, hxa] using this

theorem unit_step (hc : Corr pat ev B bs) (bj : Binds) (j : Nat)
    (hbj : ∀ x, x ∉ ev → bj.lookup x = bs.lookup x) : ∀ f : Nat,
    (∀ T iters σ o env', plain s.es T = true → (evSyms ev T).Nodup → Stage B ev iters σ →
        Ready ev B σ bj j T →
        expand s.ell pat f T ⟨B, iters⟩ = .ok (o, env') →
        ∃ d iters', o = some d ∧ env' = ⟨B, iters'⟩ ∧ Stage B ev iters' (bump σ (evSyms ev T)) ∧
          inst s.ctx false false T bj = .ok d) ∧
    (∀ cur rest v iters σ o env', plain s.es cur = true → (∀ t ∈ rest, plain s.es t = true) →
        (evSyms ev (Datum.ofList (cur :: rest))).Nodup → Stage B ev iters σ →
        Ready ev B σ bj j (Datum.ofList (cur :: rest)) →
        expandLoop s.ell pat f cur rest v ⟨B, iters⟩ = .ok (o, env') →
        ∃ ds iters', o = some (Datum.ofList (v ++ ds)) ∧ env' = ⟨B, iters'⟩ ∧
          Stage B ev iters' (bump σ (evSyms ev (Datum.ofList (cur :: rest)))) ∧
          inst s.ctx false false (Datum.ofList (cur :: rest)) bj = .ok (Datum.ofList ds)) := by
  intro f
  induction f with
  | zero =>
    exact ⟨fun T iters σ o env' _ _ _ _ h => by simp [expand] at h,
           fun cur rest v iters σ o env' _ _ _ _ _ h => by simp [expandLoop] at h⟩
  | succ f ih =>
    obtain ⟨ih1, ih2⟩ := ih
    constructor
    · intro T iters σ o env' hT hn hst hr h
      cases hTeq : T with
      | sym x =>
        rw [hTeq] at h hT hr
        have hx : x ≠ s.es := by simpa [plain] using hT
        exact unit_sym s pat ev B bs hc bj j hbj f x iters σ o env' hx hst hr h
      | pair a d =>
        rw [hTeq] at h hT hn hr
        simp only [plain, Bool.and_eq_true] at hT
        obtain ⟨hdeq, hel, _⟩ := plainTail_spec hT.2
        rw [expand_pair] at h
        have hpeq : Datum.pair a d = Datum.ofList (a :: iterList d) := by
          simp only [Datum.ofList]; rw [← hdeq]
        rw [hpeq] at hn hr ⊢
        obtain ⟨ds, iters', ho, he, hs', hi⟩ := ih2 a (iterList d) [] iters σ o env' hT.1 hel hn hst hr h
        exact ⟨Datum.ofList ds, iters', by simpa using ho, he, hs', hi⟩
      | vec v => rw [hTeq] at hT; simp [plain] at hT
      | _ =>
        have hd : isDatumPat T = true := by rw [hTeq]; rfl
        rw [expand_datum _ _ _ _ _ hd] at h
        cases h
        rw [← hTeq]
        refine ⟨T, iters, rfl, rfl, ?_, inst_datum _ _ _ _ _ hd⟩
        have : evSyms ev T = [] := by simp [evSyms, tmplSyms_datum T hd]
        rw [this, bump_nil]; exact hst
    · intro cur rest v iters σ o env' hcur hrest hn hst hr h
      rw [expandLoop_succ] at h
      simp only [peekIs_plain s rest hrest, Bool.false_eq_true, if_false, Bool.not_false, if_true] at h
      have hncur : (evSyms ev cur).Nodup := by
        rw [evSyms_ofList_cons] at hn; exact (List.nodup_append.mp hn).1
      have hnrest : (evSyms ev (Datum.ofList rest)).Nodup := by
        rw [evSyms_ofList_cons] at hn; exact (List.nodup_append.mp hn).2.1
      have hdis : ∀ x ∈ evSyms ev cur, x ∉ evSyms ev (Datum.ofList rest) := by
        rw [evSyms_ofList_cons] at hn
        intro x hx hx'
        exact (List.nodup_append.mp hn).2.2 x hx x hx' rfl
      cases hcx : expand s.ell pat f cur ⟨B, iters⟩ with
      | ok r =>
        obtain ⟨oc, envc⟩ := r
        obtain ⟨cell, iters1, hoc, henv, hst1, hicur⟩ :=
          ih1 cur iters σ oc envc hcur hncur hst (Ready_head ev B hr) hcx
        rw [hcx] at h
        subst hoc henv
        simp only at h
        cases rest with
        | nil =>
          simp only at h
          cases h
          refine ⟨[cell], iters1, rfl, rfl, ?_, ?_⟩
          · rw [evSyms_ofList_cons, evSyms_ofList_nil, List.append_nil]; exact hst1
          · rw [inst_plain_cons s cur [] bj hcur (by simp)]
            simp [hicur, Datum.ofList, inst_nil]
        | cons t rest' =>
          simp only at h
          have hrest' : ∀ x ∈ rest', plain s.es x = true := fun x hx => hrest x (List.mem_cons_of_mem _ hx)
          obtain ⟨ds, iters', ho, he, hs', hi⟩ :=
            ih2 t rest' (v ++ [cell]) iters1 _ o env' (hrest t (by simp)) hrest' hnrest hst1
              (Ready_tail ev B hn hr) h
          refine ⟨cell :: ds, iters', by simp [ho], he, ?_, ?_⟩
          · rw [evSyms_ofList_cons, ← bump_append _ _ _ hdis]; exact hs'
          · rw [inst_plain_cons s cur (t :: rest') bj hcur hrest]
            simp [hicur, hi]
            rfl
      | err x => rw [hcx] at h; cases h
      | panic m => rw [hcx] at h; cases h
      | fuel => rw [hcx] at h; cases h

/-- the ellipsis variables of the sub-template are exhausted: `expand` answers `None` -/
theorem unit_done (hc : Corr pat ev B bs) : ∀ f : Nat,
    (∀ T iters σ o env', plain s.es T = true → (evSyms ev T).Nodup → Stage B ev iters σ →
        (∀ x ∈ evSyms ev T, (proj (.sym x) B).length ≤ σ x) → evSyms ev T ≠ [] →
        expand s.ell pat f T ⟨B, iters⟩ = .ok (o, env') → o = none) ∧
    (∀ cur rest v iters σ o env', plain s.es cur = true → (∀ t ∈ rest, plain s.es t = true) →
        (evSyms ev (Datum.ofList (cur :: rest))).Nodup → Stage B ev iters σ →
        (∀ x ∈ evSyms ev (Datum.ofList (cur :: rest)), (proj (.sym x) B).length ≤ σ x) →
        evSyms ev (Datum.ofList (cur :: rest)) ≠ [] →
        expandLoop s.ell pat f cur rest v ⟨B, iters⟩ = .ok (o, env') → o = none) := by
  intro f
  induction f with
  | zero =>
    exact ⟨fun T iters σ o env' _ _ _ _ _ h => by simp [expand] at h,
           fun cur rest v iters σ o env' _ _ _ _ _ _ h => by simp [expandLoop] at h⟩
  | succ f ih =>
    obtain ⟨ih1, ih2⟩ := ih
    constructor
    · intro T iters σ o env' hT hn hst hex hne h
      cases hTeq : T with
      | sym x =>
        rw [hTeq] at h hT hex hne
        have hxev : x ∈ ev := by
          by_cases hxev : x ∈ ev
          · exact hxev
          · exfalso; apply hne; simp [evSyms, tmplSyms, hxev]
        have hsyms : evSyms ev (.sym x) = [x] := by simp [evSyms, tmplSyms, hxev]
        obtain ⟨hvar, _⟩ := hc.ellVar x hxev
        have hexp : pat.isExpandedVariable (.sym x) = true := by rw [hc.exp]; simpa using hxev
        rw [expand_sym] at h
        simp only [hvar, if_true, PEnv.getBinding, hexp, Bool.not_true, Bool.false_eq_true, if_false] at h
        obtain ⟨c, hfi, hcur⟩ := hst x hxev
        rw [getExpandedBinding_miss B iters x c (σ x) hfi hcur (hex x (by rw [hsyms]; simp))] at h
        cases h; rfl
      | pair a d =>
        rw [hTeq] at h hT hn hex hne
        simp only [plain, Bool.and_eq_true] at hT
        obtain ⟨hdeq, hel, _⟩ := plainTail_spec hT.2
        rw [expand_pair] at h
        have hpeq : Datum.pair a d = Datum.ofList (a :: iterList d) := by
          simp only [Datum.ofList]; rw [← hdeq]
        rw [hpeq] at hn hex hne
        exact ih2 a (iterList d) [] iters σ o env' hT.1 hel hn hst hex hne h
      | vec v => rw [hTeq] at hT; simp [plain] at hT
      | _ =>
        exfalso
        have hd : isDatumPat T = true := by rw [hTeq]; rfl
        apply hne
        simp [evSyms, tmplSyms_datum T hd]
    · intro cur rest v iters σ o env' hcur hrest hn hst hex hne h
      rw [expandLoop_succ] at h
      simp only [peekIs_plain s rest hrest, Bool.false_eq_true, if_false, Bool.not_false, if_true] at h
      have hncur : (evSyms ev cur).Nodup := by
        rw [evSyms_ofList_cons] at hn; exact (List.nodup_append.mp hn).1
      have hnrest : (evSyms ev (Datum.ofList rest)).Nodup := by
        rw [evSyms_ofList_cons] at hn; exact (List.nodup_append.mp hn).2.1
      cases hcx : expand s.ell pat f cur ⟨B, iters⟩ with
      | ok r =>
        obtain ⟨oc, envc⟩ := r
        rw [hcx] at h
        by_cases hcne : evSyms ev cur = []
        · -- no ellipsis variable in `cur`: it expands, nothing moves
          have hrdy : Ready ev B σ bs 0 cur := by
            intro x hx; rw [hcne] at hx; cases hx
          obtain ⟨cell, iters1, hoc, henv, hst1, _⟩ :=
            (unit_step s pat ev B bs hc bs 0 (fun _ _ => rfl) f).1 cur iters σ oc envc hcur hncur hst hrdy hcx
          rw [hcne, bump_nil] at hst1
          subst hoc henv
          simp only at h
          have hrne : evSyms ev (Datum.ofList rest) ≠ [] := by
            rw [evSyms_ofList_cons, hcne] at hne; simpa using hne
          cases rest with
          | nil => exact absurd (evSyms_ofList_nil ev) hrne
          | cons t rest' =>
            simp only at h
            have hrest' : ∀ x ∈ rest', plain s.es x = true := fun x hx => hrest x (List.mem_cons_of_mem _ hx)
            refine ih2 t rest' _ iters1 σ o env' (hrest t (by simp)) hrest' hnrest hst1 ?_ hrne h
            intro x hx
            exact hex x (by rw [evSyms_ofList_cons]; exact List.mem_append_right _ hx)
        · have := ih1 cur iters σ oc envc hcur hncur hst
            (fun x hx => hex x (by rw [evSyms_ofList_cons]; exact List.mem_append_left _ hx)) hcne hcx
          subst this
          simp only at h
          cases h; rfl
      | err x => rw [hcx] at h; cases h
      | panic m => rw [hcx] at h; cases h
      | fuel => rw [hcx] at h; cases h

end unit

end Marwood.Transform
