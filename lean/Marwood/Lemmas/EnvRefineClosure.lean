import Marwood.Lemmas.EnvRefineMap
import Marwood.Lemmas.EnvRefineOps
/-!
# T02.4, part 4: CLOSURE and ENTER keep the simulation relation

* `sim_mkClosure`: the closure environment CLOSURE builds in a related activation is related to the
  specification's closure (text + current chain): every captured entry is a pointer to the slot that
  stands for the location the chain resolves the name to.
* `sim_enter`: ENTER, against `bindParams` + `allocDefs`: the new activation environment is the image
  of the new frame, slot by slot (`β` is extended by exactly these pairs), and the activation is
  related to the extended chain.
-/
namespace Marwood.Vm.EnvRefine
open Marwood Marwood.Scope Marwood.Vm.Env Marwood.Spec.Scope

/-! ## CLOSURE -/

theorem closureSlots_ok (h : Envs MVal) (ep : Nat) (args : List MVal) (em : Envmap)
    (hok : ∀ p ∈ em, ∃ v, closureSlot h ep args p.2 = .ok v) :
    ∃ ss, closureSlots h ep args em = .ok ss ∧ ss.length = em.length := by
  induction em with
  | nil => exact ⟨[], rfl, rfl⟩
  | cons p em ih =>
    obtain ⟨y, src⟩ := p
    obtain ⟨v, hv⟩ := hok (y, src) (List.mem_cons_self ..)
    obtain ⟨ss, hss, hl⟩ := ih (fun q hq => hok q (List.mem_cons_of_mem _ hq))
    exact ⟨v :: ss, by simp [closureSlots, bind, Except.bind, hv, hss, pure, Except.pure], by simp [hl]⟩

open Marwood.Vm.EnvRun in
theorem sim_mkClosure {β : LocMap} {s : SSt} {t : MSt} {N ctx ep ρ acts} (r : StRel β s t)
    (a : ActRel β t.envs N ctx ep ρ acts) (sugar : Bool) (ps : List Name) (rst : Option Name) (ds : Defs)
    (body : Exprs) (hN : ∀ x ∈ fvLam sugar ps rst ds body, N x) :
    ∃ cenv t' carr, exec (mkClosure ctx ep sugar ps rst ds body) t =
        (.ok (.clo ps rst ds body (compileLam ctx sugar ps rst ds body) cenv), t') ∧
      Ext β t.envs β t'.envs ∧ StRel β s t' ∧
      CloFacts β t'.envs (fvLam sugar ps rst ds body) ctx (compileLam ctx sugar ps rst ds body) cenv ρ acts carr := by
  -- every entry of the new map
  have entries : ∀ (sl : Nat) (x : Name) (src : Source),
      (compileLam ctx sugar ps rst ds body).envmap[sl]? = some (x, src) →
      (∃ n, src = .argument n) ∨ src = .internal ∨ ∃ k, src = .iofEnv k ∧ slotOf ctx.envmap x = some k := by
    intro sl x src he
    rcases newEnvmap_getElem _ _ _ _ _ _ _ he with ⟨_, _, h3⟩ | ⟨_, _, _, h3⟩ | ⟨_, y, _, hy⟩
    · exact Or.inl ⟨_, h3⟩
    · exact Or.inr (Or.inl h3)
    · obtain ⟨rfl, k, rfl, hk⟩ := freeEntry_cases ctx a.noarg y x src hy
      exact Or.inr (Or.inr ⟨k, rfl, hk⟩)
  cases ep with
  | none =>
    -- top level: nothing is captured
    have hnone : ∀ x, slotOf ctx.envmap x = none := by
      intro x
      cases hs : slotOf ctx.envmap x with
      | none => rfl
      | some sl => obtain ⟨_, _, _, _, h1, _⟩ := a.res x sl hs; cases h1
    let arr : Array (Slot MVal) := ((compileLam ctx sugar ps rst ds body).envmap.map fun _ => Slot.undef).toArray
    have hone : OneLevel (t.envs.push arr).1 := by
      apply OneLevel.push _ r.one
      intro i p q hg
      simp [arr] at hg
    refine ⟨t.envs.envs.size, { t with envs := (t.envs.push arr).1 }, arr, ?_, ⟨fun _ _ hp => hp, Evolves.push _ _⟩,
      r.push arr hone, ?_⟩
    · simp only [mkClosure, exec_bind, exec_get]
      split
      · rfl
      · next hn =>
        exfalso
        apply hn
        rw [List.all_eq_true]
        intro p hp
        obtain ⟨sl, hsl⟩ := List.getElem?_of_mem hp
        obtain ⟨x, src⟩ := p
        rcases entries sl x src hsl with ⟨n, rfl⟩ | rfl | ⟨k, _, hk⟩
        · rfl
        · rfl
        · rw [hnone x] at hk; cases hk
    · refine ⟨⟨a.unb, a.noarg⟩, fun x hx => a.need x (hN x hx), push_get_new _ _, by simp [arr], ?_, ?_, a.chain⟩
      · intro sl x k he
        rcases entries sl x _ he with ⟨n, hh⟩ | hh | ⟨k', _, hk⟩
        · cases hh
        · cases hh
        · rw [hnone x] at hk; cases hk
      · intro sl x src he _
        refine ⟨.undef, ?_, rfl⟩
        have := List.getElem?_eq_some_iff.mp he
        obtain ⟨hlt, _⟩ := this
        simp [arr, hlt]
  | some ae =>
    have hok : ∀ p ∈ (compileLam ctx sugar ps rst ds body).envmap, ∃ v, closureSlot t.envs ae [] p.2 = .ok v := by
      intro p hp
      obtain ⟨sl, hsl⟩ := List.getElem?_of_mem hp
      obtain ⟨x, src⟩ := p
      rcases entries sl x src hsl with ⟨n, rfl⟩ | rfl | ⟨k, rfl, hk⟩
      · exact ⟨_, rfl⟩
      · exact ⟨_, rfl⟩
      · obtain ⟨ae', l, e, i, h1, _, h3, _⟩ := a.res x k hk
        cases h1
        exact ⟨_, closureSlot_iofEnv t.envs ae [] k (e, i) h3⟩
    obtain ⟨ss, hss, hlen⟩ := closureSlots_ok t.envs ae [] _ hok
    have hb : buildClosureEnvironment t.envs ae [] (compileLam ctx sugar ps rst ds body).envmap =
        .ok ((t.envs.push ss.toArray).1, t.envs.envs.size) := by
      simp [buildClosureEnvironment, hss, bind, Except.bind, pure, Except.pure, Envs.push]
    have hone := buildClosureEnvironment_oneLevel _ _ r.one _ _ _ _ hb
    refine ⟨t.envs.envs.size, { t with envs := (t.envs.push ss.toArray).1 }, ss.toArray, ?_,
      ⟨fun _ _ hp => hp, Evolves.push _ _⟩, r.push _ hone, ?_⟩
    · simp only [mkClosure, exec_bind, exec_get, hb, liftFault, exec_pure, exec_modify]
    · refine ⟨⟨a.unb, a.noarg⟩, fun x hx => a.need x (hN x hx), push_get_new _ _, by simp [hlen], ?_, ?_, a.chain⟩
      · intro sl x k he
        rcases entries sl x _ he with ⟨n, hh⟩ | hh | ⟨k', hh, hk⟩
        · cases hh
        · cases hh
        · cases hh
          obtain ⟨ae', l, e, i, h1, h2, h3, h4⟩ := a.res x k hk
          cases h1
          obtain ⟨_, arr', harr', hslot⟩ := closure_captures _ _ _ _ _ _ hb sl x k he (e, i) h3
          have hn : (t.envs.push ss.toArray).1.envs[t.envs.envs.size]? = some ss.toArray := push_get_new _ _
          rw [hn] at harr'
          cases harr'
          exact ⟨l, e, i, h2, h4, hslot⟩
      · intro sl x src he hn
        obtain ⟨v, hv, hg⟩ := closureSlots_get _ _ _ _ _ hss sl x src he
        refine ⟨v, by simpa using hg, ?_⟩
        rcases entries sl x src he with ⟨n, rfl⟩ | rfl | ⟨k, rfl, _⟩
        · simp [closureSlot] at hv; subst hv; rfl
        · simp [closureSlot] at hv; subst hv; rfl
        · exact absurd rfl (hn k)

/-! ## ENTER -/

theorem activationSlots_ok (cenv : Nat) (args : List MVal) (i0 : Nat) (olds : List (Slot MVal)) (em : Envmap)
    (hlen : olds.length = em.length)
    (harg : ∀ p ∈ em, ∀ n, p.2 = .argument n → n < args.length) :
    ∃ ss, activationSlots cenv args i0 olds em = .ok ss ∧ ss.length = em.length := by
  induction em generalizing i0 olds with
  | nil =>
    cases olds with
    | nil => exact ⟨[], rfl, rfl⟩
    | cons o os => simp at hlen
  | cons p em ih =>
    obtain ⟨y, src⟩ := p
    cases olds with
    | nil => simp at hlen
    | cons o os =>
      have h1 : ∃ v, activationSlot cenv args i0 o src = .ok v := by
        cases src with
        | argument n =>
          have := harg (y, .argument n) (List.mem_cons_self ..) n rfl
          exact ⟨.val args[n], by simp [activationSlot, this]⟩
        | internal => exact ⟨o, rfl⟩
        | iofEnv k => cases o <;> exact ⟨_, rfl⟩
        | iofArg k => cases o <;> exact ⟨_, rfl⟩
      obtain ⟨v, hv⟩ := h1
      obtain ⟨ss, hss, hl⟩ := ih (i0 + 1) os (by simpa using hlen)
        (fun q hq => harg q (List.mem_cons_of_mem _ hq))
      exact ⟨v :: ss, by simp [activationSlots, bind, Except.bind, hv, hss, pure, Except.pure], by simp [hl]⟩

/-- what ENTER makes of the closure environment `carr` for the map of a compiled lambda -/
theorem enter_heap {β : LocMap} {h : Envs MVal} {fvs octx cenv ρ acts carr}
    (sugar : Bool) (ps : List Name) (rst : Option Name) (ds : Defs) (body : Exprs)
    (c : CloFacts β h fvs octx (compileLam octx sugar ps rst ds body) cenv ρ acts carr)
    (margs : List MVal) (hm : margs.length = (ps ++ rst.toList).length) :
    ∃ arr : Array (Slot MVal),
      buildLexicalEnvironment h cenv margs (compileLam octx sugar ps rst ds body).envmap =
        .ok ((h.push arr).1, h.envs.size) ∧
      (∀ n, n < margs.length → arr[n]? = some (.val margs[n]!)) ∧
      (∀ n, n < margs.length + ds.names.length → ∃ g, arr[n]? = some g ∧ g.isPtr = false) ∧
      (∀ (sl : Nat) (x : Name) (k : Nat),
        (compileLam octx sugar ps rst ds body).envmap[sl]? = some (x, Source.iofEnv k) →
        arr[sl]? = carr[sl]?) := by
  have harg : ∀ p ∈ (compileLam octx sugar ps rst ds body).envmap, ∀ n, p.2 = Source.argument n → n < margs.length := by
    intro p hp n hn
    obtain ⟨sl, hsl⟩ := List.getElem?_of_mem hp
    obtain ⟨x, src⟩ := p
    simp only at hn
    subst hn
    rcases newEnvmap_getElem _ _ _ _ _ _ _ hsl with ⟨h1, _, h3⟩ | ⟨_, _, _, h3⟩ | ⟨_, y, _, hy⟩
    · cases h3; rw [hm]; exact h1
    · cases h3
    · obtain ⟨_, k, hk, _⟩ := freeEntry_cases octx c.scope.noarg y x _ hy
      cases hk
  obtain ⟨ss, hss, hlen⟩ := activationSlots_ok cenv margs 0 carr.toList _ (by simp [c.size]) harg
  have hb : buildLexicalEnvironment h cenv margs (compileLam octx sugar ps rst ds body).envmap =
      .ok ((h.push ss.toArray).1, h.envs.size) := by
    simp [buildLexicalEnvironment, Envs.getEnv, c.env, bind, Except.bind, hss, pure, Except.pure, Envs.push]
  -- the slot of every entry
  have slot : ∀ sl x src, (compileLam octx sugar ps rst ds body).envmap[sl]? = some (x, src) →
      ∃ old v, carr[sl]? = some old ∧ ss.toArray[sl]? = some v ∧
        activationSlot cenv margs sl old src = .ok v := by
    intro sl x src he
    have hlt : sl < carr.size := by
      rw [c.size]
      exact (List.getElem?_eq_some_iff.mp he).1
    have ho : carr[sl]? = some carr[sl] := by simp [hlt]
    obtain ⟨_, arr', v, harr', hv, hact⟩ := activation_slots h _ cenv _ margs _ hb sl x src he carr c.env _ ho
    have hn : (h.push ss.toArray).1.envs[h.envs.size]? = some ss.toArray := push_get_new _ _
    rw [hn] at harr'
    cases harr'
    exact ⟨_, v, ho, hv, hact⟩
  refine ⟨ss.toArray, hb, ?_, ?_, ?_⟩
  · intro n hn
    obtain ⟨x, hx⟩ := newEnvmap_arg_entry (ps ++ rst.toList) ds.names (fvLam sugar ps rst ds body) octx n (hm ▸ hn)
    obtain ⟨old, v, _, hv, hact⟩ := slot n x _ hx
    simp only [activationSlot, List.getElem?_eq_getElem hn, Except.ok.injEq] at hact
    rw [hv, ← hact]
    simp [hn]
  · intro n hn
    by_cases hlt : n < margs.length
    · obtain ⟨x, hx⟩ := newEnvmap_arg_entry (ps ++ rst.toList) ds.names (fvLam sugar ps rst ds body) octx n (hm ▸ hlt)
      obtain ⟨old, v, _, hv, hact⟩ := slot n x _ hx
      simp only [activationSlot, List.getElem?_eq_getElem hlt, Except.ok.injEq] at hact
      exact ⟨v, hv, by rw [← hact]; rfl⟩
    · obtain ⟨x, hx⟩ := newEnvmap_internal_entry (ps ++ rst.toList) ds.names (fvLam sugar ps rst ds body) octx n
        (by omega) (by omega)
      obtain ⟨old, v, ho, hv, hact⟩ := slot n x _ hx
      simp only [activationSlot, Except.ok.injEq] at hact
      subst hact
      obtain ⟨g, hg, hnp⟩ := c.vals n x _ hx (fun k hk => by cases hk)
      rw [ho] at hg
      cases hg
      exact ⟨old, hv, hnp⟩
  · intro sl x k he
    obtain ⟨old, v, ho, hv, hact⟩ := slot sl x _ he
    obtain ⟨l, e, i, _, _, hp⟩ := c.ptrs sl x k he
    rw [ho] at hp
    cases hp
    simp only [activationSlot, Except.ok.injEq] at hact
    rw [ho, hv, hact]

end Marwood.Vm.EnvRefine

namespace Marwood.Vm.EnvRefine
open Marwood Marwood.Scope Marwood.Vm.Env Marwood.Spec.Scope

theorem Forall2.length_eq {α β : Type} {R : α → β → Prop} {as : List α} {bs : List β} (h : Forall2 R as bs) :
    as.length = bs.length := by
  induction h with
  | nil => rfl
  | cons _ _ ih => simp [ih]

theorem Forall2.get {α β : Type} {R : α → β → Prop} {as : List α} {bs : List β} (h : Forall2 R as bs)
    (i : Nat) (a : α) (ha : as[i]? = some a) : ∃ b, bs[i]? = some b ∧ R a b := by
  induction h generalizing i with
  | nil => simp at ha
  | cons hr _ ih =>
    cases i with
    | zero => simp at ha; subst ha; exact ⟨_, by simp, hr⟩
    | succ i => simp at ha; simpa using ih i ha

theorem sub_inj_aux (n0 m l l' : Nat) (hl : n0 ≤ l ∧ l < n0 + m) (hl' : n0 ≤ l' ∧ l' < n0 + m)
    (h1 : l - n0 = l' - n0) : l = l' := by omega

/-- `β` extended by the frame of a new activation: the `m` locations from `n0` on are sent to the
    slots `0 … m-1` of environment `a` -/
def extendβ (β : LocMap) (n0 m a : Nat) : LocMap :=
  fun (l : Nat) => if n0 ≤ l ∧ l < n0 + m then some (a, l - n0) else β l

theorem extendβ_old (β : LocMap) (n0 m a l : Nat) (h : l < n0) : extendβ β n0 m a l = β l := by
  simp [extendβ, Nat.not_le.mpr h]

theorem extendβ_new (β : LocMap) (n0 m a i : Nat) (h : i < m) : extendβ β n0 m a (n0 + i) = some (a, i) := by
  simp [extendβ, h]

/-- the names an activation of a lambda form may need: its free symbols and its binders -/
def needOf (sugar : Bool) (ps : List Name) (rst : Option Name) (ds : Defs) (body : Exprs) (x : Name) : Prop :=
  x ∈ fvLam sugar ps rst ds body ∨ x ∈ ps ++ rst.toList ∨ x ∈ ds.names

/-- **ENTER against `bindParams` + `allocDefs`.** -/
theorem sim_enter {β : LocMap} {s : SSt} {t : MSt} {octx cenv ρ acts carr} (r : StRel β s t)
    (sugar : Bool) (ps : List Name) (rst : Option Name) (ds : Defs) (body : Exprs)
    (c : CloFacts β t.envs (fvLam sugar ps rst ds body) octx (compileLam octx sugar ps rst ds body) cenv ρ acts carr)
    (vals : List SVal) (margs : List MVal) (hrel : Forall2 (VRel β t.envs) vals margs)
    (hm : margs.length = (ps ++ rst.toList).length) :
    ∃ (arr : Array (Slot MVal)) (β' : LocMap),
      buildLexicalEnvironment t.envs cenv margs (compileLam octx sugar ps rst ds body).envmap =
        .ok ((t.envs.push arr).1, t.envs.envs.size) ∧
      Ext β t.envs β' (t.envs.push arr).1 ∧
      StRel β' { s with store := s.store ++ vals.toArray ++ (ds.names.map fun _ => Val.undef).toArray }
        { t with envs := (t.envs.push arr).1 } ∧
      ActRel β' (t.envs.push arr).1 (needOf sugar ps rst ds body) (compileLam octx sugar ps rst ds body)
        (some t.envs.envs.size)
        ((frameAt (ps ++ rst.toList) s.store.size ++ frameAt ds.names (s.store.size + vals.length)) :: ρ)
        (t.envs.envs.size :: acts) := by
  obtain ⟨arr, hb, harg, hnp, hptr⟩ := enter_heap sugar ps rst ds body c margs hm
  have hvl : vals.length = (ps ++ rst.toList).length := hrel.length_eq.trans hm
  -- abbreviations
  generalize hA : ps ++ rst.toList = A at *
  generalize hn0 : s.store.size = n0 at *
  generalize ha : t.envs.envs.size = a at *
  obtain ⟨m, hmdef⟩ : ∃ m, m = A.length + ds.names.length := ⟨_, rfl⟩
  obtain ⟨β', hβ'⟩ : ∃ β', β' = extendβ β n0 m a := ⟨_, rfl⟩
  have hframe : frameAt A n0 ++ frameAt ds.names (n0 + vals.length) = frameAt (A ++ ds.names) n0 := by
    rw [frameAt_append, hvl]
  rw [hframe]
  have hev : Evolves t.envs (t.envs.push arr).1 := Evolves.push _ _
  have hβlt : ∀ l p, β l = some p → l < n0 := by
    intro l p hp
    obtain ⟨sv, _, _, h1, _⟩ := r.heap.slot l p.1 p.2 hp
    rw [← hn0]; exact getElem?_lt h1
  have hβe : ∀ l e i, β l = some (e, i) → e < a := by
    intro l e i hp
    obtain ⟨_, arr0, _, _, h2, _⟩ := r.heap.slot l e i hp
    rw [← ha]; exact getElem?_lt h2
  have ext : Ext β t.envs β' (t.envs.push arr).1 :=
    ⟨fun l p hp => by rw [hβ', extendβ_old β n0 m a l (hβlt l p hp)]; exact hp, hev⟩
  have hnew : (t.envs.push arr).1.envs[a]? = some arr := by rw [← ha]; exact push_get_new _ _
  have hone : OneLevel (t.envs.push arr).1 := buildLexicalEnvironment_oneLevel _ _ r.one _ _ _ _ hb
  -- the new store
  let W : List SVal := vals ++ ds.names.map fun _ => Val.undef
  have hstore : s.store ++ vals.toArray ++ (ds.names.map fun _ => Val.undef).toArray = s.store ++ W.toArray := by
    rw [Array.append_assoc]; simp [W]
  have hWlen : W.length = m := by simp [W, hmdef, hvl]
  have hold : ∀ (l : Nat) (v : SVal), s.store[l]? = some v → (s.store ++ W.toArray)[l]? = some v := by
    intro l v hl
    rw [Array.getElem?_append_left (getElem?_lt hl)]; exact hl
  have hnewst : ∀ i, (s.store ++ W.toArray)[n0 + i]? = W[i]? := by
    intro i
    rw [Array.getElem?_append_right (by omega)]
    simp [hn0]
  -- resolution in the new frame
  have hfind : ∀ x, Frame.find? x (frameAt (A ++ ds.names) n0) = (argIndex (A ++ ds.names) x).map (n0 + ·) :=
    fun x => frameAt_find? _ _ _
  -- target of a bound slot
  have htarget : ∀ n, n < m → target (t.envs.push arr).1 a n = .ok (a, n) := by
    intro n hn
    obtain ⟨g, hg, hgp⟩ := hnp n (by omega)
    rw [target_eq _ a n arr g hnew hg]
    cases g <;> simp_all [Slot.isPtr]
  refine ⟨arr, β', hb, ext, ?_, ?_⟩
  · -- states
    rw [hstore]
    refine ⟨r.counter, r.log.mono ext, ⟨?_, r.glob.free, r.glob.inj⟩, ⟨?_, ?_⟩, hone⟩
    · intro x l hl
      obtain ⟨h1, sv, mv, h2, h3, h4⟩ := r.glob.bound x l hl
      have hlt : l < n0 := by rw [← hn0]; exact getElem?_lt h2
      exact ⟨by rw [hβ', extendβ_old β n0 m a l hlt]; exact h1, sv, mv, hold _ _ h2, h3, h4.mono ext⟩
    · intro (l : Nat) e i hb'
      by_cases hl : n0 ≤ l ∧ l < n0 + m
      · have hb2 : β' l = some (a, l - n0) := by simp [hβ', extendβ, hl]
        rw [hb2] at hb'
        cases hb'
        have hi : l - n0 < m := by omega
        obtain ⟨g, hg, hgp⟩ := hnp (l - n0) (by omega)
        have hw : (s.store ++ W.toArray)[l]? = W[l - n0]? := by
          have := hnewst (l - n0)
          rwa [show n0 + (l - n0) = l by omega] at this
        have hwl : l - n0 < W.length := by omega
        refine ⟨W[l - n0], arr, g, by rw [hw]; simp [hwl], hnew, hg, hgp, ?_⟩
        by_cases hlv : l - n0 < vals.length
        · right
          have hv1 : vals[l - n0]? = some W[l - n0] := by
            simp [W, List.getElem_append_left hlv, hlv]
          obtain ⟨mv, hmv, hvr⟩ := hrel.get _ _ hv1
          have hml : l - n0 < margs.length := by rw [← hrel.length_eq]; exact hlv
          have := harg (l - n0) hml
          rw [hg] at this
          refine ⟨mv, ?_, hvr.mono ext⟩
          cases this
          have : margs[l - n0]! = mv := by
            simp [List.getElem?_eq_getElem hml] at hmv
            simp [hml, hmv]
          rw [this]
        · left
          simp [W, List.getElem_append_right (Nat.le_of_not_lt hlv)]
      · have hb2 : β' l = β l := by simp [hβ', extendβ, hl]
        rw [hb2] at hb'
        obtain ⟨sv, arr0, g, h1, h2, h3, h4⟩ := r.heap.slot l e i hb'
        exact ⟨sv, arr0, g, hold _ _ h1, push_get_old _ _ _ _ h2, h3, h4.mono ext⟩
    · intro (l : Nat) (l' : Nat) p h1 h2
      by_cases hl : n0 ≤ l ∧ l < n0 + m <;> by_cases hl' : n0 ≤ l' ∧ l' < n0 + m
      · simp only [hβ', extendβ, hl, hl', and_self, if_true] at h1 h2
        rw [← h2] at h1
        simp only [Option.some.injEq, Prod.mk.injEq, true_and] at h1
        exact sub_inj_aux n0 m l l' hl hl' h1
      · simp only [hβ', extendβ, hl, hl', and_self, if_true, if_false] at h1 h2
        rw [← h1] at h2
        have := hβe l' a _ h2
        omega
      · simp only [hβ', extendβ, hl, hl', and_self, if_true, if_false] at h1 h2
        rw [← h2] at h1
        have := hβe l a _ h1
        omega
      · simp only [hβ', extendβ, hl, hl', if_false] at h1 h2
        exact r.heap.inj l l' p h1 h2
  · -- the activation
    have hbound : ∀ x n, argIndex (A ++ ds.names) x = some n →
        slotOf (compileLam octx sugar ps rst ds body).envmap x = some n := by
      intro x n hn
      have := slotOf_newEnvmap_bound A ds.names (fvLam sugar ps rst ds body) octx x n hn
      simpa [compileLam, hA] using this
    have hunbound : ∀ x, argIndex (A ++ ds.names) x = none →
        entryOf (compileLam octx sugar ps rst ds body).envmap x =
          none ∨ ∃ i k, entryOf (compileLam octx sugar ps rst ds body).envmap x = some (i, .iofEnv k) ∧
            slotOf octx.envmap x = some k ∧ x ∈ fvLam sugar ps rst ds body := by
      intro x hx
      have hx' := (argIndex_none_iff _ _).mp hx
      simp only [List.mem_append, not_or] at hx'
      have hfree := entryOf_newEnvmap_free A ds.names (fvLam sugar ps rst ds body) octx x hx'.1 hx'.2
      by_cases hxf : x ∈ fvLam sugar ps rst ds body
      · cases hk : slotOf octx.envmap x with
        | none =>
          left
          have := hfree.1 (Or.inr (freeEntry_none octx c.scope.noarg x hk))
          simpa [compileLam, hA] using this
        | some k =>
          right
          obtain ⟨i, hi⟩ := hfree.2 _ hxf (freeEntry_some octx x k hk)
          exact ⟨i, k, by simpa [compileLam, hA] using hi, rfl, hxf⟩
      · left
        have := hfree.1 (Or.inl hxf)
        simpa [compileLam, hA] using this
    have hres_bound : ∀ x n, argIndex (A ++ ds.names) x = some n →
        resolve x (frameAt (A ++ ds.names) n0 :: ρ) = some (n0 + n) := by
      intro x n hn
      simp [resolve, hfind, hn]
    have hres_unbound : ∀ x, argIndex (A ++ ds.names) x = none →
        resolve x (frameAt (A ++ ds.names) n0 :: ρ) = resolve x ρ := by
      intro x hn
      simp [resolve, hfind, hn]
    refine ⟨?_, ?_, ?_, ?_, ⟨?_, ChainOK.mono ext.sub _ _ c.chain⟩⟩
    · intro x sl hsl
      cases hn : argIndex (A ++ ds.names) x with
      | some n =>
        rw [hbound x n hn] at hsl
        simp only [Option.some.injEq] at hsl
        subst hsl
        have hlt : n < m := by simpa [hmdef] using argIndex_lt _ _ _ hn
        exact ⟨a, n0 + n, a, n, rfl, hres_bound x n hn, htarget n hlt, by rw [hβ']; exact extendβ_new β n0 m a n hlt⟩
      | none =>
        rcases hunbound x hn with he | ⟨i, k, he, hk, _⟩
        · rw [slotOf_eq_entryOf, he] at hsl; cases hsl
        · rw [slotOf_eq_entryOf, he] at hsl
          cases hsl
          have hget := entryOf_getElem _ _ _ _ he
          obtain ⟨l, e, j, h1, h2, h3⟩ := c.ptrs i x k hget
          have h4 := hptr i x k hget
          rw [h3] at h4
          refine ⟨a, l, e, j, rfl, by rw [hres_unbound x hn]; exact h1, ?_, ext.sub _ _ h2⟩
          rw [target_eq _ a i arr _ hnew h4]
    · intro x hx
      cases hn : argIndex (A ++ ds.names) x with
      | some n => rw [hres_bound x n hn] at hx; cases hx
      | none =>
        rw [hres_unbound x hn] at hx
        rcases hunbound x hn with he | ⟨i, k, _, hk, _⟩
        · rw [slotOf_eq_entryOf, he]; rfl
        · rw [c.scope.unb x hx] at hk; cases hk
    · intro x hx
      cases hn : argIndex (A ++ ds.names) x with
      | some n => rw [hbound x n hn] at hx; cases hx
      | none =>
        have := (argIndex_none_iff _ _).mp hn
        simp only [List.mem_append, not_or] at this
        simpa [compileLam, hA] using (argIndex_none_iff _ _).mpr this.1
    · intro x hx hr
      cases hn : argIndex (A ++ ds.names) x with
      | some n => rw [hbound x n hn]; simp
      | none =>
        rw [hres_unbound x hn] at hr
        have hmem := (argIndex_none_iff _ _).mp hn
        simp only [List.mem_append, not_or] at hmem
        have hxf : x ∈ fvLam sugar ps rst ds body := by
          rcases hx with h | h | h
          · exact h
          · exact absurd (hA ▸ h) hmem.1
          · exact absurd h hmem.2
        have hk := c.need x hxf hr
        rcases hunbound x hn with he | ⟨i, k, he, _, _⟩
        · exfalso
          cases hk' : slotOf octx.envmap x with
          | none => exact hk hk'
          | some k =>
            have hfree := entryOf_newEnvmap_free A ds.names (fvLam sugar ps rst ds body) octx x hmem.1 hmem.2
            obtain ⟨i, hi⟩ := hfree.2 _ hxf (freeEntry_some octx x k hk')
            have : entryOf (compileLam octx sugar ps rst ds body).envmap x = some (i, .iofEnv k) := by
              simpa [compileLam, hA] using hi
            rw [this] at he; cases he
        · rw [slotOf_eq_entryOf, he]; simp
    · intro i x l hi
      rw [frameAt_getElem] at hi
      obtain ⟨h1, h2⟩ := hi
      simp only at h2
      subst h2
      have hlt : i < m := by
        have := (List.getElem?_eq_some_iff.mp h1).1
        simpa [hmdef] using this
      rw [hβ']; exact extendβ_new β n0 m a i hlt

end Marwood.Vm.EnvRefine
