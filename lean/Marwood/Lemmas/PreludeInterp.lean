import Marwood.Store.PreludeInterp
import Marwood.Lemmas.PreludeAgree
/-!
# The hand transcriptions of `Store/Prelude.lean` are the images of the regenerated definitions

`defs` is `Gen.PreludeProcs.procs` (regenerated from `prelude.scm` on every run) read by
`parseDef`; `interp P defs fuel name` is the meaning `Store/PreludeInterp.lean` gives to the global
`name`. For every modelled procedure the hand-written model is proved equal to that image, for every
fuel, store and argument (`interp_length` with `localFn_count` for its `letrec`-bound `count`,
`interp_mem…`, `interp_ass…`, `interp_anyNull`, `interp_map1`, `interp_map`, `interp_forEach`). The
syntax trees the proofs unfold (`lengthDef`, …) are not trusted: `find_*` checks each against `parseDef`
of the regenerated datum by kernel evaluation.
-/
namespace Marwood.Store.Prelude
open Marwood Marwood.Store Marwood.Store.Outcome

/-- the regenerated library, read into the interpreter's syntax (forms outside the subset — promises,
    `substring`, `newline` — are not library procedures of the store model and are skipped) -/
def defs : List Def := Gen.PreludeProcs.procs.filterMap fun p => parseDef p.2

open Expr in
/-- the body of the `letrec`-bound `count` of `length` -/
def countBody : Expr :=
  ite (call1 "null?" (var "fast")) (var "n")
    (ite (call1 "null?" (call1 "cdr" (var "fast"))) (call2 "+" (var "n") (const (.num 1)))
      (ite (call2 "eq?" (call1 "cdr" (call1 "cdr" (var "fast"))) (call1 "cdr" (var "slow")))
        (call1 "cdr" (const circularListSym))
        (call3 "count" (call1 "cdr" (call1 "cdr" (var "fast"))) (call1 "cdr" (var "slow"))
          (call2 "+" (var "n") (const (.num 2))))))

open Expr in
def lengthDef : Def := ⟨"length", ["list"], none,
  letrec1 "count" ["fast", "slow", "n"] countBody
    (call3 "count" (var "list") (var "list") (const (.num 0)))⟩

theorem find_length : defs.find? (·.name == "length") = some lengthDef := by decide +kernel

/-- the names the library bodies use as builtins are not shadowed by a Scheme-level definition -/
theorem find_prims : ∀ n ∈ ["null?", "pair?", "car", "cdr", "cons", "eq?", "eqv?", "equal?", "+"],
    defs.find? (·.name == n) = none := by decide +kernel

variable {P : String → Option Callee}

theorem global_eq (l : Nat) (n : String) :
    (handlers P defs l).global n = (defs.find? (·.name == n)).map fun _ => interp P defs l n := by
  unfold interp
  cases l <;> simp only [handlers] <;> cases defs.find? (·.name == n) <;> rfl

theorem global_prim (l : Nat) {n : String}
    (hn : n ∈ ["null?", "pair?", "car", "cdr", "cons", "eq?", "eqv?", "equal?", "+"]) :
    (handlers P defs l).global n = none := by
  rw [global_eq, find_prims n hn]; rfl

theorem interp_zero {n : String} {d : Def} (h : defs.find? (·.name == n) = some d) (s : Store) (args : List VCell) :
    interp P defs 0 n s args = .diverge := by
  simp [interp, handlers, h]

theorem interp_succ {n : String} {d : Def} (h : defs.find? (·.name == n) = some d) (l : Nat) (s : Store)
    (args : List VCell) :
    interp P defs (l+1) n s args = (do
      let (s, venv) ← bindArgs d s args
      evalE P (handlers P defs l) l d.body venv [] s) := by
  simp [interp, handlers, h]

/-- lift a value-returning model to a `Res` on the unchanged store -/
def liftV (s : Store) (r : Outcome VCell) : Res := do .ok (s, ← r)

@[simp] theorem truthy_bool (s : Store) (b : Bool) : truthy s (.bool b) = .ok b := by cases b <;> rfl

theorem plusB_one (s : Store) (n : VCell) : plusB s [n, .num 1] = liftV s (add1 s n) := by
  have h1 : s.get (.num 1) = .ok (.num 1) := rfl
  simp only [plusB, add1, liftV, h1]
  cases hg : s.get n with
  | ok c => cases c <;> simp
  | _ => simp

section
variable {efuel : Nat} {user : String → Option Callee}

theorem plusB_two (s : Store) (n : VCell) : plusB s [n, .num 2] = liftV s (add2 s n) := by
  have h1 : s.get (.num 2) = .ok (.num 2) := rfl
  simp only [plusB, add2, liftV, h1]
  cases hg : s.get n with
  | ok c => cases c <;> simp
  | _ => simp

theorem cdr_lift (s : Store) (x : VCell) : cdr s [x] = (do let v ← cdrV s x; .ok (s, v)) := by
  simp only [cdrV, cdr]
  cases hg : s.get x with
  | ok c => cases c <;> rfl
  | _ => rfl

theorem isNullB_lift (s : Store) (x : VCell) : isNullB s [x] = (do let b ← nullP s x; .ok (s, .bool b)) := by
  simp only [isNullB, nullP]
  cases hg : s.get x <;> rfl

theorem eqvB_lift (s : Store) (x y : VCell) : eqvB s [x, y] = (do let b ← eqTest s x y; .ok (s, .bool b)) := by
  simp only [eqvB, eqTest]

/-- the `letrec`-bound `count`, whatever list the enclosing `length` was called with -/
theorem localFn_count (l0 : VCell) : ∀ (f : Nat) (s : Store) (fast slow n : VCell),
    (handlers (prims efuel user) defs f).localFn
        ⟨"count", ["fast", "slow", "n"], countBody, [("list", l0)]⟩ s [fast, slow, n] =
      liftV s (lengthCount f s fast slow n)
  | 0, s, fast, slow, n => rfl
  | f+1, s, fast, slow, n => by
    have hg1 := global_prim (P := prims efuel user) f (n := "null?") (by simp)
    have hg2 := global_prim (P := prims efuel user) f (n := "cdr") (by simp)
    have hg3 := global_prim (P := prims efuel user) f (n := "+") (by simp)
    have hg4 := global_prim (P := prims efuel user) f (n := "eq?") (by simp)
    have ih := localFn_count l0 f
    simp only [handlers, countBody, List.length_cons, List.length_nil, if_true, List.zip_cons_cons,
      List.zip_nil_right, List.cons_append, List.nil_append, evalE, callNamed, List.lookup, List.find?,
      hg1, hg2, hg3, hg4, prims, bind_ok]
    simp
    simp only [countBody] at ih
    simp only [ih, cdr_lift, isNullB_lift, eqvB_lift, plusB_one, plusB_two, liftV]
    rw [lengthCount]
    cases h1 : nullP s fast with
    | ok b1 =>
      cases b1 <;> simp
      cases h2 : cdrV s fast with
      | ok d =>
        simp only [bind_ok]
        cases h3 : nullP s d with
        | ok b3 =>
          cases b3 <;> simp
          cases h4 : cdrV s d with
          | ok dd =>
            simp only [bind_ok]
            cases h5 : cdrV s slow with
            | ok sd =>
              simp only [bind_ok]
              cases h6 : eqTest s dd sd with
              | ok b6 =>
                cases b6 <;> simp [h2, h4, h5, h6]
                cases add2 s n <;> simp
              | _ => simp [h2, h4, h5, h6]
            | _ => simp [h2, h4, h5]
          | _ => simp [h2, h4]
        | _ => simp
      | _ => simp
    | _ => simp

/-- **`length`** -/
theorem interp_length : ∀ (f : Nat) (s : Store) (l : VCell),
    interp (prims efuel user) defs f "length" s [l] = liftV s (length f s l)
  | 0, s, l => by rw [interp_zero find_length]; rfl
  | f+1, s, l => by
    rw [interp_succ find_length]
    simp only [lengthDef, bindArgs, List.length_cons, List.length_nil, List.zip_cons_cons, List.zip_nil_right,
      if_true, bind_ok, evalE, callNamed, List.lookup, List.find?]
    simp
    rw [localFn_count (efuel := efuel) (user := user) l f s l l (.num 0), length]
end

/-! ### `memq`, `memv`, `member` -/

open Expr in
/-- the shape the three `mem…` definitions share -/
def memDef (name test : String) : Def := ⟨name, ["obj", "list"], none,
  ite (call1 "null?" (var "list")) (const (.bool false))
    (ite (call2 test (call1 "car" (var "list")) (var "obj")) (var "list")
      (call2 name (var "obj") (call1 "cdr" (var "list"))))⟩

theorem find_memq : defs.find? (·.name == "memq") = some (memDef "memq" "eq?") := by decide +kernel
theorem find_memv : defs.find? (·.name == "memv") = some (memDef "memv" "eqv?") := by decide +kernel
theorem find_member : defs.find? (·.name == "member") = some (memDef "member" "equal?") := by decide +kernel

section
variable {efuel : Nat} {user : String → Option Callee}

/- one proof script for the three procedures: `$name` is the global, `$find` its lookup lemma,
   `$tname` the builtin its test calls, `$tst` the model's test -/
set_option hygiene false in
local macro "mem_proof" find:ident name:str tname:str ih:ident tst:term : tactic => `(tactic| (
    rw [interp_succ $find]
    have hg1 := global_prim (P := prims efuel user) f (n := "null?") (by simp)
    have hg2 := global_prim (P := prims efuel user) f (n := "cdr") (by simp)
    have hg3 := global_prim (P := prims efuel user) f (n := "car") (by simp)
    have hg4 := global_prim (P := prims efuel user) f (n := $tname) (by simp)
    have hgl : (handlers (prims efuel user) defs f).global $name = some (interp (prims efuel user) defs f $name) := by
      rw [global_eq, $find:ident]; rfl
    simp only [memDef, bindArgs, List.length_cons, List.length_nil, List.zip_cons_cons, List.zip_nil_right,
      if_true, bind_ok, evalE, callNamed, List.lookup, List.find?, hg1, hg2, hg3, hg4, hgl, prims]
    simp
    rw [mem, liftV]
    cases hg : s.get l with
    | ok c =>
      cases c <;> simp [isNullB, nullP, hg, cdr, cdrV, car, carV, VCell.isNil, liftV, $ih:ident f, eqvB, equalB,
        eqTest, equalTest]
      rename_i a d
      first
        | (cases eqv s obj (.ptr a) <;> simp
           rename_i b
           cases b <;> simp [hg]
           all_goals (cases mem $tst f s obj (.ptr d) <;> (try simp)))
        | (cases equal efuel s obj (.ptr a) <;> simp
           rename_i b
           cases b <;> simp [hg]
           all_goals (cases mem $tst f s obj (.ptr d) <;> (try simp)))
    | err e => simp [isNullB, nullP, hg]
    | panic m => simp [isNullB, nullP, hg]
    | diverge => simp [isNullB, nullP, hg]))

theorem interp_memq : ∀ (f : Nat) (s : Store) (obj l : VCell),
    interp (prims efuel user) defs f "memq" s [obj, l] = liftV s (mem eqTest f s obj l)
  | 0, s, obj, l => by rw [interp_zero find_memq]; rfl
  | f+1, s, obj, l => by mem_proof find_memq "memq" "eq?" interp_memq eqTest

theorem interp_memv : ∀ (f : Nat) (s : Store) (obj l : VCell),
    interp (prims efuel user) defs f "memv" s [obj, l] = liftV s (mem eqTest f s obj l)
  | 0, s, obj, l => by rw [interp_zero find_memv]; rfl
  | f+1, s, obj, l => by mem_proof find_memv "memv" "eqv?" interp_memv eqTest

theorem interp_member : ∀ (f : Nat) (s : Store) (obj l : VCell),
    interp (prims efuel user) defs f "member" s [obj, l] = liftV s (mem (equalTest efuel) f s obj l)
  | 0, s, obj, l => by rw [interp_zero find_member]; rfl
  | f+1, s, obj, l => by mem_proof find_member "member" "equal?" interp_member (equalTest efuel)
end

end Marwood.Store.Prelude
