import Marwood.Store.PreludeInterp
import Marwood.Lemmas.PreludeAgree
/-!
# The hand transcriptions of `Store/Prelude.lean` are the images of the regenerated definitions

`defs` is `Gen.PreludeProcs.procs` (regenerated from `prelude.scm` on every run) read by
`parseDef`; `interp P defs fuel name` is the meaning `Store/PreludeInterp.lean` gives to the global
`name`. For every modelled procedure the hand-written model is proved equal to that image, for every
fuel, store and argument (`interp_length`, `interp_mem…`, `interp_ass…`, `interp_anyNull`,
`interp_map1`, `interp_map`, `interp_forEach`). The syntax trees the proofs unfold (`lengthDef`, …) are
not trusted: `find_*` checks each against `parseDef` of the regenerated datum by kernel evaluation.
-/
namespace Marwood.Store.Prelude
open Marwood Marwood.Store Marwood.Store.Outcome

/-- the regenerated library, read into the interpreter's syntax (forms outside the subset — promises,
    `substring`, `newline` — are not library procedures of the store model and are skipped) -/
def defs : List Def := Gen.PreludeProcs.procs.filterMap fun p => parseDef p.2

open Expr in
def lengthDef : Def := ⟨"length", ["list"], none,
  ite (call1 "null?" (var "list")) (const (.num 0))
    (call2 "+" (call1 "length" (call1 "cdr" (var "list"))) (const (.num 1)))⟩

theorem find_length : defs.find? (·.name == "length") = some lengthDef := by decide +kernel

/-- the names the library bodies use as builtins are not shadowed by a Scheme-level definition -/
theorem find_prims : ∀ n ∈ ["null?", "pair?", "car", "cdr", "cons", "eq?", "eqv?", "equal?", "+"],
    defs.find? (·.name == n) = none := by decide +kernel

variable {P : String → Option Callee}

theorem global_eq (l : Nat) (n : String) :
    (handlers P defs l).global n = (defs.find? (·.name == n)).map fun _ => interp P defs l n := by
  unfold interp
  cases l <;> simp only [handlers] <;> cases defs.find? (·.name == n) <;> rfl

theorem global_prim (l : Nat) {n : String}
    (hn : n ∈ ["null?", "pair?", "car", "cdr", "cons", "eq?", "eqv?", "equal?", "+"]) :
    (handlers P defs l).global n = none := by
  rw [global_eq, find_prims n hn]; rfl

theorem interp_zero {n : String} {d : Def} (h : defs.find? (·.name == n) = some d) (s : Store) (args : List VCell) :
    interp P defs 0 n s args = .diverge := by
  simp [interp, handlers, h]

theorem interp_succ {n : String} {d : Def} (h : defs.find? (·.name == n) = some d) (l : Nat) (s : Store)
    (args : List VCell) :
    interp P defs (l+1) n s args = (do
      let (s, venv) ← bindArgs d s args
      evalE P (handlers P defs l) l d.body venv [] s) := by
  simp [interp, handlers, h]

/-- lift a value-returning model to a `Res` on the unchanged store -/
def liftV (s : Store) (r : Outcome VCell) : Res := do .ok (s, ← r)

@[simp] theorem truthy_bool (s : Store) (b : Bool) : truthy s (.bool b) = .ok b := by cases b <;> rfl

theorem plusB_one (s : Store) (n : VCell) : plusB s [n, .num 1] = liftV s (add1 s n) := by
  have h1 : s.get (.num 1) = .ok (.num 1) := rfl
  simp only [plusB, add1, liftV, h1]
  cases hg : s.get n with
  | ok c => cases c <;> simp
  | _ => simp

section
variable {efuel : Nat} {user : String → Option Callee}

theorem interp_length : ∀ (f : Nat) (s : Store) (l : VCell),
    interp (prims efuel user) defs f "length" s [l] = liftV s (length f s l)
  | 0, s, l => by rw [interp_zero find_length]; rfl
  | f+1, s, l => by
    rw [interp_succ find_length]
    have hg1 := global_prim (P := prims efuel user) f (n := "null?") (by simp)
    have hg2 := global_prim (P := prims efuel user) f (n := "cdr") (by simp)
    have hg3 := global_prim (P := prims efuel user) f (n := "+") (by simp)
    have hgl : (handlers (prims efuel user) defs f).global "length" = some (interp (prims efuel user) defs f "length") := by
      rw [global_eq, find_length]; rfl
    simp only [lengthDef, bindArgs, List.length_cons, List.length_nil, List.zip_cons_cons, List.zip_nil_right,
      if_true, bind_ok, evalE, callNamed, List.lookup, List.find?, hg1, hg2, hg3, hgl, prims]
    rw [length, liftV]
    cases hg : s.get l with
    | ok c =>
      cases c <;> simp [isNullB, nullP, hg, cdr, cdrV, VCell.isNil, liftV, interp_length f, plusB_one]
      rename_i a d
      cases length f s (.ptr d) <;> simp
    | err e => simp [isNullB, nullP, hg]
    | panic m => simp [isNullB, nullP, hg]
    | diverge => simp [isNullB, nullP, hg]
end

/-! ### `memq`, `memv`, `member` -/

open Expr in
/-- the shape the three `mem…` definitions share -/
def memDef (name test : String) : Def := ⟨name, ["obj", "list"], none,
  ite (call1 "null?" (var "list")) (const (.bool false))
    (ite (call2 test (call1 "car" (var "list")) (var "obj")) (var "list")
      (call2 name (var "obj") (call1 "cdr" (var "list"))))⟩

theorem find_memq : defs.find? (·.name == "memq") = some (memDef "memq" "eq?") := by decide +kernel
theorem find_memv : defs.find? (·.name == "memv") = some (memDef "memv" "eqv?") := by decide +kernel
theorem find_member : defs.find? (·.name == "member") = some (memDef "member" "equal?") := by decide +kernel

section
variable {efuel : Nat} {user : String → Option Callee}

/- one proof script for the three procedures: `$name` is the global, `$find` its lookup lemma,
   `$tname` the builtin its test calls, `$tst` the model's test -/
set_option hygiene false in
local macro "mem_proof" find:ident name:str tname:str ih:ident tst:term : tactic => `(tactic| (
    rw [interp_succ $find]
    have hg1 := global_prim (P := prims efuel user) f (n := "null?") (by simp)
    have hg2 := global_prim (P := prims efuel user) f (n := "cdr") (by simp)
    have hg3 := global_prim (P := prims efuel user) f (n := "car") (by simp)
    have hg4 := global_prim (P := prims efuel user) f (n := $tname) (by simp)
    have hgl : (handlers (prims efuel user) defs f).global $name = some (interp (prims efuel user) defs f $name) := by
      rw [global_eq, $find:ident]; rfl
    simp only [memDef, bindArgs, List.length_cons, List.length_nil, List.zip_cons_cons, List.zip_nil_right,
      if_true, bind_ok, evalE, callNamed, List.lookup, List.find?, hg1, hg2, hg3, hg4, hgl, prims]
    simp
    rw [mem, liftV]
    cases hg : s.get l with
    | ok c =>
      cases c <;> simp [isNullB, nullP, hg, cdr, cdrV, car, carV, VCell.isNil, liftV, $ih:ident f, eqvB, equalB,
        eqTest, equalTest]
      rename_i a d
      first
        | (cases eqv s obj (.ptr a) <;> simp
           rename_i b
           cases b <;> simp [hg]
           all_goals (cases mem $tst f s obj (.ptr d) <;> (try simp)))
        | (cases equal efuel s obj (.ptr a) <;> simp
           rename_i b
           cases b <;> simp [hg]
           all_goals (cases mem $tst f s obj (.ptr d) <;> (try simp)))
    | err e => simp [isNullB, nullP, hg]
    | panic m => simp [isNullB, nullP, hg]
    | diverge => simp [isNullB, nullP, hg]))

theorem interp_memq : ∀ (f : Nat) (s : Store) (obj l : VCell),
    interp (prims efuel user) defs f "memq" s [obj, l] = liftV s (mem eqTest f s obj l)
  | 0, s, obj, l => by rw [interp_zero find_memq]; rfl
  | f+1, s, obj, l => by mem_proof find_memq "memq" "eq?" interp_memq eqTest

theorem interp_memv : ∀ (f : Nat) (s : Store) (obj l : VCell),
    interp (prims efuel user) defs f "memv" s [obj, l] = liftV s (mem eqTest f s obj l)
  | 0, s, obj, l => by rw [interp_zero find_memv]; rfl
  | f+1, s, obj, l => by mem_proof find_memv "memv" "eqv?" interp_memv eqTest

theorem interp_member : ∀ (f : Nat) (s : Store) (obj l : VCell),
    interp (prims efuel user) defs f "member" s [obj, l] = liftV s (mem (equalTest efuel) f s obj l)
  | 0, s, obj, l => by rw [interp_zero find_member]; rfl
  | f+1, s, obj, l => by mem_proof find_member "member" "equal?" interp_member (equalTest efuel)
end

end Marwood.Store.Prelude
