import Marwood.Lemmas.CompileCorrect2Defs
/-!
# T01.3 stage 2 — inversion of `Spec.Eval` on lexical variables, `lambda`, and closure application
-/
namespace Marwood.Lemmas.CompileCorrect2
open Marwood Marwood.Lemmas.CompileCorrect
open Marwood.Spec.Eval

variable {r : Rec}

theorem kwOf_lambda : kwOf k_lambda = some .lambda := by decide

/-- a variable reference: lexical (the variable's cell) or global -/
theorem evalStep_sym_inv2 {x : Text} {ρ : Env} {σ σ' : SSt} {w : Val}
    (h : evalStep r (.sym x) ρ σ = .ok w σ') :
    σ' = σ ∧ ((∃ l, ρ.lookup x = some l ∧ σ.store[l]? = some (.var w)) ∨
              (ρ.lookup x = none ∧ σ.globals.lookup x = some w)) := by
  change evalVar x ρ σ = _ at h
  unfold evalVar at h
  split at h
  · exact absurd h throw_ne_ok
  · cases hl : ρ.lookup x with
    | some l =>
      rw [hl] at h
      change (readCell l >>= fun c => match c with | .var v => pure v | _ => throw .internal) σ = _ at h
      obtain ⟨c, σ1, h1, h2⟩ := bind_ok_inv h
      unfold readCell at h1
      cases hs : σ.store[l]? with
      | none => rw [hs] at h1; cases h1
      | some c' =>
        rw [hs] at h1
        injection h1 with h3 h4
        subst h3 h4
        cases c' with
        | var v =>
          obtain ⟨rfl, rfl⟩ := pure_ok_inv h2
          exact ⟨rfl, .inl ⟨l, rfl, hs⟩⟩
        | pair a d => exact absurd h2 throw_ne_ok
        | vec xs => exact absurd h2 throw_ne_ok
        | promise d v => exact absurd h2 throw_ne_ok
    | none =>
      rw [hl] at h
      change getGlobal x σ = _ at h
      unfold getGlobal at h
      cases hg : σ.globals.lookup x with
      | none => rw [hg] at h; cases h
      | some v =>
        rw [hg] at h
        injection h with h1 h2
        subst h1 h2
        exact ⟨rfl, .inr ⟨rfl, rfl⟩⟩

/-- `(set! x e)`: lexical (the cell is overwritten) or global -/
theorem evalStep_setBang_inv2 {x : Text} {e : Datum} {ρ : Env} {σ σ' : SSt} {w : Val}
    (h : evalStep r (.pair (.sym k_setBang) (.pair (.sym x) (.pair e .nil))) ρ σ = .ok w σ') :
    ∃ v σ1, r.eval e ρ σ = .ok v σ1 ∧ w = .void ∧
      ((∃ l, ρ.lookup x = some l ∧ l < σ1.store.size ∧
          σ' = { σ1 with store := σ1.store.setIfInBounds l (.var v) }) ∨
       (ρ.lookup x = none ∧ (∃ old, σ1.globals.lookup x = some old) ∧
          σ' = { σ1 with globals := insertG x v σ1.globals })) := by
  simp only [evalStep, kwOf_setBang, evalKw, properList, Option.map] at h
  split at h
  · exact absurd h throw_ne_ok
  · obtain ⟨v, σ1, h1, h2⟩ := bind_ok_inv h
    obtain ⟨u, σ2, h3, h4⟩ := bind_ok_inv h2
    obtain ⟨hw, hs⟩ := pure_ok_inv h4
    subst hs
    refine ⟨v, σ1, h1, hw, ?_⟩
    cases hl : ρ.lookup x with
    | some l =>
      simp only [assignVar, hl] at h3
      unfold writeCell at h3
      by_cases hlt : l < σ1.store.size
      · simp only [hlt, if_true] at h3
        injection h3 with _ h5
        exact .inl ⟨l, rfl, hlt, h5.symm⟩
      · simp only [hlt, if_false] at h3
        cases h3
    | none =>
      simp only [assignVar, hl] at h3
      unfold setGlobal at h3
      cases hg : σ1.globals.lookup x with
      | none => rw [hg] at h3; cases h3
      | some old =>
        rw [hg] at h3
        injection h3 with _ h5
        exact .inr ⟨rfl, ⟨old, rfl⟩, h5.symm⟩

/-- `(lambda formals body…)` evaluates to a closure over the current environment -/
theorem evalStep_lambda_inv {formals body : Datum} {ps : List Text} {rest : Option Text} {b : Datum}
    {bs : List Datum} {ρ : Env} {σ σ' : SSt} {w : Val}
    (hf : parseFormals formals = some (ps, rest)) (hb : properList body = some (b :: bs))
    (h : evalStep r (.pair (.sym k_lambda) (.pair formals body)) ρ σ = .ok w σ') :
    w = .closure ps rest (b :: bs) ρ ∧ σ' = σ := by
  simp only [evalStep, kwOf_lambda, evalKw, makeClosure, hf, hb] at h
  exact pure_ok_inv h

/-! ## binding the parameters -/

/-- `bindArgs` for a fixed-arity procedure: one fresh variable per parameter, in order -/
theorem bindArgs_inv : ∀ (ps : List Text) (args : List Val) (ρ ρ' : Env) (σ σ1 : SSt),
    ps.Nodup → bindArgs ps none args ρ σ = .ok ρ' σ1 →
    args.length = ps.length ∧ σ1.globals = σ.globals ∧ σ1.out = σ.out ∧
    σ1.store.size = σ.store.size + args.length ∧
    (∀ l, l < σ.store.size → σ1.store[l]? = σ.store[l]?) ∧
    (∀ i a, args[i]? = some a → σ1.store[σ.store.size + i]? = some (.var a)) ∧
    (∀ i x, ps[i]? = some x → ρ'.lookup x = some (σ.store.size + i)) ∧
    (∀ x, x ∉ ps → ρ'.lookup x = ρ.lookup x) := by
  intro ps
  induction ps with
  | nil =>
    intro args ρ ρ' σ σ1 _ h
    cases args with
    | nil =>
      simp only [bindArgs] at h
      obtain ⟨rfl, rfl⟩ := pure_ok_inv h
      exact ⟨rfl, rfl, rfl, rfl, fun _ _ => rfl, by intro i a hi; simp at hi, by intro i x hi; simp at hi,
        fun _ _ => rfl⟩
    | cons a as => simp only [bindArgs] at h; exact absurd h throw_ne_ok
  | cons p ps ih =>
    intro args ρ ρ' σ σ1 hnd h
    cases args with
    | nil => simp only [bindArgs] at h; exact absurd h throw_ne_ok
    | cons a as =>
      simp only [bindArgs] at h
      obtain ⟨l, σ0, h1, h2⟩ := bind_ok_inv h
      unfold allocCell at h1
      injection h1 with hl hσ
      subst hl hσ
      have hnd' : ps.Nodup := (List.nodup_cons.mp hnd).2
      have hp : p ∉ ps := (List.nodup_cons.mp hnd).1
      obtain ⟨e1, e2, e3, e4, e5, e6, e7, e8⟩ := ih as _ ρ' _ σ1 hnd' h2
      simp only [Array.size_push] at e4 e5 e6 e7
      refine ⟨by simp [e1], e2, e3, by simp [e4]; omega, ?_, ?_, ?_, ?_⟩
      · intro l hl
        rw [e5 l (by omega)]
        simp [Array.getElem?_push, Nat.ne_of_lt hl]
      · intro i v hi
        cases i with
        | zero =>
          simp at hi; subst hi
          rw [Nat.add_zero, e5 σ.store.size (by omega)]
          simp
        | succ j =>
          simp at hi
          have := e6 j v hi
          rwa [show σ.store.size + 1 + j = σ.store.size + (j + 1) by omega] at this
      · intro i x hi
        cases i with
        | zero =>
          simp at hi; subst hi
          rw [Nat.add_zero, e8 p hp]
          simp [List.lookup]
        | succ j =>
          simp at hi
          have := e7 j x hi
          rwa [show σ.store.size + 1 + j = σ.store.size + (j + 1) by omega] at this
      · intro x hx
        have hx1 : x ≠ p := fun e => hx (e ▸ List.mem_cons_self)
        have hx2 : x ∉ ps := fun e => hx (List.mem_cons_of_mem _ e)
        rw [e8 x hx2]
        have : (x == p) = false := by simpa using hx1
        simp [List.lookup, this]

/-- application of a closure: bind, then the body -/
theorem applyStep_closure_inv {ps : List Text} {body : List Datum} {ρc : Env} {args : List Val}
    {σ σ' : SSt} {w : Val}
    (h : applyStep r (.closure ps none body ρc) args σ = .ok w σ') :
    ∃ ρ' σ1, bindArgs ps none args ρc σ = .ok ρ' σ1 ∧ evalBody r ρ' body σ1 = .ok w σ' := by
  simp only [applyStep] at h
  obtain ⟨ρ', σ1, h1, h2⟩ := bind_ok_inv h
  exact ⟨ρ', σ1, h1, h2⟩

/-! ## bodies without internal definitions -/

theorem evalBodyForms_last {ρ : Env} {d : Bool} {e : Datum} (he : isDefine e = false) :
    evalBodyForms r ρ d [e] = r.eval e ρ := by
  simp [evalBodyForms, he]

theorem evalBodyForms_cons {ρ : Env} {d : Bool} {e e' : Datum} {es : List Datum} (he : isDefine e = false) :
    evalBodyForms r ρ d (e :: e' :: es) = (r.eval e ρ >>= fun _ => evalBodyForms r ρ false (e' :: es)) := by
  simp [evalBodyForms, he]

theorem evalBody_noDefs {ρ : Env} {b : Datum} {bs : List Datum} (hb : isDefine b = false) :
    evalBody r ρ (b :: bs) = evalBodyForms r ρ true (b :: bs) := by
  funext σ
  simp only [evalBody, leadingDefs, hb, Bool.false_eq_true, if_false, List.map_nil, allocVars]
  rfl

end Marwood.Lemmas.CompileCorrect2
