import Marwood.Lemmas.ContResumeStep
/-!
# Live equivalence of machine states, and runs

`LiveEq a b`: same registers, same heap, same `sp`, same stack cells `0 ..= sp`. Stale cells above
`sp` and the capacity may differ. `step_live_congruence`: `step` respects `LiveEq`;
`runN_live_congruence`: so does any number of steps, including reaching HALT.
-/
namespace Marwood.Vm
open Verify Stack

variable {H : Type} {ops : HeapOps H}

structure LiveEq (a b : St H) : Prop where
  sp : a.stack.sp = b.stack.sp
  cells : a.stack.cells.take (a.stack.sp + 1) = b.stack.cells.take (b.stack.sp + 1)
  acc : a.acc = b.acc
  ep : a.ep = b.ep
  ipL : a.ipL = b.ipL
  ipO : a.ipO = b.ipO
  bp : a.bp = b.bp
  heap : a.heap = b.heap

theorem LiveEq.refl (a : St H) : LiveEq a a := ⟨rfl, rfl, rfl, rfl, rfl, rfl, rfl, rfl⟩

theorem LiveEq.symm {a b : St H} (h : LiveEq a b) : LiveEq b a :=
  ⟨h.sp.symm, h.cells.symm, h.acc.symm, h.ep.symm, h.ipL.symm, h.ipO.symm, h.bp.symm, h.heap.symm⟩

theorem LiveEq.trans {a b c : St H} (h : LiveEq a b) (g : LiveEq b c) : LiveEq a c :=
  ⟨h.sp.trans g.sp, h.cells.trans g.cells, h.acc.trans g.acc, h.ep.trans g.ep, h.ipL.trans g.ipL,
    h.ipO.trans g.ipO, h.bp.trans g.bp, h.heap.trans g.heap⟩

theorem cellAt_of_take {a b : Stack} {n : Nat} (h : a.cells.take n = b.cells.take n) {i : Nat} (hi : i < n) :
    a.cellAt i = b.cellAt i := by
  unfold Stack.cellAt
  have := congrArg (fun l => l[i]?) h
  simp only [List.getElem?_take, hi, if_true] at this
  rw [this]

theorem take_of_cellAt {a b : Stack} {n : Nat} (ha : n ≤ a.cells.length) (hb : n ≤ b.cells.length)
    (h : ∀ i, i < n → a.cellAt i = b.cellAt i) : a.cells.take n = b.cells.take n :=
  take_eq_of_cellAt hb ha h

/-- live-equal states whose stack pointers are inside their stacks: the second is the first with
    another stack that agrees on the live cells -/
theorem LiveEq.agree {a b : St H} (h : LiveEq a b) (ha : a.stack.sp < a.stack.cells.length)
    (hb : b.stack.sp < b.stack.cells.length) :
    b = { a with stack := b.stack } ∧ Agree a.stack.sp a.stack b.stack := by
  refine ⟨?_, h.sp, Nat.le_refl _, ha, by rw [h.sp]; exact hb, ?_⟩
  · obtain ⟨_, _, h3, h4, h5, h6, h7, h8⟩ := h
    cases a; cases b
    simp only at h3 h4 h5 h6 h7 h8
    subst h3 h4 h5 h6 h7 h8
    rfl
  · intro i hi
    have hc := h.cells
    rw [← h.sp] at hc
    exact cellAt_of_take hc (by omega)

theorem LiveEq.of_agree {a : St H} {b : Stack} (h : Agree a.stack.sp a.stack b) :
    LiveEq a { a with stack := b } := by
  refine ⟨h.sp, ?_, rfl, rfl, rfl, rfl, rfl, rfl⟩
  show a.stack.cells.take (a.stack.sp + 1) = b.cells.take (b.sp + 1)
  rw [← h.sp]
  exact take_of_cellAt (by have := h.capa; omega) (by have := h.capb; omega)
    (fun i hi => h.cells i (by omega))

/-- WF-stack is a property of the live part of a state -/
theorem WFS.of_liveEq {cl : CodeLaws ops} {a b : St H} {K : List FDesc} (hw : WFS cl a K) (h : LiveEq a b)
    (hb : b.stack.sp < b.stack.cells.length) : WFS cl b K := by
  obtain ⟨e, hag⟩ := h.agree hw.wf.cap hb
  refine ⟨by rw [← h.heap]; exact hw.inv, ⟨hb, ?_⟩, by rw [← h.acc]; exact hw.acc, ?_⟩
  · rw [← h.heap, ← h.sp, ← h.bp, ← h.ipL, ← h.ipO]
    exact hw.wf.frames.congr (fun i hi => (hag.cells i hi).symm)
  · intro t n ht hpre hA
    rw [← h.heap, ← h.ipL] at ht
    rw [← h.ipO] at hpre
    rw [← h.sp] at hA
    have hA' : a.stack.cellAt (a.stack.sp - 2) = .argc n := by
      rw [← hag.cells _ (by omega)] at hA; exact hA
    rw [← h.heap, ← h.acc, ← h.ipL]
    exact hw.pre t n ht hpre hA'

theorem BpLive.of_liveEq {a b : St H} (hl : BpLive ops a) (h : LiveEq a b) : BpLive ops b := by
  intro off hf
  rw [← h.heap, ← h.ipL, ← h.ipO] at hf
  have := hl off hf
  rw [← h.bp, ← h.sp]
  exact this

/-- **`step_live_congruence`**: `step` is a function of (live stack, registers, heap). Two states
    that agree on `cells.take (sp+1)`, `sp`, `acc`, `ep`, `ip`, `bp` and the heap — the first of them
    WF — take the same step, up to the same agreement. Hypotheses besides WF-stack: see
    `Lemmas/ContResumeStep.lean` (`LiveLaws`, `BpLive`, and that an invoked continuation fits the
    second state's capacity). -/
theorem step_live_congruence {cl : CodeLaws ops} (ll : LiveLaws cl) {s1 s2 r1 : St H} {K : List FDesc} {bl : Bool}
    (hw : WFS cl s1 K) (heq : LiveEq s1 s2) (hcap2 : s2.stack.sp < s2.stack.cells.length)
    (hbl : BpLive ops s1)
    (hfit : ∀ c, ops.callee s1.heap s1.acc = .continuation c → c.stack.cells.length ≤ s2.stack.cells.length)
    (hs : step ops s1 = .ok (r1, bl)) :
    ∃ r2, step ops s2 = .ok (r2, bl) ∧ LiveEq r1 r2 ∧ r2.stack.sp < r2.stack.cells.length := by
  obtain ⟨e, hag⟩ := heq.agree hw.wf.cap hcap2
  obtain ⟨b', q, hag'⟩ := step_stack ll hw hag hbl hfit hs
  refine ⟨{ r1 with stack := b' }, by rw [e]; exact q, LiveEq.of_agree hag', ?_⟩
  show b'.sp < b'.cells.length
  have := hag'.capb; have := hag'.sp; omega

/-! ## runs -/

/-- execute at most `n` instructions; stops at HALT (`ok (s, true)`) or at the first failure -/
def runN (ops : HeapOps H) : Nat → St H → Outcome (St H × Bool)
  | 0, s => .ok (s, false)
  | n + 1, s =>
    match step ops s with
    | .ok (s', false) => runN ops n s'
    | r => r

/-- the side conditions of `step_live_congruence` along the first `n` steps of two runs in lock step:
    at every instruction the `BasePointerOffset` source operand (if any) is live, and an invoked
    continuation's stack copy fits the capacity of the second machine's stack. The latter stands for
    the real-code fact that `Stack` never shrinks (`stack.rs`: `grow` doubles, nothing truncates —
    `clear` and the error epilogue keep the capacity; seeded changes C05-2 / C07-1 break exactly
    this), so a copy of a prefix of this VM's stack always fits. -/
def SideOK (ops : HeapOps H) : Nat → St H → St H → Prop
  | 0, _, _ => True
  | n + 1, s1, s2 =>
    BpLive ops s1 ∧
    (∀ c, ops.callee s1.heap s1.acc = .continuation c → c.stack.cells.length ≤ s2.stack.cells.length) ∧
    ∀ r1 r2, step ops s1 = .ok (r1, false) → step ops s2 = .ok (r2, false) → SideOK ops n r1 r2

/-- **the whole continuation of a run depends on the live state only**: from live-equal states, any
    number of steps — through nested calls, captures, invocations of other continuations — ends in
    live-equal states with the same flag; in particular both reach HALT together, with the same
    `acc` (the value of the evaluation) and the same heap. -/
theorem runN_live_congruence {cl : CodeLaws ops} (ll : LiveLaws cl) : ∀ (n : Nat) {s1 s2 r1 : St H}
    {K : List FDesc} {bl : Bool}, WFS cl s1 K → LiveEq s1 s2 → s2.stack.sp < s2.stack.cells.length →
    SideOK ops n s1 s2 → runN ops n s1 = .ok (r1, bl) →
    ∃ r2, runN ops n s2 = .ok (r2, bl) ∧ LiveEq r1 r2 := by
  intro n
  induction n with
  | zero =>
    intro s1 s2 r1 K bl _ heq _ _ hr
    simp only [runN] at hr ⊢
    cases hr
    exact ⟨s2, rfl, heq⟩
  | succ n ih =>
    intro s1 s2 r1 K bl hw heq hcap2 hside hr
    obtain ⟨hbl, hfit, hnext⟩ := hside
    simp only [runN] at hr ⊢
    cases hst : step ops s1 with
    | err e => rw [hst] at hr; cases hr
    | panic m => rw [hst] at hr; cases hr
    | ok p =>
      obtain ⟨m1, b1⟩ := p
      obtain ⟨m2, q, hle, hc2⟩ := step_live_congruence ll hw heq hcap2 hbl hfit hst
      rw [hst] at hr
      rw [q]
      cases b1 with
      | true =>
        simp only at hr ⊢
        cases hr
        exact ⟨m2, rfl, hle⟩
      | false =>
        simp only at hr ⊢
        obtain ⟨K', hw', _⟩ := step_preserves hw hst
        exact ih hw' hle hc2 (hnext m1 m2 hst q) hr

end Marwood.Vm
