import Marwood.Lemmas.EvalK
import Marwood.Lemmas.EvalKTable
/-! # A continuation is a value: it can be re-entered any number of times, from any later state -/
namespace Marwood.Lemmas.EvalK
open Marwood Marwood.Spec.Eval Marwood.Spec.EvalK

/-- `n` steps of the machine with `call/cc`; `halt` and `stuck` are absorbing -/
def iterK : Nat → Next → Next
  | 0, x => x
  | n+1, .run s => iterK n (stepK s)
  | _+1, x => x

/-- an entry of the continuation table is never changed or removed by the machine -/
theorem iterK_ks_mono (i : Nat) (κ : Kont) : ∀ (n : Nat) (s s' : State),
    iterK n (.run s) = .run s' → s.ks[i]? = some κ → s'.ks[i]? = some κ := by
  intro n
  induction n with
  | zero => intro s s' h hi; simp only [iterK, Next.run.injEq] at h; subst h; exact hi
  | succ n ih =>
    intro s s' h hi
    simp only [iterK] at h
    cases hs : stepK s with
    | run s1 =>
      rw [hs] at h
      exact ih s1 s' h (step_ks_mono true s s1 hs i κ hi)
    | halt o σ ks => rw [hs] at h; cases n <;> simp [iterK] at h
    | stuck => rw [hs] at h; cases n <;> simp [iterK] at h

/-- **re-entry any number of times**: let `contVal i` denote `κ'` in state `s`. In EVERY state `s'` the machine reaches
    from `s` — after any number of steps, hence after any number of earlier invocations of the same continuation,
    inside or after the extent of its `call/cc`, in the capturing top-level evaluation or a later one (the table is part
    of the session state) — applying it to `v` from whatever continuation `κnow` is current yields `ret v` to `κ'` on the
    store of `s'`: the n-th invocation runs `κ'` exactly like the first, on the store as it is then -/
theorem reentry_any_number_of_times (i : Nat) (κ' : Kont) (n : Nat) (s s' : State)
    (h0 : s.ks[i]? = some κ') (hreach : iterK n (.run s) = .run s') (v : Val) (κnow : Kont) :
    stepK ⟨.app (contVal i) [v], κnow, s'.σ, s'.ks⟩ = .run ⟨.ret v, κ', s'.σ, s'.ks⟩ :=
  throw_discards_context i κ' [v] v κnow s'.σ s'.ks (iterK_ks_mono i κ' n s s' hreach h0) rfl

/-- the continuation captured by a `call/cc` is available, unchanged, in every later state -/
theorem captured_stays (f : Val) (κ : Kont) (σ : St) (ks : Array Kont) (hf : isProcedure f = true)
    (n : Nat) (s' : State) (hreach : iterK (n + 1) (.run ⟨.app callccVal [f], κ, σ, ks⟩) = .run s') :
    s'.ks[ks.size]? = some κ := by
  simp only [iterK] at hreach
  rw [callcc_captures f κ σ ks hf] at hreach
  exact iterK_ks_mono ks.size κ n _ s' hreach (by simp)

end Marwood.Lemmas.EvalK
