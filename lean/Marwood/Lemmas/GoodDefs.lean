import Marwood.Lemmas.SimRefl
import Marwood.Lemmas.HeapWFOps
/-!
# `Safe` as an invariant: definitions

`Lemmas/SimMain.lean` assumes `Good` of **every** state along a run (`Safe`). This family of files
(`Lemmas/Good*.lean`) proves the clauses that are genuine invariants of `run_one` and of `run_gc`.

* `HG h` — the heap part: `WFHeap` of the erasure (T03.3), the kind discipline `Plain`, the code discipline
  `LamAll` (every lambda object: no `IofArgument` entry — `NoIofArg` — and every `MOV` / `MOVIMM` has a
  non-`Ptr` source and destination / an immediate that is a pointer or address-free), and the environment
  discipline `EnvOk` (a slot of a lexical environment is a value, or a one-level `LexicalEnvPtr` to a slot
  holding a value).
* `GoodI s` — `HG s.heap`, `RootsOk`, and `acc` holds a value (`plainGlob`: pointer or address-free).
* `StackDisc s` — what is **not** an invariant of `run_one` over arbitrary stacks: the frame discipline of
  the current instruction (bp-relative reads at or below `sp`, a complete frame at RET / TCALL — the two
  stack clauses of `Good` — and: the stack cells the instruction consumes *as values* hold values, not frame
  header cells). It follows from WF-stack (C04/C05) once the verifier types bp-relative sources and
  temporaries; here it is a named hypothesis along the run.
* `Small h` — fewer than `2^62` cells (so that a growth by the factor 1.5 stays below the sentinel
  addresses): the physical bound, the one remaining size hypothesis.
-/
namespace Marwood.Lemmas.Good
open Marwood Marwood.Vm Marwood.Vm.Concrete Marwood.Lemmas.Sim
open Marwood.Heap (GcState WFHeap RootsOk vrefs vrefsList crefs bcRefs)

/-- `y` is an allocated cell of `h`, or a sentinel -/
def NF (h : CHeap) (y : Nat) : Prop := (toHeap h).NonFree y ∨ Heap.Sentinel y

/-- every address the marker follows from the inline value `v` is allocated -/
def VRefsOk (h : CHeap) (v : VCell) : Prop := ∀ y ∈ vrefs true (eraseV v), NF h y

/-- every address the marker follows from a heap cell with content `c` is allocated
    (`Lemmas.HeapWFOps.RefsOk` of the erasure) -/
def CRefsOk (h : CHeap) (c : CCell) : Prop := ∀ y ∈ crefs true (eraseC c), NF h y

/-- a first-class value in `h`: a pointer to an allocated cell, or address-free -/
def VOk (h : CHeap) (v : VCell) : Prop := plainGlob v = true ∧ VRefsOk h v

def Small (h : CHeap) : Prop := 2 * h.cells.size ≤ 2 ^ 63

/-! ## code discipline -/

def notPtr : VCell → Bool
  | .ptr _ => false
  | _ => true

def opndAll (P : VCell → Bool) : Option VCell → Bool
  | some v => P v
  | none => true

structure LamOk (l : CLambda) : Prop where
  noIof : ∀ p ∈ l.envmap, ∀ a, p.2 ≠ Source.iofArg a
  mov : ∀ j, l.bc[j]? = some (.opcode .mov) →
    opndAll notPtr l.bc[j + 1]? = true ∧ opndAll notPtr l.bc[j + 2]? = true
  movImm : ∀ j, l.bc[j]? = some (.opcode .movImm) →
    opndAll plainGlob l.bc[j + 1]? = true ∧ opndAll notPtr l.bc[j + 2]? = true

def LamAll (h : CHeap) : Prop := ∀ (i : Nat) (l : CLambda), h.cells[i]? = some (CCell.lambda l) → LamOk l

/-! ## environment discipline -/

/-- a slot of a lexical environment: a value, or a pointer to a slot (of some environment) holding a value -/
def SlotOk (h : CHeap) (v : VCell) : Prop :=
  plainGlob v = true ∨ ∃ e k ss w, v = .lexEnvPtr e k ∧ h.cells[e]? = some (CCell.lexEnv ss) ∧ ss[k]? = some w ∧
    plainGlob w = true

def EnvOk (h : CHeap) : Prop :=
  ∀ (i : Nat) (ss : List VCell), h.cells[i]? = some (CCell.lexEnv ss) → ∀ v ∈ ss, SlotOk h v

/-! ## the heap invariant -/

structure HG (h : CHeap) : Prop where
  wf : WFHeap true (toHeap h)
  plain : Plain h
  lam : LamAll h
  env : EnvOk h

/-- `h'` is a later heap -/
structure Mono (h h' : CHeap) : Prop where
  size : h.cells.size ≤ h'.cells.size
  nf : ∀ y, (toHeap h).NonFree y → (toHeap h').NonFree y

structure GoodI (s : St CHeap) : Prop where
  hg : HG s.heap
  roots : RootsOk (toHeap s.heap) ((rootsOf s).refs true)
  accv : plainGlob s.acc = true

/-! ## the stack discipline of the current instruction (hypothesis along the run) -/

/-- if cell `k` is `ArgumentCount(n)`, the `n` cells below it hold values -/
def ArgBlock (st : Stack) (k : Nat) : Prop :=
  ∀ n, st.cells[k]? = some (VCell.argc n) → ∀ i v, i < k → k ≤ i + n → st.cells[i]? = some v → plainGlob v = true

def opAt (s : St CHeap) (op : Op) : Prop :=
  ∃ l, lambdaAt s.heap s.ipL = some l ∧ l.bc[s.ipO]? = some (VCell.opcode op)

structure StackDisc (s : St CHeap) : Prop where
  bpLive : BpLive { s with ipO := s.ipO + 1 }
  frameLive : ∀ l, lambdaAt s.heap s.ipL = some l →
    (l.bc[s.ipO]? = some (.opcode .ret) ∨ l.bc[s.ipO]? = some (.opcode .tcallAcc)) → FrameLive s
  /-- `MOV bp[off] …` reads a value -/
  src : ∀ l off v, lambdaAt s.heap s.ipL = some l → l.bc[s.ipO]? = some (.opcode .mov) →
    l.bc[s.ipO + 1]? = some (VCell.bpOffset off) → 0 ≤ (s.bp : Int) + off →
    s.stack.cells[((s.bp : Int) + off).toNat]? = some v → plainGlob v = true
  /-- CONS pops two values -/
  cons : opAt s .cons → ∀ i v, i ≤ s.stack.sp → s.stack.sp ≤ i + 1 → s.stack.cells[i]? = some v → plainGlob v = true
  /-- CALL / TCALL: the argument block under the `ArgumentCount` on top of the stack holds values -/
  call : opAt s .callAcc ∨ opAt s .tcallAcc → ArgBlock s.stack s.stack.sp
  /-- ENTER / VARARG: so does the argument block under the two header cells CALL pushed -/
  enter : opAt s .enter ∨ opAt s .varArg → ArgBlock s.stack (s.stack.sp - 2)

/-! ## basic facts -/

theorem Mono.refl (h : CHeap) : Mono h h := ⟨Nat.le_refl _, fun _ x => x⟩

theorem Mono.trans {a b c : CHeap} (x : Mono a b) (y : Mono b c) : Mono a c :=
  ⟨Nat.le_trans x.size y.size, fun z hz => y.nf z (x.nf z hz)⟩

theorem NF.mono {h h' : CHeap} (m : Mono h h') {y : Nat} (x : NF h y) : NF h' y := by
  rcases x with x | x
  · exact .inl (m.nf y x)
  · exact .inr x

theorem VRefsOk.mono {h h' : CHeap} (m : Mono h h') {v : VCell} (x : VRefsOk h v) : VRefsOk h' v :=
  fun y hy => (x y hy).mono m

theorem VOk.mono {h h' : CHeap} (m : Mono h h') {v : VCell} (x : VOk h v) : VOk h' v := ⟨x.1, x.2.mono m⟩

theorem Small.of_le {h h' : CHeap} (x : Small h') (le : h.cells.size ≤ h'.cells.size) : Small h := by
  unfold Small at *; omega

theorem Small.sizeOk {h : CHeap} (x : Small h) : SizeOk h := by
  unfold Small at x; unfold SizeOk; omega

theorem vrefs_addrFree {v : VCell} (hf : addrFree v = true) : vrefs true (eraseV v) = [] := by
  cases v with
  | «opaque» tag => simp only [eraseV]; split <;> simp [vrefs]
  | opcode op => simp [eraseV, vrefs]
  | pair _ _ | closure _ _ | lexEnvPtr _ _ | envPtr _ | instrPtr _ _ | ptr _ => simp [addrFree] at hf
  | _ => simp [eraseV, vrefs]

theorem VRefsOk.of_addrFree (h : CHeap) {v : VCell} (hf : addrFree v = true) : VRefsOk h v := by
  intro y hy; rw [vrefs_addrFree hf] at hy; cases hy

theorem VOk.of_addrFree (h : CHeap) {v : VCell} (hf : addrFree v = true) : VOk h v :=
  ⟨by simp [plainGlob, hf], .of_addrFree h hf⟩

theorem VRefsOk.ptr {h : CHeap} {a : Nat} : VRefsOk h (.ptr a) ↔ NF h a := by
  simp [VRefsOk, eraseV, vrefs]

theorem VOk.ptr {h : CHeap} {a : Nat} (x : NF h a) : VOk h (.ptr a) := ⟨rfl, VRefsOk.ptr.mpr x⟩

/-- a value is a pointer or address-free -/
theorem plainGlob_cases {v : VCell} (hp : plainGlob v = true) : (∃ a, v = .ptr a) ∨ addrFree v = true := by
  unfold plainGlob at hp
  cases v <;> simp [isPtr] at hp ⊢ <;> first | exact hp | rfl

theorem plainGlob_plainVal {v : VCell} (hp : plainGlob v = true) : plainVal v = true := by
  rcases plainGlob_cases hp with ⟨a, rfl⟩ | hf
  · rfl
  · cases v <;> first | rfl | simp [addrFree] at hf

/-- the marker follows at most as much from a heap cell `val v` as from the inline value `v` -/
theorem crefs_sub_vrefs (v : VCell) : ∀ y ∈ crefs true (eraseV v), y ∈ vrefs true (eraseV v) := by
  intro y hy
  cases v with
  | «opaque» tag => simp only [eraseV] at hy ⊢; split at hy <;> simp [crefs] at hy
  | pair _ _ | closure _ _ | envPtr _ | ptr _ => simpa [eraseV, crefs, vrefs] using hy
  | _ => simp [eraseV, crefs] at hy

theorem CRefsOk.val {h : CHeap} {v : VCell} (x : VRefsOk h v) : CRefsOk h (.val v) :=
  fun y hy => x y (crefs_sub_vrefs v y hy)

/-- for a cell content that is not a bare `LexicalEnvPtr` / `InstructionPointer` both views agree -/
theorem vrefs_sub_crefs {v : VCell} (hp : plainVal v = true) : ∀ y ∈ vrefs true (eraseV v), y ∈ crefs true (eraseV v) := by
  intro y hy
  cases v with
  | «opaque» tag => simp only [eraseV] at hy ⊢; split at hy <;> simp [vrefs] at hy
  | pair _ _ | closure _ _ | envPtr _ | ptr _ => simpa [eraseV, crefs, vrefs] using hy
  | lexEnvPtr _ _ | instrPtr _ _ => simp [plainVal] at hp
  | _ => simp [eraseV, vrefs] at hy

theorem vrefsList_mem_iff {l : List VCell} {x : Nat} :
    x ∈ vrefsList true (l.map eraseV) ↔ ∃ c ∈ l, x ∈ vrefs true (eraseV c) := by
  induction l with
  | nil => simp [vrefsList]
  | cons d ds ih =>
    simp only [List.map_cons, vrefsList, List.mem_append, ih, List.mem_cons]
    constructor
    · rintro (h | ⟨c, hc, hx⟩)
      · exact ⟨d, .inl rfl, h⟩
      · exact ⟨c, .inr hc, hx⟩
    · rintro ⟨c, hc | hc, hx⟩
      · subst hc; exact .inl hx
      · exact .inr ⟨c, hc, hx⟩

theorem CRefsOk.lexEnv {h : CHeap} {ss : List VCell} (x : ∀ v ∈ ss, VRefsOk h v) : CRefsOk h (.lexEnv ss) := by
  intro y hy
  simp only [eraseC, crefs] at hy
  obtain ⟨c, hc, hx⟩ := vrefsList_mem_iff.mp hy
  exact x c hc y hx

theorem CRefsOk.cont {h : CHeap} {k : Cont} (x : ∀ v ∈ k.stack.cells, VRefsOk h v) (hl : NF h k.ipL) (he : NF h k.ep) :
    CRefsOk h (.cont k) := by
  intro y hy
  simp only [eraseC, crefs, Heap.contRefs, List.mem_append, List.mem_cons, List.not_mem_nil, or_false] at hy
  rcases hy with hy | hy | hy
  · obtain ⟨c, hc, hx⟩ := vrefsList_mem_iff.mp hy
    exact x c hc y hx
  · subst hy; exact hl
  · subst hy; exact he

/-! ## reading `RootsOk` -/

section roots
variable {s : St CHeap}

theorem roots_acc (r : RootsOk (toHeap s.heap) ((rootsOf s).refs true)) : VRefsOk s.heap s.acc :=
  fun y hy => r y (mem_refs_acc (by simpa [rootsOf] using hy))

theorem roots_ep (r : RootsOk (toHeap s.heap) ((rootsOf s).refs true)) : NF s.heap s.ep :=
  r _ (by simp [Heap.Roots.refs, rootsOf])

theorem roots_ipL (r : RootsOk (toHeap s.heap) ((rootsOf s).refs true)) : NF s.heap s.ipL :=
  r _ (by simp [Heap.Roots.refs, rootsOf])

theorem roots_stack (r : RootsOk (toHeap s.heap) ((rootsOf s).refs true)) {i : Nat} {v : VCell}
    (hi : i ≤ s.stack.sp) (hv : s.stack.cells[i]? = some v) : VRefsOk s.heap v := by
  intro y hy
  refine r y (mem_refs_stack ?_)
  simp only [rootsOf]
  refine vrefsList_mem_iff.mpr ⟨v, ?_, hy⟩
  rw [List.mem_iff_getElem?]
  exact ⟨i, by rw [List.getElem?_take]; simp [Nat.lt_succ_of_le hi, hv]⟩

theorem roots_glob (r : RootsOk (toHeap s.heap) ((rootsOf s).refs true)) (pl : Plain s.heap) {v : VCell}
    (hv : v ∈ s.heap.globals.toList) : VOk s.heap v := by
  have hp := pl.globals v hv
  refine ⟨hp, ?_⟩
  rcases plainGlob_cases hp with ⟨a, rfl⟩ | hf
  · refine VRefsOk.ptr.mpr (r a (mem_refs_slot ?_))
    simp only [rootsOf]
    exact List.mem_map.mpr ⟨_, hv, rfl⟩
  · exact .of_addrFree _ hf

theorem GoodI.accOk (g : GoodI s) : VOk s.heap s.acc := ⟨g.accv, roots_acc g.roots⟩

end roots

/-- an address with a cell below the sentinel bound that is `NF` is allocated -/
theorem NF.nonFree {h : CHeap} (wf : WFHeap true (toHeap h)) {y : Nat} {c : CCell} (x : NF h y)
    (hc : h.cells[y]? = some c) : (toHeap h).NonFree y := by
  rcases x with x | x
  · exact x
  · exfalso
    have hlt := lt_of_get_some hc
    have hb := wf.bound
    simp only [toHeap, Array.size_map] at hb
    unfold Heap.Sentinel at x
    omega

/-- the content of an allocated cell refers to allocated cells -/
theorem HG.closed {h : CHeap} (g : HG h) {y : Nat} {c : CCell} (hy : (toHeap h).NonFree y) (hc : h.cells[y]? = some c) :
    CRefsOk h c := by
  intro z hz
  refine g.wf.closed y hy z ?_
  rw [toHeap_children, hc]; exact hz

theorem GoodI.good {s : St CHeap} (g : GoodI s) (sm : Small s.heap) (sd : StackDisc s) : Good s :=
  ⟨sm.sizeOk, g.hg.plain, g.hg.wf, g.roots, fun i l hc => (g.hg.lam i l hc).noIof, sd.bpLive, sd.frameLive⟩

/-- inversion of a monadic bind that succeeded -/
theorem bind_ok {α β : Type} {x : Outcome α} {f : α → Outcome β} {r : β} (h : (x >>= f) = .ok r) :
    ∃ a, x = .ok a ∧ f a = .ok r := by
  cases x with
  | ok a => exact ⟨a, rfl, h⟩
  | err e => cases h
  | panic m => cases h

end Marwood.Lemmas.Good
