import Marwood.Lemmas.CompileCorrect2Quote
import Marwood.Lemmas.CompileCorrect2ErrAtoms
/-!
# `quote` of compound data — every hypothesis discharged on the concrete heap for `'(1 . 2)`

The concrete heap model (`Vm/ConcreteHeap.lean`) has real pair cells. The constant `(1 . 2)` is laid out as
`put_cell` does: cell 1 holds `Pair(2, 3)`, cells 2 and 3 the numbers; the code `MOV-IMMEDIATE <ptr 1> %acc` sits
in the lambda at cell 0. The representation is the closure (`ClosedVR`) of the store-free representation
`atomVR` of stage 1 under the pair / vector rules, for which `QuoteLaws` is a theorem (`closedVR_quoteLaws`).
`run_quote` then gives the run: `acc` represents the pair `Spec.Eval.quoteVal` allocates in the store.
-/
namespace Marwood.Lemmas.CompileCorrect
open Marwood Marwood.Vm Marwood.Vm.Concrete
open Marwood.Spec.Eval (Val Cell quoteVal)

def qdHeap : CHeap :=
  { chunk := 4
    cells := #[.lambda ⟨[.opcode .movImm, .ptr 1, .acc], [], []⟩, .val (.pair 2 3), .val (.opaque "n1"),
               .val (.opaque "n2")]
    gc := #[.allocated, .allocated, .allocated, .allocated], free := [], symtab := [], globSyms := [], globals := #[] }

def qdState : MSt CHeap :=
  { heap := qdHeap, stack := ⟨[.undefined], 0⟩, acc := .undefined, ep := 0, ipL := 0, ipO := 0, bp := 0 }

def qdDatum : Datum := .pair (.num (.fix 1)) (.num (.fix 2))

def qdSt : SSt := { globals := [], store := #[], out := [] }
def qdSt' : SSt := { globals := [], store := #[.pair (.int 1) (.int 2)], out := [] }

theorem qd_quote : quoteVal qdDatum qdSt = .ok (.pair 0) qdSt' := by rfl

/-- the store-free base: `atomVR` of stage 1 (integers tagged `n<decimal>`), which ignores the store -/
def qdBase (ext : ExtOps) (h : CHeap) (v : VCell) (w : Val) : Prop :=
  atomVR (concreteOps ext) demoEnc h #[] v w

def qdData (ext : ExtOps) : RepData (concreteOps ext) :=
  ⟨fun _ => False, fun _ => 0, ClosedVR (concreteOps ext) (fun _ _ => none) (qdBase ext), fun _ _ => True⟩

/-- **Non-vacuity of `quote` of compound data**: the machine loads the pointer; `acc` represents the freshly
    allocated pair `(1 . 2)` of the specification. -/
theorem demo_quote_pair (ext : ExtOps) :
    ∃ s', ExprRun (qdData ext) qdState 3 qdSt qdSt' (.pair 0) s' := by
  have Q : QuoteLaws (qdData ext) (fun _ _ => none) :=
    closedVR_quoteLaws (ops := concreteOps ext) (fun _ _ => none) (qdBase ext) (fun _ => False) (fun _ => 0)
      (fun _ => True)
  have hd : DatumAt (qdData ext) (fun _ _ => none) qdState.heap qdSt.store (.ptr 1) qdDatum := by
    refine .pair (pa := 2) (pd := 3) rfl ?_ ?_
    · exact .atom (w := .int 1) rfl (.base ⟨.opaque "n1", by decide, .inr ⟨2, rfl, rfl⟩⟩)
    · exact .atom (w := .int 2) rfl (.base ⟨.opaque "n2", by decide, .inr ⟨3, rfl, rfl⟩⟩)
  exact run_quote Q (s := qdState) rfl rfl rfl (by intro o h; cases h) rfl hd qd_quote
    ⟨(by intro x w h; cases h), (by intro x h; cases h), trivial⟩ (by show 0 < 1; omega)

end Marwood.Lemmas.CompileCorrect
