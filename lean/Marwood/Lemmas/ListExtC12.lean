import Marwood.Lemmas.ListExtSim
import Marwood.Lemmas.ListExtGood
import Marwood.Lemmas.ListExtCode
import Marwood.Lemmas.ListExtProc
import Marwood.Lemmas.ListExtDemo
import Marwood.Proofs.C03
import Marwood.Proofs.C12
import Marwood.Lemmas.ListExtC18

/-! Corollaries of `Proofs/C12.lean` at the real builtins `listExtWith` (see Lemmas/ListExtProps.lean for the overview). -/

namespace Marwood.Proofs.C12
open Marwood Marwood.Heap Marwood.Spec Marwood.Vm Marwood.Vm.Concrete Marwood.Lemmas.Sim Marwood.Lemmas.Good
  Marwood.Proofs.C03 Marwood.Proofs.C18 Marwood.Lemmas.MachineGarbage Marwood.Lemmas.PolicyAlloc

/-- **T12.1 at the real builtins**: in every reachable state, whenever `run_gc` collects, allocated = live -/
theorem no_floating_garbage_listExt (eqTag : String → String → Bool) (force : Bool) {s0 : St CHeap}
    (h0 : VmOk (listExtWith eqTag) (listExtWith_codeLawsV eqTag) s0) (p0 : PInv s0)
    (sb : SizeBounded (machine (listExtWith eqTag) force) s0) (cp0 : CodePlain s0.heap)
    {s : St CHeap} (hr : Reaches (machine (listExtWith eqTag) force) s0 s) {h' : Heap}
    (hrun : Heap.runGc true force (toHeap s.heap) (rootsOf s) = .ok (.collected h')) (x : Nat) :
    ((toHeap ((machine (listExtWith eqTag) force).gc s).heap).NonFree x ↔ Live (toHeap s.heap) (rootsOf s) x) ∧
    ((toHeap ((machine (listExtWith eqTag) force).gc s).heap).NonFree x ↔
      Live (toHeap ((machine (listExtWith eqTag) force).gc s).heap)
        (rootsOf ((machine (listExtWith eqTag) force).gc s)) x) :=
  no_floating_garbage_machine force (listExtWith_laws eqTag) (listExtWith_good eqTag) h0.1 sb
    (stackDiscAlong_listExt eqTag force h0 p0 sb) (listExtWith_codePlain eqTag) cp0 hr hrun x

/-- … and with the forcing hook the collection always happens -/
theorem forced_gc_no_floating_garbage_listExt (eqTag : String → String → Bool) {s0 : St CHeap}
    (h0 : VmOk (listExtWith eqTag) (listExtWith_codeLawsV eqTag) s0) (p0 : PInv s0)
    (sb : SizeBounded (machine (listExtWith eqTag) true) s0) (cp0 : CodePlain s0.heap)
    {s : St CHeap} (hr : Reaches (machine (listExtWith eqTag) true) s0 s) (x : Nat) :
    ((toHeap (cgc true s).heap).NonFree x ↔ Live (toHeap s.heap) (rootsOf s) x) ∧
    ((toHeap (cgc true s).heap).NonFree x ↔ Live (toHeap (cgc true s).heap) (rootsOf (cgc true s)) x) :=
  forced_gc_no_floating_garbage_machine (listExtWith_laws eqTag) (listExtWith_good eqTag) h0.1 sb
    (stackDiscAlong_listExt eqTag true h0 p0 sb) (listExtWith_codePlain eqTag) cp0 hr x

/-- **the allocation bound of one slice at the real builtins** (parameter `A` of T12.3): between two collection
    points at most `8192 · 3 + E` cells are allocated, `E` = what the builtins called in the slice allocate — and a
    `cons` allocates at most 2 (`evalCons_allocs`; its pair cell is the `maybe_put` of `runBuiltin`, counted in the
    opcode constant), `set-car!` / `set-cdr!` at most 1, every other builtin of the table 0 -/
theorem slice_alloc_bound_listExt (eqTag : String → String → Bool) {n E : Nat} {s s' : St CHeap} (inv : HInv s.heap)
    (sl : Slice (listExtWith eqTag) n E s s') (hn : n ≤ 8192) :
    HInv s'.heap ∧ used s'.heap ≤ used s.heap + (8192 * maxOpAlloc + E) ∧
      ∃ j, j ≤ 8192 * maxOpAlloc + E ∧ Allocs s.heap s'.heap j :=
  slice_alloc_bound (listExtWith_allocOnly eqTag) inv sl hn

end Marwood.Proofs.C12
