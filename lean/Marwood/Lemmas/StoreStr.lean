import Marwood.Lemmas.StoreList
import Marwood.Store.CharOps
import Marwood.Spec.StrVec
/-! # Lemmas for C15: byte offsets as prefix sums, ranges, string contents -/
namespace Marwood.Store
open Marwood Outcome

/-! ## byte offsets are prefix sums -/

theorem nthOffset_spec : ∀ (cs : Text) (k off : Nat),
    nthOffset cs k off =
      if h : k < cs.length then some (off + byteLen (cs.take k), cs[k]) else none := by
  intro cs
  induction cs with
  | nil => intro k off; simp [nthOffset]
  | cons c cs ih =>
    intro k off
    cases k with
    | zero => simp [nthOffset]
    | succ k =>
      simp only [nthOffset, ih, List.length_cons, Nat.add_lt_add_iff_right, List.take_succ_cons,
        byteLen_cons, List.getElem_cons_succ]
      split
      · simp; omega
      · rfl

theorem byteLen_take_succ (cs : Text) (k : Nat) (h : k < cs.length) :
    byteLen (cs.take (k + 1)) = byteLen (cs.take k) + cs[k].utf8Size := by
  rw [List.take_succ_eq_append_getElem h, byteLen_append]; simp

theorem byteLen_take_le (cs : Text) {a b : Nat} (h : a ≤ b) :
    byteLen (cs.take a) ≤ byteLen (cs.take b) := by
  have : cs.take b = cs.take a ++ (cs.take b).drop a := by
    have := List.take_append_drop a (cs.take b)
    rw [List.take_take, Nat.min_eq_left h] at this
    exact this.symm
  rw [this, byteLen_append]; omega

theorem takeBytes_take (cs : Text) (k : Nat) :
    takeBytes (byteLen (cs.take k)) cs = some (cs.take k) := by
  have := takeBytes_append (cs.take k) (cs.drop k)
  rwa [List.take_append_drop] at this

theorem dropBytes_take (cs : Text) (k : Nat) :
    dropBytes (byteLen (cs.take k)) cs = some (cs.drop k) := by
  have := dropBytes_append (cs.take k) (cs.drop k)
  rwa [List.take_append_drop] at this

/-- `replace_range` between two character boundaries replaces exactly the characters in between -/
theorem replaceRange_take (cs new : Text) {a b : Nat} (h : a ≤ b) :
    replaceRange cs (byteLen (cs.take a)) (byteLen (cs.take b)) new =
      .ok (cs.take a ++ new ++ cs.drop b) := by
  simp only [replaceRange, byteLen_take_le cs h, if_true, takeBytes_take, dropBytes_take]

/-- slicing between two character boundaries yields exactly the characters in between -/
theorem sliceBytes_take (cs : Text) {a b : Nat} (h : a ≤ b) :
    sliceBytes (byteLen (cs.take a)) (byteLen (cs.take b)) cs = some ((cs.take b).drop a) := by
  have h1 : cs.take a ++ (cs.take b).drop a = cs.take b := by
    have := List.take_append_drop a (cs.take b)
    rwa [List.take_take, Nat.min_eq_left h] at this
  have h2 : cs = cs.take a ++ (cs.take b).drop a ++ cs.drop b := by
    rw [h1, List.take_append_drop]
  have h3 : byteLen (cs.take b) = byteLen (cs.take a) + byteLen ((cs.take b).drop a) := by
    rw [← byteLen_append, h1]
  have := sliceBytes_append (cs.take a) ((cs.take b).drop a) (cs.drop b)
  rw [← h2, ← h3] at this
  exact this

theorem take_drop_eq (cs : Text) (a b : Nat) : (cs.take b).drop a = (cs.drop a).take (b - a) := by
  rw [List.drop_take]


/-! ## string-ref, string-set! on contents -/

theorem stringRefC_ok {cs : Text} {k : Nat} (h : k < cs.length) : stringRefC cs k = .ok cs[k] := by
  simp [stringRefC, List.getElem?_eq_getElem h]

theorem stringRefC_err {cs : Text} {k : Nat} (h : cs.length ≤ k) : stringRefC cs k = .err .sindex := by
  simp [stringRefC, List.getElem?_eq_none h]

/-- `string-set!` replaces exactly character `k`, whatever the UTF-8 widths of old and new -/
theorem stringSetC_ok {cs : Text} {k : Nat} (c : Char) (h : k < cs.length) :
    stringSetC cs k c = .ok (cs.set k c) := by
  simp only [stringSetC, nthOffset_spec, dif_pos h, Option.map_some, orErr_some, bind_ok,
    Nat.zero_add]
  rw [← byteLen_take_succ cs k h, replaceRange_take cs [c] (Nat.le_succ k)]
  rw [List.set_eq_take_append_cons_drop]
  simp [h]

theorem stringSetC_err {cs : Text} {k : Nat} (c : Char) (h : cs.length ≤ k) :
    stringSetC cs k c = .err .sindex := by
  have : ¬ k < cs.length := by omega
  simp [stringSetC, nthOffset_spec, this]

theorem charOffset_ok {cs : Text} {k : Nat} (h : k < cs.length) :
    charOffset cs k = .ok (byteLen (cs.take k)) := by
  simp [charOffset, nthOffset_spec, h]

theorem charOffsetInclusive_ok {cs : Text} {k : Nat} (h : k < cs.length) :
    charOffsetInclusive cs k = .ok (byteLen (cs.take (k + 1))) := by
  simp [charOffsetInclusive, nthOffset_spec, h, byteLen_take_succ cs k h]

/-! ## ranges -/

/-- a well-formed optional range: `end` only together with `start`, `start ≤ end ≤ length` -/
def ValidRange (len : Nat) (start end_ : Option Nat) : Prop :=
  (end_.isSome → start.isSome) ∧ start.getD 0 ≤ end_.getD len ∧ end_.getD len ≤ len

theorem byteLen_take_all (cs : Text) : byteLen (cs.take cs.length) = byteLen cs := by simp

/-- on a valid range `char_substring_offset` returns either the two prefix sums or the `(0, 0)`
    shortcut for an empty range -/
theorem charSubstringOffset_ok {cs : Text} {start end_ : Option Nat}
    (hv : ValidRange cs.length start end_) :
    charSubstringOffset cs start end_ =
        .ok (byteLen (cs.take (start.getD 0)), byteLen (cs.take (end_.getD cs.length))) ∨
    (charSubstringOffset cs start end_ = .ok (0, 0) ∧ start.getD 0 = end_.getD cs.length) := by
  obtain ⟨h0, h1, h2⟩ := hv
  cases start with
  | none =>
    cases end_ with
    | some e => simp at h0
    | none =>
      left
      simp [charSubstringOffset, optExceeds, optInverted, charSubstringOffset.optSame]
  | some st =>
    cases end_ with
    | none =>
      simp only [Option.getD_some, Option.getD_none] at h1 h2 ⊢
      by_cases hst : st = cs.length
      · right
        subst hst
        simp [charSubstringOffset, optExceeds, optInverted, charSubstringOffset.optSame]
      · left
        have hlt : st < cs.length := by omega
        have hne : ¬ (st > cs.length) := by omega
        simp [charSubstringOffset, optExceeds, optInverted, charSubstringOffset.optSame, hne, hst,
          charOffset_ok hlt]
    | some e =>
      simp only [Option.getD_some] at h1 h2 ⊢
      by_cases hse : st = e
      · right
        subst hse
        have hne : ¬ (st > cs.length) := by omega
        simp [charSubstringOffset, optExceeds, charSubstringOffset.optSame, hne]
      · left
        have hlt : st < cs.length := by omega
        have h1e : 1 ≤ e := by omega
        have hne1 : ¬ (st > cs.length) := by omega
        have hne2 : ¬ (e > cs.length) := by omega
        have hne3 : ¬ (st > e) := by omega
        have hne4 : st ≠ cs.length := by omega
        have hinc := charOffsetInclusive_ok (cs := cs) (k := e - 1) (by omega)
        have he : e - 1 + 1 = e := by omega
        rw [he] at hinc
        simp [charSubstringOffset, optExceeds, optInverted, charSubstringOffset.optSame, hne1, hne2,
          hne3, hne4, hse, charOffset_ok hlt, usub, h1e, hinc]

theorem sliceBytes_zero (cs : Text) : sliceBytes 0 0 cs = some [] := by
  simp [sliceBytes, dropBytes, takeBytes]

/-- (a) `substring` / `string-copy` / the character list of `string->list`: on a valid range the
    byte-offset computation selects exactly the characters `start ≤ i < end` -/
theorem substringC_ok {cs : Text} {start end_ : Option Nat} (hv : ValidRange cs.length start end_) :
    substringC cs start end_ =
      .ok ((cs.drop (start.getD 0)).take (end_.getD cs.length - start.getD 0)) := by
  rcases charSubstringOffset_ok hv with h | ⟨h, heq⟩
  · simp only [substringC, h, bind_ok, strSlice, sliceBytes_take cs hv.2.1, ofOption_some,
      take_drop_eq]
  · simp only [substringC, h, bind_ok, strSlice, sliceBytes_zero, ofOption_some, heq, Nat.sub_self,
      List.take_zero]

/-- (b) every invalid range — `start > length`, `end > length`, `end < start` — is an error -/
theorem charSubstringOffset_err {cs : Text} {st : Nat} (end_ : Option Nat)
    (hbad : ¬ (st ≤ end_.getD cs.length ∧ end_.getD cs.length ≤ cs.length)) :
    ∃ e, charSubstringOffset cs (some st) end_ = .err e := by
  by_cases h1 : st > cs.length
  · exact ⟨.sindex, by simp [charSubstringOffset, optExceeds, h1]⟩
  cases end_ with
  | none => simp at hbad; omega
  | some e =>
    simp only [Option.getD_some] at hbad
    by_cases h2 : e > cs.length
    · exact ⟨.sindex, by simp [charSubstringOffset, optExceeds, h1, h2]⟩
    · have h3 : st > e := by omega
      have h4 : ¬ st = e := by omega
      exact ⟨.syntax, by simp [charSubstringOffset, optExceeds, h1, h2, charSubstringOffset.optSame, h4,
        optInverted, h3]⟩

theorem substringC_err {cs : Text} {st : Nat} (end_ : Option Nat)
    (hbad : ¬ (st ≤ end_.getD cs.length ∧ end_.getD cs.length ≤ cs.length)) :
    ∃ e, substringC cs (some st) end_ = .err e := by
  obtain ⟨e, he⟩ := charSubstringOffset_err end_ hbad
  exact ⟨e, by simp only [substringC, he, bind_err]⟩

/-- (a) `string-fill!` on a valid range replaces exactly the characters `start ≤ i < end` by the fill
    character (whatever its width), by the `replace_range` between the two prefix sums -/
theorem stringFillC_ok {cs : Text} {start end_ : Option Nat} (c : Char)
    (hv : ValidRange cs.length start end_) :
    stringFillC cs c start end_ =
      .ok (cs.take (start.getD 0) ++ List.replicate (end_.getD cs.length - start.getD 0) c ++
        cs.drop (end_.getD cs.length)) := by
  have hcount : fillCount cs.length start end_ = end_.getD cs.length - start.getD 0 := by
    obtain ⟨h0, h1, h2⟩ := hv
    cases start with
    | none => cases end_ with
      | none => simp [fillCount]
      | some e => simp at h0
    | some st => cases end_ with
      | none => simp [fillCount]
      | some e => simp only [Option.getD_some] at h1; simp [fillCount, h1]
  rcases charSubstringOffset_ok hv with h | ⟨h, heq⟩
  · simp only [stringFillC, h, bind_ok, hcount, replaceRange_take cs _ hv.2.1]
  · have h0 : replaceRange cs 0 0 (List.replicate (end_.getD cs.length - start.getD 0) c) =
        .ok (cs.take (start.getD 0) ++
          List.replicate (end_.getD cs.length - start.getD 0) c ++ cs.drop (end_.getD cs.length)) := by
      rw [heq, Nat.sub_self]
      have := replaceRange_take cs [] (Nat.le_refl 0)
      simp only [List.take_zero, byteLen_nil, List.nil_append, List.drop_zero] at this
      simp [this]
    simp only [stringFillC, h, bind_ok, hcount, h0]

theorem stringFillC_err {cs : Text} {st : Nat} (c : Char) (end_ : Option Nat)
    (hbad : ¬ (st ≤ end_.getD cs.length ∧ end_.getD cs.length ≤ cs.length)) :
    ∃ e, stringFillC cs c (some st) end_ = .err e := by
  obtain ⟨e, he⟩ := charSubstringOffset_err end_ hbad
  exact ⟨e, by simp only [stringFillC, he, bind_err]⟩

/-- pointwise reading of the fill result: positions inside the range hold the fill character,
    every other position is unchanged, the length is unchanged -/
theorem fill_getElem? (cs : Text) (c : Char) {a b : Nat} (hab : a ≤ b) (hb : b ≤ cs.length) (i : Nat) :
    (cs.take a ++ List.replicate (b - a) c ++ cs.drop b)[i]? =
      if a ≤ i ∧ i < b then some c else cs[i]? := by
  have hla : (cs.take a).length = a := by rw [List.length_take]; omega
  by_cases h1 : i < a
  · have : ¬ (a ≤ i ∧ i < b) := by omega
    rw [if_neg this, List.append_assoc, List.getElem?_append_left (by rw [hla]; exact h1)]
    rw [List.getElem?_take]; simp [h1]
  · by_cases h2 : i < b
    · rw [if_pos ⟨by omega, h2⟩, List.append_assoc, List.getElem?_append_right (by rw [hla]; omega),
        hla, List.getElem?_append_left (by rw [List.length_replicate]; omega)]
      rw [List.getElem?_replicate]; simp; omega
    · have : ¬ (a ≤ i ∧ i < b) := by omega
      rw [if_neg this, List.getElem?_append_right (by simp [hla]; omega)]
      simp only [List.length_append, hla, List.length_replicate, List.getElem?_drop]
      congr 1
      omega


theorem popString_of_isStr {s : Store} {v : VCell} {id : Nat} {t : Text} (h : IsStr s v id t) :
    popString s v = .ok id := by unfold popString; simp [h.1]

theorem strGet_of_isStr {s : Store} {v : VCell} {id : Nat} {t : Text} (h : IsStr s v id t) :
    s.strGet id = .ok t := by unfold Store.strGet; simp [h.2]

theorem isStr_lt {s : Store} {v : VCell} {id : Nat} {t : Text} (h : IsStr s v id t) :
    id < s.strs.length := by
  rcases Nat.lt_or_ge id s.strs.length with h1 | h1
  · exact h1
  · have := h.2; rw [List.getElem?_eq_none h1] at this; cases this

theorem strSet_spec {s : Store} {id : Nat} (h : id < s.strs.length) (t : Text) :
    ∃ s', s.strSet id t = .ok s' ∧ OnlyStr s s' id ∧ s'.strs[id]? = some t := by
  refine ⟨{ s with strs := s.strs.set id t }, by simp [Store.strSet, h], ⟨rfl, rfl, by simp, ?_⟩,
    by simp [h]⟩
  intro i hi
  simp [Ne.symm hi]

theorem popChar_of_get {s : Store} {v : VCell} {c : Char} (h : s.get v = .ok (.char c)) :
    popChar s v = .ok c := by unfold popChar; simp [h]

/-- a fresh string: a new identity holding exactly `t` -/
theorem newStrRes_spec (s : Store) (t : Text) :
    ∃ s' p, newStrRes s t = .ok (s', .ptr p) ∧ IsStr s' (.ptr p) s.strs.length t ∧ Extends s s' := by
  refine ⟨{ cells := s.cells ++ [.str s.strs.length], vecs := s.vecs, strs := s.strs ++ [t] },
    s.cells.length, rfl, ⟨?_, ?_⟩, ⟨fun i hi => ?_, fun _ _ => rfl, fun i hi => ?_⟩⟩
  · simp [Store.get, ofOption]
  · simp
  · simp [List.getElem?_append_left hi]
  · simp [List.getElem?_append_left hi]

/-- `string_comp`/`char_comp` test every adjacent pair: the n-ary predicate is the conjunction -/
theorem chainHolds_snoc {α : Type} (r : α → α → Bool) : ∀ (xs : List α) (x y : α),
    Spec.chainHolds r (xs ++ [x, y]) = (Spec.chainHolds r (xs ++ [x]) && r x y) := by
  intro xs
  induction xs with
  | nil => intro x y; simp [Spec.chainHolds]
  | cons a xs ih =>
    intro x y
    cases xs with
    | nil => simp [Spec.chainHolds, Bool.and_comm]
    | cons b xs =>
      have := ih x y
      simp only [List.cons_append] at this ⊢
      simp only [Spec.chainHolds, this, Bool.and_assoc]

theorem compLoop_eq_chain {α : Type} (r : α → α → Bool) : ∀ (xs : List α) (y : α) (acc : Bool),
    compLoop r xs y acc = (acc && Spec.chainHolds r (xs.reverse ++ [y])) := by
  intro xs
  induction xs with
  | nil => intro y acc; simp [compLoop, Spec.chainHolds]
  | cons x xs ih =>
    intro y acc
    simp only [compLoop, ih, List.reverse_cons, List.append_assoc, List.cons_append, List.nil_append]
    rw [chainHolds_snoc]
    cases h : r x y <;> cases acc <;> simp


theorem popChars_of_allChar {s : Store} {vs : List VCell} {cs : List Char} (h : AllChar s vs cs) :
    popChars s vs = .ok cs := by
  induction h with
  | nil => rfl
  | cons hc _ ih => simp only [popChars, popChar_of_get hc, bind_ok, ih]

theorem AllChar.snoc {s : Store} {vs : List VCell} {cs : List Char} {v : VCell} {c : Char}
    (h : AllChar s vs cs) (hc : s.get v = .ok (.char c)) : AllChar s (vs ++ [v]) (cs ++ [c]) := by
  induction h with
  | nil => exact .cons hc .nil
  | cons h1 _ ih => exact .cons h1 ih

theorem AllChar.reverse {s : Store} {vs : List VCell} {cs : List Char} (h : AllChar s vs cs) :
    AllChar s vs.reverse cs.reverse := by
  induction h with
  | nil => exact .nil
  | cons h1 _ ih => simpa using ih.snoc h1

theorem popStrings_of_allStr {s : Store} {vs : List VCell} {ts : List Text} (h : AllStr s vs ts) :
    popStrings s vs = .ok ts := by
  induction h with
  | nil => rfl
  | cons h1 _ ih =>
    simp only [popStrings, popString_of_isStr h1, strGet_of_isStr h1, bind_ok, ih]

theorem AllStr.snoc {s : Store} {vs : List VCell} {ts : List Text} {v : VCell} {id : Nat} {t : Text}
    (h : AllStr s vs ts) (hc : IsStr s v id t) : AllStr s (vs ++ [v]) (ts ++ [t]) := by
  induction h with
  | nil => exact .cons hc .nil
  | cons h1 _ ih => exact .cons h1 ih

theorem AllStr.reverse {s : Store} {vs : List VCell} {ts : List Text} (h : AllStr s vs ts) :
    AllStr s vs.reverse ts.reverse := by
  induction h with
  | nil => exact .nil
  | cons h1 _ ih => simpa using ih.snoc h1

theorem foldl_prepend (ts : List Text) (acc : Text) :
    ts.foldl (fun out t => t ++ out) acc = ts.reverse.flatten ++ acc := by
  induction ts generalizing acc with
  | nil => simp
  | cons t ts ih => simp [ih]


theorem collectChars_spec {s : Store} {tail : VCell} : ∀ (rest : List Nat) (fuel a d : Nat)
    (acc : List Char) (c0 : Char) (ccs : List Char), Spine s (.ptr d) rest tail →
    s.cells[a]? = some (.char c0) → CharsAt s rest ccs → rest.length + 1 < fuel →
    collectChars fuel s (.pair a d) acc = .ok (acc ++ c0 :: ccs, tail) := by
  intro rest
  induction rest with
  | nil =>
    intro fuel a d acc c0 ccs hl ha hcs hfuel
    obtain ⟨f, rfl⟩ : ∃ f, fuel = f + 2 := ⟨fuel - 2, by simp at hfuel; omega⟩
    cases hcs
    cases hl with
    | done hg hp =>
      simp only [collectChars, VCell.isPair_pair, if_true, VCell.asCar_pair, VCell.asCdr_pair, bind_ok,
        get_of_cell ha, hg, hp, Bool.false_eq_true, if_false]
  | cons a2 rest2 ih =>
    intro fuel a d acc c0 ccs hl ha hcs hfuel
    obtain ⟨f, rfl⟩ : ∃ f, fuel = f + 1 := ⟨fuel - 1, by simp at hfuel; omega⟩
    cases hcs with
    | cons hc2 hrest =>
      cases hl with
      | cons hg ht =>
        rename_i d2
        simp only [collectChars, VCell.isPair_pair, if_true, VCell.asCar_pair, VCell.asCdr_pair, bind_ok,
          get_of_cell ha, hg]
        rw [ih f a2 d2 _ _ _ ht hc2 hrest (by simp at hfuel; omega)]
        simp

theorem slotsToChars_of_allChar {s : Store} {xs : List VCell} {cs : List Char}
    (h : AllChar s xs cs) : slotsToChars s xs = .ok cs := by
  induction h with
  | nil => rfl
  | cons hc _ ih => simp only [slotsToChars, hc, bind_ok, ih]

end Marwood.Store
