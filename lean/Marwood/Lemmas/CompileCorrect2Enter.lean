import Marwood.Lemmas.CompileCorrect2Lambda
/-!
# T01.3 stage 2 — `ENTER` of a closure: the activation environment, the new world, the frame

Shared by the success case (`callOK2_succ`) and the error case (`callErr2_succ`): from the state `CALL`/`TCALL`
leaves, `ENTER` builds the activation environment; the parameters become related variable locations, the
captured slots keep pointing at theirs; `bp` points at the frame `[argc, %ep, return address, %bp]`.
-/
namespace Marwood.Lemmas.CompileCorrect2
open Marwood Marwood.Vm Marwood.Lemmas.CompileCorrect
open Marwood.Spec.Eval (Val Prim Cell Env evalN evalStep applyStep evalArgs properList quoteVal kwOf insertG
  k_quote k_if_ k_setBang k_define k_lambda)

variable {H : Type} {ops : HeapOps H} {D : RepData2 ops}

theorem All2.get {α β : Type} {R : α → β → Prop} : ∀ {l : List α} {l' : List β}, All2 R l l' →
    ∀ (i : Nat) (a : α), l[i]? = some a → ∃ b, l'[i]? = some b ∧ R a b
  | _, _, .nil, i, a, h => by simp at h
  | _, _, .cons hab t, i, a, h => by
    cases i with
    | zero => simp at h; subst h; exact ⟨_, by simp, hab⟩
    | succ j =>
      simp at h
      obtain ⟨b, hb, hr⟩ := All2.get t j a h
      exact ⟨b, by simpa using hb, hr⟩
theorem ctxOK_of_parts {f : Nat} {c : Ctx} {formals body : Datum} {p : LambdaParts} {ps : List Text}
    {caps : List (Text × Source)}
    (hp : lambdaParts f c (.pair (.sym k_lambda) (.pair formals body)) false = .ok p) (hps : p.formals = ps)
    (hem : p.ctx.envmap = argEntries ps ++ caps) : CtxOK p.ctx := by
  intro x hx
  rw [(lambdaParts_inv hp).2.1, hps] at hx
  obtain ⟨i, hi, hxi⟩ := List.getElem_of_mem hx
  have hg : ps[i]? = some x := by rw [List.getElem?_eq_getElem hi, hxi]
  have := argEntries_get ps i x hg
  unfold inEnv
  rw [hem, List.any_eq_true]
  exact ⟨(x, .argument i), List.mem_append_left _ (List.mem_of_getElem? this), by simp⟩
theorem enter_closure (L : Laws2 D) {ps : List Text} {body : List Datum} {ρc ρ' : Env} {ws : List Val} {σ σ1 : SSt}
    (hbind : Spec.Eval.bindArgs ps none ws ρc σ = .ok ρ' σ1)
    {W : World} {s : MSt H} {lam cenv : Nat} {vs : List VCell} {st0 : Stack} {epc lc oc : Nat}
    (hcal : ops.callee s.heap s.acc = .closure lam cenv) (hclos : ClosOK D W s.heap lam cenv ps body ρc)
    (hi : Inv2 D W s.heap σ) (hvs : All2 (VR2 D W s.heap σ.store) vs ws) (hipL : s.ipL = lam) (hipO : s.ipO = 0)
    (hst : LiveEq (callFrame st0 vs epc lc oc) s.stack) (hw0 : SWF st0) (hw : SWF s.stack) :
    ∃ (f : Nat) (cst cst1 : CState) (p : LambdaParts) (bodyD : Datum) (bcode : List BC) (h' : H) (a : Nat)
      (W' : World) (stE : Stack),
      step ops s = .ok ({ s with heap := h', ep := a, stack := stE, bp := st0.sp + vs.length, ipO := s.ipO + 1 },
        false) ∧
      W.le W' ∧ Inv2 D W' h' σ1 ∧ EnvRep ops W' h' p.ctx a ρ' ∧ CtxOK p.ctx ∧
      F2B D.setG f p.ctx (bound ρ') bodyD ∧ compileBody f cst p.ctx 1 bodyD = .ok (cst1, bcode) ∧
      cst1.lambdas <+: D.final ∧ properList bodyD = some body ∧ (∀ e ∈ body, Spec.Eval.isDefine e = false) ∧
      CodeAt2 D p.ctx.envmap h' σ1.store lam 0 ([.op .enter] ++ bcode ++ [.op .ret]) ∧
      SWF stE ∧ FrameAt stE (st0.sp + vs.length) ⟨vs.length, epc, lc, oc, s.bp, st0⟩ ∧
      Ext2 D s.heap σ.store h' σ1.store := by
  obtain ⟨f, cst, cst1, co, formals, bodyD, p, bcode, caps, a1, a2, a3, a4, a5, a6, a7, a8, a9, a10, a11, a12, a13,
    a14, a15, a16, a17, a18⟩ := hclos
  obtain ⟨e1, e2, e3, e4, e5, e6, e7, e8⟩ := bindArgs_inv ps ws ρc ρ' σ σ1 a4 hbind
  have hvl : vs.length = ps.length := (All2.length_eq hvs).trans e1
  obtain ⟨hpb, hpa, hpro⟩ := lambdaParts_inv a1
  have hpro1 : p.prologue = [.op .enter] := by rw [hpro, a3]; rfl
  -- the loaded code of the lambda
  obtain ⟨hcode, hinfo⟩ := hi.loaded _ _ a8
  have hbc : (lamOf p bcode).bc = [.op .enter] ++ bcode ++ [.op .ret] := by simp [lamOf, hpro1]
  have hargsl : (lamOf p bcode).args.length = ps.length := by simp [lamOf, a2]
  rw [hbc, ← a10] at hcode
  rw [hargsl, ← a10] at hinfo
  have hemL : (lamOf p bcode).envmap = p.ctx.envmap := rfl
  rw [hemL] at hcode
  -- the stack `CALL` left
  obtain ⟨k0, k1, k2, k3, k4⟩ := callFrame_cells st0 vs epc lc oc hw0
  have hsp : s.stack.sp = st0.sp + vs.length + 3 := by rw [← hst.1, callFrame_sp]
  have cell : ∀ i, i ≤ st0.sp + vs.length + 3 → s.stack.cells[i]? = (callFrame st0 vs epc lc oc).cells[i]? :=
    fun i hi' => (hst.2 i (by rw [callFrame_sp]; exact hi')).symm
  -- ENTER
  let B := st0.sp + vs.length
  have hB : s.stack.sp + 1 - 4 = B := by show _ = st0.sp + vs.length; omega
  let stE := s.stack.push (.basePtr s.bp)
  have hwE : SWF stE := push_swf _ _
  have spE : stE.sp = B + 4 := by show (s.stack.push _).sp = _; simp [hsp]; omega
  have cellE : ∀ i, i ≤ s.stack.sp → stE.cells[i]? = s.stack.cells[i]? := fun i hi' => push_below _ _ hw i hi'
  have srcGet : ∀ j (hj : j < p.ctx.envmap.length),
      (p.ctx.envmap.map (rsrc co.envmap))[j]? = some (rsrc co.envmap (p.ctx.envmap[j]'hj)) := by
    intro j hj
    rw [List.getElem?_map, List.getElem?_eq_getElem hj]; rfl
  obtain ⟨h', a, hmk, hfresh, hargs, hcap, hframe, hglob, hext, hsrx⟩ :=
    L.activation_ok s.heap σ.store lam cenv B stE _ ps.length hi.extra a11 a13 hinfo a18
      (by
        intro j src hj
        obtain ⟨q, hq, _⟩ := map_get _ _ _ _ hj
        have hlt : j < p.ctx.envmap.length := by
          rcases Nat.lt_or_ge j p.ctx.envmap.length with h1 | h1
          · exact h1
          · rw [List.getElem?_eq_none h1] at hq; cases hq
        exact a16 j hlt)
      (by
        intro j i hj
        obtain ⟨q, hq, hr⟩ := map_get _ _ _ _ hj
        rw [a14] at hq
        rcases em_entry_cases hq with ⟨hlt, x, _, rfl⟩ | ⟨_, hqc⟩
        · simp only [rsrc, RSrc.arg.injEq] at hr
          subst hr
          have := hwE
          unfold SWF at this
          refine ⟨hlt, by show _ ≤ st0.sp + vs.length; omega, ?_⟩
          show st0.sp + vs.length - (ps.length - j) + 1 < stE.cells.length
          omega
        · have := a15 q hqc
          obtain ⟨x, src⟩ := q
          simp only at this; subst this
          simp [rsrc] at hr)
  have hfetch0 : ops.fetch s.heap s.ipL s.ipO = some (.opcode .enter) := by
    have := hcode.left.left.op 0 (o := .enter) rfl
    rw [hipL, hipO]; simpa using this
  have hargc : s.stack.cells[s.stack.sp - 2]? = some (.argc ps.length) := by
    rw [show s.stack.sp - 2 = st0.sp + vs.length + 1 by omega, cell _ (by omega), k2, hvl]
  have hsE := step_enter_closure (s := s) (by rw [hipL]; exact a11) hfetch0 hcal hinfo (by omega) hargc
    (by rw [hB]; exact hmk)
  rw [hB] at hsE
  -- the argument cells
  have argCell : ∀ i v, vs[i]? = some v → stE.cells[B - (ps.length - i) + 1]? = some v := by
    intro i v hv
    have hlt : i < vs.length := by
      rcases Nat.lt_or_ge i vs.length with h1 | h1
      · exact h1
      · rw [List.getElem?_eq_none h1] at hv; cases hv
    have e0 : B - (ps.length - i) + 1 = st0.sp + 1 + i := by show st0.sp + vs.length - _ + 1 = _; omega
    rw [e0, cellE _ (by omega), cell _ (by omega), k1 i hlt, hv]
  have argSlot : ∀ i v, vs[i]? = some v → ops.envGet h' a i = some v := by
    intro i v hv
    have hlt : i < ps.length := by
      rcases Nat.lt_or_ge i vs.length with h1 | h1
      · omega
      · rw [List.getElem?_eq_none h1] at hv; cases hv
    have hx : ps[i]? = some ps[i] := List.getElem?_eq_getElem hlt
    have hent : p.ctx.envmap[i]? = some (ps[i], .argument i) := by
      rw [a14, List.getElem?_append_left (by rw [argEntries_length]; exact hlt)]
      exact argEntries_get ps i _ hx
    have : (p.ctx.envmap.map (rsrc co.envmap))[i]? = some (.arg i) := by
      rw [List.getElem?_map, hent]; rfl
    exact hargs i i v this (argCell i v hv)
  -- the new world
  let W' : World := fun e n l => W e n l ∨ (e = a ∧ n < ps.length ∧ l = σ.store.size + n)
  have hwW : W.le W' := fun e n l h => .inl h
  have hse : StoreExt σ.store σ1.store := StoreExt.ofPrefix (by omega) e5
  have hx1 : Ext2 D s.heap σ.store h' σ1.store := hext.trans (Ext2.storeOnly L h' hse)
  have oldNe : ∀ e n l, W e n l → e ≠ a := by
    intro e n l hW e0
    subst e0
    obtain ⟨v, _, h1, _⟩ := hi.vars _ n l hW
    rw [hfresh n] at h1; cases h1
  have oldLt : ∀ e n l, W e n l → l < σ.store.size := by
    intro e n l hW
    obtain ⟨_, u, _, _, h3, _⟩ := hi.vars e n l hW
    rcases Nat.lt_or_ge l σ.store.size with h1 | h1
    · exact h1
    · simp [Array.getElem?_eq_none h1] at h3
  have hvs' : All2 (VR2 D W' h' σ1.store) vs ws := All2.vr2_mono hvs hx1 hwW
  have hi1 : Inv2 D W' h' σ1 := by
    refine ⟨fun y u hn hy => ?_, fun y hn hy => ?_, L.srx_store _ _ _ hse hsrx, fun y hy => e2 ▸ hi.gset y hy,
      hi.loaded.ext hx1, ?_, ?_, ?_⟩
    · rw [hglob]; exact (hi.bound y u hn (e2 ▸ hy)).mono hx1 hwW
    · rw [hglob]; exact hi.unbound y hn (e2 ▸ hy)
    · intro e n l l' h1 h2
      rcases h1 with h1 | ⟨rfl, _, rfl⟩ <;> rcases h2 with h2 | ⟨h2e, _, h2l⟩
      · exact hi.wfun e n l l' h1 h2
      · exact absurd h2e (oldNe _ _ _ h1)
      · exact absurd rfl (oldNe _ _ _ h2)
      · exact h2l.symm
    · intro e n e' n' l h1 h2
      rcases h1 with h1 | ⟨rfl, _, rfl⟩ <;> rcases h2 with h2 | ⟨h2e, _, h2l⟩
      · exact hi.winj e n e' n' l h1 h2
      · have := oldLt _ _ _ h1; omega
      · have := oldLt _ _ _ h2; omega
      · exact ⟨h2e.symm, by omega⟩
    · intro e n l hW
      rcases hW with hW | ⟨rfl, hn, rfl⟩
      · obtain ⟨v, u, g1, g2, g3, g4⟩ := hi.vars e n l hW
        exact ⟨v, u, by rw [hframe e n (oldNe _ _ _ hW)]; exact g1, g2, by rw [e5 l (oldLt _ _ _ hW)]; exact g3,
          g4.mono hx1 hwW⟩
      · have hlt : n < vs.length := by omega
        have hv : vs[n]? = some vs[n] := List.getElem?_eq_getElem hlt
        obtain ⟨u, hu, hr⟩ := All2.get hvs' n _ hv
        exact ⟨vs[n], u, argSlot n _ hv, VR2.not_envptr L hr, e6 n u hu, hr⟩
  have her1 : EnvRep ops W' h' p.ctx a ρ' := by
    intro x j hj
    rw [a14] at hj
    rcases slot_cases hj with ⟨hlt, hx⟩ | ⟨hge, hxn, src, hent, hmem⟩
    · have hltv : j < vs.length := by omega
      have hv : vs[j]? = some vs[j] := List.getElem?_eq_getElem hltv
      obtain ⟨u, _, hr⟩ := All2.get hvs' j _ hv
      exact ⟨a, j, σ.store.size + j, .inr ⟨rfl, rfl, vs[j], argSlot j _ hv, VR2.not_envptr L hr⟩, e7 j x hx,
        .inr ⟨rfl, hlt, rfl⟩⟩
    · have hsrc := a15 _ hmem
      simp only at hsrc
      subst hsrc
      rw [← a14] at hent
      obtain ⟨e, n', l, g1, g2, g3⟩ := a17 j x hge hent
      have : (p.ctx.envmap.map (rsrc co.envmap))[j]? = some (.iofEnv ((slotIdx co.envmap x).getD 0)) := by
        rw [List.getElem?_map, hent]; rfl
      have hslot := hcap j _ this
      rw [g1] at hslot
      exact ⟨e, n', l, .inl hslot, by rw [e8 x hxn]; exact g2, .inl g3⟩
  -- the body
  have hbound : (fun x => x ∈ ps ∨ bound ρc x) = bound ρ' := by
    funext x
    apply propext
    constructor
    · intro hx
      by_cases hm : x ∈ ps
      · obtain ⟨i, hi', hxi⟩ := List.getElem_of_mem hm
        have : ps[i]? = some x := by rw [List.getElem?_eq_getElem hi', hxi]
        simp [bound, e7 i x this]
      · rcases hx with hx | hx
        · exact absurd hx hm
        · show (ρ'.lookup x).isSome = true
          rw [e8 x hm]; exact hx
    · intro hx
      by_cases hm : x ∈ ps
      · exact .inl hm
      · right
        show (ρc.lookup x).isSome = true
        rw [← e8 x hm]; exact hx
  rw [hbound] at a12
  have hcx : CtxOK p.ctx := ctxOK_of_parts a1 a2 a14
  have hfrE : FrameAt stE B ⟨vs.length, epc, lc, oc, s.bp, st0⟩ := by
    refine ⟨?_, ?_, ?_, ?_, by show vs.length ≤ st0.sp + vs.length; omega, by show B + 4 ≤ stE.sp; omega,
      by show st0.sp = st0.sp + vs.length - vs.length; omega, fun i hi' => ?_, hw0⟩
    · show stE.cells[B + 1]? = _
      rw [cellE _ (by omega), cell _ (by show st0.sp + vs.length + 1 ≤ _; omega)]; exact k2
    · show stE.cells[B + 2]? = _
      rw [cellE _ (by omega), cell _ (by show st0.sp + vs.length + 2 ≤ _; omega)]; exact k3
    · show stE.cells[B + 3]? = _
      rw [cellE _ (by omega), cell _ (by show st0.sp + vs.length + 3 ≤ _; omega)]; exact k4
    · show stE.cells[B + 4]? = _
      have := push_top s.stack (.basePtr s.bp)
      rw [hsp] at this
      exact this
    · show st0.cells[i]? = stE.cells[i]?
      have hi'' : i ≤ st0.sp := hi'
      rw [cellE _ (by omega), cell _ (by omega), k0 i hi'']
  exact ⟨f, cst, cst1, p, bodyD, bcode, h', a, W', stE, hsE, hwW, hi1, her1, hcx, a12, a7, a9, a5, a6, hcode.ext hx1, hwE,
    hfrE, hx1⟩

end Marwood.Lemmas.CompileCorrect2
