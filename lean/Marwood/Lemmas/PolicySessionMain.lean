import Marwood.Lemmas.PolicySession
import Marwood.Lemmas.PolicySessionGc
/-!
# A session of the concrete machine is one run of the policy specification (C12)

`Seg ext n E s s'`: an open block — `n` instructions (`Slice`) and steps of the unmodelled parts outside the run
loop (the compiler of `prepare_eval`; the register / stack edits of the epilogues, which cost nothing) leading from
`s` to `s'`, `E` = the cells allocated beyond the opcode constants. `Sess ext force s cps s'`: closed blocks, each an
open block followed by a collection `cgc force`; `cps` lists per block `(instructions, E, state the collection saw)`.

* `runLoop_is_paced`, `runEval_is_paced`: every execution of `runLoop` / `runEval` of the concrete machine — any budget,
  any fuel — is such a session with at most 8192 instructions per block (from `Lemmas/PolicySession.runLoop_blocks`).
* `sess_hrun`: a session is ONE `HRun` of the heap model, with the operations
  `blocksOps [(j₁, force, live₁), …]`, `jᵢ ≤ 3·nᵢ + Eᵢ`, `liveᵢ = liveCount` of the state the i-th collection saw.
* `sess_capacity_bounded`: T12.3 for sessions.
-/
namespace Marwood.Lemmas.PolicySessionMain
open Marwood Marwood.Vm Marwood.Vm.Concrete Marwood.Lemmas.Sim Marwood.Lemmas.Good
open Marwood.Heap (GcState Heap)
open Marwood.Spec Marwood.Spec.HeapPolicy
open Marwood.Lemmas.PolicyRefine Marwood.Lemmas.PolicyRun Marwood.Lemmas.PolicyBound
open Marwood.Lemmas.PolicyAlloc Marwood.Lemmas.PolicySession Marwood.Lemmas.PolicySessionGc

/-- a collection point of a session: instructions of the block, allocations of the unmodelled operations in the
    block, the state the collection saw -/
abbrev CP := Nat × Nat × St CHeap

/-- an open block -/
inductive Seg (ext : ExtOps) : Nat → Nat → St CHeap → St CHeap → Prop
  | slice {n E : Nat} {s s' : St CHeap} : Slice ext n E s s' → Seg ext n E s s'
  | other {k : Nat} {s s' : St CHeap} : AllocsLe s.heap s'.heap k → Seg ext 0 k s s'
  | trans {n1 n2 E1 E2 : Nat} {a b c : St CHeap} : Seg ext n1 E1 a b → Seg ext n2 E2 b c →
      Seg ext (n1 + n2) (E1 + E2) a c

/-- a step that leaves the heap alone (the epilogues `onDone` / `onError`, `prepare`) -/
theorem Seg.edit {ext : ExtOps} {s s' : St CHeap} (e : s'.heap = s.heap) : Seg ext 0 0 s s' :=
  .other (by rw [e]; exact AllocsLe.refl _)

theorem Seg.refl (ext : ExtOps) (s : St CHeap) : Seg ext 0 0 s s := .edit rfl

theorem seg_allocs {ext : ExtOps} (ea : ExtAllocOnly ext) {n E : Nat} {s s' : St CHeap} (sg : Seg ext n E s s') :
    AllocsLe s.heap s'.heap (maxOpAlloc * n + E) := by
  induction sg with
  | slice sl => exact slice_allocs ea sl
  | other a => exact a.mono (by omega)
  | trans _ _ ih1 ih2 => exact (ih1.trans ih2).mono (by simp only [maxOpAlloc]; omega)

/-- closed blocks; between blocks, edits that leave the heap alone -/
inductive Sess (ext : ExtOps) (force : Bool) : St CHeap → List CP → St CHeap → Prop
  | nil (s : St CHeap) : Sess ext force s [] s
  | block {n E : Nat} {s s1 s' : St CHeap} {cps : List CP} : Seg ext n E s s1 → Sess ext force (cgc force s1) cps s' →
      Sess ext force s ((n, E, s1) :: cps) s'
  | edit {s s1 s' : St CHeap} {cps : List CP} : s1.heap = s.heap → Sess ext force s1 cps s' → Sess ext force s cps s'

theorem Sess.append {ext : ExtOps} {force : Bool} {a b c : St CHeap} {l1 l2 : List CP} (h1 : Sess ext force a l1 b)
    (h2 : Sess ext force b l2 c) : Sess ext force a (l1 ++ l2) c := by
  induction h1 with
  | nil _ => exact h2
  | block sg _ ih => exact .block sg (ih h2)
  | edit e _ ih => exact .edit e (ih h2)

/-! ## the run loop -/

theorem vmStep_next {ext : ExtOps} {s s' : St CHeap} (h : vmStep (concreteOps ext) s = .next s') :
    step (concreteOps ext) s = .ok (s', false) := by
  unfold vmStep at h
  cases hst : step (concreteOps ext) s with
  | ok r =>
    obtain ⟨s3, b⟩ := r
    rw [hst] at h
    cases b <;> simp only at h
    · cases h; rfl
    · cases h
  | err x => rw [hst] at h; cases h
  | panic x => rw [hst] at h; cases h

theorem vmStep_halt {ext : ExtOps} {s s' : St CHeap} (h : vmStep (concreteOps ext) s = .halt s') :
    step (concreteOps ext) s = .ok (s', true) := by
  unfold vmStep at h
  cases hst : step (concreteOps ext) s with
  | ok r =>
    obtain ⟨s3, b⟩ := r
    rw [hst] at h
    cases b <;> simp only at h
    · cases h
    · cases h; rfl
  | err x => rw [hst] at h; cases h
  | panic x => rw [hst] at h; cases h

theorem vmStep_fail {ext : ExtOps} {s s' : St CHeap} {f : Fault} (h : vmStep (concreteOps ext) s = .fail f s') :
    s' = s := by
  unfold vmStep at h
  cases hst : step (concreteOps ext) s with
  | ok r =>
    obtain ⟨s3, b⟩ := r
    rw [hst] at h
    cases b <;> cases h
  | err x => rw [hst] at h; cases h; rfl
  | panic x => rw [hst] at h; cases h; rfl

theorem step_readOpcode {ext : ExtOps} {s s' : St CHeap} {b : Bool} (h : step (concreteOps ext) s = .ok (s', b)) :
    ∃ op sx, readOpcode (concreteOps ext) s = .ok (op, sx) := by
  unfold Vm.step at h
  obtain ⟨⟨op, sx⟩, hro, _⟩ := bind_inv h
  exact ⟨op, sx, hro⟩

/-- one more instruction (halting or not) at the end of a slice -/
theorem Slice.snoc {ext : ExtOps} {n E : Nat} {s s1 s' : St CHeap} {b : Bool} (sl : Slice ext n E s s1)
    (h : step (concreteOps ext) s1 = .ok (s', b)) : ∃ E', Slice ext (n + 1) E' s s' := by
  induction sl with
  | nil s =>
    obtain ⟨op, sx, hro⟩ := step_readOpcode h
    exact ⟨_, .cons h hro (.nil _)⟩
  | cons h1 hro _ ih =>
    obtain ⟨E', sl'⟩ := ih h
    exact ⟨_, .cons h1 hro sl'⟩

/-- instructions of the machine's run loop form a slice; `E` is the sum of `extra` over them -/
theorem steps_slice {ext : ExtOps} {force : Bool} {n : Nat} {s s' : St CHeap}
    (st : Steps (machine ext force) n s s') : ∃ E, Slice ext n E s s' := by
  induction st with
  | nil s => exact ⟨0, .nil s⟩
  | cons e _ ih =>
    obtain ⟨E, sl⟩ := ih
    have h := vmStep_next e
    obtain ⟨op, sx, hro⟩ := step_readOpcode h
    exact ⟨_, .cons h hro sl⟩

theorem steps_reaches {ext : ExtOps} {force : Bool} {n : Nat} {s s' : St CHeap}
    (st : Steps (machine ext force) n s s') : Reaches (machine ext force) s s' := by
  induction st with
  | nil s => exact .refl s
  | cons e _ ih => exact (Reaches.next (.refl _) e).trans ih

/-- where the collection points of an evaluation started in `s` lie: at a state the machine reaches from `s` by
    instructions and collections, or at the success / error epilogue of such a state -/
def CpFrom (ext : ExtOps) (force : Bool) (s x : St CHeap) : Prop :=
  ∃ sd, Reaches (machine ext force) s sd ∧ (x = sd ∨ x = onDone sd ∨ x = onError sd)

theorem CpFrom.mono {ext : ExtOps} {force : Bool} {a b x : St CHeap} (hr : Reaches (machine ext force) a b)
    (h : CpFrom ext force b x) : CpFrom ext force a x := by
  obtain ⟨sd, h1, h2⟩ := h
  exact ⟨sd, hr.trans h1, h2⟩

theorem blocks_sess {ext : ExtOps} {force : Bool} {s s' : St CHeap} {bs : List (Nat × St CHeap)}
    (hb : Blocks (machine ext force) s bs s') (hle : ∀ b ∈ bs, b.1 ≤ 8192) :
    ∃ cps, Sess ext force s cps s' ∧ (∀ cp ∈ cps, cp.1 ≤ 8192) ∧ (∀ cp ∈ cps, CpFrom ext force s cp.2.2) ∧
      Reaches (machine ext force) s s' := by
  induction hb with
  | nil s => exact ⟨[], .nil s, by simp, by simp, .refl _⟩
  | @cons n s s1 s' bs st _ ih =>
    obtain ⟨cps, hs, hc, hf, hr⟩ := ih (fun b hb' => hle b (List.mem_cons_of_mem _ hb'))
    obtain ⟨E, sl⟩ := steps_slice st
    have hr1 := steps_reaches st
    refine ⟨(n, E, s1) :: cps, .block (.slice sl) hs, ?_, ?_, (Reaches.gc hr1).trans hr⟩
    · intro cp hcp
      rcases List.mem_cons.mp hcp with rfl | h
      · exact hle (n, s1) (List.mem_cons_self ..)
      · exact hc cp h
    · intro cp hcp
      rcases List.mem_cons.mp hcp with rfl | h
      · exact ⟨s1, hr1, .inl rfl⟩
      · exact (hf cp h).mono (Reaches.gc hr1)

/-- what is left open when the loop returns -/
def OpenTail (ext : ExtOps) (force : Bool) (s1 : St CHeap) : Res (St CHeap) Fault → Prop
  | .paused s' => s' = s1
  | .done s' => ∃ n E, Seg ext n E s1 s' ∧ n ≤ 8192 ∧ Reaches (machine ext force) s1 s'
  | .error _ s' => ∃ n E, Seg ext n E s1 s' ∧ n ≤ 8192 ∧ Reaches (machine ext force) s1 s'
  | .fuel => True

/-- **`runLoop` of the concrete machine is paced**: for any budget, any fuel and any value of the cycle counter
    at which a block starts, the execution is a session of closed blocks of at most 8192 instructions, each
    followed by a collection, and — unless it paused — a last open block of at most 8192 instructions (the HALT
    that ended it included) -/
theorem runLoop_is_paced (ext : ExtOps) (force : Bool) (count : Option Nat) (fuel c : Nat) (s : St CHeap) :
    ∃ cps s1, Sess ext force s cps s1 ∧ (∀ cp ∈ cps, cp.1 ≤ 8192) ∧ (∀ cp ∈ cps, CpFrom ext force s cp.2.2) ∧
      Reaches (machine ext force) s s1 ∧ OpenTail ext force s1 (runLoop (machine ext force) count fuel c s) := by
  obtain ⟨bs, s1, hb, hle, ht⟩ := runLoop_blocks (machine ext force) count fuel c s s 0 (.nil _) (by omega)
  obtain ⟨cps, hs, hc, hf, hr1⟩ := blocks_sess hb hle
  refine ⟨cps, s1, hs, hc, hf, hr1, ?_⟩
  cases hr : runLoop (machine ext force) count fuel c s with
  | paused s' => rw [hr] at ht; exact ht
  | fuel => trivial
  | done s' =>
    rw [hr] at ht
    obtain ⟨n, s2, st, hn, hh⟩ := ht
    obtain ⟨E, sl⟩ := steps_slice st
    obtain ⟨E', sl'⟩ := Slice.snoc sl (vmStep_halt hh)
    exact ⟨n + 1, E', .slice sl', by omega, Reaches.halt (steps_reaches st) hh⟩
  | error f s' =>
    rw [hr] at ht
    obtain ⟨n, s2, st, hn, hh⟩ := ht
    obtain ⟨E, sl⟩ := steps_slice st
    have : s' = s2 := vmStep_fail hh
    subst this
    exact ⟨n, E, .slice sl, by omega, steps_reaches st⟩

/-- **one `run_count` call with its epilogues is paced**: the success epilogue (stack wipe) and the error epilogue
    (register reset, stack wipe) leave the heap alone and end in a collection, which closes the last block -/
theorem runEval_is_paced (ext : ExtOps) (force : Bool) (count : Option Nat) (fuel : Nat) (s : St CHeap) :
    match runEval (concreteOps ext) (cgc force) count fuel s with
    | .value s' => ∃ cps, Sess ext force s cps s' ∧ (∀ cp ∈ cps, cp.1 ≤ 8192) ∧ ∀ cp ∈ cps, CpFrom ext force s cp.2.2
    | .failed _ s' => ∃ cps, Sess ext force s cps s' ∧ (∀ cp ∈ cps, cp.1 ≤ 8192) ∧ ∀ cp ∈ cps, CpFrom ext force s cp.2.2
    | .paused s' => ∃ cps, Sess ext force s cps s' ∧ (∀ cp ∈ cps, cp.1 ≤ 8192) ∧ ∀ cp ∈ cps, CpFrom ext force s cp.2.2
    | .fuel => True := by
  obtain ⟨cps, s1, hs, hc, hf, hr1, ht⟩ := runLoop_is_paced ext force count fuel 0 s
  have em : (⟨vmStep (concreteOps ext), cgc force⟩ : Machine (St CHeap) Fault) = machine ext force := rfl
  unfold runEval
  rw [em]
  cases hr : runLoop (machine ext force) count fuel 0 s with
  | paused s' =>
    rw [hr] at ht
    simp only
    cases ht
    exact ⟨cps, hs, hc, hf⟩
  | fuel => trivial
  | done sd =>
    rw [hr] at ht
    obtain ⟨n, E, sg, hn, hr2⟩ := ht
    simp only
    refine ⟨cps ++ [(n + 0, E + 0, onDone sd)],
      hs.append (.block (.trans sg (.edit (s' := onDone sd) rfl)) (.nil _)), ?_, ?_⟩
    · intro cp hcp
      rcases List.mem_append.mp hcp with h | h
      · exact hc cp h
      · simp only [List.mem_cons, List.not_mem_nil, or_false] at h
        subst h
        exact hn
    · intro cp hcp
      rcases List.mem_append.mp hcp with h | h
      · exact hf cp h
      · simp only [List.mem_cons, List.not_mem_nil, or_false] at h
        subst h
        exact ⟨sd, hr1.trans hr2, .inr (.inl rfl)⟩
  | error f sf =>
    rw [hr] at ht
    obtain ⟨n, E, sg, hn, hr2⟩ := ht
    simp only
    refine ⟨cps ++ [(n + 0, E + 0, onError sf)],
      hs.append (.block (.trans sg (.edit (s' := onError sf) rfl)) (.nil _)), ?_, ?_⟩
    · intro cp hcp
      rcases List.mem_append.mp hcp with h | h
      · exact hc cp h
      · simp only [List.mem_cons, List.not_mem_nil, or_false] at h
        subst h
        exact hn
    · intro cp hcp
      rcases List.mem_append.mp hcp with h | h
      · exact hf cp h
      · simp only [List.mem_cons, List.not_mem_nil, or_false] at h
        subst h
        exact ⟨sf, hr1.trans hr2, .inr (.inr rfl)⟩

/-! ## a session is one run of the heap model -/

/-- the policy block of a collection point: at most `3·n + E` allocations, then `gcPoint force live` with `live` the
    number of cells reachable from the roots of the state the collection saw -/
def BlockOf (force : Bool) (p : Nat × Bool × Nat) (cp : CP) : Prop :=
  p.1 ≤ maxOpAlloc * cp.1 + cp.2.1 ∧ p.2.1 = force ∧ p.2.2 = liveCount cp.2.2

/-- **a session of the concrete machine is ONE run `HRun` of the heap model**: its operations are, block by block,
    `jᵢ ≤ 3·nᵢ + Eᵢ` allocations followed by the collection point `gcPoint force (liveCount cpᵢ)`; whatever the heap
    model does from the final heap on, it does from the initial heap after these operations -/
theorem sess_hrun {ext : ExtOps} {force : Bool} (ea : ExtAllocOnly ext) {s s' : St CHeap} {cps : List CP}
    (hs : Sess ext force s cps s') (inv : HInv s.heap) (ok : ∀ cp ∈ cps, GcOk force cp.2.2) :
    HInv s'.heap ∧ ∃ ps : List (Nat × Bool × Nat), All2 (BlockOf force) ps cps ∧
      ∀ (ops : List HeapPolicy.Op) (hf : Heap), HRun true (toHeap s'.heap) ops hf →
        HRun true (toHeap s.heap) (blocksOps ps ++ ops) hf := by
  induction hs with
  | nil s => exact ⟨inv, [], .nil, fun ops hf h => h⟩
  | @block n E s s1 s' cps sg _ ih =>
    obtain ⟨inv1, j, hj, aj⟩ := seg_allocs ea sg inv
    have ok1 := ok (n, E, s1) (List.mem_cons_self ..)
    obtain ⟨_, inv2, hgc⟩ := cgc_is_gcPoint ok1
    obtain ⟨inv', ps, hf2, hrun⟩ := ih inv2 (fun cp hcp => ok cp (List.mem_cons_of_mem _ hcp))
    refine ⟨inv', (j, force, liveCount s1) :: ps, .cons ⟨hj, rfl, rfl⟩ hf2, ?_⟩
    intro ops hf h
    have h1 := hgc _ hf (hrun ops hf h)
    have h2 := aj true _ hf h1
    simpa [blocksOps, List.append_assoc] using h2
  | @edit s s1 s' cps e _ ih =>
    rw [← e] at inv
    obtain ⟨inv', ps, hf2, hrun⟩ := ih inv ok
    refine ⟨inv', ps, hf2, ?_⟩
    intro ops hf h
    have := hrun ops hf h
    rwa [e] at this

theorem paced_blocks_append (A L : Nat) : ∀ bs : List (Nat × Bool × Nat), (∀ b ∈ bs, b.1 ≤ A ∧ b.2.2 ≤ L) →
    ∀ ops, Paced A L 0 ops → Paced A L 0 (blocksOps bs ++ ops)
  | [], _, ops, h => h
  | (j, f, l) :: bs, h, ops, hp => by
    have hb := h (j, f, l) (List.mem_cons_self ..)
    have ih := paced_blocks_append A L bs (fun b hb' => h b (List.mem_cons_of_mem _ hb')) ops hp
    have := paced_allocs A L j 0 (.gcPoint f l :: (blocksOps bs ++ ops)) (by simpa using hb.1) ⟨hb.2, ih⟩
    simpa [blocksOps, List.append_assoc] using this

theorem paced_tail (A L j : Nat) (hj : j ≤ A) : Paced A L 0 (List.replicate j HeapPolicy.Op.alloc) := by
  have := paced_allocs A L j 0 [] (by omega) trivial
  simpa using this

/-- **T12.3 for sessions of the concrete machine**, at any moment (closed blocks, then an open one): if every
    block has at most 8192 instructions, the unmodelled operations called in any block allocate at most `E` cells and
    at most `L` cells are reachable from the roots at every collection point, the heap never has more than
    `bound chunk initial (8192·3 + E) L` cells — however many blocks, instructions and collections there are -/
theorem sess_capacity_bounded {ext : ExtOps} {force : Bool} (ea : ExtAllocOnly ext) {s s1 s' : St CHeap}
    {cps : List CP} {n Et E L : Nat} (hs : Sess ext force s cps s1) (tail : Seg ext n Et s1 s')
    (inv : HInv s.heap) (ok : ∀ cp ∈ cps, GcOk force cp.2.2)
    (hn : ∀ cp ∈ cps, cp.1 ≤ 8192) (hE : ∀ cp ∈ cps, cp.2.1 ≤ E) (hL : ∀ cp ∈ cps, liveCount cp.2.2 ≤ L)
    (hnt : n ≤ 8192) (hEt : Et ≤ E)
    (hu : used s.heap ≤ L ∨ 4 * used s.heap < 3 * s.heap.cells.size) :
    s'.heap.cells.size ≤ bound s.heap.chunk s.heap.cells.size (8192 * maxOpAlloc + E) L := by
  obtain ⟨inv1, ps, hf2, hrun⟩ := sess_hrun ea hs inv ok
  obtain ⟨_, j, hj, aj⟩ := seg_allocs ea tail inv1
  have h1 := aj true [] _ (.done _)
  have h2 := hrun _ _ h1
  have hps : ∀ b ∈ ps, b.1 ≤ 8192 * maxOpAlloc + E ∧ b.2.2 ≤ L := by
    clear hrun h2 hs
    induction hf2 with
    | nil => simp
    | @cons p cp ps cps hb _ ih =>
      intro b hbm
      rcases List.mem_cons.mp hbm with rfl | h
      · have h1 := hn cp (List.mem_cons_self ..)
        have h2 := hE cp (List.mem_cons_self ..)
        have h3 := hL cp (List.mem_cons_self ..)
        obtain ⟨b1, _, b3⟩ := hb
        refine ⟨?_, by rw [b3]; exact h3⟩
        simp only [maxOpAlloc] at *
        omega
      · exact ih (fun c hc => ok c (List.mem_cons_of_mem _ hc)) (fun c hc => hn c (List.mem_cons_of_mem _ hc))
          (fun c hc => hE c (List.mem_cons_of_mem _ hc)) (fun c hc => hL c (List.mem_cons_of_mem _ hc)) b h
  have hpaced : Paced (8192 * maxOpAlloc + E) L 0 (blocksOps ps ++ (List.replicate j .alloc ++ [])) :=
    paced_blocks_append _ _ ps hps _ (by
      rw [List.append_nil]
      exact paced_tail _ _ j (by simp only [maxOpAlloc] at *; omega))
  have hu' : (proj (toHeap s.heap)).used ≤ L ∨ 4 * (proj (toHeap s.heap)).used < 3 * (toHeap s.heap).cells.size := by
    rw [proj_toHeap]; simpa [toHeap] using hu
  have := hrun_capacity_bounded true (toHeap s.heap) _ _ _ L (pre_of_inv inv) h2 hu' hpaced
  simpa [toHeap] using this

end Marwood.Lemmas.PolicySessionMain
