import Marwood.Lemmas.TransformEllKeys
import Marwood.Lemmas.TransformExpandPlain
/-!
# Templates with ellipsis groups: the class, and the specification's instantiation on it

`tP es ev T`: template `T` (for ellipsis name `es` and ellipsis variables `ev`) is made of proper,
vector-free lists; an element followed by the ellipsis — a *group* `U ...` — is an ellipsis-free
sub-template `U` that uses at least one ellipsis variable and none of them twice (`unitOK`); the
element after an ellipsis is not an ellipsis; outside groups no ellipsis variable occurs.
This is what `check_template_syntax` + `check_template_support` let through (except that several
groups per list are allowed here).
-/
namespace Marwood.Transform
open Marwood Marwood.Spec.Match

/-- the ellipsis variables used by a template, in order of occurrence -/
def evSyms (ev : List Text) (T : Datum) : List Text := (tmplSyms T).filter fun x => decide (x ∈ ev)

/-- a sub-template that may be followed by the ellipsis -/
def unitOK (es : Text) (ev : List Text) (U : Datum) : Bool :=
  plain es U && decide ((evSyms ev U).Nodup) && !(evSyms ev U).isEmpty

mutual
def tP (es : Text) (ev : List Text) : Datum → Bool
  | .sym x => x != es && !decide (x ∈ ev)
  | .pair a (.pair e rest) =>
    if e = .sym es then unitOK es ev a && tS es ev rest else tP es ev a && tS es ev (.pair e rest)
  | .pair a d => tP es ev a && tS es ev d
  | .vec _ => false
  | _ => true
def tS (es : Text) (ev : List Text) : Datum → Bool
  | .nil => true
  | .pair a (.pair e rest) =>
    if e = .sym es then unitOK es ev a && tS es ev rest else tP es ev a && tS es ev (.pair e rest)
  | .pair a d => tP es ev a && tS es ev d
  | _ => false
end

theorem tP_pair (es : Text) (ev : List Text) (a d : Datum) : tP es ev (.pair a d) = tS es ev (.pair a d) := by
  cases d <;> simp [tP, tS]

theorem tS_cons_ell (es : Text) (ev : List Text) (a : Datum) (rest : List Datum) :
    tS es ev (Datum.ofList (a :: .sym es :: rest)) = (unitOK es ev a && tS es ev (Datum.ofList rest)) := by
  simp [Datum.ofList, tS]

theorem tS_cons_ne (s : Setup) (ev : List Text) (a : Datum) (rest : List Datum)
    (h : peekIs s.ell rest = false) :
    tS s.es ev (Datum.ofList (a :: rest)) = (tP s.es ev a && tS s.es ev (Datum.ofList rest)) := by
  cases rest with
  | nil => simp [Datum.ofList, tS]
  | cons e rest' =>
    have he : e ≠ .sym s.es := by
      intro he; subst he; simp [peekIs, Setup.ell] at h
    simp [Datum.ofList, tS, he]

theorem tS_endsInNil_aux (es : Text) (ev : List Text) : ∀ (n : Nat) (T : Datum), dsize T ≤ n →
    tS es ev T = true → endsInNil T = true := by
  intro n
  induction n with
  | zero => intro T hn; cases T <;> simp [dsize] at hn
  | succ n ih =>
    intro T hn h
    cases T with
    | nil => rfl
    | pair a d =>
      simp only [endsInNil]
      simp only [dsize] at hn
      cases d with
      | pair e rest =>
        simp only [dsize] at hn
        simp only [tS] at h
        split at h
        · simp only [Bool.and_eq_true] at h
          have := ih rest (by omega) h.2
          simpa [endsInNil] using this
        · simp only [Bool.and_eq_true] at h
          exact ih _ (by simp only [dsize]; omega) h.2
      | nil => rfl
      | _ => simp [tS] at h
    | _ => simp [tS] at h

theorem tS_endsInNil (es : Text) (ev : List Text) (T : Datum) (h : tS es ev T = true) :
    endsInNil T = true := tS_endsInNil_aux es ev _ T (Nat.le_refl _) h

end Marwood.Transform
