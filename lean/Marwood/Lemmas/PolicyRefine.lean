import Marwood.Spec.HeapPolicy
import Marwood.Lemmas.GcSafety
/-!
# The heap model refines the policy specification on its counters

`proj h = (chunk, capacity, capacity − |free list|)`. `Heap.alloc` projects to `HeapPolicy.alloc`, and every
outcome of `Heap.runGc` to `HeapPolicy.gcPoint` with `live` = the cells in use after the sweep.
-/
namespace Marwood.Lemmas.PolicyRefine
open Marwood Marwood.Heap Marwood.Spec Marwood.Spec.HeapPolicy
open Marwood.Lemmas.GcSafety Marwood.Lemmas.GcSweep Marwood.Lemmas.HeapOps

def proj (h : Heap) : PState := ⟨h.chunk, h.cells.size, h.cells.size - h.free.length⟩

theorem setState_proj (h h' : Heap) (p : Nat) (s : GcState) (hs : h.setState p s = .ok h') :
    h'.chunk = h.chunk ∧ h'.cells = h.cells ∧ h'.free = h.free := by
  unfold Heap.setState at hs
  split at hs
  · cases hs; exact ⟨rfl, rfl, rfl⟩
  · cases hs

/-- `Heap::alloc` is `HeapPolicy.alloc` on the counters -/
theorem alloc_refines (h h' : Heap) (p : Nat) (hsz : h.gc.size = h.cells.size) (hs : Shape h)
    (hle : h.free.length ≤ h.cells.size) (ha : h.alloc = .ok (h', p)) :
    proj h' = HeapPolicy.alloc (proj h) := by
  unfold Heap.alloc at ha
  cases hf : h.free with
  | cons q rest =>
    simp only [hf, bind, Except.bind] at ha
    cases hst : Heap.setState { h with free := rest } q GcState.allocated with
    | error e => simp [hst] at ha
    | ok h1 =>
      simp only [hst, pure, Except.pure, Except.ok.injEq, Prod.mk.injEq] at ha
      obtain ⟨e1, _⟩ := ha
      subst e1
      obtain ⟨c1, c2, c3⟩ := setState_proj _ _ _ _ hst
      rw [hf] at hle
      simp only [List.length_cons] at hle
      have hlt : h.cells.size - (rest.length + 1) < h.cells.size := by omega
      simp only [proj, HeapPolicy.alloc, c1, c2, c3, hf, List.length_cons, hlt, if_true]
      congr 1
      omega
  | nil =>
    obtain ⟨g, hg, gs, _⟩ := grow_spec h hsz hs
    simp only [hf, hg, bind, Except.bind] at ha
    have hgf : g.free = (List.range' h.cells.size (g.cells.size - h.cells.size)).reverse := by
      rw [gs.free, hf]; simp
    cases hgl : g.free with
    | nil =>
      have := congrArg List.length hgf
      rw [hgl] at this
      simp at this
      have := gs.lt
      omega
    | cons q rest =>
      simp only [hgl] at ha
      cases hst : Heap.setState { g with free := rest } q GcState.allocated with
      | error e => simp [hst] at ha
      | ok h1 =>
        simp only [hst, pure, Except.pure, Except.ok.injEq, Prod.mk.injEq] at ha
        obtain ⟨e1, _⟩ := ha
        subst e1
        obtain ⟨c1, c2, c3⟩ := setState_proj _ _ _ _ hst
        have hlen : rest.length + 1 = g.cells.size - h.cells.size := by
          have := congrArg List.length hgf
          rw [hgl] at this
          simpa using this
        have hlt := gs.lt
        simp only [proj, HeapPolicy.alloc, c1, c2, c3, hf, List.length_nil, Nat.sub_zero, Nat.lt_irrefl,
          if_false, gs.chunk, gs.csize]
        congr 1
        rw [← gs.csize]
        omega

theorem usedSize_ok (h : Heap) (u : Nat) (hu : h.usedSize = .ok u) :
    h.free.length ≤ h.cells.size ∧ u = h.cells.size - h.free.length := by
  unfold Heap.usedSize Heap.freeSize Heap.capacity at hu
  split at hu
  · cases hu; exact ⟨by assumption, rfl⟩
  · cases hu

/-- every outcome of `Vm::run_gc` is `HeapPolicy.gcPoint` on the counters; `live` is what the sweep left -/
theorem runGc_refines (fixed force : Bool) (h : Heap) (r : Roots) (res : Heap.GcResult)
    (hsz : h.gc.size = h.cells.size) (hnu : ∀ i : Nat, h.gc[i]? ≠ some GcState.used) (hs : Shape h)
    (hrun : Heap.runGc fixed force h r = .ok res) :
    match res with
    | .skipped h' => h' = h ∧ HeapPolicy.collects force (proj h) = false
    | .collected h' => HeapPolicy.collects force (proj h) = true ∧
        proj h' = HeapPolicy.gcPoint force (proj h').used (proj h)
    | .fuelExhausted => False := by
  unfold Heap.runGc at hrun
  cases hu : h.usedSize with
  | error e => simp [hu, bind, Except.bind] at hrun
  | ok used =>
    obtain ⟨_, hused⟩ := usedSize_ok h used hu
    simp only [hu, bind, Except.bind] at hrun
    have hcol : HeapPolicy.collects force (proj h) = (force || Heap.utilAtLeast34 used h.capacity) := by
      simp [HeapPolicy.collects, proj, hused, Heap.capacity]
    split at hrun
    · rename_i hskip
      simp only [pure, Except.pure, Except.ok.injEq] at hrun
      subst hrun
      refine ⟨rfl, ?_⟩
      rw [hcol]
      cases force <;> simp_all
    · rename_i hskip
      have hc : HeapPolicy.collects force (proj h) = true := by
        rw [hcol]
        cases force <;> simp_all
      obtain ⟨h1, hm⟩ := mark_total fixed h (r.refs fixed)
      have ms := mark_spec fixed h (r.refs fixed) h1 hnu hm
      simp only [hm] at hrun
      obtain ⟨h2, hsw, ss⟩ := sweep_spec h1 (by rw [ms.gcsize, ms.cells]; exact hsz)
      simp only [hsw] at hrun
      cases hu2 : h2.usedSize with
      | error e => simp [hu2] at hrun
      | ok used2 =>
        obtain ⟨hle2, hused2⟩ := usedSize_ok h2 used2 hu2
        simp only [hu2] at hrun
        have hcs : h2.cells.size = h.cells.size := by rw [ss.csize, ms.cells]
        have hch : h2.chunk = h.chunk := by rw [ss.chunk, ms.chunk]
        split at hrun
        · rename_i hab
          have hs2 : Shape h2 := by
            obtain ⟨a, b, k, hk, hk2⟩ := hs
            exact ⟨by rw [hch]; exact a, by rw [hch]; exact b, k, hk, by rw [hcs, hch]; exact hk2⟩
          have hsz2 : h2.gc.size = h2.cells.size := by rw [ss.gcsize, ms.gcsize, hcs, hsz]
          obtain ⟨h3, hg3, gs, _⟩ := grow_spec h2 hsz2 hs2
          simp only [hg3, pure, Except.pure, Except.ok.injEq] at hrun
          subst hrun
          refine ⟨hc, ?_⟩
          have hfl : h3.free.length = (h3.cells.size - h2.cells.size) + h2.free.length := by
            rw [gs.free]; simp
          have hlt := gs.lt
          have hu3 : h3.cells.size - h3.free.length = used2 := by omega
          have hab' : Heap.utilAbove34 used2 h.cells.size = true := by
            simpa [Heap.capacity, hcs] using hab
          have hu3' : (proj h3).used = used2 := hu3
          have hab'' : Heap.utilAbove34 used2 (proj h).capacity = true := hab'
          unfold HeapPolicy.gcPoint
          rw [if_pos hc, hu3', if_pos hab'']
          simp only [proj, PState.mk.injEq]
          exact ⟨by rw [gs.chunk, hch], by rw [gs.csize, hcs, hch], hu3⟩
        · rename_i hab
          simp only [pure, Except.pure, Except.ok.injEq] at hrun
          subst hrun
          refine ⟨hc, ?_⟩
          have hab' : Heap.utilAbove34 used2 h.cells.size = false := by
            simpa [Heap.capacity, hcs] using hab
          have hu2' : (proj h2).used = used2 := hused2.symm
          have hab'' : Heap.utilAbove34 used2 (proj h).capacity = false := hab'
          unfold HeapPolicy.gcPoint
          rw [if_pos hc, hu2', hab'']
          simp only [proj, PState.mk.injEq, Bool.false_eq_true, if_false]
          exact ⟨hch, hcs, hused2.symm⟩

end Marwood.Lemmas.PolicyRefine
