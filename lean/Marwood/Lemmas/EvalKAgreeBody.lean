import Marwood.Lemmas.EvalKAgreeForms
/-! # `Spec.EvalK` without `call/cc` is `Spec.Eval` — bodies, operands, `let*`, `letrec` -/
namespace Marwood.Lemmas.EvalKAgree
open Marwood Marwood.Spec.Eval Marwood.Spec.EvalK
variable {r : Rec}

/-- `evalBodyForms` -/
theorem sim_bodyForms (hr : SimRec r) (ρ : Env) (defs : Bool) (forms : List Datum) (σ : St) (κ : Kont) (ks : Array Kont) :
    Sim (bodyFormsGo ρ defs forms κ σ ks) (evalBodyForms r ρ defs forms σ) κ ks := by
  induction forms generalizing defs σ with
  | nil => exact Sim.throw _ _ _ _
  | cons e es ih =>
    cases es with
    | nil =>
      simp only [bodyFormsGo, evalBodyForms]
      split
      · apply sim_define hr
        intro x v σ'
        show Sim (withM (assignVar ρ x v) σ' ks _) ((assignVar ρ x v >>= fun _ => (pure Val.void : M Val)) σ') κ ks
        apply Sim.withM
        intro _ σ'' _
        exact Sim.pure _ _ _ _
      · exact hr.eval e ρ σ κ ks
    | cons e2 es =>
      simp only [bodyFormsGo, evalBodyForms]
      split
      · apply sim_define hr
        intro x v σ'
        show Sim (withM (assignVar ρ x v) σ' ks _)
          ((assignVar ρ x v >>= fun _ => evalBodyForms r ρ true (e2 :: es)) σ') κ ks
        apply Sim.withM
        intro _ σ'' _
        exact ih true σ''
      · rw [evalBodyForms_false]
        apply Sim.evalBind hr
        intro v σ' _
        exact sim_exprs hr ρ (e2 :: es) σ' κ ks

/-- `evalBody` -/
theorem sim_body (hr : SimRec r) (ρ : Env) (body : List Datum) (σ : St) (κ : Kont) (ks : Array Kont) :
    Sim (bodyGo ρ body κ σ ks) (evalBody r ρ body σ) κ ks := by
  unfold bodyGo evalBody
  apply Sim.withM
  intro ρ' σ' _
  exact sim_bodyForms hr ρ' true body σ' κ ks

/-- operands: `g` = what `Spec.Eval` does with the operand values, `h` = the machine's `argsDone` simulates it -/
theorem sim_args (hr : SimRec r) (ρ : Env) (th : ArgsThen) (g : List Val → M Val) (κ : Kont) (ks : Array Kont)
    (h : ∀ vs σ', Sim (argsDone ρ vs th κ σ' ks) (g vs σ') κ ks) :
    ∀ (todo : List Datum) (done : List Val) (σ : St),
      Sim (argsGo ρ done todo th κ σ ks) ((evalArgs r ρ todo >>= fun vs => g (done.reverse ++ vs)) σ) κ ks := by
  intro todo
  induction todo with
  | nil =>
    intro done σ
    show Sim (argsDone ρ done.reverse th κ σ ks) (g (done.reverse ++ []) σ) κ ks
    rw [List.append_nil]
    exact h _ _
  | cons e es ih =>
    intro done σ
    show Sim (evalIn e ρ (.args ρ done es th :: κ) σ ks)
      (((r.eval e ρ >>= fun v => evalArgs r ρ es >>= fun vs => (pure (v :: vs) : M (List Val))) >>=
        fun vs => g (done.reverse ++ vs)) σ) κ ks
    rw [bind_assoc_M]
    apply Sim.evalBind hr
    intro v σ' _
    show Sim (argsGo ρ (v :: done) es th κ σ' ks) _ κ ks
    have := ih (v :: done) σ'
    rw [bind_assoc_M]
    simp only [pure_bind_M]
    simpa only [List.reverse_cons, List.append_assoc, List.singleton_append] using this

/-- `evalLetStar` -/
theorem sim_letStar (hr : SimRec r) (body : List Datum) :
    ∀ (bs : List (Text × Datum)) (ρ : Env) (σ : St) (κ : Kont) (ks : Array Kont),
      Sim (letStarGo body bs ρ κ σ ks) (evalLetStar r body bs ρ σ) κ ks := by
  intro bs
  induction bs with
  | nil =>
    intro ρ σ κ ks
    exact sim_body hr ρ body σ κ ks
  | cons b bs ih =>
    intro ρ σ κ ks
    obtain ⟨x, e⟩ := b
    show Sim (evalIn e ρ (.letStarK ρ x bs body :: κ) σ ks)
      ((r.eval e ρ >>= fun v => allocCell (.var v) >>= fun l => evalLetStar r body bs ((x, l) :: ρ)) σ) κ ks
    apply Sim.evalBind hr
    intro v σ' _
    simp only [retGo]
    apply Sim.withM
    intro l σ'' _
    exact ih ((x, l) :: ρ) σ'' κ ks

/-- `evalLetrecInits`, then the body -/
theorem sim_letrec (hr : SimRec r) (ρ : Env) (body : List Datum) :
    ∀ (bs : List (Text × Datum)) (σ : St) (κ : Kont) (ks : Array Kont),
      Sim (letrecGo ρ bs body κ σ ks) ((evalLetrecInits r ρ bs >>= fun _ => evalBody r ρ body) σ) κ ks := by
  intro bs
  induction bs with
  | nil =>
    intro σ κ ks
    exact sim_body hr ρ body σ κ ks
  | cons b bs ih =>
    intro σ κ ks
    obtain ⟨x, e⟩ := b
    show Sim (evalIn e ρ (.letrecK ρ x bs body :: κ) σ ks)
      (((r.eval e ρ >>= fun v => assignVar ρ x v >>= fun _ => evalLetrecInits r ρ bs) >>=
        fun _ => evalBody r ρ body) σ) κ ks
    rw [bind_assoc_M]
    apply Sim.evalBind hr
    intro v σ' _
    rw [bind_assoc_M]
    show Sim (withM (assignVar ρ x v) σ' ks _) _ κ ks
    apply Sim.withM
    intro _ σ'' _
    exact ih σ'' κ ks

/-- application: the operator is evaluated after the operands -/
theorem sim_argsDone_call (hr : SimRec r) (ρ : Env) (f : Datum) (vs : List Val) (σ : St) (κ : Kont) (ks : Array Kont) :
    Sim (argsDone ρ vs (.call f) κ σ ks) ((r.eval f ρ >>= fun fv => r.apply fv vs) σ) κ ks := by
  show Sim (evalIn f ρ (.fn vs :: κ) σ ks) _ κ ks
  apply Sim.evalBind hr
  intro fv σ' _
  exact hr.apply fv vs σ' κ ks

/-- `let` -/
theorem sim_argsDone_letBody (hr : SimRec r) (ρ : Env) (names : List Text) (body : List Datum) (vs : List Val) (σ : St) (κ : Kont) (ks : Array Kont) :
    Sim (argsDone ρ vs (.letBody names body) κ σ ks) ((allocVars (names.zip vs) ρ >>= fun ρ' => evalBody r ρ' body) σ) κ ks := by
  show Sim (withM (allocVars (names.zip vs) ρ) σ ks _) _ κ ks
  apply Sim.withM
  intro ρ' σ' _
  exact sim_body hr ρ' body σ' κ ks

/-- named `let` -/
theorem sim_argsDone_namedLet (hr : SimRec r) (ρ : Env) (name : Text) (names : List Text) (body : List Datum) (vs : List Val) (σ : St) (κ : Kont) (ks : Array Kont) :
    Sim (argsDone ρ vs (.namedLet name names body) κ σ ks)
      ((do let l ← allocCell (.var .undef)
           let f := Val.closure names none body ((name, l) :: ρ)
           writeCell l (.var f)
           r.apply f vs : M Val) σ) κ ks := by
  show Sim (withM (allocCell (.var .undef) >>= fun l =>
        writeCell l (.var (Val.closure names none body ((name, l) :: ρ))) >>= fun _ =>
          (pure (Val.closure names none body ((name, l) :: ρ)) : M Val)) σ ks _)
    ((allocCell (.var .undef) >>= fun l =>
        writeCell l (.var (Val.closure names none body ((name, l) :: ρ))) >>= fun _ =>
          r.apply (Val.closure names none body ((name, l) :: ρ)) vs) σ) κ ks
  have e : (allocCell (.var .undef) >>= fun l =>
        writeCell l (.var (Val.closure names none body ((name, l) :: ρ))) >>= fun _ =>
          r.apply (Val.closure names none body ((name, l) :: ρ)) vs)
      = ((allocCell (.var .undef) >>= fun l =>
        writeCell l (.var (Val.closure names none body ((name, l) :: ρ))) >>= fun _ =>
          (pure (Val.closure names none body ((name, l) :: ρ)) : M Val)) >>= fun f => r.apply f vs) := by
    rw [bind_assoc_M]
    congr 1; funext l
    rw [bind_assoc_M]
    rfl
  rw [e]
  apply Sim.withM
  intro f σ' _
  exact hr.apply f vs σ' κ ks

end Marwood.Lemmas.EvalKAgree
