import Marwood.Lemmas.ContResumeWrite
/-!
# The machine reads only live stack cells — stack-level congruences

`Agree L a b`: the stacks `a` and `b` have the same `sp ≤ L`, both have capacity beyond `L`, and hold
the same cells at every index `≤ L`. What lies above `L` (stale cells, the capacity itself) is
unconstrained. Every stack operation of the machine that succeeds on `a` and reads only at indices
`≤ L` succeeds on `b` with the same result, and the results agree again (up to some `L' ≥ L`:
pushes extend the agreement).
-/
namespace Marwood.Vm
open Stack

structure Agree (L : Nat) (a b : Stack) : Prop where
  sp : a.sp = b.sp
  le : a.sp ≤ L
  capa : L < a.cells.length
  capb : L < b.cells.length
  cells : ∀ i, i ≤ L → a.cellAt i = b.cellAt i

theorem pop_of_lt (s : Stack) (h0 : 0 < s.sp) (hl : s.sp < s.cells.length) :
    s.pop = .ok (s.cellAt s.sp, { s with sp := s.sp - 1 }) := by
  unfold Stack.pop Stack.cellAt
  simp only [h0, if_true]
  rw [List.getElem?_eq_getElem hl]; rfl

namespace Agree

variable {L : Nat} {a b : Stack}

theorem symm (h : Agree L a b) : Agree L b a :=
  ⟨h.sp.symm, by rw [← h.sp]; exact h.le, h.capb, h.capa, fun i hi => (h.cells i hi).symm⟩

theorem weaken (h : Agree L a b) {L' : Nat} (h1 : a.sp ≤ L') (h2 : L' ≤ L) : Agree L' a b :=
  ⟨h.sp, h1, by have := h.capa; omega, by have := h.capb; omega, fun i hi => h.cells i (by omega)⟩

theorem get_eq (h : Agree L a b) {i : Nat} (hi : i ≤ L) : a.get i = b.get i := by
  rw [get_of_lt a i (by have := h.capa; omega), get_of_lt b i (by have := h.capb; omega), h.cells i hi]

theorem getOffset_eq (h : Agree L a b) {off : Int} (hi : (a.sp : Int) + off ≤ L) :
    a.getOffset off = b.getOffset off := by
  unfold Stack.getOffset
  simp only [← h.sp]
  split
  · exact h.get_eq (by omega)
  · rfl

theorem setSp (h : Agree L a b) {n : Nat} (hn : n ≤ L) : Agree L { a with sp := n } { b with sp := n } :=
  ⟨rfl, hn, h.capa, h.capb, h.cells⟩

theorem pop (h : Agree L a b) {v : VCell} {a' : Stack} (hp : a.pop = .ok (v, a')) :
    ∃ b', b.pop = .ok (v, b') ∧ Agree L a' b' := by
  obtain ⟨p1, p2, p3⟩ := pop_ok hp
  have hle := h.le
  have hsp := h.sp
  have hcb := h.capb
  refine ⟨{ b with sp := b.sp - 1 }, ?_, ?_⟩
  · rw [pop_of_lt b (by omega) (by omega), p3, h.cells a.sp h.le, h.sp]
  · exact ⟨by show a'.sp = b.sp - 1; omega, by omega, by rw [p2]; exact h.capa, h.capb,
      fun i hi => by rw [cells_eq_cellAt p2]; exact h.cells i hi⟩

theorem push (h : Agree L a b) (v : VCell) : ∃ L', L ≤ L' ∧ Agree L' (a.push v) (b.push v) := by
  by_cases hlt : a.sp < L
  · refine ⟨L, Nat.le_refl _, by simp [h.sp], by simp; omega,
      Nat.lt_of_lt_of_le h.capa (push_len _ _), Nat.lt_of_lt_of_le h.capb (push_len _ _), ?_⟩
    intro i hi
    rw [push_cellAt, push_cellAt, h.sp, h.cells i hi]
  · have he : a.sp = L := by have := h.le; omega
    refine ⟨L + 1, by omega, by simp [h.sp], by simp; omega, ?_, ?_, ?_⟩
    · have := push_sp_lt a v; simp only [push_sp] at this; omega
    · have := push_sp_lt b v; simp only [push_sp] at this; have := h.sp; omega
    · intro i hi
      rw [push_cellAt, push_cellAt, ← h.sp]
      by_cases hi' : i = a.sp + 1
      · simp [hi']
      · simp only [hi', if_false]
        exact h.cells i (by omega)

theorem set (h : Agree L a b) {i : Nat} (hi : i ≤ L) {v : VCell} {a' : Stack} (hs : a.set i v = .ok a') :
    ∃ b', b.set i v = .ok b' ∧ Agree L a' b' := by
  have la : i < a.cells.length := by have := h.capa; omega
  have lb : i < b.cells.length := by have := h.capb; omega
  rw [set_of_lt a i v la] at hs
  cases hs
  refine ⟨_, set_of_lt b i v lb, h.sp, h.le, by simpa using h.capa, by simpa using h.capb, ?_⟩
  intro j hj
  rw [at_set_cells _ _ _ _ la, at_set_cells _ _ _ _ lb, h.cells j hj]

theorem setOffset (h : Agree L a b) {off : Int} (hi : (a.sp : Int) + off ≤ L) {v : VCell} {a' : Stack}
    (hs : a.setOffset off v = .ok a') : ∃ b', b.setOffset off v = .ok b' ∧ Agree L a' b' := by
  unfold Stack.setOffset at hs ⊢
  simp only [← h.sp]
  simp only at hs
  split at hs
  · rename_i h0
    simp only [h0, if_true]
    exact h.set (by omega) hs
  · cases hs

/-- `to_continuation` copies live cells only -/
theorem capture_eq (h : Agree L a b) : a.capture = b.capture := by
  unfold Stack.capture
  have l1 : a.sp + 1 ≤ a.cells.length := by have := h.capa; have := h.le; omega
  have l2 : b.sp + 1 ≤ b.cells.length := by have := h.capb; have := h.le; have := h.sp; omega
  simp only [l1, l2, if_true]
  congr 1
  have : List.take (a.sp + 1) a.cells = List.take (b.sp + 1) b.cells := by
    rw [← h.sp]
    have hsp := h.sp
    apply List.ext_getElem
    · simp only [List.length_take]; omega
    · intro i hi1 hi2
      simp only [List.length_take] at hi1 hi2
      have := h.cells i (by have := h.le; omega)
      unfold Stack.cellAt at this
      rw [List.getElem?_eq_getElem (by omega), List.getElem?_eq_getElem (by omega)] at this
      simpa using this
  rw [this, h.sp]

/-- `restore_continuation` when both stacks are large enough -/
theorem restore_any {a b a' c : Stack} (hc : c.sp < c.cells.length) (ha : a.restore c = .ok a')
    (hb : c.cells.length ≤ b.cells.length) : ∃ b', b.restore c = .ok b' ∧ Agree c.sp a' b' := by
  unfold Stack.restore at ha ⊢
  split at ha
  · rename_i hl
    cases ha
    simp only [hb, if_true]
    refine ⟨_, rfl, rfl, Nat.le_refl _, by simp; omega, by simp; omega, ?_⟩
    intro i hi
    unfold Stack.cellAt
    simp [List.getElem?_append_left (show i < c.cells.length by omega)]
  · cases ha

end Agree

/-! ## the loops -/

theorem Agree.popN {L : Nat} : ∀ (k : Nat) {a b a' : Stack} {vs : List VCell}, Agree L a b →
    Vm.popN k a = .ok (vs, a') → ∃ b', Vm.popN k b = .ok (vs, b') ∧ Agree L a' b' := by
  intro k
  induction k with
  | zero => intro a b a' vs h hp; simp only [Vm.popN] at hp ⊢; cases hp; exact ⟨b, rfl, h⟩
  | succ k ih =>
    intro a b a' vs h hp
    simp only [Vm.popN] at hp ⊢
    obtain ⟨⟨v, a1⟩, hp1, hp⟩ := bind_inv hp
    obtain ⟨⟨vs1, a2⟩, hp2, hp⟩ := bind_inv hp
    cases hp
    obtain ⟨b1, q1, h1⟩ := h.pop hp1
    obtain ⟨b2, q2, h2⟩ := ih h1 hp2
    refine ⟨b2, ?_, h2⟩
    rw [q1]; show (Vm.popN k b1 >>= _) = _
    rw [q2]; rfl

theorem Agree.shift {L : Nat} : ∀ (k : Nat) {a b a' : Stack}, Agree L a b →
    builtinApply.shift k a = .ok a' → ∃ b', builtinApply.shift k b = .ok b' ∧ Agree L a' b' := by
  intro k
  induction k with
  | zero => intro a b a' h hs; simp only [builtinApply.shift] at hs ⊢; cases hs; exact ⟨b, rfl, h⟩
  | succ k ih =>
    intro a b a' h hs
    simp only [builtinApply.shift] at hs ⊢
    obtain ⟨v, hg, hs⟩ := bind_inv hs
    obtain ⟨a1, hset, hs⟩ := bind_inv hs
    have hle := h.le
    have e1 := h.getOffset_eq (off := -(k : Int)) (by omega)
    obtain ⟨b1, q1, h1⟩ := h.setOffset (off := -(k : Int) - 1) (by omega) hset
    obtain ⟨b2, q2, h2⟩ := ih h1 hs
    refine ⟨b2, ?_, h2⟩
    rw [← e1, hg]; show (b.setOffset _ v >>= _) = _
    rw [q1]; exact q2

theorem Agree.pushList {H : Type} {ops : HeapOps H} {s s2 : St H} (hh : s2.heap = s.heap) :
    ∀ (fuel : Nat) (rest : VCell) (n : Nat) {L : Nat} {a b a' : Stack} {n' : Nat}, Agree L a b →
    builtinApply.pushList ops s fuel rest n a = .ok (n', a') →
    ∃ b' L', L ≤ L' ∧ builtinApply.pushList ops s2 fuel rest n b = .ok (n', b') ∧ Agree L' a' b' := by
  intro fuel
  induction fuel with
  | zero => intro rest n L a b a' n' h hp; simp only [builtinApply.pushList] at hp; cases hp
  | succ fuel ih =>
    intro rest n L a b a' n' h hp
    simp only [builtinApply.pushList] at hp ⊢
    split at hp
    · rename_i car cdr
      obtain ⟨L1, hL1, h1⟩ := h.push (.ptr car)
      obtain ⟨b', L', hL', q, h2⟩ := ih _ _ h1 hp
      rw [hh]
      exact ⟨b', L', by omega, q, h2⟩
    · cases hp
      exact ⟨b, L, Nat.le_refl _, rfl, h⟩
    · cases hp

theorem Agree.tcallCopySame {L : Nat} : ∀ (k it bp : Nat) {a b a' : Stack}, Agree L a b → bp ≤ L →
    Vm.tcallCopySame k it bp a = .ok a' → ∃ b', Vm.tcallCopySame k it bp b = .ok b' ∧ Agree L a' b' := by
  intro k
  induction k with
  | zero => intro it bp a b a' h _ hs; simp only [Vm.tcallCopySame] at hs ⊢; cases hs; exact ⟨b, rfl, h⟩
  | succ k ih =>
    intro it bp a b a' h hbp hs
    simp only [Vm.tcallCopySame] at hs ⊢
    obtain ⟨v, hg, hs⟩ := bind_inv hs
    obtain ⟨i, hu, hs⟩ := bind_inv hs
    obtain ⟨a1, hset, hs⟩ := bind_inv hs
    have hle := h.le
    have e1 := h.getOffset_eq (off := -1 - (it : Int)) (by omega)
    obtain ⟨_, ei⟩ := usub_ok hu
    obtain ⟨b1, q1, h1⟩ := h.set (i := i) (by omega) hset
    obtain ⟨b2, q2, h2⟩ := ih (it + 1) bp h1 hbp hs
    refine ⟨b2, ?_, h2⟩
    rw [← e1, hg]; show (usub bp it _ >>= _) = _
    rw [hu]; show (b.set i v >>= _) = _
    rw [q1]; exact q2

theorem Agree.tcallCopyDiff : ∀ (it savedSp : Nat) {L : Nat} {a b a' : Stack}, Agree L a b → savedSp ≤ L + 1 →
    Vm.tcallCopyDiff it savedSp a = .ok a' →
    ∃ b' L', L ≤ L' ∧ Vm.tcallCopyDiff it savedSp b = .ok b' ∧ Agree L' a' b' := by
  intro it
  induction it with
  | zero => intro sv L a b a' h _ hs; simp only [Vm.tcallCopyDiff] at hs ⊢; cases hs; exact ⟨b, L, Nat.le_refl _, rfl, h⟩
  | succ it ih =>
    intro sv L a b a' h hsv hs
    simp only [Vm.tcallCopyDiff] at hs ⊢
    obtain ⟨i, hu, hs⟩ := bind_inv hs
    obtain ⟨v, hg, hs⟩ := bind_inv hs
    obtain ⟨_, ei⟩ := usub_ok hu
    have e1 := h.get_eq (i := i) (by omega)
    obtain ⟨L1, hL1, h1⟩ := h.push v
    obtain ⟨b', L', hL', q, h2⟩ := ih sv h1 (by omega) hs
    refine ⟨b', L', by omega, ?_, h2⟩
    rw [hu]; show (b.get i >>= _) = _
    rw [← e1, hg]; exact q

theorem Agree.varargCollect {H : Type} {ops : HeapOps H} {L : Nat} : ∀ (k : Nat) (h : H) (acc : Nat)
    {a b a' : Stack} {h' : H} {l : Nat}, Agree L a b →
    Vm.varargCollect ops k h acc a = .ok (h', l, a') →
    ∃ b', Vm.varargCollect ops k h acc b = .ok (h', l, b') ∧ Agree L a' b' := by
  intro k
  induction k with
  | zero => intro h acc a b a' h' l hag hc; simp only [Vm.varargCollect] at hc ⊢; cases hc; exact ⟨b, rfl, hag⟩
  | succ k ih =>
    intro h acc a b a' h' l hag hc
    simp only [Vm.varargCollect] at hc ⊢
    obtain ⟨⟨v, a1⟩, hp, hc⟩ := bind_inv hc
    dsimp only at hc
    obtain ⟨pa, ha, hc⟩ := bind_inv hc
    obtain ⟨pp, hpp, hc⟩ := bind_inv hc
    obtain ⟨b1, q1, h1⟩ := hag.pop hp
    obtain ⟨b2, q2, h2⟩ := ih _ _ h1 hc
    refine ⟨b2, ?_, h2⟩
    rw [q1]; simp only [outcome_bind_ok]
    show (asPtr _ >>= _) = _
    rw [ha]; show (asPtr _ >>= _) = _
    rw [hpp]; exact q2

end Marwood.Vm
