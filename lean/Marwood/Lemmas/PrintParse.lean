import Marwood.Lemmas.PrintLex
import Marwood.Proofs.C16
/-!
# Reading what `write` wrote (C10, T10.1): tokens of the printed text and what the parser makes of them

For a datum `d` printed inside a text `text = pre ++ printD d ++ rest0`:
* `ScanSeg pre body rest0 tsd` — the scanner, arriving at `body`, emits the tokens `tsd` (with their
  byte spans in `text`) and continues with `rest0`;
* `ReadsD … d'` — moreover the parser, given `tsd ++ k`, returns `d'` and leaves `k`, and the first
  token is neither `)` nor `.`;
* `ReadsRest`, `ReadsElems` — the same for the tail of a list after its first element (`listF` with a
  non-empty accumulator) and for the elements of a vector up to and including `)` (`vectorF`).
The induction over the datum follows the four mutually recursive printer functions.
-/
namespace Marwood
open Marwood.Proofs.C16

/-! ## vocabulary -/

/-- a symbol the reader produces from its own spelling: followed by a delimiter it scans as one token,
of type `Symbol`, or of type `Number` with a spelling that is not a number (`1+`, `-`, `1/0`) -/
def SymTok (fo : FloatOps) (s : Text) : Prop :=
  ∀ rest, Delim rest →
    ScansAs s .symbol rest ∨ (ScansAs s .number rest ∧ parseWithExactness fo s .unspecified 10 = .err ())

def properSpine : Datum → Bool
  | .nil => true
  | .pair _ d => properSpine d
  | _ => false

/-- lexical shape of printed finite doubles (assumed of Rust's `{}`, `{:e}`, `{:.1}`, checked on every
double the correspondence uses): an optional minus sign or digit first, then digits, `.`, `e` -/
structure FloatLex (fo : FloatOps) : Prop where
  shape : ∀ f : F64, f.isFinite = true → NumberShape (printNumber fo (.flo f))

/-- the data C10 quantifies over -/
def Readable (fo : FloatOps) : Datum → Prop
  | .bool _ => True
  | .char _ => True
  | .str _ => True
  | .nil => True
  | .num n => n.WF = true ∧ ∀ f, n = .flo f → f.isFinite = true
  | .sym s => SymTok fo s
  | .pair a d => Readable fo a ∧ Readable fo d
  | .vec e => Readable fo e ∧ properSpine e = true
  | _ => False

/-- what the reader returns for the written form: numbers in the representation the reader chooses -/
def canon : Datum → Datum
  | .num n => .num (normalize n)
  | .pair a d => .pair (canon a) (canon d)
  | .vec e => .vec (canon e)
  | d => d

def HeadOk (ts : List Token) : Prop := ∃ t rest, ts = t :: rest ∧ t.ty ≠ .rightParen ∧ t.ty ≠ .dot

def ScanSeg (pre body rest0 : Text) (tsd : List Token) : Prop :=
  ∀ ts0, ScanTo (byteLen pre + byteLen body) rest0 ts0 → ScanTo (byteLen pre) (body ++ rest0) (tsd ++ ts0)

def ReadsD (fo : FloatOps) (text pre body rest0 : Text) (d' : Datum) : Prop :=
  ∃ tsd, ScanSeg pre body rest0 tsd ∧ HeadOk tsd ∧
    ∀ k, ∃ f, parseF fo text f (tsd ++ k) = some (.ok (d', k))

def ReadsRest (fo : FloatOps) (text pre body rest0 : Text) (tail' : Datum) : Prop :=
  ∃ tsd, ScanSeg pre body rest0 tsd ∧
    ∀ start acc k, acc ≠ [] → firstChar text start = .ok '(' →
      ∃ f, listF fo text f start acc (tsd ++ k) = some (.ok (Datum.ofListTail acc tail', k))

def ReadsElems (fo : FloatOps) (text pre body rest0 : Text) (xs : List Datum) : Prop :=
  ∃ tsd, ScanSeg pre body rest0 tsd ∧
    ∀ acc k, ∃ f, vectorF fo text f acc (tsd ++ k) = some (.ok (Datum.vecOfList (acc ++ xs), k))

/-! ## scanning segments -/

theorem ScanSeg.nil (pre rest0 : Text) : ScanSeg pre [] rest0 [] := by
  intro ts0 h
  simpa using h

theorem ScanSeg.tok {pre sp rest0 : Text} {ty : TokType} (hs : ScansAs sp ty rest0) :
    ScanSeg pre sp rest0 [⟨byteLen pre, byteLen pre + byteLen sp, ty⟩] := by
  intro ts0 h
  exact ScanTo.tok hs h

theorem ScanSeg.space (pre rest0 : Text) : ScanSeg pre [' '] rest0 [] := by
  intro ts0 h
  have hb : byteLen [' '] = 1 := by decide
  rw [hb] at h
  exact ScanTo.space h

theorem ScanSeg.append {pre a b rest0 : Text} {ta tb : List Token}
    (ha : ScanSeg pre a (b ++ rest0) ta) (hb : ScanSeg (pre ++ a) b rest0 tb) :
    ScanSeg pre (a ++ b) rest0 (ta ++ tb) := by
  intro ts0 h
  have h1 := hb ts0 (by rw [byteLen_append]; rw [byteLen_append] at h; rw [Nat.add_assoc]; exact h)
  rw [byteLen_append] at h1
  have h2 := ha _ h1
  simpa [List.append_assoc] using h2

/-! ## spans -/

theorem tokSpan_mid (pre sp post : Text) (ty : TokType) :
    tokSpan (pre ++ sp ++ post) ⟨byteLen pre, byteLen pre + byteLen sp, ty⟩ = .ok sp := by
  unfold tokSpan
  simp only [sliceBytes_append]

theorem firstChar_mid (pre : Text) (c : Char) (cs post : Text) (ty : TokType) :
    firstChar (pre ++ (c :: cs) ++ post) ⟨byteLen pre, byteLen pre + byteLen (c :: cs), ty⟩ = .ok c := by
  unfold firstChar
  rw [tokSpan_mid]

/-! ## fuel -/

theorem listF_mono (fo : FloatOps) (text : Text) {f f' : Nat} {start : Token} {acc : List Datum}
    {ts : List Token} {r : PRes (Datum × List Token)} (hle : f ≤ f')
    (h : listF fo text f start acc ts = some r) : listF fo text f' start acc ts = some r := by
  induction hle with
  | refl => exact h
  | step _ ih => exact (fuel_succ fo text _).2.1 _ _ _ _ ih

theorem tailF_mono (fo : FloatOps) (text : Text) {f f' : Nat} {acc : List Datum}
    {ts : List Token} {r : PRes (Datum × List Token)} (hle : f ≤ f')
    (h : tailF fo text f acc ts = some r) : tailF fo text f' acc ts = some r := by
  induction hle with
  | refl => exact h
  | step _ ih => exact (fuel_succ fo text _).2.2.1 _ _ _ ih

theorem vectorF_mono (fo : FloatOps) (text : Text) {f f' : Nat} {acc : List Datum}
    {ts : List Token} {r : PRes (Datum × List Token)} (hle : f ≤ f')
    (h : vectorF fo text f acc ts = some r) : vectorF fo text f' acc ts = some r := by
  induction hle with
  | refl => exact h
  | step _ ih => exact (fuel_succ fo text _).2.2.2 _ _ _ ih

/-- one element inside a list -/
theorem listF_elem (fo : FloatOps) (text : Text) {start : Token} {acc : List Datum} {ts rest : List Token}
    {x : Datum} {r : PRes (Datum × List Token)} {f1 f2 : Nat} (hh : HeadOk ts)
    (h1 : parseF fo text f1 ts = some (.ok (x, rest)))
    (h2 : listF fo text f2 start (acc ++ [x]) rest = some r) :
    listF fo text (max f1 f2 + 1) start acc ts = some r := by
  obtain ⟨t, ts0, rfl, hr, hd⟩ := hh
  rw [listF]
  simp only [hr, hd, if_false]
  rw [parseF_mono fo text (Nat.le_max_left f1 f2) h1]
  exact listF_mono fo text (Nat.le_max_right f1 f2) h2

/-- one element inside a vector -/
theorem vectorF_elem (fo : FloatOps) (text : Text) {acc : List Datum} {ts rest : List Token}
    {x : Datum} {r : PRes (Datum × List Token)} {f1 f2 : Nat} (hh : HeadOk ts)
    (h1 : parseF fo text f1 ts = some (.ok (x, rest)))
    (h2 : vectorF fo text f2 (acc ++ [x]) rest = some r) :
    vectorF fo text (max f1 f2 + 1) acc ts = some r := by
  obtain ⟨t, ts0, rfl, hr, hd⟩ := hh
  rw [vectorF]
  simp only [hr, hd, if_false]
  rw [parseF_mono fo text (Nat.le_max_left f1 f2) h1]
  exact vectorF_mono fo text (Nat.le_max_right f1 f2) h2

/-! ## list helpers -/

theorem ofListTail_nil (acc : List Datum) : Datum.ofListTail acc .nil = Datum.ofList acc := by
  induction acc with
  | nil => rfl
  | cons x xs ih => simp [Datum.ofListTail, Datum.ofList, ih]

theorem ofListTail_snoc (acc : List Datum) (x t : Datum) :
    Datum.ofListTail (acc ++ [x]) t = Datum.ofListTail acc (.pair x t) := by
  induction acc with
  | nil => rfl
  | cons y ys ih => simp [Datum.ofListTail, ih]

theorem newImproperList_ne_nil {acc : List Datum} (h : acc ≠ []) (t : Datum) :
    newImproperList acc t = Datum.ofListTail acc t := by
  cases acc with
  | nil => exact absurd rfl h
  | cons x xs => rfl

theorem ofList_map_canon : ∀ e : Datum, properSpine e = true →
    Datum.ofList ((Datum.listElems e).map canon) = canon e := by
  intro e
  induction e with
  | nil => intro _; rfl
  | pair a d _ ihd =>
    intro h
    simp only [properSpine] at h
    simp only [Datum.listElems, List.map_cons, Datum.ofList, canon, ihd h]
  | _ => intro h; cases h

/-! ## atoms -/

/-- an atom printed as one token -/
theorem readsD_atom (fo : FloatOps) {text pre sp rest0 : Text} {ty : TokType} {d' : Datum}
    (htext : text = pre ++ sp ++ rest0) (hs : ScansAs sp ty rest0)
    (hk : tokKind ty = .atom) (h1 : ty ≠ .rightParen) (h2 : ty ≠ .dot)
    (hp : ∀ (t : Token) (k : List Token), t.ty = ty → tokSpan text t = .ok sp →
      parseAtom fo text t k = .ok (d', k)) :
    ReadsD fo text pre sp rest0 d' := by
  refine ⟨[⟨byteLen pre, byteLen pre + byteLen sp, ty⟩], ScanSeg.tok hs, ⟨_, _, rfl, h1, h2⟩, ?_⟩
  intro k
  refine ⟨1, ?_⟩
  simp only [List.singleton_append]
  rw [parseF]
  simp only [hk]
  rw [hp _ k rfl (by rw [htext]; exact tokSpan_mid pre sp rest0 ty)]

theorem numberToString10 (fo : FloatOps) (n : Num) : numberToString fo 10 n = printNumber fo n := by
  simp [numberToString]

/-- the arm of `parse` for a token of type `Number` without prefix -/
theorem parseAtom_number (fo : FloatOps) (text : Text) (t : Token) (k : List Token) (sp : Text)
    (hty : t.ty = .number) (hsp : tokSpan text t = .ok sp) :
    parseAtom fo text t k =
      match parseWithExactness fo sp .unspecified 10 with
      | .ok n => .ok (.num n, k)
      | .err () => .ok (.sym sp, k)
      | .panic m => .panic m := by
  unfold parseAtom
  simp only [hty]
  rw [parseNumberTok]
  simp only [hty, show (TokType.number = TokType.numberPrefix) = False by simp, if_false]
  unfold numberFinal
  simp only [hsp, hty, true_or, if_true]
  cases parseWithExactness fo sp .unspecified 10 with
  | ok n => rfl
  | err e => cases e; rfl
  | panic m => rfl

theorem parseWithExactness_unspecified (fo : FloatOps) (s : Text) (n : Num)
    (h : parseNumber fo 10 s = .ok n) : parseWithExactness fo s .unspecified 10 = .ok n := by
  unfold parseWithExactness
  rw [h]

end Marwood
