import Marwood.Lemmas.VerifyInfer
import Marwood.Lemmas.VerifyProc
import Marwood.Lemmas.CompileBlk
/-!
# T04.6 — the compiler model emits only code the bytecode verifier accepts

`Lemmas/CompileBlk.lean`: every code object the compiler model produces is `[VARARG] ENTER <structured body>
RET` (`ProcShape`); `Lemmas/VerifyBlk.lean` / `VerifyProc.lean`: the verifier's forward pass runs through
such code, in every loading (`Enc`); `Lemmas/VerifyInfer.lean`: whatever the forward pass returns passes the
local check. Together: `verify` accepts.
-/
namespace Marwood.Vm
open Marwood Marwood.Vm.Verify

/-- procedure code with a structured body is accepted, as procedure code, in every loading, with the same
    assignment `tm` and the same maximal number of temporaries `h` -/
theorem proc_verify {l : LambdaM} (hs : ProcShape l) :
    ∃ tm h, ∀ cells, EncList l.bc cells → verify cells = .ok (⟨false, cells, tm⟩, h) := by
  obtain ⟨tm, h, hi⟩ := proc_infer hs
  refine ⟨tm, h, ?_⟩
  intro cells he
  obtain ⟨hent, hi⟩ := hi cells he
  have := verify_of_infer (bc := cells) (tm := tm) (h := h) (by rw [hent]; exact hi)
  rw [hent] at this
  exact this

theorem proc_verifyLam {l : LambdaM} {cells : List VCell} (hs : ProcShape l) (he : EncList l.bc cells) :
    ∃ t, verifyLam cells = some t ∧ t.entry = false ∧ t.bc = cells := by
  obtain ⟨tm, h, hv⟩ := proc_verify hs
  exact ⟨⟨false, cells, tm⟩, by simp [verifyLam, hv cells he], rfl, rfl⟩

theorem entry_verifyLam {id : Nat} {cells : List VCell} (he : EncList (entryCode id) cells) :
    ∃ t, verifyLam cells = some t ∧ t.entry = true := by
  obtain ⟨t, h, hv, ht⟩ := entry_verify he
  exact ⟨t, by simp [verifyLam, hv], ht⟩

/-- **every loading**: whatever machine cells the loader puts for global slots, environment slots, quoted
    data and code-object pointers (`Enc`), every code object the compiler model produces for `e` — the
    top-level lambda and every lambda in the table — is accepted by the verifier as procedure code -/
theorem compileTop_verifies_loaded {e : Datum} {fuel : Nat} {st : CState} {lam : LambdaM}
    (h : compileTop e fuel = .ok (st, lam)) :
    ∀ l, (l = lam ∨ l ∈ st.lambdas) → ∀ cells, EncList l.bc cells →
      ∃ t, verifyLam cells = some t ∧ t.entry = false ∧ t.bc = cells := by
  obtain ⟨h1, h2⟩ := compileTop_shape h
  intro l hl cells he
  rcases hl with rfl | hl
  · exact proc_verifyLam h1 he
  · exact proc_verifyLam (h2 l hl) he

/-- **the verdict does not depend on the loading**: for every code object `l` the compiler model produces, any
    two loadings of its code (`Enc`: whatever global slots, environment slots, data cells and lambda
    addresses the loader chooses) get the same verdict from the verifier — accepted as procedure code, with
    the same abstract stack at every offset (`tm`) and the same maximal number of temporaries (`h`). In
    particular the verdict on a real heap is the verdict on the canonical loading `encodeLam l`. -/
theorem compileTop_verdict_irrelevant {e : Datum} {fuel : Nat} {st : CState} {lam : LambdaM}
    (h : compileTop e fuel = .ok (st, lam)) :
    ∀ l, (l = lam ∨ l ∈ st.lambdas) → ∃ tm k, ∀ cells, EncList l.bc cells →
      verify cells = .ok (⟨false, cells, tm⟩, k) := by
  obtain ⟨h1, h2⟩ := compileTop_shape h
  intro l hl
  rcases hl with rfl | hl
  · exact proc_verify h1
  · exact proc_verify (h2 l hl)

/-- the canonical loading -/
theorem compileTop_verifies {e : Datum} {fuel : Nat} {st : CState} {lam : LambdaM}
    (h : compileTop e fuel = .ok (st, lam)) :
    (verifyLam (encodeLam lam)).isSome = true ∧ ∀ l ∈ st.lambdas, (verifyLam (encodeLam l)).isSome = true := by
  constructor
  · obtain ⟨t, ht, _⟩ := compileTop_verifies_loaded h lam (.inl rfl) _ (encList_encode _)
    simp [encodeLam, ht]
  · intro l hl
    obtain ⟨t, ht, _⟩ := compileTop_verifies_loaded h l (.inr hl) _ (encList_encode _)
    simp [encodeLam, ht]

/-- `compile_runnable`: the entry lambda too -/
theorem compileRunnable_verifies {e : Datum} {fuel : Nat} {st : CState} {lam ent : LambdaM}
    (h : compileRunnable e fuel = .ok (st, lam, ent)) :
    (∀ l, (l = lam ∨ l ∈ st.lambdas) → ∃ t, verifyLam (encodeLam l) = some t ∧ t.entry = false) ∧
    ∃ t, verifyLam (encodeLam ent) = some t ∧ t.entry = true := by
  unfold compileRunnable at h
  cases hc : compileTop e fuel with
  | error err => rw [hc] at h; cases h
  | ok r =>
    obtain ⟨st', lam'⟩ := r
    rw [hc] at h
    cases h
    constructor
    · intro l hl
      obtain ⟨t, ht, hent, _⟩ := compileTop_verifies_loaded hc l hl _ (encList_encode _)
      exact ⟨t, ht, hent⟩
    · exact entry_verifyLam (encList_encode _)

/-- the driver command `vcompile` (`Vm.verifyCompiled`) never answers `reject` -/
theorem verifyCompiled_ok {e : Datum} {fuel : Nat} {r : Except Reject Nat}
    (h : verifyCompiled e fuel = .ok r) : ∃ n, r = .ok n := by
  unfold verifyCompiled at h
  cases hc : compileRunnable e fuel with
  | error err => rw [hc] at h; cases h
  | ok x =>
    obtain ⟨st, lam, ent⟩ := x
    rw [hc] at h
    obtain ⟨h1, t, ht, hte⟩ := compileRunnable_verifies hc
    have hnone : (lam :: st.lambdas).findSome? procReject = none := by
      rw [List.findSome?_eq_none_iff]
      intro l hl
      obtain ⟨t', ht', he'⟩ := h1 l (by simpa using hl)
      unfold verifyLam at ht'
      unfold procReject
      cases hv : verify (encodeLam l) with
      | error r => rw [hv] at ht'; cases ht'
      | ok p =>
        obtain ⟨t'', k⟩ := p
        rw [hv] at ht'
        cases ht'
        simp [he']
    simp only [hnone] at h
    unfold verifyLam at ht
    cases hv : verify (encodeLam ent) with
    | error r => rw [hv] at ht; cases ht
    | ok p =>
      obtain ⟨t'', k⟩ := p
      rw [hv] at ht h
      cases ht
      simp only [hte, if_true] at h
      cases h
      exact ⟨_, rfl⟩

end Marwood.Vm
