import Marwood.Lemmas.PreparePInv
import Marwood.Lemmas.PrepareEnvCode
import Marwood.Lemmas.EnvTaintOps
/-!
# One allocator step of the loader (`InstStep`, Lemmas/PrepareDefs.lean) keeps "no value leads to a capturing lambda" (`Taint.HP`)

The mirror of Lemmas/PreparePInv.lean with `capAt` in place of `entryAt`, `allAtB` in place of `procAtB`, `cellTF` /
`immTF` in place of `cellPF` / `immPF`. The new lambda cell satisfies `cellEB` by the `imm` clause of `LamEnvOk`
(the requirement `Q` on new code objects implies it); the data cells by `dataEB`.
-/
namespace Marwood.Lemmas.Good
open Marwood Marwood.Vm Marwood.Vm.Verify Marwood.Vm.Concrete Marwood.Lemmas.Sim
open Marwood.Heap (GcState WFHeap RootsOk vrefs vrefsList crefs bcRefs)

/-! ## the predicates inspect only addresses the collector follows -/

theorem immTF_congr {E E' : Nat → Bool} (bc : List VCell)
    (hb : ∀ y ∈ bcRefs true false (bc.map eraseV), E y = E' y) : immTF E bc = immTF E' bc := by
  unfold immTF
  refine list_all_congr _ ?_
  intro j _
  have key : ∀ op, bc[j]? = some (.opcode op) → isJumpOp (.opcode op) = false →
      ∀ v, bc[j + 1]? = some v → neF E v = neF E' v := by
    intro op hop hnj v hv
    refine neF_congr v ?_
    intro y hy
    refine hb y (bcRefs_mem bc false false (by intro h; cases h) (j + 1) v hv ?_ y hy)
    simp only [prevFrom, hop]
    exact hnj
  split
  · rename_i hop
    cases hv : bc[j + 1]? with
    | none => rfl
    | some v =>
      simp only
      exact key _ hop rfl v hv
  · rename_i hop
    cases hv : bc[j + 1]? with
    | none => rfl
    | some v =>
      simp only
      rw [key _ hop rfl v hv]
  · rfl

/-- `cellTF` inspects only addresses the collector follows from the cell -/
theorem cellTF_congr {E E' P P' : Nat → Bool} (c : CCell)
    (hc : ∀ y ∈ crefs true (eraseC c), E y = E' y ∧ P y = P' y) : cellTF E P c = cellTF E' P' c := by
  cases c with
  | val v =>
    simp only [cellTF]
    cases v <;> first | rfl | skip
    · rename_i a d
      simp only [valPF]
      rw [(hc a (by simp [eraseC, eraseV, crefs])).1, (hc d (by simp [eraseC, eraseV, crefs])).1]
    · rename_i l e
      simp only [valPF]
      exact (hc l (by simp [eraseC, eraseV, crefs])).2
    · rename_i p
      simp only [valPF]
      rw [(hc p (by simp [eraseC, eraseV, crefs])).1]
  | lexEnv ss =>
    simp only [cellTF]
    exact all_neF_congr ss fun y hy => (hc y (by simpa [eraseC, crefs] using hy)).1
  | vector es =>
    simp only [cellTF]
    exact all_neF_congr es fun y hy => (hc y (by simpa [eraseC, crefs] using hy)).1
  | lambda l =>
    simp only [cellTF]
    refine immTF_congr l.bc fun y hy => (hc y ?_).1
    simp only [eraseC, crefs, Heap.lambdaRefs, if_true, List.mem_append]
    exact .inl (.inl hy)
  | cont k =>
    simp only [cellTF]
    refine all_neF_congr k.stack.cells fun y hy => (hc y ?_).1
    simp only [eraseC, crefs, Heap.contRefs, List.mem_append]
    exact .inl hy

/-! ## a fresh cell holding any content, code included -/

/-- **storing any cell — code included — in a fresh cell**: if the addresses the collector follows from the new
    content are allocated and none of its value positions designates a capturing lambda, `Taint.HP` is kept, and so is
    `neE` of the old values that referred to allocated cells -/
theorem cput_thp_any {h : CHeap} (g : HG h) (gr : GlobRoots h) (hp : Taint.HP h) {c : CCell} (hr : CRefsOk h c)
    (ok : cellEB h c = true) (sm : Small (cput h c).1) :
    Taint.HP (cput h c).1 ∧ ∀ v, VRefsOk h v → neE h v = true → neE (cput h c).1 v = true := by
  have inv := HInv.of_wf g.wf
  have a := calloc_spec h inv
  have hsz : (cput h c).1.cells.size = (calloc h).1.cells.size := by simp [cput, cwrite]
  have hcell : ∀ i, (cput h c).1.cells[i]? = if i = (calloc h).2 then some c else (calloc h).1.cells[i]? := by
    intro i
    simp only [cput, cwrite]
    by_cases hi : i = (calloc h).2
    · subst hi; simp [a.p_lt]
    · simp [hi, Array.getElem?_setIfInBounds_ne (Ne.symm hi)]
  -- the new address is neither allocated nor a sentinel
  have pfree : ¬ (toHeap h).NonFree (calloc h).2 := by
    intro hnf
    have hnf' : h.gc[(calloc h).2]? = some GcState.allocated ∨ h.gc[(calloc h).2]? = some GcState.used := hnf
    rcases a.p_fresh with h1 | h1
    · rw [(inv.free_iff _).mp h1] at hnf'
      rcases hnf' with x | x <;> cases x
    · rw [Array.getElem?_eq_none (by rw [inv.sizes]; exact h1)] at hnf'
      rcases hnf' with x | x <;> cases x
  have psent : ¬ Heap.Sentinel (calloc h).2 := by
    intro hs
    have := a.p_lt
    unfold Small at sm
    unfold Heap.Sentinel at hs
    omega
  have nfne : ∀ y, NF h y → y ≠ (calloc h).2 := by
    rintro y (hy | hy) rfl
    · exact pfree hy
    · exact psent hy
  -- away from the new address the lambda cells are the same
  have lam : ∀ q, q ≠ (calloc h).2 → lambdaAt (cput h c).1 q = lambdaAt h q := by
    intro q hq
    unfold lambdaAt
    rw [hcell q, if_neg hq]
    by_cases hlt : q < h.cells.size
    · rw [a.cells_old q hlt]
    · rw [Array.getElem?_eq_none (show h.cells.size ≤ q by omega)]
      by_cases hlt' : q < (calloc h).1.cells.size
      · rw [a.cells_new q (by omega) hlt']
      · rw [Array.getElem?_eq_none (by omega)]
  have ent : ∀ q, q ≠ (calloc h).2 → capAt (cput h c).1 q = capAt h q := by
    intro q hq; unfold capAt; rw [lam q hq]
  have cellEq : ∀ x, CRefsOk h x → cellEB (cput h c).1 x = cellEB h x := by
    intro x hx
    exact cellTF_congr x fun y hy => ⟨ent y (nfne y (hx y hy)), rfl⟩
  have neEq : ∀ v, VRefsOk h v → neE (cput h c).1 v = neE h v := by
    intro v hv
    exact neF_congr v fun y hy => ent y (nfne y (hv y hy))
  refine ⟨⟨?_, ?_, ?_⟩, fun v hv hn => by rw [neEq v hv]; exact hn⟩
  · intro i x hx
    rw [hcell i] at hx
    by_cases hi : i = (calloc h).2
    · rw [if_pos hi] at hx
      cases hx
      rw [cellEq c hr]; exact ok
    · rw [if_neg hi] at hx
      by_cases hlt : i < h.cells.size
      · rw [a.cells_old i hlt] at hx
        by_cases hnf : (toHeap h).NonFree i
        · rw [cellEq x (g.closed hnf hx)]
          exact hp.cells i x hx
        · -- a free cell holds `Undefined`
          have hgc : h.gc[i]? = some GcState.free := by
            have hlt' : i < h.gc.size := by rw [inv.sizes]; exact hlt
            cases hs : h.gc[i] with
            | free => rw [Array.getElem?_eq_getElem hlt', hs]
            | allocated =>
              exact absurd (.inl (show h.gc[i]? = _ by rw [Array.getElem?_eq_getElem hlt', hs])) hnf
            | used =>
              exact absurd (.inr (show h.gc[i]? = _ by rw [Array.getElem?_eq_getElem hlt', hs])) hnf
          have h2 := g.wf.free_undef i hgc
          rw [toHeap_cells_get, hx] at h2
          simp only [Option.map_some, Option.some.injEq] at h2
          rw [eraseC_undef h2]
          rfl
      · rw [a.cells_new i (by omega) (lt_of_get_some hx)] at hx
        cases hx
        rfl
  · intro n v hv
    have hgl : (cput h c).1.globals = h.globals := by simp only [cput, cwrite]; exact a.globals
    rw [hgl] at hv
    have hmem : v ∈ h.globals.toList := Array.mem_toList_iff.mpr (Array.mem_of_getElem? hv)
    rw [neEq v (gr.2 v hmem)]
    exact hp.globals n v hv
  · intro name q hl
    have hst : (cput h c).1.symtab = h.symtab := by simp only [cput, cwrite]; exact a.symtab
    have hl' : symLookup h name = some q := by
      unfold symLookup at hl ⊢; rw [hst] at hl; exact hl
    have hl2 : (toHeap h).symLookup name = some q := hl'
    have hnf := ((g.wf.interned name q).mp hl2).2
    rw [ent q (nfne q (.inl hnf))]
    exact hp.sym name q hl'

/-! ## one loader step -/

/-- **one loader step keeps "no value leads to a capturing lambda"**; values of the old heap that referred to
    allocated cells keep the property -/
theorem instStep_thp {Q : CHeap → CLambda → Prop} (hQ : ∀ h cl, Q h cl → LamEnvOk h cl) {h h' : CHeap}
    (st : InstStep Q h h') (g : HG h) (gr : GlobRoots h) (lf : LF h) (hp : Taint.HP h) (sm : Small h') :
    Taint.HP h' ∧ ∀ v, VRefsOk h v → neE h v = true → neE h' v = true := by
  cases st with
  | @cell c nc hr _ hd =>
    have ok : cellEB h c = true := by
      cases nc with
      | pair a d => exact hd
      | atom h1 h2 => exact hd
      | vector es => exact hd
      | lambda q => exact (hQ _ _ q).imm
    exact cput_thp_any g gr hp hr ok sm
  | @sym v name hs hk =>
    obtain ⟨tag, rfl, _⟩ := symOf_some hs
    obtain ⟨r, _⟩ := Taint.putNew_res lf hp (v := .opaque tag) rfl
    exact ⟨r.hp, fun v _ hn => r.neE hn⟩
  | @glob y hy =>
    have ls : LamSame h { h with globSyms := y :: h.globSyms, globals := h.globals.push .undefined } := .of_cells rfl
    refine ⟨⟨?_, ?_, ?_⟩, fun v _ hn => by rw [ls.neE]; exact hn⟩
    · intro i x hx; rw [ls.cellEB]; exact hp.cells i x hx
    · intro n v hv
      rw [ls.neE]
      have hv' : (h.globals.push .undefined)[n]? = some v := hv
      rw [Array.getElem?_push] at hv'
      split at hv'
      · cases hv'; rfl
      · exact hp.globals n v hv'
    · intro name q hl; rw [ls.capE]; exact hp.sym name q hl
  | @resym tab gs hl hgs =>
    have ls : LamSame h { h with symtab := tab, globSyms := gs } := .of_cells rfl
    refine ⟨⟨?_, ?_, ?_⟩, fun v _ hn => by rw [ls.neE]; exact hn⟩
    · intro i x hx; rw [ls.cellEB]; exact hp.cells i x hx
    · intro n v hv; rw [ls.neE]; exact hp.globals n v hv
    · intro name q hq
      rw [ls.capE]
      refine hp.sym name q ?_
      rw [← hl name]; exact hq

end Marwood.Lemmas.Good
