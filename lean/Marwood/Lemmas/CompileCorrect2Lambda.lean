import Marwood.Lemmas.CompileCorrect2Cases
/-!
# T01.3 stage 2 — `lambda`: `MOV-IMMEDIATE <lambda> %acc; CLOSURE` leaves a representation of the closure
-/
namespace Marwood.Lemmas.CompileCorrect2
open Marwood Marwood.Vm Marwood.Lemmas.CompileCorrect
open Marwood.Spec.Eval (Val Prim Cell Env evalN evalStep applyStep evalArgs properList quoteVal kwOf insertG
  k_quote k_if_ k_setBang k_define k_lambda)

variable {H : Type} {ops : HeapOps H} {D : RepData2 ops}

theorem denotes_some {h : H} {ep k e n : Nat} (hd : Denotes ops h ep k e n) : ∃ g, ops.envGet h ep k = some g := by
  rcases hd with hp | ⟨_, _, v, hv, _⟩
  · exact ⟨_, hp⟩
  · exact ⟨v, hv⟩

/-- CLOSURE's slot for a captured variable points at the location the creator's slot denotes -/
theorem cloSlot_denotes {h : H} {ep k e n : Nat} (hd : Denotes ops h ep k e n) :
    cloSlot ops h ep (.iofEnv k) = .lexEnvPtr e n := by
  rcases hd with hp | ⟨rfl, rfl, v, hv, hnp⟩
  · simp only [cloSlot, hp]
  · simp only [cloSlot, hv]
    cases v <;> simp [isEnvPtr] at hnp <;> rfl

/-- entries of the map `formals ++ captured` -/
theorem em_entry_cases {ps : List Text} {caps : List (Text × Source)} {j : Nat} {q : Text × Source}
    (h : (argEntries ps ++ caps)[j]? = some q) :
    (j < ps.length ∧ ∃ x, ps[j]? = some x ∧ q = (x, .argument j)) ∨ (ps.length ≤ j ∧ q ∈ caps) := by
  by_cases hj : j < ps.length
  · left
    have hx : ps[j]? = some ps[j] := List.getElem?_eq_getElem hj
    rw [List.getElem?_append_left (by rw [argEntries_length]; exact hj), argEntries_get ps j _ hx] at h
    cases h
    exact ⟨hj, _, hx, rfl⟩
  · right
    rw [List.getElem?_append_right (by rw [argEntries_length]; omega)] at h
    exact ⟨by omega, List.mem_of_getElem? h⟩

theorem prefix_get {α : Type} {l t : List α} {a : α} (h : l ++ [a] <+: t) : t[l.length]? = some a ∧ l <+: t := by
  obtain ⟨r, hr⟩ := h
  subst hr
  refine ⟨by simp, ⟨[a] ++ r, by simp⟩⟩

theorem case2_lambda (L : Laws2 D) {f : Nat} {cst cst' : CState} {c : Ctx} {base : Nat} {tail : Bool}
    {formals body : Datum} {code : List BC} {ρ : Env} {p : LambdaParts} {ps : List Text} {b : Datum}
    {bs : List Datum} {caps : List (Text × Source)}
    (hp : lambdaParts f c (.pair (.sym k_lambda) (.pair formals body)) false = .ok p)
    (hpf : Spec.Eval.parseFormals formals = some (ps, none)) (hps : p.formals = ps) (hva : p.isVararg = false)
    (hnd : ps.Nodup) (hbody : properList body = some (b :: bs))
    (hnodef : ∀ e ∈ b :: bs, Spec.Eval.isDefine e = false)
    (hem : p.ctx.envmap = argEntries ps ++ caps)
    (hcaps : ∀ q ∈ caps, q.2 = .iofEnvironment ∧ inEnv c q.1 = true)
    (hfb : F2B D.setG f p.ctx (fun x => x ∈ ps ∨ bound ρ x) body)
    (hcomp : compileExpr (f + 1) cst c base tail (.pair (.sym k_lambda) (.pair formals body)) = .ok (cst', code))
    (hpre : cst'.lambdas <+: D.final) {r : Spec.Eval.Rec} {σ σ' : SSt} {w : Val}
    (hev : evalStep r (.pair (.sym k_lambda) (.pair formals body)) ρ σ = .ok w σ')
    {W : World} {s : MSt H} (hc : CodeAt2 D c.envmap s.heap σ.store s.ipL base code) (hip : s.ipO = base)
    (hi : Inv2 D W s.heap σ) (her : EnvRep ops W s.heap c s.ep ρ) (hw : SWF s.stack) :
    ∃ W' s', W.le W' ∧ Run2 D W' s code.length σ σ' w s' := by
  obtain ⟨p', st1, bcode, hp', hcb, hl, rfl⟩ := compile_lambda_inv hcomp
  rw [hp] at hp'; cases hp'
  obtain ⟨hpb, _, hpro⟩ := lambdaParts_inv hp
  have hpro1 : p.prologue.length = 1 := by rw [hpro, hva]; rfl
  rw [hpb, hpro1] at hcb
  obtain ⟨rfl, hσ⟩ := evalStep_lambda_inv hpf hbody hev
  have hσ' := hσ.symm
  subst hσ'
  subst hip
  rw [hl] at hpre
  obtain ⟨hfin, hpre1⟩ := prefix_get hpre
  -- the two instructions
  obtain ⟨hf1, hlam⟩ := hc.lambdaCell 1 rfl
  obtain ⟨hisl, hsrcs⟩ := hlam _ hfin
  have hs1 := step_movImm_acc hc.1 (hc.op 0 rfl) hf1 (by intro o h; cases h) (hc.accCell 2 rfl)
  have hemL : (lamOf p bcode).envmap = argEntries ps ++ caps := hem
  rw [hemL] at hsrcs
  -- the captured entries are slots of the current environment
  have capSlot : ∀ q ∈ caps, ∃ k e n l, slotIdx c.envmap q.1 = some k ∧ rsrc c.envmap q = .iofEnv k ∧
      Denotes ops s.heap s.ep k e n ∧ ρ.lookup q.1 = some l ∧ W e n l := by
    intro q hq
    obtain ⟨hq2, hq1⟩ := hcaps q hq
    obtain ⟨k, hk⟩ := (slotIdx_some_iff_inEnv c q.1).mp hq1
    obtain ⟨e, n, l, hd, hl', hW⟩ := her q.1 k hk
    refine ⟨k, e, n, l, hk, ?_, hd, hl', hW⟩
    obtain ⟨x, src⟩ := q
    simp only at hq2 hk
    subst hq2
    simp [rsrc, hk]
  obtain ⟨h', pp, cenv, hmk, hcallee, hfresh, hslots, hframe, hglob, hext, hsrx, henvok⟩ :=
    L.closure_ok s.heap σ.store (D.LM st1.lambdas.length) s.ep s.bp s.stack _ hi.extra hisl hsrcs
      (by
        intro j k hj
        obtain ⟨q, hq, hr⟩ := map_get _ _ _ _ hj
        rcases em_entry_cases hq with ⟨_, x, _, rfl⟩ | ⟨_, hqc⟩
        · simp [rsrc] at hr
        · obtain ⟨k', e, n, l, _, hr', hd, _, _⟩ := capSlot q hqc
          rw [hr'] at hr; cases hr
          exact denotes_some hd)
      (by
        intro j n hj
        obtain ⟨q, hq, hr⟩ := map_get _ _ _ _ hj
        rcases em_entry_cases hq with ⟨_, x, _, rfl⟩ | ⟨_, hqc⟩
        · simp [rsrc] at hr
        · obtain ⟨k', e, n', l, _, hr', _, _, _⟩ := capSlot q hqc
          rw [hr'] at hr; cases hr)
  have hs2 := step_closure (s := { s with acc := .ptr (D.LM st1.lambdas.length), ipO := s.ipO + 3 })
    (by exact hc.1) (by
      have := hc.op 3 (o := .closureAcc) rfl
      exact this) rfl hmk
  refine ⟨W, _, World.le_refl _, ⟨.cons hs1 (Steps.one hs2), rfl, rfl, rfl, rfl, LiveEq.refl _, hw, ?_, ?_, hext⟩⟩
  · -- the closure value
    refine ⟨rfl, D.LM st1.lambdas.length, cenv, hcallee, ?_⟩
    refine ⟨f, cst, st1, c, formals, body, p, bcode, caps, hp, hps, hva, hnd, hbody, hnodef, hcb, hfin, hpre1, rfl,
      (hext.code _ hisl).1, hfb, ?_, hem, fun q hq => (hcaps q hq).1, ?_, ?_, henvok⟩
    · rw [(hext.code _ hisl).2.2.2, hsrcs, hem]
    · intro j hj
      rw [hem] at hj
      have : ((argEntries ps ++ caps).map (rsrc c.envmap))[j]? =
          some (rsrc c.envmap ((argEntries ps ++ caps)[j]'hj)) := by
        rw [List.getElem?_map, List.getElem?_eq_getElem hj]; rfl
      exact ⟨_, hslots j _ this⟩
    · intro j x hj hx
      rw [hem] at hx
      rcases em_entry_cases hx with ⟨hlt, _⟩ | ⟨_, hqc⟩
      · omega
      · obtain ⟨k, e, n, l, _, hr', hd, hl', hW⟩ := capSlot _ hqc
        have : ((argEntries ps ++ caps).map (rsrc c.envmap))[j]? = some (.iofEnv k) := by
          rw [List.getElem?_map, hx]; simp [hr']
        refine ⟨e, n, l, ?_, hl', hW⟩
        rw [hslots j _ this, cloSlot_denotes hd]
  · -- the invariant
    refine hi.frame hext hsrx rfl hglob (fun e n l hW => ⟨?_, rfl⟩)
    obtain ⟨v, _, h1, _⟩ := hi.vars e n l hW
    have hne : e ≠ cenv := by
      intro e0; subst e0
      rw [hfresh n] at h1; cases h1
    exact hframe e n hne

end Marwood.Lemmas.CompileCorrect2
