import Marwood.Lemmas.NumArith
/-!
# abs, floor, ceiling, truncate, numerator, denominator, expt: exact answers are the exact results
-/
namespace Marwood.Arith
open Marwood Marwood.NumSpec

theorem le_div_cast {k n d : Int} (hd : 0 < d) : (k : Rat) ≤ (n : Rat) / d ↔ k * d ≤ n := by
  have hq : (0 : Rat) < d := by exact_mod_cast hd
  rw [le_div_iff₀ hq]; exact_mod_cast Iff.rfl

theorem div_lt_cast {k n d : Int} (hd : 0 < d) : (n : Rat) / d < (k : Rat) ↔ n < k * d := by
  have hq : (0 : Rat) < d := by exact_mod_cast hd
  rw [div_lt_iff₀ hq]; exact_mod_cast Iff.rfl

theorem div_le_cast {k n d : Int} (hd : 0 < d) : (n : Rat) / d ≤ (k : Rat) ↔ n ≤ k * d := by
  have hq : (0 : Rat) < d := by exact_mod_cast hd
  rw [div_le_iff₀ hq]; exact_mod_cast Iff.rfl

theorem lt_div_cast {k n d : Int} (hd : 0 < d) : (k : Rat) < (n : Rat) / d ↔ k * d < n := by
  have hq : (0 : Rat) < d := by exact_mod_cast hd
  rw [lt_div_iff₀ hq]; exact_mod_cast Iff.rfl

/-- `floor`: the answer is the integer `k` with `k ≤ x < k + 1` -/
theorem floor_spec (a : Num) (ha : a.WF = true) {r : Num} (h : floor a = some r) :
    ∃ (x : Rat) (k : Int), val a = some x ∧ val r = some (k : Rat) ∧ (k : Rat) ≤ x ∧ x < k + 1 := by
  cases a with
  | fix n => cases h; exact ⟨n, n, rfl, rfl, le_refl _, by linarith⟩
  | big n => cases h; exact ⟨n, n, rfl, rfl, le_refl _, by linarith⟩
  | flo f => cases h
  | rat n d =>
    have hd := wf_rat_pos ha
    simp only [floor, Option.some.injEq] at h; subst h
    refine ⟨(n : Rat) / d, n.fdiv d, rfl, by simp, ?_, ?_⟩
    · rw [le_div_cast hd, Int.fdiv_eq_ediv_of_nonneg _ hd.le]
      exact Int.ediv_mul_le _ hd.ne'
    · have : ((n.fdiv d : Int) : Rat) + 1 = ((n.fdiv d + 1 : Int) : Rat) := by push_cast; ring
      rw [this, div_lt_cast hd, Int.fdiv_eq_ediv_of_nonneg _ hd.le]
      exact Int.lt_ediv_add_one_mul_self _ hd

/-- `ceiling`: the integer `k` with `k - 1 < x ≤ k` -/
theorem ceil_spec (a : Num) (ha : a.WF = true) {r : Num} (h : ceil a = some r) :
    ∃ (x : Rat) (k : Int), val a = some x ∧ val r = some (k : Rat) ∧ x ≤ (k : Rat) ∧ (k : Rat) - 1 < x := by
  cases a with
  | fix n => cases h; exact ⟨n, n, rfl, rfl, le_refl _, by linarith⟩
  | big n => cases h; exact ⟨n, n, rfl, rfl, le_refl _, by linarith⟩
  | flo f => cases h
  | rat n d =>
    have hd := wf_rat_pos ha
    simp only [ceil, Option.some.injEq] at h; subst h
    have e1 : n.fdiv d = n / d := Int.fdiv_eq_ediv_of_nonneg _ hd.le
    have e2 : n.fmod d = n % d := Int.fmod_eq_emod_of_nonneg _ hd.le
    have h1 := Int.ediv_mul_add_emod n d
    have h2 := Int.emod_nonneg n hd.ne'
    have h3 := Int.emod_lt_of_pos n hd
    rw [e1, e2]
    refine ⟨(n : Rat) / d, n / d + (if (n % d != 0) = true then 1 else 0), rfl, by simp, ?_, ?_⟩
    · rw [div_le_cast hd]
      by_cases hz : n % d = 0
      · simp only [hz, bne_self_eq_false, Bool.false_eq_true, if_false]; nlinarith
      · have : (n % d != 0) = true := by simpa using hz
        simp only [this, if_true]; nlinarith
    · have hc : ((n / d + (if (n % d != 0) = true then 1 else 0) : Int) : Rat) - 1
          = ((n / d + (if (n % d != 0) = true then 1 else 0) - 1 : Int) : Rat) := by push_cast; ring
      rw [hc, lt_div_cast hd]
      by_cases hz : n % d = 0
      · simp only [hz, bne_self_eq_false, Bool.false_eq_true, if_false]; nlinarith
      · have : (n % d != 0) = true := by simpa using hz
        simp only [this, if_true]
        have : 0 < n % d := by omega
        nlinarith

/-- `truncate`: rounds towards zero -/
theorem truncate_spec (a : Num) (ha : a.WF = true) {r : Num} (h : truncate a = some r) :
    ∃ (x : Rat) (k : Int), val a = some x ∧ val r = some (k : Rat) ∧
      (0 ≤ x → (k : Rat) ≤ x ∧ x < k + 1) ∧ (x ≤ 0 → x ≤ (k : Rat) ∧ (k : Rat) - 1 < x) := by
  cases a with
  | fix n => cases h; exact ⟨n, n, rfl, rfl, fun _ => ⟨le_refl _, by linarith⟩, fun _ => ⟨le_refl _, by linarith⟩⟩
  | big n => cases h; exact ⟨n, n, rfl, rfl, fun _ => ⟨le_refl _, by linarith⟩, fun _ => ⟨le_refl _, by linarith⟩⟩
  | flo f => cases h
  | rat n d =>
    have hd := wf_rat_pos ha
    have hq : (0 : Rat) < d := by exact_mod_cast hd
    simp only [truncate, Option.some.injEq] at h; subst h
    have hdec := Int.tdiv_mul_add_tmod n d
    refine ⟨(n : Rat) / d, n.tdiv d, rfl, by simp, ?_, ?_⟩
    · intro hx
      have hn : 0 ≤ n := by
        have := (le_div_cast (k := 0) hd).mp (by simpa using hx)
        simpa using this
      have t1 := Int.tmod_nonneg d hn
      have t2 := Int.tmod_lt_of_pos n hd
      constructor
      · rw [le_div_cast hd]; nlinarith
      · have : ((n.tdiv d : Int) : Rat) + 1 = ((n.tdiv d + 1 : Int) : Rat) := by push_cast; ring
        rw [this, div_lt_cast hd]; nlinarith
    · intro hx
      have hn : n ≤ 0 := by
        have := (div_le_cast (k := 0) hd).mp (by simpa using hx)
        simpa using this
      have t1 : n.tmod d ≤ 0 := by
        have := Int.tmod_nonneg d (a := -n) (by omega)
        rw [Int.neg_tmod] at this; omega
      have t2 := Int.lt_tmod_of_pos n hd
      constructor
      · rw [div_le_cast hd]; nlinarith
      · have : ((n.tdiv d : Int) : Rat) - 1 = ((n.tdiv d - 1 : Int) : Rat) := by push_cast; ring
        rw [this, lt_div_cast hd]; nlinarith

/-- `abs` -/
theorem abs_spec (a : Num) (ha : a.WF = true) {r : Num} (h : abs a = some r) (he : isExact r = true) :
    ∃ x, val a = some x ∧ val r = some (absR x) := by
  cases a with
  | flo f => cases h
  | fix n =>
    simp only [abs, Option.some.injEq] at h; subst h
    refine ⟨n, rfl, ?_⟩
    unfold absR
    by_cases hn : n < 0
    · have hq : (n : Rat) < 0 := by exact_mod_cast hn
      rw [if_pos hq]
      split
      · simp
      · simp only [val_fix]; congr 1
        have : ((n.natAbs : Int)) = -n := by omega
        exact_mod_cast congrArg (fun z : Int => (z : Rat)) this
    · have hq : ¬ (n : Rat) < 0 := by intro hh; exact hn (by exact_mod_cast hh)
      rw [if_neg hq]
      have hmin : ¬ n = i64Min := by unfold i64Min; omega
      simp only [beq_iff_eq, hmin, if_false, val_fix]; congr 1
      have : ((n.natAbs : Int)) = n := by omega
      exact_mod_cast congrArg (fun z : Int => (z : Rat)) this
  | big n =>
    simp only [abs, Option.some.injEq] at h; subst h
    refine ⟨n, rfl, ?_⟩
    unfold absR
    simp only [val_big]; congr 1
    by_cases hn : n < 0
    · have hq : (n : Rat) < 0 := by exact_mod_cast hn
      rw [if_pos hq]
      have : ((n.natAbs : Int)) = -n := by omega
      exact_mod_cast congrArg (fun z : Int => (z : Rat)) this
    · have hq : ¬ (n : Rat) < 0 := by intro hh; exact hn (by exact_mod_cast hh)
      rw [if_neg hq]
      have : ((n.natAbs : Int)) = n := by omega
      exact_mod_cast congrArg (fun z : Int => (z : Rat)) this
  | rat n d =>
    have hd := wf_rat_pos ha
    have hq : (0 : Rat) < d := by exact_mod_cast hd
    have hn32 := (inI32_iff n).mp (wf_rat_i32 ha).1
    simp only [abs, Option.some.injEq] at h; subst h
    refine ⟨(n : Rat) / d, rfl, ?_⟩
    unfold absR
    by_cases hn : n < 0
    · have hneg : (n : Rat) / d < 0 := by
        have hnq : (n : Rat) < 0 := by exact_mod_cast hn
        rw [div_lt_iff₀ hq]; linarith
      rw [if_pos hneg]
      simp only [hn, if_true] at he ⊢
      cases hc : chk32 (-n) with
      | some m =>
        rw [(chk32_some hc).1]; simp only [val_rat]; congr 1; push_cast; ring
      | none =>
        rw [hc] at he
        by_cases hd1 : (d == 1) = true
        · simp only [hd1, if_true, val_fix]
          simp only [beq_iff_eq] at hd1; subst hd1; congr 1; push_cast; ring
        · simp [hd1] at he
    · have hnn : ¬ (n : Rat) / d < 0 := by
        intro hh
        have : (0 : Rat) ≤ (n : Rat) / d := div_nonneg (by exact_mod_cast (by omega : 0 ≤ n)) hq.le
        linarith
      rw [if_neg hnn]
      simp only [hn, if_false]
      have : chk32 n = some n := chk32_of (wf_rat_i32 ha).1
      rw [this]; rfl

/-- `numerator`, `denominator` of a well-formed number are those of its value in lowest terms -/
theorem numer_denom_spec (a : Num) (ha : a.WF = true) {r s : Num} (h1 : numerator a = some r)
    (h2 : denominator a = some s) :
    ∃ x : Rat, val a = some x ∧ val r = some (x.num : Rat) ∧ val s = some (x.den : Rat) := by
  cases a with
  | fix n => cases h1; cases h2; exact ⟨n, rfl, by simp, by simp⟩
  | big n => cases h1; cases h2; exact ⟨n, rfl, by simp, by simp⟩
  | flo f => cases h1
  | rat n d =>
    have hd := wf_rat_pos ha
    simp only [numerator, denominator, Option.some.injEq] at h1 h2; subst h1; subst h2
    have hcop : n.natAbs.Coprime d.natAbs := by
      simp only [Num.WF, Bool.and_eq_true, beq_iff_eq] at ha
      have := ha.2
      unfold Nat.Coprime
      rw [Int.gcd] at this; exact this
    refine ⟨(n : Rat) / d, rfl, ?_, ?_⟩
    · rw [Rat.num_div_eq_of_coprime hd hcop]; rfl
    · simp only [val_fix]; congr 1
      have := Rat.den_div_eq_of_coprime hd hcop
      exact_mod_cast this.symm

theorem chkPow_some {inR : Int → Bool} {b r : Int} {e : Nat} (h : chkPow inR b e = some r) :
    r = b ^ e := by
  unfold chkPow at h
  simp only at h
  split at h
  · cases h; rfl
  · cases h

theorem val_powFix (n : Int) (e : Nat) : val (powFix n e) = some ((n : Rat) ^ e) := by
  unfold powFix
  split
  · rename_i r hr; rw [chkPow_some hr]; simp
  · simp

theorem isExact_powFix (n : Int) (e : Nat) : isExact (powFix n e) = true := by
  unfold powFix; split <;> rfl

/-- `expt` with a non-negative integer exponent: an exact answer is the exact power -/
theorem pow_spec (a : Num) (ha : a.WF = true) (e : Nat) {r : Num} (h : pow a e = some r)
    (he : isExact r = true) : ∃ x, val a = some x ∧ val r = some (x ^ e) := by
  cases a with
  | flo f => cases h
  | fix n =>
    simp only [pow, Option.some.injEq] at h; subst h
    exact ⟨n, rfl, val_powFix n e⟩
  | big n =>
    simp only [pow, Option.some.injEq] at h; subst h
    exact ⟨n, rfl, by simp⟩
  | rat n d =>
    refine ⟨(n : Rat) / d, rfl, ?_⟩
    simp only [pow] at h
    split at h
    · rename_i n' d' h1 h2
      cases h
      rw [chkPow_some h1, chkPow_some h2]
      simp only [val_rat]; congr 1; push_cast; rw [div_pow]
    · split at h
      · rename_i hd1
        cases h
        simp only [beq_iff_eq] at hd1; subst hd1
        rw [val_powFix]; simp
      · split at h
        · cases h; simp at he
        · cases h

end Marwood.Arith
