import Mathlib.Tactic.FieldSimp
import Marwood.Lemmas.NumRatio
/-!
# Exact answers of the arithmetic model are the exact results (all representation pairs)
-/
namespace Marwood.Arith
open Marwood Marwood.NumSpec

/-- the part of the representation invariant the value lemmas need: positive denominators -/
def DenPos : Num → Prop
  | .rat _ d => 0 < d
  | _ => True

theorem denpos_rat {n d : Int} (h : DenPos (.rat n d)) : 0 < d := h

theorem wf_rat_pos {n d : Int} (h : (Num.rat n d).WF = true) : 0 < d := by
  simp only [Num.WF, Bool.and_eq_true, decide_eq_true_eq] at h
  omega

theorem wf_rat_i32 {n d : Int} (h : (Num.rat n d).WF = true) : inI32 n = true ∧ inI32 d = true := by
  simp only [Num.WF, Bool.and_eq_true, decide_eq_true_eq] at h
  exact ⟨h.1.1.2, h.1.2⟩

theorem DenPos.of_wf {a : Num} (h : a.WF = true) : DenPos a := by
  cases a with
  | rat n d => exact wf_rat_pos h
  | _ => trivial

@[simp] theorem val_fix (n : Int) : val (.fix n) = some (n : Rat) := rfl
@[simp] theorem val_big (n : Int) : val (.big n) = some (n : Rat) := rfl
@[simp] theorem val_rat (n d : Int) : val (.rat n d) = some ((n : Rat) / (d : Rat)) := rfl
@[simp] theorem isExact_flo (f : F64) : isExact (.flo f) = false := rfl
@[simp] theorem isExact_flo2 (op : F64 → F64 → F64) (a b : Num) : isExact (flo2 op a b) = false := rfl
@[simp] theorem val_ofRatio (q : Ratio) : val (ofRatio q) = some ((q.1 : Rat) / (q.2 : Rat)) := rfl

/-- value of a ratio result, from its cross-multiplication certificate -/
theorem val_of_crs {q : Ratio} {n d : Int} (hd : d ≠ 0) (h : Crs q n d) :
    val (ofRatio q) = some ((n : Rat) / (d : Rat)) := by
  rw [val_ofRatio, crs_val hd h]

theorem cast_chk64 {x s : Int} (h : chk64 x = some s) : (s : Rat) = (x : Rat) := by
  rw [(chk64_some h).1]

/-- an exact answer of a "ratio or double" arm is the ratio, with the value its certificate gives -/
theorem ratArm_val {q : Option Ratio} {f : Num} {N D : Int} (hf : isExact f = false)
    (hD : D ≠ 0) (hc : ∀ r, q = some r → Crs r N D) (h : isExact (ratArm q f) = true) :
    val (ratArm q f) = some ((N : Rat) / (D : Rat)) := by
  cases q with
  | none => simp [ratArm, hf] at h
  | some r => simp only [ratArm]; exact val_of_crs hD (hc r rfl)

theorem qne {d : Int} (h : 0 < d) : (d : Rat) ≠ 0 := by exact_mod_cast h.ne'

theorem add_exact (a b : Num) (ha : DenPos a) (hb : DenPos b)
    (h : isExact (add a b) = true) :
    ∃ x y, val a = some x ∧ val b = some y ∧ val (add a b) = some (x + y) := by
  cases a <;> cases b
  case fix.fix l r =>
    refine ⟨l, r, rfl, rfl, ?_⟩
    simp only [add]
    split
    · rename_i s hs; simp [cast_chk64 hs]
    · simp
  case fix.big l r => exact ⟨l, r, rfl, rfl, by simp [add]; ring⟩
  case big.fix l r => exact ⟨l, r, rfl, rfl, by simp [add]⟩
  case big.big l r => exact ⟨l, r, rfl, rfl, by simp [add]⟩
  case fix.rat l n d =>
    have hd := denpos_rat hb
    have hq := qne hd
    refine ⟨l, (n : Rat) / d, rfl, rfl, ?_⟩
    simp only [add] at h ⊢
    by_cases hi : inI32 l = true
    · rw [if_pos hi] at h ⊢
      rw [ratArm_val rfl (by simp; omega) (fun r hr => checkedAdd_crs (l, 1) (n, d) (by simp) hd hr) h]
      congr 1; push_cast; field_simp
    · rw [if_neg hi] at h; simp at h
  case rat.fix n d r =>
    have hd := denpos_rat ha
    have hq := qne hd
    refine ⟨(n : Rat) / d, r, rfl, rfl, ?_⟩
    simp only [add] at h ⊢
    by_cases hi : inI32 r = true
    · rw [if_pos hi] at h ⊢
      rw [ratArm_val rfl (by simp; omega) (fun q hr => checkedAdd_crs (r, 1) (n, d) (by simp) hd hr) h]
      congr 1; push_cast; field_simp; ring
    · rw [if_neg hi] at h; simp at h
  case rat.rat n d n' d' =>
    have hd := denpos_rat ha
    have hd' := denpos_rat hb
    have hq := qne hd
    have hq' := qne hd'
    refine ⟨(n : Rat) / d, (n' : Rat) / d', rfl, rfl, ?_⟩
    simp only [add] at h ⊢
    rw [ratArm_val rfl (by simp; constructor <;> omega) (fun q hr => checkedAdd_crs (n, d) (n', d') hd hd' hr) h]
    congr 1; push_cast; field_simp
  case big.rat l n d =>
    refine ⟨l, (n : Rat) / d, rfl, rfl, ?_⟩
    simp only [add] at h ⊢
    by_cases hi : (d == 1) = true
    · rw [if_pos hi] at h ⊢; simp only [beq_iff_eq] at hi; subst hi; simp
    · rw [if_neg hi] at h; simp at h
  case rat.big n d r =>
    refine ⟨(n : Rat) / d, r, rfl, rfl, ?_⟩
    simp only [add] at h ⊢
    by_cases hi : (d == 1) = true
    · rw [if_pos hi] at h ⊢; simp only [beq_iff_eq] at hi; subst hi; simp; ring
    · rw [if_neg hi] at h; simp at h
  all_goals (simp [add] at h)
theorem sub_exact (a b : Num) (ha : DenPos a) (hb : DenPos b)
    (h : isExact (sub a b) = true) :
    ∃ x y, val a = some x ∧ val b = some y ∧ val (sub a b) = some (x - y) := by
  cases a <;> cases b
  case fix.fix l r =>
    refine ⟨l, r, rfl, rfl, ?_⟩
    simp only [sub]
    split
    · rename_i s hs; simp [cast_chk64 hs]
    · simp
  case fix.big l r => exact ⟨l, r, rfl, rfl, by simp [sub]; try ring⟩
  case big.fix l r => exact ⟨l, r, rfl, rfl, by simp [sub]⟩
  case big.big l r => exact ⟨l, r, rfl, rfl, by simp [sub]⟩
  case fix.rat l n d =>
    have hd := denpos_rat hb
    have hq := qne hd
    refine ⟨l, (n : Rat) / d, rfl, rfl, ?_⟩
    simp only [sub] at h ⊢
    by_cases hi : inI32 l = true
    · rw [if_pos hi] at h ⊢
      rw [ratArm_val rfl (by simp; omega) (fun r hr => checkedSub_crs (l, 1) (n, d) (by simp) hd hr) h]
      congr 1; push_cast; field_simp
    · rw [if_neg hi] at h; simp at h
  case rat.fix n d r =>
    have hd := denpos_rat ha
    have hq := qne hd
    refine ⟨(n : Rat) / d, r, rfl, rfl, ?_⟩
    simp only [sub] at h ⊢
    by_cases hi : inI32 r = true
    · rw [if_pos hi] at h ⊢
      rw [ratArm_val rfl (by simp; omega) (fun q hr => checkedSub_crs (n, d) (r, 1) hd (by simp) hr) h]
      congr 1; push_cast; field_simp; try ring
    · rw [if_neg hi] at h; simp at h
  case rat.rat n d n' d' =>
    have hd := denpos_rat ha
    have hd' := denpos_rat hb
    have hq := qne hd
    have hq' := qne hd'
    refine ⟨(n : Rat) / d, (n' : Rat) / d', rfl, rfl, ?_⟩
    simp only [sub] at h ⊢
    rw [ratArm_val rfl (by simp; constructor <;> omega) (fun q hr => checkedSub_crs (n, d) (n', d') hd hd' hr) h]
    congr 1; push_cast; field_simp
  case big.rat l n d =>
    refine ⟨l, (n : Rat) / d, rfl, rfl, ?_⟩
    simp only [sub] at h ⊢
    by_cases hi : (d == 1) = true
    · rw [if_pos hi] at h ⊢; simp only [beq_iff_eq] at hi; subst hi; simp
    · rw [if_neg hi] at h; simp at h
  case rat.big n d r =>
    refine ⟨(n : Rat) / d, r, rfl, rfl, ?_⟩
    simp only [sub] at h ⊢
    by_cases hi : (d == 1) = true
    · rw [if_pos hi] at h ⊢; simp only [beq_iff_eq] at hi; subst hi; simp; try ring
    · rw [if_neg hi] at h; simp at h
  all_goals (simp [sub] at h)

theorem mul_exact (a b : Num) (ha : DenPos a) (hb : DenPos b)
    (h : isExact (mul a b) = true) :
    ∃ x y, val a = some x ∧ val b = some y ∧ val (mul a b) = some (x * y) := by
  cases a <;> cases b
  case fix.fix l r =>
    refine ⟨l, r, rfl, rfl, ?_⟩
    simp only [mul]
    split
    · rename_i s hs; simp [cast_chk64 hs]
    · simp
  case fix.big l r => exact ⟨l, r, rfl, rfl, by simp [mul]; try ring⟩
  case big.fix l r => exact ⟨l, r, rfl, rfl, by simp [mul]⟩
  case big.big l r => exact ⟨l, r, rfl, rfl, by simp [mul]⟩
  case fix.rat l n d =>
    have hd := denpos_rat hb
    have hq := qne hd
    refine ⟨l, (n : Rat) / d, rfl, rfl, ?_⟩
    simp only [mul] at h ⊢
    by_cases hi : inI32 l = true
    · rw [if_pos hi] at h ⊢
      rw [ratArm_val rfl (by simp; omega) (fun r hr => checkedMul_crs (l, 1) (n, d) (by simp) hd hr) h]
      congr 1; push_cast; field_simp
    · rw [if_neg hi] at h; simp at h
  case rat.fix n d r =>
    have hd := denpos_rat ha
    have hq := qne hd
    refine ⟨(n : Rat) / d, r, rfl, rfl, ?_⟩
    simp only [mul] at h ⊢
    by_cases hi : inI32 r = true
    · rw [if_pos hi] at h ⊢
      rw [ratArm_val rfl (by simp; omega) (fun q hr => checkedMul_crs (r, 1) (n, d) (by simp) hd hr) h]
      congr 1; push_cast; field_simp; try ring
    · rw [if_neg hi] at h; simp at h
  case rat.rat n d n' d' =>
    have hd := denpos_rat ha
    have hd' := denpos_rat hb
    have hq := qne hd
    have hq' := qne hd'
    refine ⟨(n : Rat) / d, (n' : Rat) / d', rfl, rfl, ?_⟩
    simp only [mul] at h ⊢
    rw [ratArm_val rfl (by simp; constructor <;> omega) (fun q hr => checkedMul_crs (n, d) (n', d') hd hd' hr) h]
    congr 1; push_cast; field_simp
  case big.rat l n d =>
    refine ⟨l, (n : Rat) / d, rfl, rfl, ?_⟩
    simp only [mul] at h ⊢
    by_cases hi : (d == 1) = true
    · rw [if_pos hi] at h ⊢; simp only [beq_iff_eq] at hi; subst hi; simp
    · rw [if_neg hi] at h; simp at h
  case rat.big n d r =>
    refine ⟨(n : Rat) / d, r, rfl, rfl, ?_⟩
    simp only [mul] at h ⊢
    by_cases hi : (d == 1) = true
    · rw [if_pos hi] at h ⊢; simp only [beq_iff_eq] at hi; subst hi; simp; try ring
    · rw [if_neg hi] at h; simp at h
  all_goals (simp [mul] at h)

/-! ## division -/

theorem asI32_val {b : Num} {r : Int} (h : asI32 b = some r) : val b = some (r : Rat) := by
  cases b <;> simp only [asI32] at h
  · rw [(chk32_some h).1]; rfl
  · rw [(chk32_some h).1]; rfl
  · cases h
  · cases h

theorem ratioOfI32_exact {l r : Int} {x : Num} (h : ratioOfI32 l r = .ok x) (he : isExact x = true) :
    r ≠ 0 ∧ val x = some ((l : Rat) / (r : Rat)) := by
  unfold ratioOfI32 at h
  by_cases hr : r = 0
  · simp [hr] at h
  · refine ⟨hr, ?_⟩
    simp only [beq_iff_eq, hr, if_false] at h
    have key : ((Rat.divInt l r).num : Rat) / ((Rat.divInt l r).den : Rat) = (l : Rat) / (r : Rat) := by
      rw [Rat.num_div_den, Rat.divInt_eq_div]
    split at h
    · cases h; simp only [val_rat]; rw [← key]; simp
    · split at h
      · rename_i h1
        cases h
        simp only [val_fix]
        rw [← key]
        have : ((Rat.divInt l r).den : Int) = 1 := by simpa using h1
        have h2 : ((Rat.divInt l r).den : Rat) = 1 := by exact_mod_cast this
        rw [h2]; simp
      · cases h; simp at he

theorem div_exact (a b : Num) (ha : DenPos a) (hb : DenPos b) {r : Num}
    (h : div a b = .ok r) (he : isExact r = true) :
    ∃ x y, val a = some x ∧ val b = some y ∧ y ≠ 0 ∧ val r = some (x / y) := by
  cases a <;> cases b
  case rat.rat n d n' d' =>
    have hd := denpos_rat ha
    have hd' := denpos_rat hb
    have hq := qne hd
    have hq' := qne hd'
    simp only [div, ratOrFlo, Outcome.ok.injEq] at h
    subst h
    have hn' : n' ≠ 0 := by
      cases hc : checkedDiv (n, d) (n', d') with
      | none => simp [hc, ratArm] at he
      | some q => exact (checkedDiv_crs (n, d) (n', d') hd hd' hc).1
    have hnq : (n' : Rat) ≠ 0 := by exact_mod_cast hn'
    refine ⟨(n : Rat) / d, (n' : Rat) / d', rfl, rfl, div_ne_zero hnq hq', ?_⟩
    rw [ratArm_val rfl (N := n * d') (D := d * n') (by simp; omega)
      (fun q hr => (checkedDiv_crs (n, d) (n', d') hd hd' hr).2) he]
    congr 1; push_cast; field_simp
  case rat.fix n d r0 =>
    have hd := denpos_rat ha
    have hq := qne hd
    simp only [div] at h
    cases hi : asI32 (Num.fix r0) with
    | none => simp [hi] at h; subst h; simp at he
    | some rr =>
      simp only [hi, ratOrFlo, Outcome.ok.injEq] at h
      subst h
      have hv := asI32_val hi
      have hrr : rr ≠ 0 := by
        cases hc : checkedDiv (n, d) (rr, 1) with
        | none => simp [hc, ratArm] at he
        | some q => exact (checkedDiv_crs (n, d) (rr, 1) hd (by simp) hc).1
      have hnq : (rr : Rat) ≠ 0 := by exact_mod_cast hrr
      refine ⟨(n : Rat) / d, rr, rfl, hv, hnq, ?_⟩
      rw [ratArm_val rfl (N := n * 1) (D := d * rr) (by simp; omega)
        (fun q hr => (checkedDiv_crs (n, d) (rr, 1) hd (by simp) hr).2) he]
      congr 1; push_cast; field_simp
  case rat.big n d r0 =>
    have hd := denpos_rat ha
    have hq := qne hd
    simp only [div] at h
    cases hi : asI32 (Num.big r0) with
    | none => simp [hi] at h; subst h; simp at he
    | some rr =>
      simp only [hi, ratOrFlo, Outcome.ok.injEq] at h
      subst h
      have hv := asI32_val hi
      have hrr : rr ≠ 0 := by
        cases hc : checkedDiv (n, d) (rr, 1) with
        | none => simp [hc, ratArm] at he
        | some q => exact (checkedDiv_crs (n, d) (rr, 1) hd (by simp) hc).1
      have hnq : (rr : Rat) ≠ 0 := by exact_mod_cast hrr
      refine ⟨(n : Rat) / d, rr, rfl, hv, hnq, ?_⟩
      rw [ratArm_val rfl (N := n * 1) (D := d * rr) (by simp; omega)
        (fun q hr => (checkedDiv_crs (n, d) (rr, 1) hd (by simp) hr).2) he]
      congr 1; push_cast; field_simp
  case fix.rat l0 n d =>
    have hd := denpos_rat hb
    have hq := qne hd
    simp only [div] at h
    cases hi : asI32 (Num.fix l0) with
    | none => simp [hi] at h; subst h; simp at he
    | some ll =>
      simp only [hi, ratOrFlo, Outcome.ok.injEq] at h
      subst h
      have hv := asI32_val hi
      have hn : n ≠ 0 := by
        cases hc : checkedDiv (ll, 1) (n, d) with
        | none => simp [hc, ratArm] at he
        | some q => exact (checkedDiv_crs (ll, 1) (n, d) (by simp) hd hc).1
      have hnq : (n : Rat) ≠ 0 := by exact_mod_cast hn
      refine ⟨ll, (n : Rat) / d, hv, rfl, div_ne_zero hnq hq, ?_⟩
      rw [ratArm_val rfl (N := ll * d) (D := 1 * n) (by simp; omega)
        (fun q hr => (checkedDiv_crs (ll, 1) (n, d) (by simp) hd hr).2) he]
      congr 1; push_cast; field_simp
  case big.rat l0 n d =>
    have hd := denpos_rat hb
    have hq := qne hd
    simp only [div] at h
    cases hi : asI32 (Num.big l0) with
    | none => simp [hi] at h; subst h; simp at he
    | some ll =>
      simp only [hi, ratOrFlo, Outcome.ok.injEq] at h
      subst h
      have hv := asI32_val hi
      have hn : n ≠ 0 := by
        cases hc : checkedDiv (ll, 1) (n, d) with
        | none => simp [hc, ratArm] at he
        | some q => exact (checkedDiv_crs (ll, 1) (n, d) (by simp) hd hc).1
      have hnq : (n : Rat) ≠ 0 := by exact_mod_cast hn
      refine ⟨ll, (n : Rat) / d, hv, rfl, div_ne_zero hnq hq, ?_⟩
      rw [ratArm_val rfl (N := ll * d) (D := 1 * n) (by simp; omega)
        (fun q hr => (checkedDiv_crs (ll, 1) (n, d) (by simp) hd hr).2) he]
      congr 1; push_cast; field_simp
  case fix.fix l0 r0 =>
    simp only [div] at h
    cases hl : asI32 (Num.fix l0) with
    | none => simp [hl] at h; subst h; simp at he
    | some ll =>
      cases hr : asI32 (Num.fix r0) with
      | none => simp [hl, hr] at h; subst h; simp at he
      | some rr =>
        simp only [hl, hr] at h
        obtain ⟨h0, hv⟩ := ratioOfI32_exact h he
        exact ⟨ll, rr, asI32_val hl, asI32_val hr, by exact_mod_cast h0, hv⟩
  case fix.big l0 r0 =>
    simp only [div] at h
    cases hl : asI32 (Num.fix l0) with
    | none => simp [hl] at h; subst h; simp at he
    | some ll =>
      cases hr : asI32 (Num.big r0) with
      | none => simp [hl, hr] at h; subst h; simp at he
      | some rr =>
        simp only [hl, hr] at h
        obtain ⟨h0, hv⟩ := ratioOfI32_exact h he
        exact ⟨ll, rr, asI32_val hl, asI32_val hr, by exact_mod_cast h0, hv⟩
  case big.fix l0 r0 =>
    simp only [div] at h
    cases hl : asI32 (Num.big l0) with
    | none => simp [hl] at h; subst h; simp at he
    | some ll =>
      cases hr : asI32 (Num.fix r0) with
      | none => simp [hl, hr] at h; subst h; simp at he
      | some rr =>
        simp only [hl, hr] at h
        obtain ⟨h0, hv⟩ := ratioOfI32_exact h he
        exact ⟨ll, rr, asI32_val hl, asI32_val hr, by exact_mod_cast h0, hv⟩
  case big.big l0 r0 =>
    simp only [div] at h
    cases hl : asI32 (Num.big l0) with
    | none => simp [hl] at h; subst h; simp at he
    | some ll =>
      cases hr : asI32 (Num.big r0) with
      | none => simp [hl, hr] at h; subst h; simp at he
      | some rr =>
        simp only [hl, hr] at h
        obtain ⟨h0, hv⟩ := ratioOfI32_exact h he
        exact ⟨ll, rr, asI32_val hl, asI32_val hr, by exact_mod_cast h0, hv⟩
  all_goals (simp only [div, Outcome.ok.injEq] at h; subst h; simp at he)

/-! ## quotient, remainder, modulo on exact integer-valued operands -/

theorem intVal_rat {n d x : Int} (h : intVal? (.rat n d) = some x) : d = 1 ∧ x = n := by
  simp only [intVal?] at h
  split at h
  · rename_i h1; simp only [beq_iff_eq] at h1; cases h; exact ⟨h1, rfl⟩
  · cases h

theorem intVal_val {a : Num} {x : Int} (h : intVal? a = some x) : val a = some (x : Rat) := by
  cases a with
  | fix n => simp only [intVal?] at h; cases h; rfl
  | big n => simp only [intVal?] at h; cases h; rfl
  | rat n d => obtain ⟨h1, h2⟩ := intVal_rat h; subst h1; subst h2; simp
  | flo f => simp [intVal?] at h

theorem quotient_spec (a b : Num) {x y : Int} (hx : intVal? a = some x) (hy : intVal? b = some y)
    (hy0 : y ≠ 0) :
    ∃ r, quotient a b = some (.ok (some r)) ∧ intVal? r = some (x.tdiv y) := by
  cases a <;> cases b
  case fix.fix l r =>
    simp only [intVal?, Option.some.injEq] at hx hy; subst hx; subst hy
    simp only [quotient, beq_iff_eq, hy0, if_false]
    split
    · rename_i q hq; exact ⟨_, rfl, by rw [(chk64_some hq).1]; rfl⟩
    · exact ⟨_, rfl, rfl⟩
  case fix.big l r =>
    simp only [intVal?, Option.some.injEq] at hx hy; subst hx; subst hy
    simp [quotient, hy0, intVal?]
  case fix.rat l n d =>
    simp only [intVal?, Option.some.injEq] at hx; subst hx
    obtain ⟨h1, h2⟩ := intVal_rat hy; subst h1; subst h2
    simp only [quotient, bne_self_eq_false, Bool.false_eq_true, if_false, beq_iff_eq, hy0]
    split
    · rename_i q hq; exact ⟨_, rfl, by rw [(chk64_some hq).1]; rfl⟩
    · exact ⟨_, rfl, rfl⟩
  case big.fix l r =>
    simp only [intVal?, Option.some.injEq] at hx hy; subst hx; subst hy
    simp [quotient, hy0, intVal?]
  case big.big l r =>
    simp only [intVal?, Option.some.injEq] at hx hy; subst hx; subst hy
    simp [quotient, hy0, intVal?]
  case big.rat l n d =>
    simp only [intVal?, Option.some.injEq] at hx; subst hx
    obtain ⟨h1, h2⟩ := intVal_rat hy; subst h1; subst h2
    simp [quotient, hy0, intVal?]
  case rat.fix n d r =>
    simp only [intVal?, Option.some.injEq] at hy; subst hy
    obtain ⟨h1, h2⟩ := intVal_rat hx; subst h1; subst h2
    simp [quotient, hy0, intVal?]
  case rat.big n d r =>
    simp only [intVal?, Option.some.injEq] at hy; subst hy
    obtain ⟨h1, h2⟩ := intVal_rat hx; subst h1; subst h2
    simp [quotient, hy0, intVal?]
  case rat.rat n d n' d' =>
    obtain ⟨h1, h2⟩ := intVal_rat hx; subst h1; subst h2
    obtain ⟨h1, h2⟩ := intVal_rat hy; subst h1; subst h2
    simp [quotient, hy0, intVal?]
  all_goals (simp [intVal?] at hx hy)

def isRatRep : Num → Bool
  | .rat _ _ => true
  | _ => false

theorem rem_spec (a b : Num) {x y : Int} (hx : intVal? a = some x) (hy : intVal? b = some y)
    (hy0 : y ≠ 0) :
    ∃ r, rem a b = some (.ok (some r)) ∧ intVal? r = some (x.tmod y) ∧
      (isRatRep r = true → isRatRep b = true) := by
  cases a <;> cases b
  case fix.fix l r =>
    simp only [intVal?, Option.some.injEq] at hx hy; subst hx; subst hy
    simp [rem, hy0, intVal?, isRatRep]
  case fix.big l r =>
    simp only [intVal?, Option.some.injEq] at hx hy; subst hx; subst hy
    simp [rem, hy0, intVal?, isRatRep]
  case fix.rat l n d =>
    simp only [intVal?, Option.some.injEq] at hx; subst hx
    obtain ⟨h1, h2⟩ := intVal_rat hy; subst h1; subst h2
    simp [rem, hy0, intVal?, isRatRep]
  case big.fix l r =>
    simp only [intVal?, Option.some.injEq] at hx hy; subst hx; subst hy
    simp [rem, hy0, intVal?, isRatRep]
  case big.big l r =>
    simp only [intVal?, Option.some.injEq] at hx hy; subst hx; subst hy
    simp [rem, hy0, intVal?, isRatRep]
  case big.rat l n d =>
    simp only [intVal?, Option.some.injEq] at hx; subst hx
    obtain ⟨h1, h2⟩ := intVal_rat hy; subst h1; subst h2
    simp [rem, hy0, intVal?, isRatRep]
  case rat.fix n d r =>
    simp only [intVal?, Option.some.injEq] at hy; subst hy
    obtain ⟨h1, h2⟩ := intVal_rat hx; subst h1; subst h2
    simp [rem, hy0, intVal?, isRatRep]
  case rat.big n d r =>
    simp only [intVal?, Option.some.injEq] at hy; subst hy
    obtain ⟨h1, h2⟩ := intVal_rat hx; subst h1; subst h2
    simp [rem, hy0, intVal?, isRatRep]
  case rat.rat n d n' d' =>
    obtain ⟨h1, h2⟩ := intVal_rat hx; subst h1; subst h2
    obtain ⟨h1, h2⟩ := intVal_rat hy; subst h1; subst h2
    simp [rem, hy0, intVal?, isRatRep]
  all_goals (simp [intVal?] at hx hy)

theorem fmod_via_tmod (a b : Int) (hb : b ≠ 0) :
    a.fmod b = if (a.tmod b < 0 ∧ 0 < b) ∨ (0 < a.tmod b ∧ b < 0) then a.tmod b + b else a.tmod b := by
  rw [Int.fmod_eq_tmod]
  by_cases hd : b ∣ a
  · have : a.tmod b = 0 := Int.tmod_eq_zero_of_dvd hd
    simp [hd, this]
  · have hs := Int.sign_tmod a b
    simp only [hd, if_false] at hs ⊢
    have ha0 : a ≠ 0 := by rintro rfl; exact hd (Int.dvd_zero b)
    rcases Int.lt_or_gt_of_ne ha0 with ha | ha
    · have ht : a.tmod b < 0 := by
        have : (a.tmod b).sign = -1 := by rw [hs]; exact Int.sign_eq_neg_one_of_neg ha
        exact Int.sign_eq_neg_one_iff_neg.mp this
      rcases Int.lt_or_gt_of_ne hb with hb' | hb'
      · have h1 : ¬ (0 ≤ a) := by omega
        have h2 : ¬ (0 ≤ b) := by omega
        have h3 : ¬ ((a.tmod b < 0 ∧ 0 < b) ∨ (0 < a.tmod b ∧ b < 0)) := by omega
        simp only [h1, h2, h3, if_false]; omega
      · have h1 : ¬ (0 ≤ a) := by omega
        have h2 : (0 ≤ b) := by omega
        have h3 : ((a.tmod b < 0 ∧ 0 < b) ∨ (0 < a.tmod b ∧ b < 0)) := by omega
        simp only [h1, h2, h3, if_false, if_true]; omega
    · have ht : 0 < a.tmod b := by
        have : (a.tmod b).sign = 1 := by rw [hs]; exact Int.sign_eq_one_of_pos ha
        exact Int.sign_eq_one_iff_pos.mp this
      rcases Int.lt_or_gt_of_ne hb with hb' | hb'
      · have h1 : (0 ≤ a) := by omega
        have h2 : ¬ (0 ≤ b) := by omega
        have h3 : ((a.tmod b < 0 ∧ 0 < b) ∨ (0 < a.tmod b ∧ b < 0)) := by omega
        simp only [h1, h2, h3, if_false, if_true]
      · have h1 : (0 ≤ a) := by omega
        have h2 : (0 ≤ b) := by omega
        have h3 : ¬ ((a.tmod b < 0 ∧ 0 < b) ∨ (0 < a.tmod b ∧ b < 0)) := by omega
        simp only [h1, h2, h3, if_false, if_true]; omega

theorem reduce_one (s : Int) : reduce s 1 = (s, 1) := by
  unfold reduce
  by_cases h0 : s = 0
  · simp [h0]
  · by_cases h1 : s = 1
    · simp [h1]
    · simp [h0, h1]

theorem chk32_of {n : Int} (h : inI32 n = true) : chk32 n = some n := by simp [chk32, h]

theorem checkedAdd_int {t y : Int} (ht : inI32 t = true) (hy : inI32 y = true)
    (hs : inI32 (t + y) = true) : checkedAdd (t, 1) (y, 1) = some (t + y, 1) := by
  have h1 : inI32 1 = true := by decide
  simp [checkedAdd, gcdI, chk32_of h1, chk32_of ht, chk32_of hy, chk32_of hs, reduce_one]

/-- adding exact integer-valued numbers: integer-valued with the exact sum, provided the 32-bit
    rational path (taken when a rational is involved) has room -/
theorem add_intVal (r b : Num) {t y : Int} (hr : intVal? r = some t) (hb : intVal? b = some y)
    (h32 : isRatRep r = true ∨ isRatRep b = true →
      inI32 t = true ∧ inI32 y = true ∧ inI32 (t + y) = true) :
    intVal? (add r b) = some (t + y) := by
  cases r <;> cases b
  case fix.fix l r =>
    simp only [intVal?, Option.some.injEq] at hr hb; subst hr; subst hb
    simp only [add]
    split
    · rename_i s hs; simp [intVal?, (chk64_some hs).1]
    · simp [intVal?]
  case fix.big l r =>
    simp only [intVal?, Option.some.injEq] at hr hb; subst hr; subst hb
    simp [add, intVal?]; ring
  case big.fix l r =>
    simp only [intVal?, Option.some.injEq] at hr hb; subst hr; subst hb
    simp [add, intVal?]
  case big.big l r =>
    simp only [intVal?, Option.some.injEq] at hr hb; subst hr; subst hb
    simp [add, intVal?]
  case big.rat l n d =>
    simp only [intVal?, Option.some.injEq] at hr; subst hr
    obtain ⟨h1, h2⟩ := intVal_rat hb; subst h1; subst h2
    simp [add, intVal?]
  case rat.big n d l =>
    simp only [intVal?, Option.some.injEq] at hb; subst hb
    obtain ⟨h1, h2⟩ := intVal_rat hr; subst h1; subst h2
    simp [add, intVal?]; ring
  case fix.rat l n d =>
    simp only [intVal?, Option.some.injEq] at hr; subst hr
    obtain ⟨h1, h2⟩ := intVal_rat hb; subst h1; subst h2
    obtain ⟨a1, a2, a3⟩ := h32 (Or.inr rfl)
    simp [add, a1, checkedAdd_int a1 a2 a3, ratArm, ofRatio, intVal?]
  case rat.fix n d l =>
    simp only [intVal?, Option.some.injEq] at hb; subst hb
    obtain ⟨h1, h2⟩ := intVal_rat hr; subst h1; subst h2
    obtain ⟨a1, a2, a3⟩ := h32 (Or.inl rfl)
    have a3' : inI32 (l + t) = true := by rw [Int.add_comm]; exact a3
    simp [add, a2, checkedAdd_int a2 a1 a3', ratArm, ofRatio, intVal?]; ring
  case rat.rat n d n' d' =>
    obtain ⟨h1, h2⟩ := intVal_rat hr; subst h1; subst h2
    obtain ⟨h1, h2⟩ := intVal_rat hb; subst h1; subst h2
    obtain ⟨a1, a2, a3⟩ := h32 (Or.inl rfl)
    simp [add, checkedAdd_int a1 a2 a3, ratArm, ofRatio, intVal?]
  all_goals (simp [intVal?] at hr hb)

theorem numNeg_of_intVal {r : Num} {t : Int} (h : intVal? r = some t) : numNeg r = decide (t < 0) := by
  cases r with
  | fix n => simp only [intVal?, Option.some.injEq] at h; subst h; rfl
  | big n => simp only [intVal?, Option.some.injEq] at h; subst h; rfl
  | rat n d => obtain ⟨_, h2⟩ := intVal_rat h; subst h2; rfl
  | flo f => simp [intVal?] at h

theorem numPos_of_intVal {r : Num} {t : Int} (h : intVal? r = some t) : numPos r = decide (0 < t) := by
  cases r with
  | fix n => simp only [intVal?, Option.some.injEq] at h; subst h; rfl
  | big n => simp only [intVal?, Option.some.injEq] at h; subst h; rfl
  | rat n d => obtain ⟨_, h2⟩ := intVal_rat h; subst h2; rfl
  | flo f => simp [intVal?] at h

theorem natAbs_tmod_lt (x : Int) {y : Int} (hy : y ≠ 0) : (x.tmod y).natAbs < y.natAbs := by
  rw [Int.natAbs_tmod]
  exact Nat.mod_lt _ (Int.natAbs_pos.mpr hy)

theorem modulo_spec (a b : Num) (hb : b.WF = true) {x y : Int} (hx : intVal? a = some x)
    (hy : intVal? b = some y) (hy0 : y ≠ 0) :
    ∃ r, modulo a b = some (.ok (some r)) ∧ intVal? r = some (x.fmod y) := by
  obtain ⟨r, hr, hv, hrat⟩ := rem_spec a b hx hy hy0
  unfold modulo
  rw [hr]
  simp only [numNeg_of_intVal hv, numPos_of_intVal hv, numNeg_of_intVal hy, numPos_of_intVal hy,
    Bool.or_eq_true, Bool.and_eq_true, decide_eq_true_eq]
  rw [fmod_via_tmod x y hy0]
  by_cases hc : (x.tmod y < 0 ∧ 0 < y) ∨ (0 < x.tmod y ∧ y < 0)
  · rw [if_pos hc, if_pos hc]
    refine ⟨_, rfl, add_intVal r b hv hy ?_⟩
    intro hrb
    have hbr : isRatRep b = true := by
      rcases hrb with h | h
      · exact hrat h
      · exact h
    have hyi : inI32 y = true := by
      cases b with
      | rat n d => obtain ⟨_, h2⟩ := intVal_rat hy; subst h2; exact (wf_rat_i32 hb).1
      | fix n => simp [isRatRep] at hbr
      | big n => simp [isRatRep] at hbr
      | flo f => simp [isRatRep] at hbr
    have hlt := natAbs_tmod_lt x hy0
    rw [inI32_iff] at hyi
    rw [inI32_iff, inI32_iff, inI32_iff]
    omega
  · rw [if_neg hc, if_neg hc]
    exact ⟨_, rfl, hv⟩

end Marwood.Arith
