import Marwood.Lemmas.CompileVerifies
/-!
# MOV / MOVIMM operands of compiled code, in every loading

Every cell of a loaded compiled code object that holds the opcode MOV (MOVIMM) — at ANY offset, not only at
the offsets the verifier reaches — is followed by two operand cells of the code object, neither of which is
a `Ptr` (for MOVIMM: the first is a value, the second is not a `Ptr`). This is the code discipline `LamOk` of
the heap invariant `GoodI` (C03 / C12 / C13); the verifier's acceptance alone does not give it, because
`LamOk` quantifies over all offsets.
-/
namespace Marwood.Vm
open Marwood Marwood.Vm.Verify

def notPtrC : VCell → Bool
  | .ptr _ => false
  | _ => true

def opndC (P : VCell → Bool) : Option VCell → Bool
  | some v => P v
  | none => true

/-- the MOV / MOVIMM opcode cells among `cells[b .. b+n)` have their operands inside the range, well-formed -/
def OpsOK (cells : List VCell) (b n : Nat) : Prop :=
  ∀ j, j < n →
    (cells[b + j]? = some (.opcode .mov) →
      j + 2 < n ∧ opndC notPtrC cells[b + j + 1]? = true ∧ opndC notPtrC cells[b + j + 2]? = true) ∧
    (cells[b + j]? = some (.opcode .movImm) →
      j + 2 < n ∧ opndC isVal cells[b + j + 1]? = true ∧ opndC notPtrC cells[b + j + 2]? = true)

theorem OpsOK.append {cells : List VCell} {b n1 n2 : Nat} (h1 : OpsOK cells b n1) (h2 : OpsOK cells (b + n1) n2) :
    OpsOK cells b (n1 + n2) := by
  intro j hj
  rcases Nat.lt_or_ge j n1 with hlt | hge
  · obtain ⟨a, c⟩ := h1 j hlt
    exact ⟨fun h => by obtain ⟨x, y⟩ := a h; exact ⟨by omega, y⟩, fun h => by obtain ⟨x, y⟩ := c h; exact ⟨by omega, y⟩⟩
  · have e : b + j = b + n1 + (j - n1) := by omega
    obtain ⟨a, c⟩ := h2 (j - n1) (by omega)
    rw [← e] at a c
    exact ⟨fun h => by obtain ⟨x, y⟩ := a h; exact ⟨by omega, y⟩, fun h => by obtain ⟨x, y⟩ := c h; exact ⟨by omega, y⟩⟩

theorem OpsOK.cast {cells : List VCell} {b b' n n' : Nat} (hb : b = b') (hn : n = n') (h : OpsOK cells b n) :
    OpsOK cells b' n' := by subst hb; subst hn; exact h

theorem CellsAt.cast {cells : List VCell} {b b' : Nat} {code : List BC} (hb : b = b') (h : CellsAt cells b code) :
    CellsAt cells b' code := by subst hb; exact h

def BC.isOp : BC → Bool
  | .op _ => true
  | _ => false

theorem enc_not_opcode {b : BC} {v : VCell} (hb : BC.isOp b = false) (he : Enc b v) (o : Op) : v ≠ .opcode o := by
  intro hv
  subst hv
  cases b <;> simp [Enc, dataCell, BC.isOp] at he hb

theorem enc_loc_notPtr {b : BC} {v : VCell} (hb : locB b = true) (he : Enc b v) : notPtrC v = true := by
  cases b <;> simp [locB] at hb <;> simp only [Enc] at he
  · subst he; rfl
  · obtain ⟨g, rfl⟩ := he; rfl
  · obtain ⟨g, rfl⟩ := he; rfl

theorem locB_notOp {b : BC} (hb : locB b = true) : BC.isOp b = false := by
  cases b <;> simp [locB] at hb <;> rfl

theorem immB_notOp {b : BC} (hb : immB b = true) : BC.isOp b = false := by
  cases b <;> simp [immB] at hb <;> rfl

/-- a one-cell instruction that is neither MOV nor MOVIMM -/
theorem opsOK_one {cells : List VCell} {b : Nat} {o : Op} (hc : CellsAt cells b [.op o])
    (h1 : o ≠ .mov) (h2 : o ≠ .movImm) : OpsOK cells b 1 := by
  obtain ⟨⟨v0, h0, e0⟩, _⟩ := hc.head
  simp only [Enc] at e0; subst e0
  intro j hj
  have : j = 0 := by omega
  subst this
  simp only [Nat.add_zero, h0]
  exact ⟨fun h => by cases h; exact absurd rfl h1, fun h => by cases h; exact absurd rfl h2⟩

/-- a two-cell instruction that is neither MOV nor MOVIMM -/
theorem opsOK_two {cells : List VCell} {b : Nat} {o : Op} {x : BC} (hc : CellsAt cells b [.op o, x])
    (hx : BC.isOp x = false) (h1 : o ≠ .mov) (h2 : o ≠ .movImm) : OpsOK cells b 2 := by
  obtain ⟨v0, v1, h0, e0, h1', e1⟩ := hc.two
  simp only [Enc] at e0; subst e0
  intro j hj
  have : j = 0 ∨ j = 1 := by omega
  rcases this with rfl | rfl
  · simp only [Nat.add_zero, h0]
    exact ⟨fun h => by cases h; exact absurd rfl h1, fun h => by cases h; exact absurd rfl h2⟩
  · rw [h1']
    exact ⟨fun h => by cases h; exact absurd rfl (enc_not_opcode hx e1 _),
           fun h => by cases h; exact absurd rfl (enc_not_opcode hx e1 _)⟩

theorem blk_opsOK {b : Nat} {code : List BC} {p q : List ACell} (hb : Blk b code p q) :
    ∀ {cells : List VCell}, CellsAt cells b code → OpsOK cells b code.length := by
  induction hb with
  | nil b => intro cells _ j hj; simp at hj
  | seq _ _ ih1 ih2 =>
    intro cells hc
    obtain ⟨hc1, hc2⟩ := hc.append
    rw [List.length_append]
    exact (ih1 hc1).append (ih2 hc2)
  | frame _ _ ih => exact ih
  | mov b src dst hs hd =>
    intro cells hc
    obtain ⟨v0, v1, v2, h0, e0, h1, e1, h2, e2⟩ := hc.three
    simp only [Enc] at e0; subst e0
    intro j hj
    simp only [List.length_cons, List.length_nil] at hj
    have : j = 0 ∨ j = 1 ∨ j = 2 := by omega
    rcases this with rfl | rfl | rfl
    · simp only [Nat.add_zero, h0, h1, h2]
      exact ⟨fun _ => ⟨by simp, enc_loc_notPtr hs e1, enc_loc_notPtr hd e2⟩, fun h => (by cases h)⟩
    · rw [h1]
      exact ⟨fun h => by cases h; exact absurd rfl (enc_not_opcode (locB_notOp hs) e1 _),
             fun h => by cases h; exact absurd rfl (enc_not_opcode (locB_notOp hs) e1 _)⟩
    · rw [h2]
      exact ⟨fun h => by cases h; exact absurd rfl (enc_not_opcode (locB_notOp hd) e2 _),
             fun h => by cases h; exact absurd rfl (enc_not_opcode (locB_notOp hd) e2 _)⟩
  | movImm b imm dst hs hd =>
    intro cells hc
    obtain ⟨v0, v1, v2, h0, e0, h1, e1, h2, e2⟩ := hc.three
    simp only [Enc] at e0; subst e0
    intro j hj
    simp only [List.length_cons, List.length_nil] at hj
    have : j = 0 ∨ j = 1 ∨ j = 2 := by omega
    rcases this with rfl | rfl | rfl
    · simp only [Nat.add_zero, h0, h1, h2]
      refine ⟨fun h => (by cases h), fun _ => ⟨by simp, ?_, enc_loc_notPtr hd e2⟩⟩
      have := enc_imm hs e1
      simpa [immOk, opndC] using this
    · rw [h1]
      exact ⟨fun h => by cases h; exact absurd rfl (enc_not_opcode (immB_notOp hs) e1 _),
             fun h => by cases h; exact absurd rfl (enc_not_opcode (immB_notOp hs) e1 _)⟩
    · rw [h2]
      exact ⟨fun h => by cases h; exact absurd rfl (enc_not_opcode (locB_notOp hd) e2 _),
             fun h => by cases h; exact absurd rfl (enc_not_opcode (locB_notOp hd) e2 _)⟩
  | pushAcc b => intro cells hc; exact opsOK_one hc (by decide) (by decide)
  | pushArgc b n => intro cells hc; exact opsOK_two hc rfl (by decide) (by decide)
  | pushDatum b d => intro cells hc; exact opsOK_two hc rfl (by decide) (by decide)
  | closure b => intro cells hc; exact opsOK_one hc (by decide) (by decide)
  | cons b c1 c2 _ _ => intro cells hc; exact opsOK_one hc (by decide) (by decide)
  | vpush b c => intro cells hc; exact opsOK_one hc (by decide) (by decide)
  | call b tail vs _ =>
    intro cells hc
    cases tail
    · exact opsOK_one hc (by decide) (by decide)
    · exact opsOK_one hc (by decide) (by decide)
  | ite tj tm ht hc' ha htj htm iht ihc iha =>
    rename_i b t c a
    intro cells hc
    obtain ⟨hc4, hca⟩ := hc.append
    obtain ⟨hc3, hcm⟩ := hc4.append
    obtain ⟨hc2, hcc⟩ := hc3.append
    obtain ⟨hct, hcj⟩ := hc2.append
    have e1 := iht hct
    have e2 : OpsOK cells (b + t.length) 2 := opsOK_two hcj rfl (by decide) (by decide)
    have e3 : OpsOK cells (b + t.length + 2) c.length :=
      ihc (CellsAt.cast (by simp only [List.length_append, List.length_cons, List.length_nil]; omega) hcc)
    have e4 : OpsOK cells (b + t.length + 2 + c.length) 2 :=
      opsOK_two (CellsAt.cast (by simp only [List.length_append, List.length_cons, List.length_nil]; omega) hcm)
        rfl (by decide) (by decide)
    have e5 : OpsOK cells (b + t.length + 2 + c.length + 2) a.length :=
      htj ▸ iha (CellsAt.cast (by simp only [List.length_append, List.length_cons, List.length_nil]; omega) hca)
    have := (((e1.append e2).append (e3.cast (by omega) rfl)).append (e4.cast (by omega) rfl)).append
      (e5.cast (by omega) rfl)
    simp only [List.length_append, List.length_cons, List.length_nil]
    exact OpsOK.cast rfl (by omega) this

end Marwood.Vm
