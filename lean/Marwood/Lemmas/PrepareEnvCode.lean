import Marwood.Lemmas.PrepareDefs
import Marwood.Lemmas.CompileEnvmap2
/-!
# The environment clauses of a loaded code object are consequences of the compiler model (`LoadedQ ⊆ CodeOkH`)

`InstallsGarbage` states the two environment clauses `LamEnvOk h cl` (Lemmas/PrepareDefs.lean: `immTF`, `sitesFB` — what
`EnvInv` says of a lambda cell) of every code object a REJECTED form leaves behind. For an ACCEPTED form they are not
part of the relation `Installs`: they follow from

* the compiler-model theorems of `Lemmas/CompileEnvmap*.lean` (`compileTop_envCode`): in every code object of
  `compileTop` a code-object pointer occurs only as the immediate of `MOVIMM (lambda id) acc; CLOSURE`, MOVIMM's immediate
  is quoted data / `Void` / a code object, PUSHIMM's immediate is an argument count or quoted data; the top-level lambda
  (the one code object the entry lambda points to, outside a CLOSURE site) captures nothing;
* `LoadedLam` (the loaded cells are `Enc`-loadings of the model's cells, and the environment map has the model's length);
* `ImmLoaded` (what the loader guarantees of the cells the immediates point to: data cells are no capturing lambdas, a
  `lambda id` immediate points to a loading of code object `id` whose `IofEnvironment(k)` slots are slots of this
  object's map — `get_slot`).

`LoadedQ.codeOkH`, and with it `Installs.garbage` (an accepted form's steps are garbage steps too).
-/
namespace Marwood.Lemmas.Good
open Marwood Marwood.Vm Marwood.Vm.Verify Marwood.Vm.Concrete Marwood.Lemmas.Sim
open Marwood.Heap (GcState)

/-! ## `Enc` read backwards -/

theorem encList_back {code : List BC} {cells : List VCell} (h : EncList code cells) {i : Nat} {v : VCell}
    (hv : cells[i]? = some v) : ∃ b, code[i]? = some b ∧ Enc b v := by
  obtain ⟨hl, hs⟩ := encList_spec h
  have hi : i < code.length := by rw [← hl]; exact (List.getElem?_eq_some_iff.mp hv).1
  obtain ⟨v', hv', he⟩ := hs i code[i] (List.getElem?_eq_getElem hi)
  rw [hv] at hv'
  cases hv'
  exact ⟨_, List.getElem?_eq_getElem hi, he⟩

theorem encList_fwd {code : List BC} {cells : List VCell} (h : EncList code cells) {i : Nat} {b : BC}
    (hb : code[i]? = some b) : ∃ v, cells[i]? = some v ∧ Enc b v := (encList_spec h).2 i b hb

theorem enc_opcode {b : BC} {o : Op} (h : Enc b (.opcode o)) : b = .op o := by
  cases b <;> simp [Enc, dataCell] at h
  exact congrArg _ h.symm

theorem enc_op {o : Op} {v : VCell} (h : Enc (.op o) v) : v = .opcode o := h

theorem enc_acc {v : VCell} (h : Enc .acc v) : v = .acc := h

/-- an opcode cell of the loaded code is the model's opcode at that position -/
theorem loaded_op {code : List BC} {cells : List VCell} (h : EncList code cells) {i : Nat} {o : Op}
    (hv : cells[i]? = some (.opcode o)) : code[i]? = some (.op o) := by
  obtain ⟨b, hb, he⟩ := encList_back h hv
  rw [hb, enc_opcode he]

theorem siteB_parts {bc : List VCell} {j : Nat} (h : siteB bc j = true) :
    bc[j]? = some (.opcode .movImm) ∧ bc[j + 2]? = some .acc ∧ bc[j + 3]? = some (.opcode .closureAcc) := by
  unfold siteB at h
  simp only [Bool.and_eq_true, beq_iff_eq] at h
  exact ⟨h.1.1, h.1.2, h.2⟩

theorem capAt_of_empty {h : CHeap} {p : Nat} {lam : CLambda} (hl : lambdaAt h p = some lam) (he : lam.envmap = []) :
    capAt h p = false := by
  simp [capAt, hl, he]

theorem empty_of_capAt {h : CHeap} {p : Nat} {lam : CLambda} (hl : lambdaAt h p = some lam) (hc : capAt h p = false) :
    lam.envmap = [] := by
  unfold capAt at hc
  rw [hl] at hc
  simpa using hc

/-! ## the environment clauses from the positional facts -/

/-- the positional facts about a code object `m` of the compiler model that the environment clauses of its loadings
    need (`EnvCode` for procedure code; the entry lambda points to the non-capturing top-level lambda) -/
structure ModelEnv (tbl : List LambdaM) (m : LambdaM) : Prop where
  lam : ∀ (k id : Nat), m.bc[k]? = some (.lambda id) → ∃ j, k = j + 1 ∧ m.bc[j]? = some (.op .movImm) ∧
    ((m.bc[j + 2]? = some .acc ∧ m.bc[j + 3]? = some (.op .closureAcc)) ∨ ∀ m', tbl[id]? = some m' → m'.envmap = [])
  mov : ∀ (j : Nat), m.bc[j]? = some (.op .movImm) → ∃ x, m.bc[j + 1]? = some x ∧ immB x = true
  push : ∀ (j : Nat), m.bc[j]? = some (.op .pushImm) → ∃ x, m.bc[j + 1]? = some x ∧ pushB x = true

theorem ModelEnv.of_envCode {tbl : List LambdaM} {P : Nat → Prop} {m : LambdaM} (e : EnvCode P m.bc) : ModelEnv tbl m :=
  ⟨fun k id hk => by
      obtain ⟨_, j, a, b, c, d⟩ := e.lam k id hk
      exact ⟨j, a, b, .inl ⟨c, d⟩⟩,
    e.mov, e.push⟩

/-- the entry lambda `PUSHIMM argc0; MOVIMM <lambda id> acc; CALL; HALT` -/
theorem ModelEnv.entry {tbl : List LambdaM} {id : Nat} (h : ∀ m', tbl[id]? = some m' → m'.envmap = []) :
    ModelEnv tbl (entryLam id) := by
  refine ⟨?_, ?_, ?_⟩
  · intro k id' hk
    have hk' : (entryCode id)[k]? = some (.lambda id') := hk
    rcases k with _ | _ | _ | _ | _ | _ | _ | k <;> simp [entryCode] at hk'
    subst hk'
    exact ⟨2, rfl, rfl, .inr h⟩
  · intro j hj
    have hj' : (entryCode id)[j]? = some (.op .movImm) := hj
    rcases j with _ | _ | _ | _ | _ | _ | _ | j <;> simp [entryCode] at hj'
    exact ⟨.lambda id, rfl, rfl⟩
  · intro j hj
    have hj' : (entryCode id)[j]? = some (.op .pushImm) := hj
    rcases j with _ | _ | _ | _ | _ | _ | _ | j <;> simp [entryCode] at hj'
    exact ⟨.argc 0, rfl, rfl⟩

section
variable {tbl : List LambdaM} {h : CHeap} {m : LambdaM} {cl : CLambda}

/-- the loading of quoted data / `Void` / an argument count does not point to a capturing lambda -/
theorem imm_plain_ne (hi : ImmLoaded tbl h m cl) {j : Nat} {x : BC} {v : VCell} (hx : m.bc[j]? = some x)
    (hv : cl.bc[j]? = some v) (he : Enc x v) (hp : (∃ d, x = .datum d) ∨ x = .void ∨ ∃ n, x = .argc n) :
    neF (capAt h) v = true := by
  rcases hp with ⟨d, rfl⟩ | rfl | ⟨n, rfl⟩
  · exact hi.data j _ v hx rfl hv
  · have : v = .void := he
    subst this; rfl
  · have : v = .argc n := he
    subst this; rfl

theorem loaded_immTF (me : ModelEnv tbl m) (hl : LoadedLam m cl) (hi : ImmLoaded tbl h m cl) :
    immTF (capAt h) cl.bc = true := by
  unfold immTF
  rw [List.all_eq_true]
  intro j _
  split
  · -- PUSHIMM
    rename_i hop
    obtain ⟨x, hx, hpx⟩ := me.push j (loaded_op hl.bc hop)
    cases hv : cl.bc[j + 1]? with
    | none => rfl
    | some v =>
      obtain ⟨v', hv', he⟩ := encList_fwd hl.bc hx
      rw [hv] at hv'; cases hv'
      refine imm_plain_ne hi hx hv he ?_
      cases x <;> simp [pushB] at hpx <;> simp
  · -- MOVIMM
    rename_i hop
    obtain ⟨x, hx, hpx⟩ := me.mov j (loaded_op hl.bc hop)
    cases hv : cl.bc[j + 1]? with
    | none => rfl
    | some v =>
      obtain ⟨v', hv', he⟩ := encList_fwd hl.bc hx
      rw [hv] at hv'; cases hv'
      simp only [Bool.or_eq_true]
      by_cases hlam : ∃ id, x = .lambda id
      · obtain ⟨id, rfl⟩ := hlam
        obtain ⟨a, rfl⟩ : ∃ a, v = .ptr a := he
        obtain ⟨j', e1, _, hsite⟩ := me.lam (j + 1) id hx
        have e2 : j' = j := by omega
        rw [e2] at hsite
        rcases hsite with ⟨s1, s2⟩ | hemp
        · right
          obtain ⟨w1, hw1, he1⟩ := encList_fwd hl.bc s1
          obtain ⟨w2, hw2, he2⟩ := encList_fwd hl.bc s2
          rw [enc_acc he1] at hw1
          rw [enc_op he2] at hw2
          unfold siteB
          rw [hop, hw1, hw2]
          rfl
        · left
          obtain ⟨m', cl', ht, hla, hll, _⟩ := hi.lam (j + 1) id a hx hv
          have hz : cl'.envmap = [] := by
            have := hll.envLen
            rw [hemp m' ht] at this
            exact List.length_eq_zero_iff.mp this
          show (!capAt h a) = true
          rw [capAt_of_empty hla hz]; rfl
      · left
        refine imm_plain_ne hi hx hv he ?_
        cases x <;> simp [immB] at hpx <;> first | exact absurd ⟨_, rfl⟩ hlam | simp
  · rfl

theorem loaded_sitesFB (me : ModelEnv tbl m) (hl : LoadedLam m cl) (hi : ImmLoaded tbl h m cl) :
    sitesFB h cl = true := by
  unfold sitesFB
  rw [List.all_eq_true]
  intro j _
  rw [Bool.and_eq_true]
  constructor
  · by_cases hs : siteB cl.bc j = true
    · simp only [hs, Bool.not_true, Bool.false_or]
      obtain ⟨hop, _, _⟩ := siteB_parts hs
      obtain ⟨x, hx, hpx⟩ := me.mov j (loaded_op hl.bc hop)
      cases hv : cl.bc[j + 1]? with
      | none => rfl
      | some v =>
        obtain ⟨v', hv', he⟩ := encList_fwd hl.bc hx
        rw [hv] at hv'; cases hv'
        simp only
        unfold childFitB
        split
        · rename_i p
          split
          · rename_i lam' hlam'
            unfold iofEnvFitB
            rw [List.all_eq_true]
            intro y hy
            split
            · rename_i k hk
              rw [decide_eq_true_eq]
              by_cases hlam : ∃ id, x = .lambda id
              · obtain ⟨id, rfl⟩ := hlam
                obtain ⟨m', cl', _, hla, _, hslot⟩ := hi.lam (j + 1) id p hx hv
                rw [hlam'] at hla; cases hla
                obtain ⟨z, hz, _⟩ := hslot y hy k hk
                exact (List.getElem?_eq_some_iff.mp hz).1
              · exfalso
                have hne : neF (capAt h) (.ptr p) = true := by
                  refine imm_plain_ne hi hx hv he ?_
                  cases x <;> simp [immB] at hpx <;> first | exact absurd ⟨_, rfl⟩ hlam | simp
                have hc : capAt h p = false := by simpa [neF] using hne
                rw [empty_of_capAt hlam' hc] at hy
                cases hy
            · rfl
          · rfl
        · rfl
    · have : siteB cl.bc j = false := by simpa using hs
      simp [this]
  · split
    · rename_i v hop hv
      obtain ⟨x, hx, hpx⟩ := me.push j (loaded_op hl.bc hop)
      obtain ⟨v', hv', he⟩ := encList_fwd hl.bc hx
      rw [hv] at hv'; cases hv'
      cases x <;> simp [pushB] at hpx
      · have : v = .argc _ := he
        subst this; rfl
      · have hd : dataCell v = true := he
        cases v <;> first | rfl | simp [dataCell] at hd
    · rfl

/-- **the environment clauses of a loaded code object** -/
theorem loaded_envOk (me : ModelEnv tbl m) (hl : LoadedLam m cl) (hi : ImmLoaded tbl h m cl) : LamEnvOk h cl :=
  ⟨loaded_immTF me hl hi, loaded_sitesFB me hl hi⟩

end

/-! ## the code objects of `compileRunnable` -/

/-- every code object of `compileRunnable e fuel` has the positional facts, for the table `st.lambdas ++ [lam]` the
    `lambda id` cells index (the entry lambda's `id` is the top-level lambda `lam`, which captures nothing) -/
theorem compiled_modelEnv {e : Datum} {fuel : Nat} {st : CState} {lam ent m : LambdaM}
    (hc : compileRunnable e fuel = .ok (st, lam, ent)) (hm : m = lam ∨ m ∈ st.lambdas ∨ m = ent) :
    ModelEnv (st.lambdas ++ [lam]) m := by
  unfold compileRunnable at hc
  cases ht : compileTop e fuel with
  | error err => rw [ht] at hc; cases hc
  | ok r =>
    obtain ⟨st', lam'⟩ := r
    rw [ht] at hc
    cases hc
    obtain ⟨htbl, hlam, hemp, _⟩ := compileTop_envCode ht
    rcases hm with rfl | hm | rfl
    · exact .of_envCode hlam
    · exact .of_envCode (htbl m hm)
    · refine .entry ?_
      intro m' hm'
      rw [List.getElem?_append_right (Nat.le_refl _), Nat.sub_self] at hm'
      cases hm'
      exact hemp

/-- **a code object `prepare_eval` installs for an accepted form satisfies every clause the invariants state of a
    lambda cell**, the environment clauses included — from the compiler-model theorems -/
theorem LoadedQ.codeOkH {e : Datum} {fuel : Nat} {h : CHeap} {cl : CLambda} (q : LoadedQ e fuel h cl) : CodeOkH h cl := by
  obtain ⟨st, lam, ent, m, hc, hm, hl, hi⟩ := q.comp
  exact ⟨q.codeOk, loaded_envOk (compiled_modelEnv hc hm) hl hi⟩

/-- the loader steps of an accepted form are garbage steps -/
theorem Installs.garbage {e : Datum} {fuel : Nat} {s s' : St CHeap} {entry : Nat} (i : Installs e fuel s s' entry) :
    InstallsGarbage s s' :=
  ⟨i.regs, i.steps.mono (fun _ _ q => q.codeOkH)⟩

/-- the entry cell of `Installs` captures nothing -/
theorem Installs.entry_empty {e : Datum} {fuel : Nat} {s s' : St CHeap} {entry : Nat} (i : Installs e fuel s s' entry)
    {cl : CLambda} (hl : lambdaAt s'.heap entry = some cl) : cl.envmap = [] := by
  obtain ⟨st, lam, ent, cl', hc, hcell, hll⟩ := i.entryLam
  rw [lambdaAt_iff.mpr hcell] at hl
  cases hl
  have he : ent = Vm.entryLam st.lambdas.length := by
    unfold compileRunnable at hc
    cases ht : compileTop e fuel with
    | error err => rw [ht] at hc; cases hc
    | ok r => obtain ⟨st', lam'⟩ := r; rw [ht] at hc; cases hc; rfl
  have := hll.envLen
  rw [he] at this
  exact List.length_eq_zero_iff.mp this

end Marwood.Lemmas.Good
