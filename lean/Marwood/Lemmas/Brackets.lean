import Marwood.Spec.Brackets
/-!
# The counting scan of `find_matching_bracket` computes the stack-discipline partner
-/
namespace Marwood
open Marwood.Spec

/-- index-returning version of `countScan` on token types (relative index) -/
def countIdx (have_ want : TokType → Bool) : Nat → List TokType → Option Nat
  | _, [] => none
  | n, t :: ts =>
    let n1 := if have_ t then n + 1 else n
    if want t then (if n1 = 0 then some 0 else (countIdx have_ want (n1 - 1) ts).map (· + 1))
    else (countIdx have_ want n1 ts).map (· + 1)

theorem countScan_eq_countIdx (h w : TokType → Bool) : ∀ (ts : List Token) (n : Nat),
    countScan h w n ts = (countIdx h w n (ts.map (·.ty))).bind (fun r => ts[r]?) := by
  intro ts
  induction ts with
  | nil => intro n; simp [countScan, countIdx]
  | cons t ts ih =>
    intro n
    simp only [countScan, countIdx, List.map_cons]
    by_cases hw : w t.ty = true <;> by_cases hh : h t.ty = true <;>
      simp only [hw, hh, if_true, if_false, Bool.false_eq_true]
    · rw [ih]; simp; cases countIdx h w n (List.map (fun x => x.ty) ts) <;> simp
    · by_cases hn : n = 0
      · simp [hn]
      · simp only [hn, if_false]; rw [ih]
        cases countIdx h w (n - 1) (List.map (fun x => x.ty) ts) <;> simp
    · rw [ih]; cases countIdx h w (n + 1) (List.map (fun x => x.ty) ts) <;> simp
    · rw [ih]; cases countIdx h w n (List.map (fun x => x.ty) ts) <;> simp

theorem isOpen_not_isClose {t : TokType} (h : t.isOpen = true) : t.isClose = false := by
  cases t <;> simp_all [TokType.isOpen, TokType.isClose]

/-- the stack after processing a prefix -/
def stackAfter : Nat → List Nat → List TokType → List Nat
  | _, st, [] => st
  | i, st, t :: ts =>
    if t.isOpen then stackAfter (i+1) (i :: st) ts
    else if t.isClose then stackAfter (i+1) st.tail ts
    else stackAfter (i+1) st ts

/-- a stack of opener positions: strictly decreasing, all below the current index -/
def ValidStack (i : Nat) (st : List Nat) : Prop := st.Pairwise (· > ·) ∧ ∀ x ∈ st, x < i

theorem ValidStack.push {i st} (h : ValidStack i st) : ValidStack (i+1) (i :: st) := by
  refine ⟨List.pairwise_cons.mpr ⟨fun x hx => h.2 x hx, h.1⟩, ?_⟩
  intro x hx
  rcases List.mem_cons.mp hx with rfl | hx
  · omega
  · have := h.2 x hx; omega

theorem ValidStack.tail {i st} (h : ValidStack i st) : ValidStack (i+1) st.tail := by
  refine ⟨h.1.sublist (List.tail_sublist st), ?_⟩
  intro x hx
  have := h.2 x (List.mem_of_mem_tail hx); omega

theorem ValidStack.step {i st} (h : ValidStack i st) : ValidStack (i+1) st :=
  ⟨h.1, fun x hx => by have := h.2 x hx; omega⟩

theorem stackAfter_valid : ∀ (tys : List TokType) (i : Nat) (st : List Nat),
    ValidStack i st → ValidStack (i + tys.length) (stackAfter i st tys) := by
  intro tys
  induction tys with
  | nil => intro i st h; simpa [stackAfter] using h
  | cons t ts ih =>
    intro i st h
    simp only [stackAfter, List.length_cons]
    have e : i + (ts.length + 1) = (i + 1) + ts.length := by omega
    rw [e]
    split
    · exact ih _ _ h.push
    · split
      · exact ih _ _ h.tail
      · exact ih _ _ h.step

theorem pairsGo_append : ∀ (pre rest : List TokType) (i : Nat) (st : List Nat),
    pairsGo i st (pre ++ rest)
      = pairsGo i st pre ++ pairsGo (i + pre.length) (stackAfter i st pre) rest := by
  intro pre
  induction pre with
  | nil => intro rest i st; simp [pairsGo, stackAfter]
  | cons t ts ih =>
    intro rest i st
    have e : i + (ts.length + 1) = (i + 1) + ts.length := by omega
    simp only [List.cons_append, pairsGo, stackAfter, List.length_cons, e]
    split
    · exact ih _ _ _
    · split
      · cases st with
        | nil => simpa using ih rest (i+1) []
        | cons o st' => simp [ih]
      · exact ih _ _ _

theorem stackAfter_append : ∀ (pre rest : List TokType) (i : Nat) (st : List Nat),
    stackAfter i st (pre ++ rest) = stackAfter (i + pre.length) (stackAfter i st pre) rest := by
  intro pre
  induction pre with
  | nil => intro rest i st; simp [stackAfter]
  | cons t ts ih =>
    intro rest i st
    have e : i + (ts.length + 1) = (i + 1) + ts.length := by omega
    simp only [List.cons_append, stackAfter, List.length_cons, e]
    split
    · exact ih _ _ _
    · split <;> exact ih _ _ _

/-- every pair produced from index `i` closes at an index in `[i, i + length)`, and opens either
    on the initial stack or in that range -/
theorem pairsGo_bounds : ∀ (tys : List TokType) (i : Nat) (st : List Nat) (p : Nat × Nat),
    p ∈ pairsGo i st tys → (i ≤ p.2 ∧ p.2 < i + tys.length) ∧ (p.1 ∈ st ∨ (i ≤ p.1 ∧ p.1 < i + tys.length)) := by
  intro tys
  induction tys with
  | nil => intro i st p h; simp [pairsGo] at h
  | cons t ts ih =>
    intro i st p h
    simp only [pairsGo] at h
    simp only [List.length_cons]
    split at h
    · have := ih _ _ _ h
      refine ⟨by omega, ?_⟩
      rcases this.2 with h1 | h1
      · rcases List.mem_cons.mp h1 with h2 | h2
        · right; omega
        · left; exact h2
      · right; omega
    · split at h
      · cases st with
        | nil =>
          have := ih _ _ _ h
          refine ⟨by omega, ?_⟩
          rcases this.2 with h1 | h1
          · simp at h1
          · right; omega
        | cons o st' =>
          rcases List.mem_cons.mp h with rfl | h
          · exact ⟨by simp, by simp⟩
          · have := ih _ _ _ h
            refine ⟨by omega, ?_⟩
            rcases this.2 with h1 | h1
            · left; exact List.mem_cons_of_mem _ h1
            · right; omega
      · have := ih _ _ _ h
        refine ⟨by omega, ?_⟩
        rcases this.2 with h1 | h1
        · left; exact h1
        · right; omega

/-- **forward**: the counter scan started at depth `n` finds the closer of the `n`-th stack entry -/
theorem pairsGo_find_fst : ∀ (tys : List TokType) (i : Nat) (st : List Nat) (n : Nat)
    (hn : n < st.length), ValidStack i st →
    (pairsGo i st tys).find? (fun p => p.1 == st[n])
      = (countIdx TokType.isOpen TokType.isClose n tys).map (fun r => (st[n], i + r)) := by
  intro tys
  induction tys with
  | nil => intro i st n hn hv; simp [pairsGo, countIdx]
  | cons t ts ih =>
    intro i st n hn hv
    simp only [pairsGo, countIdx]
    by_cases ho : t.isOpen = true
    · have hc := isOpen_not_isClose ho
      simp only [ho, hc, if_true]
      have := ih (i+1) (i :: st) (n+1) (by simpa using hn) hv.push
      simp only [List.getElem_cons_succ] at this
      rw [this]
      cases countIdx TokType.isOpen TokType.isClose (n+1) ts <;> simp <;> omega
    · simp only [ho]
      by_cases hc : t.isClose = true
      · simp only [hc, if_true]
        cases st with
        | nil => simp at hn
        | cons o st' =>
          cases n with
          | zero => simp
          | succ m =>
            have hne : o ≠ st'[m]'(by simpa using hn) := by
              have : o > st'[m]'(by simpa using hn) :=
                (List.pairwise_cons.mp hv.1).1 (st'[m]'(by simpa using hn)) (List.getElem_mem _)
              omega
            simp only [List.getElem_cons_succ, Bool.false_eq_true, if_false]
            rw [List.find?_cons_of_neg (by simpa using hne)]
            have hv' : ValidStack (i+1) st' := hv.tail
            have := ih (i+1) st' m (by simpa using hn) hv'
            rw [this]
            simp only [Nat.add_one_ne_zero, if_false, Nat.add_sub_cancel, Option.map_map]
            cases countIdx TokType.isOpen TokType.isClose m ts <;> simp <;> omega
      · simp only [hc, Bool.false_eq_true, if_false]
        have := ih (i+1) st n hn hv.step
        rw [this]
        cases countIdx TokType.isOpen TokType.isClose n ts <;> simp <;> omega

/-- **backward**: scanning the reversed prefix with closers counting up finds the `n`-th entry of
    the stack the forward pass has built at that point -/
theorem countIdx_backward_rev : ∀ (q : List TokType) (n : Nat),
    (countIdx TokType.isClose TokType.isOpen n q).map (fun r => q.length - 1 - r)
      = (stackAfter 0 [] q.reverse)[n]? := by
  intro q
  induction q with
  | nil => intro n; simp [countIdx, stackAfter]
  | cons x p ih =>
    intro n
    rw [List.reverse_cons, stackAfter_append]
    simp only [countIdx, stackAfter, Nat.zero_add, List.length_cons, List.length_reverse]
    by_cases ho : x.isOpen = true
    · have hc := isOpen_not_isClose ho
      simp only [ho, hc, Bool.false_eq_true, if_false, if_true]
      cases n with
      | zero => simp
      | succ m =>
        simp only [Nat.add_one_ne_zero, if_false, Nat.add_sub_cancel, List.getElem?_cons_succ]
        rw [← ih m]
        cases countIdx TokType.isClose TokType.isOpen m p <;> simp <;> omega
    · simp only [ho, Bool.false_eq_true, if_false]
      by_cases hc : x.isClose = true
      · simp only [hc, if_true]
        have := ih (n+1)
        rw [List.getElem?_tail, ← this]
        cases countIdx TokType.isClose TokType.isOpen (n+1) p <;> simp <;> omega
      · simp only [hc, Bool.false_eq_true, if_false]
        rw [← ih n]
        cases countIdx TokType.isClose TokType.isOpen n p <;> simp <;> omega

theorem countIdx_backward (pre : List TokType) (n : Nat) :
    (countIdx TokType.isClose TokType.isOpen n pre.reverse).map (fun r => pre.length - 1 - r)
      = (stackAfter 0 [] pre)[n]? := by
  have := countIdx_backward_rev pre.reverse n
  simpa using this

end Marwood
