import Marwood.Lemmas.PolicySessionMain
import Marwood.Lemmas.ProcInvMain
import Marwood.Lemmas.GoodEval
/-!
# The side conditions at the collection points of an evaluation follow from the invariant of its first state

`sess_capacity_bounded` asks `GcOk` (invariant `GoodI`, decoding discipline `CodePlain`, size of the returned heap) of
every state in which a collection runs. For one evaluation started in a state satisfying the bundled invariant
`VmOkP = VmOk ∧ PInv` (an invariant of the real machine: `vmOkP_reaches`) and `CodePlain` (`codePlain_reaches`) these
hold at every collection point — inside the loop, and after the success / error epilogue (`onDone_goodI`,
`onError_goodI`: the wiped stack contributes no roots). What remains is the physical size bound (`EvalSizeBounded`).
-/
namespace Marwood.Lemmas.PolicySessionOk
open Marwood Marwood.Vm Marwood.Vm.Concrete Marwood.Lemmas.Sim Marwood.Lemmas.Good
open Marwood.Heap (GcState WFHeap RootsOk Roots vrefs vrefsList crefs)
open Marwood.Lemmas.PolicySessionGc Marwood.Lemmas.PolicySessionMain Marwood.Lemmas.MachineGarbage

/-- the success epilogue's stack wipe keeps the invariant: fewer roots -/
theorem onDone_goodI {s : St CHeap} (g : GoodI s) : GoodI (onDone s) := by
  refine ⟨g.hg, ?_, g.accv⟩
  intro y hy
  show NF s.heap y
  simp only [Heap.Roots.refs, rootsOf, onDone, Stack.clear, List.mem_append, List.mem_cons, List.not_mem_nil,
    or_false] at hy
  rcases hy with (((hy | hy) | hy) | hy) | hy
  · exact g.roots y (mem_refs_syms (by simpa [rootsOf] using hy))
  · exact g.roots y (by simp only [Heap.Roots.refs, rootsOf, List.mem_append]; exact .inl (.inl (.inl (.inr hy))))
  · obtain ⟨c, hc', hx⟩ := vrefsList_mem_iff.mp hy
    have : c = .undefined := (List.mem_replicate.mp (List.mem_of_mem_take hc')).2
    subst this
    simp [eraseV, vrefs] at hx
  · exact g.roots y (mem_refs_acc (by simpa [rootsOf] using hy))
  · exact g.roots y (by
      simp only [Heap.Roots.refs, rootsOf, List.mem_append, List.mem_cons, List.not_mem_nil, or_false]
      exact .inr hy)

/-- every heap an evaluation started in `s0` produces — by instructions, collections, and the collection that ends
    the success / error epilogue — has at most `2^62` cells -/
structure EvalSizeBounded (ext : ExtOps) (force : Bool) (s0 : St CHeap) : Prop where
  run : SizeBounded (machine ext force) s0
  done : ∀ sd, Reaches (machine ext force) s0 sd → Small (cgc force (onDone sd)).heap
  error : ∀ sd, Reaches (machine ext force) s0 sd → Small (cgc force (onError sd)).heap

variable {ext : ExtOps} {ecl : ExtCodeLawsV ext}

/-- **`GcOk` at every collection point of an evaluation**, from the invariant of the state it started in -/
theorem gcOk_of_cpFrom (force : Bool) (el : ExtLaws ext) (eg : ExtGood ext) (ep : ExtProc ext) (ecp : ExtCodePlain ext)
    {s0 : St CHeap} (h0 : VmOkP ext ecl s0) (cp0 : CodePlain s0.heap) (sb : EvalSizeBounded ext force s0)
    {x : St CHeap} (hx : CpFrom ext force s0 x) : GcOk force x := by
  obtain ⟨sd, hr, hx⟩ := hx
  have g : GoodI sd := (vmOkP_reaches force el eg ep h0 sb.run sd hr).1.1
  have cp : CodePlain sd.heap := codePlain_reaches force ecp cp0 sd hr
  rcases hx with rfl | rfl | rfl
  · exact ⟨g, cp, sb.run _ (.gc hr)⟩
  · exact ⟨onDone_goodI g, cp, sb.done sd hr⟩
  · exact ⟨onError_goodI g, cp, sb.error sd hr⟩

end Marwood.Lemmas.PolicySessionOk
