import Marwood.Lemmas.CompileCorrect
/-!
# T01.3 — `quote` of compound data (pairs, vectors, nested), over the generic heap

`compile_quote` puts the constant on the heap at compile time (`put_cell`) and emits
`MOV-IMMEDIATE <pointer> %acc`; `Spec.Eval.quoteVal` allocates the pairs and vectors of the datum in the store
at every evaluation. So one heap object represents every copy the specification makes: the representation
relation is many-to-one, which is sound as long as nothing mutates a constant (R7RS: "it is an error").

Route chosen (the cheaper one): the generic heap with a *minimal extension of the laws* rather than
`concreteOps` — `Machine.lean` makes vector payloads opaque, so one observation `vecElems` (the element cells
of the vector a machine value denotes) is a parameter, and `QuoteLaws` asks of the representation `D.VR`
exactly the two closure properties (a heap pair whose car/cdr represent `a`/`d` represents a store pair
`(a . d)`; likewise vectors) plus monotonicity in the store (`quoteVal` only appends cells).

* `DatumAt` — the datum `d` sits in the heap at machine value `v` (what `put_cell` builds);
* `quote_rep` — then `v` represents the value of `quoteVal d` in the store `quoteVal` leaves, which extends
  the old one; globals and output are unchanged;
* `run_quote` — the instruction: `ExprRun` for `(quote d)` / a self-evaluating vector, any datum `d`;
* `ClosedVR` — the least relation containing a base relation and closed under the two rules satisfies
  `QuoteLaws` (so the laws are satisfiable whenever the base is store-independent).
-/
namespace Marwood.Lemmas.CompileCorrect
open Marwood Marwood.Vm
open Marwood.Spec.Eval (Val Prim Cell evalN evalStep quoteVal quoteElems)

variable {H : Type} {ops : HeapOps H}

/-- every cell of `S` is still in `S'` -/
def StorePrefix (S S' : Array Cell) : Prop := ∀ (l : Nat) (c : Cell), S[l]? = some c → S'[l]? = some c

theorem StorePrefix.refl (S : Array Cell) : StorePrefix S S := fun _ _ h => h
theorem StorePrefix.trans {a b c : Array Cell} (h1 : StorePrefix a b) (h2 : StorePrefix b c) : StorePrefix a c :=
  fun l x h => h2 l x (h1 l x h)
theorem StorePrefix.push (S : Array Cell) (c : Cell) : StorePrefix S (S.push c) := by
  intro l x h
  have hlt : l < S.size := by
    rcases Nat.lt_or_ge l S.size with h1 | h1
    · exact h1
    · simp [Array.getElem?_eq_none h1] at h
  simp [Array.getElem?_push, Nat.ne_of_lt hlt, h]

structure QuoteLaws (D : RepData ops) (vecElems : H → VCell → Option (List VCell)) : Prop where
  vr_pair : ∀ h S v (l : Nat) a d pa pd, S[l]? = some (.pair a d) → ops.deref h v = .pair pa pd →
    D.VR h S (.ptr pa) a → D.VR h S (.ptr pd) d → D.VR h S v (.pair l)
  vr_vec : ∀ h S v (l : Nat) xs ps, S[l]? = some (.vec xs) → vecElems h v = some ps → All2 (D.VR h S) ps xs →
    D.VR h S v (.vec l)
  vr_store : ∀ h S S' v w, StorePrefix S S' → D.VR h S v w → D.VR h S' v w
  srx_store : ∀ h S S', StorePrefix S S' → D.SRx h S → D.SRx h S'

mutual
/-- the datum `d` as `put_cell` lays it out, reachable from the machine value `v` (atoms are represented
    relative to the store `S`) -/
inductive DatumAt (D : RepData ops) (vecElems : H → VCell → Option (List VCell)) (h : H) (S : Array Cell) :
    VCell → Datum → Prop
  | atom {v d w} : atomVal d = some w → D.VR h S v w → DatumAt D vecElems h S v d
  | pair {v a d pa pd} : ops.deref h v = .pair pa pd → DatumAt D vecElems h S (.ptr pa) a →
      DatumAt D vecElems h S (.ptr pd) d → DatumAt D vecElems h S v (.pair a d)
  | vec {v e ps} : vecElems h v = some ps → DatumsAt D vecElems h S ps e → DatumAt D vecElems h S v (.vec e)
/-- the elements of a vector datum (a pair/nil spine) -/
inductive DatumsAt (D : RepData ops) (vecElems : H → VCell → Option (List VCell)) (h : H) (S : Array Cell) :
    List VCell → Datum → Prop
  | nil {t} : (∀ a d, t ≠ .pair a d) → DatumsAt D vecElems h S [] t
  | cons {p ps a d} : DatumAt D vecElems h S p a → DatumsAt D vecElems h S ps d →
      DatumsAt D vecElems h S (p :: ps) (.pair a d)
end

mutual
/-- a laid-out datum is still there in a later heap and store, if those keep the representations of atoms and
    what `heap.get` / the vector payloads show -/
theorem DatumAt.transport {D : RepData ops} {vecElems : H → VCell → Option (List VCell)} {h h' : H}
    {S S' : Array Cell} (fv : ∀ v w, D.VR h S v w → D.VR h' S' v w)
    (fd : ∀ v a d, ops.deref h v = .pair a d → ops.deref h' v = .pair a d)
    (fe : ∀ v ps, vecElems h v = some ps → vecElems h' v = some ps) :
    ∀ {v d}, DatumAt D vecElems h S v d → DatumAt D vecElems h' S' v d
  | _, _, .atom ha hv => .atom ha (fv _ _ hv)
  | _, _, .pair hd h1 h2 => .pair (fd _ _ _ hd) (DatumAt.transport fv fd fe h1) (DatumAt.transport fv fd fe h2)
  | _, _, .vec he hs => .vec (fe _ _ he) (DatumsAt.transport fv fd fe hs)
theorem DatumsAt.transport {D : RepData ops} {vecElems : H → VCell → Option (List VCell)} {h h' : H}
    {S S' : Array Cell} (fv : ∀ v w, D.VR h S v w → D.VR h' S' v w)
    (fd : ∀ v a d, ops.deref h v = .pair a d → ops.deref h' v = .pair a d)
    (fe : ∀ v ps, vecElems h v = some ps → vecElems h' v = some ps) :
    ∀ {ps d}, DatumsAt D vecElems h S ps d → DatumsAt D vecElems h' S' ps d
  | _, _, .nil hn => .nil hn
  | _, _, .cons h1 h2 => .cons (DatumAt.transport fv fd fe h1) (DatumsAt.transport fv fd fe h2)
end

/-- what quoting leaves: the store grew, nothing else changed -/
structure QuoteEffect (σ σ' : SSt) : Prop where
  store : StorePrefix σ.store σ'.store
  globals : σ'.globals = σ.globals
  out : σ'.out = σ.out

theorem QuoteEffect.refl (σ : SSt) : QuoteEffect σ σ := ⟨StorePrefix.refl _, rfl, rfl⟩
theorem QuoteEffect.trans {a b c : SSt} (h1 : QuoteEffect a b) (h2 : QuoteEffect b c) : QuoteEffect a c :=
  ⟨h1.store.trans h2.store, h2.globals.trans h1.globals, h2.out.trans h1.out⟩

open Marwood.Spec.Eval in
theorem allocCell_ok_inv {c : Cell} {σ σ' : SSt} {l : Nat} (h : allocCell c σ = .ok l σ') :
    l = σ.store.size ∧ σ'.store = σ.store.push c ∧ QuoteEffect σ σ' := by
  unfold allocCell at h
  injection h with h1 h2
  subst h1 h2
  exact ⟨rfl, rfl, ⟨StorePrefix.push _ _, rfl, rfl⟩⟩

theorem All2.mono' {α β : Type} {R R' : α → β → Prop} {l : List α} {l' : List β}
    (f : ∀ a b, R a b → R' a b) (h : All2 R l l') : All2 R' l l' := All2.mono f h

variable {D : RepData ops} {vecElems : H → VCell → Option (List VCell)}

/-- both statements at once, by induction on the datum -/
theorem quote_rep_both (Q : QuoteLaws D vecElems) (h : H) (S0 : Array Cell) (d : Datum) :
    (∀ v (σ : SSt) w σ', StorePrefix S0 σ.store → DatumAt D vecElems h S0 v d → quoteVal d σ = .ok w σ' →
      D.VR h σ'.store v w ∧ QuoteEffect σ σ') ∧
    (∀ ps (σ : SSt) xs σ', StorePrefix S0 σ.store → DatumsAt D vecElems h S0 ps d → quoteElems d σ = .ok xs σ' →
      All2 (D.VR h σ'.store) ps xs ∧ QuoteEffect σ σ') := by
  have atomCase : ∀ d, (∀ a b, d ≠ .pair a b) → (∀ e, d ≠ .vec e) →
      ∀ v (σ : SSt) w σ', StorePrefix S0 σ.store → DatumAt D vecElems h S0 v d → quoteVal d σ = .ok w σ' →
        D.VR h σ'.store v w ∧ QuoteEffect σ σ' := by
    intro d hnp hnv v σ w σ' hpre hd hq
    cases hd with
    | atom ha hv =>
      obtain ⟨ha', rfl⟩ := quoteVal_atom (.inl (by rw [ha]; rfl)) hq
      rw [ha] at ha'; cases ha'
      exact ⟨Q.vr_store _ _ _ _ _ hpre hv, QuoteEffect.refl _⟩
    | pair _ _ _ => exact absurd rfl (hnp _ _)
    | vec _ _ => exact absurd rfl (hnv _)
  have elemsNil : ∀ d, (∀ a b, d ≠ .pair a b) → ∀ ps (σ : SSt) xs σ', StorePrefix S0 σ.store →
      DatumsAt D vecElems h S0 ps d →
      quoteElems d σ = .ok xs σ' → All2 (D.VR h σ'.store) ps xs ∧ QuoteEffect σ σ' := by
    intro d hnp ps σ xs σ' _ hd hq
    cases hd with
    | nil _ =>
      have : quoteElems d σ = (pure [] : Spec.Eval.M _) σ := by
        cases d <;> first | rfl | exact absurd rfl (hnp _ _)
      rw [this] at hq
      obtain ⟨rfl, rfl⟩ := pure_ok_inv hq
      exact ⟨.nil, QuoteEffect.refl _⟩
    | cons _ _ => exact absurd rfl (hnp _ _)
  induction d with
  | pair a d iha ihd =>
    refine ⟨?_, ?_⟩
    · intro v σ w σ' hpre hd hq
      cases hd with
      | atom ha _ => simp [atomVal] at ha
      | pair hder h1 h2 =>
        unfold quoteVal at hq
        obtain ⟨a', σ1, q1, hq⟩ := bind_ok_inv hq
        obtain ⟨d', σ2, q2, hq⟩ := bind_ok_inv hq
        change (Spec.Eval.allocCell (.pair a' d') >>= fun l => pure (Val.pair l)) σ2 = _ at hq
        obtain ⟨l, σ3, q3, hq⟩ := bind_ok_inv hq
        obtain ⟨rfl, rfl⟩ := pure_ok_inv hq
        obtain ⟨r1, e1⟩ := iha.1 _ _ _ _ hpre h1 q1
        obtain ⟨r2, e2⟩ := ihd.1 _ _ _ _ (hpre.trans e1.store) h2 q2
        obtain ⟨rfl, hst, e3⟩ := allocCell_ok_inv q3
        refine ⟨?_, (e1.trans e2).trans e3⟩
        refine Q.vr_pair h _ v _ a' d' _ _ (by rw [hst]; simp) hder ?_ ?_
        · exact Q.vr_store _ _ _ _ _ (e2.store.trans e3.store) r1
        · exact Q.vr_store _ _ _ _ _ e3.store r2
    · intro ps σ xs σ' hpre hd hq
      cases hd with
      | nil hn => exact absurd rfl (hn _ _)
      | cons h1 h2 =>
        unfold quoteElems at hq
        obtain ⟨a', σ1, q1, hq⟩ := bind_ok_inv hq
        obtain ⟨d', σ2, q2, hq⟩ := bind_ok_inv hq
        obtain ⟨rfl, rfl⟩ := pure_ok_inv hq
        obtain ⟨r1, e1⟩ := iha.1 _ _ _ _ hpre h1 q1
        obtain ⟨r2, e2⟩ := ihd.2 _ _ _ _ (hpre.trans e1.store) h2 q2
        exact ⟨.cons (Q.vr_store _ _ _ _ _ e2.store r1) r2, e1.trans e2⟩
  | vec e ihe =>
    refine ⟨?_, elemsNil _ (by intro a b x; cases x)⟩
    intro v σ w σ' hpre hd hq
    cases hd with
    | atom ha _ => simp [atomVal] at ha
    | vec hve hes =>
      unfold quoteVal at hq
      obtain ⟨xs, σ1, q1, hq⟩ := bind_ok_inv hq
      change (Spec.Eval.allocCell (.vec xs) >>= fun l => pure (Val.vec l)) σ1 = _ at hq
      obtain ⟨l, σ2, q2, hq⟩ := bind_ok_inv hq
      obtain ⟨rfl, rfl⟩ := pure_ok_inv hq
      obtain ⟨r1, e1⟩ := ihe.2 _ _ _ _ hpre hes q1
      obtain ⟨rfl, hst, e2⟩ := allocCell_ok_inv q2
      refine ⟨Q.vr_vec h _ v _ xs _ (by rw [hst]; simp) hve ?_, e1.trans e2⟩
      exact All2.mono (fun a b x => Q.vr_store _ _ _ _ _ e2.store x) r1
  | bool b => exact ⟨atomCase _ (by intro a b x; cases x) (by intro e x; cases x), elemsNil _ (by intro a b x; cases x)⟩
  | char c => exact ⟨atomCase _ (by intro a b x; cases x) (by intro e x; cases x), elemsNil _ (by intro a b x; cases x)⟩
  | nil => exact ⟨atomCase _ (by intro a b x; cases x) (by intro e x; cases x), elemsNil _ (by intro a b x; cases x)⟩
  | num n => exact ⟨atomCase _ (by intro a b x; cases x) (by intro e x; cases x), elemsNil _ (by intro a b x; cases x)⟩
  | str s => exact ⟨atomCase _ (by intro a b x; cases x) (by intro e x; cases x), elemsNil _ (by intro a b x; cases x)⟩
  | sym s => exact ⟨atomCase _ (by intro a b x; cases x) (by intro e x; cases x), elemsNil _ (by intro a b x; cases x)⟩
  | void => exact ⟨atomCase _ (by intro a b x; cases x) (by intro e x; cases x), elemsNil _ (by intro a b x; cases x)⟩
  | undefined => exact ⟨atomCase _ (by intro a b x; cases x) (by intro e x; cases x), elemsNil _ (by intro a b x; cases x)⟩
  | procedure p => exact ⟨atomCase _ (by intro a b x; cases x) (by intro e x; cases x), elemsNil _ (by intro a b x; cases x)⟩
  | macro_ => exact ⟨atomCase _ (by intro a b x; cases x) (by intro e x; cases x), elemsNil _ (by intro a b x; cases x)⟩
  | continuation => exact ⟨atomCase _ (by intro a b x; cases x) (by intro e x; cases x), elemsNil _ (by intro a b x; cases x)⟩

/-- **Quoted constants.** If the datum `d` sits in the heap at `v`, then `v` represents the value
    `quoteVal d` returns, in the store it leaves; that store extends the old one, nothing else changed. -/
theorem quote_rep (Q : QuoteLaws D vecElems) {h : H} {d : Datum} {v : VCell} {σ σ' : SSt} {w : Val}
    (hd : DatumAt D vecElems h σ.store v d) (hq : quoteVal d σ = .ok w σ') :
    D.VR h σ'.store v w ∧ QuoteEffect σ σ' :=
  (quote_rep_both Q h σ.store d).1 v σ w σ' (StorePrefix.refl _) hd hq

/-- the represented state after quoting -/
theorem SR.quoteEffect (Q : QuoteLaws D vecElems) {h : H} {σ σ' : SSt} (hsr : SR D h σ) (e : QuoteEffect σ σ') :
    SR D h σ' :=
  ⟨fun x w hn hl => Q.vr_store _ _ _ _ _ e.store (hsr.bound x w hn (e.globals ▸ hl)),
   fun x hn hl => hsr.unbound x hn (e.globals ▸ hl), Q.srx_store _ _ _ e.store hsr.extra⟩

/-- **`(quote d)`, any datum** (also a self-evaluating vector constant): `MOV-IMMEDIATE <v> %acc` where the
    operand cell `v` is where `put_cell` laid `d` out. -/
theorem run_quote (Q : QuoteLaws D vecElems) {s : MSt H} {σ σ' : SSt} {w : Val} {d : Datum} {v : VCell}
    (hl : ops.isLambda s.heap s.ipL = true)
    (h0 : ops.fetch s.heap s.ipL s.ipO = some (.opcode .movImm))
    (h1 : ops.fetch s.heap s.ipL (s.ipO + 1) = some v) (hv : ∀ o, v ≠ .opcode o)
    (h2 : ops.fetch s.heap s.ipL (s.ipO + 2) = some .acc)
    (hd : DatumAt D vecElems s.heap σ.store v d) (hq : quoteVal d σ = .ok w σ')
    (hsr : SR D s.heap σ) (hw : SWF s.stack) :
    ∃ s', ExprRun D s 3 σ σ' w s' := by
  obtain ⟨hvr, eff⟩ := quote_rep Q hd hq
  have hs := step_movImm_acc hl h0 h1 hv h2
  exact ⟨_, ⟨Steps.one hs, rfl, rfl, rfl, rfl, LiveEq.refl _, hw, hvr, SR.quoteEffect Q hsr eff,
    ⟨fun a b x => Q.vr_store _ _ _ _ _ eff.store x, fun x => x, fun _ _ => rfl⟩⟩⟩

/-- the same against `evalStep` of the form `(quote d)` -/
theorem run_quote_form (Q : QuoteLaws D vecElems) {s : MSt H} {σ σ' : SSt} {w : Val} {d rest : Datum} {v : VCell}
    {r : Spec.Eval.Rec} {ρ : Spec.Eval.Env}
    (hl : ops.isLambda s.heap s.ipL = true)
    (h0 : ops.fetch s.heap s.ipL s.ipO = some (.opcode .movImm))
    (h1 : ops.fetch s.heap s.ipL (s.ipO + 1) = some v) (hv : ∀ o, v ≠ .opcode o)
    (h2 : ops.fetch s.heap s.ipL (s.ipO + 2) = some .acc)
    (hd : DatumAt D vecElems s.heap σ.store v d)
    (hq : evalStep r (.pair (.sym Spec.Eval.k_quote) (.pair d rest)) ρ σ = .ok w σ')
    (hsr : SR D s.heap σ) (hw : SWF s.stack) :
    ∃ s', ExprRun D s 3 σ σ' w s' := by
  rw [evalStep_quote] at hq
  exact run_quote Q hl h0 h1 hv h2 hd hq hsr hw

/-! ## the laws are satisfiable: closing a store-independent base relation under the two rules -/

/-- the least relation containing `base` (which ignores the store) and closed under "a heap pair / vector
    whose components represent … represents the store pair / vector" -/
inductive ClosedVR (ops : HeapOps H) (vecElems : H → VCell → Option (List VCell))
    (base : H → VCell → Val → Prop) (h : H) (S : Array Cell) : VCell → Val → Prop
  | base {v w} : base h v w → ClosedVR ops vecElems base h S v w
  | pair {v l a d pa pd} : S[l]? = some (.pair a d) → ops.deref h v = .pair pa pd →
      ClosedVR ops vecElems base h S (.ptr pa) a → ClosedVR ops vecElems base h S (.ptr pd) d →
      ClosedVR ops vecElems base h S v (.pair l)
  | vec {v l xs ps} : S[l]? = some (.vec xs) → vecElems h v = some ps →
      All2 (ClosedVR ops vecElems base h S) ps xs → ClosedVR ops vecElems base h S v (.vec l)

mutual
theorem ClosedVR.store {vecElems : H → VCell → Option (List VCell)} {base : H → VCell → Val → Prop} {h : H}
    {S S' : Array Cell} (hp : StorePrefix S S') :
    ∀ {v w}, ClosedVR ops vecElems base h S v w → ClosedVR ops vecElems base h S' v w
  | _, _, .base hb => .base hb
  | _, _, .pair hs hd h1 h2 => .pair (hp _ _ hs) hd (ClosedVR.store hp h1) (ClosedVR.store hp h2)
  | _, _, .vec hs hv hall => .vec (hp _ _ hs) hv (ClosedVR.storeAll hp hall)
theorem ClosedVR.storeAll {vecElems : H → VCell → Option (List VCell)} {base : H → VCell → Val → Prop} {h : H}
    {S S' : Array Cell} (hp : StorePrefix S S') :
    ∀ {ps xs}, All2 (ClosedVR ops vecElems base h S) ps xs → All2 (ClosedVR ops vecElems base h S') ps xs
  | _, _, .nil => .nil
  | _, _, .cons a t => .cons (ClosedVR.store hp a) (ClosedVR.storeAll hp t)
end

mutual
/-- the closure is still there in a later heap and store that keep the base relation, what `heap.get` shows of
    pairs, the vector payloads, and the pair / vector cells of the store -/
theorem ClosedVR.transport {vecElems : H → VCell → Option (List VCell)} {base : H → VCell → Val → Prop} {h h' : H}
    {S S' : Array Cell} (fb : ∀ v w, base h v w → base h' v w)
    (fd : ∀ v a d, ops.deref h v = .pair a d → ops.deref h' v = .pair a d)
    (fe : ∀ v ps, vecElems h v = some ps → vecElems h' v = some ps)
    (keep : ∀ (l : Nat) (c : Cell), S[l]? = some c → (∀ v, c ≠ .var v) → S'[l]? = some c) :
    ∀ {v w}, ClosedVR ops vecElems base h S v w → ClosedVR ops vecElems base h' S' v w
  | _, _, .base hb => .base (fb _ _ hb)
  | _, _, .pair hs hd h1 h2 =>
    .pair (keep _ _ hs (by intro v e; cases e)) (fd _ _ _ hd) (ClosedVR.transport fb fd fe keep h1)
      (ClosedVR.transport fb fd fe keep h2)
  | _, _, .vec hs hv hall =>
    .vec (keep _ _ hs (by intro v e; cases e)) (fe _ _ hv) (ClosedVR.transportAll fb fd fe keep hall)
theorem ClosedVR.transportAll {vecElems : H → VCell → Option (List VCell)} {base : H → VCell → Val → Prop}
    {h h' : H} {S S' : Array Cell} (fb : ∀ v w, base h v w → base h' v w)
    (fd : ∀ v a d, ops.deref h v = .pair a d → ops.deref h' v = .pair a d)
    (fe : ∀ v ps, vecElems h v = some ps → vecElems h' v = some ps)
    (keep : ∀ (l : Nat) (c : Cell), S[l]? = some c → (∀ v, c ≠ .var v) → S'[l]? = some c) :
    ∀ {ps xs}, All2 (ClosedVR ops vecElems base h S) ps xs → All2 (ClosedVR ops vecElems base h' S') ps xs
  | _, _, .nil => .nil
  | _, _, .cons a t => .cons (ClosedVR.transport fb fd fe keep a) (ClosedVR.transportAll fb fd fe keep t)
end

/-- `QuoteLaws` hold for the closure of any store-independent base relation (with any heap invariant that
    ignores the store) -/
theorem closedVR_quoteLaws (vecElems : H → VCell → Option (List VCell)) (base : H → VCell → Val → Prop)
    (named : Text → Prop) (slot : Text → Nat) (inv : H → Prop) :
    QuoteLaws (ops := ops) ⟨named, slot, ClosedVR ops vecElems base, fun h _ => inv h⟩ vecElems where
  vr_pair := fun _ _ _ _ _ _ _ _ hs hd h1 h2 => .pair hs hd h1 h2
  vr_vec := fun _ _ _ _ _ _ hs hv hall => .vec hs hv hall
  vr_store := fun _ _ _ _ _ hp x => ClosedVR.store hp x
  srx_store := fun _ _ _ _ x => x

end Marwood.Lemmas.CompileCorrect
