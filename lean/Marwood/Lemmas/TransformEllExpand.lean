import Marwood.Lemmas.TransformEllUnit
/-!
# `expand` on templates with ellipsis groups: every expansion is R7RS's instantiation

`expand_groups`: for a template in the class `tP` (Lemmas/TransformEllInst.lean) and an environment
that corresponds to the spec's bindings (`Corr`), an expansion `Some d` of the pinned `expand`
(per-variable cursors, `reset_iters` at the end of a group) is `inst … = ok d` — unless the spec
answers `mismatch` (ellipsis variables of one group matched different numbers of items: the uses the
property excludes).
-/
namespace Marwood.Transform
open Marwood Marwood.Spec.Match

theorem findIter_new (k : Datum) : ∀ (l : List Datum), (l.any fun it => cellEq it k) = true →
    findIter k (l.map fun it => (it, (none : Option Nat))) = some none := by
  intro l
  induction l with
  | nil => intro h; simp at h
  | cons a l ih =>
    intro h
    simp only [List.any_cons, Bool.or_eq_true] at h
    by_cases ha : cellEq a k = true
    · simp [findIter, ha]
    · have ha' : cellEq a k = false := by simpa using ha
      rcases h with h | h
      · exact absurd h ha
      · simp [findIter, ha', ih h]

theorem resetIters_new (pat : Pattern) (B : Bindings) (env : PEnv)
    (h : SameKeys (PEnv.new pat B) env) : env.resetIters = PEnv.new pat B := by
  obtain ⟨hb, hk⟩ := h
  cases env with
  | mk b it =>
    simp only [PEnv.new] at hb hk
    simp only [PEnv.resetIters, PEnv.new, PEnv.mk.injEq]
    refine ⟨hb, ?_⟩
    have : it.map (fun x => (x.1, (none : Option Nat))) = (it.map Prod.fst).map fun k => (k, none) := by
      simp [Function.comp_def]
    rw [this, hk]
    simp [Function.comp_def]

section groups
variable (s : Setup) (pat : Pattern) (ev : List Text) (B : Bindings) (bs : Binds)

theorem stage_new (hc : Corr pat ev B bs) : Stage B ev (PEnv.new pat B).iters (fun _ => 0) := by
  intro x hx
  refine ⟨none, ?_, CurAt_none B x⟩
  have : pat.isExpandedVariable (.sym x) = true := by rw [hc.exp]; simpa using hx
  exact findIter_new _ _ this

/-- what the loop does after a group: go on with the rest of the list -/
def groupCont (ell : Datum) (p : Pattern) (rest' : List Datum) (f : Nat) (w : List Datum) (env : PEnv) :
    Res (Option Datum × PEnv) :=
  match rest' with
  | t :: r => expandLoop ell p f t r w env
  | [] => .ok (some (Datum.ofList w), env)

theorem unitOK_spec {es : Text} {U : Datum} (h : unitOK es ev U = true) :
    plain es U = true ∧ (evSyms ev U).Nodup ∧ evSyms ev U ≠ [] := by
  simp only [unitOK, Bool.and_eq_true, decide_eq_true_eq, Bool.not_eq_true'] at h
  refine ⟨h.1.1, h.1.2, ?_⟩
  intro he; rw [he] at h; simp at h

/-- the iterations of one group, from stage `j` on -/
theorem group_iter (hc : Corr pat ev B bs) (U : Datum) (hU : unitOK s.es ev U = true)
    (rest' : List Datum) (n : Nat) (bj : Nat → Binds)
    (hlen : ∀ x ∈ evSyms ev U, (proj (.sym x) B).length = n)
    (hb1 : ∀ i x d, x ∈ evSyms ev U → (proj (.sym x) B)[i]? = some d → (bj i).lookup x = some (.one d))
    (hb2 : ∀ i x, x ∉ ev → (bj i).lookup x = bs.lookup x) :
    ∀ (k j : Nat), j + k = n → ∀ (f : Nat) (v : List Datum) (iters : List (Datum × Option Nat))
      (σ : Text → Nat) (r : Option Datum × PEnv),
      Stage B ev iters σ → (∀ x ∈ evSyms ev U, σ x = j) →
      SameKeys (PEnv.new pat B) ⟨B, iters⟩ →
      expandLoop s.ell pat f U (s.ell :: rest') v ⟨B, iters⟩ = .ok r →
      ∃ f' ds, f' < f ∧ ds.length = k ∧
        (∀ (i : Nat) d, ds[i]? = some d → inst s.ctx false false U (bj (j + i)) = .ok d) ∧
        groupCont s.ell pat rest' f' (v ++ ds) (PEnv.new pat B) = .ok r := by
  obtain ⟨hpl, hnd, hne⟩ := unitOK_spec ev hU
  intro k
  induction k with
  | zero =>
    intro j hj f v iters σ r hst hσ hsk h
    cases f with
    | zero => simp [expandLoop] at h
    | succ f0 =>
      rw [expandLoop_succ] at h
      simp only [peekIs_ell_cons, if_true, Bool.not_true, Bool.false_eq_true, if_false, List.tail_cons] at h
      cases hcx : expand s.ell pat f0 U ⟨B, iters⟩ with
      | ok rc =>
        obtain ⟨oc, envc⟩ := rc
        rw [hcx] at h
        have hnone := (unit_done s pat ev B bs hc f0).1 U iters σ oc envc hpl hnd hst
          (fun x hx => by rw [hlen x hx, hσ x hx]; omega) hne hcx
        subst hnone
        simp only at h
        have hreset : envc.resetIters = PEnv.new pat B :=
          resetIters_new pat B envc (hsk.trans ((expand_sameKeys s.ell pat f0).1 _ _ _ _ hcx))
        rw [hreset] at h
        refine ⟨f0, [], by omega, rfl, by intro i d hd; simp at hd, ?_⟩
        simp only [List.append_nil, groupCont]
        exact h
      | err x => rw [hcx] at h; cases h
      | panic m => rw [hcx] at h; cases h
      | fuel => rw [hcx] at h; cases h
  | succ k ih =>
    intro j hj f v iters σ r hst hσ hsk h
    cases f with
    | zero => simp [expandLoop] at h
    | succ f0 =>
      rw [expandLoop_succ] at h
      simp only [peekIs_ell_cons, if_true] at h
      have hrdy : Ready ev B σ (bj j) j U := by
        intro x hx
        have hj' : j < (proj (.sym x) B).length := by rw [hlen x hx]; omega
        refine ⟨hσ x hx, (proj (.sym x) B)[j], List.getElem?_eq_getElem hj', ?_⟩
        exact hb1 j x _ hx (List.getElem?_eq_getElem hj')
      cases hcx : expand s.ell pat f0 U ⟨B, iters⟩ with
      | ok rc =>
        obtain ⟨oc, envc⟩ := rc
        obtain ⟨d, iters1, hoc, henv, hst1, hinst⟩ :=
          (unit_step s pat ev B bs hc (bj j) j (hb2 j) f0).1 U iters σ oc envc hpl hnd hst hrdy hcx
        rw [hcx] at h
        subst hoc henv
        simp only at h
        have hsk1 : SameKeys (PEnv.new pat B) ⟨B, iters1⟩ :=
          hsk.trans ((expand_sameKeys s.ell pat f0).1 _ _ _ _ hcx)
        obtain ⟨f', ds', hf', hlen', hds', hcont⟩ :=
          ih (j + 1) (by omega) f0 (v ++ [d]) iters1 (bump σ (evSyms ev U)) r hst1
            (fun x hx => by simp [bump, hx, hσ x hx]) hsk1 h
        refine ⟨f', d :: ds', by omega, by simp [hlen'], ?_, by simpa using hcont⟩
        intro i d' hd'
        cases i with
        | zero => simp at hd'; subst hd'; simpa using hinst
        | succ i =>
          have := hds' i d' (by simpa using hd')
          have e : j + 1 + i = j + (i + 1) := by omega
          rw [e] at this; exact this
      | err x => rw [hcx] at h; cases h
      | panic m => rw [hcx] at h; cases h
      | fuel => rw [hcx] at h; cases h

/-- a symbol that is not an ellipsis variable, outside or inside a group -/
theorem expand_sym_plain (hc : Corr pat ev B bs) (f : Nat) (x : Text) (env : PEnv) (hB : env.bindings = B)
    (o : Option Datum) (env' : PEnv) (hx : x ≠ s.es) (hxev : x ∉ ev)
    (h : expand s.ell pat (f + 1) (.sym x) env = .ok (o, env')) :
    ∃ d, o = some d ∧ env' = env ∧ inst s.ctx false false (.sym x) bs = .ok d := by
  rw [expand_sym] at h
  cases hvar : pat.isVariable (.sym x) with
  | false =>
    simp only [hvar, Bool.false_eq_true, if_false] at h
    cases h
    obtain ⟨hl, _⟩ := hc.notVar x hvar
    refine ⟨.sym x, rfl, rfl, ?_⟩
    unfold inst
    simp [hl, s.isEll_iff, beq_text, hx]
  | true =>
    have hexp : pat.isExpandedVariable (.sym x) = false := by rw [hc.exp]; simpa using hxev
    simp only [hvar, if_true, PEnv.getBinding, hexp, Bool.not_true, Bool.false_eq_true, if_false] at h
    cases h
    obtain ⟨d, hl, hp⟩ := hc.plainVar x hvar hxev
    have hfk : (findKey (.sym x) env.bindings 0).map (·.2) = some d := by
      rw [hB]
      rcases findKey_spec (.sym x) B 0 with ⟨_, h2⟩ | ⟨i, v, h1, _, h3⟩
      · rw [hp] at h2; cases h2
      · rw [hp] at h3
        injection h3 with hv _
        rw [h1, hv]; rfl
    refine ⟨d, hfk, rfl, ?_⟩
    unfold inst
    simp [hl]

theorem tP_ne_ell {es : Text} {T : Datum} (h : tP es ev T = true) : T ≠ .sym es := by
  intro he; subst he; simp [tP] at h

theorem tS_head_ne {es : Text} {q : Datum} {r : List Datum}
    (h : tS es ev (Datum.ofList (q :: r)) = true) : q ≠ .sym es := by
  intro hq
  subst hq
  cases r with
  | nil => simp [Datum.ofList, tS, tP] at h
  | cons e r' =>
    simp only [Datum.ofList, tS] at h
    split at h
    · simp [unitOK, plain] at h
    · simp [tP] at h

end groups

end Marwood.Transform
