import Marwood.Lemmas.PolicyGc
import Marwood.Lemmas.HeapWF
/-!
# T12.1 read on the heap *after* the collection

On a well-formed heap the cells reachable from the roots are the same before and after `run_gc` (their
contents are unchanged, and growth adds only free cells nobody points at), the post-collection heap is
again plain, and so "allocated ⇔ reachable" can be stated about the post-collection heap alone.
-/
namespace Marwood.Lemmas.PolicyAfter
open Marwood Marwood.Heap Marwood.Spec Marwood.Lemmas.GcSafety Marwood.Lemmas.HeapOps
open Marwood.Lemmas.HeapWF Marwood.Lemmas.PolicyGc Marwood.Lemmas.PolicyPlain

theorem reachable_after_iff (fixed : Bool) (h : Heap) (roots : List Nat) (h' : Heap)
    (wf : WFHeap fixed h) (hr : RootsOk h roots) (hb : h'.cells.size ≤ 2 ^ 63)
    (gs : GcSpec fixed h roots h') (x : Nat) :
    Reachable fixed h' roots x ↔ Reachable fixed h roots x := by
  have hszle : h.gc.size ≤ h'.gc.size := by rw [gs.sizes, wf.sizes]; exact gs.size_le
  have hsent : ∀ y, y < h'.gc.size → ¬ Sentinel y := by
    intro y hy; unfold Sentinel; rw [gs.sizes] at hy; omega
  constructor
  · intro hx
    induction hx with
    | root hm hl =>
      rcases hr _ hm with h1 | h1
      · exact Reach.root hm (nonFree_lt h1)
      · exact absurd h1 (hsent _ hl)
    | step _ hc hl ih =>
      rename_i a b _
      have hcell := gs.cells_reach a ih
      rw [children_congr fixed h h' a hcell] at hc
      have hnf := reachable_nonFree fixed h roots wf.toWFCore hr a ih
      rcases wf.closed a hnf b hc with h1 | h1
      · exact Reach.step ih hc (nonFree_lt h1)
      · exact absurd h1 (hsent _ hl)
  · intro hx
    induction hx with
    | root hm hl => exact Reach.root hm (by omega)
    | step hxa hc hl ih =>
      rename_i a b
      have hcell := gs.cells_reach a hxa
      rw [← children_congr fixed h h' a hcell] at hc
      exact Reach.step ih hc (by omega)

/-- the heap left by a collection of a plain well-formed heap is plain -/
theorem plain_after (h : Heap) (roots : List Nat) (h' : Heap) (wf' : WFHeap true h')
    (gs : GcSpec true h roots h') (hp : plainHeap h = true) : plainHeap h' = true := by
  unfold plainHeap at *
  rw [List.all_eq_true] at *
  intro c hc
  obtain ⟨i, hi, rfl⟩ := Array.mem_iff_getElem.mp (Array.mem_toList_iff.mp hc)
  by_cases hx : Reachable true h roots i
  · have hcell := gs.cells_reach i hx
    rw [Array.getElem?_eq_getElem hi] at hcell
    have hlt : i < h.cells.size := lt_of_getElem?_eq_some hcell.symm
    rw [Array.getElem?_eq_getElem hlt] at hcell
    rw [Option.some.inj hcell]
    exact hp _ (Array.mem_toList_iff.mpr (Array.getElem_mem hlt))
  · have hfree := gs.gc_unreach i hi hx
    have hu := wf'.free_undef i hfree
    rw [Array.getElem?_eq_getElem hi] at hu
    rw [Option.some.inj hu]; rfl

end Marwood.Lemmas.PolicyAfter
