import Marwood.Lemmas.CompileCorrect3ConcreteAll
import Marwood.Lemmas.CompileCorrect3Main
import Marwood.Lemmas.CompileCorrect3Demo
import Marwood.Lemmas.CompileCorrect2ErrAtoms
/-!
# T01.3 stage 3 — a rest parameter and an internal definition on the CONCRETE heap model

The heap is a `CHeap` of one chunk of four cells (`c3Heap a b`): the code object `a` of the `lambda` at cell 0, a
code object `b` = `ENTER; <the compiled program>; RET` at cell 1 (both pass the bytecode verifier, as `CInv`
demands), two free cells (`Undefined`, on the free list, `free` in the allocator's map), an empty symbol table, no
globals. Every conjunct of the stage-3 heap invariant (`CInv`, `FreeInv`, `ClosEnv`, `Sim.HInv`, `Sim.SymOk`) holds
for it; `Laws3` is `concrete_laws3` (no primitive is bound by the demo's atom encoding, so the `call` hypothesis is
vacuous). Every hypothesis of `compileExpr_correct3_nontail` is discharged for

* `((lambda (a . r) r) 1 2 3)` — VARARG puts the surplus arguments and the pairs of the rest list on the heap
  through the allocator (`cput`: the free list, then chunk growth), CLOSURE and ENTER allocate the environments;
* `((lambda (x) (define y (if x 1 2)) y) #t)` — ENTER leaves the slot of `y` `Undefined`, the definition assigns it.

The datums, compile facts (for the lambda), fragment derivations, specification runs and final specification states
are those of the toy-heap demos (`CompileCorrect3Demo.lean`).
-/
namespace Marwood.Lemmas.CompileCorrect3.Conc
open Marwood Marwood.Vm Marwood.Vm.Concrete Marwood.Vm.Verify Marwood.Lemmas.CompileCorrect
open Marwood.Lemmas.CompileCorrect2 Marwood.Lemmas.CompileCorrect2.Conc Marwood.Lemmas.CompileCorrect3
open Marwood.Lemmas.CompileCorrect3.Toy
open Marwood.Heap (GcState)
open Marwood.Spec.Eval (Val Cell evalN)

/-! ## the initial heap: two code objects, two free cells -/

def c3Heap (a b : CLambda) : CHeap :=
  { chunk := 4, cells := #[.lambda a, .lambda b, .val .undefined, .val .undefined]
    gc := #[.allocated, .allocated, .free, .free], free := [2, 3], symtab := [], globSyms := [], globals := #[] }

/-- the code object of the top-level program: `ENTER; <code>; RET` -/
def topLam (cells : List VCell) : CLambda := ⟨[.opcode .enter] ++ cells ++ [.opcode .ret], [], []⟩

theorem topLam_fetch (cells : List VCell) (i : Nat) (hi : i < cells.length) :
    (topLam cells).bc[1 + i]? = cells[i]? := by
  show ([VCell.opcode .enter] ++ cells ++ [VCell.opcode .ret])[1 + i]? = cells[i]?
  rw [List.append_assoc, List.getElem?_append_right (by simp)]
  simp only [List.length_cons, List.length_nil, Nat.zero_add, Nat.add_sub_cancel_left]
  rw [List.getElem?_append_left hi]

variable {a b : CLambda}

theorem c3_gc : (c3Heap a b).gc = #[GcState.allocated, .allocated, .free, .free] := rfl
theorem c3_free_eq : (c3Heap a b).free = [2, 3] := rfl

theorem c3_cells {l : Nat} {c : CCell} (h : (c3Heap a b).cells[l]? = some c) :
    (l = 0 ∧ c = .lambda a) ∨ (l = 1 ∧ c = .lambda b) ∨ ((l = 2 ∨ l = 3) ∧ c = .val .undefined) := by
  match l, h with
  | 0, h => left; exact ⟨rfl, by injection h with e; exact e.symm⟩
  | 1, h => right; left; exact ⟨rfl, by injection h with e; exact e.symm⟩
  | 2, h => right; right; exact ⟨.inl rfl, by injection h with e; exact e.symm⟩
  | 3, h => right; right; exact ⟨.inr rfl, by injection h with e; exact e.symm⟩
  | n + 4, h => simp [c3Heap] at h

theorem c3_noUsed (i : Nat) : (c3Heap a b).gc[i]? ≠ some GcState.used := by
  rw [c3_gc]
  match i with
  | 0 => intro h; cases h
  | 1 => intro h; cases h
  | 2 => intro h; cases h
  | 3 => intro h; cases h
  | n + 4 => intro h; simp at h

theorem c3_shape : 0 < (c3Heap a b).chunk ∧ (c3Heap a b).chunk % 4 = 0 ∧
    ∃ k, 0 < k ∧ (c3Heap a b).cells.size = k * (c3Heap a b).chunk :=
  ⟨by show 0 < 4; omega, (by show 4 % 4 = 0; rfl), 1, by omega, rfl⟩

/-- `CInv` of the initial heap: what is asked of the two code objects is what the bytecode verifier checks -/
theorem c3_inv (va : (verifyLam a.bc).isSome = true) (vb : (verifyLam b.bc).isSome = true)
    (ia : ∀ x ∈ a.envmap, ∀ n, x.2 ≠ Concrete.Source.iofArg n) (ib : ∀ x ∈ b.envmap, ∀ n, x.2 ≠ Concrete.Source.iofArg n)
    (aa : argNeed a.bc ≤ a.args.length) (ab : argNeed b.bc ≤ b.args.length) : CInv (c3Heap a b) where
  sizes := rfl
  shape := c3_shape
  noUsed := c3_noUsed
  lamFree := by
    intro l lam hl
    rw [c3_free_eq]
    rcases c3_cells hl with ⟨rfl, _⟩ | ⟨rfl, _⟩ | ⟨_, hc⟩
    · decide
    · decide
    · cases hc
  lamVer := by
    intro l lam hl
    rcases c3_cells hl with ⟨_, hc⟩ | ⟨_, hc⟩ | ⟨_, hc⟩
    · cases hc; exact va
    · cases hc; exact vb
    · cases hc
  noIofArg := by
    intro l lam hl
    rcases c3_cells hl with ⟨_, hc⟩ | ⟨_, hc⟩ | ⟨_, hc⟩
    · cases hc; exact ia
    · cases hc; exact ib
    · cases hc
  lamArgs := by
    intro l lam hl
    rcases c3_cells hl with ⟨_, hc⟩ | ⟨_, hc⟩ | ⟨_, hc⟩
    · cases hc; exact aa
    · cases hc; exact ab
    · cases hc
  cont := by
    intro p c hc
    rcases c3_cells hc with ⟨_, h⟩ | ⟨_, h⟩ | ⟨_, h⟩ <;> cases h

theorem c3_freeInv : FreeInv (c3Heap a b) where
  undef := by
    intro p hp
    have : p = 2 ∨ p = 3 := by simpa [c3Heap] using hp
    rcases this with rfl | rfl <;> rfl
  nodup := by rw [c3_free_eq]; decide

/-- no closure cell yet -/
theorem c3_closEnv : ClosEnv (c3Heap a b) := by
  intro p lam e hc
  rcases c3_cells hc with ⟨_, h⟩ | ⟨_, h⟩ | ⟨_, h⟩ <;> cases h

/-- the free list is what the allocator's map calls free -/
theorem c3_hinv : Sim.HInv (c3Heap a b) where
  sizes := rfl
  shape := c3_shape
  free_iff := by
    intro i
    rw [c3_free_eq, c3_gc]
    match i with
    | 0 => decide
    | 1 => decide
    | 2 => decide
    | 3 => decide
    | n + 4 =>
      constructor
      · intro h; simp at h
      · intro h; simp at h
  nodup := by rw [c3_free_eq]; decide
  no_used := c3_noUsed

/-- empty symbol table, no symbol cell -/
theorem c3_symOk : Sim.SymOk (c3Heap a b) := by
  intro name p
  constructor
  · intro h
    have h' : (([] : List (Text × Nat)).find? (·.1 = name)).map (·.2) = some p := h
    simp at h'
  · rintro ⟨c, hc, ⟨tag, rfl, _⟩, _⟩
    rcases c3_cells hc with ⟨_, h⟩ | ⟨_, h⟩ | ⟨_, h⟩ <;> cases h

/-- the stage-3 heap invariant of the initial heap -/
theorem c3_srx (va : (verifyLam a.bc).isSome = true) (vb : (verifyLam b.bc).isSome = true)
    (ia : ∀ x ∈ a.envmap, ∀ n, x.2 ≠ Concrete.Source.iofArg n) (ib : ∀ x ∈ b.envmap, ∀ n, x.2 ≠ Concrete.Source.iofArg n)
    (aa : argNeed a.bc ≤ a.args.length) (ab : argNeed b.bc ≤ b.args.length) :
    cSRx (fun _ => False) (fun _ => 0) (c3Heap a b) :=
  ⟨c3_inv va vb ia ib aa ab, c3_freeInv, (by intro x h; cases h), c3_closEnv, c3_hinv, c3_symOk⟩

/-! ## the representation data, the laws -/

abbrev c3D (ext : ExtOps) (final : List LambdaM) : RepData2 (concreteOps ext) :=
  cD3 ext demoEnc (fun _ => False) (fun _ => 0) id final (fun _ => False)

/-- `Laws3` for the demos: the atom encoding binds no primitive, so the `call` hypothesis is vacuous -/
theorem c3_laws (ext : ExtOps) (final : List LambdaM) : Laws3 (c3D ext final) :=
  concrete_laws3 (by intro a b h; cases h) (fun _ _ => rfl) (by
    intro n W h σ vf p vs ws w σ' _ hvf
    cases hvf with
    | base hb =>
      obtain ⟨c, hc, _⟩ := hb
      simp [AtomEnc.cell, demoEnc] at hc)

/-- a number of the program as an immediate cell of the code object -/
theorem c3_loads_num (ext : ExtOps) (final : List LambdaM) (n : Int) (k : Num) (hk : atomVal (.num k) = some (.int n))
    (tag : String) (ht : tag = "n" ++ toString n) (h : CHeap) (S : Array Cell) (em : List (Text × Vm.Source)) :
    Loads2 (c3D ext final) em h S (.datum (.num k)) (.opaque tag) := by
  subst ht
  exact ⟨(by intro o e; cases e), .atom (w := .int n) hk (.base ⟨.opaque ("n" ++ toString n), rfl, .inl rfl⟩)⟩

/-- `Inv3` of the initial heap in the empty world, given the heap invariant and the code of the one lambda -/
theorem c3_inv3 (ext : ExtOps) (lamM : LambdaM) (h : CHeap) (hs : cSRx (fun _ => False) (fun _ => 0) h)
    (hcode : ∀ S, CodeAt2 (c3D ext [lamM]) lamM.envmap h S 0 0 lamM.bc)
    (hinfo : (concreteOps ext).lambdaInfo h 0 = some ⟨lamM.args.length⟩) :
    Inv3 (c3D ext [lamM]) W0 h demoSt := by
  refine ⟨(by intro x w h; cases h), (by intro x h; cases h), hs, (by intro x h; cases h), ?_,
    (by intro e n l l' h; cases h), (by intro e n e' n' l h; cases h), (by intro e n l h; cases h),
    (by intro e n l h; cases h)⟩
  intro id lamM' hid
  have hid' : ([lamM] : List LambdaM)[id]? = some lamM' := hid
  match id, hid' with
  | 0, hid' =>
    have h0 : ([lamM] : List LambdaM)[0]? = some lamM := rfl
    rw [h0] at hid'; injection hid' with e; subst e
    exact ⟨hcode _, hinfo⟩
  | k + 1, hid' => simp at hid'

/-! ## a rest parameter: `((lambda (a . r) r) 1 2 3)` -/

def cLamR0 : CLambda :=
  ⟨cellsR0, [.opaque "ya", .opaque "yr"], [(.opaque "ya", .arg 0), (.opaque "yr", .arg 1)]⟩

def c3HeapR : CHeap := c3Heap cLamR0 (topLam cellsR1)

def c3StateR : MSt CHeap :=
  { heap := c3HeapR, stack := ⟨List.replicate 16 .undefined, 0⟩, acc := .undefined, ep := 0, ipL := 1, ipO := 1,
    bp := 0 }

abbrev c3dR (ext : ExtOps) : RepData2 (concreteOps ext) := c3D ext [demoLamR]

/-- the program compiled behind the `ENTER` of the top-level code object -/
theorem c3R_compile : compileExpr 20 {} c0 1 false progR = .ok ({ lambdas := [demoLamR] }, progCodeR) :=
  CompileCorrect2.Toy.okIs_eq (by decide +kernel)

theorem c3R_ver0 : (verifyLam cLamR0.bc).isSome = true := by decide +kernel
theorem c3R_ver1 : (verifyLam (topLam cellsR1).bc).isSome = true := by decide +kernel

theorem c3R_srx : cSRx (fun _ => False) (fun _ => 0) c3HeapR :=
  c3_srx c3R_ver0 c3R_ver1
    (by
      intro x hx n
      have : x = (VCell.opaque "ya", Concrete.Source.arg 0) ∨ x = (VCell.opaque "yr", Concrete.Source.arg 1) := by
        simpa [cLamR0] using hx
      rcases this with rfl | rfl <;> (intro e; cases e))
    (by intro x hx; simp [topLam] at hx) (by decide) (by decide)

theorem c3R_code0 (ext : ExtOps) (S : Array Cell) : CodeAt2 (c3dR ext) lamCtxR.envmap c3HeapR S 0 0 demoLamR.bc := by
  refine CompileCorrect2.Toy.CodeAt2.ofAll2 cellsR0 rfl (fun i _ => by rw [Nat.zero_add]; rfl) ?_
  have hslot : Loads2 (c3dR ext) lamCtxR.envmap c3HeapR S (.envSlot kr) (.lexEnvSlot 1) := ⟨1, by decide, rfl⟩
  exact .cons rfl (.cons rfl (.cons rfl (.cons hslot (.cons rfl (.cons rfl .nil)))))

theorem c3R_code1 (ext : ExtOps) (S : Array Cell) : CodeAt2 (c3dR ext) c0.envmap c3HeapR S 1 1 progCodeR := by
  refine CompileCorrect2.Toy.CodeAt2.ofAll2 cellsR1 rfl (fun i hi => topLam_fetch cellsR1 i hi) ?_
  have n1 := c3_loads_num ext [demoLamR] 1 (.fix 1) rfl "n1" (by decide) c3HeapR S c0.envmap
  have n2 := c3_loads_num ext [demoLamR] 2 (.fix 2) rfl "n2" (by decide) c3HeapR S c0.envmap
  have n3 := c3_loads_num ext [demoLamR] 3 (.fix 3) rfl "n3" (by decide) c3HeapR S c0.envmap
  have hlam : Loads2 (c3dR ext) c0.envmap c3HeapR S (.lambda 0) (.ptr 0) := by
    refine ⟨rfl, fun lamM hl => ?_⟩
    obtain ⟨_, rfl⟩ := demoR_final_get hl
    exact ⟨rfl, rfl⟩
  exact .cons rfl (.cons n1 (.cons rfl (.cons rfl (.cons rfl (.cons n2 (.cons rfl (.cons rfl (.cons rfl (.cons n3
    (.cons rfl (.cons rfl (.cons rfl (.cons rfl (.cons rfl (.cons hlam (.cons rfl (.cons rfl (.cons rfl
    .nil))))))))))))))))))

theorem c3R_inv3 (ext : ExtOps) : Inv3 (c3dR ext) W0 c3HeapR demoSt :=
  c3_inv3 ext demoLamR c3HeapR c3R_srx (c3R_code0 ext) rfl

/-- **Stage 3 on the concrete heap model, rest parameter**: the run of `((lambda (a . r) r) 1 2 3)` exists —
    CLOSURE, ENTER and VARARG (`heap.put` of the surplus arguments and of the pairs of the rest list) allocate
    through the free list and the chunk growth of the real allocator — and ends with a representation of the store
    list `(2 3)` in `acc`, for every choice of the unmodelled operations `ext`. -/
theorem demo_concrete_rest_runs (ext : ExtOps) :
    ∃ W' s', Run3 (c3dR ext) W' c3StateR 19 demoSt demoStR' (.pair 2) s' := by
  obtain ⟨W', s', _, r⟩ := compileExpr_correct3_nontail (c3_laws ext [demoLamR]) 20 {} c0 1 progR _ progCodeR []
    (fun _ => False) demoR_frag ctxOK_top c3R_compile (List.prefix_refl _) 8 demoSt (.pair 2) demoStR' demoR_eval
    W0 c3StateR (c3R_code1 ext _) rfl (c3R_inv3 ext) (envRep3_top _ _ _ _) (by show 0 < 16; omega)
  exact ⟨W', s', r⟩

/-! ## an internal definition: `((lambda (x) (define y (if x 1 2)) y) #t)` -/

def cLamD0 : CLambda :=
  ⟨cellsD0, [.opaque "yx"], [(.opaque "yx", .arg 0), (.opaque "yy", .internal)]⟩

def c3HeapD : CHeap := c3Heap cLamD0 (topLam cellsD1)

def c3StateD : MSt CHeap :=
  { heap := c3HeapD, stack := ⟨List.replicate 8 .undefined, 0⟩, acc := .undefined, ep := 0, ipL := 1, ipO := 1,
    bp := 0 }

abbrev c3dD (ext : ExtOps) : RepData2 (concreteOps ext) := c3D ext [demoLamD]

theorem c3D_compile : compileExpr 20 {} c0 1 false progD = .ok ({ lambdas := [demoLamD] }, progCodeD) :=
  CompileCorrect2.Toy.okIs_eq (by decide +kernel)

theorem c3D_ver0 : (verifyLam cLamD0.bc).isSome = true := by decide +kernel
theorem c3D_ver1 : (verifyLam (topLam cellsD1).bc).isSome = true := by decide +kernel

theorem c3D_srx : cSRx (fun _ => False) (fun _ => 0) c3HeapD :=
  c3_srx c3D_ver0 c3D_ver1
    (by
      intro x hx n
      have : x = (VCell.opaque "yx", Concrete.Source.arg 0) ∨ x = (VCell.opaque "yy", Concrete.Source.internal) := by
        simpa [cLamD0] using hx
      rcases this with rfl | rfl <;> (intro e; cases e))
    (by intro x hx; simp [topLam] at hx) (by decide) (by decide)

theorem c3D_code0 (ext : ExtOps) (S : Array Cell) : CodeAt2 (c3dD ext) lamCtxD.envmap c3HeapD S 0 0 demoLamD.bc := by
  refine CompileCorrect2.Toy.CodeAt2.ofAll2 cellsD0 rfl (fun i _ => by rw [Nat.zero_add]; rfl) ?_
  have sx : Loads2 (c3dD ext) lamCtxD.envmap c3HeapD S (.envSlot kx) (.lexEnvSlot 0) := ⟨0, by decide, rfl⟩
  have sy : Loads2 (c3dD ext) lamCtxD.envmap c3HeapD S (.envSlot ky) (.lexEnvSlot 1) := ⟨1, by decide, rfl⟩
  have n1 := c3_loads_num ext [demoLamD] 1 (.fix 1) rfl "n1" (by decide) c3HeapD S lamCtxD.envmap
  have n2 := c3_loads_num ext [demoLamD] 2 (.fix 2) rfl "n2" (by decide) c3HeapD S lamCtxD.envmap
  exact .cons rfl (.cons rfl (.cons sx (.cons rfl (.cons rfl (.cons rfl (.cons rfl
    (.cons n1 (.cons rfl (.cons rfl (.cons rfl (.cons rfl (.cons n2 (.cons rfl
    (.cons rfl (.cons rfl (.cons sy (.cons rfl (.cons rfl (.cons rfl
    (.cons rfl (.cons sy (.cons rfl (.cons rfl .nil)))))))))))))))))))))))

theorem c3D_code1 (ext : ExtOps) (S : Array Cell) : CodeAt2 (c3dD ext) c0.envmap c3HeapD S 1 1 progCodeD := by
  refine CompileCorrect2.Toy.CodeAt2.ofAll2 cellsD1 rfl (fun i hi => topLam_fetch cellsD1 i hi) ?_
  have hb : Loads2 (c3dD ext) c0.envmap c3HeapD S (.datum (.bool true)) (.bool true) :=
    ⟨(by intro o e; cases e), .atom (w := .bool true) rfl (.base ⟨.bool true, rfl, .inl rfl⟩)⟩
  have hlam : Loads2 (c3dD ext) c0.envmap c3HeapD S (.lambda 0) (.ptr 0) := by
    refine ⟨rfl, fun lamM hl => ?_⟩
    obtain ⟨_, rfl⟩ := demoD_final_get hl
    exact ⟨rfl, rfl⟩
  exact .cons rfl (.cons hb (.cons rfl (.cons rfl (.cons rfl (.cons rfl (.cons rfl (.cons hlam (.cons rfl
    (.cons rfl (.cons rfl .nil))))))))))

theorem c3D_inv3 (ext : ExtOps) : Inv3 (c3dD ext) W0 c3HeapD demoSt :=
  c3_inv3 ext demoLamD c3HeapD c3D_srx (c3D_code0 ext) rfl

/-- **Stage 3 on the concrete heap model, internal definition**: the run of
    `((lambda (x) (define y (if x 1 2)) y) #t)` exists — CLOSURE builds the closure environment with the slot of `y`
    `Undefined`, ENTER copies it into the activation, the definition assigns the slot (`envPut` on a `LexEnv` cell of
    the real heap), the body reads it — and ends with a representation of `1` in `acc`, for every `ext`. -/
theorem demo_concrete_define_runs (ext : ExtOps) :
    ∃ W' s', Run3 (c3dD ext) W' c3StateD 11 demoSt demoStD' (.int 1) s' := by
  obtain ⟨W', s', _, r⟩ := compileExpr_correct3_nontail (c3_laws ext [demoLamD]) 20 {} c0 1 progD _ progCodeD []
    (fun _ => False) demoD_frag ctxOK_top c3D_compile (List.prefix_refl _) 8 demoSt (.int 1) demoStD' demoD_eval
    W0 c3StateD (c3D_code1 ext _) rfl (c3D_inv3 ext) (envRep3_top _ _ _ _) (by show 0 < 8; omega)
  exact ⟨W', s', r⟩

end Marwood.Lemmas.CompileCorrect3.Conc
