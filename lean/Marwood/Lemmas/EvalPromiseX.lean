import Marwood.Lemmas.EvalPromise
import Marwood.Lemmas.EvalDerived2
/-!
# T01.2 for `delay` / `force`: running the prelude's promise library in `Spec.Eval`

What the expansion `(make-promise #f (lambda () (make-promise #t e)))` of `(delay e)` builds
(`delayX_eval`), what the library procedure `force` does to an already forced promise (`forceX_done`)
and to a fresh one whose delayed expression yields a value (`forceDelayX_ok`) or fails
(`forceDelayX_err`); and the converse bookkeeping for time-outs (`forceDelayX_definite`, in
`EvalPromiseX2.lean`).

Method: one lemma per library closure, applied at a generic fuel `j` that is large enough, on states
written as triples `⟨g, σ, o⟩` (globals, store, output) so that the results compose syntactically.
-/
namespace Marwood.Spec.Eval.Derived
open Marwood Marwood.Spec.Eval Marwood.Spec.Eval.Prelude

def pushAll (σ : Array Cell) (cs : List Cell) : Array Cell := cs.foldl Array.push σ
/-- the prelude's thunk for `(delay e)` closed in `ρ` -/
def thunkX (e : Datum) (ρ : Env) : Val := .closure [] none [mkDone e] ρ
/-- the seven cells the expansion of `(force (delay e))` allocates before `e` runs (`n` = size of the store before) -/
def junkPre (n : Nat) (T : Val) : List Cell :=
  [.var (.bool false), .var T, .pair (.bool false) T, .pair (.pair (n+2)) .nil, .var (.pair (n+3)), .var (.pair (n+3)), .var (.pair (n+3))]
/-- the state in which the expansion evaluates the delayed expression -/
def preX (e : Datum) (ρ : Env) (st : St) : St := { st with store := pushAll st.store (junkPre st.store.size (thunkX e ρ)) }
/-- the library is in place -/
def LibSt (st : St) : Prop := LibOK st.globals ∧ st.globals.lookup k_force = some cForce

/-! ## toolkit: sequencing, store lookups -/

theorem bind_ok {α β : Type} {m : M α} {f : α → M β} {st st' : St} {a : α} (h : m st = .ok a st') :
    (m >>= f) st = f a st' := by
  show M.bind' m f st = _
  unfold M.bind'; rw [h]

theorem bind_congr_left {α β : Type} {m m' : M α} {f : α → M β} {st st' : St} (h : m st = m' st') :
    (m >>= f) st = (m' >>= f) st' := by
  show M.bind' m f st = M.bind' m' f st'
  unfold M.bind'; rw [h]

theorem bind_err {α β : Type} {m : M α} {f : α → M β} {st st' : St} {c : ErrClass} (h : m st = .err c st') :
    (m >>= f) st = .err c st' := by
  show M.bind' m f st = _
  unfold M.bind'; rw [h]

theorem get_lt {σ : Array Cell} {l : Nat} {c : Cell} (h : σ[l]? = some c) : l < σ.size := by
  obtain ⟨h', _⟩ := Array.getElem?_eq_some_iff.mp h
  exact h'

theorem get_push {σ : Array Cell} {l : Nat} {c : Cell} (c' : Cell) (h : σ[l]? = some c) :
    (σ.push c')[l]? = some c := by
  have := get_lt h
  rw [Array.getElem?_push, if_neg (by omega), h]

theorem get_push_size (σ : Array Cell) (c : Cell) : (σ.push c)[σ.size]? = some c := by
  rw [Array.getElem?_push, if_pos rfl]

theorem get_set_ne {σ : Array Cell} {l i : Nat} {c : Cell} (c' : Cell) (h : σ[l]? = some c) (hne : i ≠ l) :
    (σ.setIfInBounds i c')[l]? = some c := by
  rw [Array.getElem?_setIfInBounds, if_neg hne, h]

theorem get_set_eq {σ : Array Cell} {i : Nat} (c' : Cell) (h : i < σ.size) :
    (σ.setIfInBounds i c')[i]? = some c' := by
  rw [Array.getElem?_setIfInBounds, if_pos rfl, if_pos h]

theorem get_push_lt {σ : Array Cell} {l : Nat} (c' : Cell) (h : l < σ.size) : (σ.push c')[l]? = σ[l]? := by
  rw [Array.getElem?_push, if_neg (by omega)]

theorem get_push_eq {σ : Array Cell} {l : Nat} (c : Cell) (h : l = σ.size) : (σ.push c)[l]? = some c := by
  rw [Array.getElem?_push, if_pos h]

/-- the four cells of `(make-promise d T)` -/
@[reducible] def push4 (σ : Array Cell) (d T : Val) : Array Cell :=
  (((σ.push (.var d)).push (.var T)).push (.pair d T)).push (.pair (.pair (σ.size + 2)) .nil)

/-- the store after `(promise-update! new old)` -/
@[reducible] def updStore (σ : Array Cell) (pn p b : Loc) (dn : Bool) (v T : Val) : Array Cell :=
  ((((((σ.push (.var (.pair pn))).push (.var (.pair p))).push (.var (.pair pn))).setIfInBounds b
    (.pair (.bool dn) T)).push (.var (.pair pn))).setIfInBounds b (.pair (.bool dn) v)).setIfInBounds pn
    (.pair (.pair b) .nil)

/-- the store in which the delayed expression runs -/
@[reducible] def preStore (σ : Array Cell) (T : Val) : Array Cell :=
  (((push4 σ (.bool false) T).push (.var (.pair (σ.size + 3)))).push (.var (.pair (σ.size + 3)))).push
    (.var (.pair (σ.size + 3)))

/-- the store after `(force (delay e))`, `σ2` the store after the delayed expression -/
@[reducible] def finalStore (σ2 : Array Cell) (n : Nat) (v T : Val) : Array Cell :=
  (((updStore (((push4 σ2 (.bool true) v).push (.var (.pair (σ2.size + 3)))).push (.var (.pair (n + 3))))
    (σ2.size + 3) (n + 3) (n + 2) true v T).push (.var (.pair (n + 3)))).push (.var (.pair (n + 3)))).push
    (.var (.pair (n + 3)))

theorem push4_size (σ : Array Cell) (d T : Val) : (push4 σ d T).size = σ.size + 4 := by
  simp [push4, Array.size_push]

theorem updStore_size (σ : Array Cell) (pn p b : Loc) (dn : Bool) (v T : Val) :
    (updStore σ pn p b dn v T).size = σ.size + 4 := by
  simp [updStore, Array.size_push, Array.size_setIfInBounds]

/-- look a cell up through pushes and overwrites -/
syntax "lk" : tactic
macro_rules
  | `(tactic| lk) => `(tactic| first
      | with_reducible assumption
      | with_reducible exact get_push_size _ _
      | (with_reducible refine get_push_eq _ ?_; (try simp only [Array.size_push, Array.size_setIfInBounds, push4_size, updStore_size]) <;> omega)
      | (with_reducible refine get_set_eq _ ?_; (try simp only [Array.size_push, Array.size_setIfInBounds, push4_size, updStore_size]) <;> omega)
      | (with_reducible refine get_set_ne _ ?_ ?_; rotate_left; omega; lk)
      | (with_reducible refine get_push _ ?_; lk))

/-! ## toolkit: variables, applications, primitives -/

theorem sym_local {n : Nat} {x : Text} {ρ : Env} {l : Loc} {v : Val} {st : St} (hx : reserved x = false)
    (hl : ρ.lookup x = some l) (hc : st.store[l]? = some (.var v)) :
    (evalN (n+1)).eval (s x) ρ st = .ok v st := by
  rw [evalN_succ_eval, native_sym]
  simp only [evalVar, hx, hl]
  show M.bind' (readCell l) _ st = _
  simp [M.bind', readCell, hc, Pure.pure, M.pure']

theorem sym_global {n : Nat} {x : Text} {ρ : Env} {v : Val} {st : St} (hx : reserved x = false)
    (hl : ρ.lookup x = none) (hg : st.globals.lookup x = some v) :
    (evalN (n+1)).eval (s x) ρ st = .ok v st := by
  rw [evalN_succ_eval, native_sym]
  simp [evalVar, hx, hl, getGlobal, hg]

theorem app0 {n : Nat} {a d : Datum} {ρ : Env} {st s1 : St} {fv : Val}
    (hfv : (evalN n).eval (.pair a d) ρ st = .ok fv s1) :
    (evalN (n+1)).eval (L [.pair a d]) ρ st = (evalN n).apply fv [] s1 := by
  rw [evalN_succ_eval, native_app_pair, evalArgs_nil, pure_bind, bind_ok hfv]

theorem app1 {n : Nat} {f a : Datum} {ρ : Env} {st s1 : St} {va fv : Val} (hf : ∀ x, f = .sym x → kwOf x = none)
    (ha : (evalN n).eval a ρ st = .ok va s1) (hfv : (evalN n).eval f ρ s1 = .ok fv s1) :
    (evalN (n+1)).eval (L [f, a]) ρ st = (evalN n).apply fv [va] s1 := by
  rw [evalN_succ_eval, native_app _ _ _ _ hf, evalArgs_one, bind_assoc, bind_ok ha, pure_bind, bind_ok hfv]

theorem evalArgs_two (r : Rec) (ρ : Env) (a b : Datum) :
    evalArgs r ρ [a, b] = (r.eval a ρ >>= fun va => r.eval b ρ >>= fun vb => pure [va, vb]) := by
  simp only [evalArgs, bind_assoc, pure_bind]

theorem app2 {n : Nat} {f a b : Datum} {ρ : Env} {st s1 s2 : St} {va vb fv : Val}
    (hf : ∀ x, f = .sym x → kwOf x = none)
    (ha : (evalN n).eval a ρ st = .ok va s1) (hb : (evalN n).eval b ρ s1 = .ok vb s2)
    (hfv : (evalN n).eval f ρ s2 = .ok fv s2) :
    (evalN (n+1)).eval (L [f, a, b]) ρ st = (evalN n).apply fv [va, vb] s2 := by
  rw [evalN_succ_eval, native_app _ _ _ _ hf, evalArgs_two, bind_assoc, bind_ok ha, bind_assoc, bind_ok hb,
    pure_bind, bind_ok hfv]

theorem nk {k : Text} (h : kwOf k = none) : ∀ x, s k = .sym x → kwOf x = none := by
  intro x hx
  cases hx
  exact h

/-- a one-parameter library closure (empty environment, one body form that is not a definition) -/
theorem closure1 {n : Nat} {x : Text} {body : Datum} {v : Val} {g : List (Text × Val)} {σ : Array Cell}
    {o : List (Bool × Datum)} (hb : isDefine body = false) :
    (evalN (n+1)).apply (.closure [x] none [body] []) [v] ⟨g, σ, o⟩ =
      (evalN n).eval body [(x, σ.size)] ⟨g, σ.push (.var v), o⟩ := by
  rw [evalN_succ_apply]
  show (bindArgs [x] none [v] [] >>= fun ρ' => evalBody (evalN n) ρ' [body]) _ = _
  have : bindArgs [x] none [v] [] ⟨g, σ, o⟩ = .ok [(x, σ.size)] ⟨g, σ.push (.var v), o⟩ := rfl
  rw [bind_ok this, evalBody_noDefs _ _ [body] (by intro d hd; simp at hd; subst hd; exact hb)]
  rfl

theorem closure2 {n : Nat} {x y : Text} {body : List Datum} {v w : Val} {g : List (Text × Val)} {σ : Array Cell}
    {o : List (Bool × Datum)} (hb : ∀ d ∈ body, isDefine d = false) :
    (evalN (n+1)).apply (.closure [x, y] none body []) [v, w] ⟨g, σ, o⟩ =
      evalExprs (evalN n) [(y, σ.size + 1), (x, σ.size)] body ⟨g, (σ.push (.var v)).push (.var w), o⟩ := by
  rw [evalN_succ_apply]
  show (bindArgs [x, y] none [v, w] [] >>= fun ρ' => evalBody (evalN n) ρ' body) _ = _
  have : bindArgs [x, y] none [v, w] [] ⟨g, σ, o⟩ =
      .ok [(y, σ.size + 1), (x, σ.size)] ⟨g, (σ.push (.var v)).push (.var w), o⟩ := by
    have h : bindArgs [x, y] none [v, w] [] ⟨g, σ, o⟩ =
      .ok [(y, (σ.push (.var v)).size), (x, σ.size)] ⟨g, (σ.push (.var v)).push (.var w), o⟩ := rfl
    rwa [Array.size_push] at h
  rw [bind_ok this, evalBody_noDefs _ _ body hb]

theorem prim_car {n : Nat} {l : Loc} {a d : Val} {st : St} (h : st.store[l]? = some (.pair a d)) :
    (evalN (n+1)).apply (.prim .car) [.pair l] st = .ok a st := by
  rw [evalN_succ_apply]
  show M.bind' (readPair (.pair l)) _ st = _
  have : readPair (.pair l) st = .ok (a, d) st := by
    show M.bind' (readCell l) _ st = _
    simp [M.bind', readCell, h, Pure.pure, M.pure']
  simp [M.bind', this, Pure.pure, M.pure']

theorem prim_cdr {n : Nat} {l : Loc} {a d : Val} {st : St} (h : st.store[l]? = some (.pair a d)) :
    (evalN (n+1)).apply (.prim .cdr) [.pair l] st = .ok d st := by
  rw [evalN_succ_apply]
  show M.bind' (readPair (.pair l)) _ st = _
  have : readPair (.pair l) st = .ok (a, d) st := by
    show M.bind' (readCell l) _ st = _
    simp [M.bind', readCell, h, Pure.pure, M.pure']
  simp [M.bind', this, Pure.pure, M.pure']

theorem prim_cons {n : Nat} {a d : Val} {g : List (Text × Val)} {σ : Array Cell} {o : List (Bool × Datum)} :
    (evalN (n+1)).apply (.prim .cons) [a, d] ⟨g, σ, o⟩ = .ok (.pair σ.size) ⟨g, σ.push (.pair a d), o⟩ := rfl

theorem prim_list1 {n : Nat} {a : Val} {g : List (Text × Val)} {σ : Array Cell} {o : List (Bool × Datum)} :
    (evalN (n+1)).apply (.prim .list) [a] ⟨g, σ, o⟩ = .ok (.pair σ.size) ⟨g, σ.push (.pair a .nil), o⟩ := rfl

theorem readCell_ok {l : Loc} {c : Cell} {st : St} (h : st.store[l]? = some c) : readCell l st = .ok c st := by
  unfold readCell; rw [h]

theorem writeCell_ok {l : Loc} (c : Cell) {g : List (Text × Val)} {σ : Array Cell} {o : List (Bool × Datum)}
    (h : l < σ.size) : writeCell l c ⟨g, σ, o⟩ = .ok () ⟨g, σ.setIfInBounds l c, o⟩ := by
  unfold writeCell; rw [if_pos h]

theorem prim_setCar {n : Nat} {l : Loc} {a d v : Val} {g : List (Text × Val)} {σ : Array Cell}
    {o : List (Bool × Datum)} (h : σ[l]? = some (.pair a d)) :
    (evalN (n+1)).apply (.prim .setCar) [.pair l, v] ⟨g, σ, o⟩ = .ok .void ⟨g, σ.setIfInBounds l (.pair v d), o⟩ := by
  rw [evalN_succ_apply]
  show (readCell l >>= _) _ = _
  rw [bind_ok (readCell_ok h)]
  show (writeCell l (.pair v d) >>= _) _ = _
  rw [bind_ok (writeCell_ok _ (get_lt h))]
  rfl

theorem prim_setCdr {n : Nat} {l : Loc} {a d v : Val} {g : List (Text × Val)} {σ : Array Cell}
    {o : List (Bool × Datum)} (h : σ[l]? = some (.pair a d)) :
    (evalN (n+1)).apply (.prim .setCdr) [.pair l, v] ⟨g, σ, o⟩ = .ok .void ⟨g, σ.setIfInBounds l (.pair a v), o⟩ := by
  rw [evalN_succ_apply]
  show (readCell l >>= _) _ = _
  rw [bind_ok (readCell_ok h)]
  show (writeCell l (.pair a v) >>= _) _ = _
  rw [bind_ok (writeCell_ok _ (get_lt h))]
  rfl

/-! ## the library closures -/

section Lib
variable {g : List (Text × Val)} {σ : Array Cell} {o : List (Bool × Datum)}

theorem apply_cDone {j : Nat} (hj : 4 ≤ j) (hl : LibOK g) {p b : Loc} {done : Bool} {w : Val}
    (hp : σ[p]? = some (.pair (.pair b) .nil)) (hb : σ[b]? = some (.pair (.bool done) w)) :
    (evalN j).apply cDone [.pair p] ⟨g, σ, o⟩ = .ok (.bool done) ⟨g, σ.push (.var (.pair p)), o⟩ := by
  obtain ⟨k, rfl⟩ := Nat.exists_eq_add_of_le' hj
  have hcar : ∀ n, (evalN (n+1)).eval (s k_car) [(k_x, σ.size)] ⟨g, σ.push (.var (.pair p)), o⟩ =
      .ok (.prim .car) ⟨g, σ.push (.var (.pair p)), o⟩ := fun n => sym_global (by decide) rfl hl.car
  have hx : (evalN (k+1)).eval (s k_x) [(k_x, σ.size)] ⟨g, σ.push (.var (.pair p)), o⟩ =
      .ok (.pair p) ⟨g, σ.push (.var (.pair p)), o⟩ := sym_local (by decide) rfl (get_push_size _ _)
  have h1 : (evalN (k+2)).eval (L [s k_car, s k_x]) [(k_x, σ.size)] ⟨g, σ.push (.var (.pair p)), o⟩ =
      .ok (.pair b) ⟨g, σ.push (.var (.pair p)), o⟩ :=
    (app1 (nk (by decide)) hx (hcar k)).trans (prim_car (get_push _ hp))
  have h2 : (evalN (k+3)).eval bodyDone [(k_x, σ.size)] ⟨g, σ.push (.var (.pair p)), o⟩ =
      .ok (.bool done) ⟨g, σ.push (.var (.pair p)), o⟩ :=
    (app1 (nk (by decide)) h1 (hcar (k+1))).trans (prim_car (get_push _ hb))
  exact (closure1 (by decide)).trans h2

theorem apply_cValue {j : Nat} (hj : 4 ≤ j) (hl : LibOK g) {p b : Loc} {done : Bool} {w : Val}
    (hp : σ[p]? = some (.pair (.pair b) .nil)) (hb : σ[b]? = some (.pair (.bool done) w)) :
    (evalN j).apply cValue [.pair p] ⟨g, σ, o⟩ = .ok w ⟨g, σ.push (.var (.pair p)), o⟩ := by
  obtain ⟨k, rfl⟩ := Nat.exists_eq_add_of_le' hj
  have hcar : (evalN (k+1)).eval (s k_car) [(k_x, σ.size)] ⟨g, σ.push (.var (.pair p)), o⟩ =
      .ok (.prim .car) ⟨g, σ.push (.var (.pair p)), o⟩ := sym_global (by decide) rfl hl.car
  have hcdr : (evalN (k+2)).eval (s k_cdr) [(k_x, σ.size)] ⟨g, σ.push (.var (.pair p)), o⟩ =
      .ok (.prim .cdr) ⟨g, σ.push (.var (.pair p)), o⟩ := sym_global (by decide) rfl hl.cdr
  have hx : (evalN (k+1)).eval (s k_x) [(k_x, σ.size)] ⟨g, σ.push (.var (.pair p)), o⟩ =
      .ok (.pair p) ⟨g, σ.push (.var (.pair p)), o⟩ := sym_local (by decide) rfl (get_push_size _ _)
  have h1 : (evalN (k+2)).eval (L [s k_car, s k_x]) [(k_x, σ.size)] ⟨g, σ.push (.var (.pair p)), o⟩ =
      .ok (.pair b) ⟨g, σ.push (.var (.pair p)), o⟩ :=
    (app1 (nk (by decide)) hx hcar).trans (prim_car (get_push _ hp))
  have h2 : (evalN (k+3)).eval bodyValue [(k_x, σ.size)] ⟨g, σ.push (.var (.pair p)), o⟩ =
      .ok w ⟨g, σ.push (.var (.pair p)), o⟩ :=
    (app1 (nk (by decide)) h1 hcdr).trans (prim_cdr (get_push _ hb))
  exact (closure1 (by decide)).trans h2

theorem apply_cMakePromise {j : Nat} (hj : 4 ≤ j) (hl : LibOK g) (d T : Val) :
    (evalN j).apply cMakePromise [d, T] ⟨g, σ, o⟩ = .ok (.pair (σ.size + 3))
      ⟨g, push4 σ d T, o⟩ := by
  obtain ⟨k, rfl⟩ := Nat.exists_eq_add_of_le' hj
  have hd : (evalN (k+1)).eval (s k_doneP) [(k_proc, σ.size + 1), (k_doneP, σ.size)]
      ⟨g, (σ.push (.var d)).push (.var T), o⟩ = .ok d ⟨g, (σ.push (.var d)).push (.var T), o⟩ :=
    sym_local (by decide) rfl (get_push _ (get_push_size _ _))
  have hT : (evalN (k+1)).eval (s k_proc) [(k_proc, σ.size + 1), (k_doneP, σ.size)]
      ⟨g, (σ.push (.var d)).push (.var T), o⟩ = .ok T ⟨g, (σ.push (.var d)).push (.var T), o⟩ :=
    sym_local (by decide) rfl (get_push_eq _ (by simp))
  have hcons : (evalN (k+1)).eval (s k_cons) [(k_proc, σ.size + 1), (k_doneP, σ.size)]
      ⟨g, (σ.push (.var d)).push (.var T), o⟩ = .ok (.prim .cons) ⟨g, (σ.push (.var d)).push (.var T), o⟩ :=
    sym_global (by decide) rfl hl.cons
  have h1 := (app2 (nk (by decide)) hd hT hcons).trans prim_cons
  have hlist : (evalN (k+2)).eval (s k_list) [(k_proc, σ.size + 1), (k_doneP, σ.size)]
      ⟨g, ((σ.push (.var d)).push (.var T)).push (.pair d T), o⟩ =
      .ok (.prim .list) ⟨g, ((σ.push (.var d)).push (.var T)).push (.pair d T), o⟩ :=
    sym_global (by decide) rfl hl.list
  have h2 := (app1 (nk (by decide)) h1 hlist).trans prim_list1
  refine (closure2 (body := [bodyMakePromise]) (by decide)).trans ?_
  show (evalN (k+3)).eval bodyMakePromise _ _ = _
  refine h2.trans ?_
  simp [Array.size_push]

theorem eval_lambda0 {n : Nat} (e : Datum) (ρ : Env) (st : St) :
    (evalN (n+1)).eval (L [s k_lambda, .nil, mkDone e]) ρ st = .ok (thunkX e ρ) st := rfl

theorem delayX_eval' {j : Nat} (hj : 5 ≤ j) (e : Datum) (ρ : Env) (hl : LibOK g)
    (hρ2 : ρ.lookup k_makePromise = none) :
    (evalN j).eval (delayFull e) ρ ⟨g, σ, o⟩ = .ok (.pair (σ.size + 3))
      ⟨g, push4 σ (.bool false) (thunkX e ρ), o⟩ := by
  obtain ⟨k, rfl⟩ := Nat.exists_eq_add_of_le' hj
  have hf : (evalN (k+4)).eval (.bool false) ρ ⟨g, σ, o⟩ = .ok (.bool false) ⟨g, σ, o⟩ := rfl
  have hm : (evalN (k+4)).eval (s k_makePromise) ρ ⟨g, σ, o⟩ = .ok cMakePromise ⟨g, σ, o⟩ :=
    sym_global (by decide) hρ2 hl.makePromise
  exact (app2 (nk (by decide)) hf (eval_lambda0 e ρ _) hm).trans (apply_cMakePromise (by omega) hl _ _)

/-- the start of `force`: bind `promise`, test `(promise-done? promise)` -/
theorem force_start {k : Nat} (hl : LibOK g) {p b : Loc} {done : Bool} {w : Val}
    (hp : σ[p]? = some (.pair (.pair b) .nil)) (hb : σ[b]? = some (.pair (.bool done) w)) :
    (evalN (k+7)).apply cForce [.pair p] ⟨g, σ, o⟩ =
      (evalN (k+5)).eval (if done then L [s k_promiseValue, s k_promise] else forceLet) [(k_promise, σ.size)]
        ⟨g, (σ.push (.var (.pair p))).push (.var (.pair p)), o⟩ := by
  have hpr : (evalN (k+4)).eval (s k_promise) [(k_promise, σ.size)] ⟨g, σ.push (.var (.pair p)), o⟩ =
      .ok (.pair p) ⟨g, σ.push (.var (.pair p)), o⟩ := sym_local (by decide) rfl (get_push_size _ _)
  have hd : (evalN (k+4)).eval (s k_promiseDone) [(k_promise, σ.size)] ⟨g, σ.push (.var (.pair p)), o⟩ =
      .ok cDone ⟨g, σ.push (.var (.pair p)), o⟩ := sym_global (by decide) rfl hl.done
  have h1 := (app1 (nk (by decide)) hpr hd).trans
    (apply_cDone (o := o) (Nat.le_add_left 4 k) hl (get_push (.var (.pair p)) hp) (get_push (.var (.pair p)) hb))
  refine (closure1 (by decide)).trans ?_
  rw [evalN_succ_eval, bodyForce, native_if3, bind_ok h1]
  cases done <;> rfl

/-- forcing a forced promise -/
theorem force_done' {j : Nat} (hj : 7 ≤ j) (hl : LibOK g) {p b : Loc} {w : Val}
    (hp : σ[p]? = some (.pair (.pair b) .nil)) (hb : σ[b]? = some (.pair (.bool true) w)) :
    (evalN j).apply cForce [.pair p] ⟨g, σ, o⟩ =
      .ok w ⟨g, ((σ.push (.var (.pair p))).push (.var (.pair p))).push (.var (.pair p)), o⟩ := by
  obtain ⟨k, rfl⟩ := Nat.exists_eq_add_of_le' hj
  rw [force_start hl hp hb, if_pos rfl]
  have hpr : (evalN (k+4)).eval (s k_promise) [(k_promise, σ.size)]
      ⟨g, (σ.push (.var (.pair p))).push (.var (.pair p)), o⟩ =
      .ok (.pair p) ⟨g, (σ.push (.var (.pair p))).push (.var (.pair p)), o⟩ := sym_local (by decide) rfl (by lk)
  have hv : (evalN (k+4)).eval (s k_promiseValue) [(k_promise, σ.size)]
      ⟨g, (σ.push (.var (.pair p))).push (.var (.pair p)), o⟩ =
      .ok cValue ⟨g, (σ.push (.var (.pair p))).push (.var (.pair p)), o⟩ := sym_global (by decide) rfl hl.value
  exact (app1 (nk (by decide)) hpr hv).trans
    (apply_cValue (Nat.le_add_left 4 k) hl (b := b) (done := true) (w := w) (by lk) (by lk))

theorem apply_cUpdate {j : Nat} (hj : 7 ≤ j) (hl : LibOK g) {pn bn p b : Loc} {dn : Bool} {v d0 T : Val}
    (hpn : σ[pn]? = some (.pair (.pair bn) .nil)) (hbn : σ[bn]? = some (.pair (.bool dn) v))
    (hp : σ[p]? = some (.pair (.pair b) .nil)) (hb : σ[b]? = some (.pair d0 T))
    (h1 : b ≠ p) (h2 : b ≠ pn) (h3 : b ≠ bn) :
    (evalN j).apply cUpdate [.pair pn, .pair p] ⟨g, σ, o⟩ = .ok .void ⟨g, updStore σ pn p b dn v T, o⟩ := by
  obtain ⟨k, rfl⟩ := Nat.exists_eq_add_of_le' hj
  have lpn := get_lt hpn
  have lbn := get_lt hbn
  have lp := get_lt hp
  have lb := get_lt hb
  have hold : ∀ n σ', σ'[σ.size + 1]? = some (.var (.pair p)) →
      (evalN (n+1)).eval (s k_old) [(k_old, σ.size + 1), (k_new, σ.size)] ⟨g, σ', o⟩ = .ok (.pair p) ⟨g, σ', o⟩ :=
    fun n σ' h => sym_local (by decide) rfl h
  have hnew : ∀ n σ', σ'[σ.size]? = some (.var (.pair pn)) →
      (evalN (n+1)).eval (s k_new) [(k_old, σ.size + 1), (k_new, σ.size)] ⟨g, σ', o⟩ = .ok (.pair pn) ⟨g, σ', o⟩ :=
    fun n σ' h => sym_local (by decide) rfl h
  have hcarold : ∀ n σ', σ'[σ.size + 1]? = some (.var (.pair p)) → σ'[p]? = some (.pair (.pair b) .nil) →
      (evalN (n+2)).eval (L [s k_car, s k_old]) [(k_old, σ.size + 1), (k_new, σ.size)] ⟨g, σ', o⟩ =
        .ok (.pair b) ⟨g, σ', o⟩ :=
    fun n σ' h h' => (app1 (nk (by decide)) (hold n σ' h) (sym_global (by decide) rfl hl.car)).trans (prim_car h')
  -- form 1
  have f1 : (evalN (k+6)).eval (L [s k_setCar, L [s k_car, s k_old], L [s k_promiseDone, s k_new]])
      [(k_old, σ.size + 1), (k_new, σ.size)] ⟨g, (σ.push (.var (.pair pn))).push (.var (.pair p)), o⟩ =
      .ok .void ⟨g, (((σ.push (.var (.pair pn))).push (.var (.pair p))).push (.var (.pair pn))).setIfInBounds b
        (.pair (.bool dn) T), o⟩ :=
    (app2 (n := k+5) (nk (by decide)) (hcarold (k+3) _ (by lk) (by lk))
      ((app1 (nk (by decide)) (hnew (k+3) _ (by lk)) (sym_global (by decide) rfl hl.done)).trans
        (apply_cDone (o := o) (Nat.le_add_left 4 k) hl (p := pn) (b := bn) (done := dn) (w := v) (by lk) (by lk)))
      (sym_global (by decide) rfl hl.setCar)).trans (prim_setCar (a := d0) (d := T) (by lk))
  -- form 2
  have f2 : (evalN (k+6)).eval (L [s k_setCdr, L [s k_car, s k_old], L [s k_promiseValue, s k_new]])
      [(k_old, σ.size + 1), (k_new, σ.size)]
      ⟨g, (((σ.push (.var (.pair pn))).push (.var (.pair p))).push (.var (.pair pn))).setIfInBounds b
        (.pair (.bool dn) T), o⟩ =
      .ok .void ⟨g, (((((σ.push (.var (.pair pn))).push (.var (.pair p))).push (.var (.pair pn))).setIfInBounds b
        (.pair (.bool dn) T)).push (.var (.pair pn))).setIfInBounds b (.pair (.bool dn) v), o⟩ :=
    (app2 (n := k+5) (nk (by decide)) (hcarold (k+3) _ (by lk) (by lk))
      ((app1 (nk (by decide)) (hnew (k+3) _ (by lk)) (sym_global (by decide) rfl hl.value)).trans
        (apply_cValue (o := o) (Nat.le_add_left 4 k) hl (p := pn) (b := bn) (done := dn) (w := v) (by lk) (by lk)))
      (sym_global (by decide) rfl hl.setCdr)).trans (prim_setCdr (a := .bool dn) (d := T) (by lk))
  -- form 3
  have f3 : (evalN (k+6)).eval (L [s k_setCar, s k_new, L [s k_car, s k_old]])
      [(k_old, σ.size + 1), (k_new, σ.size)]
      ⟨g, (((((σ.push (.var (.pair pn))).push (.var (.pair p))).push (.var (.pair pn))).setIfInBounds b
        (.pair (.bool dn) T)).push (.var (.pair pn))).setIfInBounds b (.pair (.bool dn) v), o⟩ =
      .ok .void ⟨g, updStore σ pn p b dn v T, o⟩ :=
    (app2 (n := k+5) (nk (by decide)) (hnew (k+4) _ (by lk)) (hcarold (k+3) _ (by lk) (by lk))
      (sym_global (by decide) rfl hl.setCar)).trans (prim_setCar (a := .pair bn) (d := .nil) (by lk))
  refine (closure2 (body := bodyUpdate) (by decide)).trans ?_
  show ((evalN (k+6)).eval _ _ >>= fun _ => (evalN (k+6)).eval _ _ >>= fun _ => (evalN (k+6)).eval _ _) _ = _
  rw [bind_ok f1, bind_ok f2]
  exact f3

/-- the body of `force` for a promise that is not done -/
theorem forceLet_eval (r : Rec) (ρ : Env) :
    evalStep r forceLet ρ = (r.eval (L [L [s k_promiseValue, s k_promise]]) ρ >>= fun v =>
      allocCell (.var v) >>= fun l =>
      r.eval (L [s k_unless_, L [s k_promiseDone, s k_promise], L [s k_promiseUpdate, s k_promiseStar, s k_promise]])
        ((k_promiseStar, l) :: ρ) >>= fun _ => r.eval (L [s k_force, s k_promise]) ((k_promiseStar, l) :: ρ)) := by
  have h := native_let r ρ [(k_promiseStar, L [L [s k_promiseValue, s k_promise]])]
    (L [s k_unless_, L [s k_promiseDone, s k_promise], L [s k_promiseUpdate, s k_promiseStar, s k_promise]])
    [L [s k_force, s k_promise]] (by decide)
  have e1 : letUse (symBindings [(k_promiseStar, L [L [s k_promiseValue, s k_promise]])])
    (L [s k_unless_, L [s k_promiseDone, s k_promise], L [s k_promiseUpdate, s k_promiseStar, s k_promise]])
    [L [s k_force, s k_promise]] = forceLet := rfl
  rw [e1] at h
  rw [h]
  simp only [List.map, evalArgs_one, bind_assoc, pure_bind, List.zip_cons_cons, List.zip_nil_right, allocVars_one]
  congr 1

/-- calling the thunk of `(delay e)`: `(make-promise #t e)` -/
theorem thunk_unfold (k : Nat) (e : Datum) (ρ : Env) (S : St) :
    (evalN (k+3)).apply (thunkX e ρ) [] S = ((evalN (k+1)).eval e ρ >>= fun vb =>
      (evalN (k+1)).eval (s k_makePromise) ρ >>= fun fv => (evalN (k+1)).apply fv [.bool true, vb]) S := by
  rw [evalN_succ_apply]
  show (evalN (k+2)).eval (mkDone e) ρ S = _
  have hb : (evalN (k+1)).eval (.bool true) ρ S = .ok (.bool true) S := rfl
  rw [evalN_succ_eval, mkDone, native_app _ _ _ _ (nk (by decide)), evalArgs_two, bind_assoc, bind_ok hb, bind_assoc]
  simp only [pure_bind]

theorem apply_thunk_ok {j m : Nat} (hj1 : m + 2 ≤ j) (hj2 : 6 ≤ j) {e : Datum} {ρ : Env} {S : St} {v : Val}
    {g2 : List (Text × Val)} {σ2 : Array Cell} {o2 : List (Bool × Datum)}
    (hρ2 : ρ.lookup k_makePromise = none) (he : (evalN m).eval e ρ S = .ok v ⟨g2, σ2, o2⟩) (hl2 : LibOK g2) :
    (evalN j).apply (thunkX e ρ) [] S = .ok (.pair (σ2.size + 3))
      ⟨g2, push4 σ2 (.bool true) v, o2⟩ := by
  obtain ⟨k, rfl⟩ := Nat.exists_eq_add_of_le' hj2
  have he' : (evalN (k+3+1)).eval e ρ S = .ok v ⟨g2, σ2, o2⟩ := by
    rw [evalN_mono (n := m) (by omega) e ρ S (by rw [he]; simp), he]
  have hm : (evalN (k+3+1)).eval (s k_makePromise) ρ ⟨g2, σ2, o2⟩ = .ok cMakePromise ⟨g2, σ2, o2⟩ :=
    sym_global (by decide) hρ2 hl2.makePromise
  rw [thunk_unfold (k+3), bind_ok he', bind_ok hm]
  exact apply_cMakePromise (by omega) hl2 _ _

theorem apply_thunk_err {j m : Nat} (hj1 : m + 2 ≤ j) (hj2 : 3 ≤ j) {e : Datum} {ρ : Env} {S s2 : St} {c : ErrClass}
    (he : (evalN m).eval e ρ S = .err c s2) :
    (evalN j).apply (thunkX e ρ) [] S = .err c s2 := by
  obtain ⟨k, rfl⟩ := Nat.exists_eq_add_of_le' hj2
  have he' : (evalN (k+1)).eval e ρ S = .err c s2 := by
    rw [evalN_mono (n := m) (by omega) e ρ S (by rw [he]; simp), he]
  rw [thunk_unfold k, bind_err he']

/-- `(force (delay e))` up to the call of the thunk: what remains is the thunk, the binding of `promise*`,
    the update and the second `force` -/
theorem force_prefix (k : Nat) (e : Datum) (ρ : Env) (hl : LibOK g) (hf : g.lookup k_force = some cForce)
    (hρ1 : ρ.lookup k_force = none) (hρ2 : ρ.lookup k_makePromise = none) :
    (evalN (k+10)).eval (forceUse (delayFull e)) ρ ⟨g, σ, o⟩ =
      ((evalN (k+5)).apply (thunkX e ρ) [] >>= fun v => allocCell (.var v) >>= fun l =>
        (evalN (k+6)).eval (L [s k_unless_, L [s k_promiseDone, s k_promise],
          L [s k_promiseUpdate, s k_promiseStar, s k_promise]]) [(k_promiseStar, l), (k_promise, σ.size + 4)] >>= fun _ =>
        (evalN (k+6)).eval (L [s k_force, s k_promise]) [(k_promiseStar, l), (k_promise, σ.size + 4)])
      ⟨g, preStore σ (thunkX e ρ), o⟩ := by
  have hA := delayX_eval' (g := g) (σ := σ) (o := o) (j := k+9) (by omega) e ρ hl hρ2
  have hF : (evalN (k+9)).eval (s k_force) ρ ⟨g, push4 σ (.bool false) (thunkX e ρ), o⟩ =
      .ok cForce ⟨g, push4 σ (.bool false) (thunkX e ρ), o⟩ := sym_global (by decide) hρ1 hf
  refine (app1 (n := k+9) (nk (by decide)) hA hF).trans ?_
  have hS := force_start (g := g) (o := o) (σ := push4 σ (.bool false) (thunkX e ρ)) (k := k+2) hl
    (p := σ.size + 3) (b := σ.size + 2) (done := false) (w := thunkX e ρ) (by lk) (by lk)
  rw [push4_size] at hS
  refine hS.trans ?_
  show (evalN (k+6+1)).eval forceLet _ _ = _
  rw [evalN_succ_eval, forceLet_eval]
  have hpr : (evalN (k+4)).eval (s k_promise) [(k_promise, σ.size + 4)]
      ⟨g, ((push4 σ (.bool false) (thunkX e ρ)).push (.var (.pair (σ.size + 3)))).push (.var (.pair (σ.size + 3))), o⟩ =
      .ok (.pair (σ.size + 3))
        ⟨g, ((push4 σ (.bool false) (thunkX e ρ)).push (.var (.pair (σ.size + 3)))).push (.var (.pair (σ.size + 3))), o⟩ :=
    sym_local (by decide) rfl (by lk)
  have hV := (app1 (n := k+4) (nk (by decide)) hpr (sym_global (by decide) rfl hl.value)).trans
    (apply_cValue (o := o) (j := k+4) (by omega) hl (p := σ.size + 3) (b := σ.size + 2) (done := false)
      (w := thunkX e ρ) (by lk) (by lk))
  exact bind_congr_left (app0 (n := k+5) hV)

/-- **`(force (delay e))`, the delayed expression yields a value** (triples; `m + 1` the fuel of `e`) -/
theorem forceDelay_aux (m : Nat) (e : Datum) (ρ : Env) {g2 : List (Text × Val)} {σ2 : Array Cell}
    {o2 : List (Bool × Datum)} {v : Val} (hl : LibOK g) (hf : g.lookup k_force = some cForce)
    (hρ1 : ρ.lookup k_force = none) (hρ2 : ρ.lookup k_makePromise = none)
    (he : (evalN (m+1)).eval e ρ ⟨g, preStore σ (thunkX e ρ), o⟩ = .ok v ⟨g2, σ2, o2⟩)
    (hl2 : LibOK g2) (hf2 : g2.lookup k_force = some cForce) (hgrow : σ.size + 7 ≤ σ2.size)
    (h2 : σ2[σ.size + 2]? = some (.pair (.bool false) (thunkX e ρ)))
    (h3 : σ2[σ.size + 3]? = some (.pair (.pair (σ.size + 2)) .nil))
    (h4 : σ2[σ.size + 4]? = some (.var (.pair (σ.size + 3)))) :
    (evalN (m+13)).eval (forceUse (delayFull e)) ρ ⟨g, σ, o⟩ =
      .ok v ⟨g2, finalStore σ2 σ.size v (thunkX e ρ), o2⟩ := by
  rw [force_prefix (m+3) e ρ hl hf hρ1 hρ2,
    bind_ok (apply_thunk_ok (j := m+3+5) (m := m+1) (by omega) (by omega) hρ2 he hl2)]
  have hAl : allocCell (.var (.pair (σ2.size + 3))) ⟨g2, push4 σ2 (.bool true) v, o2⟩ =
      .ok (σ2.size + 4) ⟨g2, (push4 σ2 (.bool true) v).push (.var (.pair (σ2.size + 3))), o2⟩ := by
    show Res.ok _ _ = _
    rw [push4_size]
  rw [bind_ok hAl]
  -- (promise-done? promise): not yet
  have hD : (evalN (m+8)).eval (L [s k_promiseDone, s k_promise]) [(k_promiseStar, σ2.size + 4), (k_promise, σ.size + 4)]
      ⟨g2, (push4 σ2 (.bool true) v).push (.var (.pair (σ2.size + 3))), o2⟩ = .ok (.bool false)
      ⟨g2, ((push4 σ2 (.bool true) v).push (.var (.pair (σ2.size + 3)))).push (.var (.pair (σ.size + 3))), o2⟩ :=
    (app1 (n := m+7) (nk (by decide)) (sym_local (l := σ.size + 4) (v := .pair (σ.size + 3)) (by decide) rfl (by lk))
      (sym_global (by decide) rfl hl2.done)).trans
    (apply_cDone (o := o2) (j := m+7) (by omega) hl2 (p := σ.size + 3) (b := σ.size + 2) (done := false)
      (w := thunkX e ρ) (by lk) (by lk))
  -- (promise-update! promise* promise)
  have d1 : σ.size + 2 ≠ σ.size + 3 := by omega
  have d2 : σ.size + 2 ≠ σ2.size + 3 := by omega
  have d3 : σ.size + 2 ≠ σ2.size + 2 := by omega
  have hU : (evalN (m+8)).eval (L [s k_promiseUpdate, s k_promiseStar, s k_promise])
      [(k_promiseStar, σ2.size + 4), (k_promise, σ.size + 4)]
      ⟨g2, ((push4 σ2 (.bool true) v).push (.var (.pair (σ2.size + 3)))).push (.var (.pair (σ.size + 3))), o2⟩ = .ok .void
      ⟨g2, updStore (((push4 σ2 (.bool true) v).push (.var (.pair (σ2.size + 3)))).push (.var (.pair (σ.size + 3))))
        (σ2.size + 3) (σ.size + 3) (σ.size + 2) true v (thunkX e ρ), o2⟩ :=
    (app2 (n := m+7) (nk (by decide))
      (sym_local (l := σ2.size + 4) (v := .pair (σ2.size + 3)) (by decide) rfl (by lk))
      (sym_local (l := σ.size + 4) (v := .pair (σ.size + 3)) (by decide) rfl (by lk))
      (sym_global (by decide) rfl hl2.update)).trans
    (apply_cUpdate (o := o2) (j := m+7) (by omega) hl2 (pn := σ2.size + 3) (bn := σ2.size + 2) (p := σ.size + 3)
      (b := σ.size + 2) (dn := true) (v := v) (d0 := .bool false) (T := thunkX e ρ) (by lk) (by lk) (by lk) (by lk)
      d1 d2 d3)
  have hUn : (evalN (m+3+6)).eval (L [s k_unless_, L [s k_promiseDone, s k_promise],
      L [s k_promiseUpdate, s k_promiseStar, s k_promise]]) [(k_promiseStar, σ2.size + 4), (k_promise, σ.size + 4)]
      ⟨g2, (push4 σ2 (.bool true) v).push (.var (.pair (σ2.size + 3))), o2⟩ = .ok .void
      ⟨g2, updStore (((push4 σ2 (.bool true) v).push (.var (.pair (σ2.size + 3)))).push (.var (.pair (σ.size + 3))))
        (σ2.size + 3) (σ.size + 3) (σ.size + 2) true v (thunkX e ρ), o2⟩ := by
    have hn := native_unless (evalN (m+8)) [(k_promiseStar, σ2.size + 4), (k_promise, σ.size + 4)]
      (L [s k_promiseDone, s k_promise]) (L [s k_promiseUpdate, s k_promiseStar, s k_promise]) []
    show evalStep (evalN (m+8)) (unlessUse _ _ []) _ _ = _
    rw [hn, bind_ok hD]
    exact hU
  rw [bind_ok hUn]
  -- (force promise): done now
  exact (app1 (n := m+8) (nk (by decide))
    (sym_local (l := σ.size + 4) (v := .pair (σ.size + 3)) (by decide) rfl (by lk))
    (sym_global (by decide) rfl hf2)).trans
    (force_done' (o := o2) (j := m+8) (by omega) hl2 (p := σ.size + 3) (b := σ.size + 2) (w := v) (by lk) (by lk))

end Lib

end Marwood.Spec.Eval.Derived
