import Marwood.Lemmas.PrintRead
/-!
# T10.1: the induction over the datum, and what it yields for `parse_text (write d)`
-/
namespace Marwood
open Marwood.Proofs.C16

variable (fo : FloatOps)

/-- the four statements proved together (one per mutually recursive printer function) -/
def ReadsAll (d : Datum) : Prop :=
  (Readable fo d → ∀ text pre rest0, Delim rest0 → text = pre ++ printD fo true d ++ rest0 →
      ReadsD fo text pre (printD fo true d) rest0 (canon d)) ∧
  (Readable fo d → ∀ text pre rest0, text = pre ++ printRest fo true d ++ rest0 →
      ReadsRest fo text pre (printRest fo true d) rest0 (canon d)) ∧
  (Readable fo d → properSpine d = true → ∀ text pre rest0,
      text = pre ++ (printElems fo true d ++ [')']) ++ rest0 →
      ReadsElems fo text pre (printElems fo true d ++ [')']) rest0 ((Datum.listElems d).map canon)) ∧
  (∀ x y, d = .pair x y → Readable fo x → ∀ text pre rest0, Delim rest0 →
      text = pre ++ printD fo true x ++ rest0 → ReadsD fo text pre (printD fo true x) rest0 (canon x))

/-- a datum that is neither a pair nor nil: its `printRest` is ` . ` + its printed form + `)` -/
theorem readsAll_of_atom (d : Datum) (hcanon : Datum)
    (hD : Readable fo d → ∀ text pre rest0, Delim rest0 → text = pre ++ printD fo true d ++ rest0 →
      ReadsD fo text pre (printD fo true d) rest0 hcanon)
    (hc : canon d = hcanon)
    (hrest : printRest fo true d = ' ' :: '.' :: ' ' :: (printD fo true d ++ [')']))
    (hspine : properSpine d = false) (hnp : ∀ x y, d ≠ .pair x y) : ReadsAll fo d := by
  refine ⟨?_, ?_, ?_, ?_⟩
  · rw [hc]; exact hD
  · intro hr text pre rest0 htext
    rw [hrest] at htext ⊢
    rw [hc]
    exact readsRest_dotted fo (fun pre' rest0' hd' ht' => hD hr text pre' rest0' hd' ht') htext
  · intro _ h; rw [hspine] at h; cases h
  · intro x y e; exact absurd e (hnp x y)

theorem printElems_nil (alt : Bool) : printElems fo alt .nil = [] := by
  rw [printElems]
  intro x y e
  cases e

theorem isQuoteForm_iff {a d : Datum} (h : isQuoteForm a d = true) :
    ∃ x, a = .sym quoteName ∧ d = .pair x .nil := by
  unfold isQuoteForm at h
  split at h
  · rename_i s x
    exact ⟨x, by simp at h; rw [h], rfl⟩
  · cases h

theorem quoteForm_quote (x : Datum) : quoteForm "quote" x = .pair (.sym quoteName) (.pair x .nil) := rfl

theorem readsAll (ht : FloatText fo) (hl : FloatLex fo) : ∀ d : Datum, ReadsAll fo d := by
  intro d
  induction d with
  | bool b =>
    refine readsAll_of_atom fo _ (.bool b) ?_ rfl (by rw [printRest, printD]) rfl (by intro x y e; cases e)
    intro _ text pre rest0 _ htext
    rw [printD] at htext ⊢
    exact readsD_bool fo b htext
  | char c =>
    refine readsAll_of_atom fo _ (.char c) ?_ rfl (by rw [printRest, printD]) rfl (by intro x y e; cases e)
    intro _ text pre rest0 hd htext
    rw [printD] at htext ⊢
    exact readsD_char fo c hd htext
  | str s =>
    refine readsAll_of_atom fo _ (.str s) ?_ rfl (by rw [printRest, printD]) rfl (by intro x y e; cases e)
    intro _ text pre rest0 _ htext
    rw [printD] at htext ⊢
    exact readsD_str fo s htext
  | sym s =>
    refine readsAll_of_atom fo _ (.sym s) ?_ rfl (by rw [printRest, printD]) rfl (by intro x y e; cases e)
    intro hr text pre rest0 hd htext
    rw [printD] at htext ⊢
    exact readsD_sym fo s hr hd htext
  | num n =>
    refine readsAll_of_atom fo _ (.num (normalize n)) ?_ rfl (by rw [printRest, printD]) rfl
      (by intro x y e; cases e)
    intro hr text pre rest0 hd htext
    rw [printD] at htext ⊢
    exact readsD_num fo ht hl n hr.1 hr.2 hd htext
  | continuation => exact ⟨fun h => h.elim, fun h => h.elim, fun h => h.elim, by intro x y e; cases e⟩
  | macro_ => exact ⟨fun h => h.elim, fun h => h.elim, fun h => h.elim, by intro x y e; cases e⟩
  | procedure p => exact ⟨fun h => h.elim, fun h => h.elim, fun h => h.elim, by intro x y e; cases e⟩
  | undefined => exact ⟨fun h => h.elim, fun h => h.elim, fun h => h.elim, by intro x y e; cases e⟩
  | void => exact ⟨fun h => h.elim, fun h => h.elim, fun h => h.elim, by intro x y e; cases e⟩
  | nil =>
    refine ⟨?_, ?_, ?_, by intro x y e; cases e⟩
    · intro _ text pre rest0 _ htext
      rw [printD] at htext ⊢
      exact readsD_nil fo htext
    · intro _ text pre rest0 htext
      rw [printRest] at htext ⊢
      exact readsRest_nil fo htext
    · intro _ _ text pre rest0 htext
      rw [printElems_nil] at htext ⊢
      exact readsElems_nil fo (by simpa using htext)
  | vec e ih =>
    have hD : Readable fo (.vec e) → ∀ text pre rest0, Delim rest0 →
        text = pre ++ printD fo true (.vec e) ++ rest0 →
        ReadsD fo text pre (printD fo true (.vec e)) rest0 (.vec (canon e)) := by
      intro hr text pre rest0 _ htext
      rw [printD] at htext ⊢
      have hE := ih.2.2.1 hr.1 hr.2 text (pre ++ ['#', '(']) rest0 (by rw [htext]; simp)
      have := readsD_vec fo hE
      rw [Datum.vecOfList, ofList_map_canon e hr.2] at this
      exact this
    refine readsAll_of_atom fo _ (.vec (canon e)) hD rfl ?_ rfl (by intro x y e; cases e)
    rw [printRest, printD]
    simp
  | pair a d iha ihd =>
    refine ⟨?_, ?_, ?_, ?_⟩
    · -- printD
      intro hr text pre rest0 hd0 htext
      rw [printD] at htext ⊢
      by_cases hq : isQuoteForm a d = true
      · obtain ⟨x, ha, hdd⟩ := isQuoteForm_iff hq
        simp only [hq, if_true] at htext ⊢
        subst ha hdd
        rw [printCadr] at htext ⊢
        have hx : Readable fo x := hr.2.1
        have hX := ihd.2.2.2 x .nil rfl hx text (pre ++ ['\'']) rest0 hd0 (by rw [htext]; simp)
        have := readsD_quote fo hX
        rw [quoteForm_quote] at this
        exact this
      · simp only [hq, Bool.false_eq_true, if_false] at htext ⊢
        have hA := iha.1 hr.1 text (pre ++ ['(']) (printRest fo true d ++ rest0) (printRest_delim fo d rest0)
          (by rw [htext]; simp)
        have hR := ihd.2.1 hr.2 text (pre ++ ['('] ++ printD fo true a) rest0 (by rw [htext]; simp)
        exact readsD_list fo hA hR htext
    · -- printRest
      intro hr text pre rest0 htext
      rw [printRest] at htext ⊢
      have hA := iha.1 hr.1 text (pre ++ [' ']) (printRest fo true d ++ rest0) (printRest_delim fo d rest0)
        (by rw [htext]; simp)
      have hR := ihd.2.1 hr.2 text (pre ++ [' '] ++ printD fo true a) rest0 (by rw [htext]; simp)
      exact readsRest_cons fo hA hR
    · -- printElems
      intro hr hs text pre rest0 htext
      simp only [properSpine] at hs
      rw [printElems] at htext ⊢
      have hsep : (if d.isPair = true then [' '] else ([] : Text)) = [] ∨
          (if d.isPair = true then [' '] else ([] : Text)) = [' '] := by
        split
        · exact Or.inr rfl
        · exact Or.inl rfl
      have hdelim : Delim ((if d.isPair = true then [' '] else ([] : Text)) ++
          (printElems fo true d ++ [')']) ++ rest0) := by
        cases d with
        | pair x y => simp [Datum.isPair, Delim]
        | nil => rw [printElems_nil]; simp [Datum.isPair, Delim]
        | _ => cases hs
      have hX := iha.1 hr.1 text pre _ hdelim (by rw [htext]; simp)
      have hE := ihd.2.2.1 hr.2 hs text
        (pre ++ printD fo true a ++ (if d.isPair = true then [' '] else ([] : Text))) rest0
        (by rw [htext]; simp)
      have := readsElems_cons fo hsep hX hE
      simpa [Datum.listElems, List.append_assoc] using this
    · intro x y e hx
      cases e
      exact iha.1 hx

/-- the reader, given the written form of a readable datum and nothing else, returns `canon d` -/
theorem parseText_write (ht : FloatText fo) (hl : FloatLex fo) (d : Datum) (hr : Readable fo d) :
    parseText fo (write fo d) = .ok (canon d, none) := by
  obtain ⟨tsd, hseg, _, hparse⟩ := (readsAll fo ht hl d).1 hr (write fo d) [] [] trivial (by simp [write])
  have hscan : scan (write fo d) = .ok tsd := by
    have := hseg [] (ScanTo.nil _)
    simp only [List.append_nil] at this
    exact scan_of_scanTo (by simpa [write] using this)
  obtain ⟨f, hf⟩ := hparse []
  simp only [List.append_nil] at hf
  have hp := parseTokens_of_fuel fo (write fo d) hf
  unfold parseText
  rw [hscan]
  simp only [hp]

theorem identShape_quoteName : identShape quoteName = true := by decide

/-- the source text `(quote <written form>)`: the reader returns the quote form around `canon d` -/
theorem parseText_quote_write (ht : FloatText fo) (hl : FloatLex fo) (d : Datum) (hr : Readable fo d) :
    parseText fo ('(' :: (quoteName ++ (' ' :: (write fo d ++ [')'])))) =
      .ok (.pair (.sym quoteName) (.pair (canon d) .nil), none) := by
  unfold write
  generalize htext : ('(' :: (quoteName ++ (' ' :: (printD fo true d ++ [')'])))) = text
  have hq : SymTok fo quoteName := fun rest hd => Or.inl (scansAs_ident identShape_quoteName rest hd)
  have hA : ReadsD fo text ([] ++ ['(']) quoteName ((' ' :: (printD fo true d ++ [')'])) ++ [])
      (.sym quoteName) :=
    readsD_sym fo quoteName hq (rest0 := (' ' :: (printD fo true d ++ [')'])) ++ []) (by simp [Delim])
      (by rw [← htext, printAtom_sym]; simp)
  have hD : ReadsD fo text ([] ++ ['('] ++ quoteName ++ [' ']) (printD fo true d) ([')'] ++ []) (canon d) :=
    (readsAll fo ht hl d).1 hr text _ _ (by simp [Delim]) (by rw [← htext]; simp)
  have hN : ReadsRest fo text ([] ++ ['('] ++ quoteName ++ [' '] ++ printD fo true d) [')'] [] .nil :=
    readsRest_nil fo (by rw [← htext]; simp)
  have hR : ReadsRest fo text ([] ++ ['('] ++ quoteName) (' ' :: (printD fo true d ++ [')'])) []
      (.pair (canon d) .nil) := readsRest_cons fo hD hN
  have hL : ReadsD fo text [] ('(' :: (quoteName ++ (' ' :: (printD fo true d ++ [')'])))) []
      (.pair (.sym quoteName) (.pair (canon d) .nil)) :=
    readsD_list fo hA hR (by rw [← htext]; simp)
  obtain ⟨tsd, hseg, _, hparse⟩ := hL
  have hscan : scan text = .ok tsd := by
    have := hseg [] (ScanTo.nil _)
    simp only [List.append_nil] at this
    rw [htext] at this
    exact scan_of_scanTo (by simpa using this)
  obtain ⟨f, hf⟩ := hparse []
  simp only [List.append_nil] at hf
  have hp := parseTokens_of_fuel fo text hf
  unfold parseText
  rw [hscan]
  simp only [hp]

end Marwood
