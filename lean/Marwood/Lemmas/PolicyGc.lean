import Marwood.Lemmas.PolicyPlain
/-!
# T12.1 — no floating garbage: after `run_gc` the allocated set *is* the reachable set
-/
namespace Marwood.Lemmas.PolicyGc
open Marwood Marwood.Heap Marwood.Spec Marwood.Lemmas.GcSafety Marwood.Lemmas.HeapOps
open Marwood.Lemmas.PolicyPlain

theorem getElem?_lt {α} {a : Array α} {i : Nat} {v : α} (h : a[i]? = some v) : i < a.size := by
  rcases Array.getElem?_eq_some_iff.mp h with ⟨hlt, _⟩; exact hlt

/-- both directions, from the extensional description of a collection -/
theorem gcSpec_state (fixed : Bool) (h : Heap) (roots : List Nat) (h' : Heap)
    (gs : GcSpec fixed h roots h') (x : Nat) :
    (h'.gc[x]? = some GcState.allocated ↔ Reachable fixed h roots x) ∧
    h'.gc[x]? ≠ some GcState.used := by
  by_cases hr : Reachable fixed h roots x
  · have := gs.gc_reach x hr
    exact ⟨⟨fun _ => hr, fun _ => this⟩, by rw [this]; simp⟩
  · by_cases hx : x < h'.cells.size
    · have := gs.gc_unreach x hx hr
      exact ⟨⟨fun h1 => (by rw [this] at h1; cases h1), fun h1 => absurd h1 hr⟩, by rw [this]; simp⟩
    · have : h'.gc[x]? = none := Array.getElem?_eq_none (by rw [gs.sizes]; omega)
      exact ⟨⟨fun h1 => (by rw [this] at h1; cases h1), fun h1 => absurd h1 hr⟩, by rw [this]; simp⟩

theorem gcSpec_nonFree_iff (fixed : Bool) (h : Heap) (roots : List Nat) (h' : Heap)
    (gs : GcSpec fixed h roots h') (x : Nat) : h'.NonFree x ↔ Reachable fixed h roots x := by
  have := gcSpec_state fixed h roots h' gs x
  unfold Heap.NonFree
  constructor
  · rintro (h1 | h1)
    · exact this.1.mp h1
    · exact absurd h1 this.2
  · intro hr; exact Or.inl (this.1.mpr hr)

end Marwood.Lemmas.PolicyGc
