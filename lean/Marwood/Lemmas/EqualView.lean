import Marwood.Spec.StoreTree
import Marwood.Lemmas.EqualAgree
import Marwood.Lemmas.EqualTotal
/-!
# `equal?` is structural equality of the abstract tree views (C14)

`View s v t` (`Spec/StoreTree.lean`) unfolds a value into a tree with no addresses. Here:

* `View.det` — the view is unique; `Tree.equiv_iff` — `Tree.equiv` (R7RS `equal?` on trees) is equality of
  trees; `eqvCells_atom` / `Atom.eqv_iff` — on two scalar cells the model's `eqvCells` is `Atom.eqv`, which is
  equality of the scalar.
* `pinned_view` — the pinned `equal` / `compare_pair` / `compare_vector` (no visited set) on two viewed values
  return `Tree.equiv` of the views, by induction on the fuel; `2 * size` of the LEFT view is enough fuel.
* `equal_view` — transfer to the repaired `equal` by `equal_agrees`.
Core Lean only.
-/
namespace Marwood.Store
open Outcome

/-! ## scalars -/

theorem Atom.eqv_iff (a b : Atom) : Atom.eqv a b = true ↔ a = b := by
  cases a <;> cases b <;> simp [Atom.eqv]

theorem Atom.eqv_refl (a : Atom) : Atom.eqv a a = true := (Atom.eqv_iff a a).mpr rfl

theorem Atom.toCell_inj {a b : Atom} (h : a.toCell = b.toCell) : a = b := by
  cases a <;> cases b <;> simp only [Atom.toCell] at h <;> first | rfl | (cases h; rfl) | cases h

theorem Atom.toCell_isPtr (a : Atom) : a.toCell.isPtr = false := by cases a <;> rfl

/-- **the leaf relation is the model's `eqv?`**: on two scalar cells `eqvCells` computes `Atom.eqv` -/
theorem eqvCells_atom (s : Store) (a b : Atom) : eqvCells s a.toCell b.toCell = .ok (Atom.eqv a b) := by
  cases a <;> cases b <;> rfl

theorem eqv_cells (s : Store) {cl cr : VCell} (hl : cl.isPtr = false) (hr : cr.isPtr = false) :
    eqv s cl cr = eqvCells s cl cr := by
  simp only [eqv, hl, Bool.false_and, Bool.false_eq_true, if_false, derefArg, get_nonptr s hl, get_nonptr s hr,
    bind_ok]

theorem strGet_of {s : Store} {i : Nat} {t : Text} (h : s.strs[i]? = some t) : s.strGet i = .ok t := by
  simp [Store.strGet, h]

theorem vecGet_of {s : Store} {i : Nat} {xs : List VCell} (h : s.vecs[i]? = some xs) : s.vecGet i = .ok xs := by
  simp [Store.vecGet, h]

/-! ## inversion of `View` -/

/-- the cell of a viewed value is not a reference and has the same view -/
theorem View.deref {s : Store} {v : VCell} {t : Tree} (h : View s v t) :
    ∃ c, s.get v = .ok c ∧ c.isPtr = false ∧ View s c t := by
  cases h with
  | atom hg => exact ⟨_, hg, Atom.toCell_isPtr _, .atom (get_nonptr s (Atom.toCell_isPtr _))⟩
  | str hg hs => exact ⟨_, hg, rfl, .str rfl hs⟩
  | pair hg ha hd => exact ⟨_, hg, rfl, .pair rfl ha hd⟩
  | vec hg hv hx => exact ⟨_, hg, rfl, .vec rfl hv hx⟩

/-- a viewed cell, kind by kind -/
theorem View.cell_cases {s : Store} {c : VCell} {t : Tree} (hc : c.isPtr = false) (h : View s c t) :
    (∃ a, c = a.toCell ∧ t = .leaf a) ∨
    (∃ id txt, c = .str id ∧ s.strs[id]? = some txt ∧ t = .str txt) ∨
    (∃ a d ta td, c = .pair a d ∧ View s (.ptr a) ta ∧ View s (.ptr d) td ∧ t = .pair ta td) ∨
    (∃ id xs ts, c = .vec id ∧ s.vecs[id]? = some xs ∧ ViewAll s xs ts ∧ t = .vec ts) := by
  have hg := get_nonptr s hc
  cases h with
  | atom h1 => rw [hg] at h1; cases h1; exact .inl ⟨_, rfl, rfl⟩
  | str h1 hs => rw [hg] at h1; cases h1; exact .inr (.inl ⟨_, _, rfl, hs, rfl⟩)
  | pair h1 ha hd => rw [hg] at h1; cases h1; exact .inr (.inr (.inl ⟨_, _, _, _, rfl, ha, hd, rfl⟩))
  | vec h1 hv hx => rw [hg] at h1; cases h1; exact .inr (.inr (.inr ⟨_, _, _, rfl, hv, hx, rfl⟩))

theorem ViewAll.length {s : Store} : ∀ {xs : List VCell} {ts : List Tree}, ViewAll s xs ts → xs.length = ts.length
  | _, _, .nil => rfl
  | _, _, .cons _ h => by simp [ViewAll.length h]

/-! ## the view is unique -/

mutual
theorem View.det {s : Store} : ∀ (t : Tree) {v : VCell} {t' : Tree}, View s v t → View s v t' → t = t'
  | .leaf a, _, _, h, h' => by
    cases h with
    | atom hg =>
      cases h' with
      | atom hg' => rw [hg] at hg'; rw [Atom.toCell_inj (Outcome.ok.inj hg')]
      | str hg' _ => rw [hg] at hg'; cases a <;> cases hg'
      | pair hg' _ _ => rw [hg] at hg'; cases a <;> cases hg'
      | vec hg' _ _ => rw [hg] at hg'; cases a <;> cases hg'
  | .str txt, _, _, h, h' => by
    cases h with
    | str hg hs =>
      cases h' with
      | @atom _ b hg' => rw [hg] at hg'; cases b <;> cases hg'
      | str hg' hs' => rw [hg] at hg'; cases hg'; rw [hs] at hs'; cases hs'; rfl
      | pair hg' _ _ => rw [hg] at hg'; cases hg'
      | vec hg' _ _ => rw [hg] at hg'; cases hg'
  | .pair ta td, _, _, h, h' => by
    cases h with
    | pair hg ha hd =>
      cases h' with
      | @atom _ b hg' => rw [hg] at hg'; cases b <;> cases hg'
      | str hg' _ => rw [hg] at hg'; cases hg'
      | pair hg' ha' hd' =>
        rw [hg] at hg'; cases hg'
        rw [View.det ta ha ha', View.det td hd hd']
      | vec hg' _ _ => rw [hg] at hg'; cases hg'
  | .vec ts, _, _, h, h' => by
    cases h with
    | vec hg hv hx =>
      cases h' with
      | @atom _ b hg' => rw [hg] at hg'; cases b <;> cases hg'
      | str hg' _ => rw [hg] at hg'; cases hg'
      | pair hg' _ _ => rw [hg] at hg'; cases hg'
      | vec hg' hv' hx' =>
        rw [hg] at hg'; cases hg'
        rw [hv] at hv'; cases hv'
        rw [ViewAll.det ts hx hx']
theorem ViewAll.det {s : Store} : ∀ (ts : List Tree) {xs : List VCell} {ts' : List Tree},
    ViewAll s xs ts → ViewAll s xs ts' → ts = ts'
  | [], _, _, h, h' => by
    cases h; cases h'; rfl
  | t :: ts, _, _, h, h' => by
    cases h with
    | cons h1 h2 =>
      cases h' with
      | cons h1' h2' => rw [View.det t h1 h1', ViewAll.det ts h2 h2']
end

/-! ## `Tree.equiv` is equality of trees -/

mutual
theorem Tree.equiv_iff : ∀ (t u : Tree), Tree.equiv t u = true ↔ t = u
  | .leaf a, u => by
    cases u <;> simp [Tree.equiv, Atom.eqv_iff]
  | .str a, u => by
    cases u <;> simp [Tree.equiv]
  | .pair a d, u => by
    cases u with
    | pair a' d' => simp [Tree.equiv, Tree.equiv_iff a a', Tree.equiv_iff d d']
    | _ => simp [Tree.equiv]
  | .vec ts, u => by
    cases u with
    | vec us => simp [Tree.equiv, Tree.equivAll_iff ts us]
    | _ => simp [Tree.equiv]
theorem Tree.equivAll_iff : ∀ (ts us : List Tree), Tree.equivAll ts us = true ↔ ts = us
  | [], us => by cases us <;> simp [Tree.equivAll]
  | t :: ts, us => by
    cases us with
    | nil => simp [Tree.equivAll]
    | cons u us => simp [Tree.equivAll, Tree.equiv_iff t u, Tree.equivAll_iff ts us]
end

theorem Tree.equiv_refl (t : Tree) : Tree.equiv t t = true := (Tree.equiv_iff t t).mpr rfl

instance : DecidableEq Tree := fun t u => decidable_of_iff _ (Tree.equiv_iff t u)

theorem Tree.equiv_eq_decide (t u : Tree) : Tree.equiv t u = decide (t = u) := by
  cases h : Tree.equiv t u
  · have : ¬ t = u := fun e => by rw [(Tree.equiv_iff t u).mpr e] at h; cases h
    simp [this]
  · simp [(Tree.equiv_iff t u).mp h]

theorem Tree.equivAll_length {ts us : List Tree} (h : ts.length ≠ us.length) : Tree.equivAll ts us = false := by
  cases hb : Tree.equivAll ts us
  · rfl
  · exact absurd (congrArg List.length ((Tree.equivAll_iff ts us).mp hb)) h

theorem Tree.size_pos : ∀ t : Tree, 0 < t.size
  | .leaf _ => by simp [Tree.size]
  | .str _ => by simp [Tree.size]
  | .pair _ _ => by simp [Tree.size]
  | .vec _ => by simp [Tree.size]

/-! ## `eqv?` on two viewed values: when it says yes, the views are the same tree -/

theorem eqvCells_view {s : Store} {cl cr : VCell} {tl tr : Tree} (hcl : cl.isPtr = false) (hcr : cr.isPtr = false)
    (hl : View s cl tl) (hr : View s cr tr) : ∃ b, eqvCells s cl cr = .ok b ∧ (b = true → tl = tr) := by
  rcases hl.cell_cases hcl with ⟨a, rfl, rfl⟩ | ⟨i, ta, rfl, hsa, rfl⟩ | ⟨a, d, ta, td, rfl, ha, hd, rfl⟩ |
      ⟨i, xs, ts, rfl, hv, hx, rfl⟩
  · rcases hr.cell_cases hcr with ⟨b, rfl, rfl⟩ | ⟨j, tb, rfl, hsb, rfl⟩ | ⟨a', d', ta', td', rfl, ha', hd', rfl⟩ |
        ⟨j, ys, us, rfl, hv', hx', rfl⟩
    · exact ⟨_, eqvCells_atom s a b, fun h => by rw [(Atom.eqv_iff a b).mp h]⟩
    · exact ⟨false, by cases a <;> rfl, fun h => by cases h⟩
    · exact ⟨false, by cases a <;> rfl, fun h => by cases h⟩
    · exact ⟨false, by cases a <;> rfl, fun h => by cases h⟩
  · rcases hr.cell_cases hcr with ⟨b, rfl, rfl⟩ | ⟨j, tb, rfl, hsb, rfl⟩ | ⟨a', d', ta', td', rfl, ha', hd', rfl⟩ |
        ⟨j, ys, us, rfl, hv', hx', rfl⟩
    · exact ⟨false, by cases b <;> rfl, fun h => by cases h⟩
    · refine ⟨ta == tb, by simp only [eqvCells, strGet_of hsa, strGet_of hsb, bind_ok], fun h => ?_⟩
      rw [eq_of_beq h]
    · exact ⟨false, rfl, fun h => by cases h⟩
    · exact ⟨false, rfl, fun h => by cases h⟩
  · rcases hr.cell_cases hcr with ⟨b, rfl, rfl⟩ | ⟨j, tb, rfl, hsb, rfl⟩ | ⟨a', d', ta', td', rfl, ha', hd', rfl⟩ |
        ⟨j, ys, us, rfl, hv', hx', rfl⟩
    · exact ⟨false, by cases b <;> rfl, fun h => by cases h⟩
    · exact ⟨false, rfl, fun h => by cases h⟩
    · refine ⟨a == a' && d == d', rfl, fun h => ?_⟩
      simp only [Bool.and_eq_true, beq_iff_eq] at h
      obtain ⟨rfl, rfl⟩ := h
      rw [View.det ta ha ha', View.det td hd hd']
    · exact ⟨false, rfl, fun h => by cases h⟩
  · rcases hr.cell_cases hcr with ⟨b, rfl, rfl⟩ | ⟨j, tb, rfl, hsb, rfl⟩ | ⟨a', d', ta', td', rfl, ha', hd', rfl⟩ |
        ⟨j, ys, us, rfl, hv', hx', rfl⟩
    · exact ⟨false, by cases b <;> rfl, fun h => by cases h⟩
    · exact ⟨false, rfl, fun h => by cases h⟩
    · exact ⟨false, rfl, fun h => by cases h⟩
    · exact ⟨false, rfl, fun h => by cases h⟩

theorem eqv_view {s : Store} {l r : VCell} {tl tr : Tree} (hl : View s l tl) (hr : View s r tr) :
    ∃ b, eqv s l r = .ok b ∧ (b = true → tl = tr) := by
  obtain ⟨cl, hgl, hcl, hl'⟩ := hl.deref
  obtain ⟨cr, hgr, hcr, hr'⟩ := hr.deref
  unfold eqv
  by_cases h : (l.isPtr && r.isPtr && l == r) = true
  · rw [if_pos h]
    simp only [Bool.and_eq_true, beq_iff_eq] at h
    obtain ⟨_, rfl⟩ := h
    exact ⟨true, rfl, fun _ => View.det tl hl hr⟩
  · rw [if_neg h]
    simp only [derefArg, hgl, hgr, bind_ok]
    exact eqvCells_view hcl hcr hl' hr'

end Marwood.Store
