import Marwood.Lemmas.CompileCorrect3ConcreteAll
import Marwood.Lemmas.CompileCorrect3Err
import Marwood.Lemmas.CompileCorrect2ConcreteDemo
/-!
# T01.3 stage 3, error case — `ErrLaws3` on the concrete heap model

The dispatch part (`callee_other`, `pair_other`: a represented value that is not a primitive procedure, and a heap
pair, are no procedures for CALL/TCALL) is a theorem for `concreteOps ext`; the failing builtins (`call_err`) are the
hypothesis, as the succeeding ones are in `concrete_laws3`.
-/
namespace Marwood.Lemmas.CompileCorrect3.Conc
open Marwood Marwood.Vm Marwood.Vm.Concrete Marwood.Lemmas.CompileCorrect Marwood.Lemmas.CompileCorrect2
  Marwood.Lemmas.CompileCorrect2.Conc Marwood.Lemmas.CompileCorrect3
open Marwood.Spec.Eval (Val Cell evalN)

variable {ext : ExtOps} {E : AtomEnc} {named : Text → Prop} {slot : Text → Nat} {LM : Nat → Nat}
  {final : List LambdaM} {setG : Text → Prop}

theorem callee_of_deref_pair {h : CHeap} {v : VCell} {a d : Nat} (hd : Concrete.deref h v = .pair a d) :
    Concrete.callee h v = .other := by
  cases v with
  | ptr q =>
    have hg : Concrete.getAt h q = .pair _ _ := hd
    show (match h.cells[q]? with | some c => calleeOfCell c | none => Callee.other) = _
    unfold Concrete.getAt at hg
    cases hc : h.cells[q]? with
    | none => rfl
    | some cell =>
      rw [hc] at hg
      cases cell with
      | val u => simp only [Concrete.repr] at hg; subst hg; rfl
      | lexEnv s => rfl
      | vector s => rfl
      | lambda s => cases hg
      | cont s => cases hg
  | pair a b => rfl
  | _ => cases hd

/-- **`ErrLaws3` on the concrete heap model**: the dispatch part is a theorem, the failing builtins are the
    hypothesis. -/
theorem concrete_errLaws3
    (hcall : ∀ n W h (σ : SSt) vf p vs ws c (σ' : SSt), Inv3 (cD3 ext E named slot LM final setG) W h σ →
      (cD3 ext E named slot LM final setG).VR h σ.store vf (.prim p) →
      All2 (VR3 (cD3 ext E named slot LM final setG) W h σ.store) vs ws → (evalN n).apply (.prim p) ws σ = .err c σ' →
      c ≠ .syntax →
      ∃ id e', (concreteOps ext).callee h vf = .builtin id ∧ (concreteOps ext).builtinKind h id = .generic ∧
        builtinResult (concreteOps ext) h id vs.reverse = .err e' ∧ machClass e' = specClass c ∧
        Inv3 (cD3 ext E named slot LM final setG) W h σ' ∧
        Ext3 (cD3 ext E named slot LM final setG) h σ.store h σ'.store) :
    ErrLaws3 (cD3 ext E named slot LM final setG) where
  call_err := hcall
  callee_other := by
    intro h S v w hv hp
    have hv' : cVR ext E h S v w := hv
    cases hv' with
    | base hb =>
      obtain ⟨c, hc, hv⟩ := hb
      have hnp := cell_nonProc hc hp
      rcases hv with rfl | ⟨q, rfl, hg⟩
      · exact callee_nonproc_imm h _ hnp
      · exact callee_nonproc_ptr h q (by rw [show Concrete.getAt h q = c from hg]; exact hnp)
    | pair hs hd _ _ => exact callee_of_deref_pair hd
    | vec hs hv' _ => cases hv'
  pair_other := fun h v a d hd => callee_of_deref_pair hd

end Marwood.Lemmas.CompileCorrect3.Conc
