import Marwood.Lemmas.StackWF
/-!
# The hypotheses about the (generic) heap under which WF-stack is an invariant, and inversion
lemmas for the small operations of the machine
-/
namespace Marwood.Vm
open Verify Stack

variable {H : Type}

/-- one heap operation of the machine other than the creation of a continuation object. `setAt`
    (`*heap.get_at_index_mut(ptr) = v`, a MOV / MOVIMM to a `Ptr` destination) is not among them: the
    bytecode verifier rejects such a destination (`Verify.dstOk`) — it would overwrite whatever the cell
    holds, the bytecode of a lambda included. -/
inductive HeapStep (ops : HeapOps H) : H → H → Prop
  | put (h : H) (v : VCell) : HeapStep ops h (ops.put h v).1
  | maybePut (h : H) (v : VCell) : HeapStep ops h (ops.maybePut h v).1
  | globPut (h : H) (n : Nat) (v : VCell) : HeapStep ops h (ops.globPut h n v)
  | envPut {h h' : H} {e k : Nat} {v : VCell} : ops.envPut h e k v = some h' → HeapStep ops h h'
  | makeClosure {h h' : H} {lam ep bp : Nat} {st : Stack} {c : VCell} :
      ops.makeClosure h lam ep bp st = .ok (h', c) → HeapStep ops h h'
  | makeActivation {h h' : H} {lam env bp : Nat} {st : Stack} {e : Nat} :
      ops.makeActivation h lam env bp st = .ok (h', e) → HeapStep ops h h'
  | vectorPush {h h' : H} {vec v : VCell} : ops.vectorPush h vec v = .ok h' → HeapStep ops h h'
  | builtinEval {h h' : H} {id : Nat} {args : List VCell} {v : VCell} :
      ops.builtinEval h id args = .ok (h', v) → HeapStep ops h h'
  | compileEval {h h' : H} {v lam : VCell} : ops.compileEval h v = .ok (h', lam) → HeapStep ops h h'

/-- **The hypotheses about the heap** (a parameter of every theorem below, not an axiom). `H` is
    generic; these are the facts about the real heap (`heap.rs`, `lambda.rs`, `compile.rs`) that the
    stack discipline rests on:

    * `e` — the stack pointer at which evaluations are entered (0 in the real VM: `Vm::new`, the
      error epilogue and — by the theorem `sp_restored_at_halt` — every successful evaluation).
    * `code h l` — ghost: the bytecode vector `Lambda::bc` of the lambda object in heap cell `l`.
    * `HInv` — ghost invariant of reachable heaps; below, "every heap" means "every `HInv` heap".
    * `fetch_code` — `lambda().get(ip.1)` reads that vector.
    * `step_inv`, `step_code` — no heap operation of `run_one` (allocation, `set!`, environment and
      vector updates, builtins, `eval`'s compilation) changes the bytecode of an existing lambda
      (`Lambda::bc` is written only by `emit` during compilation, before the lambda is `put`), and
      each preserves `HInv`. Garbage collection is not a heap operation of `run_one`; see `GcLaws`.
    * `callee_closure`, `callee_lambda` — whatever CALL/TCALL/ENTER find in `acc` when it is a
      `Closure(l, _)` or a pointer to a bare `Lambda`, `l` is *procedure* code (`[VARARG] ENTER … RET`)
      that the bytecode verifier accepts. This is the fact the `bytecode-verifier` stream checks on
      every lambda object of the real heap: closures are made by CLOSURE from `compile_lambda`
      output; bare lambda pointers come from `compile_runnable`'s entry code and from `eval`.
    * `Val` and the `*_val` laws — **what a value is**, and that the heap hands out values where the
      machine puts the result on the stack or into `acc`: an immediate the verifier accepts as a value, the
      address `put` / `maybe_put` / the continuation and closure constructors return, the vector VPUSH leaves
      in `acc`, a global slot, a lexical-environment slot (read through at most one `LexicalEnvPtr`
      indirection, `load_operand`). For the concrete heap `Val = IsValue` and the read laws hold of the
      *guarded* reads of `vops` (`Lemmas/ConcreteLawsVal.lean`); for the toy heaps `Val = fun _ => True`.
    * `info_code` — a lambda's formals cover the argument cells its code addresses
      (`argNeed bc ≤ args.len()`, compared on every real lambda by the `bytecode-verifier` stream).
    * `cont_wf`, `newCont_inv`, `newCont_code` — the only continuation objects in the heap are those
      `call/cc` created (`Continuation` has no other constructor call): every continuation CALL/TCALL
      can find is a snapshot of a WF state, *provided* `call/cc` only ever stores snapshots of WF
      states — which is what the preservation theorem proves at the one place it uses `newCont_inv`. -/
structure CodeLaws (ops : HeapOps H) where
  e : Nat
  code : H → Nat → Option (List VCell)
  HInv : H → Prop
  Val : VCell → Prop
  val_imm : ∀ v, Verify.isVal v = true → Val v
  put_val : ∀ h v, Val (ops.put h v).2
  maybePut_val : ∀ h v, Val (ops.maybePut h v).2
  newCont_val : ∀ h c, Val (ops.newCont h c).2
  makeClosure_val : ∀ {h h' lam ep bp st c}, ops.makeClosure h lam ep bp st = .ok (h', c) → Val c
  /-- VPUSH leaves the popped cell `d` in `acc` (fix 43d0413): a push through `deref d` succeeds only when `d` is a
      value (a non-pointer is its own dereference, and `vectorPush` rejects what is not a vector) -/
  vectorPush_val : ∀ {h h' d v}, ops.vectorPush h (ops.deref h d) v = .ok h' → Val d
  globGet_val : ∀ h n, Val (ops.globGet h n)
  envGet_val : ∀ {h e k v}, ops.envGet h e k = some v → (∀ e' k', v ≠ .lexEnvPtr e' k') → Val v
  envGet_val2 : ∀ {h e k e' k' w}, ops.envGet h e k = some (.lexEnvPtr e' k') → ops.envGet h e' k' = some w → Val w
  info_code : ∀ {h l bc info}, HInv h → code h l = some bc → ops.lambdaInfo h l = some info →
    argNeed bc ≤ info.argc
  fetch_code : ∀ {h l bc}, HInv h → code h l = some bc → ∀ o, ops.fetch h l o = bc[o]?
  step_inv : ∀ {h h'}, HInv h → HeapStep ops h h' → HInv h'
  step_code : ∀ {h h' l bc}, HInv h → HeapStep ops h h' → code h l = some bc → code h' l = some bc
  callee_closure : ∀ {h v lam env}, HInv h → ops.callee h v = .closure lam env →
    ∃ t, tyOf (code h) lam = some t ∧ t.entry = false
  callee_lambda : ∀ {h lam}, HInv h → ops.callee h (.ptr lam) = .lambda →
    ∃ t, tyOf (code h) lam = some t ∧ t.entry = false
  cont_wf : ∀ {h v c}, HInv h → ops.callee h v = .continuation c → ∃ K, ContWF Val (tyOf (code h)) e c K
  newCont_inv : ∀ {h c K}, HInv h → ContWF Val (tyOf (code h)) e c K → HInv (ops.newCont h c).1
  newCont_code : ∀ {h c l bc}, HInv h → code h l = some bc → code (ops.newCont h c).1 l = some bc

variable {ops : HeapOps H}

/-- `h'` is a later heap: invariant holds, code objects kept -/
structure Ext (cl : CodeLaws ops) (h h' : H) : Prop where
  inv : cl.HInv h'
  code : ∀ l bc, cl.code h l = some bc → cl.code h' l = some bc

theorem Ext.refl {cl : CodeLaws ops} {h : H} (hi : cl.HInv h) : Ext cl h h := ⟨hi, fun _ _ x => x⟩

theorem Ext.trans {cl : CodeLaws ops} {h1 h2 h3 : H} (a : Ext cl h1 h2) (b : Ext cl h2 h3) : Ext cl h1 h3 :=
  ⟨b.inv, fun l bc x => b.code l bc (a.code l bc x)⟩

theorem Ext.step {cl : CodeLaws ops} {h h' : H} (hi : cl.HInv h) (hs : HeapStep ops h h') : Ext cl h h' :=
  ⟨cl.step_inv hi hs, fun _ _ x => cl.step_code hi hs x⟩

theorem Ext.ty {cl : CodeLaws ops} {h h' : H} (a : Ext cl h h') :
    ∀ l t, tyOf (cl.code h) l = some t → tyOf (cl.code h') l = some t := tyOf_mono a.code

/-- the lambda whose formals ENTER compares the argument count with: the callee in `acc` -/
def enterLam (ops : HeapOps H) (h : H) (acc : VCell) : Option Nat :=
  match ops.callee h acc with
  | .closure lam _ => some lam
  | .lambda => (match acc with | .ptr p => some p | _ => none)
  | _ => none

/-- WF-stack of a machine state under the heap laws: the frame chain (`wf`), `acc` holds a value, and — in
    a procedure prologue — the argument count CALL / TCALL / VARARG left covers the argument cells the code
    addresses, or ENTER is about to compare it with the formals of *this* code object (`acc` still holds
    the callee CALL / TCALL dispatched on) -/
structure WFS (cl : CodeLaws ops) (s : St H) (K : List FDesc) : Prop where
  inv : cl.HInv s.heap
  wf : WF cl.Val (tyOf (cl.code s.heap)) cl.e s K
  acc : cl.Val s.acc
  pre : ∀ t n, tyOf (cl.code s.heap) s.ipL = some t → stateAt t.tm s.ipO = some .pre →
    s.stack.cellAt (s.stack.sp - 2) = .argc n →
    argNeed t.bc ≤ n ∨ enterLam ops s.heap s.acc = some s.ipL

/-! ## inversion of the small operations -/

theorem bind_inv' {α β : Type} {x : Outcome α} {f : α → Outcome β} {r : β} (h : (x >>= f) = .ok r) :
    ∃ a, x = .ok a ∧ f a = .ok r := by
  cases x with
  | ok a => exact ⟨a, rfl, h⟩
  | err e => cases h
  | panic m => cases h

theorem pop_ok {st st' : Stack} {v : VCell} (h : st.pop = .ok (v, st')) :
    st'.sp + 1 = st.sp ∧ st'.cells = st.cells ∧ v = st.cellAt st.sp := by
  unfold Stack.pop at h
  split at h
  · split at h
    · rename_i hp v' hv
      cases h
      refine ⟨by simp; omega, rfl, ?_⟩
      unfold Stack.cellAt; rw [hv]; rfl
    · cases h
  · cases h

theorem popN_ok : ∀ {k : Nat} {st st' : Stack} {vs : List VCell},
    popN k st = .ok (vs, st') → st'.sp + k = st.sp ∧ st'.cells = st.cells := by
  intro k
  induction k with
  | zero => intro st st' vs h; simp [popN] at h; rcases h with ⟨rfl, rfl⟩; simp
  | succ k ih =>
    intro st st' vs h
    simp only [popN, Bind.bind] at h
    cases hp : st.pop with
    | ok r =>
      obtain ⟨v, st1⟩ := r
      rw [hp] at h; simp only at h
      have p1 := pop_ok hp
      cases hq : popN k st1 with
      | ok r2 =>
        obtain ⟨vs2, st2⟩ := r2
        rw [hq] at h; simp only at h
        have p2 := ih hq
        cases h
        exact ⟨by omega, by rw [p2.2, p1.2.1]⟩
      | err e => rw [hq] at h; cases h
      | panic m => rw [hq] at h; cases h
    | err e => rw [hp] at h; cases h
    | panic m => rw [hp] at h; cases h

theorem readOpcode_ok {s s1 : St H} {op : Op} (h : readOpcode ops s = .ok (op, s1)) :
    ops.fetch s.heap s.ipL s.ipO = some (.opcode op) ∧ s1 = { s with ipO := s.ipO + 1 } := by
  unfold readOpcode at h
  split at h
  · cases h
  · split at h
    · rename_i op' hf
      cases h
      exact ⟨hf, rfl⟩
    · cases h
    · cases h

theorem readOperand_ok {s s1 : St H} {v : VCell} (h : readOperand ops s = .ok (v, s1)) :
    ops.fetch s.heap s.ipL s.ipO = some v ∧ s1 = { s with ipO := s.ipO + 1 } := by
  unfold readOperand at h
  split at h
  · cases h
  · cases hf : ops.fetch s.heap s.ipL s.ipO with
    | none => rw [hf] at h; cases h
    | some c =>
      rw [hf] at h
      cases c <;> first | (cases h; exact ⟨rfl, rfl⟩) | cases h

theorem loadOperand_ok {s s1 : St H} {v : VCell} (h : loadOperand ops s = .ok (v, s1)) :
    s1 = { s with ipO := s.ipO + 1 } := by
  unfold loadOperand at h
  simp only [Bind.bind] at h
  cases hr : readOperand ops s with
  | ok r =>
    obtain ⟨opnd, s2⟩ := r
    rw [hr] at h
    simp only at h
    have e := (readOperand_ok hr).2
    subst e
    split at h
    · cases h; rfl
    · cases h; rfl
    · split at h
      · split at h
        · cases h; rfl
        · cases h
        · cases h
      · cases h
    · split at h
      · cases h
      · cases h; rfl
    · split at h
      · cases h
      · split at h
        · cases h
        · cases h; rfl
      · cases h; rfl
    · cases h
  | err e => rw [hr] at h; cases h
  | panic m => rw [hr] at h; cases h

/-- a store through an operand the verifier accepts as a destination (`acc`, a global slot, an
    environment slot) leaves the stack alone, and is a heap step -/
theorem storeOperand_ok {cl : CodeLaws ops} {s s1 : St H} {v : VCell} (hi : cl.HInv s.heap)
    (h : storeOperand ops s v = .ok s1)
    (hnb : dstOk (ops.fetch s.heap s.ipL s.ipO) = true) :
    s1.stack = s.stack ∧ s1.bp = s.bp ∧ s1.ipL = s.ipL ∧ s1.ipO = s.ipO + 1 ∧ Ext cl s.heap s1.heap := by
  unfold storeOperand at h
  simp only [Bind.bind] at h
  cases hr : readOperand ops s with
  | ok r =>
    obtain ⟨opnd, s2⟩ := r
    rw [hr] at h
    simp only at h
    obtain ⟨hf, e⟩ := readOperand_ok hr
    subst e
    rw [hf] at hnb
    split at h
    · cases h; exact ⟨rfl, rfl, rfl, rfl, Ext.refl hi⟩
    · simp [dstOk] at hnb
    · simp [dstOk] at hnb
    · cases h; exact ⟨rfl, rfl, rfl, rfl, Ext.step hi (.globPut _ _ _)⟩
    · split at h
      · cases h
      · split at h
        · cases h
        · rename_i h' hp
          cases h; exact ⟨rfl, rfl, rfl, rfl, Ext.step hi (.envPut hp)⟩
      · split at h
        · cases h
        · rename_i h' hp
          cases h; exact ⟨rfl, rfl, rfl, rfl, Ext.step hi (.envPut hp)⟩
    · cases h
  | err e => rw [hr] at h; cases h
  | panic m => rw [hr] at h; cases h

/-- what a store does to `acc` -/
theorem storeOperand_acc {s s1 : St H} {v : VCell} (h : storeOperand ops s v = .ok s1) :
    s1.acc = v ∨ s1.acc = s.acc := by
  unfold storeOperand at h
  simp only [Bind.bind] at h
  cases hr : readOperand ops s with
  | ok r =>
    obtain ⟨opnd, s2⟩ := r
    rw [hr] at h
    simp only at h
    obtain ⟨hf, e⟩ := readOperand_ok hr
    subst e
    split at h
    · cases h; exact .inl rfl
    · cases h; exact .inr rfl
    · obtain ⟨st, _, h⟩ := bind_inv' h
      cases h; exact .inr rfl
    · cases h; exact .inr rfl
    · split at h
      · cases h
      · split at h
        · cases h
        · cases h; exact .inr rfl
      · split at h
        · cases h
        · cases h; exact .inr rfl
    · cases h
  | err e => rw [hr] at h; cases h
  | panic m => rw [hr] at h; cases h

theorem get_ok {st : Stack} {i : Nat} {v : VCell} (h : st.get i = .ok v) :
    v = st.cellAt i ∧ i < st.cells.length := by
  unfold Stack.get at h
  split at h
  · rename_i v' hv
    cases h
    refine ⟨by unfold Stack.cellAt; rw [hv]; rfl, ?_⟩
    by_cases hl : i < st.cells.length
    · exact hl
    · rw [List.getElem?_eq_none (by omega)] at hv; cases hv
  · cases h

/-- **what MOV / PUSH load is a value**: `acc`, a global slot, an environment slot (`*_val` laws) or an
    argument cell of the current frame (`hbp`); a `Ptr` source is rejected by the verifier (`Verify.srcOk`) -/
theorem loadOperand_val {cl : CodeLaws ops} {s s1 : St H} {v : VCell} (h : loadOperand ops s = .ok (v, s1))
    (hacc : cl.Val s.acc) (hsrc : srcOk (ops.fetch s.heap s.ipL s.ipO) = true)
    (hbp : ∀ off, ops.fetch s.heap s.ipL s.ipO = some (.bpOffset off) → 0 ≤ (s.bp : Int) + off →
      ((s.bp : Int) + off).toNat < s.stack.cells.length → cl.Val (s.stack.cellAt ((s.bp : Int) + off).toNat)) :
    cl.Val v := by
  unfold loadOperand at h
  simp only [Bind.bind] at h
  cases hr : readOperand ops s with
  | ok r =>
    obtain ⟨opnd, s2⟩ := r
    rw [hr] at h
    simp only at h
    obtain ⟨hf, e⟩ := readOperand_ok hr
    subst e
    rw [hf] at hsrc
    split at h
    · cases h; exact hacc
    · simp [srcOk] at hsrc
    · rename_i off
      split at h
      · rename_i h0
        obtain ⟨w, hg, h⟩ := bind_inv' h
        cases h
        obtain ⟨e1, e2⟩ := get_ok hg
        rw [e1]
        exact hbp off hf h0 e2
      · cases h
    · rename_i n
      have hv := cl.globGet_val s.heap n
      split at h
      · cases h
      · cases h; exact hv
    · rename_i n
      cases hg : ops.envGet s.heap s.ep n with
      | none => rw [hg] at h; cases h
      | some w =>
        rw [hg] at h
        cases w with
        | lexEnvPtr e k =>
          simp only at h
          cases hw : ops.envGet s.heap e k with
          | none => rw [hw] at h; cases h
          | some w2 =>
            rw [hw] at h
            cases h
            exact cl.envGet_val2 hg hw
        | _ =>
          cases h
          exact cl.envGet_val hg (by intro e' k' he; cases he)
    · cases h
  | err e => rw [hr] at h; cases h
  | panic m => rw [hr] at h; cases h

theorem getOffset_ok {st : Stack} {k : Nat} {v : VCell} (h : st.getOffset (-(k : Int)) = .ok v) :
    k ≤ st.sp ∧ v = st.cellAt (st.sp - k) := by
  unfold Stack.getOffset at h
  simp only at h
  split at h
  · rename_i h0
    have e : ((st.sp : Int) + -(k : Int)).toNat = st.sp - k := by omega
    rw [e] at h
    exact ⟨by omega, (get_ok h).1⟩
  · cases h

theorem setOffset_ok {st st' : Stack} {k : Nat} {v : VCell} (h : st.setOffset (-(k : Int)) v = .ok st') :
    k ≤ st.sp ∧ st.sp - k < st.cells.length ∧ st' = { st with cells := st.cells.set (st.sp - k) v } := by
  unfold Stack.setOffset at h
  simp only at h
  split at h
  · rename_i h0
    have e : ((st.sp : Int) + -(k : Int)).toNat = st.sp - k := by omega
    rw [e] at h
    unfold Stack.set at h
    split at h
    · rename_i hl
      cases h
      exact ⟨by omega, hl, rfl⟩
    · cases h
  · cases h

theorem usub_ok {a b r : Nat} {site : String} (h : usub a b site = .ok r) : b ≤ a ∧ r = a - b := by
  unfold usub at h
  split at h
  · cases h; exact ⟨by assumption, rfl⟩
  · cases h

theorem asArgc_ok {v : VCell} {n : Nat} (h : asArgc v = .ok n) : v = .argc n := by
  cases v <;> simp only [asArgc] at h <;> cases h
  rfl

theorem asPtr_ok {v : VCell} {n : Nat} (h : asPtr v = .ok n) : v = .ptr n := by
  cases v <;> simp only [asPtr] at h <;> cases h
  rfl

theorem asEp_ok {v : VCell} {n : Nat} (h : asEp v = .ok n) : v = .envPtr n := by
  cases v <;> simp only [asEp] at h <;> cases h
  rfl

theorem asBp_ok {v : VCell} {n : Nat} (h : asBp v = .ok n) : v = .basePtr n := by
  cases v <;> simp only [asBp] at h <;> cases h
  rfl

theorem asIp_ok {v : VCell} {l o : Nat} (h : asIp v = .ok (l, o)) : v = .instrPtr l o := by
  cases v <;> simp only [asIp] at h <;> cases h
  rfl

/-- ENTER: pushes the saved `bp`, makes the last argument the frame base -/
theorem stepEnter_ok {cl : CodeLaws ops} {s s' : St H} (hi : cl.HInv s.heap) (h : stepEnter ops s = .ok s') :
    s'.stack = s.stack.push (.basePtr s.bp) ∧ s'.bp + 4 = s.stack.sp + 1 ∧ s'.ipL = s.ipL ∧
      s'.ipO = s.ipO ∧ Ext cl s.heap s'.heap := by
  unfold stepEnter at h
  simp only [Bind.bind] at h
  repeat' split at h
  all_goals first | (cases h; done) | skip
  · obtain ⟨hu1, hu2⟩ := usub_ok ‹usub _ _ _ = Outcome.ok _›
    simp only [push_sp] at hu1 hu2
    subst hu2
    cases h
    exact ⟨rfl, by simp only; omega, rfl, rfl, Ext.step hi (.makeActivation ‹_›)⟩
  · obtain ⟨hu1, hu2⟩ := usub_ok ‹usub _ _ _ = Outcome.ok _›
    simp only [push_sp] at hu1 hu2
    subst hu2
    cases h
    exact ⟨rfl, by simp only; omega, rfl, rfl, Ext.refl hi⟩

theorem bind_inv {α β : Type} {x : Outcome α} {f : α → Outcome β} {r : β} (h : (x >>= f) = .ok r) :
    ∃ a, x = .ok a ∧ f a = .ok r := by
  cases x with
  | ok a => exact ⟨a, rfl, h⟩
  | err e => cases h
  | panic m => cases h

/-- RET: reads the header -/
theorem stepRet_ok {s s' : St H} (h : stepRet s = .ok s') :
    ∃ n ep l o bp', s.stack.cellAt (s.bp + 1) = .argc n ∧ s.stack.cellAt (s.bp + 2) = .envPtr ep ∧
      s.stack.cellAt (s.bp + 3) = .instrPtr l o ∧ s.stack.cellAt (s.bp + 4) = .basePtr bp' ∧
      n ≤ s.bp ∧ s' = { s with stack := { s.stack with sp := s.bp - n }, ep := ep, ipL := l, ipO := o, bp := bp' } := by
  unfold stepRet at h
  obtain ⟨n, h1, h⟩ := bind_inv h
  obtain ⟨v1, g1, a1⟩ := bind_inv h1
  obtain ⟨sp, hu, h⟩ := bind_inv h
  obtain ⟨ep, h2, h⟩ := bind_inv h
  obtain ⟨v2, g2, a2⟩ := bind_inv h2
  obtain ⟨ip, h3, h⟩ := bind_inv h
  obtain ⟨v3, g3, a3⟩ := bind_inv h3
  obtain ⟨l, o⟩ := ip
  obtain ⟨bp', h4, h⟩ := bind_inv h
  obtain ⟨v4, g4, a4⟩ := bind_inv h4
  have e1 := asArgc_ok a1
  have e2 := asEp_ok a2
  have e3 := asIp_ok a3
  have e4 := asBp_ok a4
  obtain ⟨hu1, hu2⟩ := usub_ok hu
  subst e1 e2 e3 e4 hu2
  cases h
  exact ⟨n, ep, l, o, bp', (get_ok g1).1.symm, (get_ok g2).1.symm, (get_ok g3).1.symm,
    (get_ok g4).1.symm, hu1, rfl⟩

/-- ENTER compares the argument count with the formals of the callee in `acc` -/
theorem stepEnter_lam {s s' : St H} (h : stepEnter ops s = .ok s') :
    ∃ lam info, enterLam ops s.heap s.acc = some lam ∧ ops.lambdaInfo s.heap lam = some info ∧
      s.stack.cellAt (s.stack.sp - 2) = .argc info.argc := by
  have key : ∀ (lam : Nat) (cenv : Option Nat), enterLam ops s.heap s.acc = some lam →
      (match ops.lambdaInfo s.heap lam with
        | none => (Outcome.err Err.expectedType : Outcome (St H))
        | some info => do
          let a ← s.stack.getOffset (-2)
          let n ← asArgc a
          if n ≠ info.argc then Outcome.err Err.invalidNumArgs else do
          let st := s.stack.push (.basePtr s.bp)
          let bp ← usub st.sp 4 "enter: sp - 4"
          let s := { s with stack := st, bp := bp }
          match cenv with
          | none => .ok s
          | some env => do
            let (h, e) ← ops.makeActivation s.heap lam env s.bp s.stack
            .ok { s with heap := h, ep := e }) = .ok s' →
      ∃ lam info, enterLam ops s.heap s.acc = some lam ∧ ops.lambdaInfo s.heap lam = some info ∧
        s.stack.cellAt (s.stack.sp - 2) = .argc info.argc := by
    intro lam cenv hl h
    cases hinfo : ops.lambdaInfo s.heap lam with
    | none => rw [hinfo] at h; cases h
    | some info =>
      rw [hinfo] at h
      dsimp only at h
      obtain ⟨a, hg, h⟩ := bind_inv h
      obtain ⟨n, ha, h⟩ := bind_inv h
      have e2 : (-2 : Int) = -((2 : Nat) : Int) := by omega
      rw [e2] at hg
      obtain ⟨_, hg'⟩ := getOffset_ok hg
      have ea := asArgc_ok ha
      split at h
      · cases h
      · rename_i hn
        have : n = info.argc := by simpa using hn
        subst this
        exact ⟨lam, info, hl, hinfo, by rw [← hg', ea]⟩
  unfold stepEnter at h
  cases hc : ops.callee s.heap s.acc with
  | closure l e =>
    rw [hc] at h
    exact key l (some e) (by unfold enterLam; rw [hc]) h
  | lambda =>
    rw [hc] at h
    cases hp : asPtr s.acc with
    | ok p =>
      rw [hp] at h
      exact key p none (by unfold enterLam; rw [hc, asPtr_ok hp]) h
    | err e => rw [hp] at h; cases h
    | panic m => rw [hp] at h; cases h
  | builtin id => rw [hc] at h; cases h
  | continuation c => rw [hc] at h; cases h
  | other => rw [hc] at h; cases h

theorem stepEnter_acc {s s' : St H} (h : stepEnter ops s = .ok s') : s'.acc = s.acc := by
  unfold stepEnter at h
  simp only [Bind.bind] at h
  repeat' split at h
  all_goals first | (cases h; done) | (cases h; rfl)

end Marwood.Vm
