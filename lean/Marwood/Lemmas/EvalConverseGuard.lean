import Marwood.Lemmas.EvalExtraCut
/-!
# The slack-guarded evaluator (the guard of the CONVERSE direction)

`guardN` (`EvalExtraCut.lean`) times out where a store-size-fuelled helper (`valToDatum`, `listOfVal`,
`equalVal`, `memWalk` with fuel `store.size + 1`) would run into its bound. The converse simulation
goes from the run in the LARGER store (the expansion: `k` extra cells) to the run in the smaller one
(the native meaning), whose helpers have `k` units of fuel LESS. `sguardN k` therefore times out
where a helper would come within `k` of its bound: no cut with fuel `store.size + 1 - k`.

* `helperCutAt F`: `helperCut` with the helper fuel `F` made explicit (`helperCut_eq_at`);
* `sguardN k n`; `sguardN 0 = guardN` in effect (`sguardApply_zero`); `sguardN k n ⊑ evalN n`.
-/
namespace Marwood.Spec.Eval
open Marwood

/-- the application `f args` would run a store-size-fuelled helper given fuel `F` into its bound -/
def helperCutAt (F : Nat) (f : Val) (args : List Val) (σ : Array Cell) : Bool :=
  match f, args with
  | .prim .display, [v] | .prim .write, [v] | .prim .eval, [v] => valCut F σ v
  | .prim .equalP, [a, b] => eqCut F σ a b
  | .prim .length, [v] | .prim .reverse, [v] | .prim .listToVector, [v] | .prim .listP, [v] =>
    listCut F σ v
  | .prim .append, [a, _] => listCut F σ a
  | .prim .append, [a, b, _] => listCut F σ a || listCut F σ b
  | .prim .apply, _ :: a :: as => listCut F σ ((a :: as).getLast?.getD .nil)
  | .prim .map, _ :: l :: ls | .prim .forEach, _ :: l :: ls => (l :: ls).any (listCut F σ)
  | .prim .memv, [_, l] | .prim .memq, [_, l] | .prim .assv, [_, l] | .prim .assq, [_, l] =>
    spineCut F σ l
  | _, _ => false

theorem helperCut_eq_at (f : Val) (args : List Val) (σ : Array Cell) :
    helperCut f args σ = helperCutAt (σ.size + 1) f args σ := by
  cases f with
  | prim p =>
    cases p <;> (rcases args with _ | ⟨a, _ | ⟨b, _ | ⟨c, _ | ⟨d, t⟩⟩⟩⟩ <;> rfl)
  | _ => rfl

/-- `applyStep`, timing out where a helper would come within `k` of its fuel bound -/
def sguardApply (k : Nat) (r : Rec) (f : Val) (args : List Val) : M Val := fun st =>
  if helperCutAt (st.store.size + 1 - k) f args st.store then .timeout else applyStep r f args st

/-- the evaluator in which coming within `k` of a helper's fuel bound is a time-out -/
def sguardN (k : Nat) : Nat → Rec
  | 0 => { eval := fun _ _ => timeoutM, apply := fun _ _ => timeoutM }
  | n+1 => { eval := evalStep (sguardN k n), apply := sguardApply k (sguardN k n) }

theorem sguardApply_zero (r : Rec) (f : Val) (args : List Val) : sguardApply 0 r f args = guardApply r f args := by
  funext st
  simp only [sguardApply, guardApply, Nat.sub_zero, ← helperCut_eq_at]

theorem sguardApply_of_not_cut (k : Nat) (r : Rec) (f : Val) (args : List Val) (st : St)
    (h : helperCutAt (st.store.size + 1 - k) f args st.store = false) :
    sguardApply k r f args st = applyStep r f args st := by
  simp [sguardApply, h]

theorem helperCutAt_of_sguardApply_ne_timeout (k : Nat) (r : Rec) (f : Val) (args : List Val) (st : St)
    (h : sguardApply k r f args st ≠ .timeout) : helperCutAt (st.store.size + 1 - k) f args st.store = false := by
  cases hc : helperCutAt (st.store.size + 1 - k) f args st.store with
  | false => rfl
  | true => exact absurd (by simp [sguardApply, hc]) h

variable {r r' : Rec}

theorem le_sguardApply_applyStep (k : Nat) (hr : RecLe r r') (f : Val) (args : List Val) :
    Le (sguardApply k r f args) (applyStep r' f args) := by
  intro st h
  have hc := helperCutAt_of_sguardApply_ne_timeout k r f args st h
  rw [sguardApply_of_not_cut k r f args st hc] at h ⊢
  exact le_applyStep hr f args st h

theorem le_sguardApply (k : Nat) (hr : RecLe r r') (f : Val) (args : List Val) :
    Le (sguardApply k r f args) (sguardApply k r' f args) := by
  intro st h
  have hc := helperCutAt_of_sguardApply_ne_timeout k r f args st h
  rw [sguardApply_of_not_cut k r f args st hc] at h ⊢
  rw [sguardApply_of_not_cut k r' f args st hc]
  exact le_applyStep hr f args st h

/-- the slack guard only removes outcomes -/
theorem sguardN_le_evalN (k : Nat) : ∀ n, RecLe (sguardN k n) (evalN n)
  | 0 => ⟨fun _ _ => Le.timeout _, fun _ _ => Le.timeout _⟩
  | n+1 => ⟨fun e ρ => le_evalStep (sguardN_le_evalN k n) e ρ,
            fun f args => le_sguardApply_applyStep k (sguardN_le_evalN k n) f args⟩

theorem sguardN_succ (k : Nat) : ∀ (n : Nat), RecLe (sguardN k n) (sguardN k (n + 1))
  | 0 => ⟨fun _ _ => Le.timeout _, fun _ _ => Le.timeout _⟩
  | n+1 => ⟨fun e ρ => le_evalStep (sguardN_succ k n) e ρ,
            fun f args => le_sguardApply k (sguardN_succ k n) f args⟩

theorem sguardN_mono (k : Nat) {n m : Nat} (h : n ≤ m) : RecLe (sguardN k n) (sguardN k m) := by
  induction h with
  | refl => exact RecLe.refl _
  | step _ ih => exact ih.trans (sguardN_succ k _)

/-- spelled out: where the slack-guarded run is definite it is `Spec.Eval`'s run -/
theorem sguardN_eval_evalN (k n : Nat) (e : Datum) (ρ : Env) (st : St)
    (h : (sguardN k n).eval e ρ st ≠ .timeout) :
    (evalN n).eval e ρ st = (sguardN k n).eval e ρ st :=
  (sguardN_le_evalN k n).eval e ρ st h

theorem sguardN_succ_eval (k n : Nat) (e : Datum) (ρ : Env) :
    (sguardN k (n+1)).eval e ρ = evalStep (sguardN k n) e ρ := rfl

end Marwood.Spec.Eval
