import Marwood.Lemmas.SimMain
/-!
# Heap simulation: a good state is related to itself

`sim_refl`: for a `Good` state, `Sim φ s s` holds with `φ` the identity on the non-free cells. This
discharges the reflexivity premise (`hrefl`) of the C13 / C03 corollaries: the two runs that are compared
start from the *same* state.
-/
namespace Marwood.Lemmas.Sim
open Marwood Marwood.Vm Marwood.Vm.Concrete
open Marwood.Heap (GcState vrefs vrefsList bcRefs crefs lambdaRefs contRefs WFHeap RootsOk Roots)
open Classical

noncomputable def idOn (P : Nat → Prop) : Inj := fun a => if P a then some a else none

variable {φ : Inj}

theorem VRel.refl_of_refs {v : VCell} (hd : ∀ x ∈ vrefs true (eraseV v), AddrRel φ x x) : VRel φ v v := by
  cases v with
  | pair a d => exact .pair (hd _ (by simp [eraseV, vrefs])) (hd _ (by simp [eraseV, vrefs]))
  | closure l e => exact .closure (hd _ (by simp [eraseV, vrefs])) (hd _ (by simp [eraseV, vrefs]))
  | lexEnvPtr e n => exact .lexEnvPtr (hd _ (by simp [eraseV, vrefs]))
  | envPtr e => exact .envPtr (hd _ (by simp [eraseV, vrefs]))
  | instrPtr l o => exact .instrPtr (hd _ (by simp [eraseV, vrefs]))
  | ptr a => exact .ptr (hd _ (by simp [eraseV, vrefs]))
  | _ => exact .atom rfl

theorem VRel.refl_cell {v : VCell} (hp : plainVal v = true) (hd : ∀ x ∈ crefs true (eraseV v), AddrRel φ x x) :
    VRel φ v v := by
  cases v with
  | pair a d => exact .pair (hd _ (by simp [eraseV, crefs])) (hd _ (by simp [eraseV, crefs]))
  | closure l e => exact .closure (hd _ (by simp [eraseV, crefs])) (hd _ (by simp [eraseV, crefs]))
  | lexEnvPtr e n => simp [plainVal] at hp
  | envPtr e => exact .envPtr (hd _ (by simp [eraseV, crefs]))
  | instrPtr l o => simp [plainVal] at hp
  | ptr a => exact .ptr (hd _ (by simp [eraseV, crefs]))
  | _ => exact .atom rfl

theorem VsRel.refl_of_refs {l : List VCell} (hd : ∀ x ∈ vrefsList true (l.map eraseV), AddrRel φ x x) :
    VsRel φ l l := by
  induction l with
  | nil => exact .nil
  | cons c cs ih =>
    refine .cons (VRel.refl_of_refs ?_) (ih ?_)
    · intro x hx; exact hd x (by simp only [List.map_cons, vrefsList, List.mem_append]; exact .inl hx)
    · intro x hx; exact hd x (by simp only [List.map_cons, vrefsList, List.mem_append]; exact .inr hx)

theorem EnvmapRel.refl_of_refs {l : List (VCell × Source)}
    (hd : ∀ x ∈ vrefsList true (l.map fun p => eraseV p.1), AddrRel φ x x) : EnvmapRel φ l l := by
  induction l with
  | nil => exact .nil
  | cons c cs ih =>
    refine .cons ⟨VRel.refl_of_refs ?_, rfl⟩ (ih ?_)
    · intro x hx; exact hd x (by simp only [List.map_cons, vrefsList, List.mem_append]; exact .inl hx)
    · intro x hx; exact hd x (by simp only [List.map_cons, vrefsList, List.mem_append]; exact .inr hx)

theorem BcRel.refl_of_refs {l : List VCell} (hd : ∀ x ∈ bcRefs true false (l.map eraseV), AddrRel φ x x) :
    BcRel φ l l := by
  refine ⟨rfl, ?_⟩
  intro i c c' h1 h2
  rw [h1] at h2; cases h2
  refine ⟨fun _ => rfl, fun hp => VRel.refl_of_refs ?_⟩
  intro x hx
  exact hd x (bcRefs_mem l false false (by intro h; cases h) i c h1 (by rw [prevFrom_false]; exact hp) x hx)

theorem StackRelK.refl_of_refs {K : Nat} {st : Stack}
    (hd : ∀ x ∈ vrefsList true ((st.cells.take (K + 1)).map eraseV), AddrRel φ x x) : StackRelK φ K st st := by
  refine ⟨rfl, rfl, ?_⟩
  intro i hi v v' h1 h2
  rw [h1] at h2; cases h2
  refine VRel.refl_of_refs ?_
  intro x hx
  refine hd x (vrefsList_mem (c := v) ?_ hx)
  rw [List.mem_iff_getElem?]
  exact ⟨i, by rw [List.getElem?_take]; simp [Nat.lt_succ_of_le hi, h1]⟩

theorem vrefsList_take_sub (cells : List VCell) (n : Nat) {y : Nat}
    (hy : y ∈ vrefsList true ((cells.take n).map eraseV)) : y ∈ vrefsList true (cells.map eraseV) := by
  have e : cells = cells.take n ++ cells.drop n := (List.take_append_drop _ _).symm
  rw [e, List.map_append]
  generalize (cells.take n).map eraseV = A at hy
  generalize (cells.drop n).map eraseV = B
  induction A with
  | nil => simp [vrefsList] at hy
  | cons a as ih =>
    simp only [List.cons_append, vrefsList, List.mem_append] at hy ⊢
    rcases hy with h | h
    · exact .inl h
    · exact .inr (ih h)

theorem CellRel.refl_of_refs {c : CCell} (hp : ∀ v, c = CCell.val v → plainVal v = true)
    (hk : ∀ k, c = CCell.cont k → k.stack.sp < k.stack.cells.length)
    (hd : ∀ x ∈ crefs true (eraseC c), AddrRel φ x x) : CellRel φ c c := by
  cases c with
  | val v => exact .val (VRel.refl_cell (hp v rfl) hd)
  | lexEnv ss => exact .lexEnv (VsRel.refl_of_refs hd)
  | vector es => exact .vector (VsRel.refl_of_refs hd)
  | lambda l =>
    simp only [eraseC, crefs, lambdaRefs, if_true] at hd
    refine .lambda (BcRel.refl_of_refs ?_) (VsRel.refl_of_refs ?_) (EnvmapRel.refl_of_refs ?_)
    · intro x hx; exact hd x (List.mem_append.mpr (.inl (List.mem_append.mpr (.inl hx))))
    · intro x hx; exact hd x (List.mem_append.mpr (.inl (List.mem_append.mpr (.inr hx))))
    · intro x hx; exact hd x (List.mem_append.mpr (.inr hx))
  | cont k =>
    simp only [eraseC, crefs, contRefs] at hd
    refine .cont ⟨StackRelK.refl_of_refs ?_, hk k rfl, hd _ (by simp), hd _ (by simp), rfl, rfl⟩
    intro x hx
    exact hd x (List.mem_append.mpr (.inl (vrefsList_take_sub _ _ hx)))

/-- **a good state simulates itself** -/
theorem sim_refl {s : St CHeap} (g : Good s) : ∃ φ, Sim φ s s := by
  let P : Nat → Prop := fun a => (toHeap s.heap).NonFree a
  have hinv : HInv s.heap := HInv.of_wf g.wf
  have hP : ∀ x, (P x ∨ Heap.Sentinel x) → AddrRel (idOn P) x x := by
    intro x hx
    rcases hx with h1 | h1
    · exact .inl (by simp [idOn, h1])
    · exact .inr ⟨rfl, h1⟩
  have hroot : ∀ x ∈ (rootsOf s).refs true, AddrRel (idOn P) x x := fun x hx => hP x (g.roots x hx)
  have hlt : ∀ a, P a → a < s.heap.cells.size := by
    intro a ha
    have := Marwood.Lemmas.HeapWF.nonFree_lt ha
    rw [g.wf.sizes] at this
    simpa [toHeap] using this
  refine ⟨idOn P, ⟨⟨?_, ?_, ?_, ?_, hinv, hinv⟩, ?_, ?_, ?_, ?_, rfl, rfl⟩⟩
  · intro a a' b h1 h2
    unfold idOn at h1 h2
    split at h1 <;> split at h2 <;> simp_all
  · intro a b hab
    unfold idOn at hab
    split at hab
    · rename_i ha
      cases hab
      have hl := hlt a ha
      have hc : s.heap.cells[a]? = some s.heap.cells[a] := Array.getElem?_eq_getElem hl
      have hnf : a ∉ s.heap.free := by
        intro hm
        have := (hinv.free_iff a).mp hm
        rcases ha with h1 | h1 <;> (simp only [toHeap] at h1; rw [this] at h1; cases h1)
      refine ⟨_, _, hc, hc, CellRel.refl_of_refs ?_ ?_ ?_, hnf, hnf⟩
      · intro v hv; exact g.plain.cells a v (by rw [hc, hv])
      · intro k hk; exact g.plain.conts a k (by rw [hc, hk])
      · intro x hx
        refine hP x (g.wf.closed a ha x ?_)
        rw [toHeap_children, hc]; exact hx
    · cases hab
  · -- globals
    have hpl := g.plain.globals
    have hsl : ∀ x, VCell.ptr x ∈ s.heap.globals.toList → AddrRel (idOn P) x x := by
      intro x hx
      refine hroot x (mem_refs_slot ?_)
      simp only [rootsOf]
      exact List.mem_map.mpr ⟨_, hx, rfl⟩
    generalize s.heap.globals.toList = l at hpl hsl
    induction l with
    | nil => exact .nil
    | cons v vs ih =>
      refine .cons ?_ (ih (fun w hw => hpl w (List.mem_cons_of_mem _ hw)) (fun x hx => hsl x (List.mem_cons_of_mem _ hx)))
      have hp := hpl v (List.mem_cons_self ..)
      cases v with
      | ptr a => exact .ptr (hsl a (List.mem_cons_self ..))
      | pair _ _ => simp [plainGlob, isPtr, addrFree] at hp
      | closure _ _ => simp [plainGlob, isPtr, addrFree] at hp
      | lexEnvPtr _ _ => simp [plainGlob, isPtr, addrFree] at hp
      | envPtr _ => simp [plainGlob, isPtr, addrFree] at hp
      | instrPtr _ _ => simp [plainGlob, isPtr, addrFree] at hp
      | _ => exact .atom rfl
  · have hsy : ∀ x ∈ s.heap.globSyms, AddrRel (idOn P) x x :=
      fun x hx => hroot x (mem_refs_syms (by simpa [rootsOf] using hx))
    generalize s.heap.globSyms = l at hsy
    induction l with
    | nil => exact .nil
    | cons v vs ih => exact .cons (hsy v (List.mem_cons_self ..)) (ih (fun x hx => hsy x (List.mem_cons_of_mem _ hx)))
  · exact StackRelK.refl_of_refs (fun x hx => hroot x (mem_refs_stack (by simpa [rootsOf] using hx)))
  · exact VRel.refl_of_refs (fun x hx => hroot x (mem_refs_acc (by simpa [rootsOf] using hx)))
  · exact hroot _ (by simp [Roots.refs, rootsOf])
  · exact hroot _ (by simp [Roots.refs, rootsOf])

/-- a safe state is `R`-related to itself -/
theorem R_refl (m : Machine (St CHeap) Fault) {s : St CHeap} (h : Safe m s) : R m s s :=
  ⟨sim_refl h.good, h, h⟩

end Marwood.Lemmas.Sim
